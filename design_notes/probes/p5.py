import torch, numpy as np, pandas as pd, traceback, warnings, os, tempfile
warnings.filterwarnings('ignore')
import torch_frame as tfm
from torch_frame import stype, TensorFrame
from torch_frame.data import Dataset, DataLoader, MultiNestedTensor as MNT, MultiEmbeddingTensor as MET
from torch_frame.data.stats import StatType
def tryit(name, f):
    try:
        r=f(); print(name,'->',r)
    except Exception as e:
        print(name,'RAISES',type(e).__name__,str(e)[:200])
n=8
df=pd.DataFrame({'mc':['a|b','b',None,' a | c ','','b|b','c','a'], 'num':[1.,2.,None,4.,5.,6.,7.,8.], 'cat':['x','y','x',None,'z','x','y','y'],
  'seq':np.array([[1.,2.],None,[3.],[],[4.,5.,6.],[7.],[8.],[9.]],dtype=object),
  'ts':['2020-01-02','2021-03-04',None,'2019-05-06','2018-07-08','2022-09-10','2017-11-12','2016-01-01'],
  'emb':[[float(i),float(i+1)] for i in range(n)],
  'y':[0,1,0,1,0,1,2,2]})
df=df.astype({'mc':object,'cat':object})
c2s={'mc':stype.multicategorical,'num':stype.numerical,'cat':stype.categorical,'seq':stype.sequence_numerical,'ts':stype.timestamp,'emb':stype.embedding,'y':stype.categorical}
def mk(d,**kw):
    return Dataset(d, c2s, target_col='y', col_to_sep='|', col_to_time_format='%Y-%m-%d').materialize(**kw)
ds=mk(df); tf=ds.tensor_frame
d=tempfile.mkdtemp()
def rt(t, stats=None, name='a.pt'):
    p=os.path.join(d,name); tfm.save(t,stats,p); t2,s2=tfm.load(p); return t2==t, t2.num_rows, (s2.keys() if s2 else None)
tryit('rt full', lambda: rt(tf, ds.col_stats))
tryit('rt slice view', lambda: rt(tf[2:5]))
tryit('rt idx', lambda: rt(tf[[5,1]]))
tryit('rt no y', lambda: rt(TensorFrame(tf.feat_dict, tf.col_names_dict, None)))
tryit('rt 0 rows []', lambda: rt(tf[[]]))
tryit('rt 0 rows slice', lambda: rt(tf[0:0]))
tryit('rt empty num_rows', lambda: rt(TensorFrame({}, {}, None, num_rows=4)))
tryit('rt empty', lambda: rt(TensorFrame({}, {})))
# stats equality
def stats_eq(a,b):
    import math
    def eq(x,y):
        if isinstance(x,torch.Tensor): return isinstance(y,torch.Tensor) and torch.equal(x,y)
        if isinstance(x,(list,tuple)): return len(x)==len(y) and all(eq(i,j) for i,j in zip(x,y))
        if isinstance(x,float) and math.isnan(x): return isinstance(y,float) and math.isnan(y)
        return x==y
    return a.keys()==b.keys() and all(a[k].keys()==b[k].keys() and all(eq(a[k][s],b[k][s]) for s in a[k]) for k in a)
p=os.path.join(d,'cache.pt')
ds1=mk(df,path=p); ds2=mk(df,path=p)
tryit('cache tf eq', lambda: ds2.tensor_frame==tf)
tryit('cache stats eq', lambda: stats_eq(ds2.col_stats, ds.col_stats))
tryit('cache convert', lambda: ds2.convert_to_tensor_frame(df.iloc[[3,1]])==tf[[3,1]])
# truncation
raw=open(p,'rb').read(); print('size',len(raw))
res={}
for cut in list(range(0,len(raw),max(1,len(raw)//60)))+[len(raw)-1]:
    q=os.path.join(d,'cut.pt'); open(q,'wb').write(raw[:cut])
    try:
        t2,s2=tfm.load(q); res[cut]='LOADED eq=%s'%(t2==tf)
    except Exception as e: res[cut]=type(e).__name__
import collections; print(collections.Counter(res.values()))
# materialize with truncated cache
q=os.path.join(d,'cut2.pt'); open(q,'wb').write(raw[:len(raw)//2])
tryit('materialize trunc cache', lambda: mk(df,path=q).tensor_frame==tf)
# col_stats supplied
tryit('materialize w/ col_stats', lambda: (Dataset(df, c2s, target_col='y', col_to_sep='|', col_to_time_format='%Y-%m-%d').materialize(col_stats=ds.col_stats).tensor_frame==tf))

import numpy as np, pandas as pd, warnings
warnings.filterwarnings('ignore')
from torch_frame import stype
from torch_frame.data.stats import compute_col_stats
from torch_frame.data import Dataset
for v in [[[1.,2.],[3.]], [[1.,2.]], [[1.]], [[],[1.]], [[]], [[],[]], [None,[]], [[1.,2.],[3.,4.]], [[1.],[2.],[3.]]]:
    try: print(v, compute_col_stats(pd.Series(v,dtype=object),stype.sequence_numerical))
    except Exception as e: print(v,'RAISES',type(e).__name__,str(e)[:100])

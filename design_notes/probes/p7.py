import torch, numpy as np, pandas as pd, warnings
warnings.filterwarnings('ignore')
from torch_frame import stype
from torch_frame.data import Dataset
from torch_frame.config import TextEmbedderConfig, TextTokenizerConfig, ImageEmbedderConfig
from torch_frame.data.mapper import EmbeddingTensorMapper, TextTokenizationTensorMapper
calls=[]
def emb(xs):
    calls.append(list(xs)); return torch.tensor([[float(len(x)) if isinstance(x,str) else -99., 1.] for x in xs])
for name, ser in [('str-infer', pd.Series(['a','bb',None,'dddd',np.nan])), ('object', pd.Series(['a','bb',None,'dddd',np.nan],dtype=object)), ('labels', pd.Series(['a','bb',None,'dddd',np.nan],index=[5,3,3,1,0]))]:
    for bs in [None,2,5,7]:
        calls.clear()
        try:
            out=EmbeddingTensorMapper(emb,bs).forward(ser)
            print(name,bs,[[type(x).__name__ for x in c] for c in calls], calls, out.values[:,0].tolist())
        except Exception as e: print(name,bs,'RAISES',type(e).__name__,e)
def tok_map(xs):
    calls.append(list(xs)); L=max(len(str(x)) for x in xs); return {'input_ids': torch.tensor([[ord(c) for c in str(x).ljust(L)] for x in xs]), 'attention_mask': torch.ones(len(xs),L,dtype=torch.long)}
def tok_list(xs):
    calls.append(list(xs)); return [{'input_ids': torch.tensor([ord(c) for c in str(x)]), 'attention_mask': torch.ones(len(str(x)),dtype=torch.long)} for x in xs]
ser=pd.Series(['a','bb',None,'dddd',np.nan],dtype=object)
for f in [tok_map,tok_list]:
    for bs in [None,2,5]:
        calls.clear()
        out=TextTokenizationTensorMapper(f,bs).forward(ser)
        m=out['input_ids']; print(f.__name__,bs,calls,[m[i,0].tolist() for i in range(m.num_rows)])
# empty series
try:
    print(EmbeddingTensorMapper(emb,2).forward(pd.Series([],dtype=object)))
except Exception as e: print('empty RAISES',type(e).__name__,e)

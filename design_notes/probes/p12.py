import torch
from torch_frame.nn.conv import FTTransformerConvs, TabTransformerConv, ExcelFormerConv, TromptConv
from torch_frame.nn.decoder import TromptDecoder, ExcelFormerDecoder
torch.manual_seed(0)
B,F,D=5,6,8
x=torch.randn(B,F,D); perm=torch.randperm(F)
with torch.no_grad():
    for dt in [torch.float32, torch.float64]:
        xx=x.to(dt)
        c=FTTransformerConvs(D,num_layers=2,nhead=2).to(dt).eval(); o,cls=c(xx); o2,cls2=c(xx[:,perm]); print('FT', (o[:,perm]-o2).abs().max().item(), (cls-cls2).abs().max().item(), (c(xx[[2,0]])[0]-o[[2,0]]).abs().max().item())
        c=TabTransformerConv(D,2).to(dt).eval(); o=c(xx); print('TabT', (o[:,perm]-c(xx[:,perm])).abs().max().item())
        c=ExcelFormerConv(D,F,2).to(dt).eval(); o=c(xx); x2=xx.clone(); x2[:,4:]+=torch.randn(B,2,D).to(dt); o2=c(x2); print('Excel causal', (o[:,:4]-o2[:,:4]).abs().max().item(), 'dep', (o[:,4:]-o2[:,4:]).abs().max().item())
        x3=xx.clone(); x3[:,0]+=1.0; o3=c(x3); print('  col0 influences', [(o[:,i]-o3[:,i]).abs().max().item()>0 for i in range(F)])
        c=TromptConv(D,F,3).to(dt).eval(); xp=torch.randn(B,3,D).to(dt); print('Trompt', c(xx,xp).shape)
        try: c(xx[:,:5],xp)
        except AssertionError: print(' trompt rejects')
        d=TromptDecoder(D,2,3).to(dt).eval(); print(d(xp).shape, d(xp[:0]).shape)
        try: d(xx)
        except AssertionError: print(' trompt dec rejects')
        d=ExcelFormerDecoder(D,2,F).to(dt).eval(); print(d(xx).shape, d(xx[:0]).shape, (d(xx[[3,1]])-d(xx)[[3,1]]).abs().max().item())

import torch, numpy as np, pandas as pd, traceback, warnings
warnings.filterwarnings('ignore')
import torch_frame as tfm
from torch_frame import stype
from torch_frame.data import Dataset
from torch_frame.data.stats import StatType, compute_col_stats
def tryit(name, f):
    try:
        r=f(); print(name,'->',r)
    except Exception as e:
        print(name,'RAISES',type(e).__name__,str(e)[:160])

# C01 multicat with object vs str dtype
df=pd.DataFrame({'mc':['a|b','b',None,' a | c ','','b|b'], 'num':[1.,2.,None,4.,5.,6.], 'cat':['x','y','x',None,'z','x'],'y':[0,1,0,1,0,1]})
print(df.dtypes.to_dict())
def mat(df, **kw):
    ds=Dataset(df, {'mc':stype.multicategorical,'num':stype.numerical,'cat':stype.categorical,'y':stype.categorical}, target_col='y', col_to_sep='|', **kw)
    ds.materialize(); return ds
tryit('materialize str dtype', lambda: mat(df).tensor_frame)
df2=df.astype({'mc':object,'cat':object})
print(df2.dtypes.to_dict())
def show(ds):
    t=ds.tensor_frame
    m=t.feat_dict[stype.multicategorical]
    return dict(mc=[[sorted(m[i,j].tolist()) for j in range(m.num_cols)] for i in range(m.num_rows)], cat=t.feat_dict[stype.categorical].tolist(), num=t.feat_dict[stype.numerical].tolist(), y=t.y.tolist(), stats={k:v for k,v in ds.col_stats.items()})
tryit('materialize object dtype', lambda: show(mat(df2)))
# index labelings
for name, idx in [('offset',[10,11,12,13,14,15]),('perm',[3,1,5,0,2,4]),('str',list('abcdef')),('dup',[0,0,1,1,2,2])]:
    d=df2.copy(); d.index=idx
    tryit('materialize idx '+name, lambda: show(mat(d))['mc'])
# embedding column w/ labels
emb=pd.DataFrame({'e':[[1.,2.],[3.,4.],[5.,6.]], 'y':[1.,2.,3.]})
def mate(d):
    ds=Dataset(d,{'e':stype.embedding,'y':stype.numerical},target_col='y'); ds.materialize(); return ds.tensor_frame.feat_dict[stype.embedding].values.tolist(), ds.col_stats['e']
tryit('emb default', lambda: mate(emb))
e2=emb.copy(); e2.index=[5,6,7]; tryit('emb offset idx', lambda: mate(e2))
e3=emb.copy(); e3.index=list('abc'); tryit('emb str idx', lambda: mate(e3))
e4=pd.DataFrame({'e':[None,[3.,4.],[5.,6.]], 'y':[1.,2.,3.]}); tryit('emb first missing', lambda: mate(e4))
# timestamp unparseable
ts=pd.DataFrame({'t':['2020-01-02 03:04:05','garbage',None,'1999-12-31 23:59:59'],'y':[1.,2.,3.,4.]})
def matt(d, fmt=None):
    ds=Dataset(d,{'t':stype.timestamp,'y':stype.numerical},target_col='y', col_to_time_format=fmt); ds.materialize(); return ds.tensor_frame.feat_dict[stype.timestamp].tolist(), ds.col_stats['t']
tryit('ts unparseable, fmt', lambda: matt(ts,'%Y-%m-%d %H:%M:%S'))
tryit('ts unparseable, nofmt', lambda: matt(ts))
ts2=pd.DataFrame({'t':['2020-01-02 03:04:05',None,'1999-12-31 23:59:59','1700-06-15 00:00:00','2200-02-28 12:00:00'],'y':[1.,2.,3.,4.,5.]})
tryit('ts ok fmt', lambda: matt(ts2,'%Y-%m-%d %H:%M:%S'))
tryit('ts ok nofmt', lambda: matt(ts2))
ts3=ts2.copy(); ts3['t']=pd.to_datetime(ts3['t']); print(ts3.dtypes.to_dict()); tryit('ts datetime64', lambda: matt(ts3))
# all-missing columns
am=pd.DataFrame({'n':[None,None],'c':[None,None],'y':[1.,2.]})
def matam(d):
    ds=Dataset(d,{'n':stype.numerical,'c':stype.categorical,'y':stype.numerical},target_col='y'); ds.materialize(); return ds.tensor_frame.feat_dict, ds.col_stats
tryit('all missing', lambda: matam(am))

import torch, random, sys, collections, math, warnings, datetime, traceback
import numpy as np, pandas as pd
warnings.filterwarnings('ignore')
import torch_frame
from torch_frame import stype, TensorFrame
from torch_frame.data import Dataset
from torch_frame.data.stats import StatType
rng=random.Random(int(sys.argv[1]))
CATS=['a','b','c','d','é','']
TOK=['x','y','z','w']
def gen_df(n):
    cols={}; c2s={}; abstract={}
    k=0
    def miss(): return rng.random()<0.2
    for st in ['num','num','cat','cat','mc','seq','ts','emb']:
        if rng.random()<0.35 and k>0: continue
        name=f"{rng.choice('qrstuv')}{k}_{st}"; k+=1
        if st=='num':
            v=[None if miss() else rng.choice([0.5,1.0,-2.25,3.0,100.0,float('inf'),-float('inf')]) if rng.random()<.3 else float(rng.randint(-5,5)) for _ in range(n)]
            if all(x is None for x in v): v[0]=1.0
            cols[name]=pd.Series(v,dtype='float64'); c2s[name]=stype.numerical
        elif st=='cat':
            v=[None if miss() else rng.choice(CATS[:rng.randint(1,6)]) for _ in range(n)]
            if all(x is None for x in v): v[0]='a'
            cols[name]=pd.Series(v,dtype=rng.choice([object,'str'])); c2s[name]=stype.categorical
        elif st=='mc':
            def cell():
                if miss(): return None
                t=[rng.choice(TOK) for _ in range(rng.randint(0,3))]
                return '|'.join((' '*rng.randint(0,1))+x+(' '*rng.randint(0,1)) for x in t)
            v=[cell() for _ in range(n)]
            if all(x is None or x.strip()=='' for x in v): v[0]='x'
            cols[name]=pd.Series(v,dtype=rng.choice([object,'str'])); c2s[name]=stype.multicategorical
        elif st=='seq':
            v=[None if miss() else [rng.choice([1.0,2.0,float('nan'),-3.5]) for _ in range(rng.randint(0,3))] for _ in range(n)]
            if not any(x for x in v if x): v[0]=[1.0]
            cols[name]=pd.Series(v,dtype=object); c2s[name]=stype.sequence_numerical
        elif st=='ts':
            v=[None if miss() else datetime.datetime(rng.randint(1700,2200),rng.randint(1,12),rng.randint(1,28),rng.randint(0,23),rng.randint(0,59),rng.randint(0,59)).strftime('%Y-%m-%d %H:%M:%S') for _ in range(n)]
            if all(x is None for x in v): v[0]='2000-01-01 00:00:00'
            cols[name]=pd.Series(v,dtype=rng.choice([object,'str'])); c2s[name]=stype.timestamp
        elif st=='emb':
            d=rng.randint(1,3); cols[name]=pd.Series([[float(rng.randint(0,9)) for _ in range(d)] for _ in range(n)],dtype=object); c2s[name]=stype.embedding
    ykind=rng.choice(['reg','bin','multi',None])
    if ykind=='reg': cols['target']=pd.Series([float(rng.randint(0,9)) for _ in range(n)]); c2s['target']=stype.numerical
    elif ykind=='bin':
        v=[rng.choice(['no','yes']) for _ in range(n)]; v[0]='no'; 
        if n>1: v[1]='yes'
        cols['target']=pd.Series(v,dtype=object); c2s['target']=stype.categorical
    elif ykind=='multi':
        v=[rng.choice(['k1','k2','k3']) for _ in range(n)]; cols['target']=pd.Series(v,dtype=object); c2s['target']=stype.categorical
    cols['split']=pd.Series([rng.choice([0,0,1,2]) for _ in range(n)]); cols['rid']=pd.Series([float(i) for i in range(n)]); c2s['rid']=stype.numerical
    df=pd.DataFrame(cols)
    return df,c2s,('target' if ykind else None)
def mk(df,c2s,tgt): return Dataset(df,c2s,target_col=tgt,split_col='split',col_to_sep='|',col_to_time_format='%Y-%m-%d %H:%M:%S').materialize()
def canon(tf):
    out={}
    for st,names in tf.col_names_dict.items():
        f=tf.feat_dict[st]
        for j,nm in enumerate(names):
            if isinstance(f,torch.Tensor): out[nm]=[str(x) for x in f[:,j].tolist()]
            else: out[nm]=[str(sorted(f[i,j].tolist()) if st==stype.multicategorical else f[i,j].tolist()) for i in range(f.num_rows)]
    out['__y']=None if tf.y is None else [str(x) for x in tf.y.tolist()]
    return out
def rows(c,idx): return {k:(None if v is None else [v[i] for i in idx]) for k,v in c.items()}
fails=[]; st=collections.Counter()
def rec(kind,info): fails.append((kind,info))
for it in range(int(sys.argv[2])):
    n=rng.randint(1,8); df,c2s,tgt=gen_df(n)
    try:
        ds=mk(df,c2s,tgt); tf=ds.tensor_frame; base=canon(tf)
    except Exception as e:
        rec('materialize',(repr(e)[:200],df.to_dict('list'))); continue
    st['mat']+=1
    # C02 relabel / column perm
    for lab in ['offset','perm','str','dup']:
        d2=df.copy()
        d2.index={'offset':list(range(10,10+n)),'perm':rng.sample(range(n),n),'str':[f'r{i}' for i in range(n)],'dup':[i//2 for i in range(n)]}[lab]
        try:
            ds2=mk(d2,c2s,tgt)
            if canon(ds2.tensor_frame)!=base or not (ds2.tensor_frame==tf): rec('relabel '+lab,df.to_dict('list'))
            else: st['relabel ok']+=1
            if str(ds2.col_stats)!=str(ds.col_stats): rec('relabel stats '+lab,(str(ds2.col_stats)[:300],str(ds.col_stats)[:300]))
        except Exception as e: rec('relabel raise '+lab,(repr(e)[:200],df.to_dict('list')))
    cp=list(df.columns); rng.shuffle(cp); c2p={c:c2s[c] for c in cp if c in c2s}
    try:
        ds3=mk(df[cp],c2p,tgt)
        if canon(ds3.tensor_frame)!=base or not (ds3.tensor_frame==tf) or ds3.tensor_frame.col_names_dict!=tf.col_names_dict: rec('colperm',df.to_dict('list'))
        else: st['colperm ok']+=1
    except Exception as e: rec('colperm raise',(repr(e)[:200]))
    # schema
    for s_,names in tf.col_names_dict.items():
        if s_!=stype.embedding and names!=sorted(names): rec('unsorted',names)
    if tgt and any(tgt in v for v in tf.col_names_dict.values()): rec('target in feats',0)
    if len(tf)!=n: rec('len',0)
    # C04 converter rows
    conv=ds.convert_to_tensor_frame
    for _ in range(3):
        idx=[rng.randrange(n) for _ in range(rng.randint(1,6))]
        try:
            got=canon(conv(df.iloc[idx]))
            if got!=rows(base,idx): rec('convert rows',(idx,df.to_dict('list')))
            else: st['conv ok']+=1
            if canon(tf[idx])!=rows(base,idx): rec('tf[idx]',(idx,))
        except Exception as e: rec('convert raise',(repr(e)[:200],idx))
    # C07 row selections incl. overshoot
    for ix in [slice(1,n+3),slice(-n-2,2),slice(None,None,2),[ ],torch.tensor([i%2==0 for i in range(n)]),range(n-1,-1,-1),n-1,-1,slice(n,n+2),slice(0,0)]:
        try:
            exp=list(range(n))[ix] if not isinstance(ix,(list,torch.Tensor,range,int)) else ([i for i in range(n) if i%2==0] if isinstance(ix,torch.Tensor) else ([ix%n] if isinstance(ix,int) else list(ix)))
            sub=tf[ix]
            if canon(sub)!=rows(base,exp) or len(sub)!=len(exp): rec('tf select',(str(ix),))
            else: st['tfsel ok']+=1
            # get_col_feat on result
            for nm in base:
                if nm!='__y': sub.get_col_feat(nm)
            # chain
            if len(exp)>0 and canon(sub[::-1] if False else sub[[len(exp)-1]])!=rows(base,[exp[-1]]): rec('tf chain',(str(ix),))
        except Exception as e: rec('tf select raise',(str(ix),repr(e)[:200]))
    # C09 histories
    try:
        cur=ds; cur_ids=list(range(n))
        for _ in range(rng.randint(1,5)):
            op=rng.choice(['shuffle','slice','list','split','fslice'])
            m=len(cur_ids)
            if op=='shuffle':
                cur,perm=cur.shuffle(return_perm=True); cur_ids=[cur_ids[i] for i in perm.tolist()]
            elif op=='slice':
                a,b=rng.randint(-m-1,m+1),rng.randint(-m-1,m+2); cur=cur[a:b]; cur_ids=cur_ids[a:b]
            elif op=='list':
                if m==0: continue
                ix=[rng.randrange(m) for _ in range(rng.randint(0,4))]; cur=cur[ix]; cur_ids=[cur_ids[i] for i in ix]
            elif op=='fslice':
                f=rng.choice([0.25,0.5,0.75]); cur=cur[:f]; cur_ids=cur_ids[:round(f*m)]
            else:
                s_=rng.choice(['train','val','test']); k_={'train':0,'val':1,'test':2}[s_]
                cur=cur.get_split(s_); cur_ids=[i for i in cur_ids if df['split'].iloc[i]==k_]
            got_df=[int(x) for x in cur.df['rid'].tolist()]
            t_=cur.tensor_frame; got_tf=[int(x) for x in t_.feat_dict[stype.numerical][:,t_.col_names_dict[stype.numerical].index('rid')].tolist()]
            if got_df!=cur_ids or got_tf!=cur_ids: rec('history',(op,got_df,got_tf,cur_ids)); break
            st['hist ok']+=1
        if canon(ds.tensor_frame)!=base or len(ds.df)!=n: rec('parent changed',0)
    except Exception as e: rec('history raise',(op,repr(e)[:200]))
print(st,'fails',len(fails))
seen=set()
for k,i in fails:
    key=(k,str(i)[:60])
    if k in [x[0] for x in seen] and len([x for x in seen if x[0]==k])>=3: continue
    seen.add(key); print(k,str(i)[:500])

import torch, random, sys, collections
from torch_frame.data import MultiNestedTensor as MNT, MultiEmbeddingTensor as MET
import torch_frame
rng=random.Random(int(sys.argv[1]))
def mk_mnt(R,C,flt):
    cells=[[[ (rng.choice([float('nan'),1.,2.,3.]) if flt else rng.randint(-1,9)) for _ in range(rng.choice([0,0,1,2,3]))] for _ in range(C)] for _ in range(R)]
    return MNT.from_tensor_mat([[torch.tensor(c,dtype=torch.float32 if flt else torch.long) for c in row] for row in cells]),cells
def mk_met(R,C):
    dims=[rng.choice([1,1,2,3]) for _ in range(C)]
    cells=[[[float(rng.randint(0,9)) for _ in range(d)] for d in dims] for _ in range(R)]
    return MET.from_tensor_list([torch.tensor([[cells[i][j][k] for k in range(dims[j])] for i in range(R)]).view(R,dims[j]) for j in range(C)]),cells
def cells_of(m): return [[m[i,j].tolist() for j in range(m.num_cols)] for i in range(m.num_rows)]
def same(a,b): 
    import math
    return str(a)==str(b)
fails=[]; st=collections.Counter()
for it in range(int(sys.argv[2])):
    is_met=rng.random()<.5; R,C=rng.randint(1,5),rng.randint(1,4)
    m,cells=mk_met(R,C) if is_met else mk_mnt(R,C,rng.random()<.5)
    cls=MET if is_met else MNT
    dim=rng.choice([0,1]); n=R if dim==0 else C
    k=rng.randint(1,4); cuts=sorted(rng.randint(0,n) for _ in range(k-1)); bounds=[0]+cuts+[n]
    mode=rng.choice(['slice','list','narrow'])
    parts=[]
    for a,b in zip(bounds[:-1],bounds[1:]):
        if mode=='slice': p=m[a:b] if dim==0 else m[:,a:b]
        elif mode=='list': p=m[list(range(a,b))] if dim==0 else m[:,list(range(a,b))]
        else: p=m.narrow(dim,a,b-a)
        parts.append(p)
    try:
        for fn in [lambda: cls.cat(parts,dim=dim), lambda: torch_frame.cat(parts,dim=dim)]:
            r=fn()
            assert same(cells_of(r),cells) and r.num_rows==R and r.num_cols==C, ('cat',cells_of(r),cells)
            assert cls.allclose(r,m,equal_nan=True), 'allclose'
        st['cat ok']+=1
    except Exception as e:
        fails.append(('cat',is_met,dim,mode,bounds,cells,repr(e)[:300]))
    # mismatch
    if n>=2:
        try:
            bad=[m, (m[:R-1] if dim==1 else m[:, :C-1])]
            try: cls.cat(bad,dim=dim); 
            except (RuntimeError,AssertionError): st['mismatch raised']+=1
            else:
                if (R-1 if dim==1 else C-1)>=0: fails.append(('mismatch not rejected',is_met,dim,cells))
        except Exception as e: fails.append(('mm',repr(e)))
    # clone
    c=m.clone(); assert cls.allclose(c,m,equal_nan=True) and (m.values.numel()==0 or c.values.data_ptr()!=m.values.data_ptr())
    if not is_met:
        if sum(len(x) for row in cells for x in row)>0:
            d=m.to_dense(-7); L=max(len(x) for row in cells for x in row)
            exp=[[x+[-7]*(L-len(x)) for x in row] for row in cells]
            if not same(d.tolist(), [[[float(v) if m.is_floating_point() else v for v in x] for x in row] for row in exp]) : fails.append(('dense',cells,d.tolist()))
        col=rng.randrange(C); c=m.clone(); fill=rng.choice([0,5]); c.fillna_col(col,fill)
        import math
        miss=lambda v: (isinstance(v,float) and math.isnan(v)) if m.is_floating_point() else v==-1
        exp=[[[ (fill if miss(v) else v) for v in x] if j==col else x for j,x in enumerate(row)] for row in cells]
        if not same(cells_of(c), [[[float(v) if m.is_floating_point() else v for v in x] for x in row] for row in exp]): fails.append(('fill',cells,col,cells_of(c)))
        # fill on selection result
        v=m[:, [C-1]+list(range(C-1))] if C>1 else m[[0]]
print(st,'fails',len(fails))
for f in fails[:8]: print(str(f)[:400])

import torch, random, sys, collections, math, warnings
import numpy as np, pandas as pd
warnings.filterwarnings('ignore')
from torch_frame import stype, NAStrategy
from torch_frame.data import Dataset, MultiNestedTensor as MNT, MultiEmbeddingTensor as MET
from torch_frame.data.stats import StatType
from torch_frame.nn.encoder import *
torch.manual_seed(int(sys.argv[1])); rng=random.Random(int(sys.argv[1]))
fails=[]; st=collections.Counter()
def stats_num(): 
    q=sorted(rng.uniform(-3,3) for _ in range(5)); return {StatType.MEAN:rng.uniform(-1,1),StatType.STD:rng.choice([0.,rng.uniform(.1,2)]),StatType.QUANTILES:q}
def rand_params(m):
    with torch.no_grad():
        for n_,p in m.named_parameters():
            if 'emb' in n_ and p.dim()==2:
                p[1:].normal_()   # keep padding row
            else: p.normal_()
for it in range(int(sys.argv[2])):
    B=rng.randint(1,5); C=rng.randint(1,3); ch=rng.choice([2,4])
    # ---------- numerical encoders
    for cls in [LinearEncoder,StackEncoder,LinearBucketEncoder,LinearPeriodicEncoder,ExcelFormerEncoder]:
        for na in [None,NAStrategy.MEAN,NAStrategy.ZEROS]:
            sl=[stats_num() for _ in range(C)]
            e=cls(ch,sl,stype.numerical,na_strategy=na).eval(); rand_params(e)
            x=torch.tensor([[rng.choice([float('nan'),rng.uniform(-4,4),10.,-10.]) for _ in range(C)] for _ in range(B)])
            x0=x.clone(); out=e(x)
            if not torch.equal(torch.nan_to_num(x,nan=777),torch.nan_to_num(x0,nan=777)): fails.append(('mutated',cls.__name__,na))
            if not torch.isfinite(out).all(): fails.append(('nonfinite',cls.__name__,na,x.tolist(),sl))
            r,c=rng.randrange(B),rng.randrange(C)
            x2=x.clone(); x2[r,c]=rng.uniform(-4,4); out2=e(x2)
            mask=torch.ones(B,C,dtype=torch.bool); mask[r,c]=False
            if not torch.equal(out[mask],out2[mask]): fails.append(('nonlocal',cls.__name__,na,(r,c)))
            perm=torch.randperm(B)
            if not torch.allclose(e(x[perm]),out[perm],atol=1e-6): fails.append(('rowperm',cls.__name__,na))
            nanpos=torch.isnan(x)
            if na is None:
                if nanpos.any() and out[nanpos].abs().max()!=0: fails.append(('nan not zero',cls.__name__,x.tolist()))
            else:
                fill=torch.tensor([s_[StatType.MEAN] if na==NAStrategy.MEAN else 0. for s_ in sl])
                xi=torch.where(nanpos,fill.expand(B,C),x)
                en=cls(ch,sl,stype.numerical,na_strategy=None).eval(); en.load_state_dict(e.state_dict(),strict=False)
                if not torch.allclose(en(xi),out,atol=1e-6): fails.append(('impute',cls.__name__,na))
            st[cls.__name__]+=1
    # ---------- categorical
    ncat=[rng.randint(1,4) for _ in range(C)]
    sl=[{StatType.COUNT:(list(range(k)),list(range(k,0,-1)))} for k in ncat]
    for na in [None,NAStrategy.MOST_FREQUENT]:
        e=EmbeddingEncoder(ch,sl,stype.categorical,na_strategy=na).eval(); rand_params(e)
        x=torch.tensor([[rng.randint(-1,ncat[c]-1) for c in range(C)] for _ in range(B)]); x0=x.clone(); out=e(x)
        if not torch.equal(x,x0): fails.append(('mutated','Emb',na))
        # distinct (col,cat) -> rows of table distinct: compare with manual lookup
        off=[0]; 
        for k in ncat[:-1]: off.append(off[-1]+k)
        xx=x.clone()
        if na is not None: xx[xx<0]=0
        exp=torch.stack([torch.stack([ (e.emb.weight[off[c]+int(xx[b,c])+1] if xx[b,c]>=0 else torch.zeros(ch)) for c in range(C)]) for b in range(B)])
        if not torch.allclose(exp,out): fails.append(('emb lookup',na,x.tolist(),ncat))
        st['Emb']+=1
    # ---------- multicategorical
    for mode in ['mean','sum','max']:
        for na in [None,NAStrategy.ZEROS]:
            sl=[{StatType.MULTI_COUNT:(list(range(k)),list(range(k,0,-1)))} for k in ncat]
            e=MultiCategoricalEmbeddingEncoder(ch,sl,stype.multicategorical,na_strategy=na,mode=mode).eval()
            with torch.no_grad():
                for emb in e.embs: emb.weight[1:].normal_()
            cells=[[ ([-1] if rng.random()<.25 else rng.sample(range(ncat[c]),rng.randint(0,ncat[c]))) for c in range(C)] for _ in range(B)]
            m=MNT.from_tensor_mat([[torch.tensor(cl,dtype=torch.long) for cl in row] for row in cells]); v0=m.values.clone(); out=e(m)
            if not torch.equal(m.values,v0): fails.append(('mutated','MC',mode,na))
            for b in range(B):
                for c in range(C):
                    cl=cells[b][c]
                    if na is not None: cl=[0 if t==-1 else t for t in cl]
                    ids=[t+1 for t in cl if t!=-1]
                    W=e.embs[c].weight
                    if not ids: exp=torch.zeros(ch)
                    elif mode=='mean': exp=W[ids].mean(0)
                    elif mode=='sum': exp=W[ids].sum(0)
                    else: exp=W[ids].max(0).values
                    if not torch.allclose(out[b,c],exp,atol=1e-6): fails.append(('mc cell',mode,na,cells[b][c],out[b,c].tolist(),exp.tolist()))
            st['MC']+=1
    # ---------- timestamp
    for na in [None,NAStrategy.MEDIAN_TIMESTAMP,NAStrategy.OLDEST_TIMESTAMP,NAStrategy.NEWEST_TIMESTAMP]:
        def rt(y0=1990): return [rng.randint(y0,2030),rng.randint(0,11),rng.randint(0,30),rng.randint(0,6),rng.randint(0,23),rng.randint(0,59),rng.randint(0,59)]
        sl=[{StatType.YEAR_RANGE:[1990,2030],StatType.NEWEST_TIME:torch.tensor(rt()),StatType.OLDEST_TIME:torch.tensor(rt()),StatType.MEDIAN_TIME:torch.tensor(rt())} for _ in range(C)]
        e=TimestampEncoder(ch,sl,stype.timestamp,na_strategy=na).eval(); rand_params(e)
        x=torch.tensor([[ ([-1]*7 if rng.random()<.3 else rt()) for _ in range(C)] for _ in range(B)]); x0=x.clone()
        try:
            out=e(x)
        except Exception as ex:
            fails.append(('ts raise',na,type(ex).__name__)); continue
        if not torch.equal(x,x0): fails.append(('mutated','TS',na))
        miss=(x<0).any(-1)
        if na is None:
            if miss.any() and out[miss].abs().max()!=0: fails.append(('ts nan not zero',))
        else:
            key={NAStrategy.MEDIAN_TIMESTAMP:StatType.MEDIAN_TIME,NAStrategy.OLDEST_TIMESTAMP:StatType.OLDEST_TIME,NAStrategy.NEWEST_TIMESTAMP:StatType.NEWEST_TIME}[na]
            xi=x.clone()
            for c in range(C): xi[miss[:,c],c]=sl[c][key]
            en=TimestampEncoder(ch,sl,stype.timestamp,na_strategy=None).eval(); en.load_state_dict(e.state_dict(),strict=False)
            if not torch.allclose(en(xi),out,atol=1e-6): fails.append(('ts impute',na))
        r,c=rng.randrange(B),rng.randrange(C); x2=x.clone(); x2[r,c]=torch.tensor(rt()); out2=e(x2); mask=torch.ones(B,C,dtype=torch.bool); mask[r,c]=False
        if not torch.equal(out[mask],out2[mask]): fails.append(('ts nonlocal',na))
        st['TS']+=1
    # ---------- embedding
    dims=[rng.randint(1,3) for _ in range(C)]
    sl=[{StatType.EMB_DIM:d} for d in dims]
    e=LinearEmbeddingEncoder(ch,sl,stype.embedding).eval(); rand_params(e)
    t=MET.from_tensor_list([torch.randn(B,d) for d in dims]);
    if rng.random()<.5: t.values[rng.randrange(B),rng.randrange(sum(dims))]=float('nan')
    out=e(t)
    for c in range(C):
        exp=torch.nan_to_num(t.values[:,sum(dims[:c]):sum(dims[:c+1])]@e.weight_list[c]+e.biases[c],nan=0)
        if not torch.allclose(exp,out[:,c],atol=1e-6): fails.append(('embenc',c))
    st['LinEmb']+=1
print(st,'fails',len(fails))
seen=set()
for f in fails:
    k=str(f[:3])
    if k in seen: continue
    seen.add(k); print(str(f)[:500])

import torch, numpy as np, pandas as pd, warnings
warnings.filterwarnings('ignore')
from torch_frame import stype
from torch_frame.data import Dataset
def tryit(name, f):
    try:
        r=f(); print(name,'->',r)
    except Exception as e:
        print(name,'RAISES',type(e).__name__,str(e)[:160])
for name,cells in [('none mid',[[1.,2.],None,[5.,6.]]),('nan mid',[[1.,2.],float('nan'),[5.,6.]]),('nan inside',[[1.,float('nan')],[3.,4.],[5.,6.]])]:
    d=pd.DataFrame({'e':cells,'y':[1.,2.,3.]})
    def f():
        ds=Dataset(d,{'e':stype.embedding,'y':stype.numerical},target_col='y').materialize(); return ds.tensor_frame.feat_dict[stype.embedding].values.tolist(), ds.col_stats['e']
    tryit(name,f)
# numerical sequence with numpy arrays / tuples
for name,cells in [('np arrays',[np.array([1.,2.]),None,np.array([3.])]),('lists',[[1.,2.],None,[3.]]),('nan cell',[[1.,2.],float('nan'),[3.]])]:
    d=pd.DataFrame({'s':pd.Series(cells,dtype=object),'y':[1.,2.,3.]})
    def g():
        ds=Dataset(d,{'s':stype.sequence_numerical,'y':stype.numerical},target_col='y').materialize(); m=ds.tensor_frame.feat_dict[stype.sequence_numerical]; return [m[i,0].tolist() for i in range(3)], ds.col_stats['s']
    tryit('seq '+name,g)

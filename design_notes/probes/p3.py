import torch, numpy as np, pandas as pd, traceback, warnings
warnings.filterwarnings('ignore')
import torch_frame as tfm
from torch_frame import stype
from torch_frame.data import Dataset
from torch_frame.data.stats import StatType, compute_col_stats
def tryit(name, f):
    try:
        r=f(); print(name,'->',r)
    except Exception as e:
        print(name,'RAISES',type(e).__name__,str(e)[:200])
# C03 stats
tryit('num all nan', lambda: compute_col_stats(pd.Series([np.nan,np.nan]), stype.numerical))
tryit('num inf', lambda: compute_col_stats(pd.Series([np.inf,1.,-np.inf,3.,np.nan]), stype.numerical))
tryit('num only inf', lambda: compute_col_stats(pd.Series([np.inf,-np.inf]), stype.numerical))
tryit('cat ties', lambda: compute_col_stats(pd.Series(['b','a','c','a','b','c'],dtype=object), stype.categorical))
tryit('cat ties2', lambda: compute_col_stats(pd.Series(['c','b','a','a','b','c','d'],dtype=object), stype.categorical))
tryit('cat all none', lambda: compute_col_stats(pd.Series([None,None],dtype=object), stype.categorical))
tryit('mc empties', lambda: compute_col_stats(pd.Series(['', None, 'a|a|b',' b '],dtype=object), stype.multicategorical, sep='|'))
tryit('mc only empties', lambda: compute_col_stats(pd.Series(['', ''],dtype=object), stype.multicategorical, sep='|'))
tryit('mc list', lambda: compute_col_stats(pd.Series([['a','b'], None, [], ['b','b']],dtype=object), stype.multicategorical, sep=None))
tryit('seq', lambda: compute_col_stats(pd.Series([[1.,np.nan,3.], None, [], [np.inf, 5.]],dtype=object), stype.sequence_numerical))
tryit('seq allnan', lambda: compute_col_stats(pd.Series([[np.nan], None],dtype=object), stype.sequence_numerical))
tryit('seq single', lambda: compute_col_stats(pd.Series([[2.0]],dtype=object), stype.sequence_numerical))
tryit('ts even', lambda: compute_col_stats(pd.Series(['2020-01-01','2018-01-01',None,'2019-01-01','2021-01-01']), stype.timestamp, time_format='%Y-%m-%d'))
tryit('ts odd', lambda: compute_col_stats(pd.Series(['2020-01-01','2018-01-01',None,'2019-01-01']), stype.timestamp, time_format='%Y-%m-%d'))
tryit('ts allnone', lambda: compute_col_stats(pd.Series([None,None],dtype=object), stype.timestamp, time_format='%Y-%m-%d'))
tryit('emb', lambda: compute_col_stats(pd.Series([[1.,2.,3.],[2.,3.,4.]]), stype.embedding))
tryit('emb allnone', lambda: compute_col_stats(pd.Series([None,None],dtype=object), stype.embedding))
# binary target sort
df=pd.DataFrame({'x':[1.,2.,3.,4.,5.],'y':['b','b','b','a','a']})
ds=Dataset(df,{'x':stype.numerical,'y':stype.categorical},target_col='y').materialize()
print(ds.col_stats['y'], ds.tensor_frame.y, ds.task_type, ds.num_classes)
df=pd.DataFrame({'x':[1.,2.,3.,4.,5.],'y':['b','b','b','a','c']})
ds=Dataset(df,{'x':stype.numerical,'y':stype.categorical},target_col='y').materialize()
print(ds.col_stats['y'], ds.tensor_frame.y, ds.task_type, ds.num_classes)
df=pd.DataFrame({'x':[1.,2.,3.,4.,5.],'y':[True,True,False,True,False]})
ds=Dataset(df,{'x':stype.numerical,'y':stype.categorical},target_col='y').materialize()
print(ds.col_stats['y'], ds.tensor_frame.y, ds.task_type, ds.num_classes)
# single-class target
df=pd.DataFrame({'x':[1.,2.],'y':['a','a']})
ds=Dataset(df,{'x':stype.numerical,'y':stype.categorical},target_col='y').materialize()
tryit('single-class num_classes', lambda: ds.num_classes)

import torch, random, sys, collections, math, warnings, statistics
from fractions import Fraction
import numpy as np, pandas as pd
warnings.filterwarnings('ignore')
from torch_frame import stype
from torch_frame.data.stats import StatType, compute_col_stats
rng=random.Random(int(sys.argv[1])); fails=[]; st=collections.Counter()
def close(a,b): 
    if isinstance(a,float) and math.isnan(a): return isinstance(b,float) and math.isnan(b)
    return abs(a-b)<=1e-9*max(1,abs(a),abs(b))
def quant(xs,q):
    xs=sorted(xs); n=len(xs); pos=(n-1)*q; lo=math.floor(pos); hi=min(lo+1,n-1); return xs[lo]+(pos-lo)*(xs[hi]-xs[lo])
for it in range(int(sys.argv[2])):
    n=rng.randint(1,9)
    # numerical
    v=[rng.choice([None,float('inf'),-float('inf')]) if rng.random()<.3 else float(rng.choice([rng.randint(-5,5),0.5,2.25,1e6,-1e-3])) for _ in range(n)]
    s=compute_col_stats(pd.Series(v,dtype='float64'),stype.numerical)
    fin=[x for x in v if x is not None and math.isfinite(x)]
    if fin:
        exp=(statistics.fmean(fin), statistics.pstdev(fin), [quant(fin,q) for q in [0,.25,.5,.75,1]])
        if not(close(s[StatType.MEAN],exp[0]) and close(s[StatType.STD],exp[1]) and all(close(a,b) for a,b in zip(s[StatType.QUANTILES],exp[2]))): fails.append(('num',v,s,exp))
    else:
        if not(math.isnan(s[StatType.MEAN]) and math.isnan(s[StatType.STD]) and all(math.isnan(x) for x in s[StatType.QUANTILES])): fails.append(('num default',v,s))
    st['num']+=1
    # categorical
    v=[None if rng.random()<.2 else rng.choice(['a','b','c','d','']) for _ in range(n)]
    for dt in [object,'str']:
        s=compute_col_stats(pd.Series(v,dtype=dt),stype.categorical)[StatType.COUNT]
        cnt=collections.Counter(x for x in v if x is not None)
        if dict(zip(*s))!=dict(cnt) or len(s[0])!=len(set(s[0])) or any(a<b for a,b in zip(s[1],s[1][1:])): fails.append(('cat',v,s))
    st['cat']+=1
    # multicat
    def cell():
        if rng.random()<.2: return None
        return '|'.join(rng.choice([' x','y ','z','x','w']) for _ in range(rng.randint(0,3)))
    v=[cell() for _ in range(n)]
    for dt in [object,'str']:
        s=compute_col_stats(pd.Series(v,dtype=dt),stype.multicategorical,sep='|')[StatType.MULTI_COUNT]
        cnt=collections.Counter(t for x in v if x is not None and x.strip()!='' for t in {y.strip() for y in x.split('|')})
        if dict(zip(*s))!=dict(cnt) or any(a<b for a,b in zip(s[1],s[1][1:])): fails.append(('mc',v,s,cnt))
    st['mc']+=1
    # seq
    v=[None if rng.random()<.2 else [rng.choice([1.,2.,float('nan'),float('inf'),-3.5]) for _ in range(rng.randint(0,3))] for _ in range(n)]
    if any(x for x in v if x):
        s=compute_col_stats(pd.Series(v,dtype=object),stype.sequence_numerical)
        fin=[y for x in v if x for y in x if math.isfinite(y)]
        if fin:
            if not(close(s[StatType.MEAN],statistics.fmean(fin)) and close(s[StatType.STD],statistics.pstdev(fin)) and all(close(a,quant(fin,q)) for a,q in zip(s[StatType.QUANTILES],[0,.25,.5,.75,1]))): fails.append(('seq',v,s))
        elif not math.isnan(s[StatType.MEAN]): fails.append(('seq default',v,s))
    st['seq']+=1
    # timestamps
    import datetime
    ts=[None if rng.random()<.25 else datetime.datetime(rng.randint(1700,2200),rng.randint(1,12),rng.randint(1,28),rng.randint(0,23),rng.randint(0,59),rng.randint(0,59)) for _ in range(n)]
    v=[None if t is None else t.strftime('%Y-%m-%d %H:%M:%S') for t in ts]
    if rng.random()<.2 and n>1: v[rng.randrange(n)]='garbage'; 
    s=compute_col_stats(pd.Series(v,dtype=object),stype.timestamp,time_format='%Y-%m-%d %H:%M:%S')
    good=sorted(t for t,x in zip(ts,v) if t is not None and x!='garbage')
    comp=lambda t:[t.year,t.month-1,t.day-1,t.weekday(),t.hour,t.minute,t.second]
    if good:
        exp=dict(yr=[good[0].year,good[-1].year],old=comp(good[0]),new=comp(good[-1]),med=comp(good[len(good)//2]))
        got=dict(yr=[int(x) for x in s[StatType.YEAR_RANGE]],old=s[StatType.OLDEST_TIME].tolist(),new=s[StatType.NEWEST_TIME].tolist(),med=s[StatType.MEDIAN_TIME].tolist())
        if exp!=got: fails.append(('ts',v,got,exp))
    else:
        if list(s[StatType.YEAR_RANGE])!=[-1,-1]: fails.append(('ts default',v,s))
    st['ts']+=1
print(st,'fails',len(fails))
for f in fails[:6]: print(str(f)[:600])

import torch, numpy as np, pandas as pd, warnings
warnings.filterwarnings('ignore')
import torch_frame
from torch_frame import stype, TensorFrame
from torch_frame.data import Dataset, MultiNestedTensor as MNT, MultiEmbeddingTensor as MET
from torch_frame.config import TextEmbedderConfig, ImageEmbedderConfig, TextTokenizerConfig
from torch_frame.utils import generate_random_split
def tryit(name, f):
    try:
        r=f(); print(name,'->',r)
    except Exception as e:
        print(name,'RAISES',type(e).__name__,str(e)[:160])
n=6
def emb(xs): return torch.tensor([[float(len(x)),1.,2.] for x in xs])
def img(xs): return torch.tensor([[float(len(x))] for x in xs])
def tok(xs): return [{'input_ids': torch.tensor([ord(c) for c in x]), 'mask': torch.ones(len(x),dtype=torch.long)} for x in xs]
df=pd.DataFrame({'b_num':[1.,2.,3.,4.,5.,6.],'a_num':[6.,5.,4.,3.,2.,1.],'txt':['aa','b','ccc','dd','e','ffff'],'txt2':['x','yy','zzz','x','yy','zzz'],'img':['p1','p22','p333','p','p1','p22'],
  'emb':[[1.,2.]]*6,'tok':['ab','c','def','g','hi','jkl'],'cat':['u','v','u','v','u','w'],'y':[1.,2.,3.,4.,5.,6.]})
df=df.astype({c:object for c in ['txt','txt2','img','tok','cat']})
c2s={'b_num':stype.numerical,'a_num':stype.numerical,'txt':stype.text_embedded,'txt2':stype.text_embedded,'img':stype.image_embedded,'emb':stype.embedding,'tok':stype.text_tokenized,'cat':stype.categorical,'y':stype.numerical}
def mk(d,c2s=c2s):
    return Dataset(d,c2s,target_col='y',col_to_text_embedder_cfg=TextEmbedderConfig(emb,2),col_to_image_embedder_cfg=ImageEmbedderConfig(img,4),col_to_text_tokenizer_cfg=TextTokenizerConfig(tok,None)).materialize()
ds=mk(df); tf=ds.tensor_frame
print(tf.col_names_dict); print(tf.feat_dict[stype.embedding].offset, tf.feat_dict[stype.embedding].values[0])
print({k:v for k,v in ds.col_stats.items() if k in ['txt','img','emb']})
# permuted columns
cols=list(df.columns); perm=[cols[i] for i in [8,3,5,0,7,2,6,1,4]]
d2=df[perm]; c2=dict((c,c2s[c]) for c in perm)
ds2=mk(d2,c2); print('perm cols eq', ds2.tensor_frame==tf, ds2.tensor_frame.col_names_dict==tf.col_names_dict, list(ds2.tensor_frame.col_names_dict.keys()))
d3=df.copy(); d3.index=[9,4,7,1,0,3]
tryit('relabel eq', lambda: mk(d3).tensor_frame==tf)
# convert twice w/ child stypes
conv=ds.convert_to_tensor_frame
print('conv1', conv(df)==tf, 'conv2', conv(df)==tf, conv.col_names_dict)
# C08
a,b,c=tf[:2],tf[2:3],tf[3:]
tryit('cat rows', lambda: torch_frame.cat([a,b,c],0)==tf)
tryit('cat rows w/ empty', lambda: torch_frame.cat([tf[[]],a,tf[[]],b,c],0)==tf)
tryit('cat rows list idx', lambda: torch_frame.cat([tf[[0,1]],tf[torch.tensor([2])],tf[range(3,6)]],0)==tf)
def colsplit(t, take):
    f1,f2,n1,n2={}, {}, {}, {}
    for s,names in t.col_names_dict.items():
        k=take.get(s,0)
        feat=t.feat_dict[s]
        sel=lambda f,sl: ({kk:v[:,sl] for kk,v in f.items()} if isinstance(f,dict) else f[:,sl])
        if k>0: f1[s]=sel(feat,slice(0,k)); n1[s]=names[:k]
        if k<len(names): f2[s]=sel(feat,slice(k,None)); n2[s]=names[k:]
    return TensorFrame(f1,n1,t.y), TensorFrame(f2,n2,None)
p1,p2=colsplit(tf,{stype.numerical:1,stype.embedding:2,stype.categorical:1})
tryit('cat cols', lambda: torch_frame.cat([p1,p2],1)==tf)
tryit('cat cols dup', lambda: torch_frame.cat([p1,p1],1))
tryit('cat cols two y', lambda: torch_frame.cat([p1,TensorFrame(p2.feat_dict,p2.col_names_dict,tf.y)],1))
tryit('cat rows mismatch', lambda: torch_frame.cat([p1,p2],0))
tryit('cat rows y mismatch', lambda: torch_frame.cat([tf,TensorFrame(tf.feat_dict,tf.col_names_dict,None)],0))
tryit('cat empty', lambda: torch_frame.cat([],0))
tryit('validate rows', lambda: TensorFrame({stype.numerical:torch.zeros(3,1),stype.categorical:torch.zeros(2,1,dtype=torch.long)},{stype.numerical:['a'],stype.categorical:['b']}))
tryit('validate cols', lambda: TensorFrame({stype.numerical:torch.zeros(3,2)},{stype.numerical:['a']}))
tryit('validate y', lambda: TensorFrame({stype.numerical:torch.zeros(3,1)},{stype.numerical:['a']},torch.zeros(2)))
tryit('getcol', lambda: {c: (type(tf.get_col_feat(c)).__name__) for c in ['a_num','txt','img','emb','tok','cat']})
tryit('getcol bad', lambda: tf.get_col_feat('zzz'))
# eq perturbations
t2=TensorFrame({k:(v.clone() if not isinstance(v,dict) else {kk:vv.clone() for kk,vv in v.items()}) for k,v in tf.feat_dict.items()}, tf.col_names_dict, tf.y.clone())
print('eq clone', t2==tf); t2.feat_dict[stype.embedding].values[3,4]+=1e-3; print('perturbed emb', t2==tf)
t2.feat_dict[stype.embedding].values[3,4]-=1e-3; t2.feat_dict[stype.text_tokenized]['mask'].values[2]+=1; print('perturbed tok', t2==tf)
# C06
m=MNT.from_tensor_mat([[torch.tensor([1.,float('nan')]),torch.tensor([float('nan')])],[torch.tensor([]),torch.tensor([5.,float('nan'),7.])]])
d=m.to_dense(-9.); print(d.tolist()); c=m.clone(); c.fillna_col(1, 0.5); print([[c[i,j].tolist() for j in range(2)] for i in range(2)], [[m[i,j].tolist() for j in range(2)] for i in range(2)])
v=m[:,[1,0]]; v.fillna_col(0,3.); print('fill on indexed', [[v[i,j].tolist() for j in range(2)] for i in range(2)])
v=m[1:]; v.fillna_col(1,3.); print('fill on narrow view -> source changed?', [[m[i,j].tolist() for j in range(2)] for i in range(2)])
tryit('from_tensor_mat ragged rows', lambda: MNT.from_tensor_mat([[torch.tensor([1])],[torch.tensor([1]),torch.tensor([2])]]))
tryit('from_tensor_mat empty', lambda: MNT.from_tensor_mat([]))
tryit('from_tensor_list empty', lambda: MET.from_tensor_list([]))
tryit('MNT cat mismatch', lambda: MNT.cat([m, m[:, :1]], dim=0))
tryit('MNT cat mismatch rows', lambda: MNT.cat([m, m[:1]], dim=1))
# split
for (L,tr,va,inc) in [(10,0.8,0.1,True),(10,0.5,0.5,False),(0,0.8,0.1,True),(7,0.33,0.33,True),(10,0.9,0.1,True),(10,0.,0.5,True),(10,0.6,0.3,False)]:
    tryit(f'split {L,tr,va,inc}', lambda: np.bincount(generate_random_split(L,1,tr,va,inc),minlength=3).tolist())
np.random.seed(5); a=generate_random_split(20,3); np.random.seed(99); np.random.rand(7); b=generate_random_split(20,3); print('seed determinism', (a==b).all())
print('-----D15')
for c in ['a_num','b_num','emb','txt','txt2','img','tok','cat']:
    tryit('getcol '+c, lambda: (lambda o: (o.values.tolist() if hasattr(o,'values') and not isinstance(o,dict) else (o.tolist() if not isinstance(o,dict) else list(o))))(tf.get_col_feat(c)))
print(tf._col_to_stype_idx)
tryit('getcol after select', lambda: tf[[0,1]].get_col_feat('img').values.tolist())
p3=TensorFrame({stype.numerical:torch.zeros(6,1)},{stype.numerical:['a_num']})
tryit('cat cols dup no y', lambda: torch_frame.cat([p3,p3],1))

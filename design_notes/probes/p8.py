import torch, numpy as np, pandas as pd, warnings
warnings.filterwarnings('ignore')
import torch_frame
from torch_frame import stype, TensorFrame, TaskType, Metric
from torch_frame.data import Dataset
from torch_frame.data.stats import StatType, compute_col_stats
from torch_frame.transforms import CatToNumTransform
def tryit(name, f):
    try:
        r=f(); print(name,'->',r)
    except Exception as e:
        print(name,'RAISES',type(e).__name__,str(e)[:200])
def mk(y):
    n=len(y)
    df=pd.DataFrame({'c1':(['a','b','a','c','a',None,'b','a']*3)[:n],'c2':(['u','u','v',None,'v','u','w','w']*3)[:n],'n1':np.arange(n,dtype=float),'y':y})
    df=df.astype({'c1':object,'c2':object})
    ds=Dataset(df,{'c1':stype.categorical,'c2':stype.categorical,'n1':stype.numerical,'y':stype.categorical if not isinstance(y[0],float) else stype.numerical},target_col='y').materialize()
    return ds
for y in [[0,1,2,0,1,2,0,1],[0,1,0,1,1,1,0,0],[0.5,1.5,2.5,3.5,0.1,0.2,0.3,0.4]]:
    ds=mk(y); tf=ds.tensor_frame
    t=CatToNumTransform(); t.fit(tf, ds.col_stats)
    out=t(tf)
    print('y=',y[:3],'cols',out.col_names_dict, out.feat_dict[stype.numerical].shape, list(t.transformed_stats.keys()))
    tryit(' sub rows 0,1', lambda: t(tf[[0,1]]).feat_dict[stype.numerical].shape)
    tryit(' sub rows eq', lambda: torch.allclose(t(tf[[0,1]]).feat_dict[stype.numerical], out.feat_dict[stype.numerical][[0,1]]))
    tryit(' rows w/ y<=1 only', lambda: (t(tf[[0,1,3,4]]).feat_dict[stype.numerical].shape, torch.allclose(t(tf[[0,1,3,4]]).feat_dict[stype.numerical], out.feat_dict[stype.numerical][[0,1,3,4]])))
    tf_noy=TensorFrame(tf.feat_dict, tf.col_names_dict, None)
    tryit(' no y', lambda: t(tf_noy).feat_dict[stype.numerical].shape)
    tryit(' input unchanged', lambda: (list(tf.col_names_dict.keys()), tf.feat_dict[stype.numerical].shape))
tryit('unfitted', lambda: CatToNumTransform()(tf))
bad=TensorFrame({stype.categorical: torch.tensor([[5,0]]), stype.numerical: torch.tensor([[1.]])}, {stype.categorical:['c1','c2'], stype.numerical:['n1']}, torch.tensor([0.5]))
tryit('unseen idx', lambda: t(bad))
# value check
ds=mk([0,1,0,1,1,1,0,0]); tf=ds.tensor_frame; t=CatToNumTransform(); t.fit(tf,ds.col_stats); out=t(tf)
print(ds.col_stats['c1'], tf.feat_dict[stype.categorical][:,0].tolist(), out.feat_dict[stype.numerical][:,1].tolist(), 'prior', t.target_mean)

import torch, numpy as np, pandas as pd, warnings
warnings.filterwarnings('ignore')
import torch_frame
from torch_frame import stype, TensorFrame, TaskType, Metric, NAStrategy
from torch_frame.data import Dataset
from torch_frame.nn import MLP, ResNet, FTTransformer, TabTransformer, Trompt, TabNet, ExcelFormer
from torch_frame.nn.models.excelformer import feature_mixup
from torch_frame.gbdt import XGBoost, CatBoost, LightGBM
def tryit(name, f):
    try:
        r=f(); print(name,'->',r)
    except Exception as e:
        print(name,'RAISES',type(e).__name__,str(e)[:200])
torch.manual_seed(0)
n=700
rng=np.random.default_rng(0)
df=pd.DataFrame({'n1':rng.normal(size=n),'n2':rng.normal(size=n),'c1':rng.choice(['a','b','c'],n),'c2':rng.choice(['u','v'],n),'y':rng.integers(0,3,n)})
df.loc[3,'n1']=np.nan; df.loc[5,'c1']=None
df=df.astype({'c1':object,'c2':object})
ds=Dataset(df,{'n1':stype.numerical,'n2':stype.numerical,'c1':stype.categorical,'c2':stype.categorical,'y':stype.categorical},target_col='y').materialize(); tf=ds.tensor_frame
models={
 'MLP-ln': lambda: MLP(8,3,3,ds.col_stats,tf.col_names_dict),
 'MLP-bn': lambda: MLP(8,3,3,ds.col_stats,tf.col_names_dict,normalization='batch_norm'),
 'ResNet-bn': lambda: ResNet(8,3,2,ds.col_stats,tf.col_names_dict,normalization='batch_norm'),
 'FTT': lambda: FTTransformer(8,3,2,ds.col_stats,tf.col_names_dict),
 'TabT': lambda: TabTransformer(8,3,2,2,2,0.,0.,ds.col_stats,tf.col_names_dict),
 'Trompt': lambda: Trompt(8,3,4,2,ds.col_stats,tf.col_names_dict),
 'TabNet': lambda: TabNet(3,2,4,4,1.2,ds.col_stats,tf.col_names_dict),
}
for name,mkm in models.items():
    m=mkm()
    # a few training steps
    opt=torch.optim.SGD(m.parameters(),lr=0.01); m.train()
    for _ in range(2):
        out=m(tf[:64]); out=out if out.dim()==2 else out.mean(1)
        torch.nn.functional.cross_entropy(out,tf.y[:64]).backward(); opt.step(); opt.zero_grad()
    m.eval()
    with torch.no_grad():
        full=m(tf)
        idx=torch.tensor([5,3,3,650,0])
        sub=m(tf[idx]); one=m(tf[[3]]); emp=m(tf[[]])
        print(name, tuple(full.shape), 'sub max diff', (sub-full[idx]).abs().max().item(), 'single', (one-full[[3]]).abs().max().item(), 'empty', tuple(emp.shape), 'finite', bool(torch.isfinite(full).all()))
# ExcelFormer numeric only
dfn=df[['n1','n2','y']]; dsn=Dataset(dfn,{'n1':stype.numerical,'n2':stype.numerical,'y':stype.categorical},target_col='y').materialize(); tfn=dsn.tensor_frame
m=ExcelFormer(8,3,2,2,2,dsn.col_stats,tfn.col_names_dict,mixup='feature').eval()
with torch.no_grad():
    full=m(tfn); idx=torch.tensor([5,3,3,650,0]); print('ExcelFormer', (m(tfn[idx])-full[idx]).abs().max().item(), m(tfn[[]]).shape)
tfn.mi_scores=torch.tensor([0.3,0.7])
tryit('excel mixup', lambda: [t.shape for t in m(tfn[:5],mixup_encoded=True)])
# mixup direct
x=torch.arange(2*3*4.).view(2,3,4); y=torch.tensor([0,2])
for mt in [None,'feature','hidden']:
    torch.manual_seed(1); xm,ym=feature_mixup(x,y,3,0.5,mt,torch.tensor([1.,2.,3.])); print(mt, xm.tolist(), ym.tolist())
torch.manual_seed(1); print(feature_mixup(x,torch.tensor([0.5,1.5]),1,0.5,'hidden'))
# GBDT
tfe=tf
for cls,fn in [(XGBoost,'_to_xgboost_input'),(CatBoost,'_to_catboost_input'),(LightGBM,'_to_lightgbm_input')]:
    g=cls(TaskType.MULTICLASS_CLASSIFICATION,num_classes=3)
    r=getattr(g,fn)(tf[:7]); print(cls.__name__, type(r[0]).__name__, np.asarray(r[0])[3:6].tolist(), r[1][:3], r[2] if not isinstance(r[2],list) or len(r[2])<9 else r[2])
    tryit(' empty', lambda: getattr(g,fn)(TensorFrame({stype.timestamp: torch.zeros(2,1,7,dtype=torch.long)},{stype.timestamp:['t']})))
    tryit(' predict unfitted', lambda: g.predict(tf))
    tryit(' save unfitted', lambda: g.save('/tmp/probe/x/y'))
for tt in TaskType:
    for me in [None]+list(Metric):
        try: g=XGBoost(tt,metric=me); r=g.metric.name
        except Exception as e: r='RAISES '+type(e).__name__
        print(tt.name, me.name if me else None, r, end=' | ')
    print()
g=XGBoost(TaskType.BINARY_CLASSIFICATION,metric=Metric.ACCURACY); print(g.compute_metric(torch.tensor([1,0,1,1]),torch.tensor([0.6,0.5,0.4,0.51])))
g=XGBoost(TaskType.REGRESSION,metric=Metric.MAE); print(g.compute_metric(torch.tensor([1.,0.,1.]),torch.tensor([0.5,0.5,3.])))
g=XGBoost(TaskType.REGRESSION); print(g.compute_metric(torch.tensor([1.,0.,1.]),torch.tensor([0.5,0.5,3.])))

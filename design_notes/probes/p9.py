import torch, numpy as np, pandas as pd, warnings
warnings.filterwarnings('ignore')
from torch_frame.utils import infer_series_stype, infer_df_stype
def I(x, **kw): 
    try: return infer_series_stype(pd.Series(x, **kw))
    except Exception as e: return 'RAISES %s %s'%(type(e).__name__, str(e)[:80])
print('float', I([1.5,2.5,3.0]))
print('float w/nan', I([1.5,2.5,None]))
print('intlike float w/ nan 5 each', I([1.,2.]*5+[None]))
print('intlike float w/ nan 4 each', I([1.,2.]*4+[None]))
print('intlike float no nan', I([1.,2.]*5))
print('bool', I([True,False,True]))
print('bool w/ None', I([True,False,None]))
print('int 5 each', I([1,2]*5)); print('int 4 each', I([1,2]*4)); print('int unique', I(list(range(10))))
print('str 5 each', I(['a','b']*5)); print('str 4 each', I(['a','b']*4)); 
print('str 5 each obj', I(['a','b']*5,dtype=object)); print('str 4 each obj', I(['a','b']*4,dtype=object))
print('dates', I(['2020-01-01','2021-02-03']*3)); print('dates/', I(['2020/01/01','2021/02/03']*3)); print('datetime', I(['2020-01-01 10:00:00','2021-02-03 11:00:00']*3))
print('datetime64', I(pd.to_datetime(['2020-01-01','2021-02-03'])))
print('emb', I([[1.,2.],[3.,4.]])); print('emb ragged', I([[1.,2.],[3.]])); print('seq ints', I([[1,2],[3,4]])); print('emb nan', I([[1.,float('nan')],[3.,4.]]))
print('list str', I([['a','b'],['c']])); print('list mixed', I([['a',1],['c']]));
print('mc |', I(['a|b','b|c','a|c','a|b|c']*5)); print('mc ,', I(['a,b','b,c','a,c','a,b,c']*5)); print('mc 4', I(['a|b','b|c','a|c','a|b|c']*2))
print('text', I(['hello world %d'%i for i in range(10)]))
print('all missing', I([None,None])); print('all nan', I([np.nan,np.nan]))
print('first elt list then none', I([[1.,2.],None,[3.,4.]])); print('none first', I([None,[1.,2.],[3.,4.]]))
print('list w/ non-list', I([[1.,2.],'x']))
# permutation & labels
x=['a|b','b|c','a|c','a|b|c']*5+[None]
s=pd.Series(x,dtype=object); print('perm', infer_series_stype(s.sample(frac=1,random_state=1)), 'labels', infer_series_stype(s.set_axis(list(range(100,121)))))
# object vs str for text
print('text obj', I(['hello world %d'%i for i in range(10)],dtype=object))
print('mc obj', I(['a|b','b|c','a|c','a|b|c']*5,dtype=object))
print('mixed obj ints', I([1,'a',2,'a']*5,dtype=object))
print('obj ints 5', I([1,2]*5,dtype=object)); print('obj ints 4', I([1,2]*4,dtype=object))
df=pd.DataFrame({'a':[1.5,2.5],'b':[None,None],'c':['x','y']}); print(infer_df_stype(df))
print('adding missing to str col', I(['a','b']*5+[None]), I(['a','b']*5+[None],dtype=object))
print('adding missing to int col', I([1,2]*5), I([1,2]*5+[None]))

import torch, numpy as np, pandas as pd, traceback, warnings
warnings.filterwarnings('ignore')
import torch_frame as tfm
from torch_frame import stype
from torch_frame.data import Dataset, DataLoader
from torch_frame.data.stats import StatType
def tryit(name, f):
    try:
        r=f(); print(name,'->',r)
    except Exception as e:
        print(name,'RAISES',type(e).__name__,str(e)[:200])
n=8
df=pd.DataFrame({'mc':np.array(['a|b','b',None,' a | c ','','b|b','c','a'],dtype=object), 'num':[1.,2.,None,4.,5.,6.,7.,8.], 'cat':np.array(['x','y','x',None,'z','x','y','y'],dtype=object),
  'seq':np.array([[1.,2.],None,[3.],[],[4.,5.,6.],[7.],[8.],[9.]],dtype=object),
  'ts':['2020-01-02','2021-03-04',None,'2019-05-06','2018-07-08','2022-09-10','2017-11-12','2016-01-01'],
  'emb':[[float(i),float(i+1)] for i in range(n)],
  'y':[0,1,0,1,0,1,2,2],'split':[0,1,2,0,0,1,2,0],'rid':list(range(n))})
df=df.astype({'mc':object,'cat':object})
c2s={'mc':stype.multicategorical,'num':stype.numerical,'cat':stype.categorical,'seq':stype.sequence_numerical,'ts':stype.timestamp,'emb':stype.embedding,'y':stype.categorical,'rid':stype.numerical}
def mk(d):
    return Dataset(d, c2s, target_col='y', split_col='split', col_to_sep='|', col_to_time_format='%Y-%m-%d').materialize()
ds=mk(df)
tf=ds.tensor_frame
print(tf.col_names_dict)
conv=ds.convert_to_tensor_frame
tryit('conv(df)==tf', lambda: conv(ds.df)==tf)
tryit('conv twice', lambda: conv(ds.df)==tf)
idx=[3,1,1,7]
tryit('conv(iloc dup rows)', lambda: conv(df.iloc[idx])==tf[idx])
idx=[3,1,7]
tryit('conv(iloc rows)', lambda: conv(df.iloc[idx])==tf[idx])
tryit('conv(single row)', lambda: conv(df.iloc[[2]])==tf[[2]])
d2=df.iloc[[0,1]].copy(); d2['cat']=['NEW','x']; d2['mc']=['a|NEW','NEW']; d2=d2.astype({'mc':object,'cat':object})
def f():
    t=conv(d2); m=t.feat_dict[stype.multicategorical]; return t.feat_dict[stype.categorical].tolist(), [m[i,0].tolist() for i in range(2)]
tryit('unseen', f)
tryit('no target', lambda: conv(df.drop(columns=['y'])).y)
# C09
rid=lambda d: (d.df['rid'].tolist(), d.tensor_frame.feat_dict[stype.numerical][:, d.tensor_frame.col_names_dict[stype.numerical].index('rid')].tolist())
tryit('split train', lambda: rid(ds.get_split('train')))
sh,perm=ds.shuffle(return_perm=True)
tryit('shuffle', lambda: (perm.tolist(), rid(sh)))
tryit('shuffle->train', lambda: (rid(sh.get_split('train')), sh.get_split('train').df['split'].tolist()))
tryit('ds[2:6]->val', lambda: (rid(ds[2:6].get_split('val')), ds[2:6].get_split('val').df['split'].tolist()))
c2s.pop('emb'); d3=df.copy(); d3.index=range(100,108); ds3=mk(d3)
tryit('offset idx train', lambda: rid(ds3.get_split('train')))
tryit('ds[:0.5]', lambda: rid(ds[:0.5]))
tryit('ds[0.25:0.8]', lambda: rid(ds[0.25:0.8]))
tryit('ds[5:100]', lambda: rid(ds[5:100]))
tryit('ds[torch]', lambda: rid(ds[torch.tensor([7,0])]))
tryit('ds[bool]', lambda: rid(ds[torch.tensor([True]+[False]*6+[True])]))
tryit('ds[3]', lambda: rid(ds[3]))
tryit('ds[-1]', lambda: rid(ds[-1]))
tryit('ds[range]', lambda: rid(ds[range(1,4)]))
tryit('col_select after', lambda: ds.col_select(['num']))
tryit('tensor_frame before', lambda: Dataset(df,c2s,target_col='y').tensor_frame)
# empty split
d4=df.copy(); d4['split']=[0]*8; ds4=mk(d4)
tryit('empty val split', lambda: rid(ds4.get_split('val')))
# loader
def ld(src,**kw):
    out=[]
    for b in DataLoader(src,**kw):
        out.append(b.feat_dict[stype.numerical][:,1].tolist() if True else None)
    return out
print(tf.col_names_dict[stype.numerical])
tryit('loader bs3', lambda: ld(tf,batch_size=3))
tryit('loader bs3 drop_last', lambda: ld(tf,batch_size=3,drop_last=True))
tryit('loader bs3 shuffle', lambda: ld(tf,batch_size=3,shuffle=True))
tryit('loader ds', lambda: ld(ds,batch_size=5))
tryit('loader unmat ds', lambda: ld(Dataset(df, c2s, target_col='y', split_col='split', col_to_sep='|', col_to_time_format='%Y-%m-%d'),batch_size=5))
tryit('loader collate override', lambda: ld(tf,batch_size=4,collate_fn=lambda x: 1/0))
tryit('loader 0 rows', lambda: ld(tf[0:0],batch_size=4))
tryit('tf[5:100]', lambda: len(tf[5:100]))

import torch, random, sys, collections, traceback
from torch_frame.data import MultiNestedTensor as MNT, MultiEmbeddingTensor as MET
rng=random.Random(int(sys.argv[1]) if len(sys.argv)>1 else 0)
def mk_mnt(R,C):
    cells=[[[rng.randint(-1,9) for _ in range(rng.choice([0,0,1,2,3]))] for _ in range(C)] for _ in range(R)]
    if R==0 or C==0:
        return None,None
    m=MNT.from_tensor_mat([[torch.tensor(c,dtype=torch.long) for c in row] for row in cells]); return m,cells
def mk_met(R,C):
    dims=[rng.choice([1,1,2,3]) for _ in range(C)]
    cells=[[[float(rng.randint(0,9)) for _ in range(d)] for d in dims] for _ in range(R)]
    if C==0 or R==0: return None,None
    t=MET.from_tensor_list([torch.tensor([[cells[i][j][k] for k in range(dims[j])] for i in range(R)]).view(R,dims[j]) for j in range(C)]); return t,cells
def rnd_bound(n): return rng.choice([None,0,1,n-1,n,n+1,n+5,-1,-n,-n-1,-n-7,rng.randint(-3,n+3)])
def rnd_index(n):
    k=rng.choice(['int','slice','slice','list','range','tensor','mask'])
    if k=='int': return rng.choice([0,n-1,-1,-n,n,-n-1,rng.randint(-n-1,n+1)])
    if k=='slice': return slice(rnd_bound(n),rnd_bound(n),rng.choice([None,1,2,3,0,-1]))
    if k=='list': return [rng.randint(-n-1,n) for _ in range(rng.randint(0,4))] if rng.random()<.3 else [rng.randint(-n,n-1) if n>0 else 0 for _ in range(rng.randint(0,4))]
    if k=='range': return range(rng.randint(0,max(n,1)),rng.randint(0,n+1),rng.choice([1,2,-1]))
    if k=='tensor': return torch.tensor([rng.randint(-n,n-1) if n>0 else 0 for _ in range(rng.randint(0,4))],dtype=torch.long)
    if k=='mask': return torch.tensor([rng.random()<.5 for _ in range(n if rng.random()<.9 else n+1)],dtype=torch.bool)
def ref_select(lst, ix):
    n=len(lst)
    if isinstance(ix,bool): raise TypeError
    if isinstance(ix,int):
        if not -n<=ix<n: raise IndexError
        return [lst[ix]]
    if isinstance(ix,slice):
        if ix.step is not None and ix.step<=0: raise ValueError
        return lst[ix]
    if isinstance(ix,torch.Tensor) and ix.dtype==torch.bool:
        if len(ix)!=n: raise IndexError
        return [x for x,b in zip(lst,ix.tolist()) if b]
    seq=ix.tolist() if isinstance(ix,torch.Tensor) else list(ix)
    for i in seq:
        if not -n<=i<n: raise IndexError
    return [lst[i] for i in seq]
def cells_of(m,is_met):
    out=[]
    for i in range(m.num_rows):
        out.append([m[i,j].tolist() for j in range(m.num_cols)])
    return out
def wf(m,is_met):
    if is_met:
        assert m.offset[0]==0 and len(m.offset)==m.num_cols+1 and m.values.dim()==2 and m.values.shape==(m.num_rows,int(m.offset[-1])), ('met wf',m.values.shape,m.offset.tolist(),m.num_rows,m.num_cols)
    else:
        assert m.offset[0]==0 and len(m.offset)==m.num_rows*m.num_cols+1 and int(m.offset[-1])==len(m.values) and (m.offset[1:]>=m.offset[:-1]).all(), 'mnt wf'
stats=collections.Counter(); fails=[]
N=int(sys.argv[2]) if len(sys.argv)>2 else 4000
for it in range(N):
    is_met=rng.random()<.5
    R,C=rng.randint(1,5),rng.randint(1,4)
    m,cells=(mk_met if is_met else mk_met if False else (mk_met if is_met else mk_mnt))(R,C)
    prog=[]
    cur,ref=m,cells; ncols=C
    for step in range(rng.randint(1,5)):
        dim=rng.choice([0,1]); n=len(ref) if dim==0 else ncols
        ix=rnd_index(n); prog.append((dim,ix))
        try:
            exp=ref_select(ref,ix) if dim==0 else [ref_select(row,ix) for row in ref] if len(ref)>0 else (ref_select([None]*ncols,ix) and [] or [])
            exp_nc=ncols if dim==0 else len(ref_select(list(range(ncols)),ix)); eerr=None
        except Exception as e: eerr=type(e).__name__
        try:
            got=cur.select(ix,dim) if not (dim==0 and rng.random()<.5) else cur[ix]; gerr=None
        except Exception as e: gerr=type(e).__name__
        if (eerr is None)!=(gerr is None):
            fails.append(('errmismatch',is_met,cells,prog,eerr,gerr)); break
        if eerr is not None:
            stats['raise']+=1; break
        try:
            wf(got,is_met)
            gc=cells_of(got,is_met)
            assert got.num_rows==len(exp) and got.num_cols==exp_nc, ('shape',got.num_rows,got.num_cols,len(exp),exp_nc)
            assert gc==exp, ('cells',gc,exp)
        except Exception as e:
            fails.append(('bad',is_met,cells,prog,repr(e)[:200])); break
        cur,ref,ncols=got,exp,exp_nc; stats['ok']+=1
print(stats, 'fails',len(fails))
seen=set()
for f in fails:
    key=(f[0],f[1],str(f[-1])[:40],str([(d,type(i).__name__) for d,i in f[3]]))
    if key in seen: continue
    seen.add(key); print(f)

import torch, numpy as np, pandas as pd, traceback, warnings, os, tempfile
warnings.filterwarnings('ignore')
import torch_frame as tfm
from torch_frame import stype, TensorFrame, NAStrategy
from torch_frame.data import Dataset
from torch_frame.data.stats import StatType
from torch_frame.nn import *
from torch_frame.nn.encoder import *
def tryit(name, f):
    try:
        r=f(); print(name,'->',r)
    except Exception as e:
        print(name,'RAISES',type(e).__name__,str(e)[:200])
n=8
df=pd.DataFrame({'mc':['a|b','b',None,' a | c ','','b|b','c','a'], 'mc2':['q','q|r',None,'r','','s','q','r'],'num':[1.,2.,None,4.,5.,6.,7.,8.],'num2':[1.,1.,1.,None,1.,1.,1.,1.], 'cat':['x','y','x',None,'z','x','y','y'],'cat2':['x','y','x',None,'z','x','y','w'],
  'ts':['2020-01-02','2021-03-04',None,'2019-05-06','2018-07-08','2022-09-10','2017-11-12','1716-01-31'],
  'ts2':['2020-01-02','2021-03-04','2000-01-01','2019-05-06','2018-07-08','2022-09-10','2017-11-12',None],
  'emb':[[float(i),float(i+1)] for i in range(n)],'emb2':[[float(i)]*3 for i in range(n)],
  'y':[0,1,0,1,0,1,2,2]})
df=df.astype({'mc':object,'mc2':object,'cat':object,'cat2':object})
c2s={'mc':stype.multicategorical,'mc2':stype.multicategorical,'num':stype.numerical,'num2':stype.numerical,'cat':stype.categorical,'cat2':stype.categorical,'ts':stype.timestamp,'ts2':stype.timestamp,'emb':stype.embedding,'emb2':stype.embedding,'y':stype.categorical}
ds=Dataset(df, c2s, target_col='y', col_to_sep='|', col_to_time_format='%Y-%m-%d').materialize(); tf=ds.tensor_frame
def enc(ts_na=NAStrategy.MEDIAN_TIMESTAMP, num_cls=LinearEncoder, num_na=None, cat_na=None, mc_na=None, mode='mean'):
    return StypeWiseFeatureEncoder(8, ds.col_stats, tf.col_names_dict, {
        stype.categorical: EmbeddingEncoder(na_strategy=cat_na), stype.numerical: num_cls(na_strategy=num_na),
        stype.multicategorical: MultiCategoricalEmbeddingEncoder(na_strategy=mc_na, mode=mode), stype.timestamp: TimestampEncoder(na_strategy=ts_na),
        stype.embedding: LinearEmbeddingEncoder()}).eval()
def run(e, t):
    x,names=e(t); return tuple(x.shape), bool(torch.isfinite(x).all()), names
tryit('full', lambda: run(enc(), tf))
tryit('single', lambda: run(enc(), tf[[2]]))
tryit('empty []', lambda: run(enc(), tf[[]]))
tryit('empty 0:0', lambda: run(enc(), tf[0:0]))
tryit('empty tensor', lambda: run(enc(), tf[torch.tensor([],dtype=torch.long)]))
tryit('ts na None', lambda: run(enc(ts_na=None), tf))
tryit('ts na None, no missing rows', lambda: run(enc(ts_na=None), tf[[0,1]]))
for cls in [LinearEncoder, StackEncoder, LinearBucketEncoder, LinearPeriodicEncoder, ExcelFormerEncoder]:
    for na in [None, NAStrategy.MEAN, NAStrategy.ZEROS]:
        tryit(f'{cls.__name__} {na}', lambda: run(enc(num_cls=cls,num_na=na), tf)[:2])
for mode in ['mean','sum','max']:
    for na in [None, NAStrategy.ZEROS]:
        tryit(f'mc {mode} {na}', lambda: run(enc(mode=mode,mc_na=na), tf)[:2])
tryit('cat MOST_FREQ', lambda: run(enc(cat_na=NAStrategy.MOST_FREQUENT), tf)[:2])
tryit('bad na cat MEAN', lambda: run(enc(cat_na=NAStrategy.MEAN), tf)[:2])
tryit('bad na num MOST', lambda: run(enc(num_na=NAStrategy.MOST_FREQUENT), tf)[:2])
tryit('bad na emb', lambda: LinearEmbeddingEncoder(8, [ds.col_stats['emb']], stype.embedding, na_strategy=NAStrategy.ZEROS))
tryit('bad na ts', lambda: run(enc(ts_na=NAStrategy.MEAN), tf)[:2])
tryit('bad na mc', lambda: run(enc(mc_na=NAStrategy.MEAN), tf)[:2])
tryit('bad stype', lambda: StypeWiseFeatureEncoder(8, ds.col_stats, tf.col_names_dict, {stype.categorical: LinearEncoder()}))
tryit('child stype', lambda: StypeWiseFeatureEncoder(8, ds.col_stats, tf.col_names_dict, {stype.text_embedded: LinearEmbeddingEncoder()}))
# lazy
e=LinearEncoder()
tryit('lazy incomplete call', lambda: e(tf.feat_dict[stype.numerical]))
e.stats_list=[ds.col_stats['num'],ds.col_stats['num2']]; e.stype=stype.numerical
tryit('lazy incomplete call2', lambda: e(tf.feat_dict[stype.numerical]))
e.out_channels=4
tryit('lazy complete', lambda: e(tf.feat_dict[stype.numerical]).shape)
# zero-vector for NaN w/o strategy: 
e=enc(); x,names=e(tf); print(names)
for nm,row in [('num',2),('num2',3),('cat',3),('cat2',3),('mc',2),('mc2',2),('mc',4)]:
    print(nm,row,x[row,names.index(nm)].abs().max().item())
# constant column num2: std 0 
print('num2 stats', ds.col_stats['num2'])
# in-place mutation check
before={k:(v.clone() if isinstance(v,torch.Tensor) else v.values.clone()) for k,v in tf.feat_dict.items()}
for kw in [dict(), dict(num_na=NAStrategy.MEAN,cat_na=NAStrategy.MOST_FREQUENT,mc_na=NAStrategy.ZEROS)]:
    enc(**kw)(tf)
    print('mutated?', {str(k): not torch.equal(torch.nan_to_num(before[k].float(),nan=-7), torch.nan_to_num((v if isinstance(v,torch.Tensor) else v.values).float(),nan=-7)) for k,v in tf.feat_dict.items()})

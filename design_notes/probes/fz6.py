import torch, random, sys, collections, math, warnings
import numpy as np, pandas as pd
warnings.filterwarnings('ignore')
import torch_frame
from torch_frame import stype, TensorFrame
from torch_frame.data import Dataset, DataLoader
from torch_frame.data.stats import StatType
from torch_frame.transforms import CatToNumTransform
from torch_frame.data.mapper import EmbeddingTensorMapper, TextTokenizationTensorMapper
rng=random.Random(int(sys.argv[1])); fails=[]; st=collections.Counter()
for it in range(int(sys.argv[2])):
    n=rng.randint(2,10)
    # ---- C17
    kind=rng.choice(['reg','bin','multi']) if n>=3 else rng.choice(['reg','bin'])
    K=3 if kind=='multi' else 2
    y=[float(rng.randint(0,5)) for _ in range(n)] if kind=='reg' else [rng.randrange(K) for _ in range(n)]
    if kind!='reg':
        for k in range(K): y[k%n]=k
    ncat=rng.randint(1,3); nnum=rng.randint(0,2)
    cols={f'c{i}':pd.Series([None if rng.random()<.2 else rng.choice(['a','b','c']) for _ in range(n)],dtype=object) for i in range(ncat)}
    for c in cols.values():
        if c.isna().all(): c.iloc[0]='a'
    for i in range(nnum): cols[f'n{i}']=pd.Series([float(rng.randint(0,9)) for _ in range(n)])
    cols['y']=pd.Series(y)
    df=pd.DataFrame(cols); c2s={c:(stype.categorical if c[0]=='c' else stype.numerical) for c in cols}; c2s['y']=stype.numerical if kind=='reg' else stype.categorical
    ds=Dataset(df,c2s,target_col='y').materialize(); tf=ds.tensor_frame
    t=CatToNumTransform(); t.fit(tf,ds.col_stats); full=t(tf)
    names=full.col_names_dict[stype.numerical]
    exp_names=[f'n{i}' for i in range(nnum)]+[f'c{i}_{k}' for i in range(ncat) for k in range(K-1)]
    if names!=exp_names or list(t.transformed_stats.keys())!=exp_names or full.feat_dict[stype.numerical].shape!=(n,len(exp_names)) or stype.categorical in full.feat_dict: fails.append(('c17 names',names,exp_names))
    # values
    N=n
    for i in range(ncat):
        cnts=ds.col_stats[f'c{i}'][StatType.COUNT][1]; idx=tf.feat_dict[stype.categorical][:,i].tolist()
        yy=tf.y.tolist()
        if kind=='multi': prior=[sum(1 for v in yy if v==k)/n for k in range(K-1)]
        else: prior=[sum(yy)/n]
        for r in range(n):
            ci=idx[r] if idx[r]>=0 else 0
            for k in range(K-1):
                e=(cnts[ci]+prior[k])/(N+1); g=full.feat_dict[stype.numerical][r,nnum+i*(K-1)+k].item()
                if abs(e-g)>1e-5: fails.append(('c17 value',kind,e,g))
    for _ in range(3):
        ix=[rng.randrange(n) for _ in range(rng.randint(1,4))]
        if (tf[ix].feat_dict[stype.categorical]<0).all(0).any(): continue
        for sub in [tf[ix], TensorFrame(tf[ix].feat_dict,tf[ix].col_names_dict,None), TensorFrame(tf[ix].feat_dict,tf[ix].col_names_dict,torch.zeros(len(ix),dtype=tf.y.dtype))]:
            before=(dict(sub.col_names_dict), {k:v.clone() for k,v in sub.feat_dict.items()})
            try:
                o=t(sub)
                if o.col_names_dict[stype.numerical]!=exp_names or not torch.allclose(o.feat_dict[stype.numerical],full.feat_dict[stype.numerical][ix]): fails.append(('c17 sub',kind))
                if dict(sub.col_names_dict)!=before[0] or any(not torch.equal(sub.feat_dict[k],v) for k,v in before[1].items()): fails.append(('c17 mutated',))
                st['c17 ok']+=1
            except Exception as e: fails.append(('c17 raise',kind,repr(e)[:150]))
    # ---- C10
    bs=rng.randint(1,n+1); dl=rng.random()<.5; sh=rng.random()<.5
    nidx=tf.col_names_dict[stype.categorical] and 0
    ids=[]; sizes=[]
    rid=torch.arange(n,dtype=torch.float32).view(-1,1)
    tfr=TensorFrame({stype.numerical:rid, stype.categorical:tf.feat_dict[stype.categorical]},{stype.numerical:['rid'],stype.categorical:tf.col_names_dict[stype.categorical]},tf.y)
    for b in DataLoader(tfr,batch_size=bs,shuffle=sh,drop_last=dl):
        r=[int(v) for v in b.feat_dict[stype.numerical][:,0].tolist()]; ids+=r; sizes.append(len(r))
        if not (b==tfr[r]): fails.append(('c10 batch',))
    full_n=(n//bs)*bs if dl else n
    if len(ids)!=full_n or len(set(ids))!=len(ids) or (not sh and ids!=list(range(full_n))) or any(s_!=bs for s_ in sizes[:-1]) or (sizes and (sizes[-1]>bs or sizes[-1]==0)) or (dl and any(s_!=bs for s_ in sizes)): fails.append(('c10',n,bs,dl,sh,ids,sizes))
    st['c10 ok']+=1
    # ---- C16
    cells=[None if rng.random()<.25 else (float('nan') if rng.random()<.1 else rng.choice(['a','bb','','ccc dd','é'])) for _ in range(n)]
    for dt in [object,'str']:
        try: ser=pd.Series(cells,dtype=dt,index=rng.choice([None,list(range(5,5+n)),[i//2 for i in range(n)]]))
        except Exception: continue
        for b in [None]+[rng.randint(1,n+1)]:
            calls=[]
            def emb(xs): calls.append(list(xs)); return torch.tensor([[float(sum(map(ord,x))),float(len(x))] for x in xs])
            out=EmbeddingTensorMapper(emb,b).forward(ser)
            flat=[x for c in calls for x in c]
            if any(type(x) is not str for x in flat) or len(flat)!=n or (b is None and len(calls)!=1) or (b and (any(len(c)!=b for c in calls[:-1]) or not 0<len(calls[-1])<=b)): fails.append(('c16 calls',dt,b,calls))
            elif out.values.tolist()!=[[float(sum(map(ord,x))),float(len(x))] for x in flat]: fails.append(('c16 rows',))
            for fmt in ['map','list']:
                calls=[]
                def tok(xs):
                    calls.append(list(xs))
                    if fmt=='list': return [{'ids':torch.tensor([ord(c) for c in x],dtype=torch.long)} for x in xs]
                    L=max([len(x) for x in xs]+[1]); return {'ids':torch.tensor([[ord(c) for c in x]+[0]*(L-len(x)) for x in xs],dtype=torch.long).view(len(xs),L)}
                o=TextTokenizationTensorMapper(tok,b).forward(ser)['ids']
                flat2=[x for c in calls for x in c]
                if any(type(x) is not str for x in flat2) or flat2!=flat: fails.append(('c16 tok calls',dt,b,fmt))
                got=[[v for v in o[i,0].tolist() if v!=0] for i in range(n)]
                if got!=[[ord(c) for c in x] for x in flat]: fails.append(('c16 tok rows',fmt,b,got))
            st['c16 ok']+=1
print(st,'fails',len(fails))
seen=set()
for f in fails:
    k=str(f[:2])
    if k in seen: continue
    seen.add(k); print(str(f)[:500])

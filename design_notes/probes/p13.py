import torch, numpy as np, pandas as pd, warnings
warnings.filterwarnings('ignore')
from torch_frame import stype
from torch_frame.data import Dataset
def tryit(name, f):
    try:
        r=f(); print(name,'->',r)
    except Exception as e:
        print(name,'RAISES',type(e).__name__,str(e)[:160])
df=pd.DataFrame({'cat':['x','y','x',None,'z','x'],'y':['p','q','p','q','p','p'],'n':[1,2,3,4,5,6]})
print(df.dtypes.to_dict())
def f(d):
    ds=Dataset(d,{'cat':stype.categorical,'y':stype.categorical,'n':stype.numerical},target_col='y').materialize()
    return ds.tensor_frame.feat_dict[stype.categorical].tolist(), ds.tensor_frame.y.tolist(), ds.col_stats['cat'], ds.col_stats['y'], ds.convert_to_tensor_frame(d.iloc[[3,3,0]]).feat_dict[stype.categorical].tolist()
tryit('cat str dtype', lambda: f(df))
tryit('cat obj dtype', lambda: f(df.astype({'cat':object,'y':object})))
d=pd.DataFrame({'mc':[['a','b','a'],None,[],[' a','c'],['b']],'y':[1.,2.,3.,4.,5.]})
def g(d):
    ds=Dataset(d,{'mc':stype.multicategorical,'y':stype.numerical},target_col='y',col_to_sep=None).materialize(); m=ds.tensor_frame.feat_dict[stype.multicategorical]
    return [sorted(m[i,0].tolist()) for i in range(len(d))], ds.col_stats['mc']
tryit('mc list cells', lambda: g(d))
d2=pd.DataFrame({'mc':['a,b, a','',None,'c ,a'],'y':[1.,2.,3.,4.]}).astype({'mc':object})
def h(d):
    ds=Dataset(d,{'mc':stype.multicategorical,'y':stype.numerical},target_col='y',col_to_sep=',').materialize(); m=ds.tensor_frame.feat_dict[stype.multicategorical]
    return [sorted(m[i,0].tolist()) for i in range(len(d))], ds.col_stats['mc']
tryit('mc comma', lambda: h(d2))
for fmt, vals in [('%Y/%m/%d',['2020/01/02','1700/12/31',None,'2200/02/28']),('%d.%m.%Y %H:%M',['02.01.2020 13:45','31.12.1700 00:00',None,'28.02.2200 23:59']),('%Y-%m-%dT%H:%M:%S',['2020-01-02T03:04:05','1700-12-31T23:59:59',None,'2200-02-28T00:00:01'])]:
    d3=pd.DataFrame({'t':vals,'y':[1.,2.,3.,4.]})
    def k():
        ds=Dataset(d3,{'t':stype.timestamp,'y':stype.numerical},target_col='y',col_to_time_format=fmt).materialize(); return ds.tensor_frame.feat_dict[stype.timestamp][:,0].tolist()
    tryit('ts '+fmt, k)
# numeric: ints, bools, object w/ None
d4=pd.DataFrame({'a':[1,2,3],'b':[True,False,True],'c':pd.array([1,None,3],dtype='Int64'),'d':[1.5,None,float('inf')],'y':[1.,2.,3.]})
def q():
    ds=Dataset(d4,{c:stype.numerical for c in 'abcdy'},target_col='y').materialize(); return ds.tensor_frame.feat_dict[stype.numerical].tolist(), ds.tensor_frame.col_names_dict, ds.col_stats['d'], ds.col_stats['c']
tryit('numeric variants', q)

/- Driver for the CatToNumTransform model (property C17): `R := Float` (IEEE double). -/
import TFVerif.Model.CatToNum
import TFVerif.Driver.Json

open Lean TFVerif TFVerif.Driver TFVerif.CatToNum

def floatOps : FOps Float :=
  { zero := 0.0, ofInt := Float.ofInt, add := (· + ·), div := (· / ·), isNaN := Float.isNaN }

def parseTarget (j : Json) : Except String (Option (Target Float)) := do
  match j with
  | .null => pure none
  | _ =>
    match j.getObjVal? "f" with
    | .ok v => pure (some (.floats (← floatList v)))
    | .error _ => pure (some (.ints (← intList (← j.getObjVal? "i"))))

def parseFrame (j : Json) : Except String (Frame Float) := do
  let num ← asList floatList (← j.getObjVal? "num")
  let cat ← asList intList (← j.getObjVal? "cat")
  if num.length ≠ cat.length then err "num/cat row counts differ"
  pure { numNames := ← strList (← j.getObjVal? "numNames")
         catNames := ← strList (← j.getObjVal? "catNames")
         rows := (num.zip cat).map fun (n, c) => { num := n, cat := c }
         y := ← parseTarget (← j.getObjVal? "y") }

def parseStats (j : Json) : Except String (List (String × List Nat)) :=
  asList (fun kv => do
    match (← kv.getArr?).toList with
    | [k, v] => pure (← k.getStr?, ← natList v)
    | _ => err "colStats entry") j

def raisesJ : Json := "raises"

def jState : State Float → Json
  | .unfitted => Json.mkObj [("state", "unfitted")]
  | .fittedNoCat ks => Json.mkObj [("state", "nocat"), ("statsKeys", jStrs ks)]
  | .fitted f => Json.mkObj [("state", "fitted"), ("statsKeys", jStrs f.statsKeys), ("newColumns", jStrs f.newColumns),
                             ("K", f.numClasses), ("N", f.dataSize), ("mean", jFloats f.targetMean)]

def jFrame (fr : Frame Float) : Json :=
  Json.mkObj [("numNames", jStrs fr.numNames), ("catNames", jStrs fr.catNames),
              ("rows", jList (fun (r : Row Float) => jFloats r.num) fr.rows),
              ("cat", jList (fun (r : Row Float) => jInts r.cat) fr.rows)]

def handle (j : Json) : Except String Json := do
  let st0 : State Float := .unfitted
  let (fitJ, st) ← match j.getObjVal? "fit" with
    | .ok .null => pure (Json.null, st0)
    | .error _ => pure (Json.null, st0)
    | .ok fj =>
      let fr ← parseFrame fj
      let cs ← parseStats (← fj.getObjVal? "colStats")
      let ks ← strList (← fj.getObjVal? "statKeys")
      match fit floatOps fr cs ks with
      | none => pure (raisesJ, st0)
      | some st => pure (jState st, st)
  let st := if (j.getObjVal? "roundtrip" |>.toOption |>.bind (·.getBool?.toOption)) == some true
    then roundTrip st else st
  let old := (j.getObjVal? "old" |>.toOption |>.bind (·.getBool?.toOption)) == some true
  let outs ← (← getArr j "transforms").mapM fun tj => do
    let fr ← parseFrame tj
    let r := if old then transformOld floatOps st fr else transform floatOps st fr
    pure (match r with
          | none => raisesJ
          | some out => jFrame out)
  pure (Json.mkObj [("fit", fitJ), ("state", jState st), ("transforms", Json.arr outs.toArray)])

def main : IO Unit := serve handle

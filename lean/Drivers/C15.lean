/- Driver for C15: table convolutions and decoders on `Float`, parameters from the real `state_dict`. -/
import TFVerif.Driver.NN

open Lean TFVerif TFVerif.Driver NN

/-- is every masked un-normalised attention weight of this ExcelFormerConv input exactly `0.0`?
    (the hypothesis `MaskedUnderflow` of theorem `excel_causal`, evaluated on `Float`) -/
def excelUnderflow (c : Nat) (θ : ExcelConv Float) (X : T3 Float) : Bool :=
  let a := θ.diam
  let d := c / a.heads
  let sqrtd := fops.sqrt (fops.ofNat d)
  (fops.layerNormLast3 θ.norm1 X).all fun M =>
    let Qs := headsOf a.heads d (fops.linearLast a.q M)
    let Ks := headsOf a.heads d (fops.linearLast a.k M)
    (List.zip Qs Ks).all fun (Q, K) =>
      (List.range Q.length).all fun i => (List.range K.length).all fun j =>
        if a.seqIds.getD j 0 ≤ a.seqIds.getD i 0 then true
        else fops.diamExp a.seqIds sqrtd Q K i j == 0.0

def handle (j : Json) : Except String Json := do
  match (← getStr j "cmd") with
  | "ft" =>
    let (x, cls) := fops.ftConvs (← getNat j "c") (← getNat j "n") (← ftConvs (← fld j "p")) (← t3 (← fld j "x"))
    pure (Json.mkObj [("x", jT3 x), ("cls", jMat cls)])
  | "tabt" =>
    pure (jT3 (fops.tabTConv (← getNat j "c") (← getNat j "n") (← tabTConv (← fld j "p")) (← t3 (← fld j "x"))))
  | "excel" =>
    let c ← getNat j "c"
    let θ ← excelConv (← fld j "p")
    let X ← t3 (← fld j "x")
    pure (Json.mkObj [("y", jT3 (fops.excelConv c (← getNat j "n") θ X)), ("underflow", excelUnderflow c θ X)])
  | "trompt" =>
    match fops.tromptConv (← tromptConv (← fld j "p")) (← t3 (← fld j "x")) (← t3 (← fld j "xp")) with
    | none => pure raises
    | some y => pure (Json.mkObj [("ok", jT3 y)])
  | "exdec" =>
    pure (jMat (fops.excelDec (← excelDec (← fld j "p")) (← t3 (← fld j "x"))))
  | "trdec" =>
    match fops.tromptDec (← tromptDec (← fld j "p")) (← t3 (← fld j "x")) with
    | none => pure raises
    | some y => pure (Json.mkObj [("ok", jMat y)])
  | c => err s!"cmd {c}"

def main : IO Unit := serve handle

/- Driver for the save/load and cache-protocol model (property C11). -/
import TFVerif.Model.IO
import TFVerif.Driver.Json

open Lean TFVerif TFVerif.IO TFVerif.Driver

/-- element payload: integers as they are, floats as their IEEE-754 double bit pattern. -/
abbrev V := Int
/-- `col_stats` travels through the model as an opaque JSON value. -/
abbrev S := Json

def raisesJ : Json := "raises"
def okJ (j : Json) : Json := Json.mkObj [("ok", j)]

/-! ### parsing -/

def parseStype (j : Json) : Except String Stype := do
  let s ← j.getStr?
  match Stype.ofName? s with
  | some t => pure t
  | none => err s!"unknown stype {s}"

def parseTensor (j : Json) : Except String (Tensor V) := do
  pure { dtype := ← getStr j "dtype", shape := ← natList (← j.getObjVal? "shape"),
         data := ← intList (← j.getObjVal? "data") }

def parseNested (j : Json) : Except String (Nested V) := do
  pure { dtype := ← getStr j "dtype",
         m := { numRows := ← getNat j "R", numCols := ← getNat j "C",
                values := ← intList (← j.getObjVal? "values"), offset := ← natList (← j.getObjVal? "offset") } }

def parseEmbedded (j : Json) : Except String (Embedded V) := do
  pure { dtype := ← getStr j "dtype",
         m := { numRows := ← getNat j "R", numCols := ← getNat j "C", width := ← getNat j "W",
                values := ← asList intList (← j.getObjVal? "values"),
                offset := ← natList (← j.getObjVal? "offset") } }

def parsePair (f : Json → Except String β) (g : Json → Except String γ) (j : Json) : Except String (β × γ) := do
  match (← j.getArr?).toList with
  | [a, b] => pure (← f a, ← g b)
  | _ => err "pair expected"

def parseFeat (j : Json) : Except String (Feat V) := do
  match (← getStr j "k") with
  | "dense" => pure (.dense (← parseTensor (← j.getObjVal? "t")))
  | "nested" => pure (.nested (← parseNested j))
  | "emb" => pure (.emb (← parseEmbedded j))
  | "dict" => pure (.dict (← asList (parsePair (·.getStr?) parseNested) (← j.getObjVal? "items")))
  | k => err s!"feature kind {k}"

def parseFrame (j : Json) : Except String (Frame V) := do
  let y ← match j.getObjVal? "y" with
    | .ok .null => pure none
    | .ok v => some <$> parseTensor v
    | .error _ => pure none
  pure { feats := ← asList (parsePair parseStype parseFeat) (← j.getObjVal? "feats"),
         colNames := ← asList (parsePair parseStype strList) (← j.getObjVal? "cols"), y := y }

/-! ### printing -/

def jTensor (t : Tensor V) : Json :=
  Json.mkObj [("dtype", t.dtype), ("shape", jNats t.shape), ("data", jInts t.data)]

def jNested (n : Nested V) : Json :=
  Json.mkObj [("k", "nested"), ("dtype", n.dtype), ("R", n.m.numRows), ("C", n.m.numCols),
              ("values", jInts n.m.values), ("offset", jNats n.m.offset)]

def jEmbedded (e : Embedded V) : Json :=
  Json.mkObj [("k", "emb"), ("dtype", e.dtype), ("R", e.m.numRows), ("C", e.m.numCols), ("W", e.m.width),
              ("values", jList jInts e.m.values), ("offset", jNats e.m.offset)]

def jPair (a b : Json) : Json := Json.arr #[a, b]

def jFeat : Feat V → Json
  | .dense t => Json.mkObj [("k", "dense"), ("t", jTensor t)]
  | .nested n => jNested n
  | .emb e => jEmbedded e
  | .dict d => Json.mkObj [("k", "dict"), ("items", jList (fun kv => jPair kv.1 (jNested kv.2)) d)]

def jFrame (tf : Frame V) : Json :=
  Json.mkObj [("feats", jList (fun sf => jPair sf.1.name (jFeat sf.2)) tf.feats),
              ("cols", jList (fun sc => jPair sc.1.name (jStrs sc.2)) tf.colNames),
              ("y", match tf.y with | none => Json.null | some t => jTensor t)]

/-- the python dict of `to_dict()` with its four keys. -/
def jMTDict (d : MTDict V) : Json :=
  let vals := match d.values with
    | .d1 xs => Json.mkObj [("ndim", (1 : Nat)), ("data", jInts xs)]
    | .d2 w rows => Json.mkObj [("ndim", (2 : Nat)), ("W", w), ("data", jList jInts rows)]
  Json.mkObj [("num_rows", d.numRows), ("num_cols", d.numCols), ("dtype", d.dtype),
              ("values", vals), ("offset", jNats d.offset)]

def jSerFeat : SerFeat V → Json
  | .tensor t => Json.mkObj [("k", "tensor"), ("t", jTensor t)]
  | .mt d => Json.mkObj [("k", "mt"), ("d", jMTDict d)]
  | .dictMT ds => Json.mkObj [("k", "dictMT"), ("items", jList (fun kv => jPair kv.1 (jMTDict kv.2)) ds)]

def jFileVal (v : FileVal V S) : Json :=
  Json.mkObj [("y", match v.tfDict.y with | none => Json.null | some t => jTensor t),
              ("col_names_dict", jList (fun sc => jPair sc.1.name (jStrs sc.2)) v.tfDict.colNames),
              ("feat_serialized_dict", jList (fun sx => jPair sx.1.name (jSerFeat sx.2)) v.tfDict.featSer),
              ("col_stats", v.colStats)]

def jResult (r : Frame V × S) : Json := Json.mkObj [("frame", jFrame r.1), ("stats", r.2)]

/-! ### commands -/

/-- `save` into an empty file system, then `load`. -/
def cmdRoundtrip (j : Json) : Except String Json := do
  let tf ← parseFrame (← j.getObjVal? "frame")
  let stats ← j.getObjVal? "stats"
  match saveVal tf stats with
  | .error _ => pure (Json.mkObj [("save", raisesJ)])
  | .ok v =>
    match save tf stats "f" Store.empty with
    | .error _ => pure (Json.mkObj [("save", raisesJ)])
    | .ok st =>
      let loaded := match load "f" st with
        | .ok r => okJ (jResult r)
        | .error _ => raisesJ
      pure (Json.mkObj [("save", okJ (jFileVal v)), ("load", loaded), ("wf", decide tf.WF)])

/-- a history of `materialize` calls on a pool of dataset objects sharing one file system, with the
    harness' own file operations (`damage`: overwrite by something `torch.load` rejects, `remove`). -/
def cmdHistory (j : Json) : Except String Json := do
  let dss ← getArr j "datasets"
  let mut table : List (Except String (Frame V × S)) := []
  let mut argsOf : List Nat := []
  for d in dss do
    argsOf := argsOf ++ [← getNat d "args"]
    match d.getObjVal? "compute" with
    | .ok .null => table := table ++ [.error "the computation raises"]
    | .ok c => table := table ++ [.ok (← parseFrame (← c.getObjVal? "frame"), ← c.getObjVal? "stats")]
    | .error _ => table := table ++ [.error "the computation raises"]
  let compute : Unit → Nat → Nat → Except String (Frame V × S) :=
    fun _ _ d => table.getD d (.error "no such data frame")
  let mut w : World Nat Nat V S :=
    { pool := fun i => { args := argsOf.getD i 0, df := i, state := none }, store := Store.empty }
  let mut outs : List Json := []
  let mut paths : List String := []
  for s in (← getArr j "steps") do
    let path ← match s.getObjVal? "path" with
      | .ok .null => pure none
      | .ok v => some <$> v.getStr?
      | .error _ => pure none
    if let some p := path then
      if !paths.contains p then paths := paths ++ [p]
    match (← getStr s "op") with
    | "mat" =>
      let i ← getNat s "ds"
      let res := (w.pool i).materialize compute () path w.store
      outs := outs ++ [match res with | .ok _ => (Json.str "ok") | .error _ => raisesJ]
      w := w.step compute ⟨i, (), path⟩
    | "damage" =>
      match path with
      | some p => w := { w with store := w.store.write p .damaged }; outs := outs ++ [Json.str "ok"]
      | none => throw "damage needs a path"
    | "remove" =>
      match path with
      | some p => w := { w with store := w.store.remove p }; outs := outs ++ [Json.str "ok"]
      | none => throw "remove needs a path"
    | o => throw s!"op {o}"
  let finalDs := (List.range dss.length).map fun i =>
    match (w.pool i).state, (w.pool i).converter with
    | some r, some c => Json.mkObj [("frame", jFrame r.1), ("stats", r.2),
                                    ("converter", Json.mkObj [("args", c.args), ("col_stats", c.colStats)])]
    | _, _ => Json.null
  let files := paths.map fun (p : String) =>
    jPair (Json.str p) (match w.store p with
      | none => Json.str "missing"
      | some _ => match load p w.store with
        | .ok r => okJ (jResult r)
        | .error _ => raisesJ)
  pure (Json.mkObj [("steps", Json.arr outs.toArray), ("datasets", Json.arr finalDs.toArray),
                    ("files", Json.arr files.toArray)])

def handle (j : Json) : Except String Json := do
  match (← getStr j "cmd") with
  | "roundtrip" => cmdRoundtrip j
  | "history" => cmdHistory j
  | c => err s!"cmd {c}"

def main : IO Unit := serve handle

/- Driver for the TensorFrame / DataLoader model (properties C07, C08, C10).
   Values travel as IEEE-754 bit patterns (natural numbers); only `close` interprets them. -/
import TFVerif.Model.Frame
import TFVerif.Model.Loader
import TFVerif.Driver.Json

open Lean TFVerif TFVerif.TF TFVerif.Driver

abbrev V := Nat
abbrev Fr := Frame (Feat V) V

/-- `torch.isclose(a, b, rtol=1e-5, atol=1e-8, equal_nan)` on one pair of entries:
    `a == b  or  (isfinite(|a - b|) and |a - b| <= atol + rtol * |b|)` (ATen `isclose`): an infinite entry is close
    only to the same infinity. -/
def closeBits (equalNan : Bool) (a b : V) : Bool :=
  let x := floatOfBits a
  let y := floatOfBits b
  if x.isNaN || y.isNaN then equalNan && x.isNaN && y.isNaN
  else x == y || ((x - y).abs.isFinite && (x - y).abs ≤ 1e-8 + 1e-5 * y.abs)

def ops : FeatOps (Feat V) := featOps (closeBits true)

def parseIndex (j : Json) : Except String Index := do
  match (← getStr j "t") with
  | "int" => pure (.int (← getInt j "i"))
  | "slice" => pure (.slice (← optInt j "a") (← optInt j "b") (← optInt j "s"))
  | "list" => pure (.list (← intList (← j.getObjVal? "is")))
  | "mask" => pure (.mask (← boolList (← j.getObjVal? "bs")))
  | t => err s!"index kind {t}"

def parseMNT (j : Json) : Except String (MNT V) := do
  pure { numRows := ← getNat j "R", numCols := ← getNat j "C",
         values := ← natList (← j.getObjVal? "values"), offset := ← natList (← j.getObjVal? "offset") }

def parseMET (j : Json) : Except String (MET V) := do
  pure { numRows := ← getNat j "R", numCols := ← getNat j "C", width := ← getNat j "W",
         values := ← asList natList (← j.getObjVal? "values"), offset := ← natList (← j.getObjVal? "offset") }

def optNat (j : Json) (k : String) : Except String (Option Nat) := do
  match j.getObjVal? k with
  | .ok .null => pure none
  | .ok v => pure (some (← v.getNat?))
  | .error _ => pure none

def parseFeat (j : Json) : Except String (Feat V) := do
  match (← getStr j "k") with
  | "dense" =>
    pure (.dense { numCols := ← getNat j "C", depth := ← optNat j "D",
                   rows := ← asList (asList natList) (← j.getObjVal? "rows") })
  | "mnt" => pure (.nested (← parseMNT j))
  | "met" => pure (.emb (← parseMET j))
  | "dict" =>
    let kvs ← (← getArr j "d").mapM fun kv => do
      let a ← kv.getArr?
      if a.size != 2 then err "dict entry" else
      pure ((← a[0]!.getStr?), (← parseMNT a[1]!))
    pure (.dict kvs)
  | "flat" => pure (.flat (← natList (← j.getObjVal? "v")))
  | k => err s!"feat kind {k}"

def pairArr (j : Json) : Except String (Json × Json) := do
  let a ← j.getArr?
  if a.size != 2 then err "pair expected" else pure (a[0]!, a[1]!)

def parseFrame (j : Json) : Except String Fr := do
  let feats ← (← getArr j "feats").mapM fun p => do
    let (s, f) ← pairArr p
    pure ((← s.getStr?), (← parseFeat f))
  let names ← (← getArr j "names").mapM fun p => do
    let (s, ns) ← pairArr p
    pure ((← s.getStr?), (← strList ns))
  let y ← match j.getObjVal? "y" with
    | .ok .null => pure none
    | .ok v => pure (some (← natList v))
    | .error _ => pure none
  pure { feats, names, y, numRowsOpt := ← optNat j "nr" }

def jMNT (m : MNT V) : Json :=
  Json.mkObj [("k", "mnt"), ("R", m.numRows), ("C", m.numCols), ("values", jNats m.values), ("offset", jNats m.offset)]

def jMET (m : MET V) : Json :=
  Json.mkObj [("k", "met"), ("R", m.numRows), ("C", m.numCols), ("W", m.width),
              ("values", jList jNats m.values), ("offset", jNats m.offset)]

def jOptNat : Option Nat → Json
  | none => Json.null
  | some n => n

def jFeat : Feat V → Json
  | .dense d => Json.mkObj [("k", "dense"), ("C", d.numCols), ("D", jOptNat d.depth),
                            ("rows", jList (jList jNats) d.rows)]
  | .nested m => jMNT m
  | .emb m => jMET m
  | .dict kvs => Json.mkObj [("k", "dict"), ("d", jList (fun kv : String × MNT V => Json.arr #[kv.1, jMNT kv.2]) kvs)]
  | .flat xs => Json.mkObj [("k", "flat"), ("v", jNats xs)]

def jFrame (f : Fr) : Json :=
  Json.mkObj [
    ("feats", jList (fun sf : String × Feat V => Json.arr #[sf.1, jFeat sf.2]) f.feats),
    ("names", jList (fun sn : String × List String => Json.arr #[sn.1, jStrs sn.2]) f.names),
    ("y", match f.y with | none => Json.null | some y => jNats y),
    ("nr", jOptNat f.numRowsOpt),
    ("len", f.numRows ops)]

def raises : Json := "raises"
def okJ (j : Json) : Json := Json.mkObj [("ok", j)]

def outFrame : Option Fr → Json
  | none => raises
  | some f => okJ (jFrame f)

/-- run a program of row selections / column lookups; per-step outcomes and the final frame. -/
def runOps (f : Fr) (prog : List Json) : Except String (List Json × Option Fr) := do
  let mut cur : Option Fr := some f
  let mut outs : List Json := []
  for op in prog do
    match cur with
    | none => outs := outs ++ [Json.null]
    | some c =>
      match (← getStr op "op") with
      | "sel" =>
        let r := c.getitem ops (← parseIndex (← op.getObjVal? "ix"))
        outs := outs ++ [outFrame r]
        cur := r
      | "col" =>
        let r := c.getColFeat ops (← getStr op "name")
        outs := outs ++ [match r with
          | none => raises
          | some (ft, s) => okJ (Json.mkObj [("stype", s), ("feat", jFeat ft)])]
      | o => err s!"op {o}"
  pure (outs, cur)

/-- a part of a concatenation: a constructed frame (so `validate` runs) followed by row selections. -/
def partOf (j : Json) (common : Option Fr := none) : Except String (Option Fr) := do
  -- input plumbing only: a part without its own `frame` starts from the request's common frame (parsed once; keeps
  -- requests with hundreds of parts of one large frame small)
  let base ← match j.getObjVal? "frame", common with
    | .ok f, _ => parseFrame f
    | .error _, some c => pure c
    | .error e, none => err e
  match Frame.make ops base.feats base.names base.y base.numRowsOpt with
  | none => pure none
  | some b =>
    let (_, cur) ← runOps b (← getArr j "ops")
    pure cur

def makeOf (j : Json) : Except String (Option Fr) := do
  let f ← parseFrame j
  pure (Frame.make ops f.feats f.names f.y f.numRowsOpt)

def handle (j : Json) : Except String Json := do
  match (← getStr j "cmd") with
  | "prog" =>
    let base ← parseFrame (← j.getObjVal? "frame")
    let (outs, _) ← runOps base (← getArr j "ops")
    pure (Json.arr outs.toArray)
  | "make" =>
    pure (match (← makeOf (← j.getObjVal? "frame")) with | none => raises | some f => okJ (jFrame f))
  | "cat" =>
    let dim ← getInt j "dim"
    let common ← match j.getObjVal? "frame" with
      | .ok f => some <$> parseFrame f
      | .error _ => pure none
    let parts ← (← getArr j "parts").mapM (partOf · common)
    if parts.any Option.isNone then pure (Json.str "part-raises") else
    let r := Frame.cat ops (parts.filterMap id) dim
    match j.getObjVal? "eqto" with
    | .ok e =>
      match (← partOf e common) with
      | none => pure (Json.str "part-raises")
      | some whole =>
        pure (match r with
          | none => raises
          | some g => okJ (Json.mkObj [("frame", jFrame g),
                      ("eq", Frame.eq ops (closeBits false) g whole),
                      ("eq_rev", Frame.eq ops (closeBits false) whole g)]))
    | .error _ => pure (outFrame r)
  | "eq" =>
    let a ← parseFrame (← j.getObjVal? "a")
    let b ← parseFrame (← j.getObjVal? "b")
    pure (Json.mkObj [("ab", Frame.eq ops (closeBits false) a b), ("ba", Frame.eq ops (closeBits false) b a)])
  | "epoch" =>
    let f ← parseFrame (← j.getObjVal? "frame")
    let order ← natList (← j.getObjVal? "order")
    let bs ← optNat j "bs"
    let dl ← getBool j "drop_last"
    -- an explicit `batch_sampler=` hands the index batches over directly
    let given ← match j.getObjVal? "batches" with
      | .ok .null => pure none
      | .ok v => pure (some (← asList natList v))
      | .error _ => pure none
    let shuffle ← match j.getObjVal? "shuffle" with
      | .ok v => v.getBool?
      | .error _ => pure false
    let bssO := match given with
      | some bss => some bss
      | none => if Loader.randomSamplerRaises (f.numRows ops) shuffle then none else Loader.batches order bs dl
    match bssO with
    | none => pure raises
    | some bss =>
      match Loader.collateAll ops f (if given.isSome then some 1 else bs) bss with
      | none => pure (Json.str "collate-raises")
      | some frames =>
        pure (okJ (Json.mkObj [("batches", jList jNats bss), ("frames", jList jFrame frames)]))
  | c => err s!"cmd {c}"

def main : IO Unit := serve handle

/- Driver for the stype-inference model (property C18). -/
import TFVerif.Model.InferStype
import TFVerif.Driver.Json

open Lean TFVerif TFVerif.Driver TFVerif.Infer

/-- numeric cells travel as IEEE-754 bit patterns; the value identity for `value_counts` is the bit pattern
    (the generators never emit −0.0 or NaN payloads) -/
def isIntegralBits (v : Int) : Bool :=
  let x := floatOfBits v.toNat
  x.isFinite && x.floor == x

def parseElem (j : Json) : Except String Elem := do
  match (← j.getStr?) with
  | "i" => pure .int
  | "f" => pure (.flt true)
  | "n" => pure (.flt false)
  | "s" => pure .str
  | "o" => pure .other
  | e => err s!"elem {e}"

def parseObj (j : Json) : Except String (Option Obj) := do
  match j with
  | .null => pure none
  | _ =>
    match j.getObjVal? "s" with
    | .ok v => pure (some (.str (← v.getStr?)))
    | .error _ =>
      match j.getObjVal? "l" with
      | .ok v => pure (some (.list (← asList parseElem v)))
      | .error _ => pure (some (.other (← getNat j "o")))

def optInt' (j : Json) : Except String (Option Int) :=
  match j with
  | .null => pure none
  | v => some <$> v.getInt?

/-- a column together with its date-parsing bit (only meaningful for object columns) -/
def parseCol (j : Json) : Except String (Col Int × Bool) := do
  match (← getStr j "t") with
  | "float" => pure (.numeric .float (← asList optInt' (← j.getObjVal? "cells")), false)
  | "int" => pure (.numeric .int (← asList optInt' (← j.getObjVal? "cells")), false)
  | "bool" => pure (.numeric .bool (← asList optInt' (← j.getObjVal? "cells")), false)
  | "datetime" => pure (.datetime (← asList optInt' (← j.getObjVal? "cells")), false)
  | "object" => pure (.object (← asList parseObj (← j.getObjVal? "cells")), ← getBool j "parses")
  | t => err s!"col kind {t}"

def mkEnv (parses : List Obj → Bool) : Env Int :=
  { isIntegral := isIntegralBits, parses := parses, split := Stats.splitBySep }

def jStype : Option Stats.Stype → Json
  | none => Json.null
  | some s => (s.name : Json)

def nonMissing : Col Int → List Obj
  | .object cells => cells.filterMap id
  | _ => []

def handle (j : Json) : Except String Json := do
  match (← getStr j "cmd") with
  | "series" =>
    let (col, bit) ← parseCol (← j.getObjVal? "col")
    pure (jStype (inferSeries (mkEnv fun _ => bit) col))
  | "frame" =>
    let cols ← (← getArr j "cols").mapM fun c => do
      let name ← getStr c "name"
      let (col, bit) ← parseCol (← c.getObjVal? "col")
      pure (name, col, bit)
    -- `_is_timestamp` as a function of the non-missing cells: the table of this frame's columns
    let table := cols.map fun (_, col, bit) => (nonMissing col, bit)
    let parses := fun (ser : List Obj) => match table.find? (fun p => p.1 == ser) with
      | some p => p.2
      | none => false
    let res := inferFrame (mkEnv parses) (cols.map fun (n, c, _) => (n, c))
    pure (jList (fun (p : String × Stats.Stype) => Json.arr #[(p.1 : Json), (p.2.name : Json)]) res)
  | c => err s!"cmd {c}"

def main : IO Unit := serve handle

/- Driver for the chunk / assembly model of the text & image callables (property C16). -/
import TFVerif.Model.Chunk
import TFVerif.Driver.Json

open Lean TFVerif TFVerif.Driver TFVerif.Chunk

def parseCell (j : Json) : Except String Cell := do
  match j.getObjVal? "s" with
  | .ok v => pure (.str (← v.getStr?))
  | .error _ =>
    match (← getStr j "m") with
    | "none" => pure (.missing .none)
    | "nan" => pure (.missing .nan)
    | "na" => pure (.missing .na)
    | m => err s!"missing kind {m}"

def parseDtype (s : String) : Except String Dtype :=
  match s with
  | "object" => pure .object
  | "str" => pure .str
  | "string" => pure .string
  | d => err s!"dtype {d}"

def optNat (j : Json) (k : String) : Except String (Option Nat) := do
  match j.getObjVal? k with
  | .ok .null => pure none
  | .ok v => pure (some (← v.getNat?))
  | .error _ => pure none

/-- the recording stub's deterministic per-string functions (the harness implements the same). -/
def ords (s : String) : List Int := s.toList.map fun c => (c.toNat : Int)

def weighted (xs : List Int) : Int :=
  ((xs.zipIdx.map fun (x, i) => ((i : Int) + 1) * x).sum) % 1009

def embStub (d : Nat) (s : String) : List Int :=
  ([(s.length : Int), (ords s).sum, weighted (ords s)] ++ List.replicate d 7).take d

def tokStub (keys : List String) (w : Option Nat) (s : String) (k : String) : List Int :=
  let j : Int := (keys.idxOf k : Nat)
  let base := (ords s).map (· + j)
  match w with
  | none => base
  | some w => (base ++ List.replicate w 0).take w

/-- insertion order of the keys of the mapping the stub builds for sentence `s` (the harness implements the
    same: `chunk16.key_order`); mappings are keyed, so every order is a legal tokenizer output. -/
def keyOrder (mode : String) (keys : List String) (s : String) : List String :=
  match mode with
  | "rev" => if s.length % 2 == 1 then keys.reverse else keys
  | "rot" => keys.rotateLeft (((ords s).sum.toNat) % (max 1 keys.length))
  | _ => keys

/-- format "list of per-sentence mappings", every sentence with its own key order -/
def tokSentencesOrd (mode : String) (keys : List String) (g : String → String → List Int) (xs : List String) :
    TokOut Int :=
  .sentences (xs.map fun s => (keyOrder mode keys s).map fun k => (k, g s k))

/-- format "one mapping of 2-D tensors", the key order decided per call -/
def tokMappingOrd (mode : String) (keys : List String) (g : String → String → List Int) (xs : List String) :
    TokOut Int :=
  let ks := match xs with
    | [] => keys
    | s :: _ => keyOrder mode keys s
  .mapping (ks.map fun k => (k, xs.map fun s => g s k))

def jMNT (m : MNT Int) : Json :=
  Json.mkObj [("R", m.numRows), ("C", m.numCols), ("values", jInts m.values), ("offset", jNats m.offset)]

def jMET (m : MET Int) : Json :=
  Json.mkObj [("R", m.numRows), ("C", m.numCols), ("W", m.width),
              ("values", jList jInts m.values), ("offset", jNats m.offset)]

def raisesJ : Json := "raises"
def okJ (j : Json) : Json := Json.mkObj [("ok", j)]

def handle (j : Json) : Except String Json := do
  let dt ← parseDtype (← getStr j "dtype")
  let cells ← asList parseCell (← j.getObjVal? "cells")
  let bs ← optNat j "bs"
  let tbl := pyTable dt
  let calls := callArgs bs (cells.map (renderWith tbl))
  let callsJ : Json := match calls with
    | none => raisesJ
    | some cs => jList jStrs cs
  let out ← match (← getStr j "kind") with
    | "embed" =>
      let d ← getNat j "D"
      pure (match embedColumn tbl (fun xs => xs.map (embStub d)) bs cells with
            | none => raisesJ
            | some m => okJ (jMET m))
    | "tok_map" | "tok_list" =>
      let keys ← strList (← j.getObjVal? "keys")
      let w ← optNat j "W"
      let g := tokStub keys w
      let mode := match j.getObjVal? "ord" with
        | .ok (.str m) => m
        | _ => "fixed"
      let isMap := (← getStr j "kind") == "tok_map"
      let tok := if mode == "fixed" then
          (if isMap then tokMapping keys g else tokSentences keys g)
        else
          (if isMap then tokMappingOrd mode keys g else tokSentencesOrd mode keys g)
      pure (match tokenizeColumn tbl tok bs cells with
            | none => raisesJ
            | some kms => okJ (jList (fun (km : Key × MNT Int) => Json.arr #[(km.1 : Json), jMNT km.2]) kms))
    | k => err s!"kind {k}"
  pure (Json.mkObj [("calls", callsJ), ("out", out)])

def main : IO Unit := serve handle

/- Driver for the dataset / split-generator model (property C09). -/
import TFVerif.Model.Dataset
import TFVerif.Driver.Json

open Lean TFVerif TFVerif.Driver TFVerif.Dataset

def raises : Json := "raises"

def parseBound (j : Json) : Except String Bound := do
  match j with
  | .null => pure .none
  | .obj _ =>
    let pq ← intList (← j.getObjVal? "f")
    match pq with
    | [p, q] => if q ≤ 0 then err "bound: q <= 0" else pure (.frac p q.toNat)
    | _ => err "bound: f must be [p, q]"
  | v => pure (.int (← v.getInt?))

def boundOf (j : Json) (k : String) : Except String Bound :=
  match j.getObjVal? k with
  | .ok v => parseBound v
  | .error _ => pure .none

def Bound.asInt? : Bound → Option (Option Int)
  | .none => some none
  | .int i => some (some i)
  | .frac _ _ => none

def parseDIndex (j : Json) : Except String DIndex := do
  match (← getStr j "t") with
  | "int" => pure (.idx (.int (← getInt j "i")))
  | "slice" =>
    let a ← boundOf j "a"
    let b ← boundOf j "b"
    let s ← optInt j "s"
    match Bound.asInt? a, Bound.asInt? b with
    | some a', some b' => pure (.idx (.slice a' b' s))
    | _, _ => pure (.fslice a b s)
  | "list" => pure (.idx (.list (← intList (← j.getObjVal? "is"))))
  | "mask" => pure (.idx (.mask (← boolList (← j.getObjVal? "bs"))))
  | t => err s!"index kind {t}"

def parseRow (j : Json) : Except String Row := do
  match (← intList j) with
  | [rid, label, split] =>
    if rid < 0 ∨ split < 0 then err "row: negative rid/split" else
    pure { rid := rid.toNat, label := label, split := split.toNat }
  | _ => err "row: [rid, label, split]"

def parseOp (j : Json) : Except String Op := do
  let src ← getNat j "src"
  match (← getStr j "op") with
  | "materialize" => pure (.materialize src)
  | "select" => pure (.select src (← parseDIndex (← j.getObjVal? "ix")))
  | "shuffle" => pure (.shuffle src (← natList (← j.getObjVal? "perm")))
  | "get_split" => pure (.getSplit src (← getStr j "name"))
  | "split" => pure (.split src)
  | "col_select" => pure (.colSelect src (← strList (← j.getObjVal? "cols")))
  | "tensor_frame" => pure (.tensorFrame src)
  | o => err s!"op {o}"

def jDS (d : DS) : Json :=
  Json.mkObj [("df", jNats (d.df.map (·.rid))),
              ("labels", jInts (d.df.map (·.label))),
              ("tf", if d.materialized then jNats d.tf else Json.null),
              ("mat", d.materialized),
              ("cols", jStrs d.cols)]

def jOut : Out → Json
  | .raises => raises
  | .updated d => Json.mkObj [("updated", jDS d)]
  | .derived ds => Json.mkObj [("derived", jList jDS ds)]
  | .observed tf => Json.mkObj [("observed", jNats tf)]

def parseRatio (j : Json) : Except String Split.Ratio := do
  match (← intList j) with
  | [p, q] => if q ≤ 0 then err "ratio: q <= 0" else pure { p := p, q := q.toNat }
  | _ => err "ratio: [p, q]"

def handle (j : Json) : Except String Json := do
  match (← getStr j "cmd") with
  | "hist" =>
    let rows ← asList parseRow (← j.getObjVal? "rows")
    let cols ← strList (← j.getObjVal? "cols")
    let target : Option String := match j.getObjVal? "target" with
      | .ok (.str s) => some s
      | _ => none
    let splitCol ← getBool j "split_col"
    let ops ← (← getArr j "ops").mapM parseOp
    match DS.create rows cols target splitCol with
    | none => pure (Json.mkObj [("ctor", raises)])
    | some d0 =>
      let (_, outs) := run ops [d0]
      pure (Json.mkObj [("ctor", "ok"), ("steps", jList jOut outs)])
  | "gen" =>
    let n ← getNat j "n"
    let seed ← getNat j "seed"
    let rt ← parseRatio (← j.getObjVal? "rt")
    let rv ← parseRatio (← j.getObjVal? "rv")
    let it ← getBool j "it"
    let perm ← natList (← j.getObjVal? "perm")
    -- the numpy generator: the position permutation it draws for (seed, n) is supplied by the harness
    let R : Split.Rng Nat := { seed := fun s => s, shuffle := fun g _ => (perm, g + 1) }
    match Split.generate R 0 n seed rt rv it with
    | none => pure raises
    | some (out, _) => pure (Json.mkObj [("ok", jNats out)])
  | "round" =>
    -- roundHalfEven (p * n) q, for the exhaustive rounding box
    let p ← getInt j "p"
    let q ← getNat j "q"
    let n ← getNat j "n"
    pure (toJson (roundHalfEven (p * n) q))
  | c => err s!"cmd {c}"

def main : IO Unit := serve handle

/- Driver for the feature-mixup model (property C19): one `feature_mixup` / `forward` call per line. -/
import TFVerif.Model.Mixup
import TFVerif.Driver.Json

open Lean TFVerif TFVerif.Driver TFVerif.Mixup

def parseMode (s : String) : Except String Mode :=
  match s with
  | "off" => pure .off
  | "feature" => pure .feature
  | "hidden" => pure .hidden
  | m => err s!"mode {m}"

def optFloats (j : Json) (k : String) : Except String (Option (List Float)) := do
  match j.getObjVal? k with
  | .ok .null => pure none
  | .ok v => pure (some (← floatList v))
  | .error _ => pure none

def parseTarget (j : Json) : Except String (Target Float) := do
  match (← getStr j "t") with
  | "scalar" => pure (.scalar (← floatList (← j.getObjVal? "v")))
  | "index" => pure (.index (← intList (← j.getObjVal? "v")))
  | t => err s!"target kind {t}"

def jOut (o : Option (Out Float)) : Json :=
  match o with
  | none => "raises"
  | some r =>
    let y : Json := match r.y with
      | .vec ys => Json.mkObj [("vec", jFloats ys)]
      | .mat rows => Json.mkObj [("mat", jList jFloats rows)]
    Json.mkObj [("x", jList (jList jFloats) r.x), ("y", y)]

def handle (j : Json) : Except String Json := do
  let dj ← j.getObjVal? "draws"
  let dr : Draws Float := {
    rates := ← floatList (← dj.getObjVal? "rates"),
    perm := ← natList (← dj.getObjVal? "perm"),
    u := ← asList floatList (← dj.getObjVal? "u") }
  let B ← getNat j "B"
  let F ← getNat j "F"
  let D ← getNat j "D"
  let x ← asList (asList floatList) (← j.getObjVal? "x")
  let mi ← optFloats j "mi"
  let mode ← parseMode (← getStr j "mode")
  let C ← getNat j "C"
  match (← getStr j "cmd") with
  | "mixup" =>
    let y ← parseTarget (← j.getObjVal? "y")
    pure (jOut (featureMixup floatOps C mode mi dr B F D x y))
  | "forward" =>
    let y ← match j.getObjVal? "y" with
      | .ok .null => pure none
      | .ok v => some <$> parseTarget v
      | .error _ => pure none
    pure (jOut (forwardMixup floatOps ⟨C, mode⟩ y mi dr B F D x))
  | c => err s!"cmd {c}"

def main : IO Unit := serve handle

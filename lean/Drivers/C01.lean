/- Driver for the materialization / converter model (properties C01, C02, C04). -/
import TFVerif.Model.Convert
import TFVerif.Driver.Json

open Lean TFVerif TFVerif.Driver TFVerif.Mat

/-- float payloads travel as IEEE-754 bit patterns and are only moved -/
abbrev F := Nat

def raisesJ : Json := "raises"
def okJ (j : Json) : Json := Json.mkObj [("ok", j)]

def parseStype (s : String) : Except String Stype :=
  match Stype.all.find? (·.name == s) with
  | some t => pure t
  | none => err s!"stype {s}"

def parseKey (j : Json) : Except String Key :=
  match j with
  | .str s => pure (.str s)
  | _ => do pure (.int (← j.getInt?))

def jKey : Key → Json
  | .str s => Json.str s
  | .int i => toJson i

def parseVal (j : Json) : Except String (Val F) :=
  match j with
  | .null => pure .nan
  | .arr a => match a.toList with
    | [b] => do pure (.flt (← b.getNat?))
    | _ => err "val"
  | _ => do pure (.int (← j.getInt?))

def jVal : Val F → Json
  | .int i => toJson i
  | .flt b => Json.arr #[toJson b]
  | .nan => Json.null

def jCell (c : List (Val F)) : Json := jList jVal c

def parseCell (s : Stype) (j : Json) : Except String (Cell F) :=
  match j with
  | .null => pure .missing
  | _ =>
    match s with
    | .numerical => do
      match (← parseVal j) with
      | .flt b => pure (.num b)
      | _ => err "numerical cell"
    | .categorical => do pure (.cat (← parseKey j))
    | .multicategorical => do pure (.toks (← asList parseKey j))
    | .sequence_numerical => do pure (.seq (← asList parseVal j))
    | .timestamp =>
      match j with
      | .str _ => pure .badTime
      | _ => do pure (.time (← j.getInt?))
    | .embedding => do pure (.vec (← asList parseVal j))
    | .text_embedded => do pure (.text (← j.getStr?))
    | .image_embedded => do pure (.text (← j.getStr?))
    | .text_tokenized => err "text_tokenized is not modelled"

/-- the harness' deterministic stub embedder (harness/matgen.py `stub_vec`) -/
def stubEmbed (w salt : Nat) (s : String) : List (Val F) :=
  let cs := s.toList
  let pos := (cs.zipIdx.map fun (c, i) => (i + 1) * c.toNat).sum
  (List.range w).map fun j =>
    .flt (Float.ofNat ((cs.length * 31 + (j + 1) * pos + 7 * j + salt) % 251)).toBits.toNat

structure Frame where
  df : DF Key F
  target : Option String
  widths : List (String × (Nat × Nat))     -- column → (stub width, salt)
  cats : List (String × List Key)          -- observed category lists

def optStr (j : Json) (k : String) : Except String (Option String) :=
  match j.getObjVal? k with
  | .ok (.str s) => pure (some s)
  | _ => pure none

def parseCols (j : Json) : Except String (List (Col F) × List (String × (Nat × Nat))) := do
  let cols ← (← getArr j "cols").mapM fun cj => do
    let st ← parseStype (← getStr cj "stype")
    let cells ← (← getArr cj "cells").mapM (parseCell st)
    let w := (getNat cj "w").toOption.getD 0
    let salt := (getNat cj "salt").toOption.getD 0
    let name ← getStr cj "name"
    pure (({ name := name, stype := st, cells := cells } : Col F), (name, (w, salt)))
  pure (cols.map (·.1), cols.map (·.2))

def parseFrame (j : Json) : Except String Frame := do
  let labels ← asList parseKey (← j.getObjVal? "labels")
  let (cols, widths) ← parseCols j
  let cats ← match j.getObjVal? "cats" with
    | .ok (.obj kvs) => kvs.toList.mapM fun (k, v) => do pure (k, ← asList parseKey v)
    | _ => pure []
  pure { df := { labels := labels, cols := cols }, target := ← optStr j "target", widths := widths, cats := cats }

def Frame.embedders (fr : Frame) : String → String → List (Val F) := fun col s =>
  let (w, salt) := (dictGet fr.widths col).getD (0, 0)
  stubEmbed w salt s

def Frame.vc (fr : Frame) : String → List Key → List Key := fun col _ => (dictGet fr.cats col).getD []

def jNames (names : List (Stype × List String)) : Json :=
  Json.mkObj (names.map fun (s, cols) => (s.name, jStrs cols))

def jStats (st : ColStats) : Json :=
  Json.mkObj [("cats", jList jKey st.cats), ("embDim", toJson st.embDim),
              ("yearRange", Json.arr #[toJson st.yearRange.1, toJson st.yearRange.2])]

def jOptCell (c : Option (List (Val F))) : Json :=
  match c with
  | some c => jCell c
  | none => "index-error"

/-- everything observable of a frame -/
def jTF (tf : TF F) : Json :=
  let n := tf.numRows
  let colsJ := tf.names.flatMap fun (_, cols) => cols.map fun name =>
    (name, jList (fun i => jOptCell (tf.cell name i)) (List.range n))
  let gridJ := tf.feats.map fun (s, f) => (s.name, jList (jList jCell) f.grid)
  Json.mkObj [("names", jNames tf.names), ("numRows", toJson n), ("cells", Json.mkObj colsJ),
              ("grid", Json.mkObj gridJ),
              ("y", match tf.y with
                    | none => Json.null
                    | some y => jList jCell y.cells)]

def binaryTargetSorted (cats : List Key) : Bool :=
  match cats with
  | [a, b] => !keyLt b a
  | _ => true

def jMaterialized (fr : Frame) (df : DF Key F) : Json :=
  match materialize fr.vc fr.target fr.embedders df with
  | none => raisesJ
  | some m =>
    let statsJ := m.stats.map fun (name, st) => (name, jStats st)
    let validJ := df.cols.filterMap fun c =>
      if c.stype = .categorical ∨ c.stype = .multicategorical then
        let cats := (dictGet fr.cats c.name).getD []
        let obs := observedKeys c.stype c.cells
        let isT := some c.name = fr.target ∧ c.stype = .categorical
        let ok := if isT ∧ cats.length = 2 then
            cats.eraseDups == cats && cats.all (obs.contains ·) && obs.all (cats.contains ·) && binaryTargetSorted cats
          else validCats cats obs
        some (c.name, Json.bool ok)
      else none
    let (tt, nc) : Json × Json := match fr.target with
      | none => (Json.null, Json.null)
      | some t =>
        let k := numClasses m.stats t
        let st := (dictGet df.colToStype t).getD .numerical
        ((match taskType st k with
          | some s => Json.str s
          | none => raisesJ),
         if st = .categorical then (if k ≤ 1 then raisesJ else toJson k) else raisesJ)
    okJ (Json.mkObj [("tf", jTF m.tf), ("stats", Json.mkObj statsJ), ("catsValid", Json.mkObj validJ),
                     ("convNames", jNames m.conv.names), ("taskType", tt), ("numClasses", nc)])

def permute (xs : List α) (perm : List Nat) : List α := perm.filterMap (xs[·]?)

def handle (j : Json) : Except String Json := do
  match (← getStr j "cmd") with
  | "mat" =>
    -- base frame + variants (other labels, other column order, target dropped …)
    let fr ← parseFrame j
    let vars ← (← getArr j "variants").mapM fun vj => do
      let labels ← asList parseKey (← vj.getObjVal? "labels")
      let perm ← natList (← vj.getObjVal? "perm")
      pure (jMaterialized fr { labels := labels, cols := permute fr.df.cols perm })
    pure (Json.arr (jMaterialized fr fr.df :: vars).toArray)
  | "conv" =>
    -- fit on the base frame (optionally with the statistics of an earlier materialization supplied),
    -- then call the converter on each listed frame in turn
    let fr ← parseFrame j
    let supplied := (getBool j "supplied").toOption.getD false
    let m0 := materialize fr.vc fr.target fr.embedders fr.df
    let m := if supplied then m0.bind fun m => materializeWith m.stats fr.target fr.embedders fr.df else m0
    match m with
    | none => pure raisesJ
    | some m =>
      let mut cv := m.conv
      let mut outs : List Json := []
      for cj in (← getArr j "calls") do
        let labels ← asList parseKey (← cj.getObjVal? "labels")
        let (cols, _) ← parseCols cj
        match cv.call ({ labels := labels, cols := cols } : DF Key F) with
        | none => outs := outs ++ [raisesJ]
        | some (tf, cv') =>
          outs := outs ++ [okJ (Json.mkObj [("tf", jTF tf), ("convNames", jNames cv'.names)])]
          cv := cv'
      pure (okJ (Json.mkObj [("tf", jTF m.tf), ("stats", Json.mkObj (m.stats.map fun (n, st) => (n, jStats st))),
                             ("calls", Json.arr outs.toArray)]))
  | "calendar" =>
    let secs ← intList (← j.getObjVal? "secs")
    pure (jList jInts (secs.map Cal.components))
  | "pipeline" =>
    -- the multicategorical pipeline alone, fixed and label-consulting variant
    let labels ← asList parseKey (← j.getObjVal? "labels")
    let cats ← asList parseKey (← j.getObjVal? "cats")
    let cells ← (← getArr j "cells").mapM (parseCell .multicategorical)
    let out (m : MNT (Val F)) : Json :=
      Json.mkObj [("valid", Json.bool m.validate), ("values", jList jVal m.values), ("offset", jNats m.offset)]
    pure (Json.mkObj [("fixed", out (multicatForward cats labels cells)),
                      ("labelled", out (multicatForwardLabelled cats labels cells))])
  | c => err s!"cmd {c}"

def main : IO Unit := serve handle

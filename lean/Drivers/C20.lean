/- Driver for the GBDT-adapter model (property C20). -/
import TFVerif.Model.GBDT
import TFVerif.Driver.Json

open Lean TFVerif TFVerif.Driver TFVerif.GBDT

def parseLib (s : String) : Except String Lib :=
  match s with
  | "xgboost" => pure .xgboost
  | "catboost" => pure .catboost
  | "lightgbm" => pure .lightgbm
  | l => err s!"lib {l}"

def parseTask (s : String) : Except String TaskType :=
  match TaskType.all.find? (fun t => t.name == s) with
  | some t => pure t
  | none => err s!"task {s}"

def parseMetric (s : String) : Except String Metric :=
  match Metric.all.find? (fun m => m.name == s) with
  | some m => pure m
  | none => err s!"metric {s}"

def optField (j : Json) (k : String) (f : Json → Except String α) : Except String (Option α) := do
  match j.getObjVal? k with
  | .ok .null => pure none
  | .ok v => pure (some (← f v))
  | .error _ => pure none

/-- payloads travel as natural numbers (bit patterns): the adapters only move them -/
def parseFrame (j : Json) : Except String (Frame Nat Nat) := do
  let emb ← optField j "emb" fun e => do
    pure ({ values := ← asList natList (← e.getObjVal? "values"),
            offset := ← natList (← e.getObjVal? "offset") } : Emb Nat)
  pure { numRows := ← getNat j "R",
         cat := ← optField j "cat" (asList intList), catNames := ← getNat j "catNames",
         num := ← optField j "num" (asList natList), numNames := ← getNat j "numNames",
         emb := emb, other := ← getNat j "other", y := ← optField j "y" natList }

def jCell : Cell Nat → Json
  | .cat i => Json.mkObj [("c", toJson i)]
  | .nan => "nan"
  | .val a => Json.mkObj [("v", toJson a)]

def jBools (bs : List Bool) : Json := jList (fun (b : Bool) => (b : Json)) bs

def parseOp (j : Json) : Except String Op := do
  match (← getStr j "op") with
  | "tune" => pure (.tune (← getBool j "trainY") (← getBool j "valY") (← getBool j "hookOk"))
  | "predict" => pure .predict
  | "save" => pure .save
  | "load" => pure (.load (← getBool j "hookOk"))
  | o => err s!"op {o}"

def handle (j : Json) : Except String Json := do
  match (← getStr j "cmd") with
  | "convert" =>
    let lib ← parseLib (← getStr j "lib")
    let f ← parseFrame (← j.getObjVal? "frame")
    match convert lib f with
    | none => pure "raises"
    | some c =>
      pure (Json.mkObj [("rows", jList (jList jCell) c.rows), ("types", jBools c.types),
                        ("catIdx", jNats c.catIdx),
                        ("y", match c.y with | none => Json.null | some y => jNats y)])
  | "metric" =>
    let t ← parseTask (← getStr j "task")
    let m ← parseMetric (← getStr j "metric")
    let target ← floatList (← j.getObjVal? "target")
    let pred ← floatList (← j.getObjVal? "pred")
    match computeMetric floatOps t m target pred with
    | .ok s => pure (Json.mkObj [("ok", jFloat s)])
    | .raises => pure "raises"
    | .external => pure "external"
  | "ctor" =>
    let t ← parseTask (← getStr j "task")
    let m ← optField j "metric" fun v => do parseMetric (← v.getStr?)
    pure (optName (ctorMetric t m) : Json)
  | "guards" =>
    let ops ← (← getArr j "ops").mapM parseOp
    let (oks, flag) := runOps false ops
    pure (Json.mkObj [("outcomes", jBools oks), ("fitted", (flag : Json))])
  | c => err s!"cmd {c}"

def main : IO Unit := serve handle

/- Driver for the ragged-container model (properties C05, C06). -/
import TFVerif.Model.Ragged
import TFVerif.Driver.Json

open Lean TFVerif TFVerif.Driver

abbrev V := Int

def parseIndex (j : Json) : Except String Index := do
  match (← getStr j "t") with
  | "int" => pure (.int (← getInt j "i"))
  | "slice" => pure (.slice (← optInt j "a") (← optInt j "b") (← optInt j "s"))
  | "list" => pure (.list (← intList (← j.getObjVal? "is")))
  | "mask" => pure (.mask (← boolList (← j.getObjVal? "bs")))
  | t => err s!"index kind {t}"

def parseMNT (j : Json) : Except String (MNT V) := do
  pure { numRows := ← getNat j "R", numCols := ← getNat j "C",
         values := ← intList (← j.getObjVal? "values"), offset := ← natList (← j.getObjVal? "offset") }

def parseMET (j : Json) : Except String (MET V) := do
  pure { numRows := ← getNat j "R", numCols := ← getNat j "C", width := ← getNat j "W",
         values := ← asList intList (← j.getObjVal? "values"), offset := ← natList (← j.getObjVal? "offset") }

def jMNT (m : MNT V) : Json :=
  Json.mkObj [("R", m.numRows), ("C", m.numCols), ("values", jInts m.values), ("offset", jNats m.offset)]

def jMET (m : MET V) : Json :=
  Json.mkObj [("R", m.numRows), ("C", m.numCols), ("W", m.width),
              ("values", jList jInts m.values), ("offset", jNats m.offset)]

def jGrid (g : Grid V) : Json :=
  Json.mkObj [("C", g.numCols), ("rows", jList (jList jInts) g.rows)]

/-- either container kind -/
inductive Cont where
  | mnt (m : MNT V)
  | met (m : MET V)

def Cont.json : Cont → Json
  | .mnt m => jMNT m
  | .met m => jMET m

def Cont.grid : Cont → Grid V
  | .mnt m => m.grid
  | .met m => m.grid

/-- the constructor's assertions (`validate`): a result that fails them raises in the code. -/
def Cont.valid : Cont → Bool
  | .mnt m => m.validate
  | .met m => m.offset.head? == some 0 && m.offset.length == m.numCols + 1

def Cont.select (c : Cont) (ix : Index) (dim : Nat) : Option Cont :=
  match c with
  | .mnt m => (m.select ix dim).map .mnt
  | .met m => (m.select ix dim).map .met

/-- does the literally transcribed implementation path give the same result? -/
def Cont.implAgrees (c : Cont) (ix : Index) (dim : Nat) : Bool :=
  match c with
  | .mnt m => m.select ix dim == m.selectImpl ix dim
  | .met _ => true

def Cont.getValue (c : Cont) (i j : Int) : Option (List V) :=
  match c with
  | .mnt m => m.getValue i j
  | .met m => m.getValue i j

def parseCont (kind : String) (j : Json) : Except String Cont :=
  if kind == "mnt" then .mnt <$> parseMNT j else .met <$> parseMET j

def raises : Json := "raises"
def okJ (j : Json) : Json := Json.mkObj [("ok", j)]

def outCont (o : Option Cont) : Json :=
  match o with
  | none => raises
  | some c => if c.valid then okJ c.json else raises

/-- run a selection program; returns the per-step outcomes and the final container (if any). -/
def runOps (c : Cont) (ops : List Json) : Except String (List Json × Option Cont) := do
  let mut cur : Option Cont := some c
  let mut outs : List Json := []
  for op in ops do
    match cur with
    | none => outs := outs ++ [Json.null]
    | some c =>
      match (← getStr op "op") with
      | "sel" =>
        let ix ← parseIndex (← op.getObjVal? "ix")
        let dim ← getNat op "dim"
        let r := c.select ix dim
        let r := r.bind fun c' => if c'.valid then some c' else none
        outs := outs ++ [if c.implAgrees ix dim then outCont r else Json.str "impl-mismatch"]
        cur := r
      | "sel2" =>
        let ix0 ← parseIndex (← op.getObjVal? "ix0")
        let ix1 ← parseIndex (← op.getObjVal? "ix1")
        let r1 := (c.select ix0 0).bind fun c' => if c'.valid then some c' else none
        let r := r1.bind fun c' => c'.select ix1 1
        let r := r.bind fun c' => if c'.valid then some c' else none
        let agree := c.implAgrees ix0 0 && (match r1 with | some c' => c'.implAgrees ix1 1 | none => true)
        outs := outs ++ [if agree then outCont r else Json.str "impl-mismatch"]
        cur := r
      | "val" =>
        let r := c.getValue (← getInt op "i") (← getInt op "j")
        outs := outs ++ [match r with | none => raises | some v => okJ (jInts v)]
      | "grid" =>
        outs := outs ++ [okJ (jGrid c.grid)]
      | o => err s!"op {o}"
  pure (outs, cur)

/-- a part of a concatenation: a base container followed by selections.  Input plumbing only: a part without its
    own `base` starts from the request's common base (parsed once; keeps requests with hundreds of parts of one
    large container small). -/
def partOf (kind : String) (j : Json) (common : Option Cont := none) : Except String (Option Cont) := do
  let base ← match j.getObjVal? "base", common with
    | .ok b, _ => parseCont kind b
    | .error _, some c => pure c
    | .error e, none => err e
  let (_, cur) ← runOps base (← getArr j "ops")
  pure cur

def handle (j : Json) : Except String Json := do
  let kind := (getStr j "kind").toOption.getD "mnt"
  match (← getStr j "cmd") with
  | "prog" =>
    let base ← parseCont kind (← j.getObjVal? "base")
    let (outs, _) ← runOps base (← getArr j "ops")
    pure (Json.arr outs.toArray)
  | "cat" =>
    let dim ← getNat j "dim"
    let common ← match j.getObjVal? "base" with
      | .ok b => some <$> parseCont kind b
      | .error _ => pure none
    let parts ← (← getArr j "parts").mapM (partOf kind · common)
    if parts.any Option.isNone then pure (Json.str "part-raises") else
    let ps := parts.filterMap id
    if kind == "mnt" then
      let ms := ps.filterMap fun | .mnt m => some m | _ => none
      let r := if dim = 0 then MNT.catRows ms else MNT.catCols ms
      pure (outCont (r.map .mnt))
    else
      let ms := ps.filterMap fun | .met m => some m | _ => none
      let r := if dim = 0 then MET.catRows ms else MET.catCols ms
      pure (outCont (r.map .met))
  | "from" =>
    if kind == "mnt" then
      let cells ← asList (asList intList) (← j.getObjVal? "cells")
      pure (outCont ((MNT.fromCells cells).map .mnt))
    else
      let cols ← asList (asList intList) (← j.getObjVal? "cols")
      let widths ← natList (← j.getObjVal? "widths")
      pure (outCont ((MET.fromCols cols widths).map .met))
  | "dense" =>
    match (← partOf kind j) with
    | some (.mnt m) =>
      pure (match m.toDense (← getInt j "fill") with
            | none => raises | some d => okJ (jList (jList jInts) d))
    | _ => pure (Json.str "part-raises")
  | "fillna" =>
    let missing ← getInt j "missing"
    let fill ← getInt j "fill"
    let col ← getNat j "col"
    match (← partOf kind j) with
    | some (.mnt m) => pure (okJ (jMNT (m.fillnaCol (· == missing) col fill)))
    | some (.met m) => pure (okJ (jMET (m.fillnaCol (· == missing) col fill)))
    | none => pure (Json.str "part-raises")
  | "ba" =>
    let count ← natList (← j.getObjVal? "count")
    let a := batchedArange count
    let b := batchedArangeImpl count
    pure (Json.mkObj [("agree", a == b), ("batch", jNats (a.map (·.1))), ("arange", jNats (a.map (·.2)))])
  | c => err s!"cmd {c}"

def main : IO Unit := serve handle

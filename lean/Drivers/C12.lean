/- Driver for the encoder model (properties C12, C13): JSON lines in, JSON lines out. -/
import TFVerif.Model.Encoder
import TFVerif.Model.EncoderLM
import TFVerif.Model.Lazy
import TFVerif.Driver.Json

open Lean TFVerif TFVerif.Driver TFVerif.Enc

abbrev F := Float
def SF : SOps Float := SOps.float

def fMat (j : Json) : Except String (Mat F) := asList floatList j
def fT3 (j : Json) : Except String (T3 F) := asList fMat j
def iMat (j : Json) : Except String (Mat Int) := asList intList j
def iT3 (j : Json) : Except String (T3 Int) := asList iMat j
def jMatF (x : Mat F) : Json := jList jFloats x
def jT3F (x : T3 F) : Json := jList jMatF x

def fld (j : Json) (k : String) : Except String Json := j.getObjVal? k

def getFloat (j : Json) (k : String) : Except String F := do
  pure (floatOfBits (← getNat j k))

def parseStype (s : String) : Except String Stype :=
  match s with
  | "numerical" => pure .numerical | "categorical" => pure .categorical
  | "text_embedded" => pure .text_embedded | "text_tokenized" => pure .text_tokenized
  | "multicategorical" => pure .multicategorical | "sequence_numerical" => pure .sequence_numerical
  | "timestamp" => pure .timestamp | "image_embedded" => pure .image_embedded
  | "embedding" => pure .embedding
  | s => err s!"stype {s}"

def stypeName : Stype → String
  | .numerical => "numerical" | .categorical => "categorical" | .text_embedded => "text_embedded"
  | .text_tokenized => "text_tokenized" | .multicategorical => "multicategorical"
  | .sequence_numerical => "sequence_numerical" | .timestamp => "timestamp"
  | .image_embedded => "image_embedded" | .embedding => "embedding"

def parseNA (j : Json) : Except String (Option NA) :=
  match j with
  | .null => pure none
  | .str "mean" => pure (some .mean) | .str "most_frequent" => pure (some .mostFrequent)
  | .str "zeros" => pure (some .zeros) | .str "oldest_timestamp" => pure (some .oldest)
  | .str "newest_timestamp" => pure (some .newest) | .str "median_timestamp" => pure (some .median)
  | j => err s!"na {j.compress}"

def parseStat (j : Json) : Except String (ColStat F) := do
  match (← getStr j "t") with
  | "num" => pure (.num (← getFloat j "mean") (← getFloat j "std") (← floatList (← fld j "q")))
  | "cat" => pure (.cat (← getNat j "n"))
  | "multi" => pure (.multi (← getNat j "n"))
  | "time" => pure (.time (← getInt j "minYear") (← intList (← fld j "newest")) (← intList (← fld j "oldest"))
                          (← intList (← fld j "median")))
  | "emb" => pure (.emb (← getNat j "dim"))
  | t => err s!"stat kind {t}"

def parseMode (s : String) : Except String BagMode :=
  match s with
  | "mean" => pure .mean | "sum" => pure .sum | "max" => pure .max | s => err s!"mode {s}"

def parseWeights (j : Json) : Except String (Weights F) := do
  match (← getStr j "cls") with
  | "linear" => pure (.linear (← fMat (← fld j "weight")) (← fMat (← fld j "bias")))
  | "stack" => pure .stack
  | "bucket" => pure (.bucket (← fT3 (← fld j "weight")) (← fMat (← fld j "bias")))
  | "periodic" => pure (.periodic (← fMat (← fld j "linIn")) (← fT3 (← fld j "linOut")))
  | "excel" => pure (.excel (← fMat (← fld j "w1")) (← fMat (← fld j "w2")) (← fMat (← fld j "b1")) (← fMat (← fld j "b2")))
  | "embedding" => pure (.embedding (← fMat (← fld j "table")))
  | "bag" => pure (.bag (← parseMode (← getStr j "mode")) (← fT3 (← fld j "tables")))
  | "timestamp" => pure (.timestamp (← getNat j "outSize") (← asList fT3 (← fld j "weight")) (← fMat (← fld j "bias")))
  | "linemb" => pure (.linearEmb (← fT3 (← fld j "weights")) (← fMat (← fld j "biases")))
  | c => err s!"weights class {c}"

def parsePost (j : Json) : Except String (Post F) := do
  match (← getStr j "t") with
  | "none" => pure .none | "relu" => pure .relu | "tanh" => pure .tanh
  | "ln" => pure (.layerNorm (← floatList (← fld j "g")) (← floatList (← fld j "b")))
  | t => err s!"post {t}"

def parseFeat (j : Json) : Except String (Feat F) := do
  match (← getStr j "t") with
  | "num" => pure (.num (← fMat (← fld j "x")))
  | "cat" => pure (.cat (← iMat (← fld j "x")))
  | "bags" => pure (.bags (← iT3 (← fld j "x")))
  | "time" => pure (.time (← iT3 (← fld j "x")))
  | "emb" => pure (.emb (← natList (← fld j "offset")) (← fMat (← fld j "values")))
  | t => err s!"feat {t}"

/-- the exported parameters: a built-in class, or the dict entries of a `LinearModelEncoder` with stub models -/
inductive WSpec where
  | builtin (w : Weights F)
  | lm (cols : List (LMCol F))

def parseLMCol (j : Json) : Except String (LMCol F) := do
  pure { name := ← getStr j "name", model := { a := ← fMat (← fld j "a"), c := ← floatList (← fld j "c") },
         weight := ← fMat (← fld j "weight"), bias := ← floatList (← fld j "bias") }

structure EncSpec where
  st : Stype
  na : Option NA
  stats : List (ColStat F)
  ch : Nat
  w : WSpec
  post : Post F

def parseEnc (j : Json) : Except String EncSpec := do
  let wj ← fld j "weights"
  let w ← if (← getStr wj "cls") == "linmodel" then do pure (WSpec.lm (← asList parseLMCol (← fld wj "cols")))
          else do pure (WSpec.builtin (← parseWeights wj))
  pure { st := ← parseStype (← getStr j "stype"), na := ← parseNA ((j.getObjVal? "na").toOption.getD .null),
         stats := ← asList parseStat (← fld j "stats"), ch := ← getNat j "ch",
         w := w, post := ← parsePost (← fld j "post") }

def EncSpec.build (e : EncSpec) : Option (AnyEncoder F) :=
  match e.w with
  | .builtin w => (initModules SF e.st e.na e.stats e.ch w e.post).map .builtin
  | .lm cols => (lmInit SF e.st e.na e.stats e.ch cols e.post).map .linearModel

def jFill : Option (Fill F) → Json
  | none => .null
  | some (.num v) => Json.mkObj [("num", jFloats v)]
  | some (.int v) => Json.mkObj [("int", jInts v)]
  | some (.time v) => Json.mkObj [("time", jList jInts v)]

def jNorm (n : Norm F) : List (String × Json) := [("mean", jFloats n.mean), ("std", jFloats n.std)]

/-- the buffers `init_modules` registers, to be compared with the real `state_dict` -/
def jBuffersLM (e : LMEncoder F) : Json := Json.mkObj [("fill_values", jFill e.fill)]

def jBuffers (e : Encoder F) : Json :=
  let ps : List (String × Json) := match e.params with
    | .linear n .. => jNorm n | .stack n => jNorm n | .periodic n .. => jNorm n | .excel n .. => jNorm n
    | .bucket q .. => [("boundaries", jMatF q)]
    | .embedding off _ => [("offset", jInts off)]
    | .bag .. => []
    | .timestamp ys mv .. => [("min_year", jInts ys), ("max_values", jInts mv)]
    | .linearEmb ds .. => [("emb_dim_list", jNats ds)]
  Json.mkObj (("fill_values", jFill e.fill) :: ps)

def jOut (o : Out F) : Json :=
  Json.mkObj [("shape", jNats [o.b, o.c, o.ch]), ("data", jT3F o.data)]

def raisesJ : Json := "raises"

/-- per-cell evaluation through the specification layer (`cellForward`), independent of the batched passes -/
def cellSpec (e : Encoder F) (c : Nat) (feat : Feat F) (r : Nat) : Option (List F) := do
  let v ← cellAt e.params feat r c
  let v' ← cellImpute SF e.fill c v
  if cellDomainOk e.params c v' then cellForward SF e c v else none

/-- `[.., mid]` for the float32-compared encoders: the intermediate `[B][C][K]` tensor fed to the einsum,
    from which the harness derives a magnitude bound for the widened tolerance -/
def bucketMid (e : Encoder F) (feat : Feat F) : Json :=
  match e.params, feat with
  | .bucket q _ _, .num x =>
      let x := match e.fill with
        | some (.num f) => bcast2 (fun a v => if SF.isNaN a then v else a) x f | _ => x
      jT3F (x.map fun row => List.zipWith (fun a qi => bucketRow SF qi a) row q)
  | _, _ => .null

def parseAttr (s : String) : Except String Lazy.Attr :=
  match s with
  | "out_channels" => pure .outChannels | "stats_list" => pure .statsList | "stype" => pure .stype
  | "post_module" => pure .postModule | "na_strategy" => pure .naStrategy
  | s => err s!"attr {s}"

/-- attribute values are opaque tokens; `init_modules` succeeds unless told otherwise -/
def parseAssign (j : Json) : Except String (Lazy.Attr × Option Nat) := do
  let k ← parseAttr (← getStr j "k")
  match j.getObjVal? "v" with
  | .ok .null => pure (k, none)
  | .ok v => pure (k, some (← v.getNat?))
  | .error _ => pure (k, none)

def jObs (m : Lazy.Mod Nat (List (Option Nat))) : Json :=
  Json.mkObj [("fired", m.fired), ("built", m.built.isSome), ("missing", m.missing.length),
              ("call", if (Lazy.call m).isSome then Json.str "ok" else raisesJ),
              ("seen", match m.built with
                       | some vs => jList (fun (v : Option Nat) => match v with | some n => (n : Json) | none => .null) vs
                       | none => .null)]

def handle (j : Json) : Except String Json := do
  match (← getStr j "cmd") with
  | "enc" =>
    -- one StypeEncoder: construction + forward on one batch
    let spec ← parseEnc (← fld j "enc")
    let feat ← parseFeat (← fld j "feat")
    match spec.build with
    | none => pure (Json.mkObj [("construct", raisesJ)])
    | some (.linearModel e) =>
      -- `names` = the frame's column names of this stype (the class requires them)
      let rows ← getNat j "rows"
      let cols ← getNat j "cols"
      let out := lmForward SF e rows cols (← strList (← fld j "colNames")) feat
      pure (Json.mkObj [("construct", "ok"), ("buffers", jBuffersLM e),
                        ("out", match out with | some o => jOut o | none => raisesJ),
                        ("mid", Json.null), ("cells", Json.null)])
    | some (.builtin e) =>
      let rows ← getNat j "rows"
      let cols ← getNat j "cols"
      let out := forward SF e rows cols (← getNat j "names") feat
      let cells : Json :=
        if (j.getObjVal? "cells").toOption == some (.bool true) then
          jList (fun r => jList (fun c => match cellSpec e c feat r with
                                         | some v => jFloats v | none => raisesJ) (List.range cols)) (List.range rows)
        else .null
      pure (Json.mkObj [("construct", "ok"), ("buffers", jBuffers e),
                        ("out", match out with | some o => jOut o | none => raisesJ),
                        ("mid", bucketMid e feat), ("cells", cells)])
  | "wise" =>
    let groups ← getArr j "groups"
    let mut tf : List (Group F) := []
    let mut names : List (Stype × List String) := []
    let mut encs : List (Stype × AnyEncoder F) := []
    for g in groups do
      let spec ← parseEnc (← fld g "enc")
      match spec.build with
      | none => return Json.mkObj [("construct", raisesJ)]
      | some e =>
        tf := tf ++ [{ st := spec.st, rows := ← getNat g "rows", cols := ← getNat g "cols",
                       feat := ← parseFeat (← fld g "feat") }]
        names := names ++ [(spec.st, ← strList (← fld g "names"))]
        encs := encs ++ [(spec.st, e)]
    match wiseForwardG SF { colNames := names, encoders := encs } tf with
    | none => pure (Json.mkObj [("construct", "ok"), ("out", raisesJ)])
    | some (o, ns) => pure (Json.mkObj [("construct", "ok"), ("out", jOut o), ("names", jStrs ns)])
  | "accept" =>
    -- admissibility tables of the model
    let c ← getNat j "cls"
    let st ← parseStype (← getStr j "stype")
    let na ← parseNA ((j.getObjVal? "na").toOption.getD .null)
    let cls := EncClass.all.getD c .linear
    -- `present` = the stype has columns in the data (default); the key-by-key validation of the constructor
    let present := (j.getObjVal? "present").toOption != some (.bool false)
    pure (Json.mkObj [("direct", naOk st na), ("wise", wiseOk cls st na), ("supported", (supported cls).contains st),
                      ("wiseKey", wiseKeyOk cls st na present)])
  | "lazy" =>
    -- the Module attribute state machine: constructor arguments, then assignments; `initFails` = init_modules raises
    let args ← (← getArr j "ctor").mapM parseAssign
    let evs ← (← getArr j "events").mapM parseAssign
    let fails := (j.getObjVal? "initFails").toOption == some (.bool true)
    let init : List (Option Nat) → Option (List (Option Nat)) := fun vals =>
      if fails then none else some (vals.take 3)
    match Lazy.construct init args with
    | none => pure (Json.mkObj [("construct", raisesJ)])
    | some m0 =>
      let mut cur : Option (Lazy.Mod Nat (List (Option Nat))) := some m0
      let mut outs : List Json := [jObs m0]
      for (k, v) in evs do
        match cur with
        | none => outs := outs ++ [Json.null]
        | some m =>
          match Lazy.setattr init m k v with
          | none => outs := outs ++ [raisesJ]; cur := none
          | some m' => outs := outs ++ [jObs m']; cur := some m'
      pure (Json.mkObj [("construct", "ok"), ("trace", Json.arr outs.toArray)])
  | c => err s!"cmd {c}"

def main : IO Unit := serve handle

/- Driver for C14: the seven model-zoo backbones on `Float`, parameters from the real `state_dict`,
   input = the output of the real model's encoder. -/
import TFVerif.Driver.NN

open Lean TFVerif TFVerif.Driver NN

def norm (j : Json) : Except String (Norm Float) := do
  match (← getStr j "kind") with
  | "none" => pure .none
  | "layer" => pure (.layer (← lnorm (← fld j "p")))
  | "batch" => pure (.batch (← bnorm (← fld j "p")))
  | k => err s!"norm {k}"

def mlpP (j : Json) : Except String (MLP Float) := do
  let hidden ← asList (fun l => do pure { lin := ← linear (← fld l "lin"), norm := ← norm (← fld l "norm") : MLPLayer Float })
    (← fld j "hidden")
  pure { hidden := hidden, out := ← linear (← fld j "out"), channels := ← getNat j "channels" }

def resBlockP (j : Json) : Except String (ResBlock Float) := do
  pure { lin1 := ← linear (← fld j "lin1"), lin2 := ← linear (← fld j "lin2"), norm1 := ← norm (← fld j "norm1"),
         norm2 := ← norm (← fld j "norm2"), shortcut := ← optLinear j "shortcut" }

def resnetP (j : Json) : Except String (ResNet Float) := do
  pure { blocks := ← asList resBlockP (← fld j "blocks"), decNorm := ← lnorm (← fld j "decNorm"),
         decLin := ← linear (← fld j "decLin") }

def ftP (j : Json) : Except String (FTTransformer Float) := do
  pure { convs := ← ftConvs (← fld j "convs"), decNorm := ← lnorm (← fld j "decNorm"),
         decLin := ← linear (← fld j "decLin"), channels := ← getNat j "channels", numCols := ← getNat j "numCols" }

def tabtP (j : Json) : Except String (TabTransformer Float) := do
  pure { hasCat := ← getBool j "hasCat", hasNum := ← getBool j "hasNum", pad := ← mat (← fld j "pad"),
         convs := ← asList tabTConv (← fld j "convs"), numNorm := ← lnorm (← fld j "numNorm"),
         lin1 := ← linear (← fld j "lin1"), bn1 := ← bnorm (← fld j "bn1"), lin2 := ← linear (← fld j "lin2"),
         bn2 := ← bnorm (← fld j "bn2"), lin3 := ← linear (← fld j "lin3"),
         channels := ← getNat j "channels", numCat := ← getNat j "numCat" }

def tromptP (j : Json) : Except String (Trompt Float) := do
  pure { xPrompt := ← mat (← fld j "xPrompt"), convs := ← asList tromptConv (← fld j "convs"),
         dec := ← tromptDec (← fld j "dec") }

def gluBlockP (j : Json) : Except String (GLUBlock Float) := do
  pure { layers := ← asList linear (← fld j "layers"), noFirstResidual := ← getBool j "noFirstResidual" }

def optGlu (j : Json) (k : String) : Except String (Option (GLUBlock Float)) := do
  match j.getObjVal? k with
  | .ok .null => pure none
  | .ok v => pure (some (← gluBlockP v))
  | .error _ => pure none

def tabnetP (j : Json) : Except String (TabNet Float) := do
  let steps ← asList (fun s => do
      let a : AttnTrans Float := { lin := ← linear (← fld s "lin"), bn := ← bnorm (← fld s "bn"), vbs := ← getNat s "vbs" }
      pure (a, ← optGlu s "dep")) (← fld j "steps")
  pure { bn := ← bnorm (← fld j "bn"), shared := ← optGlu j "shared", dep0 := ← optGlu j "dep0", steps := steps,
         lin := ← linear (← fld j "lin"), splitFeat := ← getNat j "splitFeat", gamma := ← fl (← fld j "gamma") }

def excelP (j : Json) : Except String (ExcelFormer Float) := do
  pure { convs := ← asList excelConv (← fld j "convs"), dec := ← excelDec (← fld j "dec"),
         channels := ← getNat j "channels", numCols := ← getNat j "numCols" }

def handle (j : Json) : Except String Json := do
  let p ← fld j "p"
  match (← getStr j "cmd") with
  | "mlp" => pure (jMat (fops.mlp (← mlpP p) (← t3 (← fld j "x"))))
  | "resnet" => pure (jMat (fops.resnet (← resnetP p) (← t3 (← fld j "x"))))
  | "ft" => pure (jMat (fops.ftTransformer (← ftP p) (← t3 (← fld j "x"))))
  | "tabt" => pure (jMat (fops.tabTransformer (← tabtP p) (← t3 (← fld j "xcat")) (← t3 (← fld j "xnum"))))
  | "trompt" => pure (jT3 (fops.trompt (← tromptP p) (← asList t3 (← fld j "xs"))))
  | "tabnet" => pure (jMat (fops.tabnet (← tabnetP p) (← t3 (← fld j "x"))))
  | "excel" => pure (jMat (fops.excelFormer (← excelP p) (← t3 (← fld j "x"))))
  | c => err s!"cmd {c}"

def main : IO Unit := serve handle

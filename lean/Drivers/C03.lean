/- Driver for the column-statistics model (property C03): `TFVerif.Stats` instantiated with IEEE doubles. -/
import TFVerif.Model.Stats
import TFVerif.Driver.Json

open Lean TFVerif TFVerif.Driver TFVerif.Stats

instance : NatCast Float := ⟨Float.ofNat⟩
instance : Zero Float := ⟨0.0⟩

/-- classify a double the way `np.isfinite` / `isin([inf, -inf])` / `isnull` do -/
def classify (x : Float) : Ext Float :=
  if x.isNaN then .nan
  else if x.isInf then (if x > 0 then .posInf else .negInf)
  else .fin x

def jOptFloat : Option Float → Json
  | none => Json.null
  | some x => jFloat x

def jNumStats (s : NumStats Float) : Json :=
  Json.mkObj [("mean", jOptFloat s.mean), ("std", jOptFloat s.std), ("q", jList jOptFloat s.quantiles)]

def optOf (f : Json → Except String α) (j : Json) : Except String (Option α) :=
  match j with
  | .null => pure none
  | v => some <$> f v

def jPairs (f : β → Json) (ps : List (β × Nat)) : Json :=
  jList (fun (p : β × Nat) => Json.arr #[f p.1, toJson p.2]) ps

def jInt (i : Int) : Json := toJson i

/-- everything the harness needs about a categorical column with values of type `β` -/
def catReply {β : Type} [DecidableEq β] (f : β → Json) (lt : β → β → Bool)
    (cells : List (Option β)) (obsCats : List β) (obsCounts : List Nat) : Json :=
  let tbl := valueCounts cells
  Json.mkObj [
    ("pairs", jPairs f tbl),
    ("sorted", Json.bool (nonIncreasing (tbl.map Prod.snd))),
    ("accepted", Json.bool (countsOk cells obsCats obsCounts)),
    ("target", jPairs f (binaryTargetResort lt tbl)),
    ("enc", jInts (cells.map (encodeCat obsCats)))]

def multiReply (cells : List (Option (List String))) (obsCats : List String) (obsCounts : List Nat) : Json :=
  let tbl := multiCounts cells
  let flat := ((cells.filterMap id).flatMap distinct).map some
  Json.mkObj [
    ("pairs", jPairs (fun (s : String) => (s : Json)) tbl),
    ("sorted", Json.bool (nonIncreasing (tbl.map Prod.snd))),
    ("accepted", Json.bool (countsOk flat obsCats obsCounts)),
    ("enc", jList jInts (cells.map (encodeMulti obsCats)))]

def jTime : Option Int → Json
  | none => jInts [-1, -1, -1, -1, -1, -1, -1]
  | some t => jInts (timeComponents t)

def handle (j : Json) : Except String Json := do
  match (← getStr j "cmd") with
  | "num" =>
    let xs ← floatList (← j.getObjVal? "cells")
    pure (jNumStats (numStats Float.sqrt (xs.map classify)))
  | "seq" =>
    let cells ← asList (optOf floatList) (← j.getObjVal? "cells")
    pure (jNumStats (seqStats Float.sqrt (cells.map fun c => c.map fun l => l.map classify)))
  | "cat" =>
    let counts ← natList (← j.getObjVal? "obs_counts")
    match (← getStr j "kind") with
    | "str" =>
      let cells ← asList (optOf (·.getStr?)) (← j.getObjVal? "cells")
      let cats ← strList (← j.getObjVal? "obs_cats")
      pure (catReply (fun (s : String) => (s : Json)) (fun a b => decide (a < b)) cells cats counts)
    | "int" =>
      let cells ← asList (optOf (·.getInt?)) (← j.getObjVal? "cells")
      let cats ← intList (← j.getObjVal? "obs_cats")
      pure (catReply jInt (fun a b => decide (a < b)) cells cats counts)
    | k => err s!"cat kind {k}"
  | "multi" =>
    let counts ← natList (← j.getObjVal? "obs_counts")
    let cats ← strList (← j.getObjVal? "obs_cats")
    match (← getStr j "mode") with
    | "sep" =>
      let sep ← getStr j "sep"
      let cells ← asList (optOf (·.getStr?)) (← j.getObjVal? "cells")
      pure (multiReply (cells.map fun c => c.map fun row => splitBySep row sep) cats counts)
    | "list" =>
      let cells ← asList (optOf strList) (← j.getObjVal? "cells")
      pure (multiReply cells cats counts)
    | m => err s!"multi mode {m}"
  | "time" =>
    let cells ← asList (optOf (·.getInt?)) (← j.getObjVal? "cells")
    let s := timeStats yearOf cells
    pure (Json.mkObj [("yr", jInts [s.yearRange.1, s.yearRange.2]), ("new", jTime s.newest),
                      ("old", jTime s.oldest), ("med", jTime s.median)])
  | "emb" =>
    let cells ← asList (optOf floatList) (← j.getObjVal? "cells")
    pure (Json.mkObj [("dim", jInt (embDim cells))])
  | "tables" =>
    pure (Json.mkObj [
      ("statsAfter", jList (fun (p : String × List String) => Json.arr #[(p.1 : Json), jStrs p.2]) statsAfterTable),
      ("statsFor", jList (fun (p : String × List String) => Json.arr #[(p.1 : Json), jStrs p.2]) statsForTable),
      ("defaults", jList (fun (p : String × String × List Int) => Json.arr #[(p.1 : Json), (p.2.1 : Json), jInts p.2.2])
        defaultsTable)])
  | c => err s!"cmd {c}"

def main : IO Unit := serve handle

import TFVerif.Model.Py
import TFVerif.Model.Ragged

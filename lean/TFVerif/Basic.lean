def hello := "world"

/-
C06 — ragged containers: construction, concatenation, clone, padding and fill laws.
-/
import TFVerif.Model.Ragged

namespace TFVerif.C06

/-- an empty argument list is rejected by both concatenations (both containers). -/
theorem cat_empty_rejected (α : Type) :
    MNT.catRows ([] : List (MNT α)) = none ∧ MNT.catCols ([] : List (MNT α)) = none ∧
    MET.catRows ([] : List (MET α)) = none ∧ MET.catCols ([] : List (MET α)) = none := by
  simp [MNT.catRows, MNT.catCols, MET.catRows, MET.catCols]

end TFVerif.C06

/-
C06 — ragged containers: construction, concatenation, clone, padding and fill laws.

Property theorems only; helper lemmas are in TFVerif/Proofs/RaggedCat.lean (and the C05 files).
As in C05, `MNT.ofGrid g` / `MET.ofW w` is the well-formed storage of a nested list of cells; all
statements hold for every element type, every grid and every number of parts — no bounds.
-/
import TFVerif.Proofs.RaggedCat
import TFVerif.Props.C05

namespace TFVerif.C06

open TFVerif Grid

/-! ### construction and reading back -/

/-- `from_tensor_mat` accepts exactly the non-empty rectangular cell matrices with at least one
    cell (`torch.cat` of nothing raises) and then stores them canonically … -/
theorem fromCells_iff {α : Type} (mat : List (List (List α))) (m : MNT α) :
    MNT.fromCells mat = some m ↔
      ∃ r0 rest, mat = r0 :: rest ∧ (∀ row ∈ mat, row.length = r0.length) ∧ mat.flatten ≠ [] ∧
        m = MNT.ofGrid { numCols := r0.length, rows := mat } := by
  constructor
  · exact fromCells_spec mat m
  · rintro ⟨r0, rest, rfl, hu, hne, rfl⟩
    exact fromCells_accepts r0 rest hu hne

/-- … and reading every cell back (`m[i, j]` for all `i, j`) is the identity. -/
theorem cells_fromCells {α : Type} (mat : List (List (List α))) (m : MNT α)
    (h : MNT.fromCells mat = some m) : m.grid.rows = mat ∧ m.validate = true := by
  obtain ⟨r0, rest, rfl, hu, _, rfl⟩ := (fromCells_iff mat m).1 h
  have hg : ({ numCols := r0.length, rows := r0 :: rest } : Grid α).WF := hu
  exact ⟨by rw [grid_ofGrid _ hg], validate_ofGrid _ hg⟩

/-- the storage of a grid is determined by its cells: building from the cells that were read back
    gives the same container (so "equal cells" and storage equality / `allclose` coincide for
    canonical containers). -/
theorem ofGrid_grid {α : Type} (g : Grid α) (hg : g.WF) : MNT.ofGrid (MNT.ofGrid g).grid = MNT.ofGrid g := by
  rw [grid_ofGrid g hg]

theorem met_cells_roundtrip {α : Type} (w : WGrid α) (hw : w.WF) : (MET.ofW w).grid = w.grid :=
  met_grid_ofW w hw

example : MNT.fromCells [[[1, 2], [3]], [[], [4, 5, 6]]]
    = some { numRows := 2, numCols := 2, values := [1, 2, 3, 4, 5, 6], offset := [0, 2, 3, 3, 6] } := by decide
example : MNT.fromCells [[[1], [2]], [[3]]] = none ∧ MNT.fromCells ([] : List (List (List Nat))) = none := by decide

/-! ### concatenation -/

/-- **rows**: concatenating well-formed containers with equal column counts yields exactly the rows
    of the parts in order. -/
theorem catRows_cells {α : Type} (g0 : Grid α) (rest : List (Grid α))
    (hC : ∀ g ∈ g0 :: rest, g.numCols = g0.numCols) :
    MNT.catRows ((g0 :: rest).map MNT.ofGrid)
      = some (MNT.ofGrid { numCols := g0.numCols, rows := (g0 :: rest).flatMap (·.rows) }) :=
  catRows_ofGrid g0 rest hC

/-- **columns**: concatenating well-formed containers with equal row counts yields, row by row, the
    cells of the parts in order. -/
theorem catCols_cells {α : Type} (g0 : Grid α) (rest : List (Grid α))
    (hwf : ∀ g ∈ g0 :: rest, g.WF) (hR : ∀ g ∈ g0 :: rest, g.rows.length = g0.rows.length) :
    MNT.catCols ((g0 :: rest).map MNT.ofGrid)
      = some (MNT.ofGrid { numCols := ((g0 :: rest).map (·.numCols)).sum,
                           rows := (List.range g0.rows.length).map fun r =>
                             (g0 :: rest).flatMap fun g => g.rows.getD r [] }) :=
  catCols_ofGrid g0 rest hwf hR

/-- empty argument lists and parts whose column (resp. row) counts disagree are rejected. -/
theorem cat_rejects {α : Type} :
    MNT.catRows ([] : List (MNT α)) = none ∧ MNT.catCols ([] : List (MNT α)) = none ∧
    MET.catRows ([] : List (MET α)) = none ∧ MET.catCols ([] : List (MET α)) = none ∧
    (∀ (x0 : MNT α) rest, (∃ x ∈ rest, x.numCols ≠ x0.numCols) → MNT.catRows (x0 :: rest) = none) ∧
    (∀ (x0 : MNT α) rest, (∃ x ∈ rest, x.numRows ≠ x0.numRows) → MNT.catCols (x0 :: rest) = none) :=
  ⟨rfl, rfl, rfl, rfl, catRows_rejects.2, catCols_rejects.2⟩

/-- **split / concat along rows**: for every way of cutting the rows of a grid into consecutive
    parts (any number of parts ≥ 1, empty parts allowed), concatenating the parts' containers
    restores the container. -/
theorem split_cat_rows {α : Type} (C : Nat) (p0 : List (List (List α))) (ps' : List (List (List (List α)))) :
    MNT.catRows ((p0 :: ps').map fun rows => MNT.ofGrid { numCols := C, rows := rows })
      = some (MNT.ofGrid { numCols := C, rows := (p0 :: ps').flatten }) := by
  have := catRows_ofGrid (α := α) { numCols := C, rows := p0 }
    (ps'.map fun rows => { numCols := C, rows := rows })
    (by intro g hg; simp only [List.mem_cons, List.mem_map] at hg
        rcases hg with rfl | ⟨_, _, rfl⟩ <;> rfl)
  simp only [List.map_cons, List.map_map, Function.comp_def] at this ⊢
  rw [this]
  have : ((ps'.map fun rows => ({ numCols := C, rows := rows } : Grid α)).map fun x => x.rows) = ps' := by
    simp [List.map_map, Function.comp_def]
  simp only [List.flatMap_def, List.map_cons, List.flatten_cons, this]

/-- the parts of `split_cat_rows` are what row slices return: slicing `[a, b)` out of a container
    gives the container of `rows[a:b]` (C05), so split-by-slices followed by `cat` is the identity. -/
theorem split_by_slices_then_cat {α : Type} (g : Grid α) (hg : g.WF) (a : Nat) (ha : a ≤ g.rows.length) :
    (do let top ← (MNT.ofGrid g).select (.slice none (some a) none) 0
        let bot ← (MNT.ofGrid g).select (.slice (some a) none none) 0
        MNT.catRows [top, bot]) = some (MNT.ofGrid g) := by
  rw [select_ofGrid g hg _ 0 (Or.inl rfl), select_ofGrid g hg _ 0 (Or.inl rfl)]
  simp only [Grid.select, Index.positions, Option.map_some, Option.bind_eq_bind, Option.bind_some]
  have h := split_cat_rows g.numCols (pick g.rows (slicePositions (g.size 0) none (some (a : Int)) 1))
    [pick g.rows (slicePositions (g.size 0) (some (a : Int)) none 1)]
  simp only [List.map_cons, List.map_nil, Grid.pickDim, if_true] at h ⊢
  rw [h]
  congr 2
  have h1 := (C05_slice g.rows none (some (a : Int)))
  have h2 := (C05_slice g.rows (some (a : Int)) none)
  simp only [Grid.size, if_true, List.flatten_cons, List.flatten_nil, List.append_nil]
  rw [h1, h2]
  have e1 : clampBound g.rows.length (some (a : Int)) g.rows.length = a := by
    simp only [clampBound]; split <;> split <;> omega
  have e0 : clampBound g.rows.length (some (a : Int)) 0 = a := by
    simp only [clampBound]; split <;> split <;> omega
  have n1 : ∀ d, clampBound g.rows.length none d = d := fun _ => rfl
  simp only [sliceBounds, e1, e0, n1, List.drop_zero, Nat.sub_zero]
  have : (g.rows.drop a).take (g.rows.length - a) = g.rows.drop a := by
    apply List.take_of_length_le; simp
  rw [this, List.take_append_drop]
where
  C05_slice {β : Type} (xs : List β) (a b : Option Int) :
      pick xs (slicePositions xs.length a b 1)
        = (xs.drop (sliceBounds xs.length a b).1).take ((sliceBounds xs.length a b).2 - (sliceBounds xs.length a b).1) := by
    simp only [slicePositions, sliceBounds, rangeStep_one]
    have h2 := clampBound_le xs.length b xs.length (Nat.le_refl _)
    by_cases h : clampBound xs.length a 0 ≤ clampBound xs.length b xs.length
    · exact pick_range' xs _ _ (by omega)
    · have : clampBound xs.length b xs.length - clampBound xs.length a 0 = 0 := by omega
      simp [this, pick]

/-! ### dense padding -/

/-- padding reproduces every cell followed only by the fill value, up to the longest cell. -/
theorem toDense_cell {α : Type} (g : Grid α) (hg : g.WF) (fill : α) (hne : g.rows.flatten ≠ []) :
    (MNT.ofGrid g).toDense fill
      = some (g.rows.map fun row => row.map fun cell =>
          cell ++ List.replicate ((g.rows.flatten.map List.length).foldl max 0 - cell.length) fill) ∧
    (∀ row ∈ g.rows, ∀ cell ∈ row, cell.length ≤ (g.rows.flatten.map List.length).foldl max 0) :=
  toDense_ofGrid g hg fill hne

example : (MNT.ofGrid C05.g32).toDense 0
    = some [[[1, 2, 0], [3, 0, 0]], [[4, 0, 0], [5, 6, 7]], [[8, 9, 0], [0, 0, 0]]] := by decide

/-! ### fill -/

/-- **fillna_col** changes exactly the missing entries of column `col` (to `fill`) and nothing else:
    every cell of another column, every non-missing entry, all offsets and the shape are unchanged. -/
theorem fillna_exact {α : Type} (g : Grid α) (hg : g.WF) (isMissing : α → Bool) (col : Nat) (fill : α)
    (hcol : col < g.numCols) :
    (MNT.ofGrid g).fillnaCol isMissing col fill
      = MNT.ofGrid { g with rows := g.rows.map fun row => (row.zipIdx 0).map fun (cell, c) =>
          if c = col then cell.map (fun v => if isMissing v then fill else v) else cell } :=
  fillnaCol_ofGrid g hg isMissing col fill hcol

theorem met_fillna_exact {α : Type} (w : WGrid α) (hw : w.WF) (isMissing : α → Bool) (col : Nat) (fill : α)
    (hcol : col < w.grid.numCols) :
    (MET.ofW w).fillnaCol isMissing col fill
      = MET.ofW { w with grid := { w.grid with rows := (w.grid.rows.map fun row => (row.zipIdx 0).map fun (cell, c) =>
          if c = col then cell.map (fun v => if isMissing v then fill else v) else cell) } } :=
  met_fillnaCol_ofW w hw isMissing col fill hcol

example : ((MNT.ofGrid ({ numCols := 2, rows := [[[1, 0], [0]], [[0], [2, 0]]] } : Grid Nat)).fillnaCol (· == 0) 1 9).values
    = [1, 0, 9, 0, 2, 9] := by decide

/-! ### MultiEmbeddingTensor concatenation -/

theorem met_catRows_cells {α : Type} (w0 : WGrid α) (rest : List (WGrid α))
    (hW : ∀ w ∈ w0 :: rest, w.widths = w0.widths ∧ w.grid.numCols = w0.grid.numCols) :
    MET.catRows ((w0 :: rest).map MET.ofW)
      = some (MET.ofW { grid := { numCols := w0.grid.numCols, rows := (w0 :: rest).flatMap (·.grid.rows) },
                        widths := w0.widths }) :=
  met_catRows_ofW w0 rest hW

theorem met_catCols_cells {α : Type} (w0 w1 : WGrid α) (rest : List (WGrid α))
    (hR : ∀ w ∈ w0 :: w1 :: rest, w.grid.rows.length = w0.grid.rows.length) :
    MET.catCols ((w0 :: w1 :: rest).map MET.ofW)
      = some (MET.ofW { grid := { numCols := ((w0 :: w1 :: rest).map (·.grid.numCols)).sum,
                                  rows := (List.range w0.grid.rows.length).map fun r =>
                                    (w0 :: w1 :: rest).flatMap fun w => w.grid.rows.getD r [] },
                        widths := (w0 :: w1 :: rest).flatMap (·.widths) }) :=
  met_catCols_ofW w0 w1 rest hR

/-- a single part is returned as it is (both axes). -/
theorem met_cat_single {α : Type} (x : MET α) : MET.catRows [x] = some x ∧ MET.catCols [x] = some x :=
  ⟨rfl, rfl⟩

example : MET.catCols [MET.ofW C05.w23, MET.ofW C05.w23]
    = some { numRows := 2, numCols := 6, width := 12,
             values := [[1, 2, 3, 4, 5, 6, 1, 2, 3, 4, 5, 6], [7, 8, 9, 10, 11, 12, 7, 8, 9, 10, 11, 12]],
             offset := [0, 3, 5, 6, 9, 11, 12] } := by decide

end TFVerif.C06

/-
C08 — TensorFrame concatenation, equality, column lookup and validation laws.

Property theorems only (helper lemmas: TFVerif/Proofs/Frame.lean).  `Frame.catRow`, `Frame.catCol`,
`Frame.eq`, `Frame.getColFeat`, `Frame.make`/`Frame.validate` model `torch_frame.cat`,
`TensorFrame.__eq__`, `get_col_feat` and the constructor (TFVerif/Model/Frame.lean); they are generic
in the per-feature operations `ops : FeatOps Φ`, and `spec : FeatSpec ops κ τ ω` states that those
operations refine the Python-list operations on a rows x columns table of cells.  `denseSpec`
instantiates the theorems for dense tensors; `featSpec` (proved in Proofs/FrameRagged.lean from the
C05/C06 refinement lemmas) instantiates them for the storage the driver runs — dense tensors,
`MultiNestedTensor`, `MultiEmbeddingTensor` and dicts of `MultiNestedTensor`: the `_ragged`
corollaries in the last section.
-/
import TFVerif.Proofs.Frame
import TFVerif.Proofs.FrameRagged

namespace TFVerif.C08
open TFVerif TFVerif.TF

variable {Φ β κ τ ω : Type} {ops : FeatOps Φ}

private def eqI : Int → Int → Bool := fun a b => a == b
private abbrev O : FeatOps (Dense Int) := denseOps eqI
private abbrev S : FeatSpec O (List Int) (Option Nat) Unit := denseSpec eqI

private def mk (feats : List (String × Dense Int)) (names : List (String × List String)) (y : Option (List Int))
    (nr : Option Nat := none) : Frame (Dense Int) Int :=
  { feats := feats, names := names, y := y, numRowsOpt := nr }

private def exFrame : Frame (Dense Int) Int :=
  mk [("numerical", ⟨2, none, [[[1], [2]], [[3], [4]], [[5], [6]]]⟩),
      ("timestamp", ⟨1, some 2, [[[1, 2]], [[3, 4]], [[5, 6]]]⟩)]
     [("timestamp", ["t"]), ("numerical", ["a", "b"])] (some [10, 20, 30])

private theorem wf_of_validate (f : Frame (Dense Int) Int) (n : Nat)
    (h1 : ∀ s φ, (s, φ) ∈ f.feats → Dense.WF φ) (h2 : (keys f.feats).Nodup) (h3 : (keys f.names).Nodup)
    (h4 : f.validate O = true) (h5 : f.numRows O = n) : f.WF S n :=
  h5 ▸ (validate_iff_spec S (f := f) h1 h2 h3).mp h4

private theorem exFrame_wf : exFrame.WF S 3 :=
  wf_of_validate exFrame 3 (by
      intro s φ hm
      simp [exFrame, mk] at hm
      rcases hm with ⟨_, rfl⟩ | ⟨_, rfl⟩ <;> exact ⟨by decide, by decide⟩)
    (by decide) (by decide) (by decide) (by decide)

/-! ### concatenation along rows -/

/-- **Rows of the parts in order.**  Concatenating any non-empty list of row selections
    `f[ix0], f[ix1], …` of one frame along the rows yields a well-formed frame holding exactly the
    rows `ps0 ++ ps1 ++ …` of `f`, in every feature and in the target (targets included). -/
theorem cat_rows_of_selections (spec : FeatSpec ops κ τ ω) {f : Frame Φ β} {n : Nat}
    (hwf : f.WF spec n) (hne : f.feats ≠ []) {ix0 : Index} {ixs : List Index} {ps0 : List Nat}
    {pss : List (List Nat)}
    (hps : All2 (fun ix ps => ix.positions n = some ps) (ix0 :: ixs) (ps0 :: pss)) :
    ∃ parts g, mapOpt (f.getitem ops) (ix0 :: ixs) = some parts ∧ Frame.catRow ops parts = some g ∧
      IsSel spec f (ps0 :: pss).flatten g := by
  obtain ⟨parts, hparts, hall⟩ := parts_of_selections spec hwf hps
  cases parts with
  | nil => simp [All2] at hall
  | cons p0 parts =>
    obtain ⟨g, hg, hsel⟩ := catRow_of_sel spec hne hall
    exact ⟨p0 :: parts, g, hparts, hg, hsel⟩

/-- **Row partition law.**  For every partition of the rows of `f` into consecutive parts obtained by
    selections (any number of parts, empty parts allowed: the selected positions concatenate to
    `0, …, n-1`), `cat(parts, dim=0)` has the content of `f` and compares equal to it, in both
    directions, for every reflexive closeness relation. -/
theorem row_partition_law (spec : FeatSpec ops κ τ ω) (closeY : β → β → Bool)
    (hcy : ∀ v, closeY v v = true) (hcc : ∀ c, spec.cellClose c c)
    {f : Frame Φ β} {n : Nat} (hwf : f.WF spec n) (hne : f.feats ≠ [])
    {ix0 : Index} {ixs : List Index} {ps0 : List Nat} {pss : List (List Nat)}
    (hps : All2 (fun ix ps => ix.positions n = some ps) (ix0 :: ixs) (ps0 :: pss))
    (hflat : (ps0 :: pss).flatten = List.range n) :
    ∃ parts g, mapOpt (f.getitem ops) (ix0 :: ixs) = some parts ∧ Frame.catRow ops parts = some g ∧
      g.WF spec n ∧ SameContent spec g f ∧ g.eq ops closeY f = true ∧ f.eq ops closeY g = true := by
  obtain ⟨parts, g, h1, h2, h3⟩ := cat_rows_of_selections spec hwf hne hps
  rw [hflat] at h3
  obtain ⟨hgwf, hsame⟩ := h3.sameContent spec hwf
  obtain ⟨e1, e2⟩ := eq_of_sameContent spec closeY hcy hcc hgwf hwf hsame
  exact ⟨parts, g, h1, h2, hgwf, hsame, e1, e2⟩

/-- **Cut points give partitions.**  For every list of part lengths summing to `n` (any number of
    parts, zeros allowed) the consecutive slices `0:l1, l1:l1+l2, …` satisfy the hypotheses of
    `row_partition_law` — by induction over the list of lengths. -/
theorem slices_partition (n : Nat) (ls : List Nat) (h : ls.sum = n) :
    All2 (fun ix ps => ix.positions n = some ps) (cutSlices 0 ls) (cutRanges 0 ls) ∧
      (cutRanges 0 ls).flatten = List.range n := by
  refine ⟨cut_positions n 0 ls (by omega), ?_⟩
  rw [cut_flatten, h, List.range_eq_range']

/-- non-vacuity: `cat([tf[0:1], tf[1:1], tf[1:3]], dim=0) == tf` on the 3-row example frame. -/
example : exFrame.WF S 3 ∧ exFrame.feats ≠ [] ∧ [1, 0, 2].sum = 3 ∧
    ((mapOpt (exFrame.getitem O) (cutSlices 0 [1, 0, 2])).bind (Frame.catRow O)).map
      (fun g => (g.eq O eqI exFrame, g.y)) = some (true, some [10, 20, 30]) :=
  ⟨exFrame_wf, by simp [exFrame, mk], by decide, by decide⟩

/-! ### concatenation along columns -/

/-- **Column partition law.**  Let `parts` be well-formed frames with the rows of `f` whose
    per-stype name lists, column metadata and rows concatenate, in order, to those of `f` (a per-stype
    column partition; a stype may be absent from a part), with the target of `f` on exactly one
    part (none if `f` has none) and distinct names inside every stype.  Then `cat(parts, dim=1)`
    succeeds, has the name table, target, shapes and cells of `f` (names and data still paired)
    and compares equal to `f` in both directions. -/
theorem col_partition_law (spec : FeatSpec ops κ τ ω) (closeY : β → β → Bool)
    (hcy : ∀ v, closeY v v = true) (hcc : ∀ c, spec.cellClose c c)
    {f : Frame Φ β} {n : Nat} (hwf : f.WF spec n) (hne : f.feats ≠ [])
    {p0 : Frame Φ β} {rest : List (Frame Φ β)}
    (hparts : ∀ p ∈ p0 :: rest, p.WF spec n)
    (hnames : ∀ s, ((p0 :: rest).flatMap fun p => (assoc s p.names).getD []) = (assoc s f.names).getD [])
    (hnodup : ∀ s ns, assoc s f.names = some ns → ns.Nodup)
    (hy : (p0 :: rest).filterMap (·.y) = f.y.toList)
    (hfeat : ∀ s φ, assoc s f.feats = some φ →
      (∀ φi ∈ (p0 :: rest).filterMap (fun p => assoc s p.feats), spec.tag φi = spec.tag φ) ∧
      ((p0 :: rest).filterMap fun p => assoc s p.feats).flatMap spec.colMeta = spec.colMeta φ ∧
      ∀ r, r < n → ((p0 :: rest).filterMap fun p => assoc s p.feats).flatMap (fun φi => (spec.grid φi).getD r [])
        = (spec.grid φ).getD r []) :
    ∃ g, Frame.catCol ops (p0 :: rest) = some g ∧ g.WF spec n ∧
      (∀ s, assoc s g.names = assoc s f.names) ∧ g.y = f.y ∧
      (∀ s φ, assoc s f.feats = some φ → ∃ φ', assoc s g.feats = some φ' ∧
        spec.grid φ' = spec.grid φ ∧ spec.tag φ' = spec.tag φ ∧ spec.colMeta φ' = spec.colMeta φ) ∧
      g.eq ops closeY f = true ∧ f.eq ops closeY g = true := by
  obtain ⟨g, h1, hgwf, hn, hgy, hg⟩ := catCol_spec spec hwf hne hparts hnames hnodup hy hfeat
  have hT : ∀ y : Option (List β), TargetClose closeY y y := by
    intro y
    cases y with
    | none => trivial
    | some y => exact All2.refl hcy y
  have hkeys : ∀ s, s ∈ keys g.feats ↔ s ∈ keys f.feats := by
    intro s
    rw [hgwf.sameKeys s, hwf.sameKeys s]
    constructor
    · intro h
      obtain ⟨v, hv⟩ := assoc_isSome_iff.mpr h
      exact assoc_isSome_iff.mp ⟨v, by rw [← hn s]; exact hv⟩
    · intro h
      obtain ⟨v, hv⟩ := assoc_isSome_iff.mpr h
      exact assoc_isSome_iff.mp ⟨v, by rw [hn s]; exact hv⟩
  refine ⟨g, h1, hgwf, hn, hgy, hg, ?_, ?_⟩
  · rw [eq_iff_spec spec closeY hgwf hwf]
    refine ⟨rfl, by rw [hgy]; exact hT _, hn, ?_⟩
    intro s φ' hs
    obtain ⟨φ, hφ⟩ := assoc_isSome_iff.mpr ((hkeys s).mp (assoc_isSome_iff.mp ⟨φ', hs⟩))
    obtain ⟨φ'', a, b, c, d⟩ := hg s φ hφ
    rw [hs] at a; cases a
    exact ⟨φ, hφ, c, d, by rw [b]; exact All2.refl (fun r => All2.refl hcc r) _⟩
  · rw [eq_iff_spec spec closeY hwf hgwf]
    refine ⟨rfl, by rw [hgy]; exact hT _, fun s => (hn s).symm, ?_⟩
    intro s φ hs
    obtain ⟨φ', a, b, c, d⟩ := hg s φ hs
    exact ⟨φ', a, c.symm, d.symm, by rw [b]; exact All2.refl (fun r => All2.refl hcc r) _⟩

private def exLeft : Frame (Dense Int) Int :=
  mk [("numerical", ⟨1, none, [[[1]], [[3]], [[5]]]⟩)] [("numerical", ["a"])] none

private def exRight : Frame (Dense Int) Int :=
  mk [("timestamp", ⟨1, some 2, [[[1, 2]], [[3, 4]], [[5, 6]]]⟩), ("numerical", ⟨1, none, [[[2]], [[4]], [[6]]]⟩)]
     [("numerical", ["b"]), ("timestamp", ["t"])] (some [10, 20, 30])

/-- non-vacuity: the example frame split into `{a}` and `{b, t} + target`; all hypotheses hold and
    the concatenation compares equal to the original. -/
example : (exLeft.WF S 3 ∧ exRight.WF S 3) ∧
    (∀ s, ([exLeft, exRight].flatMap fun p => (assoc s p.names).getD []) = (assoc s exFrame.names).getD []) ∧
    [exLeft, exRight].filterMap (·.y) = exFrame.y.toList ∧
    (Frame.catCol O [exLeft, exRight]).map (fun g => (g.eq O eqI exFrame, exFrame.eq O eqI g)) = some (true, true) := by
  refine ⟨⟨?_, ?_⟩, ?_, by decide, by decide⟩
  · exact wf_of_validate exLeft 3 (by
      intro s φ hm
      simp [exLeft, mk] at hm
      rcases hm with ⟨_, rfl⟩; exact ⟨by decide, by decide⟩) (by decide) (by decide) (by decide) (by decide)
  · exact wf_of_validate exRight 3 (by
      intro s φ hm
      simp [exRight, mk] at hm
      rcases hm with ⟨_, rfl⟩ | ⟨_, rfl⟩ <;> exact ⟨by decide, by decide⟩) (by decide) (by decide) (by decide) (by decide)
  · intro s
    simp only [exLeft, exRight, exFrame, mk, List.flatMap_cons, List.flatMap_nil, assoc]
    by_cases h1 : "numerical" = s
    · subst h1; decide
    · by_cases h2 : "timestamp" = s
      · subst h2; decide
      · simp [h1, h2]

/-! ### rejections -/

/-- an empty list is rejected along either axis, and so is an axis other than 0 / 1. -/
theorem cat_rejects_empty_and_bad_dim (fs : List (Frame Φ β)) (dim : Int) :
    Frame.cat ops ([] : List (Frame Φ β)) dim = none ∧ (dim ≠ 0 → dim ≠ 1 → Frame.cat ops fs dim = none) := by
  constructor
  · unfold Frame.cat
    split
    · rfl
    · split <;> rfl
  · intro h0 h1; simp [Frame.cat, h0, h1]

/-- mismatched column sets: a part whose name table differs (as a dict) from the first part's is
    rejected by row concatenation. -/
theorem catRow_rejects_schema (f0 : Frame Φ β) (rest : List (Frame Φ β))
    (h : ∃ f ∈ rest, dictEq f.names f0.names = false) : Frame.catRow ops (f0 :: rest) = none := by
  obtain ⟨f, hf, hd⟩ := h
  have : rest.any (fun f => !dictEq f.names f0.names) = true :=
    List.any_eq_true.mpr ⟨f, hf, by simp [hd]⟩
  simp [Frame.catRow, this]

/-- conflicting targets (rows): parts with and without a target cannot be concatenated. -/
theorem catRow_rejects_target (f0 : Frame Φ β) (rest : List (Frame Φ β))
    (h : ∃ f ∈ rest, f.y.isSome ≠ f0.y.isSome) : Frame.catRow ops (f0 :: rest) = none := by
  obtain ⟨f, hf, hd⟩ := h
  have : (f0 :: rest).any (fun f => f.y.isSome != f0.y.isSome) = true :=
    List.any_eq_true.mpr ⟨f, List.mem_cons_of_mem _ hf, by simpa using hd⟩
  unfold Frame.catRow
  simp only [this, if_true]
  split <;> rfl

/-- conflicting targets (columns): more than one part with a target is rejected. -/
theorem catCol_rejects_two_targets (fs : List (Frame Φ β)) (h : (fs.filterMap (·.y)).length > 1) :
    Frame.catCol ops fs = none := by
  unfold Frame.catCol
  cases fs with
  | nil => rfl
  | cons f fs => simp only [h, if_true]

/-- duplicated column names: if, after merging, some stype lists a name twice, column
    concatenation is rejected. -/
theorem catCol_rejects_duplicates (fs : List (Frame Φ β))
    (h : ∃ s ns, (s, ns) ∈ Frame.mergeNames fs ∧ ¬ ns.Nodup) : Frame.catCol ops fs = none := by
  obtain ⟨s, ns, hm, hd⟩ := h
  have hdup : Frame.hasDup ns = true := by
    cases hh : Frame.hasDup ns with
    | true => rfl
    | false => exact absurd ((hasDup_eq_false_iff ns).mp hh) hd
  have : (Frame.mergeNames fs).any (fun sn => Frame.hasDup sn.2) = true :=
    List.any_eq_true.mpr ⟨(s, ns), hm, hdup⟩
  unfold Frame.catCol
  cases fs with
  | nil => rfl
  | cons f fs =>
    simp only [this, if_true]
    split <;> rfl

/-- non-vacuity of the four rejections on concrete frames. -/
example :
    Frame.catRow O [exLeft, exRight] = none ∧ dictEq exRight.names exLeft.names = false ∧
    Frame.catRow O [exLeft, { exLeft with y := some [1, 2, 3] }] = none ∧
    Frame.catCol O [exRight, { exLeft with y := some [1, 2, 3] }] = none ∧
    Frame.catCol O [exLeft, exLeft] = none ∧ ¬ (["a", "a"] : List String).Nodup ∧
    Frame.cat O [exLeft] 2 = none := by decide

/-! ### equality -/

/-- **`==` decides content.**  For well-formed frames `a == b` is true exactly when they have the
    same number of rows, the same name table, the same target presence with close targets, and
    for every stype features of the same shape (tag, column metadata, cell-table shape) all of
    whose cells are close.  Generic in the closeness relations (`closeY` for the target,
    `spec.cellClose` for feature cells, in which missing matches missing). -/
theorem eq_iff (spec : FeatSpec ops κ τ ω) (closeY : β → β → Bool) {a b : Frame Φ β} {na nb : Nat}
    (ha : a.WF spec na) (hb : b.WF spec nb) :
    a.eq ops closeY b = true ↔
      na = nb ∧ TargetClose closeY a.y b.y ∧ (∀ s, assoc s a.names = assoc s b.names) ∧
      ∀ s φ, assoc s a.feats = some φ → ∃ ψ, assoc s b.feats = some ψ ∧
        spec.tag φ = spec.tag ψ ∧ spec.colMeta φ = spec.colMeta ψ ∧
        All2 (All2 spec.cellClose) (spec.grid φ) (spec.grid ψ) :=
  eq_iff_spec spec closeY ha hb

/-- **A single cell is detected.**  If at one position `(r, c)` of one stype the two cells are not
    close, the frames are unequal — whatever the tolerance constants inside `cellClose` are. -/
theorem single_cell_detected (spec : FeatSpec ops κ τ ω) (closeY : β → β → Bool) {a b : Frame Φ β} {na nb : Nat}
    (ha : a.WF spec na) (hb : b.WF spec nb) {s : String} {φ ψ : Φ}
    (hφ : assoc s a.feats = some φ) (hψ : assoc s b.feats = some ψ) {r c : Nat} {ra rb : List κ} {x y : κ}
    (hra : (spec.grid φ)[r]? = some ra) (hrb : (spec.grid ψ)[r]? = some rb)
    (hx : ra[c]? = some x) (hy : rb[c]? = some y) (hne : ¬ spec.cellClose x y) :
    a.eq ops closeY b = false := by
  cases h : a.eq ops closeY b with
  | false => rfl
  | true =>
    exfalso
    obtain ⟨_, _, _, hf⟩ := (eq_iff_spec spec closeY ha hb).mp h
    obtain ⟨ψ', hψ', _, _, hall⟩ := hf s φ hφ
    rw [hψ] at hψ'; cases hψ'
    exact hne ((hall.get hra hrb).get hx hy)

/-- ... and so is a single target value, a changed target presence, or a single column name. -/
theorem single_target_or_name_detected (spec : FeatSpec ops κ τ ω) (closeY : β → β → Bool) {a b : Frame Φ β}
    {na nb : Nat} (ha : a.WF spec na) (hb : b.WF spec nb)
    (h : (∃ (ya yb : List β) (i : Nat) (u v : β), a.y = some ya ∧ b.y = some yb ∧ yb[i]? = some u ∧ ya[i]? = some v ∧ closeY u v = false) ∨
         (a.y.isSome ≠ b.y.isSome) ∨ (∃ s, assoc s a.names ≠ assoc s b.names)) :
    a.eq ops closeY b = false := by
  cases he : a.eq ops closeY b with
  | false => rfl
  | true =>
    exfalso
    obtain ⟨_, hT, hN, _⟩ := (eq_iff_spec spec closeY ha hb).mp he
    rcases h with ⟨ya, yb, i, u, v, h1, h2, h3, h4, h5⟩ | h | ⟨s, hs⟩
    · rw [h1, h2] at hT
      have := All2.get hT h3 h4
      rw [h5] at this; cases this
    · unfold TargetClose at hT
      cases hya : a.y <;> cases hyb : b.y <;> simp_all
    · exact hs (hN s)

/-- non-vacuity: one cell of the 3-D feature changed (`4 -> 9`); one target value; one name. -/
example :
    exFrame.eq O eqI { exFrame with feats := [("numerical", ⟨2, none, [[[1], [2]], [[3], [4]], [[5], [6]]]⟩),
      ("timestamp", ⟨1, some 2, [[[1, 2]], [[3, 9]], [[5, 6]]]⟩)] } = false ∧
    exFrame.eq O eqI { exFrame with y := some [10, 21, 30] } = false ∧
    exFrame.eq O eqI { exFrame with names := [("timestamp", ["t"]), ("numerical", ["a", "c"])] } = false ∧
    exFrame.eq O eqI { exFrame with feats := exFrame.feats.reverse, names := exFrame.names.reverse } = true := by
  decide

/-! ### lookup by name -/

/-- **Lookup is correct.**  For globally distinct column names, `get_col_feat(name)` of the `idx`-th
    name of stype `s` returns stype `s` and exactly column `idx` of that stype's feature (every row,
    that column only), for every storage kind. -/
theorem lookup_correct (spec : FeatSpec ops κ τ ω) {f : Frame Φ β} {n : Nat} (hwf : f.WF spec n)
    (hd : (allNames f.names).Nodup) {s name : String} {ns : List String} {idx : Nat} {φ : Φ}
    (hns : assoc s f.names = some ns) (hi : ns[idx]? = some name) (hφ : assoc s f.feats = some φ) :
    ∃ c, f.getColFeat ops name = some (c, s) ∧ spec.wf c ∧
      spec.grid c = (spec.grid φ).map (fun r => Grid.pick r [idx]) ∧
      spec.tag c = spec.tag φ ∧ spec.colMeta c = Grid.pick (spec.colMeta φ) [idx] := by
  obtain ⟨c, hc, hcol⟩ := getColFeat_complete spec hwf hd hns hi hφ
  obtain ⟨ns', idx', φ', hl, hns', hi', hφ', hcol', hw, ht, hm, hg⟩ := getColFeat_sound spec hwf hc
  have hl2 := lookupLast_complete hd (assoc_mem hns) hi
  rw [hl2] at hl
  cases hl
  rw [hφ] at hφ'; cases hφ'
  exact ⟨c, hc, hw, hg, ht, hm⟩

/-- a name that occurs in no group is rejected. -/
theorem lookup_unknown {f : Frame Φ β} {name : String} (h : name ∉ allNames f.names) :
    f.getColFeat ops name = none := by
  unfold Frame.getColFeat
  cases hl : Frame.lookupLast name (Frame.colTable f.names) with
  | none => rfl
  | some si =>
    exfalso
    obtain ⟨s, idx⟩ := si
    obtain ⟨ns, hm, hi⟩ := lookupLast_sound hl
    apply h
    unfold allNames
    exact List.mem_flatMap.mpr ⟨(s, ns), hm, List.mem_of_getElem? hi⟩

example : (allNames exFrame.names).Nodup ∧
    (exFrame.getColFeat O "b").map (fun c => (c.1.rows, c.2)) = some ([[[2]], [[4]], [[6]]], "numerical") ∧
    (exFrame.getColFeat O "t").map (fun c => (c.1.rows, c.2)) = some ([[[1, 2]], [[3, 4]], [[5, 6]]], "timestamp") ∧
    exFrame.getColFeat O "zz" = none := by decide

/-! ### construction -/

/-- **The constructor accepts exactly the consistent frames**: same keys in `feat_dict` and
    `col_names_dict`, every feature with the frame's number of rows and as many columns as its
    (non-empty) name list, a target of that length. -/
theorem validate_iff (spec : FeatSpec ops κ τ ω) {f : Frame Φ β} (hfw : ∀ s φ, (s, φ) ∈ f.feats → spec.wf φ)
    (hk1 : (keys f.feats).Nodup) (hk2 : (keys f.names).Nodup) :
    f.validate ops = true ↔ f.WF spec (f.numRows ops) :=
  validate_iff_spec spec hfw hk1 hk2

/-- **Construction rejects disagreeing parts**: a feature whose number of rows or columns differs
    from the frame's / its name list's, an empty name list, a target of another length, or
    differing key sets — each makes the constructor raise. -/
theorem validate_rejects (spec : FeatSpec ops κ τ ω) (feats : List (String × Φ)) (names : List (String × List String))
    (y : Option (List β)) (nr : Option Nat)
    (hfw : ∀ s φ, (s, φ) ∈ feats → spec.wf φ) (hk1 : (keys feats).Nodup) (hk2 : (keys names).Nodup)
    (h : (∃ s φ, (s, φ) ∈ feats ∧
            (ops.len φ ≠ Frame.numRows ops { feats := feats, names := names, y := y, numRowsOpt := nr } ∨
             ∀ ns, assoc s names = some ns → ns.length ≠ (spec.colMeta φ).length ∨ ns = [])) ∨
         (∃ yv, y = some yv ∧ yv.length ≠ Frame.numRows ops { feats := feats, names := names, y := y, numRowsOpt := nr }) ∨
         (∃ s, ¬ (s ∈ keys feats ↔ s ∈ keys names))) :
    Frame.make ops feats names y nr = none := by
  cases hm : Frame.make ops feats names y nr with
  | none => rfl
  | some f =>
    exfalso
    obtain ⟨hf, hv⟩ := make_eq_some_iff.mp hm
    subst hf
    have hwf := (validate_iff_spec spec (f := { feats := feats, names := names, y := y, numRowsOpt := nr })
      hfw hk1 hk2).mp hv
    rcases h with ⟨s, φ, hmem, h⟩ | ⟨yv, hy, hl⟩ | ⟨s, hs⟩
    · obtain ⟨_, hl, ns, hns, hlen, hne⟩ := hwf.feat_ok s φ hmem
      rcases h with h | h
      · exact h hl
      · rcases h ns hns with h | h
        · exact h hlen
        · exact hne h
    · exact hl (hwf.y_ok yv hy)
    · exact hs (hwf.sameKeys s)

/-- a 1-D tensor is never accepted as a feature (`dim() < 2`). -/
theorem validate_rejects_flat {α : Type} (cl : α → α → Bool) (s : String) (xs : List α) (rest : List (String × Feat α))
    (names : List (String × List String)) (y : Option (List α)) (nr : Option Nat) :
    Frame.make (featOps cl) ((s, Feat.flat xs) :: rest) names y nr = none := by
  unfold Frame.make
  simp only
  have : Frame.validate (featOps cl)
      ({ feats := (s, Feat.flat xs) :: rest, names := names, y := y, numRowsOpt := nr } : Frame (Feat α) α) = false := by
    unfold Frame.validate
    simp only [List.all_cons]
    cases assoc s names <;> simp [featOps, Feat.check]
  simp [this]

/-- non-vacuity: rows disagree / columns disagree / target length / keys / 1-D tensor. -/
example :
    Frame.make O [("numerical", ⟨1, none, [[[1]], [[3]]]⟩), ("categorical", ⟨1, none, [[[1]]]⟩)]
      [("numerical", ["a"]), ("categorical", ["c"])] (none : Option (List Int)) none = none ∧
    Frame.make O [("numerical", ⟨2, none, [[[1], [2]]]⟩)] [("numerical", ["a"])] (none : Option (List Int)) none = none ∧
    Frame.make O [("numerical", ⟨1, none, [[[1]]]⟩)] [("numerical", ["a"])] (some [1, 2]) none = none ∧
    Frame.make O [("numerical", ⟨1, none, [[[1]]]⟩)] [("categorical", ["a"])] (none : Option (List Int)) none = none ∧
    (Frame.make O [("numerical", ⟨1, none, [[[1]]]⟩)] [("numerical", ["a"])] (some [1]) none).isSome = true ∧
    Frame.make (featOps eqI) [("numerical", Feat.flat [1, 2])] [("numerical", ["a"])] (none : Option (List Int)) none = none := by
  decide

/-! ### the ragged containers (instances of the theorems above at `featOps` / `featSpec`)

`featSpec cl` (TFVerif/Proofs/FrameRagged.lean, built from the C05/C06 refinement theorems) is the
specification of the storage the executable driver runs: dense tensors, `MultiNestedTensor`,
`MultiEmbeddingTensor` and dicts of `MultiNestedTensor`, with `wf` = the C05 representation
invariants; `cl` is the element closeness of `allclose(..., equal_nan=True)`, reflexive. -/

section ragged
variable {α : Type}

/-- **Row partition law, ragged containers included.** -/
theorem row_partition_law_ragged (cl : α → α → Bool) (hcl : ∀ v, cl v v = true) (closeY : β → β → Bool)
    (hcy : ∀ v, closeY v v = true) {f : Frame (Feat α) β} {n : Nat} (hwf : f.WF (featSpec cl) n)
    (hne : f.feats ≠ []) {ix0 : Index} {ixs : List Index} {ps0 : List Nat} {pss : List (List Nat)}
    (hps : All2 (fun ix ps => ix.positions n = some ps) (ix0 :: ixs) (ps0 :: pss))
    (hflat : (ps0 :: pss).flatten = List.range n) :
    ∃ parts g, mapOpt (f.getitem (featOps cl)) (ix0 :: ixs) = some parts ∧
      Frame.catRow (featOps cl) parts = some g ∧ g.WF (featSpec cl) n ∧ SameContent (featSpec cl) g f ∧
      g.eq (featOps cl) closeY f = true ∧ f.eq (featOps cl) closeY g = true :=
  row_partition_law (featSpec cl) closeY hcy (Cell.close_refl hcl) hwf hne hps hflat

open RaggedEx (frame frame2 frame_wf left2 right2 mnt3 met3 ids3 mask3 nestedOf embOf dictOf) in
/-- non-vacuity: `cat([tf[0:1], tf[1:1], tf[1:3]], dim=0) == tf` on the mixed frame (the third part is
    a non-zero-based view; one part is empty); the re-assembled nested / embedding storage is the
    original storage. -/
example : frame.WF (featSpec RaggedEx.eqI) 3 ∧ frame.feats ≠ [] ∧ [1, 0, 2].sum = 3 ∧
    ((mapOpt (frame.getitem (featOps RaggedEx.eqI)) (cutSlices 0 [1, 0, 2])).bind (Frame.catRow (featOps RaggedEx.eqI))).map
      (fun g => (g.eq (featOps RaggedEx.eqI) RaggedEx.eqI frame, frame.eq (featOps RaggedEx.eqI) RaggedEx.eqI g, g.y)) = some (true, true, some [10, 20, 30]) ∧
    ((mapOpt (frame.getitem (featOps RaggedEx.eqI)) (cutSlices 0 [1, 0, 2])).bind (Frame.catRow (featOps RaggedEx.eqI))).map
      (fun g => (nestedOf g "multicategorical", embOf g "embedding")) = some (some mnt3, some met3) :=
  ⟨frame_wf, List.cons_ne_nil _ _, by decide, by decide, by decide⟩

/-- **Column partition law, ragged containers included.** -/
theorem col_partition_law_ragged (cl : α → α → Bool) (hcl : ∀ v, cl v v = true) (closeY : β → β → Bool)
    (hcy : ∀ v, closeY v v = true) {f : Frame (Feat α) β} {n : Nat} (hwf : f.WF (featSpec cl) n)
    (hne : f.feats ≠ []) {p0 : Frame (Feat α) β} {rest : List (Frame (Feat α) β)}
    (hparts : ∀ p ∈ p0 :: rest, p.WF (featSpec cl) n)
    (hnames : ∀ s, ((p0 :: rest).flatMap fun p => (assoc s p.names).getD []) = (assoc s f.names).getD [])
    (hnodup : ∀ s ns, assoc s f.names = some ns → ns.Nodup)
    (hy : (p0 :: rest).filterMap (·.y) = f.y.toList)
    (hfeat : ∀ s φ, assoc s f.feats = some φ →
      (∀ φi ∈ (p0 :: rest).filterMap (fun p => assoc s p.feats), featTag cl φi = featTag cl φ) ∧
      ((p0 :: rest).filterMap fun p => assoc s p.feats).flatMap (featMeta cl) = featMeta cl φ ∧
      ∀ r, r < n → ((p0 :: rest).filterMap fun p => assoc s p.feats).flatMap (fun φi => (featGrid cl φi).getD r [])
        = (featGrid cl φ).getD r []) :
    ∃ g, Frame.catCol (featOps cl) (p0 :: rest) = some g ∧ g.WF (featSpec cl) n ∧
      (∀ s, assoc s g.names = assoc s f.names) ∧ g.y = f.y ∧
      (∀ s φ, assoc s f.feats = some φ → ∃ φ', assoc s g.feats = some φ' ∧
        featGrid cl φ' = featGrid cl φ ∧ featTag cl φ' = featTag cl φ ∧ featMeta cl φ' = featMeta cl φ) ∧
      g.eq (featOps cl) closeY f = true ∧ f.eq (featOps cl) closeY g = true :=
  col_partition_law (featSpec cl) closeY hcy (Cell.close_refl hcl) hwf hne hparts hnames hnodup hy hfeat

open RaggedEx (frame frame2 frame_wf left2 right2 mnt3 met3 ids3 mask3 nestedOf embOf dictOf) in
/-- non-vacuity: the nested + embedding frame split into `{tags, e1}` and `{cats, e2}` + target
    (stypes in a different order in the second part); the parts are well formed, names and target
    partition, and the concatenation compares equal to the original and restores its storage
    (ragged cells interleaved row by row, embedding offsets shifted). -/
example : (left2.WF (featSpec RaggedEx.eqI) 3 ∧ right2.WF (featSpec RaggedEx.eqI) 3 ∧ frame2.WF (featSpec RaggedEx.eqI) 3) ∧
    (∀ s, ([left2, right2].flatMap fun p => (assoc s p.names).getD []) = (assoc s frame2.names).getD []) ∧
    [left2, right2].filterMap (·.y) = frame2.y.toList ∧
    (Frame.catCol (featOps RaggedEx.eqI) [left2, right2]).map
      (fun g => (g.eq (featOps RaggedEx.eqI) RaggedEx.eqI frame2, frame2.eq (featOps RaggedEx.eqI) RaggedEx.eqI g)) = some (true, true) ∧
    (Frame.catCol (featOps RaggedEx.eqI) [left2, right2]).map
      (fun g => (nestedOf g "multicategorical", embOf g "embedding")) = some (some mnt3, some met3) := by
  refine ⟨⟨frame_wf_of_checks RaggedEx.eqI left2 3 (by decide), frame_wf_of_checks RaggedEx.eqI right2 3 (by decide),
    frame_wf_of_checks RaggedEx.eqI frame2 3 (by decide)⟩, ?_, by decide, by decide, by decide⟩
  intro s
  show (assoc s [("multicategorical", ["tags"]), ("embedding", ["e1"])]).getD [] ++
      ((assoc s [("embedding", ["e2"]), ("multicategorical", ["cats"])]).getD [] ++ []) =
    (assoc s [("multicategorical", ["tags", "cats"]), ("embedding", ["e1", "e2"])]).getD []
  have key : ∀ (k1 k2 : String) (v1 v2 : List String), ¬ k1 = s → ¬ k2 = s →
      assoc s [(k1, v1), (k2, v2)] = none := by
    intro k1 k2 v1 v2 a b; simp [assoc, a, b]
  by_cases h1 : "multicategorical" = s
  · subst h1; decide
  · by_cases h2 : "embedding" = s
    · subst h2; decide
    · rw [key _ _ _ _ h1 h2, key _ _ _ _ h2 h1, key _ _ _ _ h1 h2]; rfl

/-- **`==` decides content, ragged containers included.** -/
theorem eq_iff_ragged (cl : α → α → Bool) (closeY : β → β → Bool) {a b : Frame (Feat α) β} {na nb : Nat}
    (ha : a.WF (featSpec cl) na) (hb : b.WF (featSpec cl) nb) :
    a.eq (featOps cl) closeY b = true ↔
      na = nb ∧ TargetClose closeY a.y b.y ∧ (∀ s, assoc s a.names = assoc s b.names) ∧
      ∀ s φ, assoc s a.feats = some φ → ∃ ψ, assoc s b.feats = some ψ ∧
        featTag cl φ = featTag cl ψ ∧ featMeta cl φ = featMeta cl ψ ∧
        All2 (All2 (Cell.close cl)) (featGrid cl φ) (featGrid cl ψ) :=
  eq_iff (featSpec cl) closeY ha hb

/-- ... read back on the containers: equal frames hold, under the same stype, nested tensors with
    the same number of columns and pairwise close cells `m[i, j]` (so also equal cell lengths), and
    embedding tensors with the same column widths and close cells. -/
theorem eq_ragged_cells (cl : α → α → Bool) (closeY : β → β → Bool) {a b : Frame (Feat α) β} {na nb : Nat}
    (ha : a.WF (featSpec cl) na) (hb : b.WF (featSpec cl) nb) (h : a.eq (featOps cl) closeY b = true) :
    (∀ s m, assoc s a.feats = some (.nested m) → ∃ m', assoc s b.feats = some (.nested m') ∧
      m.numCols = m'.numCols ∧ All2 (All2 (All2 fun x y => cl x y = true)) m.grid.rows m'.grid.rows) ∧
    (∀ s m, assoc s a.feats = some (.emb m) → ∃ m', assoc s b.feats = some (.emb m') ∧
      m.colWidths = m'.colWidths ∧ All2 (All2 (All2 fun x y => cl x y = true)) m.grid.rows m'.grid.rows) := by
  obtain ⟨_, _, _, hf⟩ := (eq_iff_ragged cl closeY ha hb).mp h
  constructor
  · intro s m hs
    obtain ⟨ψ, hψ, ht, hm, hg⟩ := hf s _ hs
    have hwψ := (hb.feat_ok s ψ (assoc_mem hψ)).1
    obtain ⟨m', rfl⟩ := inv_nested cl hwψ ht.symm
    have hwm := (ha.feat_ok s _ (assoc_mem hs)).1
    have := ((nestedSpec' cl).close_iff m m' hwm hwψ).mpr ⟨ht, hm, hg⟩
    exact ⟨m', hψ, (mntClose_iff cl hwm hwψ).mp this⟩
  · intro s m hs
    obtain ⟨ψ, hψ, ht, hm, hg⟩ := hf s _ hs
    have hwψ := (hb.feat_ok s ψ (assoc_mem hψ)).1
    obtain ⟨m', rfl⟩ := inv_emb cl hwψ ht.symm
    have hwm := (ha.feat_ok s _ (assoc_mem hs)).1
    have := ((embSpec' cl).close_iff m m' hwm hwψ).mpr ⟨ht, hm, hg⟩
    exact ⟨m', hψ, (metClose_iff cl hwm hwψ).mp this⟩

open RaggedEx (frame frame2 frame_wf left2 right2 mnt3 met3 ids3 mask3 nestedOf embOf dictOf) in
/-- non-vacuity: one value inside a ragged cell changed (`6 -> 0`); the same values cut into cells
    differently (offset `4 -> 5`); one embedding value changed; the items of the dict feature in
    another order (still equal, like Python dicts). -/
example :
    frame.eq (featOps RaggedEx.eqI) RaggedEx.eqI { frame with feats := ("multicategorical",
      .nested { mnt3 with values := [1, 2, 3, 4, 5, 0, 7, 8, 9] }) :: frame.feats.tail } = false ∧
    frame.eq (featOps RaggedEx.eqI) RaggedEx.eqI { frame with feats := ("multicategorical",
      .nested { mnt3 with offset := [0, 2, 3, 5, 7, 9, 9] }) :: frame.feats.tail } = false ∧
    frame2.eq (featOps RaggedEx.eqI) RaggedEx.eqI { frame2 with feats := [("multicategorical", .nested mnt3),
      ("embedding", .emb { met3 with values := [[1, 2, 3], [4, 5, 6], [7, 8, 0]] })] } = false ∧
    frame.eq (featOps RaggedEx.eqI) RaggedEx.eqI { frame with feats := [("multicategorical", .nested mnt3), ("embedding", .emb met3),
      ("text_tokenized", .dict [("attention_mask", mask3), ("input_ids", ids3)]),
      ("numerical", .dense ⟨1, none, [[[5]], [[6]], [[7]]]⟩)] } = true := by
  decide

/-- **Lookup is correct, ragged containers included.** -/
theorem lookup_correct_ragged (cl : α → α → Bool) {f : Frame (Feat α) β} {n : Nat} (hwf : f.WF (featSpec cl) n)
    (hd : (allNames f.names).Nodup) {s name : String} {ns : List String} {idx : Nat} {φ : Feat α}
    (hns : assoc s f.names = some ns) (hi : ns[idx]? = some name) (hφ : assoc s f.feats = some φ) :
    ∃ c, f.getColFeat (featOps cl) name = some (c, s) ∧ FeatWF c ∧
      featGrid cl c = (featGrid cl φ).map (fun r => Grid.pick r [idx]) ∧
      featTag cl c = featTag cl φ ∧ featMeta cl c = Grid.pick (featMeta cl φ) [idx] :=
  lookup_correct (featSpec cl) hwf hd hns hi hφ

open RaggedEx (frame frame2 frame_wf left2 right2 mnt3 met3 ids3 mask3 nestedOf embOf dictOf) in
/-- non-vacuity: column `cats` of the nested feature (cells `[3], [5,6,7], []`), column `e2` of the
    embedding feature (width 1), the tokenized text column (both keys). -/
example : (allNames frame.names).Nodup ∧
    (frame.getColFeat (featOps RaggedEx.eqI) "cats").map (fun c => (c.1.asNested, c.2)) =
      some (some { numRows := 3, numCols := 1, values := [3, 5, 6, 7], offset := [0, 1, 4, 4] }, "multicategorical") ∧
    (frame.getColFeat (featOps RaggedEx.eqI) "e2").map (fun c => (c.1.asEmb, c.2)) =
      some (some { numRows := 3, numCols := 1, width := 1, values := [[3], [6], [9]], offset := [0, 1] }, "embedding") ∧
    (frame.getColFeat (featOps RaggedEx.eqI) "txt").map (fun c => (c.1.asDict, c.2)) =
      some (some [("input_ids", ids3), ("attention_mask", mask3)], "text_tokenized") := by
  decide

/-- **The constructor accepts exactly the consistent frames, ragged containers included.** -/
theorem validate_iff_ragged (cl : α → α → Bool) {f : Frame (Feat α) β}
    (hfw : ∀ s φ, (s, φ) ∈ f.feats → FeatWF φ) (hk1 : (keys f.feats).Nodup) (hk2 : (keys f.names).Nodup) :
    f.validate (featOps cl) = true ↔ f.WF (featSpec cl) (f.numRows (featOps cl)) :=
  validate_iff (featSpec cl) hfw hk1 hk2

open RaggedEx (frame frame2 frame_wf left2 right2 mnt3 met3 ids3 mask3 nestedOf embOf dictOf) in
/-- non-vacuity: a nested feature with 2 rows next to an embedding feature with 3 rows, and a nested
    feature with 2 columns under one name, are rejected; the mixed frame is accepted. -/
example :
    Frame.make (featOps RaggedEx.eqI) [("multicategorical", .nested { numRows := 2, numCols := 1, values := [1], offset := [0, 1, 1] }),
        ("embedding", .emb met3)]
      [("multicategorical", ["tags"]), ("embedding", ["e1", "e2"])] (none : Option (List Int)) none = none ∧
    Frame.make (featOps RaggedEx.eqI) [("multicategorical", .nested mnt3)] [("multicategorical", ["tags"])]
      (none : Option (List Int)) none = none ∧
    (Frame.make (featOps RaggedEx.eqI) frame.feats frame.names frame.y none).isSome = true := by
  decide

end ragged

end TFVerif.C08

/-
C16 — user text/image embedders and tokenizers get lists of strings, once per row, in row
order, in consecutive chunks of at most `batch_size`; outputs are assembled row-wise, identically
for batched / unbatched operation and for both tokenizer output formats.
Property theorems only (helper lemmas: TFVerif/Proofs/Chunk.lean).  The model is
TFVerif/Model/Chunk.lean; `callArgs` is the list of argument lists of the successive calls.
-/
import TFVerif.Proofs.Chunk
import TFVerif.Proofs.ChunkOrder

namespace TFVerif.C16
open TFVerif.Chunk

variable {α V : Type}

/-! ### the chunks partition the column, consecutively and in order -/

/-- concatenating the chunks gives back the column: every row exactly once, in row order. -/
theorem chunks_flatten (bs : Nat) (hbs : 0 < bs) (xs : List α) : (chunks bs xs).flatten = xs :=
  chunks_flatten' bs hbs xs

example : chunks 2 [10, 11, 12, 13, 14] = [[10, 11], [12, 13], [14]] := by decide

/-- no call receives an empty list, none receives more than `batch_size` elements. -/
theorem chunks_bounds (bs : Nat) (hbs : 0 < bs) (xs : List α) :
    ∀ c ∈ chunks bs xs, c ≠ [] ∧ c.length ≤ bs := by
  rw [chunks_eq_rec bs hbs]; exact chunksRec_mem bs hbs _ _

example : ([14] : List Nat) ∈ chunks 2 [10, 11, 12, 13, 14] := by decide

/-- every chunk but the last has exactly `batch_size` elements. -/
theorem chunks_init_full (bs : Nat) (hbs : 0 < bs) (xs : List α) :
    ∀ c ∈ (chunks bs xs).dropLast, c.length = bs := by
  rw [chunks_eq_rec bs hbs]; exact chunksRec_init_full bs hbs _ _ (Nat.le_refl _)

example : (chunks 2 [10, 11, 12, 13, 14]).dropLast = [[10, 11], [12, 13]] := by decide

/-- the number of calls is `⌈n / batch_size⌉`. -/
theorem chunks_count (bs : Nat) (hbs : 0 < bs) (xs : List α) :
    (chunks bs xs).length = (xs.length + bs - 1) / bs := by
  rw [chunks_eq_rec bs hbs]; exact chunksRec_length bs hbs _ _ (Nat.le_refl _)

example : (chunks 2 [10, 11, 12, 13, 14]).length = 3 ∧ (chunks 5 [10, 11, 12, 13, 14]).length = 1
    ∧ (chunks 6 [10, 11, 12, 13, 14]).length = 1 ∧ (chunks 1 [10, 11, 12, 13, 14]).length = 5 := by decide

/-- `batch_size = None`: exactly one call, with the whole column. -/
theorem unbatched_one_call (serList : List String) : callArgs none serList = some [serList] := rfl

example : callArgs none ["a", "nan"] = some [["a", "nan"]] := by decide

/-- what reaches the callable: for every admissible `batch_size` the calls exist, their
    concatenation is the column's rendering (each row once, in order), and every single element
    of every call is the `str()` rendering of a cell — a `String` by construction, never a float
    or `None` (the Python-side half, the type of every recorded element, is checked on the real
    code by the correspondence). -/
theorem all_strings (tbl : Missing → String) (bs : Option Nat) (hbs : bs ≠ some 0) (cells : List Cell) :
    ∃ calls, callArgs bs (cells.map (renderWith tbl)) = some calls ∧
      calls.flatten = cells.map (renderWith tbl) ∧
      ∀ c ∈ calls, ∀ s ∈ c, ∃ cell ∈ cells, s = renderWith tbl cell := by
  have key : ∀ calls : List (List String), calls.flatten = cells.map (renderWith tbl) →
      ∀ c ∈ calls, ∀ s ∈ c, ∃ cell ∈ cells, s = renderWith tbl cell := by
    intro calls hfl c hc s hs
    have : s ∈ calls.flatten := List.mem_flatten.mpr ⟨c, hc, hs⟩
    rw [hfl, List.mem_map] at this
    obtain ⟨cell, hcell, rfl⟩ := this
    exact ⟨cell, hcell, rfl⟩
  match bs, hbs with
  | none, _ => exact ⟨_, rfl, by simp, key _ (by simp)⟩
  | some 0, h => exact absurd rfl h
  | some (b + 1), _ =>
    exact ⟨_, rfl, chunks_flatten' _ (by omega) _, key _ (chunks_flatten' _ (by omega) _)⟩

example : callArgs (some 2) ([.str "a", .missing .none, .missing .nan].map (render .object))
    = some [["a", "None"], ["nan"]] := by decide

/-- the pre-fix code (`ser.astype(str).tolist()`) does hand a non-string to the callable. -/
theorem old_code_passes_float : (oldArg .object (.missing .none)).isStr = false
    ∧ (oldArg .str (.missing .nan)).isStr = false := by decide

/-! ### the calls are what the assembly consumes -/

/-- the embedder is applied to exactly the `callArgs`, in order, and the outputs are concatenated
    in the same order. -/
theorem embed_calls (tbl : Missing → String) (emb : List String → List (List V)) (bs : Option Nat)
    (cells : List Cell) :
    embedColumn tbl emb bs cells =
      (callArgs bs (cells.map (renderWith tbl))).bind fun calls =>
        if bs.isSome && (calls.map emb).isEmpty then none else mkMET cells.length (calls.map emb).flatten := by
  match bs with
  | none => simp [embedColumn, callArgs]
  | some 0 => simp [embedColumn, callArgs]
  | some (b + 1) => simp [embedColumn, callArgs]

/-- the tokenizer is applied to exactly the `callArgs`, in order. -/
theorem tokenize_calls (tbl : Missing → String) (tok : List String → TokOut V) (bs : Option Nat)
    (cells : List Cell) :
    tokenizeRows tbl tok bs cells =
      (callArgs bs (cells.map (renderWith tbl))).bind fun calls =>
        match bs with
        | none => (calls.head?.map tok).bind assembleUnbatched
        | some _ => assembleBatched (calls.map tok) := by
  match bs with
  | none => simp [tokenizeRows, callArgs]
  | some 0 => simp [tokenizeRows, callArgs]
  | some (b + 1) => simp [tokenizeRows, callArgs]

example : embedColumn (pyTable .str) (fun xs => xs.map fun s => [s.length]) (some 2)
      [.str "ab", .missing .none, .str ""] =
    some { numRows := 3, numCols := 1, width := 1, values := [[2], [3], [0]], offset := [0, 1] } := by decide

/-! ### row-wise assembly -/

/-- Embedders: for any deterministic per-string `f` (output width `w`) and every admissible
    `batch_size`, the assembled container's row `i` is `f (str(cell i))` — the right-hand side
    does not mention `bs`, so batched and unbatched operation agree. -/
theorem assembled_rowwise (tbl : Missing → String) (f : String → List V) (w : Nat) (hw : ∀ s, (f s).length = w)
    (bs : Option Nat) (hbs : bs ≠ some 0) (cells : List Cell) (hne : cells ≠ []) :
    embedColumn tbl (fun xs => xs.map f) bs cells =
      some { numRows := cells.length, numCols := 1, width := w,
             values := cells.map fun c => f (renderWith tbl c), offset := [0, w] } :=
  embedColumn_det tbl f w hw bs hbs cells hne

/-- row `i` of the embedding container is the callable's output for row `i`'s text. -/
theorem assembled_row (tbl : Missing → String) (f : String → List V) (w : Nat) (hw : ∀ s, (f s).length = w)
    (bs : Option Nat) (hbs : bs ≠ some 0) (cells : List Cell) (hne : cells ≠ []) (i : Nat) :
    (embedColumn tbl (fun xs => xs.map f) bs cells).map (·.values[i]?) =
      some (cells[i]?.map fun c => f (renderWith tbl c)) := by
  rw [assembled_rowwise tbl f w hw bs hbs cells hne]
  simp

example : embedColumn (pyTable .object) (fun xs => xs.map fun s => [s.length, (s.toList.map Char.toNat).sum]) (some 2)
      [.str "ab", .missing .none, .str ""] =
    embedColumn (pyTable .object) (fun xs => xs.map fun s => [s.length, (s.toList.map Char.toNat).sum]) none
      [.str "ab", .missing .none, .str ""] := by decide

/-- Tokenizers: for a deterministic per-sentence tokenization `g` delivered in the format
    "list of per-sentence mappings", every admissible `batch_size` yields, per key, the rows
    `g (str(cell i)) key` in row order. -/
theorem tokens_rowwise_sentences (tbl : Missing → String) (keys : List Key) (g : String → Key → List V)
    (bs : Option Nat) (hbs : bs ≠ some 0) (cells : List Cell) (hne : cells ≠ []) :
    tokenizeRows tbl (tokSentences keys g) bs cells =
      some (keys.map fun k => (k, cells.map fun c => g (renderWith tbl c) k)) :=
  tokenizeRows_det tbl keys g _ (Or.inl rfl) bs hbs cells hne

/-- the same for the format "one mapping of 2-D tensors". -/
theorem tokens_rowwise_mapping (tbl : Missing → String) (keys : List Key) (g : String → Key → List V)
    (bs : Option Nat) (hbs : bs ≠ some 0) (cells : List Cell) (hne : cells ≠ []) :
    tokenizeRows tbl (tokMapping keys g) bs cells =
      some (keys.map fun k => (k, cells.map fun c => g (renderWith tbl c) k)) :=
  tokenizeRows_det tbl keys g _ (Or.inr rfl) bs hbs cells hne

example : tokenizeRows (pyTable .str) (tokMapping ["ids"] fun s _ => s.toList.map Char.toNat) (some 1)
    [.str "ab", .missing .none] = some [("ids", [[97, 98], [110, 97, 110]])] := by decide

/-- both tokenizer output formats, batched or not (even with different batch sizes), assemble to
    equal containers. -/
theorem formats_agree (tbl : Missing → String) (keys : List Key) (g : String → Key → List V)
    (bs bs' : Option Nat) (hbs : bs ≠ some 0) (hbs' : bs' ≠ some 0) (cells : List Cell) (hne : cells ≠ []) :
    tokenizeColumn tbl (tokSentences keys g) bs cells = tokenizeColumn tbl (tokMapping keys g) bs' cells := by
  simp only [tokenizeColumn, tokens_rowwise_sentences tbl keys g bs hbs cells hne,
    tokens_rowwise_mapping tbl keys g bs' hbs' cells hne]

example :
    let g : String → Key → List Nat := fun s k => if k = "ids" then s.toList.map Char.toNat else s.toList.map fun _ => 1
    tokenizeColumn (pyTable .object) (tokSentences ["ids", "mask"] g) (some 2) [.str "ab", .missing .nan, .str ""]
      = some [("ids", { numRows := 3, numCols := 1, values := [97, 98, 110, 97, 110], offset := [0, 2, 5, 5] }),
              ("mask", { numRows := 3, numCols := 1, values := [1, 1, 1, 1, 1], offset := [0, 2, 5, 5] })]
    ∧ tokenizeColumn (pyTable .object) (tokMapping ["ids", "mask"] g) none [.str "ab", .missing .nan, .str ""]
      = tokenizeColumn (pyTable .object) (tokSentences ["ids", "mask"] g) (some 2) [.str "ab", .missing .nan, .str ""] := by
  decide

/-! ### per-sentence mappings are keyed: the order in which a mapping lists its keys is irrelevant -/

/-- **Key order of the per-sentence mappings (unbatched).**  In the "list of per-sentence mappings" format the
    tensors are looked up BY KEY: re-ordering the entries of every later sentence's mapping in any way (`σ`,
    each mapping having distinct keys) leaves the assembled rows unchanged; the first sentence only fixes the
    order in which the keys of the result are listed. -/
theorem sentence_key_order_irrelevant (d0 : List (Key × List V)) (ds : List (List (Key × List V)))
    (σ : List (Key × List V) → List (Key × List V))
    (h : ∀ d ∈ ds, (σ d).Perm d ∧ (d.map Prod.fst).Nodup) :
    assembleUnbatched (.sentences (d0 :: ds.map σ)) = assembleUnbatched (.sentences (d0 :: ds)) :=
  assembleUnbatched_reorder d0 ds σ h

/-- the same for batched operation: every chunk's sentences may list their keys in any order -/
theorem sentence_key_order_irrelevant_batched (d0 : List (Key × List V)) (l0 : List (List (Key × List V)))
    (outs : List (TokOut V)) (σ : List (Key × List V) → List (Key × List V))
    (h0 : ∀ d ∈ l0, (σ d).Perm d ∧ (d.map Prod.fst).Nodup) (h : ∀ o ∈ outs, ReordersOnly σ o) :
    assembleBatched (.sentences (d0 :: l0.map σ) :: outs.map (reorderOut σ))
      = assembleBatched (.sentences (d0 :: l0) :: outs) :=
  assembleBatched_reorder d0 l0 outs σ h0 h

/-- non-vacuity: the second sentence lists `mask` before `ids`; filing by position would swap its tensors -/
example :
    assembleUnbatched (.sentences [[("ids", [1, 2]), ("mask", [1, 1])], [("mask", [1]), ("ids", [7])]])
      = some [("ids", [[1, 2], [7]]), ("mask", [[1, 1], [1]])] ∧
    assembleUnbatched (.sentences ([("ids", [1, 2]), ("mask", [1, 1])] :: [[("ids", [7]), ("mask", [1])]].map List.reverse))
      = assembleUnbatched (.sentences [[("ids", [1, 2]), ("mask", [1, 1])], [("ids", [7]), ("mask", [1])]]) := by
  decide

end TFVerif.C16
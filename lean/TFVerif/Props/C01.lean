/-
C01 — materialization encodes every cell faithfully, for every semantic type.
Property theorems only (helper lemmas live in TFVerif/Proofs/{Calendar,Mapper,Convert}.lean).

Model: TFVerif/Model/{Calendar,Pandas,Mapper,Convert}.lean (implementation-shaped: the mapper pipelines over
pandas label algebra, flattened `values`/`offset` storage, `MultiNestedTensor.cat` / `MultiEmbeddingTensor.cat` /
`torch.stack`, `TensorFrame.validate`, `_merge_feat`, the frame's own lookup table) and the specification
`encodeCell`.  `ConvFrameOK` / `ColWF` spell out the typed domain (what the harness generates).
-/
import TFVerif.Proofs.Calendar
import TFVerif.Proofs.Convert
import TFVerif.Gen.Stype

namespace TFVerif.C01
open TFVerif.Mat

/-! ### generated tables -/

theorem gen_eq_model_timeIndex : Gen.Stype.timeIndex = timeIndex := by decide

theorem gen_eq_model_cyclicConst : Gen.Stype.cyclicConst = cyclicConst := by decide

/-! ### every cell of the materialized frame is the canonical encoding of the raw cell -/

/-- For every frame in the typed domain, `Dataset.materialize()` succeeds and: the entry of row `i` of every
    feature column `c`, read back from the produced TensorFrame through the frame's own lookup table
    (`get_col_feat`: storage-level `MultiNestedTensor` / `MultiEmbeddingTensor` / dense read after the per-stype
    concatenation and the child-stype merge), is `encodeCell` of the raw cell `df.iloc[i][c]` under the fitted
    statistics; the same holds for the target column and `y`; and the frame has `len(df)` rows. -/
theorem materialize_cell {L F : Type} (vc : String → List Key → List Key) (target : Option String)
    (embedders : String → String → List (Val F)) (df : DF L F)
    (hok : ConvFrameOK (fitConv vc target embedders df) df) :
    ∃ m, materialize vc target embedders df = some m ∧
      m.tf.numRows = df.numRows ∧
      (∀ c ∈ df.cols, some c.name ≠ target → ∀ i, i < df.numRows →
        m.tf.cell c.name i =
          some (encodeCell ((fitConv vc target embedders df).cfg c.name) c.stype (c.cells.getD i .missing))) ∧
      (∀ c ∈ df.cols, some c.name = target → ∀ i, i < df.numRows →
        m.tf.yCell i =
          some (encodeCell ((fitConv vc target embedders df).cfg c.name) c.stype (c.cells.getD i .missing))) := by
  set cv := fitConv vc target embedders df with hcv
  have hnd : (df.cols.map (·.name)).Nodup := by
    have := hok.c2s_nodup
    rwa [show cv.colToStype = df.colToStype from rfl, colToStype_names] at this
  have hcall := callOK_fresh cv df rfl hok
  have hspec := call_spec cv df df.numRows hcall
  rw [materialize_eq, ← hcv, hspec]
  refine ⟨_, rfl, ?_, ?_, ?_⟩
  · -- number of rows
    obtain ⟨p, rest, hp⟩ := List.exists_cons_of_ne_nil (mergeNames_nonempty _ hcall.nonempty)
    simp only [TF.numRows, mapG, hp, List.map_cons]
    exact specFeat_numRows _ _ _
  · intro c hc ht i hi
    obtain ⟨tf, cv', hc', _, _, hcell⟩ := call_cell cv df df.numRows hcall c.name
      (listed cv df rfl rfl c hc ht) i hi
    rw [hspec] at hc'
    simp only [Option.some.injEq, Prod.mk.injEq] at hc'
    simp only [Option.map_some]
    rw [hc'.1, hcell, specCol_col cv df rfl c hc hnd]
    have hlen : c.cells.length = df.numRows := by
      obtain ⟨col, hcol, hl, _⟩ := hok.cols (c.name, c.stype) (List.mem_map.mpr ⟨c, hc, rfl⟩) ht
      rw [find_col df c hc hnd] at hcol
      simp only [Option.some.injEq] at hcol
      rw [hcol]; exact hl
    have hi' : i < c.cells.length := by omega
    simp [List.getD_eq_getElem?_getD, List.getElem?_map, List.getElem?_eq_getElem hi']
  · intro c hc ht i hi
    have htt : cv.target = some c.name := ht.symm
    obtain ⟨hlen, hwf⟩ := hok.target c.name c htt (find_col df c hc hnd)
    simp only [Option.map_some, TF.yCell, Conv.yOf, htt, Conv.mapCol, find_col df c hc hnd, Option.bind_some]
    rw [forward_cells _ _ _ _ (by rw [hlen]; rfl) hwf, stypeOf_col cv df rfl c hc hnd]
    have hi' : i < c.cells.length := by omega
    simp [List.getD_eq_getElem?_getD, List.getElem?_map, List.getElem?_eq_getElem hi']

/-- Missing cells: NaN in floating-point data, −1 in integer data (an unparseable timestamp counts as missing),
    the empty sequence in numerical-sequence columns, a NaN vector of the column's width for embeddings. -/
theorem encode_missing {F : Type} (cfg : ColCfg F) :
    encodeCell cfg .numerical .missing = [.nan] ∧
    encodeCell cfg .categorical .missing = [.int (-1)] ∧
    encodeCell cfg .multicategorical .missing = [.int (-1)] ∧
    encodeCell cfg .sequence_numerical .missing = [] ∧
    encodeCell cfg .timestamp .missing = List.replicate 7 (.int (-1)) ∧
    encodeCell cfg .timestamp .badTime = List.replicate 7 (.int (-1)) ∧
    encodeCell cfg .embedding .missing = List.replicate cfg.embDim.toNat .nan := by
  refine ⟨rfl, rfl, rfl, rfl, rfl, rfl, rfl⟩

/-- The ordered category list IS the index space: the `i`-th category encodes to `i` (bridge to C03). -/
theorem categorical_index_space {F : Type} (cfg : ColCfg F) (hnd : cfg.cats.Nodup) (i : Nat) (hi : i < cfg.cats.length) :
    encodeCell cfg .categorical (.cat cfg.cats[i]) = [.int i] := by
  have : catPos cfg.cats cfg.cats[i] = some i := by
    unfold catPos
    rw [List.findIdx?_eq_some_iff_getElem]
    refine ⟨hi, by simp, ?_⟩
    intro j hji hj
    have hj' : cfg.cats[j] = cfg.cats[i] := by simpa using hj
    exact (List.pairwise_iff_getElem.mp hnd j i (by omega) hi hji) hj'
  simp [encodeCell, this]

/-! ### the multicategorical pipeline is positional -/

/-- explode / merge / dropna / per-label counts / reindex / cumsum, run by the mapper after its internal
    relabelling, stores exactly the per-row kept token indices, in row order — for ANY label list the caller's
    Series carries (duplicates, strings, a permutation …). -/
theorem multicat_pipeline_positional {L F : Type} (cats : List Key) (labels : List L) (cells : List (Cell F))
    (h : labels.length = cells.length) :
    multicatForward cats labels cells =
      mntOfCol (cells.map fun c => (tokenIndices cats c).map (Val.int : Int → Val F)) ∧
    (∀ i (hi : i < cells.length), (multicatForward cats labels cells : MNT (Val F)).cellAt i =
      (tokenIndices cats cells[i]).map Val.int) := by
  have heq := multicatForward_eq (F := F) cats labels cells h
  refine ⟨heq, ?_⟩
  intro i hi
  rw [heq]
  have := pySlice_flatten_cumsum (cells.map fun c => (tokenIndices cats c).map (Val.int : Int → Val F)) i
    (by simpa using hi)
  simpa [MNT.cellAt, mntOfCol] using this

/-- … and the kept indices are the canonical encoding: a *set* of positions in the fitted list; tokens the
    list does not know contribute nothing and never alias an existing index. -/
theorem multicat_cell_is_index_set {F : Type} (cfg : ColCfg F) (ts : List Key) (hm : missingTok ∉ cfg.cats)
    (ht : missingTok ∉ ts) :
    (tokenIndices cfg.cats (.toks ts : Cell F)).map (Val.int : Int → Val F) =
      encodeCell cfg .multicategorical (.toks ts) ∧
    (∀ v, v ∈ encodeCell cfg .multicategorical (.toks ts : Cell F) ↔
      ∃ (i : Nat) (t : Key), v = .int i ∧ t ∈ ts ∧ catPos cfg.cats t = some i) := by
  refine ⟨tokenIndices_eq_encode cfg _ hm (fun ts' e => by cases e; exact ht), ?_⟩
  intro v
  simp only [encodeCell, List.mem_filterMap, List.mem_eraseDups]
  constructor
  · rintro ⟨t, htm, hv⟩
    cases hc : catPos cfg.cats t with
    | none => simp [hc] at hv
    | some i =>
      simp [hc] at hv
      exact ⟨i, t, by simpa using hv.symm, htm, hc⟩
  · rintro ⟨i, t, rfl, htm, hi⟩
    exact ⟨t, htm, by simp [hi]⟩

/-- the label-consulting variant the code used before fix 9b32825 (`value_counts` on the CALLER's labels +
    `reindex`) is NOT positional: on a frame with duplicated labels (`df.iloc[[0, 0]]`) it produces a
    malformed container, while the fixed mapper produces the two one-token cells.  (finding F3) -/
theorem label_consulting_variant_breaks :
    (multicatForwardLabelled [Key.str "a"] [(0 : Nat), 0] [Cell.toks [.str "a"], Cell.toks [.str "a"]]
        : MNT (Val Nat)).validate = false ∧
    (multicatForward [Key.str "a"] [(0 : Nat), 0] [Cell.toks [.str "a"], Cell.toks [.str "a"]] : MNT (Val Nat)) =
      mntOfCol [[.int 0], [.int 0]] := by
  decide

/-! ### calendar -/

/-- for EVERY epoch second the seven components are in range
    (month−1 ∈ 0..11, day−1 ∈ 0..30, weekday ∈ 0..6, hour ∈ 0..23, minute, second ∈ 0..59) -/
theorem calendar_ranges (s : Int) :
    ∃ y mo d wd h mi sec, Cal.components s = [y, mo, d, wd, h, mi, sec] ∧
      0 ≤ mo ∧ mo ≤ 11 ∧ 0 ≤ d ∧ d ≤ 30 ∧ 0 ≤ wd ∧ wd ≤ 6 ∧
      0 ≤ h ∧ h ≤ 23 ∧ 0 ≤ mi ∧ mi ≤ 59 ∧ 0 ≤ sec ∧ sec ≤ 59 :=
  Cal.components_ranges s

/-- the cyclic components stay below the library's normalisation constants -/
theorem calendar_below_cyclic_const (s : Int) :
    ∀ k, k < 6 → ((Cal.components s).getD (k + 1) 0) < (cyclicConst.getD k 0 : Int) ∧ 0 ≤ (Cal.components s).getD (k + 1) 0 := by
  obtain ⟨y, mo, d, wd, h, mi, sec, he, hr⟩ := Cal.components_ranges s
  intro k hk
  rw [he]
  have : k = 0 ∨ k = 1 ∨ k = 2 ∨ k = 3 ∨ k = 4 ∨ k = 5 := by omega
  rcases this with rfl | rfl | rfl | rfl | rfl | rfl <;> simp [cyclicConst] <;> omega

/-- the date decomposition is injective: the textbook inverse recovers the day number (so two different
    days never get the same (year, month, day)) -/
theorem calendar_roundtrip (z : Int) :
    Cal.daysFromCivil (Cal.civilFromDays z).1 (Cal.civilFromDays z).2.1 (Cal.civilFromDays z).2.2 = z :=
  Cal.days_civil_roundtrip z

end TFVerif.C01

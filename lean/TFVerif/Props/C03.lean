/-
C03 — column statistics equal their definitions and define the category index space.

Property theorems only; helper lemmas are in `TFVerif/Proofs/Stats.lean`, the model in
`TFVerif/Model/Stats.lean`.  Scalar statements hold over every linearly ordered field `α`
(the driver runs the same model functions on IEEE doubles); all statements are for lists of
arbitrary length.  Each theorem is followed by a closed instance showing its hypotheses are satisfiable
and its conclusion non-trivial.
-/
import TFVerif.Proofs.Stats
import TFVerif.Gen.Stats
import Mathlib.Algebra.Order.Field.Rat
import Mathlib.Tactic.NormNum

namespace TFVerif.C03
open TFVerif.Stats

/-! ## generated tables = model tables (complete finite domains, by `decide`) -/

theorem gen_eq_model_statTypes : Gen.Stats.statTypes = StatType.all.map StatType.name ∧
    Gen.Stats.statTypeValues = StatType.all.map StatType.name := by decide

theorem gen_eq_model_stypes : Gen.Stats.stypes = Stype.all.map Stype.name := by decide

/-- `StatType.stats_for_stype` over every stype -/
theorem gen_eq_model_statsFor : Gen.Stats.statsFor = statsForTable := by decide

/-- the stypes merged into the embedding group (`stype.parent == embedding`) -/
theorem gen_eq_model_embGroup : Gen.Stats.embGroup = embGroup.map Stype.name := by decide

/-- the `_default_values` table -/
theorem gen_eq_model_defaults : Gen.Stats.defaults = defaultsTable := by decide

/-! ## the code-shaped pipeline computes over exactly the non-missing finite values -/

/-- `compute_col_stats` for numerical / sequence columns (inf masking, all-null test, `dropna`, flatten,
    finite mask, `finite_mask.any()` guard) equals the specification: the three statistics of the usable
    values — the finite, non-missing ones — or the defaults when there is none. -/
theorem stats_over_usable_values {α : Type} [Add α] [Sub α] [Mul α] [Div α] [Zero α] [NatCast α] [LE α]
    [DecidableLE α] (sqrt : α → α) :
    (∀ cells : List (Ext α), numStats sqrt cells = specNum sqrt (usableNum cells)) ∧
    (∀ cells : List (Option (List (Ext α))), seqStats sqrt cells = specNum sqrt (usableSeq cells)) :=
  ⟨numStats_eq_spec sqrt, seqStats_eq_spec sqrt⟩

example : usableNum ([.fin 2, .posInf, .nan, .fin 5, .negInf] : List (Ext ℚ)) = [2, 5] ∧
    usableSeq ([some [.fin 1, .nan], none, some [], some [.posInf, .fin 3]] : List (Option (List (Ext ℚ)))) = [1, 3] := by
  decide

variable {α : Type} [Field α] [LinearOrder α] [IsStrictOrderedRing α]

/-! ## mean -/

/-- MEAN: `n · mean = Σ x`; it is the unique centre (deviations sum to 0); it lies between any lower and upper
    bound of the values; it depends on the multiset of values only. -/
theorem mean_def (xs : List α) (h : xs ≠ []) :
    mean xs * (xs.length : α) = xs.sum ∧
    (xs.map fun x => x - mean xs).sum = 0 ∧
    (∀ m, (xs.map fun x => x - m).sum = 0 → m = mean xs) ∧
    (∀ a, (∀ x ∈ xs, a ≤ x) → a ≤ mean xs) ∧ (∀ b, (∀ x ∈ xs, x ≤ b) → mean xs ≤ b) ∧
    (∀ ys, xs.Perm ys → mean ys = mean xs) :=
  ⟨mean_mul_length h, mean_centered h, mean_unique h, le_mean_of_forall_ge h, mean_le_of_forall_le h,
   fun _ hp => (mean_perm hp).symm⟩

example : mean ([1, 2, 6] : List ℚ) = 3 ∧ ([1, 2, 6] : List ℚ) ≠ [] := by
  constructor
  · norm_num [mean]
  · simp

/-! ## population variance and standard deviation -/

/-- STD: with `std = sqrt(variance)` for any `sqrt` that is the non-negative root on non-negative arguments,
    `std² = variance`, `std ≥ 0`, and `variance` is the **population** variance:
    `n · variance = Σ (x - mean)²`, equivalently `mean(x²) − mean²` (divisor `n`, never `n − 1`). -/
theorem var_def (sqrt : α → α) (hsqrt : ∀ v, 0 ≤ v → 0 ≤ sqrt v ∧ sqrt v * sqrt v = v) (xs : List α) (h : xs ≠ []) :
    sqrt (variance xs) * sqrt (variance xs) = variance xs ∧ 0 ≤ sqrt (variance xs) ∧
    variance xs * (xs.length : α) = (xs.map fun x => (x - mean xs) * (x - mean xs)).sum ∧
    variance xs = mean (xs.map fun x => x * x) - mean xs * mean xs ∧
    (∀ ys, xs.Perm ys → variance ys = variance xs) :=
  ⟨(std_def sqrt hsqrt xs).1, (std_def sqrt hsqrt xs).2, variance_mul_length h, variance_eq_meanSq_sub_sqMean h,
   fun _ hp => (variance_perm hp).symm⟩

/-- a constant column has standard deviation 0 -/
theorem var_const (c : α) (n : Nat) : variance (List.replicate (n + 1) c) = 0 := variance_const c n

example : variance (List.replicate 3 (5 : ℚ)) = 0 := var_const 5 2

/-- two values 1 and 3: population variance 1 (the sample variance would be 2) -/
example : variance ([1, 3] : List ℚ) = 1 ∧ variance ([1, 3] : List ℚ) ≠ 2 := by
  norm_num [variance, mean]

/-! ## quantiles -/

/-- QUANTILES on the sorted usable values `s = sortAsc xs` (a sorted permutation of `xs`):
    `q0` is the minimum and `q100` the maximum (elements of `xs` bounding all others), the five values are
    non-decreasing, each lies between its two neighbouring order statistics, and the median is the middle
    element (odd count) or the average of the two middle elements (even count). -/
theorem quantiles_def (xs : List α) (h : xs ≠ []) :
    let s := sortAsc xs
    s.Perm xs ∧ s.Pairwise (· ≤ ·) ∧
    quantiles xs = [quantileAt s 0, quantileAt s 1, quantileAt s 2, quantileAt s 3, quantileAt s 4] ∧
    (quantileAt s 0 ∈ xs ∧ ∀ x ∈ xs, quantileAt s 0 ≤ x) ∧
    (quantileAt s 4 ∈ xs ∧ ∀ x ∈ xs, x ≤ quantileAt s 4) ∧
    (quantileAt s 0 ≤ quantileAt s 1 ∧ quantileAt s 1 ≤ quantileAt s 2 ∧
      quantileAt s 2 ≤ quantileAt s 3 ∧ quantileAt s 3 ≤ quantileAt s 4) ∧
    (∀ k, k ≤ 4 → s.getD ((s.length - 1) * k / 4) 0 ≤ quantileAt s k ∧
      quantileAt s k ≤ s.getD (min ((s.length - 1) * k / 4 + 1) (s.length - 1)) 0) ∧
    (∀ m, s.length = 2 * m + 1 → quantileAt s 2 = s.getD m 0) ∧
    (∀ m, s.length = 2 * m + 2 → quantileAt s 2 = (s.getD m 0 + s.getD (m + 1) 0) / 2) ∧
    (∀ ys, xs.Perm ys → quantiles ys = quantiles xs) := by
  intro s
  have hs := sortAsc_pairwise xs
  exact ⟨sortAsc_perm xs, hs, rfl, quantile_min h, quantile_max h,
    ⟨quantileAt_mono hs 0 1 (by decide) (by decide), quantileAt_mono hs 1 2 (by decide) (by decide),
     quantileAt_mono hs 2 3 (by decide) (by decide), quantileAt_mono hs 3 4 (by decide) (by decide)⟩,
    fun k hk => quantileAt_between hs k hk, median_odd s, median_even s,
    fun _ hp => (quantiles_perm hp).symm⟩

/-- four unsorted values: `(n−1)q` = 0, 0.75, 1.5, 2.25, 3 -/
example : quantiles ([3, 1, 2, 4] : List ℚ) = [1, 7/4, 5/2, 13/4, 4] := by
  have s1 : sortAsc ([3, 1, 2, 4] : List ℚ) = [1, 2, 3, 4] := by norm_num [sortAsc, isort, insertBy, leB]
  unfold quantiles
  rw [s1]
  norm_num [quantileAt]

/-! ## categorical counts and the index space -/

section Counts
variable {β : Type} [DecidableEq β]

/-- COUNT: for **any** listing `cats` that enumerates the distinct non-missing values without duplicates
    (whatever its order), the count the model's table gives for `cats[i]` is the number of cells equal to
    `cats[i]`; missing cells are never counted and every listed count is positive. -/
theorem counts_exact (cells : List (Option β)) (cats : List β) (_hnd : cats.Nodup)
    (henum : ∀ v, v ∈ cats ↔ some v ∈ cells) (i : Nat) (hi : i < cats.length) :
    lookupCount (valueCounts cells) cats[i] = (cells.filter fun c => c = some cats[i]).length ∧
    0 < lookupCount (valueCounts cells) cats[i] := by
  have h1 := lookupCount_valueCounts cells cats[i]
  refine ⟨h1, ?_⟩
  rw [h1, occurrences_pos_iff]
  exact (henum _).mp (List.getElem_mem hi)

example : valueCounts [some "a", none, some "b", some "a", none] = [("a", 2), ("b", 1)] ∧
    lookupCount (valueCounts [some "a", none, some "b", some "a", none]) "a" = 2 := by decide

/-- the model's own table: one row per occurring value, exact counts, non-increasing count order; i.e. it
    passes the acceptance test `countsOk` that the harness applies to the observed listing. -/
theorem counts_sorted (cells : List (Option β)) :
    nonIncreasing ((valueCounts cells).map Prod.snd) = true ∧
    ((valueCounts cells).map Prod.fst).Nodup ∧
    (∀ p, p ∈ valueCounts cells ↔ some p.1 ∈ cells ∧ p.2 = occurrences cells p.1) ∧
    countsOk cells ((valueCounts cells).map Prod.fst) ((valueCounts cells).map Prod.snd) = true :=
  ⟨valueCounts_sorted cells, valueCounts_cats_nodup cells, mem_valueCounts cells, valueCounts_ok cells⟩

example : nonIncreasing [3, 3, 1] = true ∧ nonIncreasing [1, 2] = false := by decide

/-- what acceptance of an observed `(categories, counts)` listing means, and that it pins the listing down
    up to the order of rows: position-wise exact counts, exactly the occurring values, and the rows are a
    permutation of the model's table (ties may be ordered either way — the property does not fix them). -/
theorem counts_accepted_iff (cells : List (Option β)) (cats : List β) (counts : List Nat) :
    (countsOk cells cats counts = true ↔
      cats.Nodup ∧ cats.length = counts.length ∧
      (∀ p ∈ cats.zip counts, p.2 = occurrences cells p.1 ∧ 0 < p.2) ∧
      (∀ v, some v ∈ cells → v ∈ cats) ∧ counts.Pairwise (fun a b => b ≤ a)) ∧
    (countsOk cells cats counts = true →
      (∀ i (hi : i < cats.length) (hi' : i < counts.length), counts[i] = occurrences cells cats[i]) ∧
      (∀ v, v ∈ cats ↔ some v ∈ cells) ∧ (cats.zip counts).Perm (valueCounts cells)) :=
  ⟨countsOk_iff cells cats counts,
   fun h => ⟨countsOk_getElem h, countsOk_mem_cats h, countsOk_perm_valueCounts h⟩⟩

/-- a tie listed in the other order is accepted too; a wrong count, a missing value, an increasing pair are not -/
example : countsOk [some 1, some 2, some 2, some 1, some 5, none] [2, 1, 5] [2, 2, 1] = true ∧
    countsOk [some 1, some 2, some 2, some 1, some 5, none] [1, 2, 5] [2, 2, 1] = true ∧
    countsOk [some 1, some 2, some 2, some 1, some 5, none] [1, 2, 5] [2, 3, 1] = false ∧
    countsOk [some 1, some 2, some 2, some 1, some 5, none] [1, 2] [2, 2] = false ∧
    countsOk [some 1, some 2, some 2, some 1, some 5, none] [5, 1, 2] [1, 2, 2] = false := by decide

/-- **index space**: with a duplicate-free category list, the mapper encodes `cats[i]` as `i`; missing and
    unseen values get −1; every listed value decodes back (`cats[code] = v`), so distinct categories get
    distinct codes in `0 … len−1`. -/
theorem index_space (cats : List β) (hnd : cats.Nodup) :
    (∀ i (hi : i < cats.length), encodeCat cats (some cats[i]) = (i : Int)) ∧
    encodeCat cats none = -1 ∧
    (∀ v, v ∉ cats → encodeCat cats (some v) = -1) ∧
    (∀ v, v ∈ cats → ∃ i, ∃ hi : i < cats.length, encodeCat cats (some v) = (i : Int) ∧ cats[i] = v) ∧
    (∀ v w, v ∈ cats → w ∈ cats → encodeCat cats (some v) = encodeCat cats (some w) → v = w) :=
  ⟨fun i hi => encodeCat_getElem hnd i hi, rfl, fun _ h => encodeCat_unseen h, fun _ h => encodeCat_decode h,
   fun _ _ hv hw h => encodeCat_injective hv hw h⟩

example : ["b", "a", "c"].Nodup ∧ encodeCat ["b", "a", "c"] (some "a") = 1 ∧
    encodeCat ["b", "a", "c"] (some "z") = -1 ∧ encodeCat ["b", "a", "c"] none = -1 := by decide

/-- MULTI_COUNT: the count of a token is the number of non-missing cells whose token **set** contains it
    (repeats inside a cell count once; empty and missing cells contribute nothing); the table lists exactly the
    tokens that occur, in non-increasing count order. -/
theorem multi_counts_exact (cells : List (Option (List β))) :
    (∀ p, p ∈ multiCounts cells ↔ 0 < cellsContaining cells p.1 ∧ p.2 = cellsContaining cells p.1) ∧
    nonIncreasing ((multiCounts cells).map Prod.snd) = true ∧ ((multiCounts cells).map Prod.fst).Nodup := by
  have hocc : ∀ t, occurrences ((((cells.filterMap id).flatMap distinct).map some)) t = cellsContaining cells t := by
    intro t
    rw [occurrences_eq_count]
    have : (((cells.filterMap id).flatMap distinct).map some).filterMap id = (cells.filterMap id).flatMap distinct := by
      rw [List.filterMap_map]; simp
    rw [this, multi_count_exact]
  refine ⟨?_, valueCounts_sorted _, valueCounts_cats_nodup _⟩
  intro p
  unfold multiCounts
  rw [mem_valueCounts, hocc, ← occurrences_pos_iff, hocc]

example : multiCounts [some ["x", "y", "x"], none, some [], some ["y"]] = [("y", 2), ("x", 1)] ∧
    cellsContaining [some ["x", "y", "x"], none, some [], some ["y"]] "x" = 1 := by decide

end Counts

/-! ## timestamps -/

/-- OLDEST_TIME is a non-missing time of the column and no non-missing time is earlier. -/
theorem oldest_le_all (year : Int → Int) (cells : List (Option Int)) (o : Int)
    (h : (timeStats year cells).oldest = some o) : some o ∈ cells ∧ ∀ t, some t ∈ cells → o ≤ t :=
  Stats.oldest_le_all year cells o h

example : (timeStats yearOf [some 40, none, some 10, some 30]).oldest = some 10 := by decide

/-- NEWEST_TIME is a non-missing time of the column and no non-missing time is later. -/
theorem newest_ge_all (year : Int → Int) (cells : List (Option Int)) (w : Int)
    (h : (timeStats year cells).newest = some w) : some w ∈ cells ∧ ∀ t, some t ∈ cells → t ≤ w :=
  Stats.newest_ge_all year cells w h

example : (timeStats yearOf [some 40, none, some 10, some 30]).newest = some 40 := by decide

/-- MEDIAN_TIME is the **upper** median of the `n` non-missing times: the element with 0-based index `n/2`
    of the sorted times — the middle one for odd `n = 2k+1` (index `k`), the upper of the two middle ones
    for even `n = 2k+2` (index `k+1`, and `sorted[k] ≤ sorted[k+1]`); at least `n/2 + 1` times are `≤` it
    and at least `n − n/2` are `≥` it. -/
theorem median_time_is_upper_median (year : Int → Int) (cells : List (Option Int)) :
    (∀ m, (timeStats year cells).median = some m →
      (sortedTimes cells)[(cells.filterMap id).length / 2]? = some m ∧ some m ∈ cells ∧
      (cells.filterMap id).length / 2 + 1 ≤ ((cells.filterMap id).filter fun x => decide (x ≤ m)).length ∧
      (cells.filterMap id).length - (cells.filterMap id).length / 2
        ≤ ((cells.filterMap id).filter fun x => decide (m ≤ x)).length) ∧
    (∀ k, (cells.filterMap id).length = 2 * k + 1 → (timeStats year cells).median = (sortedTimes cells)[k]?) ∧
    (∀ k, (cells.filterMap id).length = 2 * k + 2 →
      (timeStats year cells).median = (sortedTimes cells)[k + 1]? ∧
      ∃ lo up, (sortedTimes cells)[k]? = some lo ∧ (sortedTimes cells)[k + 1]? = some up ∧ lo ≤ up) :=
  ⟨fun m h => median_time_spec year cells m h, median_time_odd year cells, median_time_even year cells⟩

/-- four times, unsorted with a missing one: the upper median 30 (not the lower median 20); five times: 30 -/
example : (timeStats yearOf [some 40, none, some 10, some 30, some 20]).median = some 30 ∧
    (timeStats yearOf [some 40, some 50, some 10, some 30, some 20]).median = some 30 ∧
    (timeStats yearOf [some 40, none, some 10, some 30, some 20]).oldest = some 10 ∧
    (timeStats yearOf [some 40, none, some 10, some 30, some 20]).newest = some 40 := by decide

/-- YEAR_RANGE brackets the year of every non-missing time, and both ends are years that occur. -/
theorem year_range_def (year : Int → Int) (cells : List (Option Int)) (he : cells.filterMap id ≠ []) :
    (∀ t, some t ∈ cells → (timeStats year cells).yearRange.1 ≤ year t ∧ year t ≤ (timeStats year cells).yearRange.2) ∧
    (∃ t, some t ∈ cells ∧ year t = (timeStats year cells).yearRange.1) ∧
    (∃ t, some t ∈ cells ∧ year t = (timeStats year cells).yearRange.2) :=
  yearRange_spec year cells he

/-- 2020-01-02 03:04:05 UTC, 1969-12-31 23:59:59 and a missing cell -/
example : (timeStats yearOf [some 1577934245, none, some (-1)]).yearRange = (1969, 2020) ∧
    timeComponents 1577934245 = [2020, 0, 1, 3, 3, 4, 5] ∧ timeComponents (-1) = [1969, 11, 30, 2, 23, 59, 59] := by
  decide

/-! ## embeddings, defaults, binary target -/

/-- EMB_DIM of a column whose vectors all have width `w` is `w`. -/
theorem emb_dim_def {γ : Type} (cells : List (Option (List γ))) (w : Nat)
    (hne : cells.filterMap id ≠ []) (hw : ∀ v, some v ∈ cells → v.length = w) : embDim cells = (w : Int) :=
  embDim_uniform cells w hne hw

example : embDim [none, some [1, 2, 3], some [4, 5, 6]] = 3 := by decide

/-- after materialization exactly the columns of the embedding group (embedding, text_embedded, image_embedded)
    carry `EMB_DIM`, once; every other statistic list is that of `stats_for_stype`. -/
theorem emb_dim_after_materialize (s : Stype) :
    (StatType.EMB_DIM ∈ statsAfterMaterialize s ↔ s ∈ embGroup) ∧
    (statsAfterMaterialize s).filter (· ≠ .EMB_DIM) = (statsFor s).filter (· ≠ .EMB_DIM) ∧
    (statsAfterMaterialize s).Nodup := by
  cases s <;> decide

example : statsAfterMaterialize .text_embedded = [.EMB_DIM] ∧ statsFor .text_embedded = [] ∧
    statsAfterMaterialize .embedding = [.EMB_DIM] ∧ statsAfterMaterialize .numerical = [.MEAN, .STD, .QUANTILES] := by
  decide

/-- a column with no usable value gets the neutral defaults of the `_default_values` table, never an error:
    numerical / sequence columns without a finite value (all missing, only ±inf, only NaN, only empty lists),
    all-missing categorical, multicategorical (also all-blank), timestamp (also all unparseable) and embedding columns. -/
theorem defaults_when_empty :
    (∀ {α : Type} [Add α] [Sub α] [Mul α] [Div α] [Zero α] [NatCast α] [LE α] [DecidableLE α] (sqrt : α → α)
        (cells : List (Ext α)), usableNum cells = [] → numStats sqrt cells = NumStats.default) ∧
    (∀ {α : Type} [Add α] [Sub α] [Mul α] [Div α] [Zero α] [NatCast α] [LE α] [DecidableLE α] (sqrt : α → α)
        (cells : List (Option (List (Ext α)))), usableSeq cells = [] → seqStats sqrt cells = NumStats.default) ∧
    (∀ {β : Type} [DecidableEq β] (cells : List (Option β)), cells.filterMap id = [] → valueCounts cells = []) ∧
    (∀ {β : Type} [DecidableEq β] (cells : List (Option (List β))),
        (∀ l, some l ∈ cells → l = []) → multiCounts cells = []) ∧
    (∀ (year : Int → Int) (cells : List (Option Int)), cells.filterMap id = [] →
        timeStats year cells = { yearRange := (-1, -1), newest := none, oldest := none, median := none }) ∧
    (∀ {γ : Type} (cells : List (Option (List γ))), cells.filterMap id = [] → embDim cells = -1) ∧
    ((statsFor .numerical).map defaultOf = [.nan, .nan, .nans 5] ∧ defaultOf .COUNT = .noCounts ∧
      defaultOf .MULTI_COUNT = .noCounts ∧ defaultOf .YEAR_RANGE = .ints [-1, -1] ∧
      defaultOf .OLDEST_TIME = .ints [-1, -1, -1, -1, -1, -1, -1] ∧ defaultOf .EMB_DIM = .int (-1)) := by
  refine ⟨?_, ?_, ?_, ?_, ?_, ?_, by decide⟩
  · intro α _ _ _ _ _ _ _ _ sqrt cells h
    rw [numStats_eq_spec, h]; rfl
  · intro α _ _ _ _ _ _ _ _ sqrt cells h
    rw [seqStats_eq_spec, h]; rfl
  · intro β _ cells h
    unfold valueCounts; simp only [h]; rfl
  · intro β _ cells h
    unfold multiCounts valueCounts
    have : (cells.filterMap id).flatMap distinct = [] := by
      rw [List.flatMap_eq_nil_iff]
      intro l hl
      have : some l ∈ cells := by simpa [List.mem_filterMap] using hl
      rw [h l this]; rfl
    simp only [this]; rfl
  · intro year cells h
    exact timeStats_default year cells h
  · intro γ cells h
    exact embDim_all_missing cells h

example : numStats (α := ℚ) id [.posInf, .nan, .negInf] = NumStats.default ∧
    seqStats (α := ℚ) id [some [], none, some [.nan]] = NumStats.default ∧
    multiCounts [some ([] : List String), none] = [] ∧ embDim [(none : Option (List Nat)), none] = -1 := by decide

/-- binary target: exactly two classes are listed in ascending class order whatever their frequencies, the
    counts stay attached to their classes; any other number of classes is left in frequency order. -/
theorem binary_target_sorted {β : Type} (lt : β → β → Bool) :
    (∀ a b : β × Nat, a.1 ≠ b.1 → (lt a.1 b.1 = true ∨ lt b.1 a.1 = true) →
      ∃ p q, binaryTargetResort lt [a, b] = [p, q] ∧ lt p.1 q.1 = true) ∧
    (∀ pairs, (binaryTargetResort lt pairs).Perm pairs) ∧
    (∀ pairs, pairs.length ≠ 2 → binaryTargetResort lt pairs = pairs) :=
  ⟨fun a b hne ht => binaryTargetResort_sorted lt a b (fun _ => ht) hne, binaryTargetResort_perm lt,
   binaryTargetResort_other lt⟩

example : binaryTargetResort (fun a b => decide (a < b)) [("yes", 7), ("no", 3)] = [("no", 3), ("yes", 7)] ∧
    binaryTargetResort (fun a b => decide (a < b)) [("no", 7), ("yes", 3)] = [("no", 7), ("yes", 3)] ∧
    binaryTargetResort (fun a b => decide (a < b)) [("c", 7), ("b", 3), ("a", 1)] = [("c", 7), ("b", 3), ("a", 1)] := by
  decide

end TFVerif.C03

/-
C10 — a data-loader epoch is an exact partition of the rows.

Property theorems only (helper lemmas: TFVerif/Proofs/Loader.lean, TFVerif/Proofs/Frame.lean).
`Loader.batches order bs dropLast` models the index batches PyTorch's `BatchSampler` forms from the
sampler's `order` (an input: `range n` without shuffling, the drawn permutation with shuffling, or
an explicit sampler); `Loader.epoch` collates every batch by `tensor_frame[index]`
(TFVerif/Model/Loader.lean).  The theorems hold for every order, batch size and frame.
-/
import TFVerif.Proofs.Loader
import TFVerif.Proofs.FrameRagged

namespace TFVerif.C10
open TFVerif TFVerif.TF TFVerif.Loader

variable {Φ β κ τ ω : Type} {ops : FeatOps Φ}

/-- **The batches, concatenated, are the order** — or, with `drop_last`, its longest prefix whose
    length is divisible by the batch size (`batch_size=None`: every index on its own). -/
theorem epoch_flatten {order : List Nat} {bs : Option Nat} {dl : Bool} {bss : List (List Nat)}
    (h : batches order bs dl = some bss) :
    bss.flatten = match bs with
      | none => order
      | some b => if dl then order.take ((order.length / b) * b) else order :=
  batches_flatten h

/-- without shuffling (`order = range n`) the rows are served in order. -/
theorem epoch_in_order {n b : Nat} {bss : List (List Nat)}
    (h : batches (List.range n) (some b) false = some bss) : bss.flatten = List.range n := by
  simpa using batches_flatten h

example : batches (List.range 7) (some 3) false = some [[0, 1, 2], [3, 4, 5], [6]] ∧
    batches (List.range 7) (some 3) true = some [[0, 1, 2], [3, 4, 5]] ∧
    batches [4, 2, 0, 1, 3] (some 2) false = some [[4, 2], [0, 1], [3]] ∧
    batches [4, 2] none false = some [[4], [2]] := by decide

/-- **Batch sizes.**  With batch size `b ≥ 1` every batch has exactly `b` indices, except possibly one
    last batch with between `1` and `b - 1` indices, which exists only when `drop_last` is off. -/
theorem batch_sizes {order : List Nat} {b : Nat} {dl : Bool} {bss : List (List Nat)}
    (h : batches order (some (b + 1)) dl = some bss) :
    ∃ full last, bss = full ++ last ∧ (∀ x ∈ full, x.length = b + 1) ∧
      (last = [] ∨ (dl = false ∧ ∃ x, last = [x] ∧ 1 ≤ x.length ∧ x.length < b + 1)) := by
  simp only [batches, Option.some.injEq] at h
  subst h
  exact batchLoop_sizes (b + 1) dl order [] (by simp)

/-- batch size 0 and `batch_size=None` together with `drop_last` are rejected. -/
theorem batches_rejects (order : List Nat) (dl : Bool) :
    batches order (some 0) dl = none ∧ batches order none true = none := by
  constructor <;> simp [batches]

example : batches [0, 1, 2] (some 4) true = some [] ∧ batches [0, 1, 2] (some 4) false = some [[0, 1, 2]] ∧
    batches [0, 1, 2] (some 0) false = none := by decide

/-- **Exact partition.**  If the sampler order is a permutation of the rows `0 … n-1`, then in one
    epoch every row occurs exactly once (without `drop_last`), at most once with `drop_last`, and
    no other index occurs. -/
theorem epoch_partition {n : Nat} {order : List Nat} (hperm : order.Perm (List.range n)) {bs : Option Nat}
    {dl : Bool} {bss : List (List Nat)} (h : batches order bs dl = some bss) :
    (dl = false → ∀ i, i < n → bss.flatten.count i = 1) ∧ (∀ i, bss.flatten.count i ≤ 1) ∧
      (∀ i ∈ bss.flatten, i < n) := by
  have hnd : order.Nodup := hperm.nodup_iff.mpr List.nodup_range
  have hfl := batches_flatten h
  have hsub : bss.flatten.Sublist order := by
    rw [hfl]
    cases bs with
    | none => exact List.Sublist.refl _
    | some b =>
      simp only
      cases dl with
      | true => simp only [if_true]; exact List.take_sublist _ _
      | false => exact List.Sublist.refl _
  have hnd' : bss.flatten.Nodup := hsub.nodup hnd
  refine ⟨?_, ?_, ?_⟩
  · intro hdl i hi
    have hfull : bss.flatten = order := by
      rw [hfl]
      cases bs with
      | none => rfl
      | some b => simp [hdl]
    rw [hfull, hperm.count_eq, List.nodup_range.count]
    simp [hi]
  · intro i
    rw [hnd'.count]
    split <;> omega
  · intro i hi
    exact List.mem_range.mp (hperm.mem_iff.mp (hsub.subset hi))

example : ([3, 0, 2, 1] : List Nat).Perm (List.range 4) ∧
    batches [3, 0, 2, 1] (some 3) false = some [[3, 0, 2], [1]] := by decide

/-- **Every batch is the selection of its rows.**  On a well-formed frame, for every sampler order
    of valid row indices the epoch succeeds, yields one frame per index batch, and each frame holds
    exactly the rows of its batch, in batch order, in every feature and in the target (`IsSel`:
    C07's row-selection statement) — so it equals `tensor_frame[batch]`. -/
theorem batch_is_selection (spec : FeatSpec ops κ τ ω) {f : Frame Φ β} {n : Nat} (hwf : f.WF spec n)
    {order : List Nat} (horder : ∀ i ∈ order, i < n) {bs : Option Nat} {dl : Bool} {bss : List (List Nat)}
    (hb : batches order bs dl = some bss) :
    ∃ frames, epoch ops f order bs dl = some frames ∧ All2 (IsSel spec f) bss frames :=
  epoch_spec spec hwf horder hb

private def eqI : Int → Int → Bool := fun a b => a == b
private abbrev O : FeatOps (Dense Int) := denseOps eqI
private abbrev S : FeatSpec O (List Int) (Option Nat) Unit := denseSpec eqI

private def exFrame : Frame (Dense Int) Int :=
  { feats := [("numerical", ⟨2, none, [[[0], [7]], [[1], [8]], [[2], [9]]]⟩)]
    names := [("numerical", ["row_id", "x"])], y := some [10, 20, 30], numRowsOpt := none }

private theorem exFrame_wf : exFrame.WF S 3 :=
  (validate_iff_spec S (f := exFrame) (by
      intro s φ hm
      simp [exFrame] at hm
      rcases hm with ⟨_, rfl⟩; exact ⟨by decide, by decide⟩)
    (by decide) (by decide)).mp (by decide)

/-- non-vacuity: a shuffled epoch with batch size 2 over the 3-row frame. -/
example : exFrame.WF S 3 ∧ (∀ i ∈ [2, 0, 1], i < 3) ∧
    (epoch O exFrame [2, 0, 1] (some 2) false).map (fun frs => frs.map (·.y)) =
      some [some [30, 10], some [20]] :=
  ⟨exFrame_wf, by decide, by decide⟩

/-! ### the ragged containers (instance of `batch_is_selection` at `featOps` / `featSpec`)

`featSpec cl` (TFVerif/Proofs/FrameRagged.lean, built from the C05/C06 refinement theorems) is the
specification of the storage the executable driver runs: dense tensors, `MultiNestedTensor`,
`MultiEmbeddingTensor` and dicts of `MultiNestedTensor`. -/

section ragged
variable {α : Type}

/-- **Every batch is the selection of its rows, ragged containers included.** -/
theorem batch_is_selection_ragged (cl : α → α → Bool) {f : Frame (Feat α) β} {n : Nat}
    (hwf : f.WF (featSpec cl) n) {order : List Nat} (horder : ∀ i ∈ order, i < n) {bs : Option Nat} {dl : Bool}
    {bss : List (List Nat)} (hb : batches order bs dl = some bss) :
    ∃ frames, epoch (featOps cl) f order bs dl = some frames ∧ All2 (IsSel (featSpec cl) f) bss frames :=
  batch_is_selection (featSpec cl) hwf horder hb

/-- ... read back on the containers: in the batch collated for the index list `b`, a
    `MultiNestedTensor` feature is a well-formed `MultiNestedTensor` whose cells are the cells of
    rows `b` of the dataset's tensor, in batch order; a `MultiEmbeddingTensor` feature likewise. -/
theorem batch_ragged_cells (cl : α → α → Bool) {f : Frame (Feat α) β} {n : Nat}
    (hwf : f.WF (featSpec cl) n) {order : List Nat} (horder : ∀ i ∈ order, i < n) {bs : Option Nat} {dl : Bool}
    {bss : List (List Nat)} (hb : batches order bs dl = some bss) :
    ∃ frames, epoch (featOps cl) f order bs dl = some frames ∧
      All2 (fun b g =>
        (∀ s m, assoc s f.feats = some (.nested m) → ∃ m', assoc s g.feats = some (.nested m') ∧
          m'.WFRep ∧ m'.numCols = m.numCols ∧ m'.grid.rows = Grid.pick m.grid.rows b) ∧
        (∀ s m, assoc s f.feats = some (.emb m) → ∃ m', assoc s g.feats = some (.emb m') ∧
          EmbWF m' ∧ m'.colWidths = m.colWidths ∧ m'.grid.rows = Grid.pick m.grid.rows b)) bss frames := by
  obtain ⟨frames, h1, h2⟩ := batch_is_selection_ragged cl hwf horder hb
  exact ⟨frames, h1, h2.mono fun b g hsel => isSel_ragged_cells cl hsel⟩

open RaggedEx (frame frame2 frame_wf left2 right2 mnt3 met3 ids3 mask3 nestedOf embOf dictOf) in
/-- non-vacuity: a shuffled epoch with batch size 2 over the mixed 3-row frame: batch `[2, 0]` holds
    rows 2, 0 of the ragged cells / embedding rows / target (re-based offsets), batch `[1]` row 1. -/
example : frame.WF (featSpec RaggedEx.eqI) 3 ∧ (∀ i ∈ [2, 0, 1], i < 3) ∧
    batches [2, 0, 1] (some 2) false = some [[2, 0], [1]] ∧
    (epoch (featOps RaggedEx.eqI) frame [2, 0, 1] (some 2) false).map
        (fun frs => frs.map fun g => (nestedOf g "multicategorical", embOf g "embedding", g.y)) =
      some [(some { numRows := 2, numCols := 2, values := [8, 9, 1, 2, 3], offset := [0, 2, 2, 4, 5] },
             some { numRows := 2, numCols := 2, width := 3, values := [[7, 8, 9], [1, 2, 3]], offset := [0, 2, 3] },
             some [30, 10]),
            (some { numRows := 1, numCols := 2, values := [4, 5, 6, 7], offset := [0, 1, 4] },
             some { numRows := 1, numCols := 2, width := 3, values := [[4, 5, 6]], offset := [0, 2, 3] },
             some [20])] ∧
    (MNT.grid ({ numRows := 2, numCols := 2, values := [8, 9, 1, 2, 3], offset := [0, 2, 2, 4, 5] } : MNT Int)).rows
      = Grid.pick mnt3.grid.rows [2, 0] :=
  ⟨frame_wf, by decide, by decide, by decide, by decide⟩

end ragged
end TFVerif.C10

/-
C09 — dataset row subsets, shuffles and train/val/test splits select exactly the requested rows for
every history; the random split generator.
Property theorems only (helper lemmas live in TFVerif/Proofs/Dataset.lean).  The model
(TFVerif/Model/Dataset.lean, TFVerif/Model/Split.lean) is tied to /repo by the correspondence check
harness/props/c09.py on every run.
-/
import TFVerif.Proofs.Dataset
import TFVerif.Gen.Split

namespace TFVerif.C09

open TFVerif TFVerif.Dataset TFVerif.Split

/-! ## the generated table -/

/-- `SPLIT_TO_NUM` of the live package is the table the model (and every theorem below) uses. -/
theorem gen_eq_model_splitNum : Gen.Split.splitNum = Split.splitNum := by decide

/-! ## a concrete dataset used by the non-vacuity examples -/

/-- six rows, permuted non-contiguous labels with a duplicate, splits `0 1 2 0 2 0` -/
def rows6 : List Row :=
  [⟨0, 13, 0⟩, ⟨1, 10, 1⟩, ⟨2, 15, 2⟩, ⟨3, 10, 0⟩, ⟨4, 11, 2⟩, ⟨5, 14, 0⟩]

def ds6 : DS :=
  { df := rows6, tf := rows6.map enc, materialized := true, cols := ["rid", "c", "y"],
    target := some "y", splitCol := true, splitInDf := true }

def fresh6 : DS := { ds6 with tf := [], materialized := false }

example : DS.create rows6 ["rid", "c", "y"] (some "y") true = some fresh6 := by decide
example : fresh6.materialize = some ds6 := by decide

/-! ## alignment for every history -/

/-- **aligned_invariant.**  Start from any pool of aligned datasets (in particular a freshly
    constructed one) and run *any* finite history — every operation applied to any previously derived
    dataset: in every dataset of the resulting pool the TensorFrame is the row-by-row encoding of the
    DataFrame (`tf = df.map enc`). -/
theorem aligned_invariant (ops : List Op) (pool : List DS) (hw : PoolWF pool) :
    PoolWF (run ops pool).1 :=
  run_wf ops pool hw

/-- the constructor yields an (unmaterialized) aligned dataset, so `aligned_invariant` applies to
    every history that starts at a constructor call. -/
theorem aligned_from_create (rows : List Row) (cols : List String) (target : Option String)
    (splitCol : Bool) (d0 : DS) (h : DS.create rows cols target splitCol = some d0) (ops : List Op) :
    PoolWF (run ops [d0]).1 := by
  apply run_wf
  intro d hd
  simp only [List.mem_singleton] at hd
  subst hd
  unfold DS.create at h
  split at h
  · cases h
  · cases h
    intro hm; cases hm

-- non-vacuity: a history with a materialization, a fractional slice of the result, a shuffle of
-- that, and a split lookup on the shuffled subset produces five aligned datasets, the last non-empty.
example :
    let ops := [Op.materialize 0, .select 0 (.fslice (.frac 1 4) .none none), .shuffle 1 [3, 0, 2, 1],
                .getSplit 2 "train"]
    (run ops [fresh6]).1.length = 4 ∧
    ((run ops [fresh6]).1.map fun d => d.df.map (·.rid)) = [[0, 1, 2, 3, 4, 5], [2, 3, 4, 5], [5, 2, 4, 3], [5, 3]] ∧
    ((run ops [fresh6]).1.map fun d => d.tf) = [[0, 1, 2, 3, 4, 5], [2, 3, 4, 5], [5, 2, 4, 3], [5, 3]] := by
  decide

/-- **derived_is_selection.**  A row selection of an aligned dataset succeeds exactly when the index
    expression is legal for Python lists of that length, and then both sides of the result are the
    gather of the parent at the Python positions of the index (`Index.positions`, TFVerif/Model/Py.lean). -/
theorem derived_is_selection (d : DS) (ix : DIndex) (hal : d.Aligned) (hm : d.materialized = true) :
    (∀ ps, (ix.resolve d.df.length).positions d.df.length = some ps →
        ∃ d', d.indexSelect ix = some d' ∧ d'.df = pick d.df ps ∧ d'.tf = (pick d.df ps).map enc ∧
          d'.materialized = true ∧ d'.cols = d.cols ∧ d'.target = d.target) ∧
    ((ix.resolve d.df.length).positions d.df.length = none → d.indexSelect ix = none) := by
  rw [indexSelect_eq d ix hal hm]
  constructor
  · intro ps hps
    rw [hps]
    exact ⟨_, rfl, rfl, rfl, hm, rfl, rfl⟩
  · intro h; rw [h]; rfl

example : (ds6.indexSelect (.idx (.list [5, -6, 2, 2]))).map (fun d => (d.df.map (·.rid), d.tf)) =
    some ([5, 0, 2, 2], [5, 0, 2, 2]) ∧
    ds6.indexSelect (.idx (.int 6)) = none ∧
    (ds6.indexSelect (.idx (.mask [true, false, false, true, false, true]))).map (fun d => d.tf) = some [0, 3, 5] := by
  decide

/-- **parents_unchanged (model level).**  Once a dataset is materialized no history changes it: the
    pool entry stays exactly the same dataset.  (Aliasing of the real objects is checked by the harness.) -/
theorem parents_unchanged (ops : List Op) (pool : List DS) (i : Nat) (d : DS)
    (hd : pool[i]? = some d) (hm : d.materialized = true) : (run ops pool).1[i]? = some d :=
  run_keeps_materialized ops pool i d hd hm

/-- before materialization a history can only flip the flag: DataFrame and column set stay. -/
theorem parents_df_unchanged (ops : List Op) (pool : List DS) (i : Nat) (d : DS) (hd : pool[i]? = some d) :
    ∃ d', (run ops pool).1[i]? = some d' ∧ d'.df = d.df ∧ d'.cols = d.cols :=
  run_keeps_df ops pool i d hd

example : (run [Op.select 0 (.idx (.slice (some 1) (some 3) none)), .shuffle 0 [5, 4, 3, 2, 1, 0], .split 1]
    [ds6]).1[0]? = some ds6 := by decide

-- a column selection and two materializations: datasets 0 and 1 keep their rows and column sets.
example : ((run [Op.colSelect 0 ["c"], .materialize 1, .materialize 0] [fresh6]).1.map fun d =>
    (d.cols, d.materialized, d.df.length)) = [(["rid", "c", "y"], true, 6), (["c", "y"], true, 6)] := by decide

/-! ## split lookups -/

/-- **getSplit_positional.**  On an aligned materialized dataset, for any index labels and any row
    order, `get_split(name)` returns exactly the rows whose split value is `SPLIT_TO_NUM[name]`, in
    order, on both sides. -/
theorem getSplit_positional (d : DS) (name : String) (k : Nat) (hal : d.Aligned)
    (hm : d.materialized = true) (hs : d.splitCol = true) (hdf : d.splitInDf = true)
    (hk : splitNum.lookup name = some k) :
    ∃ d', d.getSplit name = some d' ∧ d'.df = d.df.filter (fun r => r.split == k) ∧
      d'.tf = (d.df.filter (fun r => r.split == k)).map enc ∧ d'.materialized = true := by
  rw [getSplit_eq d name k hal hm hs hdf hk]
  exact ⟨_, rfl, rfl, rfl, hm⟩

/-- the same after any history: every dataset a history has produced answers split lookups
    positionally. -/
theorem getSplit_positional_after_history (ops : List Op) (pool : List DS) (hw : PoolWF pool)
    (d : DS) (hd : d ∈ (run ops pool).1) (name : String) (k : Nat)
    (hm : d.materialized = true) (hs : d.splitCol = true) (hdf : d.splitInDf = true)
    (hk : splitNum.lookup name = some k) :
    ∃ d', d.getSplit name = some d' ∧ d'.df = d.df.filter (fun r => r.split == k) ∧
      d'.tf = (d.df.filter (fun r => r.split == k)).map enc ∧ d'.materialized = true :=
  getSplit_positional d name k (run_wf ops pool hw d hd) hm hs hdf hk

-- the hypotheses of the history version are satisfiable: a fresh and a materialized pool are well-formed.
example : PoolWF [fresh6] ∧ PoolWF [ds6] := by
  constructor <;> intro d hd <;> simp only [List.mem_singleton] at hd <;> subst hd <;> decide

/-- `split()` is the three lookups. -/
theorem split_is_three_lookups (d : DS) (hal : d.Aligned) (hm : d.materialized = true)
    (hs : d.splitCol = true) (hdf : d.splitInDf = true) :
    ∃ a b c, d.split = some (a, b, c) ∧
      a.df = d.df.filter (fun r => r.split == 0) ∧ b.df = d.df.filter (fun r => r.split == 1) ∧
      c.df = d.df.filter (fun r => r.split == 2) ∧
      a.tf = a.df.map enc ∧ b.tf = b.df.map enc ∧ c.tf = c.df.map enc := by
  have h0 := getSplit_eq d "train" 0 hal hm hs hdf (by decide)
  have h1 := getSplit_eq d "val" 1 hal hm hs hdf (by decide)
  have h2 := getSplit_eq d "test" 2 hal hm hs hdf (by decide)
  refine ⟨{ d with df := d.df.filter (fun r => r.split == 0), tf := (d.df.filter (fun r => r.split == 0)).map enc },
          { d with df := d.df.filter (fun r => r.split == 1), tf := (d.df.filter (fun r => r.split == 1)).map enc },
          { d with df := d.df.filter (fun r => r.split == 2), tf := (d.df.filter (fun r => r.split == 2)).map enc },
          ?_, rfl, rfl, rfl, rfl, rfl, rfl⟩
  unfold DS.split
  rw [h0, h1, h2]
  rfl

-- non-vacuity: after a shuffle, with permuted duplicate labels, all three splits are non-trivial.
example :
    ((ds6.shuffle [4, 2, 5, 0, 1, 3]).bind fun s => s.split.map fun abc =>
      [abc.1.df.map (·.rid), abc.2.1.df.map (·.rid), abc.2.2.df.map (·.rid), abc.1.tf, abc.2.1.tf, abc.2.2.tf]) =
    some [[5, 0, 3], [1], [4, 2], [5, 0, 3], [1], [4, 2]] := by decide

/-- Non-vacuity of `getSplit_positional` (the Lean record of the defect fixed by 3b5c77a): the
    *label-based* lookup the code used before — index labels of the matching rows passed to the
    positional `index_select` — does not satisfy the statement.  On a default `RangeIndex` frame it
    returns rows of the wrong splits after a shuffle, and raises after a row selection. -/
theorem getSplitByLabel_violates_positional :
    ∃ (d : DS) (perm : List Nat) (s t : DS), d.Aligned ∧ d.materialized = true ∧
      d.shuffle perm = some s ∧ s.getSplitByLabel "train" = some t ∧
      t.df ≠ s.df.filter (fun r => r.split == 0) ∧
      (t.df.map (·.split)) = [2, 0] ∧
      ((d.indexSelect (.idx (.slice (some 2) (some 4) none))).bind (·.getSplitByLabel "train")) = none := by
  refine ⟨{ df := [⟨0, 0, 0⟩, ⟨1, 1, 1⟩, ⟨2, 2, 0⟩, ⟨3, 3, 2⟩], tf := [0, 1, 2, 3], materialized := true,
            cols := ["rid"], target := none, splitCol := true, splitInDf := true },
          [2, 0, 3, 1], ?_, ?_, ?_⟩
  · exact { df := [⟨2, 2, 0⟩, ⟨0, 0, 0⟩, ⟨3, 3, 2⟩, ⟨1, 1, 1⟩], tf := [2, 0, 3, 1], materialized := true,
            cols := ["rid"], target := none, splitCol := true, splitInDf := true }
  · exact { df := [⟨3, 3, 2⟩, ⟨2, 2, 0⟩], tf := [3, 2], materialized := true,
            cols := ["rid"], target := none, splitCol := true, splitInDf := true }
  · decide

/-! ## illegal orders -/

/-- **illegal_orders.**  Before materialization `tensor_frame`, every row selection, `shuffle`,
    `get_split` and `split` raise; after it `col_select` raises, `tensor_frame` is available and
    `materialize` is the identity. -/
theorem illegal_orders (d : DS) :
    (d.materialized = false →
      d.tensorFrame = none ∧ (∀ ix, d.indexSelect ix = none) ∧ (∀ perm, d.shuffle perm = none) ∧
      (∀ name, d.getSplit name = none) ∧ d.split = none) ∧
    (d.materialized = true →
      (∀ cs, d.colSelect cs = none) ∧ d.tensorFrame = some d.tf ∧ d.materialize = some d) := by
  constructor
  · intro hm
    have hsel : ∀ ix, d.indexSelect ix = none := fun ix => indexSelect_unmaterialized d ix hm
    have hget : ∀ name, d.getSplit name = none := by
      intro name
      unfold DS.getSplit
      split
      · rfl
      · split
        · rfl
        · split
          · rfl
          · exact hsel _
    refine ⟨by simp [DS.tensorFrame, hm], hsel, fun perm => hsel _, hget, ?_⟩
    unfold DS.split
    rw [hget "train"]
    rfl
  · intro hm
    exact ⟨fun cs => by simp [DS.colSelect, hm], by simp [DS.tensorFrame, hm], by simp [DS.materialize, hm]⟩

example : fresh6.materialized = false ∧ ds6.materialized = true ∧
    (fresh6.colSelect ["c"]).map (·.cols) = some ["c", "y"] ∧ (ds6.indexSelect (.idx (.int 0))).isSome := by
  decide

/-- **colSelect_keeps_target.**  Before materialization a column selection over known columns
    succeeds, keeps all rows, contains every requested column and always the target column. -/
theorem colSelect_keeps_target (d : DS) (cs : List String) (hm : d.materialized = false)
    (hknown : ∀ c ∈ DS.withTarget d.target cs, c ∈ d.cols) :
    ∃ d', d.colSelect cs = some d' ∧ d'.df = d.df ∧ d'.materialized = false ∧
      (∀ t, d.target = some t → t ∈ d'.cols) ∧ (∀ c ∈ cs, c ∈ d'.cols) ∧ (∀ c ∈ d'.cols, c ∈ d.cols) := by
  have hall : ((DS.withTarget d.target cs).all (d.cols.contains ·)) = true := by
    rw [List.all_eq_true]
    intro c hc
    simpa using hknown c hc
  have h : d.colSelect cs = some { d with cols := DS.withTarget d.target cs, splitInDf := false } := by
    unfold DS.colSelect
    simp only [hm, Bool.false_eq_true, if_false]
    rw [if_pos hall]
  refine ⟨_, h, rfl, hm, ?_, ?_, ?_⟩
  · intro t ht
    show t ∈ DS.withTarget d.target cs
    rw [ht]; exact withTarget_target cs t
  · exact withTarget_sub d.target cs
  · exact hknown

example : ∀ c ∈ DS.withTarget fresh6.target ["rid"], c ∈ fresh6.cols := by decide

/-! ## shuffle -/

/-- **shuffle_is_perm.**  With the reported draw `perm` (a permutation of `0 … len-1`), row `j` of the
    shuffled dataset is row `perm[j]` of the source on both sides, and the result is a rearrangement
    of the source (same rows, same multiplicities, same length). -/
theorem shuffle_is_perm (d : DS) (perm : List Nat) (hal : d.Aligned) (hm : d.materialized = true)
    (hp : perm.Perm (List.range d.df.length)) :
    ∃ d', d.shuffle perm = some d' ∧ d'.df = pick d.df perm ∧ d'.tf = d'.df.map enc ∧
      (∀ j : Nat, d'.df[j]? = (perm[j]?).bind (fun i => d.df[i]?)) ∧
      d'.df.Perm d.df ∧ d'.df.length = d.df.length := by
  rw [shuffle_eq d perm hal hm hp]
  refine ⟨_, rfl, rfl, rfl, ?_, pick_perm d.df perm hp, (pick_perm d.df perm hp).length_eq⟩
  intro j
  show (pick d.df perm)[j]? = _
  have hlt : ∀ i ∈ perm, i < d.df.length := by
    intro i hi
    have := (hp.mem_iff).1 hi
    simpa using this
  exact pick_getElem? d.df perm hlt j

example : [4, 2, 5, 0, 1, 3].Perm (List.range ds6.df.length) := by decide

/-! ## fractional slices -/

/-- Python's `round` on the exact quotient: the result is a nearest integer (`|k - p/q| ≤ 1/2`) and
    in the tie case it is the even one. -/
theorem round_is_nearest_ties_even (p : Int) (q : Nat) (hq : 0 < q) :
    -(q : Int) ≤ 2 * (roundHalfEven p q * q - p) ∧ 2 * (roundHalfEven p q * q - p) ≤ q ∧
    ((2 * (roundHalfEven p q * q - p) = q ∨ 2 * (roundHalfEven p q * q - p) = -(q : Int)) →
      roundHalfEven p q % 2 = 0) :=
  roundHalfEven_spec p q hq

example : roundHalfEven 5 2 = 2 ∧ roundHalfEven 7 2 = 4 ∧ roundHalfEven (-5) 2 = -2 ∧
    roundHalfEven 7 3 = 2 ∧ roundHalfEven 8 3 = 3 ∧ roundHalfEven (-1) 3 = 0 := by decide

/-- **fractional_slice.**  `dataset[a:b]` with float (or int, or absent) bounds cuts the source at
    `round(fraction × length)` (ints unchanged), clamped like a Python slice, on both sides. -/
theorem fractional_slice (d : DS) (a b : Bound) (hal : d.Aligned) (hm : d.materialized = true) :
    ∃ d', d.indexSelect (.fslice a b none) = some d' ∧
      d'.df = pySlice d.df (clampBound d.df.length (a.resolve d.df.length) 0)
                           (clampBound d.df.length (b.resolve d.df.length) d.df.length) ∧
      d'.tf = d'.df.map enc ∧
      (∀ p q, a = .frac p q → a.resolve d.df.length = some (roundHalfEven (p * d.df.length) q)) ∧
      (∀ p q, b = .frac p q → b.resolve d.df.length = some (roundHalfEven (p * d.df.length) q)) := by
  rw [indexSelect_eq d _ hal hm]
  refine ⟨_, rfl, ?_, rfl, ?_, ?_⟩
  · show pick d.df (slicePositions _ _ _ 1) = _
    unfold slicePositions sliceBounds
    exact pick_rangeStep_one d.df _ _ (clampBound_le _ _ _ (Nat.le_refl _))
  · intro p q h; subst h; rfl
  · intro p q h; subst h; rfl

-- 6 rows: ds[0.25:0.75] cuts at round(1.5)=2 and round(4.5)=4 (both ties go to the even side).
example : (ds6.indexSelect (.fslice (.frac 1 4) (.frac 3 4) none)).map (fun d => (d.df.map (·.rid), d.tf)) =
    some ([2, 3], [2, 3]) := by decide

/-! ## the random split generator -/

/-- `int(length * ratio)` of the model is the floor of the exact product. -/
theorem floorMul_is_floor (n : Nat) (r : Ratio) (hq : 0 < r.q) (hp : 0 ≤ r.p) :
    (floorMul n r : Int) * r.q ≤ n * r.p ∧ (n : Int) * r.p < ((floorMul n r : Int) + 1) * r.q :=
  floorMul_spec n r hq hp

example : floorMul 10 ⟨3, 20⟩ = 1 ∧ floorMul 100 ⟨29, 100⟩ = 29 ∧ floorMul 7 ⟨1, 3⟩ = 2 ∧ floorMul 0 ⟨1, 2⟩ = 0 := by decide

/-- **split_counts.**  Whenever the generator returns, for every behaviour of the numpy shuffle that
    is a permutation, the array has `length` entries, exactly `⌊length·train_ratio⌋` zeros,
    `⌊length·val_ratio⌋` ones (resp. the remainder when no test split is requested) and the remainder
    twos; the remainder is a true (never truncated) difference. -/
theorem split_counts {σ : Type} (R : Rng σ) (hR : ∀ g n, (R.shuffle g n).1.Perm (List.range n))
    (g : σ) (n seed : Nat) (rt rv : Ratio) (it : Bool) (hqt : 0 < rt.q) (hqv : 0 < rv.q)
    (out : List Nat) (g' : σ) (h : generate R g n seed rt rv it = some (out, g')) :
    out.length = n ∧ out.count 0 = floorMul n rt ∧
    out.count 1 = (if it then floorMul n rv else n - floorMul n rt) ∧
    out.count 2 = (if it then n - floorMul n rt - floorMul n rv else 0) ∧
    floorMul n rt + (if it then floorMul n rv else 0) ≤ n := by
  unfold generate at h
  cases hc : counts n rt rv it with
  | none => rw [hc] at h; cases h
  | some c =>
    obtain ⟨t, v, te⟩ := c
    rw [hc] at h
    simp only [Option.some.injEq, Prod.mk.injEq] at h
    obtain ⟨hout, _⟩ := h
    have hperm : out.Perm (blocks (t, v, te)) := by
      rw [← hout, arrange_eq_pick]
      exact pick_perm _ _ (hR _ _)
    obtain ⟨c0, c1, c2, cl⟩ := count_blocks t v te
    have k0 := hperm.count_eq 0
    have k1 := hperm.count_eq 1
    have k2 := hperm.count_eq 2
    have kl := hperm.length_eq
    rw [c0] at k0; rw [c1] at k1; rw [c2] at k2; rw [cl] at kl
    -- the block sizes
    unfold counts at hc
    by_cases hpt : rt.pos = true
    · by_cases hpv : rv.pos = true
      · have hpt' : 0 < rt.p := by simpa [Ratio.pos] using hpt
        have hpv' : 0 < rv.p := by simpa [Ratio.pos] using hpv
        simp only [hpt, hpv, Bool.not_true, Bool.false_eq_true, if_false] at hc
        cases it with
        | true =>
          simp only [if_true] at hc
          by_cases hlt : rt.sumLtOne rv = true
          · simp only [hlt, Bool.not_true, Bool.false_eq_true, if_false, Option.some.injEq, Prod.mk.injEq] at hc
            obtain ⟨rfl, rfl, rfl⟩ := hc
            have hlt' : rt.p * rv.q + rv.p * rt.q < (rt.q : Int) * rv.q := by simpa [Ratio.sumLtOne] using hlt
            have hsum := floor_sum_le n rt rv hqt hqv (Int.le_of_lt hpt') (Int.le_of_lt hpv') (Int.le_of_lt hlt')
            simp only [if_true]
            refine ⟨?_, k0, k1, k2, hsum⟩
            omega
          · simp [hlt] at hc
        | false =>
          simp only [Bool.false_eq_true, if_false] at hc
          by_cases heq : rt.sumEqOne rv = true
          · simp only [heq, Bool.not_true, Bool.false_eq_true, if_false, Option.some.injEq, Prod.mk.injEq] at hc
            obtain ⟨rfl, rfl, rfl⟩ := hc
            have heq' : rt.p * rv.q + rv.p * rt.q = (rt.q : Int) * rv.q := by simpa [Ratio.sumEqOne] using heq
            have hsum := floor_sum_le n rt rv hqt hqv (Int.le_of_lt hpt') (Int.le_of_lt hpv') (Int.le_of_eq heq')
            simp only [Bool.false_eq_true, if_false]
            refine ⟨?_, k0, k1, k2, ?_⟩
            · omega
            · omega
          · simp [heq] at hc
      · simp [hpt, hpv] at hc
    · simp [hpt] at hc

/-- **split_rejects.**  The generator raises exactly when a ratio is not positive, or — with a test
    split — the ratios do not leave room (`train + val < 1` fails), or — without — they do not
    exactly fill the whole (`train + val = 1` fails). -/
theorem split_rejects {σ : Type} (R : Rng σ) (g : σ) (n seed : Nat) (rt rv : Ratio) (it : Bool) :
    generate R g n seed rt rv it = none ↔
      (¬ 0 < rt.p ∨ ¬ 0 < rv.p ∨
       (it = true ∧ ¬ rt.p * rv.q + rv.p * rt.q < (rt.q : Int) * rv.q) ∨
       (it = false ∧ ¬ rt.p * rv.q + rv.p * rt.q = (rt.q : Int) * rv.q)) := by
  unfold generate counts Ratio.pos Ratio.sumLtOne Ratio.sumEqOne
  by_cases h1 : 0 < rt.p <;> by_cases h2 : 0 < rv.p <;> cases it <;>
    by_cases h3 : rt.p * rv.q + rv.p * rt.q < (rt.q : Int) * rv.q <;>
    by_cases h4 : rt.p * rv.q + rv.p * rt.q = (rt.q : Int) * rv.q <;>
    simp [h1, h2, h3, h4]

/-- **split_seed_only.**  The returned array (and the generator state left behind) is a function of
    `(length, seed, ratios, include_test)`: it does not depend on the prior state of the global numpy
    generator, because the state is overwritten by `seed` before the only draw. -/
theorem split_seed_only {σ : Type} (R : Rng σ) (g g' : σ) (n seed : Nat) (rt rv : Ratio) (it : Bool) :
    generate R g n seed rt rv it = generate R g' n seed rt rv it := rfl

/-- a toy generator for the examples (state = a number; an odd state reverses, an even one keeps the order) -/
def toyRng : Rng Nat :=
  { seed := fun s => s,
    shuffle := fun g n => (if g % 2 = 1 then (List.range n).reverse else List.range n, g + 1) }

-- the toy generator satisfies the hypothesis of `split_counts`
example : ∀ g n, (toyRng.shuffle g n).1.Perm (List.range n) := by
  intro g n
  show (if g % 2 = 1 then (List.range n).reverse else List.range n).Perm (List.range n)
  split
  · exact List.reverse_perm _
  · exact List.Perm.refl _

-- 10 rows, 0.7 / 0.15 with a test split: 7 train, ⌊1.5⌋ = 1 val, 2 test (seed 3 reverses; the prior state 99 is irrelevant).
example : (generate toyRng 99 10 3 ⟨7, 10⟩ ⟨3, 20⟩ true).map (·.1) = some [2, 2, 1, 0, 0, 0, 0, 0, 0, 0] := by
  decide
-- 0.7 / 0.3 without a test split: 7 train, 3 val;  0.7 / 0.2 without: rejected;  0.8 / 0.2 with: rejected.
example : ((generate toyRng 0 10 0 ⟨7, 10⟩ ⟨3, 10⟩ false).map (·.1)) = some [0, 0, 0, 0, 0, 0, 0, 1, 1, 1] ∧
    generate toyRng 0 10 0 ⟨7, 10⟩ ⟨1, 5⟩ false = none ∧ generate toyRng 0 10 0 ⟨4, 5⟩ ⟨1, 5⟩ true = none ∧
    generate toyRng 0 10 0 ⟨0, 5⟩ ⟨1, 5⟩ true = none := by decide

end TFVerif.C09

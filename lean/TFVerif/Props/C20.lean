/-
C20 — GBDT adapters preserve the table; metrics and guards follow their definitions.

Conversion theorems hold for every well-formed frame (any number of rows and columns, any subset of
{categorical, numerical, embedding}, any payload type, any further ignored stypes); metric theorems
for all vectors over an arbitrary linearly ordered field (the square root is a parameter with its
defining property); the table theorems are `decide`d over the complete finite domain and tied to the
live code by the generated tables `TFVerif/Gen/GBDT.lean`.  Helper lemmas: `TFVerif/Proofs/GBDT.lean`.
-/
import TFVerif.Proofs.GBDT
import TFVerif.Gen.GBDT
import Mathlib.Algebra.Order.Field.Rat

namespace TFVerif.C20
open TFVerif.GBDT

set_option linter.unusedSectionVars false
set_option linter.unusedVariables false

/-! ## the tables (generated from the live code = hand-written model) -/

theorem gen_eq_model_taskTypes : Gen.GBDT.taskTypes = TaskType.all.map TaskType.name := by decide
theorem gen_eq_model_metrics : Gen.GBDT.metrics = Metric.all.map Metric.name := by decide
theorem gen_eq_model_supported : Gen.GBDT.supported = supportedTable := by decide
theorem gen_eq_model_metricOk : Gen.GBDT.metricOk = metricOkTable := by decide
theorem gen_eq_model_defaultMetric : Gen.GBDT.defaultMetric = defaultMetricTable := by decide
/-- constructor accept/raise (and the resulting metric) of `GBDT`, `XGBoost`, `CatBoost`, `LightGBM`
    for every (task, metric | None) pair -/
theorem gen_eq_model_ctor : Gen.GBDT.ctor = ctorTableAll := by decide

/-- the default metric follows the task type and is itself supported -/
theorem default_metric_follows_task :
    defaultMetric .regression = some .rmse ∧ defaultMetric .binary = some .rocauc ∧
    defaultMetric .multiclass = some .accuracy ∧
    ∀ t d, defaultMetric t = some d → metricOk t d = true := by
  refine ⟨rfl, rfl, rfl, ?_⟩
  intro t d h
  cases t <;> simp [defaultMetric] at h <;> subst h <;> decide

example : defaultMetric .multilabel = none ∧ ctorMetric .multilabel none = none := by decide

/-- metric selection of the constructor: no metric ⇒ the default; a supported metric ⇒ that metric;
    an unsupported (task, metric) pair ⇒ rejected -/
theorem ctor_selects_metric (t : TaskType) (m : Metric) :
    ctorMetric t none = defaultMetric t ∧
    (metricOk t m = true → ctorMetric t (some m) = some m) ∧
    (metricOk t m = false → ctorMetric t (some m) = none) := by
  cases t <;> cases m <;> decide

example : metricOk .regression .mae = true ∧ metricOk .binary .rmse = false ∧
    ctorMetric .regression (some .mae) = some .mae ∧ ctorMetric .binary (some .rmse) = none := by decide

/-! ## conversion -/

section conversion
variable {α γ : Type} [Inhabited α]

/-- Every value keeps its position: the converted matrix has the frame's rows in order (any number
    of rows, zero included: then the matrix has no rows and `flags` still gives its width), each of
    width `cat + num + emb`, and entry `(r, k)` is the source cell determined by `k`'s segment —
    categorical column `k` (missing `-1` turned into NaN only for XGBoost), numerical column
    `k − cat`, or position `k − cat − num` of the stored embedding row. -/
theorem layout_positions {lib : Lib} {f : Frame α γ} {c : Converted α γ} (hf : f.WF)
    (h : convert lib f = some c) :
    c.rows.length = f.numRows ∧
    ∀ r, r < f.numRows →
      (c.rows.getD r []).length = f.totalW ∧
      ∀ k, k < f.totalW → (c.rows.getD r [])[k]? = some (sourceCell lib f r k) := by
  obtain ⟨_, hrows, _, _, _⟩ := convert_some h
  rw [hrows]
  refine ⟨by simp [hcat], ?_⟩
  intro r hr
  have e0 : (hcat f.numRows (blocks lib f)).getD r []
      = ((blocks lib f).map fun b => b.rows.getD r []).flatten := by
    unfold hcat; rw [getD_build _ _ hr]
  have e := hrow_eq lib f r
  have l1 := catPart_length hf hr
  have l2 := numPart_length hf hr
  have l3 := embPart_length hf hr
  rw [e0, e]
  obtain ⟨t1, t2⟩ := three_part _ _ _ ((List.length_map _).trans l1) ((List.length_map _).trans l2)
    ((List.length_map _).trans l3)
  refine ⟨t1, ?_⟩
  intro k hk
  rw [t2 k hk]
  unfold sourceCell
  unfold Frame.totalW at hk
  by_cases h1 : k < f.catW
  · rw [if_pos h1, if_pos h1, getElem?_map_of_lt _ _ 0 (by rw [l1]; exact h1)]
  · rw [if_neg h1, if_neg h1]
    by_cases h2 : k < f.catW + f.numW
    · rw [if_pos h2, if_pos h2, getElem?_map_of_lt _ _ default (by rw [l2]; omega)]
    · rw [if_neg h2, if_neg h2, getElem?_map_of_lt _ _ default (by rw [l3]; omega)]

/-- a concrete well-formed frame with all three blocks, a missing category and a NaN-free payload -/
def exFrame : Frame Nat Nat :=
  { numRows := 2, cat := some [[0, -1], [2, 1]], catNames := 2, num := some [[10], [11]], numNames := 1,
    emb := some ⟨[[20, 21, 22], [30, 31, 32]], [0, 1, 3]⟩, other := 1, y := some [7, 8] }

example : exFrame.WF := by
  constructor <;> intro x hx <;> simp [exFrame] at hx <;> subst hx <;> simp [exFrame, Emb.width]

example : (convert .xgboost exFrame).map (·.rows) = some
    [[.cat 0, .nan, .val 10, .val 20, .val 21, .val 22], [.cat 2, .cat 1, .val 11, .val 30, .val 31, .val 32]] ∧
    (convert .lightgbm exFrame).map (·.rows) = some
    [[.cat 0, .cat (-1), .val 10, .val 20, .val 21, .val 22], [.cat 2, .cat 1, .val 11, .val 30, .val 31, .val 32]] := by
  decide

/-- Missing categories (`-1`) become NaN for XGBoost and only there; CatBoost and LightGBM keep
    every category index, `-1` included. -/
theorem neg_to_nan_only_xgboost (lib : Lib) (i : Int) :
    (catCell (α := α) lib i = .nan ↔ lib = .xgboost ∧ i = -1) ∧
    (lib ≠ .xgboost → catCell (α := α) lib i = .cat i) ∧
    (i ≠ -1 → catCell (α := α) lib i = .cat i) := by
  refine ⟨?_, fun h => catCell_other h i, fun h => by simp [catCell, h]⟩
  unfold catCell
  constructor
  · intro h; split at h
    · assumption
    · cases h
  · intro h; rw [if_pos h]

/-- … and the code's conditional cast-and-overwrite `neg_to_nan` is exactly that pointwise map. -/
theorem neg_to_nan_pointwise (x : List (List Int)) :
    negToNan (α := α) x = x.map fun row => row.map (catCell .xgboost) :=
  negToNan_pointwise x

example : negToNan (α := Nat) [[0, -1], [2, 1]] = [[.cat 0, .nan], [.cat 2, .cat 1]] ∧
    negToNan (α := Nat) [[0, 3]] = [[.cat 0, .cat 3]] := by decide

/-- Embedding columns are flattened in column order: a stored embedding row (which the adapters
    copy position by position, see `layout_positions`) is the concatenation of the per-column
    embedding vectors `cell r 0 ++ cell r 1 ++ …`, for offsets that start at 0 and do not decrease. -/
theorem embedding_flattened_in_column_order (e : Emb α) (r : Nat)
    (h0 : e.offset.getD 0 0 = 0)
    (hmono : ∀ c, c < e.offset.length - 1 → e.offset.getD c 0 ≤ e.offset.getD (c + 1) 0)
    (hrow : (e.values.getD r []).length = e.width) :
    ((List.range (e.offset.length - 1)).map (e.cell r)).flatten = e.values.getD r [] := by
  have := flatten_slices (e.values.getD r []) (fun c => e.offset.getD c 0) (e.offset.length - 1) h0 hmono
  unfold Emb.cell
  rw [this]
  apply List.take_of_length_le
  rw [hrow]; exact Nat.le_refl _

example : ((List.range 2).map ((⟨[[20, 21, 22]], [0, 1, 3]⟩ : Emb Nat).cell 0)) = [[20], [21, 22]] := by decide

/-- Categorical flags: exactly the first `cat` output columns are flagged categorical — XGBoost's
    `feature_types` are `'c'` there and `'q'` elsewhere, CatBoost / LightGBM's `cat_features` are
    the indexes `0 … cat−1` — and the two descriptions agree. -/
theorem flags {lib : Lib} {f : Frame α γ} {c : Converted α γ} (h : convert lib f = some c) :
    c.types = List.replicate f.catW true ++ List.replicate (f.numW + f.embW) false ∧
    c.types.length = f.totalW ∧
    c.catIdx = List.range f.catW ∧
    ∀ k, k < f.totalW → (c.types[k]? = some true ↔ k ∈ c.catIdx) := by
  obtain ⟨_, _, ht, hi, _⟩ := convert_some h
  rw [ht, hi, featureTypes_blocks, catFeatures_blocks]
  refine ⟨rfl, by simp [Frame.totalW]; omega, rfl, ?_⟩
  intro k hk
  unfold Frame.totalW at hk
  by_cases h1 : k < f.catW
  · rw [List.getElem?_append_left (by simpa using h1)]
    simp [h1]
  · rw [List.getElem?_append_right (by simpa using Nat.le_of_not_lt h1), List.getElem?_replicate]
    constructor
    · intro h; split at h <;> simp at h
    · intro h; exact absurd (List.mem_range.mp h) h1

example : (convert .catboost exFrame).map (fun c => (c.types, c.catIdx))
    = some ([true, true, false, false, false, false], [0, 1]) := by decide

/-- The target is passed through unchanged (also when absent). -/
theorem target_passthrough {lib : Lib} {f : Frame α γ} {c : Converted α γ}
    (h : convert lib f = some c) : c.y = f.y :=
  (convert_some h).2.2.2.2

example : (convert .xgboost exFrame).map (·.y) = some (some [7, 8]) := by decide

/-- A frame is rejected exactly when it has none of the three stypes, whatever else it contains
    and however many rows it has (zero included). -/
theorem rejects_empty_frame (lib : Lib) (f : Frame α γ) :
    convert lib f = none ↔ f.cat = none ∧ f.num = none ∧ f.emb = none := by
  rw [← blocks_eq_nil lib f]
  unfold convert
  simp only
  constructor
  · intro h
    split at h
    · rename_i he; simpa using he
    · simp at h
  · intro h; simp [h]

example : convert .xgboost ({ exFrame with cat := none, num := none, emb := none, other := 3 } : Frame Nat Nat)
      = none ∧
    (convert .xgboost ({ exFrame with cat := none, emb := none } : Frame Nat Nat)).isSome = true := by decide

/-- the zero-row slice of `exFrame`: converts to a `[0, 6]` matrix with the same flags -/
def exZero : Frame Nat Nat :=
  { exFrame with
    numRows := 0, cat := some [], num := some [], emb := some ⟨[], [0, 1, 3]⟩, y := none }

example : exZero.WF ∧ exZero.totalW = 6 := by
  refine ⟨?_, by decide⟩
  constructor <;> intro x hx <;> simp [exZero, exFrame] at hx <;> subst hx <;> simp [exZero, exFrame]

example : (convert .catboost exZero).map (fun c => (c.rows, c.types, c.catIdx))
    = some ([], [true, true, false, false, false, false], [0, 1]) := by decide

end conversion

/-! ## metrics -/

section metrics
variable {R : Type} [Field R] [LinearOrder R] [IsStrictOrderedRing R]

/-- RMSE: for any square-root function with the defining property, the score is the non-negative
    number whose square is the mean squared error. -/
theorem rmse_def (sqrt : R → R) (hs : ∀ x, 0 ≤ x → 0 ≤ sqrt x ∧ sqrt x * sqrt x = x)
    (pred target : List R) (hlen : pred.length = target.length) (hn : 0 < target.length) :
    rmse (fieldMOps sqrt) pred target * rmse (fieldMOps sqrt) pred target
        = (List.zipWith (fun p t => (p - t) ^ 2) pred target).sum / (target.length : R)
    ∧ 0 ≤ rmse (fieldMOps sqrt) pred target := by
  have hmse : 0 ≤ (List.zipWith (fun p t => (p - t) ^ 2) pred target).sum / (target.length : R) := by
    apply div_nonneg
    · apply sum_nonneg_of
      intro v hv
      obtain ⟨a, b, rfl⟩ := mem_zipWith hv
      positivity
    · positivity
  have e : rmse (fieldMOps sqrt) pred target
      = sqrt ((List.zipWith (fun p t => (p - t) ^ 2) pred target).sum / (target.length : R)) := by
    unfold rmse
    rw [mean_eq]
    have : (List.zipWith (fun p t => (fieldMOps sqrt).mul ((fieldMOps sqrt).sub p t)
        ((fieldMOps sqrt).sub p t)) pred target) = List.zipWith (fun p t => (p - t) ^ 2) pred target := by
      congr 1; funext p t; simp [fieldMOps, sq]
    rw [this]
    simp [List.length_zipWith, hlen]
    rfl
  rw [e]
  exact ⟨(hs _ hmse).2, (hs _ hmse).1⟩

example : (List.zipWith (fun p t => (p - t) ^ 2) [1, 5] [4, 1] : List ℚ).sum / 2 = 25 / 2 := by norm_num

/-- MAE is the mean absolute error (and is non-negative). -/
theorem mae_def (sqrt : R → R) (pred target : List R) (hlen : pred.length = target.length)
    (hn : 0 < target.length) :
    mae (fieldMOps sqrt) pred target
        = (List.zipWith (fun p t => |p - t|) pred target).sum / (target.length : R)
    ∧ 0 ≤ mae (fieldMOps sqrt) pred target := by
  have e : mae (fieldMOps sqrt) pred target
      = (List.zipWith (fun p t => |p - t|) pred target).sum / (target.length : R) := by
    unfold mae
    rw [mean_eq]
    have : (List.zipWith (fun p t => (fieldMOps sqrt).abs ((fieldMOps sqrt).sub p t)) pred target)
        = List.zipWith (fun p t => |p - t|) pred target := rfl
    rw [this]
    simp [List.length_zipWith, hlen]
  refine ⟨e, ?_⟩
  rw [e]
  apply div_nonneg
  · apply sum_nonneg_of
    intro v hv
    obtain ⟨a, b, rfl⟩ := mem_zipWith hv
    exact abs_nonneg _
  · positivity

example : mae (fieldMOps (fun x : ℚ => x)) [1, 5] [4, 1] = 7 / 2 := by
  rw [(mae_def (fun x : ℚ => x) [1, 5] [4, 1] rfl (by decide)).1]; norm_num

/-- Accuracy is (number of positions where the target equals the prediction) / n, the prediction of
    a binary task being `1` exactly when the score is strictly greater than 0.5; it lies in [0,1];
    empty vectors raise. -/
theorem accuracy_def (sqrt : R → R) (binary : Bool) (pred target : List R) :
    (target.length = 0 → accuracy (fieldMOps sqrt) binary pred target = none) ∧
    (0 < target.length →
      ∃ s, accuracy (fieldMOps sqrt) binary pred target = some s ∧
        s = ((pred.zip target).countP fun pt =>
              decide (pt.2 = if binary then (if (1 : R) / 2 < pt.1 then 1 else 0) else pt.1) : Nat)
            / (target.length : R) ∧
        0 ≤ s ∧ s ≤ 1) := by
  constructor
  · intro h; simp [accuracy, h]
  · intro hn
    have hpos : (0 : R) < (target.length : R) := by exact_mod_cast hn
    refine ⟨((correct (fieldMOps sqrt) binary pred target : Nat) : R) / (target.length : R), ?_, ?_, ?_, ?_⟩
    · simp [accuracy, Nat.ne_of_gt hn]; rfl
    · rw [correct_eq]
    · exact div_nonneg (Nat.cast_nonneg _) hpos.le
    · apply (div_le_one hpos).2
      have := correct_le sqrt binary pred target
      exact_mod_cast this

/-- the threshold is strict: a score of exactly 0.5 is predicted as class 0 -/
example : accuracy (fieldMOps (fun x : ℚ => x)) true [1/2, 3/4, 1/4, 1] [0, 1, 1, 1] = some (3 / 4) ∧
    accuracy (fieldMOps (fun x : ℚ => x)) false [2, 1, 0] [2, 0, 0] = some (2 / 3) := by
  decide +kernel

/-- `compute_metric` dispatches on the object's metric; only a binary task thresholds. -/
theorem compute_metric_dispatch (sqrt : R → R) (t : TaskType) (target pred : List R)
    (hlen : pred.length = target.length) :
    computeMetric (fieldMOps sqrt) t .rmse target pred = .ok (rmse (fieldMOps sqrt) pred target) ∧
    computeMetric (fieldMOps sqrt) t .mae target pred = .ok (mae (fieldMOps sqrt) pred target) ∧
    (0 < target.length → ∃ s, computeMetric (fieldMOps sqrt) t .accuracy target pred = .ok s ∧
        accuracy (fieldMOps sqrt) (t == .binary) pred target = some s) := by
  refine ⟨by simp [computeMetric, hlen], by simp [computeMetric, hlen], ?_⟩
  intro hn
  obtain ⟨s, hs, _⟩ := (accuracy_def sqrt (t == .binary) pred target).2 hn
  exact ⟨s, by simp [computeMetric, hlen, hs], hs⟩

end metrics

/-! ## guards -/

/-- `predict` and `save` on an object that has never been fitted raise; more generally, in any
    history of calls the flag is set exactly when an earlier `tune` (with both targets present and a
    returning hook) or `load` succeeded, and `predict` / `save` return exactly when the flag is set. -/
theorem guards (pre post : List Op) (op : Op) :
    (runOps false (pre ++ op :: post)).1.getD pre.length true = (step (pre.any Op.fits) op).1 ∧
    (op = .predict ∨ op = .save → (step (pre.any Op.fits) op).1 = pre.any Op.fits) ∧
    (step false .predict).1 = false ∧ (step false .save).1 = false := by
  refine ⟨?_, ?_, rfl, rfl⟩
  · rw [runOps_append]
    simp only [runOps]
    rw [List.getD_eq_getElem?_getD, List.getElem?_append_right (by simp [runOps_length])]
    simp [runOps_length, runOps_flag]
  · rintro (rfl | rfl) <;> rfl

example : (runOps false [.predict, .tune true false true, .save, .tune true true true, .predict, .save]).1
    = [false, false, false, true, true, true] := by decide

end TFVerif.C20

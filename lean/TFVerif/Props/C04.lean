/-
C04 — train / inference consistency of the DataFrame-to-TensorFrame converter.
Property theorems only (helper lemmas live in TFVerif/Proofs/{Mapper,Convert,ConvertC02,ConvertC04}.lean).

Model: TFVerif/Model/Convert.lean.  The converter is a STATE MACHINE: `Conv.call` builds every mapper from the
fitted `col_stats` held by the converter (never from the frame it converts), assembles the per-stype features and
then runs `_merge_feat`, which rewrites the converter's OWN name table; `call` therefore returns the frame and the
converter's next state (`Conv.merged`), `Conv.run` threads the state through any number of calls.
`Dataset.materialize` = fit the statistics, build a fresh converter, call it once on the dataset's own frame.
-/
import TFVerif.Proofs.ConvertC04

namespace TFVerif.C04
open TFVerif.Mat

/-! ### example data of the non-vacuity checks -/

def exVc : String → List Key → List Key := fun _ obs => obs.eraseDups

def exEmb : String → String → List (Val Nat) := fun _ s => if s = "hi" then [.flt 1, .flt 1] else [.flt 0, .flt 2]

/-- the dataset's frame: a non-default index, every storage kind, a child stype that `_merge_feat` moves -/
def exDF : DF Nat Nat :=
  { labels := [10, 11, 12]
    cols :=
    [ { name := "b", stype := .numerical, cells := [.num 1, .missing, .num 3] },
      { name := "a", stype := .categorical, cells := [.cat (.str "x"), .cat (.str "y"), .cat (.str "x")] },
      { name := "m", stype := .multicategorical, cells := [.toks [.str "p", .str "q"], .missing, .toks [.str "q"]] },
      { name := "t", stype := .text_embedded, cells := [.text "hi", .text "yo", .text ""] },
      { name := "e", stype := .embedding, cells := [.vec [.flt 1, .flt 2], .missing, .vec [.flt 3, .flt 4]] },
      { name := "y", stype := .categorical, cells := [.cat (.str "u"), .cat (.str "v"), .cat (.str "u")] } ] }

/-- an inference-time frame: unseen category, unseen tokens, an all-missing embedding column, no target column -/
def exNew : DF Nat Nat :=
  { labels := [0, 0]
    cols :=
    [ { name := "b", stype := .numerical, cells := [.num 8, .num 9] },
      { name := "a", stype := .categorical, cells := [.cat (.str "never-seen"), .cat (.str "y")] },
      { name := "m", stype := .multicategorical, cells := [.toks [.str "unseen", .str "q"], .toks [.str "unseen"]] },
      { name := "t", stype := .text_embedded, cells := [.text "yo", .text "hi"] },
      { name := "e", stype := .embedding, cells := [.missing, .missing] } ] }

def exCv : Conv Nat := fitConv exVc (some "y") exEmb exDF

private theorem exDF_ok : ConvFrameOK exCv exDF := convFrameOK_of_check _ _ (by decide)

private theorem exNew_ok : ConvFrameOK exCv exNew := convFrameOK_of_check _ _ (by decide)

/-! ### row locality -/

/-- **Row locality of a converter call** (any converter state, any frame of the typed domain — the dataset's own
    or a new one).  For every non-empty index list `idx` into the frame (repeats, any order, singletons),
    converting `df.iloc[idx]` succeeds, leaves the converter in the same state as converting `df`, and returns
    under the same `col_names_dict` a frame of `len(idx)` rows whose entry for row `k` of every feature column and
    of `y` is the entry for row `idx[k]` of the conversion of `df`.  The mappers come from the converter's fitted
    statistics only: the frame being converted contributes nothing but its cells. -/
theorem convert_rows_any {L F : Type} (cv : Conv F) (df : DF L F) (n : Nat) (hok : CallOK cv df n) (idx : List Nat)
    (hne : idx ≠ []) (hidx : ∀ i ∈ idx, i < n) :
    ∃ tf tf' cv1, cv.call df = some (tf, cv1) ∧ cv.call (df.rows idx) = some (tf', cv1) ∧
      tf'.names = tf.names ∧ tf'.numRows = idx.length ∧
      (∀ name, (∃ g ∈ cv.names, name ∈ g.2) → ∀ k (hk : k < idx.length), tf'.cell name k = tf.cell name idx[k]) ∧
      (∀ k (hk : k < idx.length), tf'.yCell k = tf.yCell idx[k]) :=
  call_rows cv df n hok idx hne hidx

example : CallOK exCv exNew exNew.numRows ∧ ([1, 1, 0] : List Nat) ≠ [] ∧ (∀ i ∈ ([1, 1, 0] : List Nat), i < exNew.numRows) ∧
    (exCv.call (exNew.rows [1, 1, 0])).map (fun r => (r.1.cell "a" 2, r.1.cell "m" 0, r.1.cell "e" 1)) =
      some (some [.int (-1)], some [], some [.nan, .nan]) :=
  ⟨callOK_fresh _ _ rfl exNew_ok, by decide, by decide, by decide⟩

/-- **The dataset's converter on any selection of the dataset's rows.**  After `materialize()`, for every non-empty
    index list `idx` (repeats, any order, singletons) `convert_to_tensor_frame(df.iloc[idx])` succeeds, leaves the
    converter unchanged, and gives exactly the rows `idx` of the dataset's TensorFrame: same `col_names_dict`,
    `len(idx)` rows, entry `k` of every feature column = entry `idx[k]` of `tensor_frame` = the canonical encoding
    of the raw cell `df.iloc[idx[k]][c]` under the FITTED statistics, and `y[k] = tensor_frame.y[idx[k]]`. -/
theorem convert_rows {L F : Type} (vc : String → List Key → List Key) (target : Option String)
    (embedders : String → String → List (Val F)) (df : DF L F)
    (hok : ConvFrameOK (fitConv vc target embedders df) df) (idx : List Nat) (hne : idx ≠ [])
    (hidx : ∀ i ∈ idx, i < df.numRows) :
    ∃ m tf', materialize vc target embedders df = some m ∧
      m.conv.call (df.rows idx) = some (tf', m.conv) ∧
      tf'.names = m.tf.names ∧ tf'.numRows = idx.length ∧
      (∀ c ∈ df.cols, some c.name ≠ target → ∀ k (hk : k < idx.length),
        tf'.cell c.name k = m.tf.cell c.name idx[k] ∧
        tf'.cell c.name k =
          some (encodeCell ((fitConv vc target embedders df).cfg c.name) c.stype (c.cells.getD idx[k] .missing))) ∧
      (∀ k (hk : k < idx.length), tf'.yCell k = m.tf.yCell idx[k]) := by
  set cv := fitConv vc target embedders df with hcv
  have hnd : (df.cols.map (·.name)).Nodup := by
    have := hok.c2s_nodup
    rwa [show cv.colToStype = df.colToStype from rfl, colToStype_names] at this
  have hcall := callOK_fresh cv df rfl hok
  have hm := callOK_merged cv df df.numRows hcall
  obtain ⟨tf, tf', cv1, h1, h2, hN, hR, hC, hY⟩ := call_rows cv.merged df df.numRows hm idx hne hidx
  rw [call_merged cv df _ hcall, call_first cv df hcall] at h1
  simp only [Option.some.injEq, Prod.mk.injEq] at h1
  obtain ⟨e1, e2⟩ := h1
  subst e1 e2
  refine ⟨_, tf', (materializeWith_supplied vc target embedders df hok).1, h2, hN, hR, ?_, hY⟩
  intro c hc ht k hk
  have hl := listed cv df rfl rfl c hc ht
  have hl' : ∃ g ∈ cv.merged.names, c.name ∈ g.2 := by
    obtain ⟨g, hg, hcg⟩ := hl
    exact mergeNames_keeps cv.names hcall.keys g hg c.name hcg
  have hik : idx[k] < df.numRows := hidx _ (List.getElem_mem hk)
  refine ⟨hC c.name hl' k hk, ?_⟩
  rw [hC c.name hl' k hk]
  obtain ⟨tf0, cv0, hc0, _, _, hcell⟩ := call_cell cv df df.numRows hcall c.name hl idx[k] hik
  rw [call_first cv df hcall] at hc0
  simp only [Option.some.injEq, Prod.mk.injEq] at hc0
  rw [hc0.1, hcell, specCol_col cv df rfl c hc hnd]
  have hlen : c.cells.length = df.numRows := by
    obtain ⟨col, hcol, hl2, _⟩ := hok.cols (c.name, c.stype) (List.mem_map.mpr ⟨c, hc, rfl⟩) ht
    rw [find_col df c hc hnd] at hcol
    simp only [Option.some.injEq] at hcol
    rw [hcol]; exact hl2
  have hi' : idx[k] < c.cells.length := by omega
  simp [List.getD_eq_getElem?_getD, List.getElem?_map, List.getElem?_eq_getElem hi']

example : ConvFrameOK (fitConv exVc (some "y") exEmb exDF) exDF ∧ (∀ i ∈ ([2, 0, 2, 2] : List Nat), i < exDF.numRows) ∧
    ((materialize exVc (some "y") exEmb exDF).bind fun m => (m.conv.call (exDF.rows [2, 0, 2, 2])).map fun r =>
      (r.1.numRows, r.1.cell "m" 1, r.1.cell "m" 2)) = some (4, some [.int 0, .int 1], some [.int 1]) ∧
    ((materialize exVc (some "y") exEmb exDF).bind fun m => (m.conv.call (exDF.rows [2, 0, 2, 2])).map fun r =>
      (r.1.yCell 1, r.1.yCell 3)) = some (some [.int 0], some [.int 0]) :=
  ⟨exDF_ok, by decide, by decide, by decide⟩

/-! ### repeated calls -/

/-- **Idempotence of the converter's state.**  For a fresh converter and ANY sequence `prior` of earlier calls
    (each on a frame of the typed domain; possibly none), the call on `df` that follows returns exactly the frame
    a very first call on `df` returns and leaves the converter in the same state; running `prior ++ [df]` succeeds;
    and that state's name table is a fixed point of `_merge_feat` (`merge ∘ merge = merge`) — child names are
    never appended twice. -/
theorem convert_idempotent {L F : Type} (cv : Conv F) (hfresh : cv.names = colNamesDict cv.colToStype cv.target)
    (prior : List (DF L F)) (df : DF L F) (hprior : ∀ d ∈ prior, ConvFrameOK cv d) (hdf : ConvFrameOK cv df) :
    ∃ tfs cvk tf, cv.run prior = some (tfs, cvk) ∧ tfs.length = prior.length ∧
      cv.call df = some (tf, cv.merged) ∧
      cvk.call df = some (tf, cv.merged) ∧
      cv.run (prior ++ [df]) = some (tfs ++ [tf], cv.merged) ∧
      (prior ≠ [] → cvk = cv.merged) ∧
      mergeNames cv.merged.names = cv.merged.names := by
  have hp : ∀ d ∈ prior, CallOK cv d d.numRows := fun d hd => callOK_fresh cv d hfresh (hprior d hd)
  have hd := callOK_fresh cv df hfresh hdf
  have hall : ∀ d ∈ prior ++ [df], CallOK cv d d.numRows := by
    intro d hm
    rcases List.mem_append.mp hm with h | h
    · exact hp d h
    · simp only [List.mem_singleton] at h; subst h; exact hd
  refine ⟨_, _, firstOut cv df, run_spec cv prior hp, by simp, call_first cv df hd, ?_, ?_, ?_, mergeNames_idem _⟩
  · by_cases he : prior = []
    · simp only [he, if_true]; exact call_first cv df hd
    · simp only [he, if_false]; rw [call_merged cv df _ hd]; exact call_first cv df hd
  · rw [run_spec cv _ hall]; simp
  · intro he; simp [he]

example : exCv.names = colNamesDict exCv.colToStype exCv.target ∧
    (∀ d ∈ [exNew, exDF, exNew.rows [1]], ConvFrameOK exCv d) ∧ ConvFrameOK exCv exNew ∧
    exCv.names ≠ exCv.merged.names ∧
    (exCv.run [exNew, exDF, exNew.rows [1], exNew]).map (fun r => (r.1.map (·.names), r.2.names)) =
      some (List.replicate 4 exCv.merged.names, exCv.merged.names) := by
  refine ⟨rfl, ?_, exNew_ok, by decide, by decide⟩
  intro d hd
  simp only [List.mem_cons, List.not_mem_nil, or_false] at hd
  rcases hd with rfl | rfl | rfl
  · exact exNew_ok
  · exact exDF_ok
  · exact convFrameOK_of_check _ _ (by decide)

/-! ### values never seen at materialization -/

/-- **An unseen categorical value is encoded as missing** (−1), at the level of the specification, of the mapper
    (`CategoricalTensorMapper.forward`, any labels) and of the returned frame; −1 is no category's index, so it
    never aliases an existing category; and the call does not raise. -/
theorem unseen_category {L F : Type} (cv : Conv F) (df : DF L F) (n : Nat) (hok : CallOK cv df n) (name : String)
    (hl : ∃ g ∈ cv.names, name ∈ g.2) (hst : cv.stypeOf name = .categorical) (col : Col F)
    (hcol : df.col? name = some col) (i : Nat) (hi : i < n) (k : Key) (hk : col.cells[i]? = some (.cat k))
    (hun : k ∉ (cv.cfg name).cats) :
    encodeCell (cv.cfg name) .categorical (.cat k : Cell F) = [.int (-1)] ∧
    (∀ j : Nat, encodeCell (cv.cfg name) .categorical (.cat k : Cell F) ≠ [.int j]) ∧
    (categoricalForward (cv.cfg name).cats df.labels col.cells)[i]? = some [.int (-1)] ∧
    ∃ tf cv', cv.call df = some (tf, cv') ∧ tf.cell name i = some [.int (-1)] := by
  have henc : encodeCell (cv.cfg name) .categorical (.cat k : Cell F) = [.int (-1)] := by
    simp [encodeCell, catPos_none_of_not_mem _ _ hun]
  obtain ⟨g, hg, hcg⟩ := hl
  obtain ⟨col', hcol', hlen, _⟩ := hok.cols g hg name hcg
  rw [hcol] at hcol'
  cases hcol'
  refine ⟨henc, ?_, ?_, ?_⟩
  · intro j
    rw [henc]
    intro e
    simp only [List.cons.injEq, Val.int.injEq, and_true] at e
    omega
  · rw [categoricalForward_eq (cv.cfg name) df.labels col.cells (by rw [hok.labels, hlen])]
    simp [List.getElem?_map, hk, henc]
  · obtain ⟨tf, cv', hc, _, _, hcell⟩ := call_cell cv df n hok name ⟨g, hg, hcg⟩ i hi
    refine ⟨tf, cv', hc, ?_⟩
    rw [hcell]
    simp [specCol, hcol, hst, List.getD_eq_getElem?_getD, List.getElem?_map, hk, henc]

example : CallOK exCv exNew exNew.numRows ∧ exCv.stypeOf "a" = .categorical ∧
    (exNew.col? "a").map (·.cells[0]?) = some (some (.cat (.str "never-seen"))) ∧
    Key.str "never-seen" ∉ (exCv.cfg "a").cats ∧ (exCv.cfg "a").cats = [.str "x", .str "y"] :=
  ⟨callOK_fresh _ _ rfl exNew_ok, by decide, by decide, by decide, by decide⟩

/-- **An unseen multicategorical token is left out of the cell's set.**  The encoding of a cell equals the encoding
    of the cell with every unseen token removed (so a cell of unseen tokens only is the empty set); every stored
    entry is the position, in the fitted list, of a token that IS in the cell and IS in the list — an unseen token
    can neither raise nor alias an existing index; and the same holds for the entry read back from the frame a
    converter call returns. -/
theorem unseen_token {L F : Type} (cv : Conv F) (df : DF L F) (n : Nat) (hok : CallOK cv df n) (name : String)
    (hl : ∃ g ∈ cv.names, name ∈ g.2) (hst : cv.stypeOf name = .multicategorical) (col : Col F)
    (hcol : df.col? name = some col) (i : Nat) (hi : i < n) (ts : List Key) (hk : col.cells[i]? = some (.toks ts)) :
    encodeCell (cv.cfg name) .multicategorical (.toks ts : Cell F) =
      encodeCell (cv.cfg name) .multicategorical (.toks (ts.filter fun t => (cv.cfg name).cats.contains t)) ∧
    ((∀ t ∈ ts, t ∉ (cv.cfg name).cats) → encodeCell (cv.cfg name) .multicategorical (.toks ts : Cell F) = []) ∧
    (∀ v ∈ encodeCell (cv.cfg name) .multicategorical (.toks ts : Cell F),
      ∃ (j : Nat) (t : Key), v = .int j ∧ t ∈ ts ∧ j < (cv.cfg name).cats.length ∧ (cv.cfg name).cats[j]? = some t) ∧
    ∃ tf cv', cv.call df = some (tf, cv') ∧
      tf.cell name i = some (encodeCell (cv.cfg name) .multicategorical (.toks ts)) := by
  refine ⟨encode_multicat_drop_unseen _ ts, ?_, ?_, ?_⟩
  · intro hall
    rw [encode_multicat_drop_unseen]
    have : (ts.filter fun t => (cv.cfg name).cats.contains t) = [] := by
      rw [List.filter_eq_nil_iff]
      intro t ht
      simpa using hall t ht
    rw [this]
    rfl
  · intro v hv
    simp only [encodeCell, List.mem_filterMap, List.mem_eraseDups] at hv
    obtain ⟨t, htm, hv⟩ := hv
    cases hc : catPos (cv.cfg name).cats t with
    | none => simp [hc] at hv
    | some j =>
      have hv' : v = .int j := by simpa [hc] using hv.symm
      obtain ⟨h1, h2⟩ := catPos_some_mem _ _ _ hc
      exact ⟨j, t, hv', htm, h1, h2⟩
  · obtain ⟨tf, cv', hc, _, _, hcell⟩ := call_cell cv df n hok name hl i hi
    refine ⟨tf, cv', hc, ?_⟩
    rw [hcell]
    simp [specCol, hcol, hst, List.getD_eq_getElem?_getD, List.getElem?_map, hk]

example : CallOK exCv exNew exNew.numRows ∧ exCv.stypeOf "m" = .multicategorical ∧
    (exCv.cfg "m").cats = [.str "p", .str "q"] ∧
    (exNew.col? "m").map (·.cells[0]?) = some (some (.toks [.str "unseen", .str "q"])) ∧
    (exCv.call exNew).map (fun r => (r.1.cell "m" 0, r.1.cell "m" 1)) = some (some [.int 1], some []) :=
  ⟨callOK_fresh _ _ rfl exNew_ok, by decide, by decide, by decide, by decide⟩

/-! ### the target -/

/-- **No target column, no `y`.**  Whatever a converter call returns, its `y` is the target column through its own
    mapper: absent when the converter has no target or the frame lacks the target column.  And inside the typed
    domain dropping the target column from a frame changes nothing but `y`: the call still succeeds, with the same
    features, the same `col_names_dict` and the same converter state. -/
theorem no_target_no_y {L F : Type} (cv : Conv F) (df : DF L F) :
    (∀ tf cv', cv.call df = some (tf, cv') →
      (cv.target = none ∨ ∃ t, cv.target = some t ∧ df.col? t = none) → tf.y = none) ∧
    (∀ n t, CallOK cv df n → cv.target = some t → (∀ g ∈ cv.names, t ∉ g.2) →
      ∃ tf cv1 tf', cv.call df = some (tf, cv1) ∧ cv.call (df.dropCol t) = some (tf', cv1) ∧
        tf'.y = none ∧ tf'.feats = tf.feats ∧ tf'.names = tf.names) := by
  refine ⟨?_, ?_⟩
  · intro tf cv' h hc
    rw [(call_facts cv cv' df tf h).2.1]
    rcases hc with hc | ⟨t, ht, hcol⟩
    · simp [Conv.yOf, hc]
    · simp [Conv.yOf, ht, Conv.mapCol, hcol]
  · intro n t hok ht hnl
    exact call_dropTarget cv df n hok t ht hnl

example : CallOK exCv exDF exDF.numRows ∧ exCv.target = some "y" ∧ (∀ g ∈ exCv.names, "y" ∉ g.2) ∧
    (exCv.call exDF).map (fun r => r.1.y.isSome) = some true ∧
    (exCv.call (exDF.dropCol "y")).map (fun r => r.1.y.isSome) = some false ∧
    (exCv.call exNew).map (fun r => r.1.y.isSome) = some false :=
  ⟨callOK_fresh _ _ rfl exDF_ok, by decide, by decide, by decide, by decide, by decide⟩

/-! ### the dataset's own frame, supplied statistics -/

/-- **Converting the dataset's own frame reproduces the dataset's TensorFrame** — and leaves the converter as it
    is — also when the frame is handed over under any other index. -/
theorem own_frame {L L' F : Type} (vc : String → List Key → List Key) (target : Option String)
    (embedders : String → String → List (Val F)) (df : DF L F)
    (hok : ConvFrameOK (fitConv vc target embedders df) df) :
    ∃ m, materialize vc target embedders df = some m ∧ m.conv.call df = some (m.tf, m.conv) ∧
      ∀ ls : List L', ls.length = df.labels.length → m.conv.call (df.withLabels ls) = some (m.tf, m.conv) := by
  have hcall := callOK_fresh _ df rfl hok
  have hown : (fitConv vc target embedders df).merged.call df =
      some (firstOut (fitConv vc target embedders df) df, (fitConv vc target embedders df).merged) := by
    rw [call_merged _ df _ hcall]; exact call_first _ df hcall
  refine ⟨_, (materializeWith_supplied vc target embedders df hok).1, hown, ?_⟩
  intro ls hls
  rw [call_withLabels _ df ls hls]
  exact hown

example : ConvFrameOK (fitConv exVc (some "y") exEmb exDF) exDF ∧
    ((materialize exVc (some "y") exEmb exDF).bind fun m => (m.conv.call exDF).map fun r =>
      (r.1.names == m.tf.names, r.2.names == m.conv.names)) = some (true, true) ∧
    ((materialize exVc (some "y") exEmb exDF).bind fun m => (m.conv.call exDF).map fun r =>
      (r.1.cell "e" 1, m.tf.cell "e" 1)) = some (some [.nan, .nan], some [.nan, .nan]) :=
  ⟨exDF_ok, by decide, by decide⟩

/-- **Supplying previously computed statistics.**  `materialize(col_stats = the statistics of a first
    materialization)` succeeds and gives the same TensorFrame, the same statistics and the same converter table as
    `materialize()` recomputing them (`_update_col_stats` re-derives EMB_DIM from the frame's offsets, which for a
    plain embedding column is the width it was fitted with, and is idempotent). -/
theorem supplied_stats {L F : Type} (vc : String → List Key → List Key) (target : Option String)
    (embedders : String → String → List (Val F)) (df : DF L F)
    (hok : ConvFrameOK (fitConv vc target embedders df) df) :
    ∃ m m', materialize vc target embedders df = some m ∧
      materializeWith m.stats target embedders df = some m' ∧
      m'.tf = m.tf ∧ m'.stats = m.stats ∧ m'.conv.names = m.conv.names ∧ m'.conv.stats = m.stats := by
  obtain ⟨h1, h2⟩ := materializeWith_supplied vc target embedders df hok
  exact ⟨_, _, h1, h2, rfl, rfl, rfl, rfl⟩

example : ConvFrameOK (fitConv exVc (some "y") exEmb exDF) exDF ∧
    ((materialize exVc (some "y") exEmb exDF).map fun m => (m.stats.map fun p => (p.1, p.2.embDim))) =
      some [("b", -1), ("a", -1), ("m", -1), ("t", 2), ("e", 2), ("y", -1)] ∧
    ((materialize exVc (some "y") exEmb exDF).bind fun m =>
      (materializeWith m.stats (some "y") exEmb exDF).map fun m' => (m'.stats == m.stats, m'.tf.names == m.tf.names)) =
      some (true, true) := ⟨exDF_ok, by decide, by decide⟩

end TFVerif.C04

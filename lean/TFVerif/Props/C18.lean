/-
C18 — stype inference follows its decision table and ignores row order and labels.

Property theorems only; helper lemmas in `TFVerif/Proofs/InferStype.lean`, model in
`TFVerif/Model/InferStype.lean`.  All statements are for columns of arbitrary length, every environment
(`isIntegral`, `parses`, `split`) and every value type `ν` with decidable equality.
-/
import TFVerif.Proofs.InferStype

namespace TFVerif.C18
open TFVerif.Infer TFVerif.Stats List

variable {ν : Type} [DecidableEq ν]

/-- a toy environment for the closed examples: every number is integral, nothing parses as a time,
    rows are split with a lookup table -/
def env0 : Env Int :=
  { isIntegral := fun _ => true, parses := fun _ => false,
    split := fun row sep =>
      if row == "a|b" && sep == "|" then ["a", "b"] else if row == "b|c" && sep == "|" then ["b", "c"]
      else if row == "a|c" && sep == "|" then ["a", "c"] else if row == "" then [] else [row] }

def strCol (xs : List String) : Col Int := .object (xs.map fun s => some (Obj.str s))
def listCol (xs : List (List Elem)) : Col Int := .object (xs.map fun l => some (Obj.list l))

/-! ## the threshold -/

/-- the frequency rule: `_min_count(ser) > 4` holds exactly when there is a value and **every** distinct
    value occurs at least 5 times; it depends on the multiset of values only. -/
theorem min_count_rule {β : Type} [DecidableEq β] (xs : List β) :
    (minCountGt xs threshold = true ↔ xs ≠ [] ∧ ∀ x ∈ xs, 5 ≤ xs.count x) ∧
    (∀ ys, xs.Perm ys → minCountGt ys threshold = minCountGt xs threshold) :=
  ⟨by rw [minCountGt_iff]; exact Iff.rfl, fun _ h => (minCountGt_perm h threshold).symm⟩

/-- 4 vs 5: four occurrences of the rarest value are not enough, five are -/
example : minCountGt ([1, 1, 1, 1, 2, 2, 2, 2, 2] : List Int) threshold = false ∧
    minCountGt ([1, 1, 1, 1, 1, 2, 2, 2, 2, 2] : List Int) threshold = true ∧
    minCountGt ([] : List Int) threshold = false := by decide

/-! ## decision table, one lemma per family -/

/-- an all-missing (or empty) column of any dtype is skipped -/
theorem decision_all_missing (env : Env ν) :
    (∀ dt (cells : List (Option ν)), cells.filterMap id = [] → inferSeries env (.numeric dt cells) = none) ∧
    (∀ cells : List (Option Int), cells.filterMap id = [] → inferSeries env (.datetime cells) = none) ∧
    (∀ cells : List (Option Obj), cells.filterMap id = [] → inferSeries env (.object cells) = none) := by
  refine ⟨?_, ?_, ?_⟩
  · intro dt cells h; rw [inferSeries_numeric, h]; rfl
  · intro cells h; rw [inferSeries_datetime, h]; rfl
  · intro cells h
    rw [inferObject_nonlists env cells (by rw [h]; intro o ho; simp at ho), h]; rfl

example : inferSeries env0 (.numeric .float [none, none]) = none ∧ inferSeries env0 (.object []) = none := by decide

/-- float columns: numerical — unless the column has a missing cell **and** all its values are integral
    (an integer column that pandas widened to float), which then follows the integer rule. -/
theorem decision_float (env : Env ν) (cells : List (Option ν)) (hne : cells.filterMap id ≠ []) :
    ((¬ (none ∈ cells) ∨ ∃ v ∈ cells.filterMap id, env.isIntegral v = false) →
      inferSeries env (.numeric .float cells) = some .numerical) ∧
    (none ∈ cells → (∀ v ∈ cells.filterMap id, env.isIntegral v = true) →
      inferSeries env (.numeric .float cells) =
        if minCountGt (cells.filterMap id) threshold then some .categorical else some .numerical) := by
  rw [inferSeries_numeric]
  have he := isEmpty_false_of_ne hne
  generalize cells.filterMap id = ser at *
  constructor
  · intro h
    have : (cells.any Option.isNone && ser.all env.isIntegral) = false := by
      rw [Bool.and_eq_false_iff]
      rcases h with h | ⟨v, hv, hi⟩
      · left
        rw [Bool.eq_false_iff]
        intro ha; exact h ((any_isNone_iff cells).mp ha)
      · right
        rw [Bool.eq_false_iff]
        intro ha
        have := List.all_eq_true.mp ha v hv
        rw [hi] at this; cases this
    simp only [inferNumeric, he, this, Bool.false_eq_true, if_false, Bool.not_false, if_true]
  · intro hnone hint
    have h1 : cells.any Option.isNone = true := (any_isNone_iff cells).mpr hnone
    have h2 : ser.all env.isIntegral = true := List.all_eq_true.mpr hint
    simp only [inferNumeric, he, h1, h2, Bool.false_eq_true, if_false, Bool.and_self, Bool.not_true]

example : inferSeries env0 (.numeric .float (replicate 5 (some 1) ++ replicate 5 (some 2))) = some .numerical ∧
    inferSeries env0 (.numeric .float (none :: replicate 5 (some 1) ++ replicate 5 (some 2))) = some .categorical ∧
    inferSeries env0 (.numeric .float (none :: replicate 4 (some 1) ++ replicate 5 (some 2))) = some .numerical := by
  decide

/-- integer columns: categorical iff every distinct value occurs at least 5 times, otherwise numerical;
    boolean columns: categorical. -/
theorem decision_int_bool (env : Env ν) (cells : List (Option ν)) (hne : cells.filterMap id ≠ []) :
    inferSeries env (.numeric .int cells) =
      (if ∀ x ∈ cells.filterMap id, 5 ≤ (cells.filterMap id).count x then some .categorical else some .numerical) ∧
    inferSeries env (.numeric .bool cells) = some .categorical := by
  rw [inferSeries_numeric, inferSeries_numeric]
  have he := isEmpty_false_of_ne hne
  generalize cells.filterMap id = ser at *
  constructor
  · by_cases h : minCountGt ser threshold = true
    · have h' := ((min_count_rule _).1.mp h).2
      simp only [inferNumeric, he, h, Bool.false_eq_true, if_false, if_true]
      rw [if_pos h']
    · have h' : ¬ ∀ x ∈ ser, 5 ≤ ser.count x :=
        fun hh => h ((min_count_rule _).1.mpr ⟨hne, hh⟩)
      simp only [inferNumeric, he, h, Bool.false_eq_true, if_false]
      rw [if_neg h']
  · simp only [inferNumeric, he, Bool.false_eq_true, if_false]

example : inferSeries env0 (.numeric .int ((replicate 5 1 ++ replicate 5 2).map some)) = some .categorical ∧
    inferSeries env0 (.numeric .int ((replicate 4 1 ++ replicate 5 2).map some)) = some .numerical ∧
    inferSeries env0 (.numeric .bool [some 1, some 0, none]) = some .categorical := by decide

/-- datetime columns, and string columns whose values parse as dates: timestamp. -/
theorem decision_timestamp (env : Env ν) :
    (∀ cells : List (Option Int), cells.filterMap id ≠ [] → inferSeries env (.datetime cells) = some .timestamp) ∧
    (∀ cells : List (Option Obj), cells.filterMap id ≠ [] → (∀ o ∈ cells.filterMap id, o.isList = false) →
      env.parses (cells.filterMap id) = true → inferSeries env (.object cells) = some .timestamp) := by
  constructor
  · intro cells hne
    rw [inferSeries_datetime, isEmpty_false_of_ne hne]; rfl
  · intro cells hne hnl hp
    rw [inferObject_nonlists env cells hnl]
    cases h : cells.filterMap id with
    | nil => exact absurd h hne
    | cons _ _ => rw [h] at hp; simp [inferNonList, hp]

example : inferSeries { env0 with parses := fun _ => true } (strCol ["2020-01-02", "2021-03-04"]) = some .timestamp ∧
    inferSeries env0 (.datetime [some 0, none, some 86400]) = some .timestamp := by decide

/-- string columns that do not parse as dates: categorical iff every distinct string occurs at least 5 times;
    otherwise the separator search decides between multicategorical and text_embedded: multicategorical iff
    the column is not entirely blank under the first separator and, for one of the candidate separators
    `|`, `,`, every token occurs in at least 5 rows (tokens counted once per row). -/
theorem decision_strings (env : Env ν) (cells : List (Option Obj)) (hne : cells.filterMap id ≠ [])
    (hstr : ∀ o ∈ cells.filterMap id, o.isStr = true) (hp : env.parses (cells.filterMap id) = false) :
    inferSeries env (.object cells) =
      if ∀ x ∈ cells.filterMap id, 5 ≤ (cells.filterMap id).count x then some .categorical
      else if tokens env.split (strsOf (cells.filterMap id)) "|" ≠ [] ∧
          ((∀ t ∈ tokens env.split (strsOf (cells.filterMap id)) "|",
              5 ≤ (tokens env.split (strsOf (cells.filterMap id)) "|").count t) ∨
           (tokens env.split (strsOf (cells.filterMap id)) "," ≠ [] ∧
            ∀ t ∈ tokens env.split (strsOf (cells.filterMap id)) ",",
              5 ≤ (tokens env.split (strsOf (cells.filterMap id)) ",").count t))
      then some .multicategorical else some .text_embedded := by
  have hnl : ∀ o ∈ cells.filterMap id, o.isList = false := by
    intro o ho; have := hstr o ho; cases o <;> simp_all [Obj.isStr, Obj.isList]
  rw [inferObject_nonlists env cells hnl]
  generalize cells.filterMap id = ser at *
  have he := isEmpty_false_of_ne hne
  have hall : ser.all Obj.isStr = true := List.all_eq_true.mpr hstr
  unfold inferNonList
  simp only [he, hp, hall, Bool.false_eq_true, if_false, Bool.not_true]
  by_cases hc : minCountGt ser threshold = true
  · rw [if_pos hc, if_pos ((min_count_rule ser).1.mp hc).2]
  · have h' : ¬ ∀ x ∈ ser, 5 ≤ ser.count x := fun hh => hc ((min_count_rule ser).1.mpr ⟨hne, hh⟩)
    rw [if_neg hc, if_neg h']
    simp only [possibleSeps, map_cons, map_nil]
    rw [inferTokens_eq]
    generalize tokens env.split (strsOf ser) "|" = T1
    generalize tokens env.split (strsOf ser) "," = T2
    have key : (!T1.isEmpty && [T1, T2].any (fun l => minCountGt l threshold)) = true ↔
        (T1 ≠ [] ∧ ((∀ t ∈ T1, 5 ≤ T1.count t) ∨ (T2 ≠ [] ∧ ∀ t ∈ T2, 5 ≤ T2.count t))) := by
      simp only [any_cons, any_nil, Bool.or_false, Bool.and_eq_true, Bool.or_eq_true,
        (min_count_rule T1).1, (min_count_rule T2).1]
      cases T1 <;> simp
    by_cases hP : (T1 ≠ [] ∧ ((∀ t ∈ T1, 5 ≤ T1.count t) ∨ (T2 ≠ [] ∧ ∀ t ∈ T2, 5 ≤ T2.count t)))
    · rw [if_pos hP, if_pos (key.mpr hP)]
    · rw [if_neg hP, if_neg (fun h => hP (key.mp h))]

example : inferSeries env0 (strCol (replicate 5 "red" ++ replicate 5 "blue")) = some .categorical ∧
    inferSeries env0 (strCol (replicate 4 "red" ++ replicate 5 "blue")) = some .text_embedded ∧
    inferSeries env0 (strCol (replicate 3 "a|b" ++ replicate 3 "b|c" ++ replicate 3 "a|c")) = some .multicategorical ∧
    inferSeries env0 (strCol (replicate 2 "a|b" ++ replicate 2 "b|c" ++ replicate 2 "a|c")) = some .text_embedded ∧
    inferSeries env0 (strCol ["free text", "more text"]) = some .text_embedded := by decide

/-- columns of lists: all-numeric lists give embedding iff all lists are floats without NaN/inf of one common
    length, sequence_numerical otherwise; lists of strings give multicategorical; anything else is skipped.
    The code-shaped loop (flags, the first cell's length) equals this order-free table. -/
theorem decision_lists (env : Env ν) (cells : List (Option Obj)) (hne : cells.filterMap id ≠ [])
    (hl : ∀ o ∈ cells.filterMap id, o.isList = true) :
    let ls := listsOf (cells.filterMap id)
    inferSeries env (.object cells) = inferListsSpec ls ∧
    ((∀ l ∈ ls, allFloat l = true ∧ freeOfNanInf l = true) → (∀ a ∈ ls, ∀ b ∈ ls, a.length = b.length) →
      inferListsSpec ls = some .embedding) ∧
    ((∀ l ∈ ls, allNumeric l = true) →
      ((∃ l ∈ ls, allFloat l = false ∨ freeOfNanInf l = false) ∨ (∃ a ∈ ls, ∃ b ∈ ls, a.length ≠ b.length)) →
      inferListsSpec ls = some .sequence_numerical) ∧
    ((∀ l ∈ ls, allStrElems l = true) → (∃ l ∈ ls, allNumeric l = false) →
      inferListsSpec ls = some .multicategorical) := by
  intro ls
  refine ⟨inferObject_lists env cells hne hl, ?_, ?_, ?_⟩
  · intro h1 h2
    have a1 : ls.all allNumeric = true := by
      rw [List.all_eq_true]; intro l hl'
      have := (h1 l hl').1
      unfold allFloat at this; unfold allNumeric
      rw [List.all_eq_true] at this ⊢
      intro e he; have := this e he; cases e <;> simp_all
    have a2 : ls.all (fun l => allFloat l && freeOfNanInf l) = true := by
      rw [List.all_eq_true]; intro l hl'; simp [h1 l hl']
    have a3 : ls.all (fun a => ls.all fun b => a.length == b.length) = true := by
      rw [List.all_eq_true]; intro a ha; rw [List.all_eq_true]; intro b hb; simp [h2 a ha b hb]
    simp [inferListsSpec, a1, a2, a3]
  · intro h1 h2
    have a1 : ls.all allNumeric = true := List.all_eq_true.mpr h1
    have a23 : (ls.all (fun l => allFloat l && freeOfNanInf l) && ls.all (fun a => ls.all fun b => a.length == b.length)) = false := by
      rw [Bool.eq_false_iff]
      intro hh
      rw [Bool.and_eq_true, List.all_eq_true, List.all_eq_true] at hh
      rcases h2 with ⟨l, hl', hbad⟩ | ⟨a, ha, b, hb, hab⟩
      · have := hh.1 l hl'
        rw [Bool.and_eq_true] at this
        rcases hbad with hbad | hbad <;> simp_all
      · have := List.all_eq_true.mp (hh.2 a ha) b hb
        exact hab (by simpa using this)
    simp [inferListsSpec, a1, a23]
  · intro h1 h2
    have a1 : ls.all allNumeric = false := by
      rw [Bool.eq_false_iff]; intro hh
      obtain ⟨l, hl', hb⟩ := h2
      have := List.all_eq_true.mp hh l hl'
      rw [hb] at this; cases this
    have a2 : ls.all allStrElems = true := List.all_eq_true.mpr h1
    simp [inferListsSpec, a1, a2]

example : inferSeries env0 (listCol [[.flt true, .flt true], [.flt true, .flt true]]) = some .embedding ∧
    inferSeries env0 (listCol [[.flt true, .flt true], [.flt true]]) = some .sequence_numerical ∧
    inferSeries env0 (listCol [[.flt true, .flt false], [.flt true, .flt true]]) = some .sequence_numerical ∧
    inferSeries env0 (listCol [[.int, .flt true], [.flt true, .flt true]]) = some .sequence_numerical ∧
    inferSeries env0 (listCol [[.str, .str], [.str]]) = some .multicategorical ∧
    inferSeries env0 (listCol [[.str, .flt true]]) = none := by decide

/-! ## invariances -/

/-- **row order**: for every permutation of the rows of a homogeneous column (typed columns, and object
    columns whose non-missing cells are all lists or all non-lists) the inferred type is the same — provided the
    date-parsing oracle itself does not depend on the order. -/
theorem perm_invariant (env : Env ν) (hparse : ∀ a b : List Obj, a.Perm b → env.parses a = env.parses b)
    (c c' : Col ν) (h : ColPerm c c') (hom : Homogeneous c) : inferSeries env c = inferSeries env c' :=
  inferSeries_perm env hparse h hom

/-- homogeneity is needed: with a list first the branch on `ser.iloc[0]` returns `None` at the string, with the
    string first the string branch runs — this is the dependence on the first element the tests never sample -/
example : inferSeries env0 (.object [some (.list [.flt true]), some (.str "a")]) = none ∧
    inferSeries env0 (.object [some (.str "a"), some (.list [.flt true])]) = some .embedding ∧
    ColPerm (ν := Int) (.object [some (.list [.flt true]), some (.str "a")]) (.object [some (.str "a"), some (.list [.flt true])]) ∧
    ¬ Homogeneous (ν := Int) (.object [some (.list [.flt true]), some (.str "a")]) := by
  refine ⟨by decide, by decide, ColPerm.object (List.Perm.swap _ _ _), ?_⟩
  intro h
  rcases h with h | h
  · have := h (.str "a") (by simp); simp [Obj.isList] at this
  · have := h (.list [.flt true]) (by simp); simp [Obj.isList] at this

/-- a homogeneous instance: ragged float lists in both orders -/
example : Homogeneous (listCol [[.flt true], [.flt true, .flt true]]) ∧
    ColPerm (listCol [[.flt true], [.flt true, .flt true]]) (listCol [[.flt true, .flt true], [.flt true]]) ∧
    inferSeries env0 (listCol [[.flt true], [.flt true, .flt true]]) = some .sequence_numerical := by
  refine ⟨Or.inl ?_, ColPerm.object (List.Perm.swap _ _ _), by decide⟩
  intro o ho
  simp at ho
  rcases ho with rfl | rfl <;> rfl

/-- **index labels** are not an input of the inference -/
theorem labels_irrelevant (env : Env ν) (s : Series ν) (labels : List String) :
    inferLabelled env (s.withLabels labels) = inferLabelled env s := rfl

example : inferLabelled env0 ((Series.mk ["0", "1"] (strCol ["x", "y"])).withLabels ["7", "7"])
    = inferLabelled env0 (Series.mk ["0", "1"] (strCol ["x", "y"])) := rfl

/-- **missing cells**: adding or removing missing cells anywhere in a string- or list-valued (object, `str`) or
    datetime column does not change the result. -/
theorem missing_irrelevant (env : Env ν) :
    (∀ a b : List (Option Obj), SameUpToMissing a b → inferSeries env (.object a) = inferSeries env (.object b)) ∧
    (∀ a b : List (Option Int), SameUpToMissing a b → inferSeries env (.datetime a) = inferSeries env (.datetime b)) :=
  ⟨inferSeries_missing_object env, inferSeries_missing_datetime env⟩

/-- …whereas a float column is *documented* to react to a missing cell (the widened-integer rule) -/
example : SameUpToMissing [some "x", none, some "y"] [some "x", some "y", none, none] ∧
    inferSeries env0 (.numeric .float (replicate 5 (some 1) ++ replicate 5 (some 2))) ≠
    inferSeries env0 (.numeric .float (none :: replicate 5 (some 1) ++ replicate 5 (some 2))) :=
  ⟨rfl, by decide⟩

/-- **frames**: `infer_df_stype` is exactly the per-column inference over the columns that yield a type, in
    column order (column names distinct). -/
theorem frame_is_columnwise (env : Env ν) (cols : List (String × Col ν)) (hnd : (cols.map Prod.fst).Nodup) :
    inferFrame env cols = cols.filterMap (fun nc => (inferSeries env nc.2).map fun s => (nc.1, s)) :=
  inferFrame_eq env cols hnd

example : inferFrame env0 [("a", .numeric .float [some 1, some 2]), ("b", .object [none, none]), ("c", strCol ["x y", "z w"])]
    = [("a", .numerical), ("c", .text_embedded)] := by decide

end TFVerif.C18

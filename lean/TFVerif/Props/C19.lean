/-
C19 — feature mixup swaps whole features with one partner row and mixes targets convexly.

All theorems are about `Mixup.featureMixup` (model of `feature_mixup`, written in the shape of the
code: arithmetic selection `mask*x + ~mask*x[perm]`, `lam = sum(norm_mi * mask)`,
`lam*y + (1-lam)*y[perm]`) instantiated with the operations of an ARBITRARY linearly ordered field
`R`, for every batch size `B`, feature count `F`, width `D`, class count `C`, and for EVERY draw
`dr` (rates, permutation, uniform numbers).  Helper lemmas: `TFVerif/Proofs/Mixup.lean`.
-/
import TFVerif.Proofs.Mixup
import Mathlib.Algebra.Order.Field.Rat

namespace TFVerif.C19
open TFVerif.Mixup

set_option linter.unusedSectionVars false

variable {R : Type} [Field R] [LinearOrder R] [IsStrictOrderedRing R]

local notation "𝔽" => fieldOps R

/-- Each entry of a mixed row equals the entry at the same position of the row itself or of its
    single partner `perm[i]` (the partner does not depend on the position); which of the two is
    decided by `keep`, i.e. per column in feature mode, per channel in hidden mode, always "own"
    when mixup is off. -/
theorem entry_from_self_or_partner {C : Nat} {mode : Mode} {mi : Option (List R)} {dr : Draws R}
    {B F D : Nat} {x : List (List (List R))} {y : Target R} {out : Out R}
    (h : featureMixup 𝔽 C mode mi dr B F D x y = some out)
    {i j k : Nat} (hi : i < B) (hj : j < F) (hk : k < D) :
    at3 𝔽 out.x i j k = pick (keep 𝔽 mode dr i j k) (at3 𝔽 x i j k) (at3 𝔽 x (partner dr i) j k)
    ∧ (at3 𝔽 out.x i j k = at3 𝔽 x i j k ∨ at3 𝔽 out.x i j k = at3 𝔽 x (partner dr i) j k) := by
  obtain ⟨_, _, hx, _⟩ := featureMixup_some h
  have e := at3_xMixed (R := R) mode dr x hi hj hk
  rw [hx]
  refine ⟨e, ?_⟩
  rw [e]; unfold pick; split
  · exact Or.inl rfl
  · exact Or.inr rfl

example : featureMixup (fieldOps ℚ) 1 .feature (some [1, 3]) ⟨[1/2, 1/2], [1, 0], [[0, 1], [1, 0]]⟩
    2 2 1 [[[10], [11]], [[20], [21]]] (.scalar [0, 1])
    = some ⟨[[[10], [21]], [[10], [21]]], .vec [3/4, 3/4]⟩ := by decide +kernel

/-- Feature mode swaps whole column embeddings: column `j` of mixed row `i` is, as a whole vector,
    column `j` of row `i` or column `j` of the partner row. -/
theorem feature_swaps_whole_columns {C : Nat} {mi : Option (List R)} {dr : Draws R}
    {B F D : Nat} {x : List (List (List R))} {y : Target R} {out : Out R}
    (h : featureMixup 𝔽 C .feature mi dr B F D x y = some out)
    (hx : Shape3 x B F D) (hp : ValidPerm dr B) {i j : Nat} (hi : i < B) (hj : j < F) :
    (out.x.getD i []).getD j [] =
      pick (mask 𝔽 dr i j) ((x.getD i []).getD j []) ((x.getD (partner dr i) []).getD j []) := by
  obtain ⟨_, _, hox, _⟩ := featureMixup_some h
  have hpi : partner dr i < B := by
    unfold partner
    exact hp.2 _ (getD_mem_of_lt _ _ (hp.1 ▸ hi))
  rw [hox, col_xMixed _ _ _ hi hj]
  simp only [keep]
  cases mask 𝔽 dr i j
  · simpa [pick] using build_at3_col hx hpi hj
  · simpa [pick] using build_at3_col hx hi hj

example : (mask (fieldOps ℚ) ⟨[1/2, 1/2], [1, 0], [[0, 1], [1, 0]]⟩ 0 0 = true
      ∧ mask (fieldOps ℚ) ⟨[1/2, 1/2], [1, 0], [[0, 1], [1, 0]]⟩ 0 1 = false)
    ∧ Shape3 [[[10, 12], [11, 13]], [[20, 22], [21, 23]]] 2 2 2
    ∧ ValidPerm (⟨[1/2, 1/2], [1, 0], [[0, 1], [1, 0]]⟩ : Draws ℚ) 2 := by
  refine ⟨by decide +kernel, by simp [Shape3], by simp [ValidPerm]⟩

/-- Hidden mode swaps whole channels: for a channel `k` of row `i`, either every column keeps its
    own entry at `k`, or every column takes the partner's entry at `k`. -/
theorem hidden_swaps_whole_channels {C : Nat} {mi : Option (List R)} {dr : Draws R}
    {B F D : Nat} {x : List (List (List R))} {y : Target R} {out : Out R}
    (h : featureMixup 𝔽 C .hidden mi dr B F D x y = some out)
    {i k : Nat} (hi : i < B) (hk : k < D) :
    (∀ j, j < F → at3 𝔽 out.x i j k = at3 𝔽 x i j k) ∨
    (∀ j, j < F → at3 𝔽 out.x i j k = at3 𝔽 x (partner dr i) j k) := by
  cases hm : mask 𝔽 dr i k
  · right; intro j hj
    rw [(entry_from_self_or_partner h hi hj hk).1]; simp [keep, hm, pick]
  · left; intro j hj
    rw [(entry_from_self_or_partner h hi hj hk).1]; simp [keep, hm, pick]

example : featureMixup (fieldOps ℚ) 2 .hidden none ⟨[1/2, 1/4], [1, 0], [[0, 1], [1, 0]]⟩
    2 2 2 [[[10, 12], [11, 13]], [[20, 22], [21, 23]]] (.index [0, 1])
    = some ⟨[[[10, 22], [11, 23]], [[10, 22], [11, 23]]], .mat [[1/2, 1/2], [3/4, 1/4]]⟩ := by
  decide +kernel

/-- The mixed target is `λ·own + (1−λ)·partner` with the SAME partner `perm[i]` as the features
    and `λ = lam` (scalar targets, `num_classes = 1`). -/
theorem target_convex_scalar {mode : Mode} {mi : Option (List R)} {dr : Draws R}
    {B F D : Nat} {x : List (List (List R))} {y : Target R} {out : Out R}
    (h : featureMixup 𝔽 1 mode mi dr B F D x y = some out) :
    ∃ ys', out.y = .vec ys' ∧ ys'.length = B ∧ ∀ i, i < B →
      ys'.getD i 0 = lam 𝔽 mode dr F (mi.getD []) i * (y.scalars 𝔽).getD i 0
        + (1 - lam 𝔽 mode dr F (mi.getD []) i) * (y.scalars 𝔽).getD (partner dr i) 0 := by
  obtain ⟨_, _, _, hy⟩ := featureMixup_some h
  unfold yMixed at hy
  split at hy
  · simp at hy
  · simp only [if_true, Option.some.injEq] at hy
    refine ⟨_, hy.symm, by simp, ?_⟩
    intro i hi
    rw [getD_build _ _ hi]; rfl

/-- … and on one-hot rows for class targets (`num_classes ≠ 1`): the code succeeds only on index
    targets inside `[0, C)`, and entry `(i, c)` is `λ·onehot(y_i)[c] + (1−λ)·onehot(y_perm[i])[c]`. -/
theorem target_convex_classes {C : Nat} (hC : C ≠ 1) {mode : Mode} {mi : Option (List R)}
    {dr : Draws R} {B F D : Nat} {x : List (List (List R))} {y : Target R} {out : Out R}
    (h : featureMixup 𝔽 C mode mi dr B F D x y = some out) :
    ∃ ys rows, y = .index ys ∧ ys.length = B ∧ (∀ v ∈ ys, 0 ≤ v ∧ v < (C : Int)) ∧
      out.y = .mat rows ∧ rows.length = B ∧ ∀ i, i < B →
        rows.getD i [] = build C fun c =>
          lam 𝔽 mode dr F (mi.getD []) i * oneHot 𝔽 (ys.getD i 0) c
            + (1 - lam 𝔽 mode dr F (mi.getD []) i) * oneHot 𝔽 (ys.getD (partner dr i) 0) c := by
  obtain ⟨_, _, _, hy⟩ := featureMixup_some h
  unfold yMixed at hy
  split at hy
  · simp at hy
  · rename_i hlen
    try rw [if_neg hC] at hy
    cases y with
    | scalar ys => simp at hy
    | index ys =>
      simp only at hy
      split at hy
      · rename_i hall
        simp only [Option.some.injEq] at hy
        refine ⟨ys, _, rfl, by simpa [Target.length] using hlen, ?_, hy.symm, by simp, ?_⟩
        · intro v hv
          have := List.all_eq_true.mp hall v hv
          simpa using this
        · intro i hi
          rw [getD_build _ _ hi]; rfl
      · simp at hy

example : featureMixup (fieldOps ℚ) 3 .hidden none ⟨[1/4, 1/2], [1, 0], [[0], [1]]⟩
    2 1 1 [[[1]], [[2]]] (.index [0, 2])
    = some ⟨[[[1]], [[1]]], .mat [[1/4, 0, 3/4], [1/2, 0, 1/2]]⟩ := by decide +kernel

/-- In feature mode `λ` is the share of mutual-information mass of the columns kept from the row
    itself: `λ_i = (Σ_{j kept} mi_j) / Σ_j mi_j`. -/
theorem lambda_is_mi_share (dr : Draws R) (F : Nat) (mi : List R) (i : Nat) :
    lam 𝔽 .feature dr F mi i = keptMass 0 (· + ·) mi (maskRow 𝔽 dr F i) / mi.sum :=
  lamFeature_share mi _

example : lam (fieldOps ℚ) .feature ⟨[1/2], [0], [[0, 1, 1/4]]⟩ 3 [1, 3, 4] 0 = 5 / 8
    ∧ keptMass (0 : ℚ) (· + ·) [1, 3, 4] [true, false, true] = 5 := by decide +kernel

/-- `λ ∈ [0,1]`: in feature mode for non-negative scores with positive sum (any mask); in hidden
    mode for rates in `[0,1]` (what a Beta sample is); `λ = 1` when off. -/
theorem lambda_in_unit (mode : Mode) (dr : Draws R) (F : Nat) (mi : List R) {i : Nat}
    (hmi : mode = .feature → (∀ s ∈ mi, 0 ≤ s) ∧ 0 < mi.sum)
    (hr : mode = .hidden → 0 ≤ dr.rates.getD i 0 ∧ dr.rates.getD i 0 ≤ 1) :
    0 ≤ lam 𝔽 mode dr F mi i ∧ lam 𝔽 mode dr F mi i ≤ 1 := by
  cases mode with
  | off => simp [lam, fieldOps]
  | feature => exact lamFeature_unit mi _ (hmi rfl).1 (hmi rfl).2
  | hidden => exact hr rfl

example : (∀ s ∈ ([0, 3, 4] : List ℚ), 0 ≤ s) ∧ (0 : ℚ) < ([0, 3, 4] : List ℚ).sum := by
  constructor
  · intro s hs; simp at hs; rcases hs with rfl | rfl | rfl <;> norm_num
  · norm_num

/-- Class targets stay on the simplex: every entry of a mixed one-hot row is non-negative and the
    row sums to one (whenever `0 ≤ λ ≤ 1`, see `lambda_in_unit`). -/
theorem class_target_simplex {C : Nat} (hC : C ≠ 1) {mode : Mode} {mi : Option (List R)}
    {dr : Draws R} {B F D : Nat} {x : List (List (List R))} {y : Target R} {out : Out R}
    (h : featureMixup 𝔽 C mode mi dr B F D x y = some out) {i : Nat} (hi : i < B)
    (hl : 0 ≤ lam 𝔽 mode dr F (mi.getD []) i ∧ lam 𝔽 mode dr F (mi.getD []) i ≤ 1) :
    ∃ rows, out.y = .mat rows ∧ (rows.getD i []).length = C ∧
      (∀ v ∈ rows.getD i [], 0 ≤ v) ∧ (rows.getD i []).sum = 1 := by
  obtain ⟨hC0, _, _, _⟩ := featureMixup_some h
  obtain ⟨ys, rows, _, hlen, hrange, hout, _, hrow⟩ := target_convex_classes hC h
  refine ⟨rows, hout, ?_, ?_, ?_⟩
  · rw [hrow i hi]; simp
  · intro v hv
    rw [hrow i hi] at hv
    obtain ⟨c, _, rfl⟩ := mem_build.mp hv
    have h1 := oneHot_nonneg (R := R) (ys.getD i 0) c
    have h2 := oneHot_nonneg (R := R) (ys.getD (partner dr i) 0) c
    have h3 : 0 ≤ 1 - lam 𝔽 mode dr F (mi.getD []) i := by linarith [hl.2]
    exact add_nonneg (mul_nonneg hl.1 h1) (mul_nonneg h3 h2)
  · have inr : ∀ n, 0 ≤ ys.getD n 0 ∧ ys.getD n 0 < (C : Int) := by
      intro n
      by_cases hn : n < ys.length
      · exact hrange _ (getD_mem_of_lt _ _ hn)
      · have : ys.getD n 0 = 0 := by simp [List.getD_eq_getElem?_getD, Nat.le_of_not_lt hn]
        rw [this]; omega
    rw [hrow i hi, sum_build_add, sum_build_mul, sum_build_mul, sum_oneHot, sum_oneHot,
      if_pos (inr _), if_pos (inr _)]
    ring

example : ([(1 : ℚ) / 4, 0, 3 / 4].sum = 1) := by norm_num

/-- With mixup off the features come back unchanged and the target is the plain one:
    the scalars themselves, or the exact one-hot rows. -/
theorem off_is_identity {C : Nat} {mi : Option (List R)} {dr : Draws R}
    {B F D : Nat} {x : List (List (List R))} {y : Target R} {out : Out R}
    (h : featureMixup 𝔽 C .off mi dr B F D x y = some out) (hx : Shape3 x B F D) :
    out.x = x ∧
    (C = 1 → out.y = .vec (y.scalars 𝔽)) ∧
    (C ≠ 1 → ∃ ys, y = .index ys ∧ out.y = .mat (ys.map fun v => build C (oneHot 𝔽 v))) := by
  obtain ⟨_, _, hox, hy⟩ := featureMixup_some h
  refine ⟨?_, ?_, ?_⟩
  · rw [hox]
    have : xMixed 𝔽 .off dr B F D x = build B fun i => build F fun j => build D fun k => at3 𝔽 x i j k := by
      unfold xMixed
      exact build_congr fun i _ => build_congr fun j _ => build_congr fun k _ => by
        rw [sel_eq_pick]; simp [keep, pick]
    rw [this]; exact build_at3 hx
  · intro hC; subst hC
    obtain ⟨ys', e1, e2, e3⟩ := target_convex_scalar h
    rw [e1]; congr 1
    have hlen : (y.scalars 𝔽).length = B := by
      unfold yMixed at hy
      split at hy
      · simp at hy
      · rename_i hl
        cases y <;> simpa [Target.scalars, Target.length] using hl
    apply List.ext_getElem
    · rw [e2, hlen]
    · intro n h1 h2
      have := e3 n (e2 ▸ h1)
      rw [lam_off] at this
      simp only [sub_self, zero_mul, add_zero, one_mul] at this
      simpa [List.getD_eq_getElem?_getD, h1, h2] using this
  · intro hC
    obtain ⟨ys, rows, e1, e2, _, e4, e5, e6⟩ := target_convex_classes hC h
    refine ⟨ys, e1, ?_⟩
    rw [e4]; congr 1
    apply List.ext_getElem
    · simp [e5, e2]
    · intro n h1 h2
      have := e6 n (e5 ▸ h1)
      have hn : n < ys.length := by simpa using h2
      simp only [List.getD_eq_getElem?_getD, h1, List.getElem?_eq_getElem, Option.getD_some] at this
      rw [this, List.getElem_map]
      apply build_congr
      intro c _
      rw [lam_off]
      simp [hn]

example : featureMixup (fieldOps ℚ) 3 .off none ⟨[1/4, 1/2], [1, 0], []⟩
    2 1 2 [[[1, 2]], [[3, 4]]] (.index [0, 2])
    = some ⟨[[[1, 2]], [[3, 4]]], .mat [[1, 0, 0], [0, 0, 1]]⟩ := by decide +kernel

/-- The wiring of `ExcelFormer.forward(mixup_encoded=True)`: the mixup seen by the model is
    `feature_mixup` with `num_classes = out_channels`, the model's mode, the frame's `mi_scores`
    and the frame's target; no target ⇒ assertion. -/
theorem forward_wiring (cfg : ModelCfg) (tfY : Option (Target R)) (tfMi : Option (List R))
    (dr : Draws R) (B F D : Nat) (x : List (List (List R))) :
    forwardMixup 𝔽 cfg tfY tfMi dr B F D x =
      tfY.bind fun y => featureMixup 𝔽 cfg.outChannels cfg.mixup tfMi dr B F D x y := by
  cases tfY <;> rfl

example : forwardMixup (fieldOps ℚ) ⟨1, .off⟩ none none ⟨[], [], []⟩ 0 0 0 [] = none := rfl

end TFVerif.C19

/-
C15 — table convolutions and decoders keep their structural contracts.
Property theorems only (helper lemmas live in TFVerif/Proofs).  All theorems hold for every scalar
type `R`, every scalar-operation record `o`, all sizes and all parameters; algebraic hypotheses are
explicit (`AddCommAssoc`, `ZeroAnnihilates`).
-/
import TFVerif.Proofs.Conv

namespace TFVerif.C15
open TFVerif TFVerif.TOps List

variable {R : Type} (o : TOps R)

/-! ### every layer acts on each row independently -/

/-- FTTransformerConvs commutes with every row selection (repeats, the empty selection, any order),
    in both outputs `(x, x_cls)`. -/
theorem ft_rowwise (c n : Nat) (θ : FTConvs R) (idx : List Nat) (X : T3 R) :
    o.ftConvs c n θ (selectRows idx X) =
      (selectRows idx (o.ftConvs c n θ X).1, selectRows idx (o.ftConvs c n θ X).2) :=
  o.ftConvs_rowwise c n θ idx X

example : intOps.ftConvs 2 3 Toy.ft (selectRows [1, 1, 0] Toy.x) =
    ([[[-2, 1], [0, 2], [-2, 1]], [[-2, 1], [0, 2], [-2, 1]], [[-2, 1], [-2, 1], [-2, 1]]],
     [[0, 2], [0, 2], [0, 2]]) := by decide

theorem tabt_rowwise (c n : Nat) (θ : TabTConv R) (idx : List Nat) (X : T3 R) :
    o.tabTConv c n θ (selectRows idx X) = selectRows idx (o.tabTConv c n θ X) :=
  o.tabTConv_rowwise c n θ idx X

example : intOps.tabTConv 2 3 Toy.tabT (selectRows [1] Toy.x) = [[[6, 7], [0, 1], [0, 1]]] := by decide

theorem excel_rowwise (c n : Nat) (θ : ExcelConv R) (idx : List Nat) (X : T3 R) :
    o.excelConv c n θ (selectRows idx X) = selectRows idx (o.excelConv c n θ X) :=
  o.excelConv_rowwise c n θ idx X

example : intOps.excelConv 2 3 Toy.excel (selectRows [] Toy.x) = [] := by decide

/-- TromptConv (with its shape assertions): whenever the layer accepts a batch, it accepts every
    selection of its rows (taken from `x` and `x_prompt` alike) and returns the selected rows. -/
theorem trompt_rowwise (θ : TromptConv R) (idx : List Nat) (X XP Y : T3 R)
    (h : o.tromptConv θ X XP = some Y) :
    o.tromptConv θ (selectRows idx X) (selectRows idx XP) = some (selectRows idx Y) := by
  unfold tromptConv at h ⊢
  split at h
  · rename_i hs
    simp only [Bool.and_eq_true, hasShape3_iff] at hs
    obtain ⟨⟨_, hX⟩, ⟨hL, hXP⟩⟩ := hs
    have hlen : (selectRows idx X).length = (selectRows idx XP).length := selectRows_length_eq idx X XP hL.symm
    have hs' : (hasShape3 (selectRows idx X).length θ.numCols θ.channels (selectRows idx X) &&
        hasShape3 (selectRows idx X).length θ.numPrompts θ.channels (selectRows idx XP)) = true := by
      simp only [Bool.and_eq_true, hasShape3_iff]
      exact ⟨⟨rfl, fun M hM => hX M (mem_selectRows hM)⟩, ⟨hlen.symm, fun M hM => hXP M (mem_selectRows hM)⟩⟩
    rw [if_pos hs', o.tromptConvCore_rowwise θ idx X XP hL.symm]
    injection h with h
    rw [h]
  · exact absurd h (by simp)

example : intOps.tromptConv Toy.trompt Toy.x Toy.xp = some [[[0, 0], [0, 0]], [[0, 0], [0, 0]]] ∧
    intOps.tromptConv Toy.trompt (selectRows [1, 0, 1] Toy.x) (selectRows [1, 0, 1] Toy.xp) ≠ none := by decide

theorem decoder_rowwise (θe : ExcelDec R) (θt : TromptDec R) (idx : List Nat) (X : T3 R) :
    o.excelDec θe (selectRows idx X) = selectRows idx (o.excelDec θe X) ∧
    o.tromptDecCore θt (selectRows idx X) = selectRows idx (o.tromptDecCore θt X) :=
  ⟨o.excelDec_rowwise θe idx X, o.tromptDecCore_rowwise θt idx X⟩

example : intOps.excelDec Toy.excelDec Toy.x = [[29, 28], [20, 20]] := by decide

/-! ### column-permutation equivariance (FT-Transformer, TabTransformer) -/

/-- For every permutation `σ` of the `n` columns: FTTransformerConvs of the re-ordered columns is the
    re-ordered column output, and the same CLS output.  Any number of layers and heads.
    Hypothesis: scalar addition is commutative and associative (sums over the keys are symmetric). -/
theorem ft_equivariant (hadd : AddCommAssoc o) (c n : Nat) (θ : FTConvs R) (X : T3 R)
    (hX : ∀ M ∈ X, M.length = n) (σ : List Nat) (hσ : σ ~ List.range n) :
    o.ftConvs c n θ (X.map (selectRows σ)) =
      ((o.ftConvs c n θ X).1.map (selectRows σ), (o.ftConvs c n θ X).2) := by
  rw [ftConvs_eq, ftConvs_eq]
  simp only [List.map_map, Function.comp_def]
  refine Prod.ext ?_ ?_
  · exact List.map_congr_left fun M hM => by rw [o.ftSample_equivariant hadd c n θ M (hX M hM) σ hσ]
  · exact List.map_congr_left fun M hM => by rw [o.ftSample_equivariant hadd c n θ M (hX M hM) σ hσ]

example : AddCommAssoc intOps ∧ [2, 0, 1] ~ List.range 3 ∧ (∀ M ∈ Toy.x, M.length = 3) ∧
    (intOps.ftConvs 2 3 Toy.ft Toy.x).1 ≠ (intOps.ftConvs 2 3 Toy.ft (Toy.x.map (selectRows [2, 0, 1]))).1 :=
  ⟨intOps_addCommAssoc, by decide, by decide, by decide⟩

/-- the FT-Transformer summary (CLS) token is invariant under every permutation of the columns -/
theorem ft_cls_invariant (hadd : AddCommAssoc o) (c n : Nat) (θ : FTConvs R) (X : T3 R)
    (hX : ∀ M ∈ X, M.length = n) (σ : List Nat) (hσ : σ ~ List.range n) :
    (o.ftConvs c n θ (X.map (selectRows σ))).2 = (o.ftConvs c n θ X).2 := by
  rw [ft_equivariant o hadd c n θ X hX σ hσ]

example : (intOps.ftConvs 2 3 Toy.ft (Toy.x.map (selectRows [2, 0, 1]))).2 = [[0, 2], [0, 2]] := by decide

/-- TabTransformerConv is equivariant under every permutation of the columns (any number of heads) -/
theorem tabt_equivariant (hadd : AddCommAssoc o) (c n : Nat) (θ : TabTConv R) (X : T3 R)
    (hX : ∀ M ∈ X, M.length = n) (σ : List Nat) (hσ : σ ~ List.range n) :
    o.tabTConv c n θ (X.map (selectRows σ)) = (o.tabTConv c n θ X).map (selectRows σ) := by
  rw [tabTConv_eq, tabTConv_eq]
  simp only [List.map_map, Function.comp_def]
  exact List.map_congr_left fun M hM => ((o.colEquiv_tabT hadd c n θ) M (hX M hM)).2 σ hσ

example : intOps.tabTConv 2 3 Toy.tabT (Toy.x.map (selectRows [2, 0, 1])) =
    [[[6, 7], [4, 5], [6, 7]], [[0, 1], [6, 7], [0, 1]]] := by decide

/-! ### ExcelFormerConv is causal in its column order -/

/-- the relation between two samples under which the first `k` output columns must agree -/
def AgreeUpTo (c n k : Nat) (θ : ExcelConv R) (M M' : Mat R) : Prop :=
  M.length = n ∧ M'.length = n ∧ M.take k = M'.take k ∧
    o.DiamUnderflow c θ.diam (o.layerNormLast θ.norm1 M) ∧ o.DiamUnderflow c θ.diam (o.layerNormLast θ.norm1 M')

/-
Full statement wanted: output column `i` of ExcelFormerConv does not depend on the input columns `> i`.
Over the reals (and over `Float` for arbitrarily large scores) this is *false*: the mask adds `-1e5`
to a score, it does not remove the term.  It holds exactly when `exp` underflows on every masked
score, which is the explicit hypothesis `DiamUnderflow` below (checked on `Float` for every generated
case by the driver and, independently, on the real module by the harness).  Hence `_partial`.
-/
/-- If two batches agree on the first `k` columns of every row and the masked attention weights are
    exactly zero on both, ExcelFormerConv's outputs agree on the first `k` columns of every row. -/
theorem excel_causal_partial (hz : ZeroAnnihilates o) (c n k : Nat) (θ : ExcelConv R) (X X' : T3 R)
    (h : List.Forall₂ (AgreeUpTo o c n k θ) X X') :
    List.Forall₂ (fun Y Y' => Y.take k = Y'.take k) (o.excelConv c n θ X) (o.excelConv c n θ X') := by
  rw [excelConv_eq, excelConv_eq]
  induction h with
  | nil => exact List.Forall₂.nil
  | cons hab _ ih =>
    obtain ⟨h1, h2, h3, h4, h5⟩ := hab
    exact List.Forall₂.cons (o.excelSample_prefix hz c n θ _ _ h1 h2 k h3 h4 h5) ih

/-- non-vacuity: on the integer instance (whose `exp` underflows below `-1000`) the hypotheses hold for
    two batches that differ in their last column, and the last output column really differs -/
example : ZeroAnnihilates intOps ∧ List.Forall₂ (AgreeUpTo intOps 2 3 2 Toy.excel) Toy.x Toy.x' ∧
    intOps.excelConv 2 3 Toy.excel Toy.x ≠ intOps.excelConv 2 3 Toy.excel Toy.x' := by
  refine ⟨⟨fun s => Int.zero_ediv s, fun v => Int.zero_mul v⟩, ?_, by decide⟩
  refine List.Forall₂.cons ?_ (List.Forall₂.cons ?_ List.Forall₂.nil) <;>
    exact ⟨by decide, by decide, by decide, by unfold TOps.DiamUnderflow; decide,
      by unfold TOps.DiamUnderflow; decide⟩

/-! ### shapes and shape rejections -/

/-- TromptConv maps `x : [B, num_cols, c]`, `x_prompt : [B, P, c]` to `[B, P, c]` (well-formed
    parameters: `weight : [P]`, `embedding_prompt : [P, c]`) -/
theorem trompt_shape (θ : TromptConv R) (X XP Y : T3 R) (hw : θ.weight.length = θ.numPrompts)
    (he : θ.embPrompt.length = θ.numPrompts) (h : o.tromptConv θ X XP = some Y) :
    Shape3 X.length θ.numPrompts θ.channels Y := by
  unfold tromptConv at h
  split at h
  · rename_i hs
    simp only [Bool.and_eq_true, hasShape3_iff] at hs
    obtain ⟨⟨_, hX⟩, ⟨hL, hXP⟩⟩ := hs
    injection h with h
    subst h
    rw [o.tromptConvCore_eq θ X XP hL.symm]
    refine ⟨by simp [hL], fun M hM => ?_⟩
    obtain ⟨i, hi, rfl⟩ := List.mem_iff_getElem.mp hM
    simp only [List.getElem_zipWith]
    exact o.tromptSample_shape θ _ _ hw he (hXP _ (List.getElem_mem _)).1
  · exact absurd h (by simp)

example : Toy.trompt.weight.length = Toy.trompt.numPrompts ∧ Toy.trompt.embPrompt.length = Toy.trompt.numPrompts ∧
    (intOps.tromptConv Toy.trompt Toy.x Toy.xp).isSome = true := by decide

/-- both decoders return `[B, out_channels]` for every batch size `B ≥ 0` -/
theorem decoder_shape (θe : ExcelDec R) (θt : TromptDec R) (X : T3 R) :
    ((o.excelDec θe X).length = X.length ∧ ∀ v ∈ o.excelDec θe X, v.length = θe.outChannels) ∧
    (∀ Y, o.tromptDec θt X = some Y → Y.length = X.length ∧ ∀ v ∈ Y, v.length = θt.lin2.outLen) ∧
    o.excelDec θe [] = [] ∧ o.tromptDec θt [] = some [] := by
  refine ⟨⟨by simp [excelDec], ?_⟩, ?_, rfl, ?_⟩
  · intro v hv
    obtain ⟨M, _, rfl⟩ := List.mem_map.mp hv
    exact o.length_excelDecSample θe M
  · intro Y hY
    unfold tromptDec at hY
    split at hY
    · injection hY with hY
      subst hY
      refine ⟨by simp [tromptDecCore], fun v hv => ?_⟩
      obtain ⟨M, _, rfl⟩ := List.mem_map.mp hv
      exact o.length_tromptDecSample θt M
    · exact absurd hY (by simp)
  · simp [tromptDec, hasShape3, tromptDecCore]

example : intOps.tromptDec Toy.tromptDec Toy.xp = some [[1, -1, 1], [1, -1, 1]] ∧
    Toy.tromptDec.lin2.outLen = 3 := by decide

/-- TromptConv and TromptDecoder accept exactly the inputs whose shape equals their configuration
    (`x_prompt` must have the batch size of `x`): everything else is rejected, never broadcast. -/
theorem trompt_rejects_wrong_shape (θ : TromptConv R) (θd : TromptDec R) (X XP : T3 R) :
    (o.tromptConv θ X XP = none ↔
      ¬ (Shape3 X.length θ.numCols θ.channels X ∧ Shape3 X.length θ.numPrompts θ.channels XP)) ∧
    (o.tromptDec θd X = none ↔ ¬ Shape3 X.length θd.numPrompts θd.inChannels X) := by
  constructor
  · unfold tromptConv
    rw [← hasShape3_iff, ← hasShape3_iff, ← Bool.and_eq_true]
    split <;> simp_all
  · unfold tromptDec
    rw [← hasShape3_iff]
    split <;> simp_all

/-- non-vacuity: a wrong column count, a wrong channel count and a prompt batch of the wrong size are
    rejected, the right shapes are accepted -/
example : intOps.tromptConv Toy.trompt (Toy.x.map (List.take 2)) Toy.xp = none ∧
    intOps.tromptConv Toy.trompt Toy.x (Toy.xp.take 1) = none ∧
    intOps.tromptConv Toy.trompt Toy.x (Toy.xp.map (List.map (List.take 1))) = none ∧
    intOps.tromptDec Toy.tromptDec Toy.x = none ∧
    (intOps.tromptConv Toy.trompt Toy.x Toy.xp).isSome = true := by decide

end TFVerif.C15

/-
C14 — model inference is row-independent, shaped [batch, out_channels], never divides by zero,
drops no column.  Property theorems only (helper lemmas live in TFVerif/Proofs).  The seven backbones
are those of `Model/Models.lean` (eval mode; input = the output of the stype-wise encoder, whose own
row-wise behaviour is C13).  All theorems hold for every scalar type `R`, every operation record `o`,
all sizes, all parameters and every row selection `idx` (any order, repeats, the empty selection).
-/
import TFVerif.Proofs.Models

namespace TFVerif.C14
open TFVerif TFVerif.TOps List

variable {R : Type} (o : TOps R)

/-! ### row independence: `net (X.rows idx) = (net X).rows idx` -/

theorem rowIndep_MLP (θ : MLP R) (idx : List Nat) (X : T3 R) :
    o.mlp θ (selectRows idx X) = selectRows idx (o.mlp θ X) :=
  rowwise_of_map (o.mlp_eq θ) idx X

example : intOps.mlp Toy.mlp (selectRows [2, 0, 0] Toy.x3) = selectRows [2, 0, 0] (intOps.mlp Toy.mlp Toy.x3) ∧
    intOps.mlp Toy.mlp Toy.x3 = [[11, -10], [13, -12], [7, -6]] := by decide

theorem rowIndep_ResNet (θ : ResNet R) (idx : List Nat) (X : T3 R) :
    o.resnet θ (selectRows idx X) = selectRows idx (o.resnet θ X) :=
  rowwise_of_map (o.resnet_eq θ) idx X

example : intOps.resnet Toy.resnet (selectRows [1] Toy.x3) = [[2]] ∧
    intOps.resnet Toy.resnet Toy.x3 = [[0], [2], [0]] := by decide

theorem rowIndep_FTTransformer (θ : FTTransformer R) (idx : List Nat) (X : T3 R) :
    o.ftTransformer θ (selectRows idx X) = selectRows idx (o.ftTransformer θ X) :=
  rowwise_of_map (o.ftTransformer_eq θ) idx X

example : intOps.ftTransformer Toy.ftT (selectRows [] Toy.x3) = [] ∧
    (intOps.ftTransformer Toy.ftT Toy.x3).length = 3 := by decide

/-- TabTransformer on the outputs of its categorical and numerical encoders (either branch may be
    absent; when both are present they describe the same rows) -/
theorem rowIndep_TabTransformer (θ : TabTransformer R) (idx : List Nat) (Xc Xn : T3 R)
    (h : θ.hasCat = true → θ.hasNum = true → Xc.length = Xn.length) :
    o.tabTransformer θ (selectRows idx Xc) (selectRows idx Xn) = selectRows idx (o.tabTransformer θ Xc Xn) :=
  o.tabTransformer_rowwise θ idx Xc Xn h

set_option maxRecDepth 8000 in
example : (Toy.tabTr.hasCat = true → Toy.tabTr.hasNum = true → Toy.xc.length = Toy.xn.length) ∧
    intOps.tabTransformer Toy.tabTr Toy.xc Toy.xn = [[8], [6], [5]] ∧
    intOps.tabTransformer Toy.tabTr (selectRows [2, 1] Toy.xc) (selectRows [2, 1] Toy.xn) = [[5], [6]] := by decide

/-- Trompt on the outputs of its per-layer encoders (all for the same `B` rows) -/
theorem rowIndep_Trompt (θ : Trompt R) (idx : List Nat) (Xs : List (T3 R)) (B : Nat)
    (h : ∀ X ∈ Xs, X.length = B) :
    o.trompt θ (Xs.map (selectRows idx)) = selectRows idx (o.trompt θ Xs) :=
  o.trompt_rowwise_model θ idx Xs B h

example : (∀ X ∈ [Toy.x3], X.length = 3) ∧ intOps.trompt Toy.trompt1 [Toy.x3] = [[[1, -1, 1]], [[1, -1, 1]], [[1, -1, 1]]] ∧
    intOps.trompt Toy.trompt1 ([Toy.x3].map (selectRows [0, 0])) = [[[1, -1, 1]], [[1, -1, 1]]] := by decide

/-- TabNet, for every ghost-batch size `> 0` and every batch size (larger than the ghost batch or not) -/
theorem rowIndep_TabNet (θ : TabNet R) (hv : ∀ s ∈ θ.steps, 0 < s.1.vbs) (idx : List Nat) (X : T3 R) :
    o.tabnet θ (selectRows idx X) = selectRows idx (o.tabnet θ X) :=
  o.tabnet_rowwise θ hv idx X

/-- non-vacuity: a three-row batch through a TabNet whose ghost batches hold two rows -/
example : (∀ s ∈ Toy.tabnet.steps, 0 < s.1.vbs) ∧ (intOps.tabnet Toy.tabnet Toy.x3).length = 3 ∧
    intOps.tabnet Toy.tabnet (selectRows [2, 2, 1, 0] Toy.x3) =
      selectRows [2, 2, 1, 0] (intOps.tabnet Toy.tabnet Toy.x3) := by decide

theorem rowIndep_ExcelFormer (θ : ExcelFormer R) (idx : List Nat) (X : T3 R) :
    o.excelFormer θ (selectRows idx X) = selectRows idx (o.excelFormer θ X) :=
  rowwise_of_map (o.excelFormer_eq θ) idx X

example : intOps.excelFormer Toy.excelF Toy.x3 = [[-1, -9], [-3, 11], [15, 19]] ∧
    intOps.excelFormer Toy.excelF (selectRows [1, 1] Toy.x3) = [[-3, 11], [-3, 11]] := by decide

/-! ### shapes: `[batch, out_channels]` (Trompt: `[batch, num_layers, out_channels]`), batch size 0 included -/

theorem shape_MLP (θ : MLP R) (X : T3 R) :
    (o.mlp θ X).length = X.length ∧ ∀ v ∈ o.mlp θ X, v.length = θ.out.outLen := by
  rw [mlp_eq]; exact shape_map _ _ (fun M => o.length_linearV θ.out _) X

example : (intOps.mlp Toy.mlp []).length = 0 ∧ Toy.mlp.out.outLen = 2 := by decide

theorem shape_ResNet (θ : ResNet R) (X : T3 R) :
    (o.resnet θ X).length = X.length ∧ ∀ v ∈ o.resnet θ X, v.length = θ.decLin.outLen := by
  rw [resnet_eq]; exact shape_map _ _ (fun M => o.length_linearV θ.decLin _) X

example : Toy.resnet.decLin.outLen = 1 := by decide

theorem shape_FTTransformer (θ : FTTransformer R) (X : T3 R) :
    (o.ftTransformer θ X).length = X.length ∧ ∀ v ∈ o.ftTransformer θ X, v.length = θ.decLin.outLen := by
  rw [ftTransformer_eq]; exact shape_map _ _ (fun M => o.length_linearV θ.decLin _) X

example : Toy.ftT.decLin.outLen = 2 := by decide

theorem shape_TabTransformer (θ : TabTransformer R) (Xc Xn : T3 R) (hb : θ.hasCat = true ∨ θ.hasNum = true)
    (h : θ.hasCat = true → θ.hasNum = true → Xc.length = Xn.length) :
    (o.tabTransformer θ Xc Xn).length = (if θ.hasCat then Xc.length else Xn.length) ∧
      ∀ v ∈ o.tabTransformer θ Xc Xn, v.length = θ.lin3.outLen :=
  o.shape_tabTransformer θ Xc Xn hb h

example : (Toy.tabTr.hasCat = true ∨ Toy.tabTr.hasNum = true) ∧ Toy.tabTr.lin3.outLen = 1 := by decide

theorem shape_Trompt (θ : Trompt R) (Xs : List (T3 R)) (B : Nat) (h : ∀ X ∈ Xs, X.length = B) (hne : Xs ≠ []) :
    (o.trompt θ Xs).length = B ∧
      ∀ S ∈ o.trompt θ Xs, S.length = (θ.convs.zip Xs).length ∧ ∀ v ∈ S, v.length = θ.dec.lin2.outLen :=
  o.shape_trompt θ Xs B h hne

example : [Toy.x3] ≠ [] ∧ (Toy.trompt1.convs.zip [Toy.x3]).length = 1 ∧ Toy.trompt1.dec.lin2.outLen = 3 := by decide

theorem shape_TabNet (θ : TabNet R) (hv : ∀ s ∈ θ.steps, 0 < s.1.vbs) (hs : θ.steps ≠ []) (X : T3 R) :
    (o.tabnet θ X).length = X.length ∧ ∀ v ∈ o.tabnet θ X, v.length = θ.lin.outLen :=
  o.shape_tabnet θ hv hs X

example : Toy.tabnet.steps ≠ [] ∧ Toy.tabnet.lin.outLen = 1 ∧ intOps.tabnet Toy.tabnet [] = [] := by decide

theorem shape_ExcelFormer (θ : ExcelFormer R) (X : T3 R) :
    (o.excelFormer θ X).length = X.length ∧ ∀ v ∈ o.excelFormer θ X, v.length = θ.dec.outChannels := by
  rw [excelFormer_eq]; exact shape_map _ _ (fun M => o.length_excelDecSample θ.dec _) X

example : Toy.excelF.dec.outChannels = 2 := by decide

/-! ### ghost batches, BatchNorm mode, denominators, columns -/

/-- chunk / apply / cat is invisible for a row-wise function: for every chunk size `k > 0`, and in
    particular in `GhostBatchNorm1d.forward` for every virtual batch size. -/
theorem ghost_chunking_invisible {α β : Type} (g : α → β) (k : Nat) (hk : 0 < k) (X : List α)
    (vbs : Nat) (hv : 0 < vbs) (f : Vec R → Vec R) (Y : Mat R) :
    ((chunksOf k X.length X).map (List.map g)).flatten = X.map g ∧
    ghostBN vbs (fun Z => Z.map f) Y = Y.map f :=
  ⟨chunk_cat_invisible g k hk X, ghostBN_map vbs hv f Y⟩

example : chunksOf 2 5 [1, 2, 3, 4, 5] = [[1, 2], [3, 4], [5]] ∧
    ghostBN 2 (intOps.bnEval Toy.bn2) [[0, 1], [4, 3], [2, 2]] = intOps.bnEval Toy.bn2 [[0, 1], [4, 3], [2, 2]] := by
  decide

/-- train-mode BatchNorm is *not* row-wise (so the eval-mode hypothesis built into the models matters):
    a concrete two-row batch whose first row is normalised differently when scored alone. -/
theorem bn_train_not_rowwise :
    ∃ (N : BNorm Int) (idx : List Nat) (X : Mat Int),
      intOps.bnTrain N (selectRows idx X) ≠ selectRows idx (intOps.bnTrain N X) ∧
      intOps.bnEval N (selectRows idx X) = selectRows idx (intOps.bnEval N X) :=
  ⟨Toy.bn2, [0], [[0, 1], [4, 3]], by decide, by decide⟩

section Field
variable {F : Type} [Field F] [LinearOrder F] [IsStrictOrderedRing F]

/-- Over an ordered field with a positive `exp`, no denominator of the networks vanishes: softmax
    denominators (attention, Trompt importances, TabNet masks), `var + eps` under every square root of
    LayerNorm / GroupNorm, and the sigmoid of GLU are strictly positive. -/
theorem no_div_by_zero (exp tanh sqrt erf : F → F) (c1 c2 c3 : F) (hexp : ∀ x, 0 < exp x) :
    (∀ xs : List F, xs ≠ [] →
      0 < (fieldOps exp tanh sqrt erf c1 c2 c3).sum (xs.map (fieldOps exp tanh sqrt erf c1 c2 c3).exp)) ∧
    (∀ (xs : List F) (eps : F), 0 < eps →
      0 < (fieldOps exp tanh sqrt erf c1 c2 c3).add ((fieldOps exp tanh sqrt erf c1 c2 c3).variance xs) eps) ∧
    (∀ x : F, 0 < (fieldOps exp tanh sqrt erf c1 c2 c3).add (fieldOps exp tanh sqrt erf c1 c2 c3).one
      ((fieldOps exp tanh sqrt erf c1 c2 c3).exp ((fieldOps exp tanh sqrt erf c1 c2 c3).neg x))) :=
  ⟨fun xs hne => softmax_denominator_pos exp tanh sqrt erf c1 c2 c3 hexp xs hne,
   fun xs eps heps => variance_add_eps_pos exp tanh sqrt erf c1 c2 c3 xs eps heps,
   fun x => sigmoid_denominator_pos exp tanh sqrt erf c1 c2 c3 hexp x⟩

end Field

/-- non-vacuity: the rationals with the (positive) function `x ↦ 1 + x²` in the role of `exp` -/
example : ∀ x : ℚ, 0 < (fun x : ℚ => 1 + x * x) x := fun x => by
  show (0 : ℚ) < 1 + x * x
  have := mul_self_nonneg x
  linarith

/-- The stype-wise encoder's concatenation drops no column: for equally long per-stype outputs, row `b`
    of `torch.cat(xs, dim=1)` is the concatenation of the rows `b` of all of them (so it has the sum of
    their column counts), and `all_col_names` lists every column of every stype, in the same order. -/
theorem encoder_drops_no_column (B b : Nat) (hb : b < B) (xs : List (T3 R)) (names : List (List String))
    (h : ∀ x ∈ xs, x.length = B) :
    (catCols B xs)[b]? = some ((xs.map fun x => x.getD b []).flatten) ∧
    (allColNames names).length = (names.map List.length).sum ∧
    ∀ ns ∈ names, ∀ nm ∈ ns, nm ∈ allColNames names := by
  refine ⟨?_, by simp [allColNames, List.length_flatten], fun ns hns nm hnm => ?_⟩
  · have := catCols_getElem? B b hb xs (List.replicate B []) (by simp) h
    simpa [catCols, List.getD_eq_getElem?_getD, hb] using this
  · exact List.mem_flatten.mpr ⟨ns, hns, hnm⟩

example : catCols 2 [Toy.x, Toy.x'] = [[[1, 2], [3, 5], [-2, 7], [1, 2], [3, 5], [40, -7]],
    [[0, 4], [9, 1], [2, 2], [0, 4], [9, 1], [-5, 13]]] ∧ allColNames [["n0", "n1"], ["c0"]] = ["n0", "n1", "c0"] := by
  decide

end TFVerif.C14

/-
C05 — ragged containers: every selection equals the same selection on nested lists.

Property theorems only; helper lemmas are in TFVerif/Proofs/{Ragged,RaggedGrid,RaggedMET}.lean.

Reading guide.  `MNT` / `MET` (TFVerif/Model/Ragged.lean) model `MultiNestedTensor` /
`MultiEmbeddingTensor` with their flattened `values`/`offset` storage and the library's dispatch
(`select` → `_single_index_select` / `_slice` → `narrow` / `index_select` → the per-axis primitives).
`Grid` is the specification: a plain nested list of cells with Python-list indexing
(`Index.positions` = the positions Python selects, `none` = Python/the library raises).
`MNT.ofGrid g` / `MET.ofW w` is the (unique) well-formed storage of a grid: every theorem below says
that an operation on well-formed storage yields the well-formed storage of the nested-list result.
All statements are for every element type, every grid (any number of rows / columns incl. zero,
any cell lengths), every index expression and every program — no bounds.
-/
import TFVerif.Proofs.RaggedImpl

namespace TFVerif.C05

open TFVerif Grid

/-! ### index normalisation is Python's -/

/-- integer index normalisation is Python's: in range `-n ≤ i < n`, negative wraps once. -/
theorem normIndex_python (n : Nat) (i : Int) (j : Nat) :
    normIndex n i = some j ↔ (-(n : Int) ≤ i ∧ i < n ∧ (j : Int) = if i < 0 then i + n else i) := by
  unfold normIndex
  by_cases h : i < 0 <;> simp [h] <;> omega

/-- out-of-range integers raise (and only those). -/
theorem normIndex_raises (n : Nat) (i : Int) :
    normIndex n i = none ↔ (i < -(n : Int) ∨ (n : Int) ≤ i) := by
  unfold normIndex
  by_cases h : i < 0 <;> simp [h] <;> omega

example : normIndex 5 (-5) = some 0 ∧ normIndex 5 4 = some 4 ∧ normIndex 5 5 = none ∧ normIndex 0 0 = none := by decide

/-- a slice with step 1 (or none) selects `xs[start:stop]` = `drop start |> take (stop - start)` with
    both bounds clamped into `[0, n]` like `slice.indices(n)` — overshooting and far-negative bounds
    never raise. -/
theorem slice_step1_is_drop_take {β : Type} (xs : List β) (a b : Option Int) :
    let (s, e) := sliceBounds xs.length a b
    pick xs (slicePositions xs.length a b 1) = (xs.drop s).take (e - s) ∧ s ≤ xs.length ∧ e ≤ xs.length := by
  simp only [slicePositions, sliceBounds, rangeStep_one]
  have h2 := clampBound_le xs.length b xs.length (Nat.le_refl _)
  have h1 := clampBound_le xs.length a 0 (Nat.zero_le _)
  refine ⟨?_, h1, h2⟩
  by_cases h : clampBound xs.length a 0 ≤ clampBound xs.length b xs.length
  · exact pick_range' xs _ _ (by omega)
  · have : clampBound xs.length b xs.length - clampBound xs.length a 0 = 0 := by omega
    simp [this, pick]

example : pick [10, 11, 12, 13, 14] (slicePositions 5 (some 1) (some 100) 1) = [11, 12, 13, 14] ∧
    pick [10, 11, 12, 13, 14] (slicePositions 5 (some (-100)) (some 2) 1) = [10, 11] ∧
    pick [10, 11, 12, 13, 14] (slicePositions 5 (some 100) (some 110) 1) = [] ∧
    pick [10, 11, 12, 13, 14] (slicePositions 5 none none 2) = [10, 12, 14] := by decide

/-- every selected position is inside the axis, for every index kind. -/
theorem positions_in_range (n : Nat) (ix : Index) (ps : List Nat) (h : ix.positions n = some ps) :
    ∀ p ∈ ps, p < n := positions_lt n ix ps h

/-- exactly the documented illegal indices raise: out-of-range integers (alone or inside a list /
    range / tensor), non-positive slice steps, boolean masks of the wrong length. -/
theorem raises_iff (n : Nat) :
    (∀ i, (Index.int i).positions n = none ↔ (i < -(n : Int) ∨ (n : Int) ≤ i)) ∧
    (∀ a b, (Index.slice a b none).positions n ≠ none) ∧
    (∀ a b k, (Index.slice a b (some k)).positions n = none ↔ k ≤ 0) ∧
    (∀ bs, (Index.mask bs).positions n = none ↔ bs.length ≠ n) ∧
    (∀ is, (Index.list is).positions n = none ↔ ∃ i ∈ is, (i < -(n : Int) ∨ (n : Int) ≤ i)) := by
  refine ⟨?_, ?_, ?_, ?_, ?_⟩
  · intro i; simp [Index.positions, normIndex_raises]
  · intro a b; simp [Index.positions]
  · intro a b k; by_cases hk : k ≤ 0 <;> simp [Index.positions, hk]
  · intro bs; by_cases hb : bs.length = n <;> simp [Index.positions, hb]
  · intro is
    simp only [Index.positions]
    induction is with
    | nil => simp [normIndices]
    | cons i is ih =>
      simp only [normIndices, Option.bind_eq_bind, Option.pure_def, List.mem_cons, exists_eq_or_imp]
      cases h1 : normIndex n i with
      | none => simp [(normIndex_raises n i).1 h1]
      | some j =>
        have hn : ¬ (i < -(n : Int) ∨ (n : Int) ≤ i) := by
          intro hc; rw [(normIndex_raises n i).2 hc] at h1; cases h1
        cases h2 : normIndices n is with
        | none => simp [hn, ← ih, h2]
        | some js => simp [hn, ← ih, h2]

/-- `_batched_arange` as coded (cumsum pointer, `repeat_interleave`, global arange minus
    `ptr[batch]`) computes what its docstring says — the gather idiom every primitive is built on. -/
theorem batched_arange_code_eq_doc (count : List Nat) : batchedArangeImpl count = batchedArange count :=
  batchedArangeImpl_eq count

example : batchedArangeImpl [3, 0, 2] = [(0, 0), (0, 1), (0, 2), (2, 0), (2, 1)] := by decide

/-! ### MultiNestedTensor -/

/-- **One selection.** On the well-formed storage of any grid, `select` (hence `__getitem__`) returns
    the well-formed storage of the nested-list selection, and raises exactly when that raises. -/
theorem mnt_select_refines {α : Type} (g : Grid α) (hg : g.WF) (ix : Index) (dim : Nat)
    (hd : dim = 0 ∨ dim = 1) :
    (MNT.ofGrid g).select ix dim = (g.select ix dim).map MNT.ofGrid :=
  select_ofGrid g hg ix dim hd

/-- the result of a selection is a well-formed container again: it passes the constructor's
    assertions, is the canonical storage of a well-formed grid, and reading its cells back
    (`m[i, j]` for all `i, j`) gives exactly the selected nested list. -/
theorem mnt_result_wellformed {α : Type} (g : Grid α) (hg : g.WF) (ix : Index) (dim : Nat)
    (hd : dim = 0 ∨ dim = 1) (m' : MNT α) (h : (MNT.ofGrid g).select ix dim = some m') :
    ∃ g', g.select ix dim = some g' ∧ g'.WF ∧ m' = MNT.ofGrid g' ∧ m'.validate = true ∧ m'.grid = g' := by
  rw [mnt_select_refines g hg ix dim hd] at h
  cases hs : g.select ix dim with
  | none => simp [hs] at h
  | some g' =>
    simp only [hs, Option.map_some, Option.some.injEq] at h
    have hw := select_WF g g' hg ix dim hs
    exact ⟨g', rfl, hw, h.symm, by rw [← h]; exact validate_ofGrid g' hw, by rw [← h]; exact grid_ofGrid g' hw⟩

/-- **Programs.** Any finite chain of selections (either axis, passing through empty results
    included) on well-formed storage equals the chain on nested lists. -/
theorem mnt_chain_refines {α : Type} (g : Grid α) (hg : g.WF) (prog : List (Index × Nat))
    (hd : ∀ p ∈ prog, p.2 = 0 ∨ p.2 = 1) :
    (MNT.ofGrid g).run prog = (g.run prog).map MNT.ofGrid ∧ (∀ g', g.run prog = some g' → g'.WF) :=
  ⟨run_ofGrid g hg prog hd, fun g' h => run_WF g g' hg prog h⟩

/-- `m[ix0, ix1]` is the row selection followed by the column selection. -/
theorem mnt_getitem_tuple {α : Type} (g : Grid α) (hg : g.WF) (ix0 ix1 : Index) :
    (MNT.ofGrid g).getitem2 ix0 ix1 = (g.run [(ix0, 0), (ix1, 1)]).map MNT.ofGrid := by
  have h := run_ofGrid g hg [(ix0, 0), (ix1, 1)] (by intro p hp; simp at hp; rcases hp with rfl | rfl <;> simp)
  rw [← h]
  unfold MNT.getitem2
  simp only [MNT.run]
  cases (MNT.ofGrid g).select ix0 0 with
  | none => rfl
  | some m1 =>
    simp only [Option.bind_some]
    cases m1.select ix1 1 <;> rfl

/-- single-cell access `m[i, j]` returns the cell of the nested list (Python-normalised indices),
    and raises exactly for out-of-range `i` or `j`. -/
theorem mnt_getitem_cell {α : Type} (g : Grid α) (hg : g.WF) (i j : Int) :
    (MNT.ofGrid g).getValue i j =
      (normIndex g.rows.length i).bind fun i' => (normIndex g.numCols j).map fun j' =>
        (g.rows.getD i' []).getD j' [] :=
  getValue_ofGrid g hg i j

/-- non-vacuity: a 3×2 grid with ragged cells; a chain through a non-zero-based view
    (`m[1:][:, [1, 0]][-1]`) computed on the storage equals the nested-list result. -/
def g32 : Grid Nat := { numCols := 2, rows := [[[1, 2], [3]], [[4], [5, 6, 7]], [[8, 9], []]] }
example : g32.WF := by intro row h; simp [g32] at h; rcases h with rfl | rfl | rfl <;> rfl
example : (MNT.ofGrid g32).run [(.slice (some 1) none none, 0), (.list [1, 0], 1), (.int (-1), 0)]
    = some { numRows := 1, numCols := 2, values := [8, 9], offset := [0, 0, 2] } := by decide
example : (MNT.ofGrid g32).select (.slice (some 1) (some 100) none) 0
    = some (MNT.ofGrid { numCols := 2, rows := [[[4], [5, 6, 7]], [[8, 9], []]] }) := by decide
example : (MNT.ofGrid g32).select (.int 3) 0 = none ∧ (MNT.ofGrid g32).select (.slice none none (some 0)) 1 = none := by decide

/-! ### every well-formed container -/

/-- **Well-formed storage is canonical.** A container satisfies the representation invariant
    (`offset` has `rows·cols + 1` entries, starts at 0, is monotone and ends at `len(values)`) iff it is
    the canonical storage of a well-formed grid — namely of the grid of its own cells. So the theorems
    above, stated for `MNT.ofGrid g`, speak about every well-formed container. -/
theorem mnt_wellformed_iff_canonical {α : Type} (m : MNT α) :
    m.WFRep ↔ (m = MNT.ofGrid m.grid ∧ m.grid.WF) := by
  constructor
  · exact wfrep_canonical m
  · rintro ⟨h1, h2⟩; rw [h1]; exact wfrep_ofGrid _ h2

/-- **One selection on any well-formed container**: the cells of the result are the nested-list
    selection of the cells of the source, the result is well-formed again, and it raises exactly
    when the nested-list selection raises. -/
theorem mnt_select_refines_wf {α : Type} (m : MNT α) (hm : m.WFRep) (ix : Index) (dim : Nat)
    (hd : dim = 0 ∨ dim = 1) :
    (m.select ix dim = none ↔ m.grid.select ix dim = none) ∧
    (∀ m', m.select ix dim = some m' → m'.WFRep ∧ m.grid.select ix dim = some m'.grid) := by
  obtain ⟨hcan, hwf⟩ := wfrep_canonical m hm
  have href := select_ofGrid m.grid hwf ix dim hd
  rw [← hcan] at href
  constructor
  · rw [href]; cases m.grid.select ix dim <;> simp
  · intro m' hm'
    rw [href] at hm'
    cases hs : m.grid.select ix dim with
    | none => simp [hs] at hm'
    | some g' =>
      simp only [hs, Option.map_some, Option.some.injEq] at hm'
      have hw' := select_WF m.grid g' hwf ix dim hs
      subst hm'
      exact ⟨wfrep_ofGrid g' hw', by rw [grid_ofGrid g' hw']⟩

/-- **Programs on any well-formed container.** -/
theorem mnt_chain_refines_wf {α : Type} (m : MNT α) (hm : m.WFRep) (prog : List (Index × Nat))
    (hd : ∀ p ∈ prog, p.2 = 0 ∨ p.2 = 1) :
    (m.run prog = none ↔ m.grid.run prog = none) ∧
    (∀ m', m.run prog = some m' → m'.WFRep ∧ m.grid.run prog = some m'.grid) := by
  obtain ⟨hcan, hwf⟩ := wfrep_canonical m hm
  have href := run_ofGrid m.grid hwf prog hd
  rw [← hcan] at href
  constructor
  · rw [href]; cases m.grid.run prog <;> simp
  · intro m' hm'
    rw [href] at hm'
    cases hs : m.grid.run prog with
    | none => simp [hs] at hm'
    | some g' =>
      simp only [hs, Option.map_some, Option.some.injEq] at hm'
      have hw' := run_WF m.grid g' hwf prog hs
      subst hm'
      exact ⟨wfrep_ofGrid g' hw', by rw [grid_ofGrid g' hw']⟩

example : (MNT.WFRep ({ numRows := 1, numCols := 2, values := [8, 9], offset := [0, 0, 2] } : MNT Nat)) :=
  ⟨rfl, rfl, rfl, by decide⟩

/-! ### MultiEmbeddingTensor -/

/-- **One selection** (embedding container; along columns the widths are selected alongside). -/
theorem met_select_refines {α : Type} (w : WGrid α) (hw : w.WF) (ix : Index) (dim : Nat)
    (hd : dim = 0 ∨ dim = 1) :
    (MET.ofW w).select ix dim = (w.select ix dim).map MET.ofW :=
  met_select_ofW w hw ix dim hd

/-- results are well-formed (offset/width/row-count/row-length mutually consistent — in particular
    empty results keep two-dimensional storage) and read back as the selected nested list. -/
theorem met_result_wellformed {α : Type} (w : WGrid α) (hw : w.WF) (ix : Index) (dim : Nat)
    (hd : dim = 0 ∨ dim = 1) (m' : MET α) (h : (MET.ofW w).select ix dim = some m') :
    ∃ w', w.select ix dim = some w' ∧ w'.WF ∧ m' = MET.ofW w' ∧ m'.WFRep ∧ m'.grid = w'.grid := by
  rw [met_select_refines w hw ix dim hd] at h
  cases hs : w.select ix dim with
  | none => simp [hs] at h
  | some w' =>
    simp only [hs, Option.map_some, Option.some.injEq] at h
    have hw' := met_select_WF w w' hw ix dim hd hs
    exact ⟨w', rfl, hw', h.symm, by rw [← h]; exact met_wfrep_ofW w' hw', by rw [← h]; exact met_grid_ofW w' hw'⟩

/-- **Programs** (embedding container). -/
theorem met_chain_refines {α : Type} (w : WGrid α) (hw : w.WF) (prog : List (Index × Nat))
    (hd : ∀ p ∈ prog, p.2 = 0 ∨ p.2 = 1) :
    (MET.ofW w).run prog = (w.run prog).map MET.ofW ∧ (∀ w', w.run prog = some w' → w'.WF) :=
  ⟨met_run_ofW w hw prog hd, fun w' h => met_run_WF w w' hw prog hd h⟩

/-- the grid part of the embedding specification is exactly the nested-list selection of C05. -/
theorem met_select_grid {α : Type} (w : WGrid α) (ix : Index) (dim : Nat) :
    (w.select ix dim).map (·.grid) = w.grid.select ix dim := by
  simp [WGrid.select, Grid.select, Option.map_map, Function.comp_def]

theorem met_getitem_cell {α : Type} (w : WGrid α) (hw : w.WF) (i j : Int) :
    (MET.ofW w).getValue i j =
      (normIndex w.grid.rows.length i).bind fun i' => (normIndex w.grid.numCols j).map fun j' =>
        (w.grid.rows.getD i' []).getD j' [] :=
  met_getValue_ofW w hw i j

/-- **canonicity and selection for every well-formed embedding container.** -/
theorem met_wellformed_canonical {α : Type} (m : MET α) (h : m.WFRep) (hmono : m.offset.Pairwise (· ≤ ·)) :
    m = MET.ofW { grid := m.grid, widths := m.colWidths } ∧
    (WGrid.WF { grid := m.grid, widths := m.colWidths }) :=
  met_wfrep_canonical m h hmono

theorem met_select_refines_wf {α : Type} (m : MET α) (hm : m.WFRep) (hmono : m.offset.Pairwise (· ≤ ·))
    (ix : Index) (dim : Nat) (hd : dim = 0 ∨ dim = 1) :
    (m.select ix dim = none ↔ m.grid.select ix dim = none) ∧
    (∀ m', m.select ix dim = some m' →
      m'.WFRep ∧ m'.offset.Pairwise (· ≤ ·) ∧ m.grid.select ix dim = some m'.grid) := by
  obtain ⟨hcan, hwf⟩ := met_wfrep_canonical m hm hmono
  have href := met_select_ofW _ hwf ix dim hd
  rw [← hcan] at href
  have hgrid := met_select_grid { grid := m.grid, widths := m.colWidths } ix dim
  simp only at hgrid
  constructor
  · rw [href, ← hgrid]; cases WGrid.select { grid := m.grid, widths := m.colWidths } ix dim <;> simp
  · intro m' hm'
    rw [href] at hm'
    cases hs : WGrid.select { grid := m.grid, widths := m.colWidths } ix dim with
    | none => simp [hs] at hm'
    | some w' =>
      simp only [hs, Option.map_some, Option.some.injEq] at hm'
      have hw' := met_select_WF _ w' hwf ix dim hd hs
      subst hm'
      refine ⟨met_wfrep_ofW w' hw', met_ofW_mono w', ?_⟩
      rw [← hgrid, hs, Option.map_some, met_grid_ofW w' hw']

def w23 : WGrid Nat :=
  { grid := { numCols := 3, rows := [[[1, 2, 3], [4, 5], [6]], [[7, 8, 9], [10, 11], [12]]] }, widths := [3, 2, 1] }
example : w23.WF := by
  refine ⟨rfl, ?_⟩; intro row h; simp [w23] at h; rcases h with rfl | rfl <;> rfl
example : (MET.ofW w23).run [(.slice (some 0) (some 0) none, 0), (.int 1, 1)]
    = some { numRows := 0, numCols := 1, width := 2, values := [], offset := [0, 2] } := by decide
example : (MET.ofW w23).run [(.slice (some 1) (some 10) none, 0), (.list [2, 0], 1)]
    = some { numRows := 1, numCols := 2, width := 4, values := [[12, 7, 8, 9]], offset := [0, 1, 4] } := by decide

end TFVerif.C05

/-
C05 — ragged containers: every selection equals the same selection on nested lists.
Property theorems only (helper lemmas live in TFVerif/Proofs).
-/
import TFVerif.Model.Ragged

namespace TFVerif.C05

/-- integer index normalisation is Python's: in range `-n ≤ i < n`, negative wraps once. -/
theorem normIndex_python (n : Nat) (i : Int) (j : Nat) :
    normIndex n i = some j ↔ (-(n : Int) ≤ i ∧ i < n ∧ (j : Int) = if i < 0 then i + n else i) := by
  unfold normIndex
  by_cases h : i < 0 <;> simp [h] <;> omega

theorem normIndex_raises (n : Nat) (i : Int) :
    normIndex n i = none ↔ (i < -(n : Int) ∨ (n : Int) ≤ i) := by
  unfold normIndex
  by_cases h : i < 0 <;> simp [h] <;> omega

example : normIndex 5 (-5) = some 0 ∧ normIndex 5 4 = some 4 ∧ normIndex 5 5 = none ∧ normIndex 0 0 = none := by decide

end TFVerif.C05

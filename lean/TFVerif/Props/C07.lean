/-
C07 — TensorFrame row selection is coherent across all stypes and the target.

Property theorems only (helper lemmas: TFVerif/Proofs/Frame.lean).  `Frame.getitem` is the model of
`TensorFrame.__getitem__` (TFVerif/Model/Frame.lean), generic in the per-feature operations
`ops : FeatOps Φ`; `spec : FeatSpec ops κ τ ω` says that those operations refine the Python-list
operations on a rows x columns table of cells (`spec.grid`).  The theorems hold for every such
storage kind; `denseSpec` (proved in Proofs/Frame.lean) instantiates them for dense tensors, and
`featSpec` (proved in Proofs/FrameRagged.lean from the C05/C06 refinement lemmas) for the storage the
driver runs — dense tensors, `MultiNestedTensor`, `MultiEmbeddingTensor` and dicts of
`MultiNestedTensor`: the `_ragged` corollaries in the last section.
`Grid.pick xs ps` is Python's `[xs[p] for p in ps]`; `ix.positions n` is the list of positions a
Python list of length `n` selects for the index expression `ix` (or `none` where it raises).
-/
import TFVerif.Proofs.Frame
import TFVerif.Proofs.FrameRagged

namespace TFVerif.C07
open TFVerif TFVerif.TF

variable {Φ β κ τ ω : Type} {ops : FeatOps Φ}

/-- **Row selection.**  On a well-formed frame with `n` rows, every index expression that Python's
    list indexing accepts (`ix.positions n = some ps`; an `int` is read as `[int]`) succeeds, and in
    the result every feature group of every storage kind contains exactly the rows `ps` in that
    order, so does the target; shapes (tag, column metadata), names and dict keys are unchanged
    and the result is again a well-formed frame with `len = |ps|`. -/
theorem getitem_rows (spec : FeatSpec ops κ τ ω) {f : Frame Φ β} {n : Nat} {ix : Index} {ps : List Nat}
    (hwf : f.WF spec n) (hps : ix.positions n = some ps) :
    ∃ f', f.getitem ops ix = some f' ∧ f'.WF spec ps.length ∧ f'.names = f.names ∧
      keys f'.feats = keys f.feats ∧
      (∀ s φ, assoc s f.feats = some φ → ∃ φ', assoc s f'.feats = some φ' ∧
        spec.grid φ' = Grid.pick (spec.grid φ) ps ∧ spec.tag φ' = spec.tag φ ∧
        spec.colMeta φ' = spec.colMeta φ) ∧
      f'.y = f.y.map (Grid.pick · ps) := by
  obtain ⟨f', h1, h2, h3, h4, h5, h6⟩ := getitem_spec spec hwf hps
  refine ⟨f', h1, h2, h3, h4, ?_, h6⟩
  intro s φ hs
  obtain ⟨φ', a, _, b, c, d⟩ := h5 s φ hs
  exact ⟨φ', a, b, c, d⟩

private def eqI : Int → Int → Bool := fun a b => a == b
private abbrev O : FeatOps (Dense Int) := denseOps eqI
private abbrev S : FeatSpec O (List Int) (Option Nat) Unit := denseSpec eqI

private def exFrame : Frame (Dense Int) Int :=
  { feats := [("numerical", ⟨2, none, [[[1], [2]], [[3], [4]], [[5], [6]]]⟩),
              ("timestamp", ⟨1, some 2, [[[1, 2]], [[3, 4]], [[5, 6]]]⟩)]
    names := [("timestamp", ["t"]), ("numerical", ["a", "b"])]
    y := some [10, 20, 30], numRowsOpt := none }

private theorem exFrame_wf : exFrame.WF S 3 := by
  have h := (validate_iff_spec S (f := exFrame) (by
      intro s φ hm
      simp [exFrame] at hm
      rcases hm with ⟨_, rfl⟩ | ⟨_, rfl⟩ <;> exact ⟨by decide, by decide⟩)
    (by decide) (by decide)).mp (by decide)
  exact h

/-- non-vacuity: a 3-row frame with a 2-D and a 3-D dense feature and a target, an overshooting slice. -/
example : exFrame.WF S 3 ∧
    (Index.slice (some 1) (some 100) none).positions 3 = some [1, 2] ∧
    (exFrame.getitem O (.slice (some 1) (some 100) none)).map (·.y) = some (some [20, 30]) :=
  ⟨exFrame_wf, by decide, by decide⟩

/-- **Raises exactly like a Python list.**  For a frame holding at least one tensor (a feature or a
    target) the selection raises iff Python's list indexing of a list of `n` rows raises
    (out-of-range integer, non-positive step, mask of the wrong length). -/
theorem getitem_raises_iff (spec : FeatSpec ops κ τ ω) {f : Frame Φ β} {n : Nat} {ix : Index}
    (hwf : f.WF spec n) (hne : f.feats ≠ [] ∨ f.y ≠ none) :
    f.getitem ops ix = none ↔ ix.positions n = none :=
  getitem_none_iff spec hwf hne

example : exFrame.feats ≠ [] ∧ (Index.int 3).positions 3 = none ∧ (Index.slice none none (some 0)).positions 3 = none ∧
    exFrame.getitem O (.int 3) = none :=
  ⟨by simp [exFrame], by decide, by decide, by decide⟩

/-- **Reported length** = number of selected rows (including zero), also for a frame without
    features whose rows are only known through the explicit `num_rows`. -/
theorem getitem_length (spec : FeatSpec ops κ τ ω) {f : Frame Φ β} {n : Nat} {ix : Index} {ps : List Nat}
    (hwf : f.WF spec n) (hps : ix.positions n = some ps) :
    ∃ f', f.getitem ops ix = some f' ∧ f'.numRows ops = ps.length := by
  obtain ⟨f', h1, h2, _⟩ := getitem_spec spec hwf hps
  exact ⟨f', h1, h2.nr_ok⟩

private def exBare : Frame (Dense Int) Int := { feats := [], names := [], y := none, numRowsOpt := some 5 }

private theorem exBare_wf : exBare.WF S 5 :=
  (validate_iff_spec S (f := exBare) (by intro s φ hm; simp [exBare] at hm)
    (by decide) (by decide)).mp (by decide)

/-- non-vacuity: feature-less frame with `num_rows = 5`; `tf[3:100]` has length 2, `tf[5:]` length 0. -/
example : exBare.WF S 5 ∧
    (exBare.getitem O (.slice (some 3) (some 100) none)).map (·.numRows O) = some 2 ∧
    (exBare.getitem O (.slice (some 5) none none)).map (·.numRows O) = some 0 :=
  ⟨exBare_wf, by decide, by decide⟩

/-- **Column-wise agreement.**  Every column of the selection, looked up by name with
    `get_col_feat`, is the list selection of that column of the source, and equals selecting from
    the column separately. -/
theorem getitem_col (spec : FeatSpec ops κ τ ω) {f f' : Frame Φ β} {n : Nat} {ix : Index} {ps : List Nat}
    (hwf : f.WF spec n) (hps : ix.positions n = some ps) (hget : f.getitem ops ix = some f')
    {name s : String} {c : Φ} (hc : f.getColFeat ops name = some (c, s)) :
    ∃ c', f'.getColFeat ops name = some (c', s) ∧ spec.grid c' = Grid.pick (spec.grid c) ps ∧
      ∃ c'', ops.select c (intToList ix) = some c'' ∧ spec.grid c'' = spec.grid c' := by
  obtain ⟨g, hg, hgwf, hgn, _, hgg, _⟩ := getitem_spec spec hwf hps
  rw [hget] at hg; cases hg
  obtain ⟨ns, idx, φ, hl, hns, hi, hφ, hcol, hcw, _, _, hcg⟩ := getColFeat_sound spec hwf hc
  obtain ⟨hw, hlen, _⟩ := hwf.feat_ok s φ (assoc_mem hφ)
  obtain ⟨φ', hφ', _, hgφ', _, hcm'⟩ := hgg s φ hφ
  obtain ⟨hw', _, ns', hns', hlen', _⟩ := hgwf.feat_ok s φ' (assoc_mem hφ')
  rw [hgn, hns] at hns'; cases hns'
  have hidx : idx < (spec.colMeta φ').length := by
    rw [← hlen']; exact (List.getElem?_eq_some_iff.mp hi).1
  obtain ⟨c', hc', _, _, _, hcg'⟩ := spec.col_spec φ' idx hw' hidx
  have hgrid : spec.grid c' = Grid.pick (spec.grid c) ps := by rw [hcg', hgφ', hcg, pick_map]
  refine ⟨c', by simp [Frame.getColFeat, hgn, hl, hφ', hc'], hgrid, ?_⟩
  -- selecting from the column separately
  have hclen : ops.len c = n := by
    rw [← spec.grid_len c hcw, hcg, List.length_map, spec.grid_len φ hw, hlen]
  have hps' : (intToList ix).positions (ops.len c) = some ps := by
    rw [hclen, positions_intToList]; exact hps
  cases hsel : ops.select c (intToList ix) with
  | none =>
    have := (spec.select_none c _ hcw).mp hsel
    rw [hps'] at this; cases this
  | some c'' =>
    obtain ⟨_, _, _, qs, hqs, hg''⟩ := spec.select_some c _ c'' hcw hsel
    rw [hps'] at hqs; cases hqs
    exact ⟨c'', rfl, by rw [hg'', hgrid]⟩

/-- non-vacuity: column `b` of `exFrame[[2, 0]]` is `[[6], [2]]`. -/
example : (exFrame.getColFeat O "b").map (fun c => (c.1.rows, c.2)) = some ([[[2]], [[4]], [[6]]], "numerical") ∧
    ((exFrame.getitem O (.list [2, 0])).bind fun f' => f'.getColFeat O "b").map (·.1.rows)
      = some [[[6]], [[2]]] :=
  ⟨by decide, by decide⟩

/-- **Chains.**  For every list of index expressions, `tf[ix1][ix2]...[ixk]` contains exactly the
    rows that applying the same expressions one after the other to a Python list of the rows
    selects (`chainPositions`), in every feature and the target — by induction over the chain. -/
theorem getitem_chain (spec : FeatSpec ops κ τ ω) {f : Frame Φ β} {n : Nat} {ixs : List Index} {qs : List Nat}
    (hwf : f.WF spec n) (h : chainPositions n ixs = some qs) :
    ∃ f', f.getitemChain ops ixs = some f' ∧ f'.WF spec qs.length ∧ f'.names = f.names ∧
      keys f'.feats = keys f.feats ∧
      (∀ s φ, assoc s f.feats = some φ → ∃ φ', assoc s f'.feats = some φ' ∧
        spec.grid φ' = Grid.pick (spec.grid φ) qs ∧ spec.tag φ' = spec.tag φ ∧
        spec.colMeta φ' = spec.colMeta φ) ∧
      f'.y = f.y.map (Grid.pick · qs) :=
  getitemChain_spec spec hwf h

/-- non-vacuity: `tf[1:100][::-... ]`-style chain `[1:100] ; [-1] ; mask [True]` on 3 rows selects row 2. -/
example : chainPositions 3 [.slice (some 1) (some 100) none, .int (-1), .mask [true]] = some [2] ∧
    (exFrame.getitemChain O
      [.slice (some 1) (some 100) none, .int (-1), .mask [true]]).map (·.y) = some (some [30]) :=
  ⟨by decide, by decide⟩

/-- **Columns unchanged** (no hypothesis on the frame at all): a row selection never touches the
    name table nor the set and order of feature groups. -/
theorem getitem_columns_unchanged {f f' : Frame Φ β} {ix : Index} (h : f.getitem ops ix = some f') :
    f'.names = f.names ∧ keys f'.feats = keys f.feats :=
  getitem_names h

example : (exFrame.getitem O (.mask [true, false, true])).map (·.names)
    = some exFrame.names := by decide

/-- **Overshooting slices are Python slices.**  For `0 ≤ a ≤ n` a slice `a:b` whose stop lies at or
    beyond the end selects exactly rows `a, …, n-1` — like `list(range(n))[a:b]`. -/
theorem overshooting_slice (n a b : Nat) (ha : a ≤ n) (hb : n ≤ b) :
    (Index.slice (some (a : Int)) (some (b : Int)) none).positions n = some (List.range' a (n - a)) := by
  simp only [Index.positions]
  congr 1
  exact slicePositions_nat n a b ha (by omega) |>.trans (by rw [Nat.min_eq_right hb])

example : (Index.slice (some 5) (some 100) none).positions 7 = some [5, 6] := by decide

/-! ### the ragged containers (instances of the theorems above at `featOps` / `featSpec`)

`featSpec cl` (TFVerif/Proofs/FrameRagged.lean, built from the C05/C06 refinement theorems) is the
specification of the storage the executable driver runs: dense tensors, `MultiNestedTensor`,
`MultiEmbeddingTensor` and dicts of `MultiNestedTensor`, with `wf` = the C05 representation
invariants.  The corollaries below are the theorems of this file at that instance; the `_cells`
forms read the abstract table back as the cells `m[i, j]` of the containers. -/

section ragged
variable {α : Type}

/-- **Row selection, ragged containers included.**  `getitem_rows` for frames over `featOps`. -/
theorem getitem_rows_ragged (cl : α → α → Bool) {f : Frame (Feat α) β} {n : Nat} {ix : Index} {ps : List Nat}
    (hwf : f.WF (featSpec cl) n) (hps : ix.positions n = some ps) :
    ∃ f', f.getitem (featOps cl) ix = some f' ∧ f'.WF (featSpec cl) ps.length ∧ f'.names = f.names ∧
      keys f'.feats = keys f.feats ∧
      (∀ s φ, assoc s f.feats = some φ → ∃ φ', assoc s f'.feats = some φ' ∧
        featGrid cl φ' = Grid.pick (featGrid cl φ) ps ∧ featTag cl φ' = featTag cl φ ∧
        featMeta cl φ' = featMeta cl φ) ∧
      f'.y = f.y.map (Grid.pick · ps) :=
  getitem_rows (featSpec cl) hwf hps

/-- ... read back on the containers: after `tf[ix]` a `MultiNestedTensor` feature is a well-formed
    `MultiNestedTensor` whose cells `m'[i, j]` are the cells of rows `ps` of the source, in order
    (same number of columns); a `MultiEmbeddingTensor` feature likewise, with unchanged column
    widths. -/
theorem getitem_rows_ragged_cells (cl : α → α → Bool) {f : Frame (Feat α) β} {n : Nat} {ix : Index} {ps : List Nat}
    (hwf : f.WF (featSpec cl) n) (hps : ix.positions n = some ps) :
    ∃ f', f.getitem (featOps cl) ix = some f' ∧
      (∀ s m, assoc s f.feats = some (.nested m) → ∃ m', assoc s f'.feats = some (.nested m') ∧
        m'.WFRep ∧ m'.numCols = m.numCols ∧ m'.grid.rows = Grid.pick m.grid.rows ps) ∧
      (∀ s m, assoc s f.feats = some (.emb m) → ∃ m', assoc s f'.feats = some (.emb m') ∧
        EmbWF m' ∧ m'.colWidths = m.colWidths ∧ m'.grid.rows = Grid.pick m.grid.rows ps) := by
  obtain ⟨f', h1, h2, h3, h4, h5, h6⟩ := getitem_rows_ragged cl hwf hps
  exact ⟨f', h1, isSel_ragged_cells cl ⟨h2, h3, h4, h5, h6⟩⟩

open RaggedEx (frame frame2 frame_wf left2 right2 mnt3 met3 ids3 mask3 nestedOf embOf dictOf) in
/-- non-vacuity: the mixed frame (nested + embedding + dict + dense features, target) is well
    formed; `tf[1:100]` — a non-zero-based view: the offsets are re-based — holds rows 1, 2 of the
    ragged cells, of the embedding rows and of the target. -/
example : frame.WF (featSpec RaggedEx.eqI) 3 ∧
    (Index.slice (some 1) (some 100) none).positions 3 = some [1, 2] ∧
    (frame.getitem (featOps RaggedEx.eqI) (.slice (some 1) (some 100) none)).map
        (fun f' => (nestedOf f' "multicategorical", embOf f' "embedding", f'.y)) =
      some (some { numRows := 2, numCols := 2, values := [4, 5, 6, 7, 8, 9], offset := [0, 1, 4, 6, 6] },
            some { numRows := 2, numCols := 2, width := 3, values := [[4, 5, 6], [7, 8, 9]], offset := [0, 2, 3] },
            some [20, 30]) ∧
    (MNT.grid ({ numRows := 2, numCols := 2, values := [4, 5, 6, 7, 8, 9], offset := [0, 1, 4, 6, 6] } : MNT Int)).rows
      = Grid.pick mnt3.grid.rows [1, 2] :=
  ⟨frame_wf, by decide, by decide, by decide⟩

/-- **Raises exactly like a Python list**, ragged containers included. -/
theorem getitem_raises_iff_ragged (cl : α → α → Bool) {f : Frame (Feat α) β} {n : Nat} {ix : Index}
    (hwf : f.WF (featSpec cl) n) (hne : f.feats ≠ [] ∨ f.y ≠ none) :
    f.getitem (featOps cl) ix = none ↔ ix.positions n = none :=
  getitem_raises_iff (featSpec cl) hwf hne

open RaggedEx (frame frame2 frame_wf left2 right2 mnt3 met3 ids3 mask3 nestedOf embOf dictOf) in
example : frame.feats ≠ [] ∧ (Index.int 3).positions 3 = none ∧ (Index.mask [true, false]).positions 3 = none ∧
    frame.getitem (featOps RaggedEx.eqI) (.int 3) = none ∧ frame.getitem (featOps RaggedEx.eqI) (.mask [true, false]) = none ∧
    (frame.getitem (featOps RaggedEx.eqI) (.int (-3))).isSome = true :=
  ⟨by simp [frame], by decide, by decide, by decide, by decide, by decide⟩

/-- **Chains**, ragged containers included: `tf[ix1][ix2]...[ixk]` holds exactly the rows
    `chainPositions n ixs` in every feature of every storage kind and in the target. -/
theorem getitem_chain_ragged (cl : α → α → Bool) {f : Frame (Feat α) β} {n : Nat} {ixs : List Index} {qs : List Nat}
    (hwf : f.WF (featSpec cl) n) (h : chainPositions n ixs = some qs) :
    ∃ f', f.getitemChain (featOps cl) ixs = some f' ∧ f'.WF (featSpec cl) qs.length ∧ f'.names = f.names ∧
      keys f'.feats = keys f.feats ∧
      (∀ s φ, assoc s f.feats = some φ → ∃ φ', assoc s f'.feats = some φ' ∧
        featGrid cl φ' = Grid.pick (featGrid cl φ) qs ∧ featTag cl φ' = featTag cl φ ∧
        featMeta cl φ' = featMeta cl φ) ∧
      f'.y = f.y.map (Grid.pick · qs) :=
  getitem_chain (featSpec cl) hwf h

open RaggedEx (frame frame2 frame_wf left2 right2 mnt3 met3 ids3 mask3 nestedOf embOf dictOf) in
/-- non-vacuity: the chain `tf[1:][[1, 0]]` (an index list applied to a non-zero-based view) selects
    rows 2, 1 of the source — in the nested tensor, the embedding tensor, both tensors of the dict
    and the target. -/
example : chainPositions 3 [.slice (some 1) none none, .list [1, 0]] = some [2, 1] ∧
    (frame.getitemChain (featOps RaggedEx.eqI) [.slice (some 1) none none, .list [1, 0]]).map
        (fun f' => (nestedOf f' "multicategorical", embOf f' "embedding", f'.y)) =
      some (some { numRows := 2, numCols := 2, values := [8, 9, 4, 5, 6, 7], offset := [0, 2, 2, 3, 6] },
            some { numRows := 2, numCols := 2, width := 3, values := [[7, 8, 9], [4, 5, 6]], offset := [0, 2, 3] },
            some [30, 20]) ∧
    (frame.getitemChain (featOps RaggedEx.eqI) [.slice (some 1) none none, .list [1, 0]]).map
        (fun f' => dictOf f' "text_tokenized") =
      some (some [("input_ids", { numRows := 2, numCols := 1, values := [101, 8, 9, 102, 101, 102], offset := [0, 4, 6] }),
                  ("attention_mask", { numRows := 2, numCols := 1, values := [1, 1, 1, 1, 1, 1], offset := [0, 4, 6] })]) ∧
    (MNT.grid ({ numRows := 2, numCols := 2, values := [8, 9, 4, 5, 6, 7], offset := [0, 2, 2, 3, 6] } : MNT Int)).rows
      = Grid.pick mnt3.grid.rows [2, 1] :=
  ⟨by decide, by decide, by decide, by decide⟩

end ragged

end TFVerif.C07

/-
C12 — feature encoder contract: shape, column order, finiteness, accepts all materialized data,
lazy = eager construction, unsupported pairings rejected.
Property theorems only (helper lemmas: TFVerif/Proofs/Encoder.lean, TFVerif/Proofs/EncoderC12.lean,
TFVerif/Proofs/Lazy.lean).
Every theorem is for arbitrary batch sizes, column counts, channel counts, parameter values and (where a
scalar occurs) an arbitrary scalar record `S : SOps R`.
-/
import TFVerif.Proofs.Encoder
import TFVerif.Proofs.EncoderC12
import TFVerif.Proofs.Lazy
import TFVerif.Proofs.EncoderLM
import TFVerif.Gen.Encoder

namespace TFVerif.C12
open TFVerif TFVerif.Enc

/-! ### admissibility tables (generated from the live code over the whole finite domain) -/

theorem gen_eq_model_names :
    Gen.Encoder.stypeNames = Stype.all.map Stype.name ∧ Gen.Encoder.naNames = NA.all.map NA.name ∧
    Gen.Encoder.classNames = EncClass.all.map EncClass.name ∧
    Gen.Encoder.parentIdx = Stype.all.map (fun s => s.parent.idx) := by decide

theorem gen_eq_model_supported :
    Gen.Encoder.supported = supportedTable.map (fun (_, ss) => ss.map Stype.idx) := by decide

theorem gen_eq_model_naOk : Gen.Encoder.directAccepted = directAccepted.map tripleCode := by decide

theorem gen_eq_model_wiseOk : Gen.Encoder.wiseAccepted = wiseAccepted.map tripleCode := by decide

theorem gen_eq_model_cyclicConst : Gen.Encoder.cyclicConst = cyclicConst ∧
    Gen.Encoder.timeIndex.map (·.2) = List.range 7 ∧ Gen.Encoder.timeIndex.head? = some ("YEAR", 0) := by decide

/-- unsupported stype/encoder pairings are rejected at construction: whatever the stype-wise encoder accepts is
    a parent stype, listed in the class's `supported_stypes`, with an NA strategy valid for that stype; and each of
    the nine parameterised classes serves exactly one stype -/
theorem unsupported_pairings_rejected :
    (∀ t ∈ allTriples, wiseOk t.1 t.2.1 t.2.2 = true →
        t.2.1.parent = t.2.1 ∧ t.2.1 ∈ supported t.1 ∧ naOk t.2.1 t.2.2 = true) ∧
    (∀ c ∈ EncClass.all, c ≠ .linearModel → (supported c).length = 1) ∧
    (∀ c ∈ EncClass.all, ∀ s ∈ [Stype.text_embedded, Stype.image_embedded, Stype.sequence_numerical],
        ∀ n ∈ (none :: NA.all.map some), wiseOk c s n = false) := by
  refine ⟨?_, ?_, ?_⟩ <;> decide +kernel

example : wiseOk .linear .numerical (some .mean) = true ∧ wiseOk .linear .categorical none = false ∧
    wiseOk .timestamp .timestamp (some .zeros) = false := by decide

/-! ### shape and column order -/

variable {R : Type} (S : SOps R)

/-- what `init_modules` builds from the statistics of `C` columns is well-formed for `C` columns and `ch`
    channels (all per-column parameter lists have `C` entries, all channel vectors `ch`) -/
theorem init_modules_wellformed (st : Stype) (na : Option NA) (stats : List (ColStat R)) (ch : Nat)
    (w : Weights R) (post : Post R) (e : Encoder R) (hpost : Post.WF post ch)
    (h : initModules S st na stats ch w post = some e) : Encoder.WF e stats.length ∧ e.ch = ch :=
  initModules_wf S st na stats ch w post e hpost h

/-- one stype encoder: for every batch size `B ≥ 0` the output is `[B, C, out_channels]` (and the number of
    names handed in equals `C`, otherwise the call raises) -/
theorem forward_shape (e : Encoder R) (B C n : Nat) (feat : Feat R) (o : Out R)
    (he : Encoder.WF e C) (hf : Feat.WF feat B C) (h : forward S e B C n feat = some o) :
    n = C ∧ o.b = B ∧ o.c = C ∧ o.ch = e.ch ∧ T3WF o.data B C e.ch :=
  Enc.forward_shape S e B C n feat o he hf h

def exStats : List (ColStat Int) := [.num 1 2 [0, 1, 2, 3, 4], .num 0 1 [0, 0, 0, 0, 0]]
def exEnc : Option (Encoder Int) :=
  initModules toy .numerical (some .mean) exStats 2 (.linear [[1, 2], [3, 4]] [[0, 0], [1, 1]]) .relu

example : ∃ e o, exEnc = some e ∧ Encoder.WF e 2 ∧ Feat.WF (.num [[1, 2], [3, 4], [5, 6]] : Feat Int) 3 2 ∧
    forward toy e 3 2 2 (.num [[1, 2], [3, 4], [5, 6]]) = some o ∧ o.data.length = 3 ∧
    forward toy e 0 2 2 (.num []) = some ⟨0, 2, 2, []⟩ :=
  ⟨_, _, rfl,
   (initModules_wf toy .numerical (some .mean) exStats 2 (.linear [[1, 2], [3, 4]] [[0, 0], [1, 1]]) .relu _
      trivial rfl).1,
   ⟨rfl, by decide⟩, rfl, rfl, rfl⟩

/-- `shape_and_names`: the stype-wise encoder returns `[B, Σ group sizes, ch]` for every `B ≥ 0`; the names are
    the groups' names in canonical stype order; names and every row of the tensor are concatenations over the
    same blocks, block `p` contributing `p.1.c = p.2.length` names and as many columns — i.e. the names are in
    the order of the tensor's column axis -/
theorem shape_and_names (w : Wise R) (tf : List (Enc.Group R)) (B ch : Nat) (x : Out R) (names : List String)
    (hg : ∀ s g nm e, tf.find? (·.st == s) = some g → w.colNames.lookup s = some nm → w.encoders.lookup s = some e →
          g.rows = B ∧ e.ch = ch ∧ Encoder.WF e g.cols ∧ Feat.WF g.feat B g.cols)
    (h : wiseForward S w tf = some (x, names)) :
    ∃ parts, gather (wisePart S w tf) (canonicalStypes tf) = some parts ∧
      x.b = B ∧ x.ch = ch ∧ x.c = names.length ∧ T3WF x.data B x.c ch ∧
      names = (canonicalStypes tf).flatMap (fun s => (w.colNames.lookup s).getD []) ∧
      names = parts.flatMap (·.2) ∧
      x.data = (List.range B).map (fun r => parts.flatMap fun p => p.1.data.getD r []) ∧
      ∀ p ∈ parts, GoodPart B ch p :=
  wise_shape_and_names S w tf B ch x names hg h

def exCat : Option (Encoder Int) :=
  initModules toy .categorical none [.cat 2] 2 (.embedding [[0, 0], [5, 6], [7, 8]]) .none
/-- a frame listing its blocks in non-canonical order: categorical first -/
def exTF : List (Enc.Group Int) :=
  [⟨.categorical, 2, 1, .cat [[1], [-1]]⟩, ⟨.numerical, 2, 2, .num [[1, 2], [3, 4]]⟩]
def exWise (e1 e2 : Encoder Int) : Wise Int :=
  { colNames := [(.categorical, ["k"]), (.numerical, ["a", "b"])], encoders := [(.categorical, e2), (.numerical, e1)] }

example : ∃ e1 e2 x, exEnc = some e1 ∧ exCat = some e2 ∧
    wiseForward toy (exWise e1 e2) exTF = some (x, ["a", "b", "k"]) ∧ (x.b, x.c, x.ch) = (2, 3, 2) ∧
    x.data.map (·.length) = [3, 3] ∧ cell x.data 1 2 = some [0, 0] :=
  ⟨_, _, _, rfl, rfl, rfl, rfl, rfl, rfl⟩

/-- "accepts any batch": if the encoder accepts a frame it accepts every selection of its rows — a single row,
    the empty selection (all three empty forms select no row), repetitions, permutations — with shape `[|idx|, C, ch]` -/
theorem accepts_every_batch (e : Encoder R) (B C n : Nat) (feat : Feat R) (o : Out R) (idx : List Nat)
    (h : forward S e B C n feat = some o) :
    ∃ o', forward S e idx.length C n (feat.selectRows idx) = some o' ∧ o'.b = idx.length ∧ o'.c = C ∧ o'.ch = e.ch :=
  forward_accepts_batch S e B C n feat o idx h

example : ∃ e, exEnc = some e ∧ (forward toy e 3 2 2 (.num [[1, 2], [3, 4], [5, 6]])).isSome ∧
    (forward toy e 0 2 2 ((Feat.num [[1, 2], [3, 4], [5, 6]]).selectRows [])).isSome ∧
    (forward toy e 4 2 2 ((Feat.num [[1, 2], [3, 4], [5, 6]]).selectRows [2, 2, 0, 1])).isSome :=
  ⟨_, rfl, rfl, rfl, rfl⟩

/-! ### whatever the mappers emit lies inside the encoders' domains -/

/-- `embedding_index_in_range`: with `n_c` fitted categories per column, a category index `0 ≤ v < n_c` of column
    `c` is sent to a row in `[1, Σ n]` of the shared table (which has `Σ n + 1` rows); a missing cell to row 0 -/
theorem embedding_index_in_range (ns : List Nat) (c : Nat) (hc : c < ns.length) (off v : Int)
    (hoff : (embOffsets ns)[c]? = some off) :
    (v < 0 → embIndex off v = 0) ∧
    (0 ≤ v → v < ns[c] → 1 ≤ embIndex off v ∧ embIndex off v ≤ ns.sum) :=
  ⟨fun h => by simp [embIndex, h], fun h0 h1 => embIndex_in_range ns c hc off v hoff h0 h1⟩

example : (embOffsets [3, 2, 4])[1]? = some 3 ∧ embIndex 3 1 = 5 ∧ embIndex 3 (-1) = 0 := by decide

/-- `embedding_index_injective`: distinct (column, category) pairs never share a table row -/
theorem embedding_index_injective (ns : List Nat) (c c' : Nat) (hc : c < ns.length) (hc' : c' < ns.length)
    (off off' v v' : Int)
    (hoff : (embOffsets ns)[c]? = some off) (hoff' : (embOffsets ns)[c']? = some off')
    (h0 : 0 ≤ v) (h1 : v < ns[c]) (h0' : 0 ≤ v') (h1' : v' < ns[c'])
    (heq : embIndex off v = embIndex off' v') : c = c' ∧ v = v' :=
  embIndex_injective ns c c' hc hc' off off' v v' hoff hoff' h0 h1 h0' h1' heq

example : (List.range 3).flatMap (fun c => (List.range ([3, 2, 4].getD c 0)).map fun v =>
    embIndex ((embOffsets [3, 2, 4]).getD c 0) (Int.ofNat v)) = [1, 2, 3, 4, 5, 6, 7, 8, 9] := by decide

/-- `bag_index_in_range`: every entry `-1 ≤ t < n_c` of a multicategorical cell is a legal row of the column's
    `EmbeddingBag(n_c + 1)` after the `+ 1` shift -/
theorem bag_index_in_range (table : Mat R) (n : Nat) (bag : List Int) (ht : table.length = n + 1)
    (hb : ∀ t ∈ bag, -1 ≤ t ∧ t < n) : bagInRange table bag = true :=
  bagInRange_of_bounds table n bag ht hb

example : bagInRange ([[0], [1], [2]] : Mat Int) [-1] = true ∧ bagInRange ([[0], [1], [2]] : Mat Int) [1, 0] = true ∧
    bagInRange ([[0], [1], [2]] : Mat Int) [2] = false := by decide

/-- `calendar_in_encoder_domain`: seven calendar components in the ranges the timestamp mapper emits
    (C01 `calendar_ranges`) with a year not below the fitted minimum pass the domain assertions of
    `PositionalEncoding` (year − min_year ≥ 0) and `CyclicEncoding` (0 ≤ component / constant ≤ 1) -/
theorem calendar_in_encoder_domain (minYear y mo d wd h mi s : Int)
    (hy : minYear ≤ y) (h1 : 0 ≤ mo ∧ mo ≤ 11) (h2 : 0 ≤ d ∧ d ≤ 30) (h3 : 0 ≤ wd ∧ wd ≤ 6)
    (h4 : 0 ≤ h ∧ h ≤ 23) (h5 : 0 ≤ mi ∧ mi ≤ 59) (h6 : 0 ≤ s ∧ s ≤ 59) :
    tsDomainOk cyclicConst [y, mo, d, wd, h, mi, s] minYear = true :=
  tsDomainOk_of_ranges minYear y mo d wd h mi s hy h1 h2 h3 h4 h5 h6

example : tsDomainOk cyclicConst [1999, 11, 30, 4, 23, 59, 59] 1999 = true ∧
    tsDomainOk cyclicConst [1998, 0, 0, 0, 0, 0, 0] 1999 = false ∧
    tsDomainOk cyclicConst [-1, -1, -1, -1, -1, -1, -1] 1999 = true := by decide

/-- the fitted minimum year (`YEAR_RANGE[0]`) is below every fitted year, so fitted data satisfies `hy` above -/
theorem fitted_year_ge_min (ys : List Int) : ∀ y ∈ ys, yearMin ys ≤ y := yearMin_le ys

example : yearMin [2020, 1999, 2021] = 1999 := by decide

/-- `embdim_matches_offsets`: the slices `[start, start + EMB_DIM)` the encoder cuts from `values` by
    accumulating `EMB_DIM` coincide with the container's own column offsets -/
theorem embdim_matches_offsets (dims : List Nat) (c : Nat) (hc : c < dims.length) :
    (embStarts dims)[c]? = (metOffsets dims)[c]? ∧
    ((embStarts dims)[c]?).map (· + dims[c]) = (metOffsets dims)[c + 1]? := by
  rw [embStarts_getElem?, metOffsets_getElem?, metOffsets_getElem?]
  have h1 : c ≤ dims.length := by omega
  have h2 : c + 1 ≤ dims.length := by omega
  simp [hc, h1, h2, sum_take_succ dims c hc]

example : embStarts [2, 1, 3] = [0, 2, 3] ∧ metOffsets [2, 1, 3] = [0, 2, 3, 6] := by decide

/-- `bucket_index_in_range`: the bucket index is at most the number of inner boundaries, so
    `boundaries[i, idx]` and `boundaries[i, idx + 1]` are legal for any input, NaN included -/
theorem bucket_index_in_range (bnd : List R) (x : R) (hb : 2 ≤ bnd.length) :
    bucketize S ((bnd.drop 1).dropLast) x + 1 < bnd.length := by
  have := bucketize_le S ((bnd.drop 1).dropLast) x
  simp only [List.length_dropLast, List.length_drop] at this
  omega

example : bucketize toy [1, 2, 3] 0 = 0 ∧ bucketize toy [1, 2, 3] 2 = 1 ∧ bucketize toy [1, 2, 3] 9 = 3 := by decide

/-- `encoding_never_fails` (one stype encoder): an encoder of an admissible class / NA strategy built by
    `init_modules` from the statistics of `C` columns accepts the materialized block of those columns — whose
    cells are what the mappers emit for fitted data (`Fitted`: category indices in `[-1, n_c)`, bag entries in
    `[-1, n_c)`, calendar cells inside the positional / cyclic domain, embedding rows of the fitted total width;
    numerical cells arbitrary, NaN and ±inf included) — and every batch of it: a single row, the empty selection,
    repetitions, permutations. `FittedStats` asks that the value an NA strategy imputes is itself a fitted value:
    for `most_frequent` and the timestamp strategies this follows from "one non-missing cell per column"; for
    `zeros` on a multicategorical column it is the extra assumption `1 ≤ n_c` (non-empty fitted vocabulary) — see
    the defect note in the check's report: without it the real encoder raises. -/
theorem encoding_never_fails (st : Stype) (na : Option NA) (stats : List (ColStat R)) (ch : Nat) (w : Weights R)
    (post : Post R) (e : Encoder R) (hadm : wiseOk w.cls st na = true)
    (hinit : initModules S st na stats ch w post = some e) (B : Nat) (feat : Feat R)
    (hst : feat.stype = st) (hfit : Fitted stats feat) (hstats : FittedStats na stats) :
    (∃ o, forward S e B stats.length stats.length feat = some o) ∧
    ∀ idx : List Nat, ∃ o', forward S e idx.length stats.length stats.length (feat.selectRows idx) = some o' ∧
      o'.b = idx.length ∧ o'.c = stats.length ∧ o'.ch = ch := by
  obtain ⟨o, ho⟩ := forward_total S st na stats ch w post e hadm hinit B feat hst hfit hstats
  refine ⟨⟨o, ho⟩, fun idx => ?_⟩
  obtain ⟨o', h1, h2, h3, h4⟩ := forward_accepts_batch S e B stats.length stats.length feat o idx ho
  exact ⟨o', h1, h2, h3, h4.trans (initModules_ch S st na stats ch w post e hinit)⟩

def exCatMF : Option (Encoder Int) :=
  initModules toy .categorical (some .mostFrequent) [.cat 2, .cat 1] 2 (.embedding [[0, 0], [5, 6], [7, 8], [9, 9]]) .none

example : wiseOk (Weights.embedding [[0, 0], [5, 6], [7, 8], [9, 9]] : Weights Int).cls .categorical (some .mostFrequent) = true ∧
    (∃ e, exCatMF = some e) ∧ (Feat.cat [[1, 0], [-1, -1]] : Feat Int).stype = .categorical ∧
    Fitted ([.cat 2, .cat 1] : List (ColStat Int)) (.cat [[1, 0], [-1, -1]]) ∧
    FittedStats (some .mostFrequent) ([.cat 2, .cat 1] : List (ColStat Int)) ∧
    -- and the hypothesis is not idle: an index outside the fitted range is refused
    (exCatMF.bind fun e => forward toy e 1 2 2 (.cat [[0, 1]])) = none := by
  refine ⟨by decide, ⟨_, rfl⟩, rfl, ?_, ?_, by decide⟩
  · intro r c v h n hn
    rcases r with _ | _ | r <;> rcases c with _ | _ | c <;> simp [cell, statNumCat] at h hn <;> omega
  · intro s hs
    simp only [List.mem_cons, List.not_mem_nil, or_false] at hs
    rcases hs with rfl | rfl <;> simp

/-- `stypewise_accepts_materialized`: a stype-wise encoder whose per-stype encoders were built (admissible class
    and NA strategy, `init_modules` on the stats list of the stype's columns) for a non-empty frame whose blocks
    hold fitted data accepts the frame and returns a `[B, ·, ch]` tensor with names (their order and the column
    count are `shape_and_names`); by `accepts_every_batch` / `encoding_never_fails` the same holds for every row
    selection of the frame -/
theorem stypewise_accepts_materialized (w : Wise R) (tf : List (Enc.Group R)) (B ch : Nat) (hne : tf ≠ [])
    (hg : ∀ s g, tf.find? (·.st == s) = some g → FittedBlock S w B ch s g) :
    ∃ x names, wiseForward S w tf = some (x, names) ∧ x.b = B ∧ x.ch = ch := by
  apply wise_total S w tf B ch hne
  intro s g hsg
  obtain ⟨nm, e, na, stats, wt, post, h1, h2, h3, h4, h5, h6, h7, h8, h9, h10⟩ := hg s g hsg
  refine ⟨nm, e, h1, h2, h7, initModules_ch S s na stats ch wt post e h4, ?_⟩
  rw [h5, h6]
  exact forward_total S s na stats ch wt post e h3 h4 g.rows g.feat h8 h9 h10

example : ∃ e1 e2, exEnc = some e1 ∧ exCat = some e2 ∧ exTF ≠ [] ∧
    ∀ s g, exTF.find? (·.st == s) = some g → FittedBlock toy (exWise e1 e2) 2 2 s g := by
  refine ⟨_, _, rfl, rfl, by decide, ?_⟩
  intro s g h
  cases s <;> simp [exTF] at h
  · subst h
    refine ⟨["a", "b"], _, some .mean, exStats, .linear [[1, 2], [3, 4]] [[0, 0], [1, 1]], .relu, rfl, rfl, by decide, rfl,
      rfl, rfl, rfl, rfl, trivial, ?_⟩
    intro s hs
    simp only [exStats, List.mem_cons, List.not_mem_nil, or_false] at hs
    rcases hs with rfl | rfl <;> trivial
  · subst h
    refine ⟨["k"], _, none, [.cat 2], .embedding [[0, 0], [5, 6], [7, 8]], .none, rfl, rfl, by decide, rfl,
      rfl, rfl, rfl, rfl, ?_, ?_⟩
    · intro r c v h n hn
      rcases r with _ | _ | r <;> rcases c with _ | c <;> simp [cell, statNumCat] at h hn <;> omega
    · intro s hs
      simp only [List.mem_cons, List.not_mem_nil, or_false] at hs
      subst hs
      simp

/-! ### finiteness -/

/-- `no_nan_out`: over the NaN-lifted scalar, whatever the input (any pattern of missing cells) and whatever the
    parameters, no entry of the output is NaN (post modules none / ReLU / Tanh) -/
theorem no_nan_out (e : Encoder (Option R)) (B C n : Nat) (feat : Feat (Option R)) (o : Out (Option R))
    (hp : PostNaNSafe e.post) (h : forward S.lift e B C n feat = some o) :
    ∀ row ∈ o.data, ∀ v ∈ row, ∀ x ∈ v, x.isSome = true :=
  forward_no_nan S e B C n feat o hp h

example : (forward toy.lift ⟨1, none, .stack ⟨[some 0], [some 1]⟩, .relu⟩ 2 1 1 (.num [[none], [some 4]])).map (·.data)
    = some [[[some 0]], [[some 4]]] := by decide

section field
variable {K : Type} [Field K] [LinearOrder K] [IsStrictOrderedRing K]
variable (sin cos tanh sqrt : K → K) (pow : K → K → K) (pi : K)

/-- the denominators `std + 1e-6` and `boundary_end − boundary_start + 1e-8` are non-zero in every ordered field -/
theorem denominators_nonzero (std st en : K) (h : 0 ≤ std) (hb : st ≤ en) :
    let F := fieldOps sin cos tanh sqrt pow pi
    F.isZero (F.add std (F.ofSci 1 6)) = false ∧ F.isZero (F.add (F.sub en st) (F.ofSci 1 8)) = false :=
  ⟨std_denominator_ne_zero sin cos tanh sqrt pow pi std h, bucket_denominator_ne_zero sin cos tanh sqrt pow pi st en hb⟩

/-- with the lifted scalar whose division by zero is non-finite: a non-missing cell, finite parameters and a
    non-negative standard deviation give an all-finite embedding *before* `nan_to_num` — that step only ever
    changes missing cells -/
theorem nonmissing_finite_before_nan_to_num (m std x : K) (w b : List K) (h : 0 ≤ std) :
    let L := (fieldOps sin cos tanh sqrt pow pi).lift
    ∀ y ∈ cellLinear L (some m) (L.add (some std) (L.ofSci 1 6)) (w.map some) (b.map some) (some x),
      y.isSome = true :=
  linear_nonmissing_finite sin cos tanh sqrt pow pi m std x w b h

example : (0 : Rat) ≤ 0 ∧ (fieldOps (R := Rat) id id id id (fun a _ => a) 3).isZero
    ((fieldOps (R := Rat) id id id id (fun a _ => a) 3).add 0 ((fieldOps (R := Rat) id id id id (fun a _ => a) 3).ofSci 1 6)) = false :=
  ⟨le_refl _, std_denominator_ne_zero id id id id (fun a _ => a) 3 0 (le_refl _)⟩
end field

/-! ### lazy construction (`torch_frame.nn.base.Module`) -/

open TFVerif.Lazy in
/-- `lazy_equals_eager`: whichever of the three lazy attributes are given to the constructor and in whichever of
    the six orders the others are assigned afterwards, the object ends up with exactly what eager construction
    builds: the same `init_modules` result from the same attribute values, fired once (or the same exception) -/
theorem lazy_equals_eager {V B : Type} (init : List (Option V) → Option B) (val : Attr → V) (p q : Option V)
    (given : Attr → Bool) (order : List Attr) (ho : order ∈ orders) :
    outcome ((construct init (ctorArgs given val p q)).bind fun m => setattrs init m (laterArgs given val order)) =
    outcome (construct init (ctorArgs (fun _ => true) val p q)) :=
  lazy_eq_eager init val p q given order ho

open TFVerif.Lazy in
example : outcome ((construct (fun vs => some vs) (ctorArgs (fun _ => false) (fun _ => 7) none (some 1))).bind
      fun m => setattrs (fun vs => some vs) m (laterArgs (fun _ => false) (fun _ => 7) [.stype, .outChannels, .statsList]))
    = some (some [some 7, some 7, some 7, none, some 1], 1, []) := by decide

open TFVerif.Lazy in
/-- `init_modules` fires exactly when the missing set empties outside `__init__`, and only then: after any
    constructor call followed by any sequence of assignments (any keys, `None` values, repetitions) it has run
    exactly once if nothing is missing and not at all otherwise -/
theorem init_fires_exactly_once {V B : Type} (init : List (Option V) → Option B)
    (args evs : List (Attr × Option V)) (m m' : Mod V B)
    (hc : construct init args = some m) (hs : setattrs init m evs = some m') :
    (m'.missing = [] → m'.fired = 1 ∧ m'.built.isSome = true) ∧ (m'.missing ≠ [] → m'.fired = 0 ∧ m'.built = none) :=
  (setattrs_settled init evs m m' (construct_settled init args m hc) hs).2

open TFVerif.Lazy in
/-- `incomplete_refuses`: a lazy attribute that never receives a non-`None` value (neither in the constructor
    nor later) keeps the module incomplete, and an incomplete module refuses to run -/
theorem incomplete_refuses {V B : Type} (init : List (Option V) → Option B)
    (args evs : List (Attr × Option V)) (m m' : Mod V B) (k : Attr) (hk : k ∈ lazyAttrs)
    (hargs : ∀ e ∈ args, e.1 = k → e.2 = none) (hevs : ∀ e ∈ evs, e.1 = k → e.2 = none)
    (hc : construct init args = some m) (hs : setattrs init m evs = some m') : call m' = none := by
  have h1 : k ∈ m.missing := construct_keeps_missing init args m k hk hargs hc
  have h2 : k ∈ m'.missing := setattrs_keeps_missing init evs m m' k h1 hevs hs
  unfold call validate
  cases hm : m'.missing with
  | nil => rw [hm] at h2; cases h2
  | cons a as => simp [bind, Option.bind]

open TFVerif.Lazy in
example : ((construct (fun vs => some vs) [(.outChannels, some 2), (.statsList, none), (.stype, some 1)]).bind
    fun m => (setattrs (fun vs => some vs) m [(.postModule, some 3), (.statsList, none)]).map call)
    = some (none : Option (List (Option Nat))) := by decide

/-! ## keys for stypes the data has no column of; user-model encoders (`LinearModelEncoder`) -/

/-- the pairing checks of `StypeWiseFeatureEncoder.__init__` apply to EVERY key of the encoder dictionary — also
    to a stype the dataset has no column of: an unsupported pairing or a child-stype key is rejected whether or
    not columns of that stype exist; only the NA-strategy validation (which needs statistics) is skipped for an
    absent stype, and for a present stype the check is exactly `wiseOk` -/
theorem absent_stype_keys_are_validated (c : EncClass) (st : Stype) (na : Option NA) :
    wiseKeyOk c st na true = wiseOk c st na ∧
    wiseKeyOk c st na false = (st.parent == st && (supported c).contains st) ∧
    ((supported c).contains st = false → ∀ h, wiseKeyOk c st na h = false) ∧
    ((st.parent == st) = false → ∀ h, wiseKeyOk c st na h = false) :=
  ⟨wiseKeyOk_present c st na, wiseKeyOk_absent c st na,
   fun hs h => wiseKeyOk_unsupported c st na h hs, fun hp h => wiseKeyOk_child c st na h hp⟩

example : wiseKeyOk .linear .timestamp none false = false ∧ wiseKeyOk .linear .numerical none false = true := by
  decide

/-- the stype-wise forward generalised to user-model encoders is the built-in forward on built-in encoders
    (so every theorem above about `wiseForward` is a theorem about the generalised pipeline) -/
theorem generalised_forward_is_builtin {R : Type} (S : SOps R) (names : List (Stype × List String))
    (encs : List (Stype × Encoder R)) (tf : List (Enc.Group R)) :
    wiseForwardG S { colNames := names, encoders := encs.map fun p => (p.1, AnyEncoder.builtin p.2) } tf
      = wiseForward S { colNames := names, encoders := encs } tf :=
  wiseForwardG_builtin S names encs tf

/-- `LinearModelEncoder` looks its per-column model, weight and bias up BY NAME: the insertion order of the
    user's `col_to_model_cfg` dictionary (any permutation of distinctly named entries) does not change the
    output, whose column axis therefore follows the frame's column names -/
theorem linear_model_dict_order_irrelevant {R : Type} (S : SOps R) (e : LMEncoder R) (cols' : List (LMCol R))
    (h : e.cols.Perm cols') (hn : (e.cols.map (·.name)).Nodup)
    (rows cols : Nat) (colNames : List String) (feat : Feat R) :
    lmForward S { e with cols := cols' } rows cols colNames feat = lmForward S e rows cols colNames feat :=
  lmForward_dict_order S e cols' h hn rows cols colNames feat

end TFVerif.C12

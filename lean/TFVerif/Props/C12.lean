/-
C12 — feature encoder contract.  Property theorems only (helper lemmas: TFVerif/Proofs/Encoder.lean,
TFVerif/Proofs/Lazy.lean).
-/
import TFVerif.Proofs.Encoder
import TFVerif.Gen.Encoder

namespace TFVerif.C12
open TFVerif TFVerif.Enc

/-! ### admissibility tables (generated from the live code over the whole finite domain) -/

theorem gen_eq_model_names :
    Gen.Encoder.stypeNames = Stype.all.map Stype.name ∧ Gen.Encoder.naNames = NA.all.map NA.name ∧
    Gen.Encoder.classNames = EncClass.all.map EncClass.name ∧
    Gen.Encoder.parentIdx = Stype.all.map (fun s => s.parent.idx) := by decide

theorem gen_eq_model_supported :
    Gen.Encoder.supported = supportedTable.map (fun (_, ss) => ss.map Stype.idx) := by decide

theorem gen_eq_model_naOk : Gen.Encoder.directAccepted = directAccepted.map tripleCode := by decide

theorem gen_eq_model_wiseOk : Gen.Encoder.wiseAccepted = wiseAccepted.map tripleCode := by decide

theorem gen_eq_model_cyclicConst : Gen.Encoder.cyclicConst = cyclicConst ∧
    Gen.Encoder.timeIndex.map (·.2) = List.range 7 ∧ Gen.Encoder.timeIndex.head? = some ("YEAR", 0) := by decide

end TFVerif.C12

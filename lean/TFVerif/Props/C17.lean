/-
C17 — a fitted categorical-to-numerical transform is pure, label-independent and as documented.
Property theorems only (helper lemmas: TFVerif/Proofs/CatToNum.lean).  Model:
TFVerif/Model/CatToNum.lean (`fit`, `transform` = the code after `b25a0f3`, `transformOld` = the
code before it).  `R` is an arbitrary scalar type with the operations the code uses; no algebraic
law is needed.  Witnesses (`wTrain`, `wState`, `wSub`: a 3-class fit on four rows, exact
fractions) are defined in the Proofs file.
-/
import TFVerif.Proofs.CatToNum

namespace TFVerif.C17
open TFVerif.CatToNum

variable {R : Type}

/-! ### label independence -/

/-- The features and column names of the result are the same for every label content `y` of the
    frame being transformed — absent, a subset of the classes, anything — and so is whether the call
    raises: in the code after `b25a0f3` the labels are not consulted. -/
theorem transform_ignores_labels (ops : FOps R) (st : State R) (fr : Frame R) (y : Option (Target R)) :
    (transform ops st { fr with y := y }).map Frame.feats = (transform ops st fr).map Frame.feats :=
  transform_feats_congr ops st _ _ rfl

example : (transform fracOps wState { wSub with y := none }).map Frame.feats
      = (transform fracOps wState wSub).map Frame.feats
    ∧ (transform fracOps wState wSub).isSome := by decide

/-- the labels are handed through unchanged -/
theorem transform_keeps_labels (ops : FOps R) (st : State R) (fr out : Frame R)
    (h : transform ops st fr = some out) : out.y = fr.y := by
  cases st with
  | unfitted => cases h
  | fittedNoCat ks =>
    rw [transform_noCat] at h
    split at h
    · injection h with h; rw [← h]
    · cases h
  | fitted f =>
    by_cases hcat : fr.catNames = []
    · rw [transform_fitted_nil ops f fr hcat] at h
      injection h with h; rw [← h]
    · rw [transform_fitted_some ops f fr out hcat h]

/-- The branch of the code before `b25a0f3` (output width chosen from `tf.y.max() > 1` of the frame
    being transformed) does depend on the labels: after a 3-class fit, two training rows whose own
    labels are `0, 1` raise, the same rows without labels raise, the full training frame does not —
    while the fixed code transforms all three. -/
theorem old_branch_depends_on_labels :
    transformOld fracOps wState wSub = none ∧
    transformOld fracOps wState { wSub with y := none } = none ∧
    (transformOld fracOps wState wTrain).isSome = true ∧
    (transform fracOps wState wSub).isSome = true ∧
    (transform fracOps wState { wSub with y := none }).isSome = true := by decide

/-! ### row-wise, as documented -/

/-- Whenever the transform returns, every output row is the documented function `rowSpec` of the
    corresponding input row alone (numerical entries first, then per categorical column and
    non-reference class the smoothed estimate; a missing category is treated as category 0);
    the numerical names are followed by the generated names, no categorical column remains. -/
theorem transform_rowwise (ops : FOps R) (f : Fitted R) (fr out : Frame R) (hcat : fr.catNames ≠ [])
    (hwf : fr.WF) (h : transform ops (.fitted f) fr = some out) :
    out.rows = fr.rows.map (rowSpec ops f fr.catNames) ∧
      out.numNames = fr.numNames ++ f.newColumns ∧ out.catNames = [] := by
  refine ⟨transform_fitted_rowSpec ops f fr out hcat hwf h, ?_, ?_⟩ <;>
    rw [transform_fitted_some ops f fr out hcat h]

example : transform fracOps wState wTrain = some
    { numNames := ["n", "c_0", "c_1"], catNames := [],
      rows := wTrain.rows.map (rowSpec fracOps wFitted ["c"]), y := wTrain.y } := by decide

/-- Row subsets (in particular single rows): transforming `tf[idx]` gives the rows `idx` of
    transforming `tf` — a row's result does not depend on which other rows are in the frame. -/
theorem transform_subset (ops : FOps R) (f : Fitted R) (fr out out' : Frame R) (idx : List Nat)
    (hcat : fr.catNames ≠ []) (hwf : fr.WF) (h : transform ops (.fitted f) fr = some out)
    (h' : transform ops (.fitted f) (fr.selectRows idx) = some out') :
    out'.rows = idx.filterMap (out.rows[·]?) ∧ out'.numNames = out.numNames := by
  have hwf' : (fr.selectRows idx).WF := by
    intro row hrow
    simp only [Frame.selectRows, List.mem_filterMap] at hrow
    obtain ⟨i, _, hi⟩ := hrow
    exact hwf row (List.mem_of_getElem? hi)
  have h1 := transform_rowwise ops f fr out hcat hwf h
  have h2 := transform_rowwise ops f (fr.selectRows idx) out' hcat hwf' h'
  refine ⟨?_, by rw [h1.2.1, h2.2.1]; rfl⟩
  rw [h2.1, h1.1]
  simp only [Frame.selectRows, List.map_filterMap, List.getElem?_map]

/-- ... and the subset does transform, as soon as every categorical column has a non-missing entry in it. -/
theorem transform_subset_ok (ops : FOps R) (f : Fitted R) (fr out : Frame R) (idx : List Nat)
    (hcat : fr.catNames ≠ []) (h : transform ops (.fitted f) fr = some out)
    (hpresent : ∀ i, i < fr.catNames.length →
      ∃ row ∈ (fr.selectRows idx).rows, ¬ (row.cat.getD i (-1) < 0)) :
    (transform ops (.fitted f) (fr.selectRows idx)).isSome = true := by
  have hg : okGuard f fr = true := by rw [← transform_isSome_iff ops f fr hcat, h]; rfl
  rw [transform_isSome_iff ops f (fr.selectRows idx) hcat]
  refine okGuard_subset f fr (fr.selectRows idx) rfl ?_ hpresent hg
  intro row hrow
  simp only [Frame.selectRows, List.mem_filterMap] at hrow
  obtain ⟨i, _, hi⟩ := hrow
  exact List.mem_of_getElem? hi

example : transform fracOps wState (wTrain.selectRows [2]) = some
    { numNames := ["n", "c_0", "c_1"], catNames := [], rows := [⟨[(30, 1), (6, 20), (5, 20)], []⟩],
      y := some (.ints [2]) } := by decide

/-- The documented value: in the output row, the numerical entries come first, and entry
    `nnum + i·(K−1) + k` is `(count_i[c] + prior_k) / (N + 1)` where `c` is the row's category in
    column `i` (category 0, the most frequent, if missing). -/
theorem value_formula (ops : FOps R) (f : Fitted R) (catNames : List String) (row : Row R)
    (hcat : row.cat.length = catNames.length) (i k : Nat) (hi : i < catNames.length)
    (hk : k < f.targetMean.length) :
    (rowSpec ops f catNames row).num.take row.num.length = row.num ∧
    (rowSpec ops f catNames row).num[row.num.length + (i * f.targetMean.length + k)]? =
      some (ops.div
        (ops.add (ops.ofInt (((f.colStats.lookup catNames[i]).getD []).getD (fixNeg (row.cat[i])).toNat 0 : Nat))
          f.targetMean[k])
        (ops.ofInt ((f.dataSize : Int) + 1))) := by
  constructor
  · simp [rowSpec]
  · simp only [rowSpec]
    rw [List.getElem?_append_right (by omega), Nat.add_sub_cancel_left,
      flatMap_uniform_getElem? _ f.targetMean.length _ (by intro x _; simp [estimate]) i k hk]
    have hz : (catNames.zip row.cat)[i]? = some (catNames[i], row.cat[i]) := by
      simp [List.getElem?_zip_eq_some, hi, hcat ▸ hi]
    rw [hz]
    simp [estimate, hk]

example : (rowSpec fracOps wFitted ["c"] ⟨[(40, 1)], [-1]⟩).num = [(40, 1), (14, 20), (13, 20)] := by decide

/-! ### what `fit` computes -/

/-- After a successful fit on a frame with categorical columns: counts are the statistics handed
    in, `N` is the number of training rows, the generated names are `"{col}_{k}"` for every
    categorical column and `k < K−1` (column-major), and the transformed-statistics keys are the
    numerical names followed by the generated ones (dict insertion order). -/
theorem fit_state (ops : FOps R) (fr : Frame R) (cs : List (String × List Nat)) (ks : List String) (f : Fitted R)
    (h : fit ops fr cs ks = some (.fitted f)) :
    f.colStats = cs ∧ f.dataSize = fr.rows.length ∧
      f.newColumns = (fr.catNames.flatMap fun c => (List.range (f.numClasses - 1)).map (genName c)) ∧
      f.statsKeys = (fr.numNames ++ f.newColumns).foldl insertKey [] ∧
      ∃ y, fr.y = some y ∧ prior ops y = some (f.numClasses, f.targetMean) := by
  obtain ⟨y, K, mean, hy, hp, _, rfl⟩ := fit_fitted ops fr cs ks f h
  exact ⟨rfl, rfl, rfl, rfl, y, hy, hp⟩

/-- the prior: regression / binary targets give the target mean (NaN targets dropped), `K = 2` -/
theorem prior_mean (ops : FOps R) (ys : List R) (hnan : ∀ v ∈ ys, ops.isNaN v = false) :
    prior ops (.floats ys) = some (2, [meanR ops ys]) := by
  have h1 : ys.any ops.isNaN = false := by
    rw [List.any_eq_false]; intro v hv; simp [hnan v hv]
  have h2 : ys.filter (fun v => !ops.isNaN v) = ys := by
    rw [List.filter_eq_self]; intro v hv; simp [hnan v hv]
  simp [prior, h1, h2]

/-- binary integer labels: the mean of the labels, `K = 2` -/
theorem prior_binary (ops : FOps R) (ys : List Int) (mx : Int) (hmax : ys.max? = some mx) (hle : mx ≤ 1) :
    prior ops (.ints ys) = some (2, [meanR ops (ys.map ops.ofInt)]) := by
  have : ¬ mx > 1 := by omega
  simp [prior, hmax, this]

/-- multiclass labels (`max > 1`, none negative): `K = max + 1` and the prior of class `k < K−1` is
    its relative frequency (the mean of its indicator); the last class is the reference. -/
theorem prior_multiclass (ops : FOps R) (ys : List Int) (mx : Int) (hmax : ys.max? = some mx) (hgt : mx > 1)
    (hnn : ∀ v ∈ ys, ¬ v < 0) :
    prior ops (.ints ys) = some (mx.toNat + 1, (List.range mx.toNat).map fun (k : Nat) =>
      meanR ops (ys.map fun v => if v = Int.ofNat k then ops.ofInt 1 else ops.ofInt 0)) := by
  have h1 : ys.any (· < 0) = false := by
    rw [List.any_eq_false]; intro v hv; simpa using hnn v hv
  simp [prior, hmax, hgt, h1, classFreqs]

example : fit fracOps wTrain wStats wKeys = some (.fitted wFitted) := by decide

/-! ### names and statistics -/

/-- One-to-one correspondence: if the numerical names and the generated names are pairwise distinct,
    the output's column names *are* the key list of the transformed statistics (same names, same
    order, no repetition) — numerical columns first, then `"{col}_{k}"`. -/
theorem names_match_stats (ops : FOps R) (fr tfr out : Frame R) (cs : List (String × List Nat)) (ks : List String)
    (f : Fitted R) (hfit : fit ops fr cs ks = some (.fitted f))
    (hnodup : (fr.numNames ++ f.newColumns).Nodup)
    (hschema : tfr.numNames = fr.numNames) (hcat : tfr.catNames ≠ [])
    (h : transform ops (.fitted f) tfr = some out) :
    out.numNames = f.statsKeys ∧ out.numNames.Nodup ∧ out.numNames = fr.numNames ++ f.newColumns := by
  obtain ⟨_, _, _, hkeys, _⟩ := fit_state ops fr cs ks f hfit
  have hn : out.numNames = fr.numNames ++ f.newColumns := by
    rw [transform_fitted_some ops f tfr out hcat h, hschema]
  refine ⟨?_, by rw [hn]; exact hnodup, hn⟩
  rw [hn, hkeys, foldl_insertKey_nil _ hnodup]

example : (wTrain.numNames ++ wFitted.newColumns).Nodup ∧ wFitted.statsKeys = ["n", "c_0", "c_1"] := by decide

/-- The distinctness hypothesis of `names_match_stats` is needed: when a numerical column carries the
    name of a generated column (`"c_0"` next to the categorical column `"c"`) the output has two
    columns of that name but the transformed statistics one key.  (The real code behaves the same;
    such a name clash is outside the frames the property quantifies over.) -/
theorem name_clash_breaks_bijection :
    let st := fit fracOps wCollide [("c", [2, 1])] ["c_0", "c", "y"]
    (st.map fun | .fitted f => f.statsKeys | _ => []) = some ["c_0"] ∧
      ((st.bind fun st => transform fracOps st wCollide).map (·.numNames)) = some ["c_0", "c_0"] := by
  decide

/-! ### raising -/

/-- using the transform before fitting raises, whatever the frame -/
theorem unfitted_raises (ops : FOps R) (fr : Frame R) : transform ops .unfitted fr = none := rfl

/-- a fit that raises leaves the object unfitted: e.g. a training frame without target -/
theorem fit_without_target_raises (ops : FOps R) (fr : Frame R) (cs : List (String × List Nat)) (ks : List String)
    (h : fr.y = none) : fit ops fr cs ks = none := by
  unfold fit; rw [h]

/-- a category index not seen at fit time (`≥ len(count)`) raises -/
theorem unseen_raises (ops : FOps R) (f : Fitted R) (fr : Frame R) (i : Nat) (hi : i < fr.catNames.length)
    (row : Row R) (hrow : row ∈ fr.rows) (count : List Nat)
    (hcount : f.colStats.lookup (fr.catNames.getD i "") = some count)
    (hunseen : (count.length : Int) ≤ row.cat.getD i (-1)) :
    transform ops (.fitted f) fr = none := by
  have hcat : fr.catNames ≠ [] := by intro h0; rw [h0] at hi; simp at hi
  have := transform_isSome_iff ops f fr hcat
  rw [okGuard_unseen f fr i hi row hrow count hcount hunseen] at this
  cases h : transform ops (.fitted f) fr with
  | none => rfl
  | some _ => rw [h] at this; cases this

example : transform fracOps wState { wSub with rows := [⟨[(1, 1)], [2]⟩] } = none
    ∧ transform fracOps wState { wSub with rows := [⟨[(1, 1)], [1]⟩] } ≠ none := by decide

/-! ### state_dict round trip -/

/-- `CatToNumTransform().load_state_dict(t.state_dict())` is in the same state as `t`, hence transforms
    every frame identically (and exposes the same transformed-statistics keys). -/
theorem state_dict_roundtrip (ops : FOps R) (st : State R) (fr : Frame R) :
    roundTrip st = st ∧ transform ops (roundTrip st) fr = transform ops st fr := by
  have h : roundTrip st = st := by
    cases st <;> simp [roundTrip, attrsOf, updateAttrs, setAttr, stateOf, List.lookup]
  exact ⟨h, by rw [h]⟩

example : roundTrip wState = wState ∧ wState ≠ .unfitted := by decide

end TFVerif.C17

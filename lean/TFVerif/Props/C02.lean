/-
C02 — materialization is positional and produces a canonical schema.
Property theorems only (helper lemmas live in TFVerif/Proofs/{Mapper,Convert,ConvertC02}.lean).

Model: TFVerif/Model/{Pandas,Mapper,Convert}.lean.  A DataFrame `DF L F` CARRIES its index labels
(`labels : List L`, any label type); `Conv.mapCol` hands them to every mapper (`forward cfg s df.labels cells`)
and `fitStats` hands them to the EMB_DIM statistic — so "the labels are never consulted" is a theorem about the
model, not a consequence of the labels being absent from it.  The two label-consulting expressions the code used
before its fixes (`value_counts` on the caller's labels + `reindex`; `ser[0]`) are in the model too
(`multicatForwardLabelled`, `embDimLabelled`) and are shown NOT to satisfy the theorems.
Python dicts are association lists; `DictEq` is Python's dict equality (same value under every key).
-/
import TFVerif.Proofs.ConvertC02
import TFVerif.Gen.Stype

namespace TFVerif.C02
open TFVerif.Mat

/-! ### generated tables (evaluated from the live package over their whole domain on every run) -/

theorem gen_eq_model_stypes : Gen.Stype.stypes = Stype.all.map Stype.name := by decide

theorem gen_eq_model_parent : Gen.Stype.parent = Stype.all.map (fun s => (s.name, s.parent.name)) := by decide

theorem gen_eq_model_useNested : Gen.Stype.useNested = Stype.all.map (fun s => (s.name, s.useNested)) := by decide

theorem gen_eq_model_useEmbedding : Gen.Stype.useEmbedding = Stype.all.map (fun s => (s.name, s.useEmbedding)) := by
  decide

theorem gen_eq_model_useDict : Gen.Stype.useDict = Stype.all.map (fun s => (s.name, s.useDict)) := by decide

/-- the order in which `_merge_feat` visits the stypes of a frame -/
theorem gen_eq_model_childOrder : Gen.Stype.childOrder = childOrder.map Stype.name := by decide

/-- `Dataset.task_type` for every target stype × class count 0..6, "raises" for `none` -/
theorem gen_eq_model_taskType :
    Gen.Stype.taskType =
      Stype.all.flatMap fun s => (List.range 7).map fun k => (s.name, k, (taskType s k).getD "raises") := by
  decide

/-! ### the example frame of the non-vacuity checks: duplicate labels, every storage kind, a merged child stype -/

def exVc : String → List Key → List Key := fun _ obs => obs.eraseDups

def exEmb : String → String → List (Val Nat) := fun _ s => if s = "hi" then [.flt 1, .flt 1] else [.flt 0, .flt 2]

def exCols : List (Col Nat) :=
  [ { name := "b", stype := .numerical, cells := [.num 1, .missing, .num 3] },
    { name := "a", stype := .categorical, cells := [.cat (.str "x"), .cat (.str "y"), .cat (.str "x")] },
    { name := "m", stype := .multicategorical, cells := [.toks [.str "p", .str "q"], .missing, .toks []] },
    { name := "t", stype := .text_embedded, cells := [.text "hi", .text "yo", .text ""] },
    { name := "e", stype := .embedding, cells := [.vec [.flt 1, .flt 2], .missing, .vec [.flt 3, .flt 4]] },
    { name := "B", stype := .numerical, cells := [.num 5, .num 6, .num 7] },
    { name := "y", stype := .categorical, cells := [.cat (.str "u"), .cat (.str "v"), .cat (.str "u")] } ]

/-- labels as left behind by `df.iloc[[7, 7, 3]]` -/
def exDF : DF Nat Nat := { labels := [7, 7, 3], cols := exCols }

private theorem exDF_ok : ConvFrameOK (fitConv exVc (some "y") exEmb exDF) exDF :=
  convFrameOK_of_check _ _ (by decide)

/-! ### the index labels are never consulted -/

/-- **Relabel invariance.**  Materializing the same frame under ANY other index — any label type, duplicates,
    strings, a permutation, an offset — gives the same result: the same TensorFrame (all of `feat_dict`,
    `col_names_dict`, `y`), the same statistics and the same converter.  No typed-domain hypothesis: it holds
    whenever the label list has one label per row, also when materialization raises (`none = none`). -/
theorem relabel_invariant {L L' F : Type} (vc : String → List Key → List Key) (target : Option String)
    (embedders : String → String → List (Val F)) (df : DF L F) (ls : List L') (h : ls.length = df.labels.length) :
    materialize vc target embedders (df.withLabels ls) = materialize vc target embedders df :=
  materialize_withLabels vc target embedders df ls h

example : (["s", "s", "z"] : List String).length = exDF.labels.length ∧
    (materialize exVc (some "y") exEmb (exDF.withLabels ["s", "s", "z"])).isSome = true := by decide

/-- … and so is every later converter call (`convert_to_tensor_frame` on `df.iloc[idx]`, whose labels repeat). -/
theorem relabel_invariant_converter {L L' F : Type} (cv : Conv F) (df : DF L F) (ls : List L')
    (h : ls.length = df.labels.length) : cv.call (df.withLabels ls) = cv.call df :=
  call_withLabels cv df ls h

example : ((fitConv exVc (some "y") exEmb exDF).call (exDF.withLabels ["s", "s", "z"])).isSome = true := by decide

/-- The multicategorical mapper as it was before fix 9b32825 (per-label counts re-indexed by the CALLER's labels)
    violates relabel invariance: the default index gives the two one-token cells, the duplicated index of
    `df.iloc[[0, 0]]` a malformed container; the fixed mapper gives the same cells under both.  (finding F3) -/
theorem label_consulting_multicat_breaks :
    (multicatForwardLabelled [Key.str "a"] [(0 : Nat), 1] [Cell.toks [.str "a"], Cell.toks [.str "a"]]
        : MNT (Val Nat)) = mntOfCol [[.int 0], [.int 0]] ∧
    (multicatForwardLabelled [Key.str "a"] [(0 : Nat), 0] [Cell.toks [.str "a"], Cell.toks [.str "a"]]
        : MNT (Val Nat)).validate = false ∧
    (multicatForward [Key.str "a"] [(0 : Nat), 0] [Cell.toks [.str "a"], Cell.toks [.str "a"]] : MNT (Val Nat)) =
      multicatForward [Key.str "a"] [(0 : Nat), 1] [Cell.toks [.str "a"], Cell.toks [.str "a"]] := by
  decide

/-- The EMB_DIM statistic as it was before fix e895d09 (`len(ser[0])`, a LABEL lookup) violates relabel
    invariance: fine under the default index, `KeyError` (`none`) under an offset index, and under a permuted
    index it reads another row (here a missing one was dropped first, so again `KeyError`); the positional
    `iloc[0]` of the fixed code gives 2 under all three.  (finding F4) -/
theorem label_consulting_embdim_breaks :
    let cells : List (Cell Nat) := [.vec [.flt 1, .flt 2], .missing, .vec [.flt 3, .flt 4]]
    embDimLabelled (0 : Nat) [0, 1, 2] cells = some 2 ∧
    embDimLabelled (0 : Nat) [1, 2, 3] cells = none ∧
    embDimLabelled (0 : Nat) [2, 0, 1] cells = none ∧
    embDim [(0 : Nat), 1, 2] cells = 2 ∧ embDim [(1 : Nat), 2, 3] cells = 2 ∧ embDim [(2 : Nat), 0, 1] cells = 2 := by
  decide

/-! ### the order of the columns is irrelevant -/

/-- **Column-permutation invariance.**  For every permutation of the DataFrame's columns (the model's `Dataset`
    reads `col_to_stype` in column order, so both orders move), materialization succeeds on both and yields
    equal dicts `col_names_dict` and `feat_dict` (for every stype the SAME list of names and the SAME feature
    tensor), the same `y`, the same number of rows, equal `col_stats`, an equal converter table, and — read through
    the frames' own lookup tables — the same entry for every row of every feature column.
    (`sortNames (perm xs) = sortNames xs`; the order of the dict's KEYS may differ, which Python's `==` ignores.) -/
theorem colperm_invariant {L F : Type} (vc : String → List Key → List Key) (target : Option String)
    (embedders : String → String → List (Val F)) (df df' : DF L F)
    (hl : df'.labels = df.labels) (hp : df'.cols.Perm df.cols)
    (hok : ConvFrameOK (fitConv vc target embedders df) df) :
    ∃ m m', materialize vc target embedders df = some m ∧ materialize vc target embedders df' = some m' ∧
      DictEq m'.tf.names m.tf.names ∧ DictEq m'.tf.feats m.tf.feats ∧ m'.tf.y = m.tf.y ∧
      m'.tf.numRows = m.tf.numRows ∧ DictEq m'.stats m.stats ∧ DictEq m'.conv.names m.conv.names ∧
      (∀ c ∈ df.cols, some c.name ≠ target → ∀ i, i < df.numRows → m'.tf.cell c.name i = m.tf.cell c.name i) := by
  have hnd : (df.cols.map (·.name)).Nodup := by
    have := hok.c2s_nodup
    rwa [show (fitConv vc target embedders df).colToStype = df.colToStype from rfl, colToStype_names] at this
  have hn : df'.numRows = df.numRows := by simp [DF.numRows, hl]
  obtain ⟨tf, cv1, tf', cv1', h1, h2, hN, hF, hY, hC, hcell⟩ :=
    call_colperm (fitConv vc target embedders df) (fitConv vc target embedders df') df df' rfl rfl
      (hp.map _) rfl (fitStats_perm vc target df df' hl hp hnd) rfl hl hp hnd hok
  have hcall := callOK_fresh _ df rfl hok
  have hok' : ConvFrameOK (fitConv vc target embedders df') df' :=
    convFrameOK_congr _ _ df df' hok (hp.map _) rfl
      (cfg_congr _ _ (fitStats_perm vc target df df' hl hp hnd) rfl) (col?_perm df df' hp hnd) hn
  have hcall' := callOK_fresh _ df' rfl hok'
  refine ⟨_, _, by rw [materialize_eq, h1]; rfl, by rw [materialize_eq, h2]; rfl, hN, hF, hY, ?_,
    updateEmbDim_dictEq tf tf' _ _ hF hN (fitStats_perm vc target df df' hl hp hnd), hC, ?_⟩
  · show tf'.numRows = tf.numRows
    rw [call_numRows _ _ df _ hcall tf h1, call_numRows _ _ df' _ hcall' tf' h2, hn]
  · intro c hc ht i hi
    exact hcell c.name i (listed _ df rfl rfl c hc ht) hi

example : exDF.cols.reverse.Perm exDF.cols ∧
    ConvFrameOK (fitConv exVc (some "y") exEmb exDF) exDF ∧
    ((materialize exVc (some "y") exEmb { exDF with cols := exDF.cols.reverse }).map (·.tf.names)) =
      some [(.numerical, ["B", "b"]), (.embedding, ["e", "t"]), (.multicategorical, ["m"]), (.categorical, ["a"])] ∧
    ((materialize exVc (some "y") exEmb exDF).map (·.tf.names)) =
      some [(.numerical, ["B", "b"]), (.categorical, ["a"]), (.multicategorical, ["m"]), (.embedding, ["e", "t"])] :=
  ⟨List.reverse_perm _, exDF_ok, by decide, by decide⟩

/-- **… with independent orders of `col_to_stype` and of the DataFrame's columns** (converter level): a fresh
    converter built from a permuted `col_to_stype` and a dict-equal `col_stats`, applied to a frame whose columns
    are permuted by ANOTHER permutation, returns the same frame as the original converter on the original frame. -/
theorem colperm_invariant_converter {L F : Type} (cv cv' : Conv F) (df df' : DF L F)
    (hfresh : cv.names = colNamesDict cv.colToStype cv.target)
    (hfresh' : cv'.names = colNamesDict cv'.colToStype cv'.target)
    (hc2s : cv'.colToStype.Perm cv.colToStype) (ht : cv'.target = cv.target)
    (hs : DictEq cv'.stats cv.stats) (he : cv'.embedders = cv.embedders)
    (hl : df'.labels = df.labels) (hp : df'.cols.Perm df.cols) (hnd : (df.cols.map (·.name)).Nodup)
    (hok : ConvFrameOK cv df) :
    ∃ tf cv1 tf' cv1', cv.call df = some (tf, cv1) ∧ cv'.call df' = some (tf', cv1') ∧
      DictEq tf'.names tf.names ∧ DictEq tf'.feats tf.feats ∧ tf'.y = tf.y ∧ DictEq cv1'.names cv1.names ∧
      (∀ name i, (∃ g ∈ cv.names, name ∈ g.2) → i < df.numRows → tf'.cell name i = tf.cell name i) :=
  call_colperm cv cv' df df' hfresh hfresh' hc2s ht hs he hl hp hnd hok

example :
    let cv := fitConv exVc (some "y") exEmb exDF
    let cv' : Conv Nat :=
      Conv.init (cv.colToStype.drop 3 ++ cv.colToStype.take 3) cv.target cv.stats.reverse cv.embedders
    cv'.names = colNamesDict cv'.colToStype cv'.target ∧ cv'.colToStype.Perm cv.colToStype ∧
      DictEq cv'.stats cv.stats ∧ (exDF.cols.map (·.name)).Nodup ∧
      (cv'.call { exDF with cols := exDF.cols.reverse }).isSome = true := by
  refine ⟨rfl, ?_, ?_, by decide, by decide⟩
  · have h := List.perm_append_comm (l₁ := (fitConv exVc (some "y") exEmb exDF).colToStype.drop 3)
      (l₂ := (fitConv exVc (some "y") exEmb exDF).colToStype.take 3)
    rwa [List.take_append_drop] at h
  · intro k
    exact dictGet_perm_nodup _ _ (List.reverse_perm _) (by decide) k

/-! ### the canonical schema -/

/-- **Schema of the name table** `col_names_dict` after materialization (`names` below), for every
    `col_to_stype` and target:
    * its keys are distinct and the group under stype `s` is `schemaGroup s`, present iff non-empty;
    * every group other than the embedding group is the sorted list of the non-target columns of that stype;
    * the embedding group is `sorted(embedding) ++ sorted(text_embedded) ++ sorted(image_embedded)` and the two
      child stypes have no group of their own;
    * a listed name is never the target and is a column of `col_to_stype` whose stype's parent is the group;
    * with distinct column names, every non-target column is listed EXACTLY ONCE in the whole table, namely in
      the group of its stype's parent, and the target is listed nowhere. -/
theorem schema_names (c2s : List (String × Stype)) (t : Option String) :
    let names := mergeNames (colNamesDict c2s t)
    (names.map (·.1)).Nodup ∧
    (∀ s, dictGet names s = optL (schemaGroup c2s t s)) ∧
    (∀ s, s ≠ .embedding → s.parent = s → schemaGroup c2s t s = sortNames (groupOf c2s t s)) ∧
    (∀ s, (sortNames (groupOf c2s t s)).Pairwise (· ≤ ·) ∧ ∀ c, c ∈ sortNames (groupOf c2s t s) ↔ c ∈ groupOf c2s t s) ∧
    (schemaGroup c2s t .embedding = sortNames (groupOf c2s t .embedding) ++ sortNames (groupOf c2s t .text_embedded) ++
        sortNames (groupOf c2s t .image_embedded) ∧
      schemaGroup c2s t .text_embedded = [] ∧ schemaGroup c2s t .image_embedded = []) ∧
    (∀ s c, c ∈ schemaGroup c2s t s → some c ≠ t ∧ ∃ s', (c, s') ∈ c2s ∧ s'.parent = s) ∧
    ((c2s.map (·.1)).Nodup → ∀ c s, (c, s) ∈ c2s → some c ≠ t →
      (names.flatMap (·.2)).count c = 1 ∧ c ∈ schemaGroup c2s t s.parent) ∧
    (∀ tc, t = some tc → tc ∉ names.flatMap (·.2)) := by
  refine ⟨mergeNames_keys _ (keys_colNamesDict c2s t), dictGet_final c2s t, ?_, ?_, ⟨rfl, rfl, rfl⟩, ?_, ?_, ?_⟩
  · intro s h1 h2
    cases s <;> first | rfl | exact absurd rfl h1 | exact absurd h2 (by decide)
  · intro s
    exact ⟨sortNames_sorted _, mem_sortNames _⟩
  · intro s c hc
    have key : ∀ s', c ∈ sortNames (groupOf c2s t s') → some c ≠ t ∧ (c, s') ∈ c2s := by
      intro s' h
      rw [mem_sortNames, mem_groupOf] at h
      exact ⟨h.2, h.1⟩
    cases s <;> simp only [schemaGroup, List.mem_append, List.not_mem_nil] at hc
    all_goals first
      | (obtain ⟨h1, h2⟩ := key _ hc; exact ⟨h1, _, h2, rfl⟩)
      | (rcases hc with (hc | hc) | hc <;> (obtain ⟨h1, h2⟩ := key _ hc; exact ⟨h1, _, h2, rfl⟩))
  · intro hnd c s h ht
    refine ⟨count_final c2s t hnd c s h ht, ?_⟩
    have := count_schemaGroup c2s t hnd c s h ht s.parent
    rw [if_pos rfl] at this
    exact List.count_pos_iff.mp (by omega)
  · intro tc htc
    subst htc
    exact not_mem_final_of_target c2s tc

example :
    (mergeNames (colNamesDict exDF.colToStype (some "y"))) =
      [(.numerical, ["B", "b"]), (.categorical, ["a"]), (.multicategorical, ["m"]), (.embedding, ["e", "t"])] ∧
    (exDF.colToStype.map (·.1)).Nodup ∧ exDF.colToStype.length = 7 := by decide

/-- **Schema of the materialized frame.**  Inside the typed domain `Dataset.materialize()` succeeds; the frame's
    `col_names_dict` IS the canonical merged table of `schema_names` (and so is the converter's, which is the same
    object); the frame passes `TensorFrame.validate` (same keys in `feat_dict` and `col_names_dict`, as many
    feature columns as names in every group, one row count everywhere); it has exactly `len(df)` rows; `y` is the
    target column through its own mapper, and is absent exactly when there is no target column. -/
theorem schema {L F : Type} (vc : String → List Key → List Key) (target : Option String)
    (embedders : String → String → List (Val F)) (df : DF L F)
    (hok : ConvFrameOK (fitConv vc target embedders df) df) :
    ∃ m, materialize vc target embedders df = some m ∧
      m.tf.names = mergeNames (colNamesDict df.colToStype target) ∧
      m.conv.names = m.tf.names ∧
      m.tf.validate = true ∧
      m.tf.numRows = df.numRows ∧
      m.tf.y = (fitConv vc target embedders df).yOf df ∧
      (m.tf.y = none ↔ ∀ t, target = some t → df.col? t = none) := by
  have hcall := callOK_fresh _ df rfl hok
  have hspec := call_spec _ df df.numRows hcall
  obtain ⟨hv, hy, hn, _⟩ := call_facts _ _ df _ hspec
  refine ⟨_, by rw [materialize_eq, hspec]; rfl, rfl, rfl, hv, call_numRows _ _ df _ hcall _ hspec, rfl, ?_⟩
  show (fitConv vc target embedders df).yOf df = none ↔ _
  simp only [Conv.yOf, fitConv, Conv.init]
  cases target with
  | none => simp
  | some t => simp [Conv.mapCol]

example : ConvFrameOK (fitConv exVc (some "y") exEmb exDF) exDF ∧
    (materialize exVc (some "y") exEmb exDF).map (fun m => (m.tf.numRows, m.tf.y.map (·.cells))) =
      some (3, some [[.int 0], [.int 1], [.int 0]]) := ⟨exDF_ok, by decide⟩

/-! ### task type and class count -/

/-- **`Dataset.task_type` as a function of the target's stype and class count** (all class counts, not only the
    0..6 of the generated table): regression for a numerical target whatever the count; for a categorical target
    binary iff 2 classes, multiclass iff ≥ 3, raises (`none`, the documented `num_classes > 1` guard) iff ≤ 1;
    every other target stype raises. -/
theorem task_type_table (k : Nat) :
    taskType .numerical k = some "regression" ∧
    (taskType .categorical k = some "binary_classification" ↔ k = 2) ∧
    (taskType .categorical k = some "multiclass_classification" ↔ 3 ≤ k) ∧
    (taskType .categorical k = none ↔ k ≤ 1) ∧
    (∀ s, s ≠ .numerical → s ≠ .categorical → taskType s k = none) := by
  refine ⟨rfl, ?_, ?_, ?_, ?_⟩
  · unfold taskType
    by_cases h1 : k ≤ 1
    · simp [h1]; omega
    · by_cases h2 : k = 2
      · simp [h2]
      · simp [h1, h2]
  · unfold taskType
    by_cases h1 : k ≤ 1
    · simp [h1]; omega
    · by_cases h2 : k = 2
      · simp [h2]
      · simp [h1, h2]; omega
  · unfold taskType
    by_cases h1 : k ≤ 1
    · simp [h1]
    · by_cases h2 : k = 2
      · simp [h2]
      · simp [h1, h2]
  · intro s h1 h2
    cases s <;> first | rfl | exact absurd rfl h1 | exact absurd rfl h2

example : taskType .categorical 2 = some "binary_classification" ∧ taskType .categorical 9 = some "multiclass_classification" ∧
    taskType .categorical 1 = none ∧ taskType .timestamp 2 = none := by decide

/-- **The class count matches the target column.**  For a categorical target whose fitted category list is an
    admissible `value_counts` index of the column (`validCats`: duplicate-free, exactly the observed values —
    checked against the real list on every correspondence run), `num_classes` of the materialized dataset is the
    number of DISTINCT non-missing values of the target column, and the task type is the one `task_type_table`
    assigns to that number. -/
theorem num_classes_matches_target {L F : Type} (vc : String → List Key → List Key) (t : String)
    (embedders : String → String → List (Val F)) (df : DF L F) (m : Materialized F)
    (hm : materialize vc (some t) embedders df = some m) (c : Col F) (hc : c ∈ df.cols) (hn : c.name = t)
    (hs : c.stype = .categorical) (hnd : (df.cols.map (·.name)).Nodup)
    (hvalid : validCats (vc t (c.cells.filterMap cellKey)) (c.cells.filterMap cellKey) = true) :
    numClasses m.stats t = (c.cells.filterMap cellKey).eraseDups.length ∧
    taskType c.stype (numClasses m.stats t) =
      (if (c.cells.filterMap cellKey).eraseDups.length ≤ 1 then none
       else if (c.cells.filterMap cellKey).eraseDups.length = 2 then some "binary_classification"
       else some "multiclass_classification") := by
  have h1 := numClasses_materialized vc t embedders df m hm c hc hn hs hnd
  have h2 := (validCats_spec _ _ hvalid).2.2
  have h3 : numClasses m.stats t = (c.cells.filterMap cellKey).eraseDups.length := by
    rw [h1]; exact h2
  refine ⟨h3, ?_⟩
  rw [h3, hs]
  rfl

example : validCats (exVc "y" ([Cell.cat (.str "u"), .cat (.str "v"), .cat (.str "u")].filterMap (cellKey (F := Nat))))
      ([Cell.cat (.str "u"), .cat (.str "v"), .cat (.str "u")].filterMap (cellKey (F := Nat))) = true ∧
    (materialize exVc (some "y") exEmb exDF).map (fun m => taskType .categorical (numClasses m.stats "y")) =
      some (some "binary_classification") := by decide

end TFVerif.C02

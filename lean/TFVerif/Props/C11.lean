/-
C11 — save/load and the materialization cache round-trip losslessly.
Property theorems only (helper lemmas: TFVerif/Proofs/IO.lean; model: TFVerif/Model/IO.lean).

Not stated here (see `partial_notes` of harness/props/c11.py): "a cache file cut short at any point
raises".  That is a fact about `torch.load`'s zip/pickle reader; in the model a file that
`torch.load` rejects is the constant `File.damaged`, so a theorem could only restate the assumption.
The clause is covered by exhaustive truncation of a real cache file (enumeration, labelled as such
in the evidence).  What the model does prove about such a file is `damaged_cache_raises`: the cache
protocol propagates the error instead of silently recomputing or overwriting.
-/
import TFVerif.Proofs.IO
import TFVerif.Gen.IO

namespace TFVerif.C11
open TFVerif TFVerif.IO

variable {α σ A D Ω : Type}

/-! ### the storage-kind table of the live package is the model's (complete finite domain) -/

theorem gen_eq_model_storage :
    Gen.IO.stypes = Stype.all.map Stype.name ∧
    Gen.IO.useNested = Stype.all.map Stype.useNested ∧
    Gen.IO.useEmbedding = Stype.all.map Stype.useEmbedding ∧
    Gen.IO.useDict = Stype.all.map Stype.useDict ∧
    Gen.IO.useMultiTensor = Stype.all.map Stype.useMultiTensor := by decide

/-- `Stype.all` really lists every member (so the table above is complete). -/
example : ∀ s : Stype, s ∈ Stype.all := by intro s; cases s <;> decide

/-! ### concrete objects for the non-vacuity examples -/

/-- one feature of every storage kind (dense, nested, embedding, dict of nested), 2 rows, no target. -/
def exFrame : Frame Int :=
  { feats := [(.numerical, .dense ⟨"float32", [2, 1], [10, 20]⟩),
              (.multicategorical, .nested ⟨"int64", ⟨2, 1, [5, 6, 7], [0, 1, 3]⟩⟩),
              (.embedding, .emb ⟨"float32", ⟨2, 1, 2, [[1, 2], [3, 4]], [0, 2]⟩⟩),
              (.text_tokenized, .dict [("input_ids", ⟨"int64", ⟨2, 1, [9], [0, 1, 1]⟩⟩),
                                       ("attention_mask", ⟨"int64", ⟨2, 1, [1], [0, 1, 1]⟩⟩)])]
    colNames := [(.numerical, ["a"]), (.multicategorical, ["m"]), (.embedding, ["e"]),
                 (.text_tokenized, ["t"])]
    y := none }

/-- a zero-row frame with a target. -/
def exEmpty : Frame Int :=
  { feats := [(.categorical, .dense ⟨"int64", [0, 2], []⟩),
              (.sequence_numerical, .nested ⟨"float32", ⟨0, 1, [], [0]⟩⟩),
              (.embedding, .emb ⟨"float32", ⟨0, 2, 5, [], [0, 2, 5]⟩⟩)]
    colNames := [(.categorical, ["c", "d"]), (.sequence_numerical, ["s"]), (.embedding, ["e", "f"])]
    y := some ⟨"float32", [0], []⟩ }

/-- a frame that differs from `exFrame` in one stored token only. -/
def exFrame' : Frame Int :=
  { exFrame with feats := exFrame.feats.map fun sf =>
      if sf.1 = .multicategorical then (sf.1, .nested ⟨"int64", ⟨2, 1, [5, 6, 8], [0, 1, 3]⟩⟩) else sf }

example : exFrame.WF ∧ exEmpty.WF ∧ exFrame'.WF := by decide

/-! ### `deserialize_feat_dict ∘ serialize_feat_dict = id` -/

/-- For every feature dictionary (any number of stypes, columns, rows, dict keys) whose entries
    have the storage kind their stype prescribes and pass their constructors' assertions,
    serialisation succeeds and deserialisation returns exactly the dictionary. -/
theorem deserialize_serialize (feats : List (Stype × Feat α))
    (h : ∀ sf ∈ feats, sf.2.okFor sf.1 = true) :
    ∃ ser, serializeFeatDict feats = .ok ser ∧ deserializeFeatDict ser = .ok feats :=
  deserialize_serialize_featDict feats h

example : (serializeFeatDict exFrame.feats).bind deserializeFeatDict = .ok exFrame.feats := by decide

/-- `load (save (tf, col_stats)) = (tf, col_stats)` for every well-formed frame (with or without
    target, zero rows included) and every statistics value. -/
theorem load_save (tf : Frame α) (stats : σ) (p : String) (st : Store (FileVal α σ)) (h : tf.WF) :
    ∃ st', save tf stats p st = .ok st' ∧ load p st' = .ok (tf, stats) ∧
      ∀ q, q ≠ p → st' q = st q := by
  obtain ⟨v, h1, h2⟩ := loadVal_saveVal tf stats h
  refine ⟨st.write p (.intact v), ?_, ?_, fun q hq => write_other st p q _ hq⟩
  · simp [save, h1, bind, Except.bind, pure, Except.pure]
  · simp [load, torchLoad, h2, bind, Except.bind]

example : (save exFrame (7 : Nat) "f" Store.empty).bind (load "f") = .ok (exFrame, 7) := by decide
example : (save exEmpty (0 : Nat) "f" Store.empty).bind (load "f") = .ok (exEmpty, 0) := by decide

/-- without the well-formedness hypothesis the statement is false: a nested feature filed under a
    dense stype is refused by `save` (so the hypothesis is not decoration). -/
example : ∃ e, saveVal (σ := Nat)
    { feats := [(.numerical, .nested ⟨"int64", ⟨2, 1, [5, 6, 7], [0, 1, 3]⟩⟩)]
      colNames := [(.numerical, ["a"])], y := none } 0 = .error e :=
  ⟨_, rfl⟩

/-! ### the file determines the frame: equal files ⇒ equal frames and statistics -/

theorem serialize_injective (tf₁ tf₂ : Frame α) (s₁ s₂ : σ) (v : FileVal α σ)
    (h₁ : tf₁.WF) (h₂ : tf₂.WF) (e₁ : saveVal tf₁ s₁ = .ok v) (e₂ : saveVal tf₂ s₂ = .ok v) :
    tf₁ = tf₂ ∧ s₁ = s₂ := by
  obtain ⟨v₁, a₁, b₁⟩ := loadVal_saveVal tf₁ s₁ h₁
  obtain ⟨v₂, a₂, b₂⟩ := loadVal_saveVal tf₂ s₂ h₂
  rw [e₁] at a₁
  rw [e₂] at a₂
  cases a₁
  cases a₂
  rw [b₁] at b₂
  cases b₂
  exact ⟨rfl, rfl⟩

/-- unequal frames stay unequal after the round trip (one token differs ⇒ the files differ and the
    loaded frames differ). -/
example : exFrame ≠ exFrame' ∧ saveVal exFrame (0 : Nat) ≠ saveVal exFrame' 0 ∧
    (saveVal exFrame (0 : Nat)).bind loadVal ≠ (saveVal exFrame' 0).bind loadVal := by decide

/-! ### views -/

/-- In the functional model a "view" — the result `sel tf` of ANY chain of selections and
    concatenations `sel` — is just a value: it is serialised to the same abstract file value as its
    canonical copy (any frame equal to it as a value, however that copy is laid out in memory),
    and loading that file returns the copy.  Nothing of the frame it was cut from enters the file.
    (That the real objects, which share storage with their parent and have non-zero storage
    offsets, behave like values is checked on the implementation; that the library's selections
    produce canonically laid-out `values`/`offset` is C05/C06.) -/
theorem views_roundtrip (sel : Frame α → Frame α) (tf copy : Frame α) (stats : σ)
    (hcopy : copy = sel tf) (h : (sel tf).WF) :
    saveVal (sel tf) stats = saveVal copy stats ∧
    ∃ v, saveVal (sel tf) stats = .ok v ∧ loadVal v = .ok (copy, stats) := by
  subst hcopy
  exact ⟨rfl, loadVal_saveVal (sel tf) stats h⟩

/-- a nested container cut out of a larger one by the library's own row selection (`m[1:3]`:
    offsets re-based, values sliced) survives `to_dict` → constructor unchanged. -/
example :
    let parent : MNT Int := ⟨4, 1, [1, 2, 3, 4, 5, 6], [0, 1, 3, 3, 6]⟩
    (parent.select (.slice (some 1) (some 3) none) 0).map (fun m => Nested.ofDict (Nested.toDict ⟨"int64", m⟩))
      = some (.ok ⟨"int64", ⟨2, 1, [2, 3], [0, 2, 2]⟩⟩) := by decide

/-- frame-level instance: `sel` = "rows 1:3 of every nested feature" through the library's own
    offset arithmetic; the selected frame is well-formed, differs from its parent and round-trips. -/
def exSel (tf : Frame Int) : Frame Int :=
  { tf with feats := tf.feats.map fun sf =>
      match sf.2 with
      | .nested n => (sf.1, .nested ⟨n.dtype, (n.m.select (.slice (some 1) (some 3) none) 0).getD n.m⟩)
      | f => (sf.1, f) }

def exParent : Frame Int :=
  { feats := [(.multicategorical, .nested ⟨"int64", ⟨4, 1, [1, 2, 3, 4, 5, 6], [0, 1, 3, 3, 6]⟩⟩)]
    colNames := [(.multicategorical, ["m"])], y := none }

example : (exSel exParent).WF ∧ exSel exParent ≠ exParent ∧
    (saveVal (exSel exParent) (0 : Nat)).bind loadVal = .ok (exSel exParent, 0) := by decide

/-! ### the cache protocol -/

/-- a computation used in the examples: data frame `d` ↦ `exFrame` with statistics `d`, failing
    for `d = 0` ("a data frame that cannot be materialised"). -/
def exCompute : Unit → Nat → Nat → Except String (Frame Int × Nat) :=
  fun _ _ d => if d = 0 then .error "unusable data frame" else .ok (exFrame, d)

/-- dataset 0 has usable data, every other dataset object has not. -/
def exWorld : World Nat Nat Int Nat :=
  { pool := fun i => { args := 1, df := if i = 0 then 5 else 0, state := none }, store := Store.empty }

/-- After a cache miss (fresh dataset, no file under `p`, the computation succeeds with a
    well-formed frame) the dataset holds the computed value, the store holds a file under `p`
    that loads back to exactly that value, and no other path is touched. -/
theorem cache_miss_writes (compute : Ω → A → D → Except String (Frame α × σ)) (ω : Ω)
    (ds : DS A D α σ) (p : String) (st : Store (FileVal α σ)) (r : Frame α × σ)
    (hfresh : ds.state = none) (hmiss : st p = none)
    (hc : compute ω ds.args ds.df = .ok r) (hwf : r.1.WF) :
    ∃ st', ds.materialize compute ω (some p) st = .ok ({ ds with state := some r }, st') ∧
      load p st' = .ok r ∧ ∀ q, q ≠ p → st' q = st q := by
  obtain ⟨v, h1, h2⟩ := loadVal_saveVal r.1 r.2 hwf
  refine ⟨st.write p (.intact v), materialize_miss compute ω ds p st r v hfresh hmiss hc h1, ?_,
    fun q hq => write_other st p q _ hq⟩
  simp [load, torchLoad, h2, bind, Except.bind]

example : ((exWorld.pool 0).materialize exCompute () (some "c.pt") exWorld.store).map
    (fun r => (r.1.state, load "c.pt" r.2)) = .ok (some (exFrame, 5), .ok (exFrame, 5)) := by decide

/-- A dataset that was materialised without a path and is then given a path whose file does not
    exist writes its own frame and statistics there. -/
theorem late_path_writes (compute : Ω → A → D → Except String (Frame α × σ)) (ω : Ω)
    (ds : DS A D α σ) (p : String) (st : Store (FileVal α σ)) (r : Frame α × σ)
    (hstate : ds.state = some r) (hmiss : st p = none) (hwf : r.1.WF) :
    ∃ st', ds.materialize compute ω (some p) st = .ok (ds, st') ∧ load p st' = .ok r := by
  obtain ⟨v, h1, h2⟩ := loadVal_saveVal r.1 r.2 hwf
  refine ⟨st.write p (.intact v), ?_, ?_⟩
  · obtain ⟨tf, stats⟩ := r
    simp [DS.materialize, hstate, hmiss, save, h1, bind, Except.bind, pure, Except.pure]
  · simp [load, torchLoad, h2, bind, Except.bind]

example : (({ args := 1, df := 5, state := some (exFrame, 5) } : DS Nat Nat Int Nat).materialize exCompute ()
    (some "late.pt") Store.empty).map (fun r => load "late.pt" r.2) = .ok (.ok (exFrame, 5)) := by decide

/-- **Second and later materialisations equal the first.**  Take any world (any pool of dataset
    objects, any file system) in which dataset `i` is fresh and `p` does not exist; let `i`
    materialise with path `p` (computation succeeds with a well-formed frame `r`).  Then `i` holds
    `r`, and after ANY further history of materialize calls (any datasets, any paths, failing
    calls included) every still-fresh dataset `j` that materialises with path `p` obtains exactly
    `r` — whatever its own data frame is (the computation is not consulted) — and `i` and `j` keep
    `r` through any later history. -/
theorem cache_second_equals_first (compute : Ω → A → D → Except String (Frame α × σ))
    (w : World A D α σ) (i : Nat) (ω : Ω) (p : String) (r : Frame α × σ)
    (hfresh : (w.pool i).state = none) (hmiss : w.store p = none)
    (hc : compute ω (w.pool i).args (w.pool i).df = .ok r) (hwf : r.1.WF) :
    let w₁ := w.step compute ⟨i, ω, some p⟩
    (w₁.pool i).state = some r ∧
    ∀ (hist : List (Step Ω)) (j : Nat) (ω' : Ω),
      let w₂ := w₁.run compute hist
      (w₂.pool i).state = some r ∧
      ((w₂.pool j).state = none →
        ∀ later : List (Step Ω),
          (((w₂.step compute ⟨j, ω', some p⟩).run compute later).pool j).state = some r) := by
  intro w₁
  obtain ⟨v, hv1, hv2⟩ := loadVal_saveVal r.1 r.2 hwf
  obtain ⟨hst, hstore⟩ := step_miss compute w i ω p r v hfresh hmiss hc hv1
  refine ⟨hst, ?_⟩
  intro hist j ω' w₂
  obtain ⟨m1, m2, _⟩ := run_monotone compute hist w₁
  refine ⟨m2 i r hst, ?_⟩
  intro hj later
  have hfile : w₂.store p = some (.intact v) := m1 p _ (by rw [hstore]; simp)
  obtain ⟨hjr, _⟩ := step_hit compute w₂ j ω' p v r hj hfile hv2
  exact (run_monotone compute later _).2.1 j r hjr

/-- non-vacuous: dataset 0 computes and writes; dataset 1 fails without a path, dataset 3 uses
    another path and fails; dataset 2 — whose own data frame is unusable — then materialises with
    the cache path and obtains dataset 0's value. -/
example :
    let w₁ := exWorld.step exCompute ⟨0, (), some "c.pt"⟩
    let w₂ := w₁.run exCompute [⟨1, (), none⟩, ⟨3, (), some "other.pt"⟩, ⟨0, (), some "c.pt"⟩]
    let w₃ := (w₂.step exCompute ⟨2, (), some "c.pt"⟩).run exCompute [⟨2, (), none⟩, ⟨1, (), some "x.pt"⟩]
    (w₁.pool 0).state = some (exFrame, 5) ∧ (w₂.pool 1).state = none ∧ (w₂.pool 2).state = none ∧
    (w₃.pool 2).state = some (exFrame, 5) ∧ (w₃.pool 0).state = some (exFrame, 5) ∧
    (w₃.pool 1).state = none := by decide

/-- **… and equal a fresh computation**, provided the computation is deterministic (explicit
    hypothesis `hdet`: the result does not depend on anything but constructor arguments and data
    frame) and `j` was constructed from the same arguments and data as `i`: what `j` obtains from
    the cache is what `j` itself would compute now. -/
theorem cache_equals_fresh (compute : Ω → A → D → Except String (Frame α × σ))
    (hdet : ∀ ω ω' a d, compute ω a d = compute ω' a d)
    (w : World A D α σ) (i j : Nat) (ω ω' : Ω) (p : String) (r : Frame α × σ)
    (hfresh : (w.pool i).state = none) (hmiss : w.store p = none)
    (hc : compute ω (w.pool i).args (w.pool i).df = .ok r) (hwf : r.1.WF)
    (hargs : (w.pool j).args = (w.pool i).args) (hdf : (w.pool j).df = (w.pool i).df)
    (hist : List (Step Ω)) :
    let w₂ := (w.step compute ⟨i, ω, some p⟩).run compute hist
    (w₂.pool j).state = none →
      ((w₂.step compute ⟨j, ω', some p⟩).pool j).state = some r ∧
      compute ω' (w₂.pool j).args (w₂.pool j).df = .ok r := by
  intro w₂ hj
  obtain ⟨_, h2⟩ := cache_second_equals_first compute w i ω p r hfresh hmiss hc hwf
  obtain ⟨_, h3⟩ := h2 hist j ω'
  refine ⟨h3 hj [], ?_⟩
  obtain ⟨_, _, s3⟩ := step_monotone compute w ⟨i, ω, some p⟩
  obtain ⟨_, _, r3⟩ := run_monotone compute hist (w.step compute ⟨i, ω, some p⟩)
  have ha : (w₂.pool j).args = (w.pool i).args := ((r3 j).1.trans (s3 j).1).trans hargs
  have hd : (w₂.pool j).df = (w.pool i).df := ((r3 j).2.trans (s3 j).2).trans hdf
  rw [ha, hd, hdet ω' ω]
  exact hc

/-- the determinism hypothesis is needed: with a computation that depends on `ω` the cached value
    still equals the first result but not a fresh computation. -/
example :
    let compute : Nat → Nat → Nat → Except String (Frame Int × Nat) := fun ω _ _ => .ok (exFrame, ω)
    let w : World Nat Nat Int Nat := { pool := fun _ => { args := 1, df := 1, state := none }, store := Store.empty }
    let w₂ := w.step compute ⟨0, 10, some "c.pt"⟩
    ((w₂.step compute ⟨1, 11, some "c.pt"⟩).pool 1).state = some (exFrame, 10) ∧
    compute 11 (w₂.pool 1).args (w₂.pool 1).df ≠ .ok (exFrame, 10) := by decide

example : ∀ ω ω' a d, exCompute ω a d = exCompute ω' a d := fun _ _ _ _ => rfl

/-- A file that exists but does not load (rejected by `torch.load`, or holding a value the
    constructors refuse) makes `materialize(path)` raise; nothing is recomputed, the dataset stays
    unmaterialised and the file is left as it is. -/
theorem damaged_cache_raises (compute : Ω → A → D → Except String (Frame α × σ))
    (w : World A D α σ) (i : Nat) (ω : Ω) (p : String) (f : File (FileVal α σ))
    (hfresh : (w.pool i).state = none) (hfile : w.store p = some f)
    (hbad : ∀ v, f = .intact v → ∃ e, loadVal v = .error e) :
    (∃ e, (w.pool i).materialize compute ω (some p) w.store = .error e) ∧
    w.step compute ⟨i, ω, some p⟩ = w := by
  obtain ⟨e, he⟩ := materialize_bad_file compute ω (w.pool i) p w.store f hfresh hfile hbad
  exact ⟨⟨e, he⟩, by simp [World.step, he]⟩

example :
    let w : World Nat Nat Int Nat := { exWorld with store := Store.empty.write "c.pt" .damaged }
    (∃ e, (w.pool 0).materialize exCompute () (some "c.pt") w.store = .error e) ∧
    ((w.step exCompute ⟨0, (), some "c.pt"⟩).pool 0).state = none ∧
    (w.step exCompute ⟨0, (), some "c.pt"⟩).store "c.pt" = some .damaged := by
  refine ⟨⟨_, rfl⟩, by decide, by decide⟩

/-! ### the restored converter -/

/-- The converter of a dataset restored from the cache equals the converter of the dataset that
    wrote the cache, whenever both were constructed with the same arguments — the restored
    dataset's own data frame is irrelevant.  Hence every conversion function (anything that reads
    only what `_get_tensorframe_converter` passes on) gives the same output on every new data frame. -/
theorem restored_converter_equal (compute : Ω → A → D → Except String (Frame α × σ))
    (w : World A D α σ) (i j : Nat) (ω ω' : Ω) (p : String) (r : Frame α × σ)
    (hfresh : (w.pool i).state = none) (hmiss : w.store p = none)
    (hc : compute ω (w.pool i).args (w.pool i).df = .ok r) (hwf : r.1.WF)
    (hargs : (w.pool j).args = (w.pool i).args) (hist : List (Step Ω)) :
    let w₁ := w.step compute ⟨i, ω, some p⟩
    let w₂ := w₁.run compute hist
    (w₂.pool j).state = none →
      let w₃ := w₂.step compute ⟨j, ω', some p⟩
      (w₃.pool j).converter = (w₁.pool i).converter ∧
      (w₃.pool j).converter = some ⟨(w.pool i).args, r.2⟩ ∧
      ∀ (β : Type) (convert : Converter A σ → D → β) (newData : D),
        (w₃.pool j).converter.map (convert · newData) = (w₁.pool i).converter.map (convert · newData) := by
  intro w₁ w₂ hj w₃
  obtain ⟨h1, h2⟩ := cache_second_equals_first compute w i ω p r hfresh hmiss hc hwf
  obtain ⟨_, h3⟩ := h2 hist j ω'
  have hj3 : (w₃.pool j).state = some r := h3 hj []
  obtain ⟨_, _, s3⟩ := step_monotone compute w ⟨i, ω, some p⟩
  obtain ⟨_, _, r3⟩ := run_monotone compute hist w₁
  obtain ⟨_, _, t3⟩ := step_monotone compute w₂ ⟨j, ω', some p⟩
  have haj : (w₃.pool j).args = (w.pool i).args :=
    (((t3 j).1.trans (r3 j).1).trans (s3 j).1).trans hargs
  have hai : (w₁.pool i).args = (w.pool i).args := (s3 i).1
  have e1 : (w₃.pool j).converter = some ⟨(w.pool i).args, r.2⟩ := by
    simp [DS.converter, hj3, haj]
  have h1' : (w₁.pool i).state = some r := h1
  have e2 : (w₁.pool i).converter = some ⟨(w.pool i).args, r.2⟩ := by
    simp [DS.converter, h1', hai]
  exact ⟨e1.trans e2.symm, e1, fun β convert newData => by rw [e1, e2]⟩

example :
    let w₁ := exWorld.step exCompute ⟨0, (), some "c.pt"⟩
    let w₃ := w₁.step exCompute ⟨2, (), some "c.pt"⟩
    (w₃.pool 2).converter = some ⟨1, 5⟩ ∧ (w₃.pool 2).converter = (w₁.pool 0).converter ∧
    (exWorld.pool 2).df ≠ (exWorld.pool 0).df := by decide

end TFVerif.C11

/-
C13 — stype encoders are per-cell functions with documented missing-value semantics.
Property theorems only (helper lemmas: TFVerif/Proofs/Encoder.lean).
-/
import TFVerif.Proofs.Encoder

namespace TFVerif.C13
open TFVerif TFVerif.Enc

variable {R : Type} (S : SOps R)

/-! ### per_cell: entry `[r, c]` of the batched `encode_forward` is a function of the cell `feat[r, c]`, the
    encoder's parameters of column `c` and that column's statistics — for every batch size, column count,
    channel count and parameter value (an entry is `none` exactly when the index is out of range) -/

theorem per_cell_linear (n : Norm R) (w b : Mat R) (feat : Mat R) (r c : Nat) :
    cell (linearEncode S n w b feat) r c =
      (cell feat r c).bind fun x => (n.mean[c]?).bind fun m => (n.std[c]?).bind fun s =>
        (w[c]?).bind fun wc => (b[c]?).map fun bc => cellLinear S m s wc bc x :=
  linear_per_cell S n w b feat r c

example : cell (linearEncode toy ⟨[1, 2], [2, 3]⟩ [[10, 20], [30, 40]] [[1, 1], [2, 2]] [[5, 7], [8, 9]]) 1 0
    = some (cellLinear toy 1 2 [10, 20] [1, 1] 8) ∧ cellLinear toy 1 2 [10, 20] [1, 1] 8 = [31, 61] := by decide

end TFVerif.C13

/-
C13 — stype encoders are per-cell functions with documented missing-value semantics.
Property theorems only (helper lemmas: TFVerif/Proofs/Encoder.lean, TFVerif/Proofs/EncoderCell.lean).

Every theorem is for an arbitrary batch size, column count, channel count, arbitrary parameter values and an
arbitrary scalar record `S : SOps R` (the missing-value theorems use its NaN-lifting `S.lift : SOps (Option R)`,
`none` = NaN).  `cell x r c : Option _` is entry `[r, c]` of a `[B][C]` tensor (`none` = index out of range).
The batched definitions (`linearEncode`, …, `forward`) are written in the shape of the code: whole-tensor
broadcast / einsum / column-loop-and-stack passes; the `cell*` functions are the per-cell specification.

"Encoding never modifies the tensors it is given" is not expressible in the functional model; it is checked on
the real objects by the harness (snapshot of every tensor / ragged storage before and after each call).
-/
import TFVerif.Proofs.EncoderCell
import TFVerif.Gen.Encoder

namespace TFVerif.C13
open TFVerif TFVerif.Enc

variable {R : Type} (S : SOps R)

/-! ### per_cell: entry `[r, c]` of the batched `encode_forward` is a function of the cell `feat[r, c]`, the
    encoder's parameters of column `c` and that column's statistics — nothing else (an entry is `none` exactly
    when an index is out of range) -/

/-- `LinearEncoder`: `((x − mean_c) / std_c) · weight_c + bias_c` -/
theorem per_cell_linear (n : Norm R) (w b : Mat R) (feat : Mat R) (r c : Nat) :
    cell (linearEncode S n w b feat) r c =
      (cell feat r c).bind fun x => (n.mean[c]?).bind fun m => (n.std[c]?).bind fun s =>
        (w[c]?).bind fun wc => (b[c]?).map fun bc => cellLinear S m s wc bc x :=
  linear_per_cell S n w b feat r c

example : cell (linearEncode toy ⟨[1, 2], [2, 3]⟩ [[10, 20], [30, 40]] [[1, 1], [2, 2]] [[5, 7], [8, 9]]) 1 0
    = some (cellLinear toy 1 2 [10, 20] [1, 1] 8) ∧ cellLinear toy 1 2 [10, 20] [1, 1] 8 = [31, 61] := by decide

/-- `StackEncoder`: the normalised value repeated `out_channels` times -/
theorem per_cell_stack (n : Norm R) (ch : Nat) (feat : Mat R) (r c : Nat) :
    cell (stackEncode S n ch feat) r c =
      (cell feat r c).bind fun x => (n.mean[c]?).bind fun m => (n.std[c]?).map fun s => cellStack S m s ch x :=
  stack_per_cell S n ch feat r c

example : cell (stackEncode toy ⟨[1, 2], [2, 3]⟩ 3 [[5, 7], [9, 11]]) 1 1 = some (cellStack toy 2 3 3 11) ∧
    cellStack toy 2 3 3 11 = [3, 3, 3] := by decide

/-- `LinearBucketEncoder` (piecewise-linear encoding over the column's own quantile boundaries, then the
    column's own linear layer); `C` is `feat.shape[1]`, the range of the code's column loop -/
theorem per_cell_linear_bucket (q : Mat R) (w : T3 R) (b : Mat R) (ch C : Nat) (feat : Mat R) (r c : Nat) (x : R)
    (hx : cell feat r c = some x) (hc : c < C) :
    cell (bucketEncode S q w b ch C feat) r c =
      (w[c]?).bind fun W => (b[c]?).map fun bc => cellBucket S (q.getD c []) W bc ch x := by
  obtain ⟨row, hr, hx'⟩ := cell_some_split hx
  exact bucket_per_cell S q w b ch C feat r c row x hr hx' hc

example : cell (bucketEncode toy [[0, 2, 4, 6, 8], [0, 10, 20, 30, 40]] [[[1], [1], [1], [1]], [[1], [2], [3], [4]]]
      [[0], [100]] 1 2 [[3, 25], [7, 5]]) 0 1
    = some (cellBucket toy [0, 10, 20, 30, 40] [[1], [2], [3], [4]] [100] 1 25) ∧
    bucketRow toy [0, 10, 20, 30, 40] 25 = [1, 1, 0, 0] ∧
    cellBucket toy [0, 10, 20, 30, 40] [[1], [2], [3], [4]] [100] 1 25 = [103] := by decide

/-- `LinearPeriodicEncoder` -/
theorem per_cell_linear_periodic (n : Norm R) (li : Mat R) (lo : T3 R) (ch : Nat) (feat : Mat R) (r c : Nat) :
    cell (periodicEncode S n li lo ch feat) r c =
      (cell feat r c).bind fun x => (n.mean[c]?).bind fun m => (n.std[c]?).bind fun s =>
        (li[c]?).bind fun l => (lo[c]?).map fun W => cellPeriodic S m s l W ch x :=
  periodic_per_cell S n li lo ch feat r c

example : cell (periodicEncode toy ⟨[0, 1], [1, 1]⟩ [[1], [2]] [[[1, 0], [0, 1]], [[1, 1], [2, 2]]] 2 [[1, 2], [3, 4]]) 1 1
    = some (cellPeriodic toy 1 1 [2] [[1, 1], [2, 2]] 2 4) ∧
    cellPeriodic toy 1 1 [2] [[1, 1], [2, 2]] 2 4 = [110, 110] := by decide

/-- `ExcelFormerEncoder`: `tanh(W1_c·a + b1_c) ⊙ (W2_c·a + b2_c)` with `a` the normalised value -/
theorem per_cell_excelformer (n : Norm R) (w1 w2 b1 b2 : Mat R) (feat : Mat R) (r c : Nat) :
    cell (excelEncode S n w1 w2 b1 b2 feat) r c =
      (cell feat r c).bind fun x => (n.mean[c]?).bind fun m => (n.std[c]?).bind fun s =>
        (w1[c]?).bind fun u1 => (w2[c]?).bind fun u2 => (b1[c]?).bind fun v1 => (b2[c]?).map fun v2 =>
          cellExcel S m s u1 u2 v1 v2 x :=
  excel_per_cell S n w1 w2 b1 b2 feat r c

example : cell (excelEncode toy ⟨[0], [1]⟩ [[1, 2]] [[3, 4]] [[0, 1]] [[1, 0]] [[5], [2]]) 1 0
    = some (cellExcel toy 0 1 [1, 2] [3, 4] [0, 1] [1, 0] 2) ∧
    cellExcel toy 0 1 [1, 2] [3, 4] [0, 1] [1, 0] 2 = [14, 40] := by decide

/-- `EmbeddingEncoder` (categorical): row `offset_c + v + 1` of the shared table, row 0 for a missing cell;
    the batch is accepted iff every index is inside the table -/
theorem per_cell_embedding (off : List Int) (t : Mat R) (feat : Mat Int) (y : T3 R)
    (h : embeddingEncode off t feat = some y) (r c : Nat) :
    cell y r c = (cell feat r c).bind fun v => (off[c]?).map fun o => t.getD (embIndex o v).toNat [] :=
  embedding_per_cell off t feat y h r c

example : (embeddingEncode [0, 2] [[0, 0], [1, 1], [2, 2], [3, 3], [4, 4]] [[1, 0], [-1, 1]]).map (fun y =>
    (cell y 0 0, cell y 0 1, cell y 1 0, cell y 1 1))
    = some (some [2, 2], some [3, 3], some [0, 0], some [4, 4]) := by decide

/-- `MultiCategoricalEmbeddingEncoder`, all three bag modes (`mode` is arbitrary): the column's own
    `EmbeddingBag` reduces the cell's own bag -/
theorem per_cell_multicategorical (mode : BagMode) (tables : T3 R) (ch : Nat) (feat : Mat (List Int)) (y : T3 R)
    (h : bagEncode S mode tables ch feat = some y) (r c : Nat) (bag : List Int)
    (hx : cell feat r c = some bag) (hc : c < tables.length) :
    cell y r c = some (bagReduce S mode (tables.getD c []) ch bag) := by
  obtain ⟨row, hr, hx'⟩ := cell_some_split hx
  exact bag_per_cell S mode tables ch feat y h r c row bag hr hx' hc

example : (bagEncode toy .sum [[[9], [1], [2]], [[9], [10], [20]]] 1 [[[0, 1], [1]], [[-1], []]]).map (fun y =>
      (cell y 0 0, cell y 0 1, cell y 1 0, cell y 1 1)) = some (some [3], some [20], some [0], some [0]) ∧
    (bagEncode toy .mean [[[9], [2], [4]]] 1 [[[0, 1]], [[-1]]]).map (fun y => (cell y 0 0, cell y 1 0))
      = some (some [3], some [0]) ∧
    (bagEncode toy .max [[[9], [2], [4]]] 1 [[[0, 1]], [[-1]]]).map (fun y => (cell y 0 0, cell y 1 0))
      = some (some [4], some [0]) := by decide

/-- `TimestampEncoder`: positional encoding of `year − min_year_c`, cyclic encodings of the six other calendar
    components, the column's own linear layer, NaN for a missing timestamp -/
theorem per_cell_timestamp (minYear maxValues : List Int) (outSize : Nat) (weight : List (T3 R)) (bias : Mat R)
    (ch : Nat) (feat : Mat (List Int)) (y : T3 R)
    (h : timestampEncode S minYear maxValues outSize weight bias ch feat = some y) (r c : Nat) :
    cell y r c = (cell feat r c).bind fun ts => (minYear[c]?).bind fun my => (weight[c]?).bind fun W =>
      (bias[c]?).map fun b => cellTimestamp S my maxValues outSize W b ch ts :=
  timestamp_per_cell S minYear maxValues outSize weight bias ch feat y h r c

example : (timestampEncode toy [2000] [12, 31] 2 [[[[1], [1]], [[1], [1]], [[1], [1]]]] [[5]] 1
      [[[2003, 12, 0]], [[2001, 0, 0]]]).map (fun y => (cell y 0 0, cell y 1 0))
    = some (some (cellTimestamp toy 2000 [12, 31] 2 [[[1], [1]], [[1], [1]], [[1], [1]]] [5] 1 [2003, 12, 0]),
            some (cellTimestamp toy 2000 [12, 31] 2 [[[1], [1]], [[1], [1]], [[1], [1]]] [5] 1 [2001, 0, 0])) ∧
    cellTimestamp toy 2000 [12, 31] 2 [[[1], [1]], [[1], [1]], [[1], [1]]] [5] 1 [2003, 12, 0] ≠
    cellTimestamp toy 2000 [12, 31] 2 [[[1], [1]], [[1], [1]], [[1], [1]]] [5] 1 [2001, 0, 0] := by decide

/-- `LinearEmbeddingEncoder`: the column's slice `[start_c, start_c + dim_c)` of the row's flat storage through
    the column's own weight matrix and bias -/
theorem per_cell_linear_embedding (dims : List Nat) (weights : T3 R) (biases : Mat R) (ch : Nat) (values : Mat R)
    (y : T3 R) (h : linearEmbEncode S dims weights biases ch values = some y) (r c : Nat) (row : List R)
    (hr : values[r]? = some row) (hc : c < dims.length) :
    cell y r c = (biases[c]?).map fun bc =>
      cellLinearEmb S (weights.getD c []) bc ch ((row.drop ((embStarts dims).getD c 0)).take (dims.getD c 0)) :=
  linearEmb_per_cell S dims weights biases ch values y h r c row hr hc

example : (linearEmbEncode toy [2, 1] [[[1], [10]], [[7]]] [[0], [1]] 1 [[1, 2, 3], [4, 5, 6]]).map (fun y =>
    (cell y 0 0, cell y 0 1, cell y 1 0, cell y 1 1)) = some (some [21], some [22], some [54], some [43]) := by decide

/-- the whole `StypeEncoder.forward` (na_forward → encode_forward → nan_to_num → post module) of any of the nine
    encoders computes in entry `[r, c]` the per-cell function `cellForward` of cell `(r, c)`: impute with
    `fill_values[c]`, encode with column `c`'s parameters, `nan_to_num`, post module on that vector -/
theorem per_cell_forward (e : Encoder R) (B C n : Nat) (feat : Feat R) (o : Out R) (r c : Nat) (v : CellVal R)
    (hfill : Fill.WF e.fill C) (h : forward S e B C n feat = some o) (hc : c < C)
    (hv : cellAt e.params feat r c = some v) : cell o.data r c = cellForward S e c v :=
  forward_per_cell S e B C n feat o r c v hfill h hc hv

def exStats : List (ColStat Int) := [.num 1 2 [0, 1, 2, 3, 4], .num 0 1 [0, 0, 0, 0, 0]]
def exEnc : Option (Encoder Int) :=
  initModules toy .numerical (some .mean) exStats 2 (.linear [[1, 2], [3, 4]] [[0, 0], [1, 1]]) .relu
def exFeat : Feat Int := .num [[1, 2], [3, 4], [5, 6]]

example : ∃ e o, exEnc = some e ∧ forward toy e 3 2 2 exFeat = some o ∧
    cell o.data 2 1 = cellForward toy e 1 (.num 6) ∧ cellForward toy e 1 (.num 6) = some [10, 13] :=
  ⟨_, _, rfl, rfl, rfl, rfl⟩

/-! ### corollaries: locality and row equivariance -/

/-- `perturb_one_cell_local`: two frames of the same shape that agree in every cell except possibly `(r0, c0)`
    (and are both accepted) have the same embedding in every entry except possibly `(r0, c0)` -/
theorem perturb_one_cell_local (e : Encoder R) (B C n : Nat) (feat feat' : Feat R) (o o' : Out R) (r0 c0 : Nat)
    (he : Encoder.WF e C) (hf : Feat.WF feat B C)
    (h : forward S e B C n feat = some o) (h' : forward S e B C n feat' = some o')
    (hagree : ∀ r c, (r, c) ≠ (r0, c0) → cellAt e.params feat' r c = cellAt e.params feat r c) :
    ∀ r c, r < B → c < C → (r, c) ≠ (r0, c0) → cell o'.data r c = cell o.data r c :=
  perturb_one_cell S e B C n feat feat' o o' r0 c0 he hf h h' hagree

example : ∃ e o o', exEnc = some e ∧ forward toy e 3 2 2 exFeat = some o ∧
    forward toy e 3 2 2 (.num [[1, 2], [3, 99], [5, 6]]) = some o' ∧
    cell o'.data 1 1 ≠ cell o.data 1 1 ∧
    (List.range 3).all (fun r => (List.range 2).all fun c => (r, c) == (1, 1) || cell o'.data r c == cell o.data r c) :=
  ⟨_, _, _, rfl, rfl, rfl, by decide, by decide⟩

/-- `row_perm_equivariant`: for every row index list `idx` (any permutation of the rows, but also repetitions
    and the empty batch) the encoding of `tf[idx]` is `encoding(tf)[idx]`, as whole tensors -/
theorem row_perm_equivariant (e : Encoder R) (B C n : Nat) (feat : Feat R) (o : Out R) (idx : List Nat)
    (he : Encoder.WF e C) (hf : Feat.WF feat B C) (hidx : ∀ i ∈ idx, i < B)
    (h : forward S e B C n feat = some o) :
    ∃ o', forward S e idx.length C n (feat.selectRows idx) = some o' ∧ o'.data = selectRows idx o.data :=
  forward_selectRows S e B C n feat o idx he hf hidx h

example : ∃ e o o', exEnc = some e ∧ forward toy e 3 2 2 exFeat = some o ∧
    forward toy e 3 2 2 (exFeat.selectRows [2, 0, 1]) = some o' ∧ o'.data = selectRows [2, 0, 1] o.data ∧
    o'.data ≠ o.data :=
  ⟨_, _, _, rfl, rfl, rfl, by decide, by decide⟩

/-! ### missing cells without NA strategy -/

/-- the post module acts last and on each `[channels]` vector separately: "before any post-module" is the
    output of the same encoder with `post_module=None` -/
theorem post_module_applied_last (e : Encoder R) (B C n : Nat) (feat : Feat R) (o : Out R)
    (h : forward S e B C n feat = some o) :
    ∃ o0, forward S { e with post := .none } B C n feat = some o0 ∧
      o.data = map2 (Post.apply S e.post) o0.data :=
  forward_post_last S e B C n feat o h

example : ∃ e o, exEnc = some e ∧ forward toy e 3 2 2 exFeat = some o ∧
    (forward toy { e with post := .none } 3 2 2 exFeat).map (fun o0 => map2 (Post.apply toy e.post) o0.data)
      = some o.data := ⟨_, _, rfl, rfl, by decide⟩

/-- `missing_is_zero`: over the NaN-lifted scalar, an encoder without NA strategy (`fill = none`) and without
    post module embeds a missing cell `(r, c)` — NaN, category −1, the bag `[-1]`, a timestamp with a negative
    component, an embedding with a NaN component — as the all-zero vector, whatever the parameters and the
    other cells are.  Mechanism: NaN propagates through every arithmetic pass of `encode_forward` (for
    `LinearBucketEncoder`: `bucketize(NaN)` is the last bucket, whose `frac` is NaN), `nan_to_num` turns the
    all-NaN vector into zeros; a missing timestamp is masked to NaN; index −1+1 = 0 is the padding row of
    `Embedding` / the excluded `padding_idx` of `EmbeddingBag`.
    Explicit hypotheses `MissingHyp` (column `c`): row 0 of the `EmbeddingEncoder` table is zero (`padding_idx=0`;
    the harness checks it on every exported table); the bucket column has ≥ 2 boundaries and one weight row per
    bucket; `weight_list[c]` has `emb_dim_list[c]` rows. -/
theorem missing_is_zero (e : Encoder (Option R)) (B C n : Nat) (feat : Feat (Option R)) (o : Out (Option R))
    (r c : Nat) (v : CellVal (Option R))
    (he : Encoder.WF e C) (hf : Feat.WF feat B C) (hfill : e.fill = none) (hpost : e.post = .none)
    (h : forward S.lift e B C n feat = some o) (hr : r < B) (hc : c < C)
    (hv : cellAt e.params feat r c = some v) (hm : CellVal.Missing v) (hyp : MissingHyp S e.params c) :
    cell o.data r c = some (List.replicate e.ch (some S.zero)) :=
  forward_missing_zero S e B C n feat o r c v he hf hfill hpost h hr hc hv hm hyp

/-- all nine encoders on a frame with one missing and one present cell: the missing one is `[0, 0]`, the present
    one is not -/
def exMissing : List (Encoder (Option Int) × Feat (Option Int)) :=
  [(⟨2, none, .linear ⟨[some 1], [some 2]⟩ [[some 1, some 2]] [[some 3, some 4]], .none⟩, .num [[none], [some 7]]),
   (⟨2, none, .stack ⟨[some 1], [some 2]⟩, .none⟩, .num [[none], [some 7]]),
   (⟨2, none, .bucket [[some 0, some 2, some 4]] [[[some 1, some 1], [some 2, some 2]]] [[some 3, some 4]], .none⟩,
      .num [[none], [some 3]]),
   (⟨2, none, .periodic ⟨[some 1], [some 2]⟩ [[some 1]] [[[some 1, some 2], [some 3, some 4]]], .none⟩,
      .num [[none], [some 7]]),
   (⟨2, none, .excel ⟨[some 1], [some 2]⟩ [[some 1, some 2]] [[some 1, some 1]] [[some 0, some 0]] [[some 1, some 1]],
      .none⟩, .num [[none], [some 7]]),
   (⟨2, none, .embedding [0] [[some 0, some 0], [some 5, some 6]], .none⟩, .cat [[-1], [0]]),
   (⟨2, none, .bag .mean [[[some 9, some 9], [some 5, some 6]]], .none⟩, .bags [[[-1]], [[0]]]),
   (⟨2, none, .timestamp [2000] [12] 2 [[[[some 1, some 2], [some 1, some 1]], [[some 1, some 1], [some 1, some 1]]]]
      [[some 1, some 1]], .none⟩, .time [[[-1, -1]], [[2001, 3]]]),
   (⟨2, none, .linearEmb [2] [[[some 1, some 2], [some 3, some 4]]] [[some 1, some 1]], .none⟩,
      .emb [0, 2] [[some 1, none], [some 1, some 1]])]

example : exMissing.map (fun (e, f) => (forward toy.lift e 2 1 1 f).map fun o =>
      (cell o.data 0 0 == some [some 0, some 0], cell o.data 1 0 == some [some 0, some 0])) =
    List.replicate 9 (some (true, false)) := by decide

/-- the padding-row hypothesis is needed: a table whose row 0 is not zero embeds the missing cell as that row -/
example : (forward toy.lift ⟨2, none, .embedding [0] [[some 7, some 8], [some 5, some 6]], .none⟩ 1 1 1
    (.cat [[-1]])).map (fun o => cell o.data 0 0) = some (some [some 7, some 8]) := by decide

/-! ### missing cells with an NA strategy -/

/-- `strategy_is_imputation`: for an encoder built by `init_modules` with strategy `na`,
    (1) `na_forward` accepts the frame, producing `f1`;
    (2) encoding with the strategy IS encoding `f1` with the same encoder without strategy;
    (3) `f1` is, cell by cell, the input with the documented substitution: cell `(r, c)` is replaced — only if
        it is missing — by `docFill st na stats[c]`, the value computed from **column `c`'s own** statistics
        (its mean; zero; category 0 = its most frequent category; its oldest / newest / median timestamp). -/
theorem strategy_is_imputation (st : Stype) (na : NA) (stats : List (ColStat R)) (ch : Nat) (w : Weights R)
    (post : Post R) (e : Encoder R) (B C n : Nat) (feat : Feat R) (o : Out R)
    (hinit : initModules S st (some na) stats ch w post = some e)
    (h : forward S e B C n feat = some o) :
    ∃ f1, naForward S e.fill feat = some f1 ∧
      forward S { e with fill := none } B C n f1 = some o ∧
      ∀ r c, cellAt e.params f1 r c = (cellAt e.params feat r c).bind fun v =>
        (stats[c]?).bind fun s => (docFill S st na s).bind fun f => substitute S f v :=
  forward_is_imputation S st na stats ch w post e B C n feat o hinit h

/-- column 0 has mean 1, column 1 has mean 0: each missing cell gets its own column's mean -/
example : ∃ e o, initModules toy.lift .numerical (some .mean)
      [.num (some 1) (some 2) [], .num (some 0) (some 1) []] 1 (.linear [[some 1], [some 1]] [[some 0], [some 0]]) .none
      = some e ∧
    forward toy.lift e 2 2 2 (.num [[none, some 5], [some 3, none]]) = some o ∧
    naForward toy.lift e.fill (.num [[none, some 5], [some 3, none]]) = some (.num [[some 1, some 5], [some 3, some 0]]) ∧
    forward toy.lift { e with fill := none } 2 2 2 (.num [[some 1, some 5], [some 3, some 0]]) = some o :=
  ⟨_, _, rfl, rfl, rfl, rfl⟩

/-- the substitution replaces exactly the missing representations and nothing else -/
theorem imputation_replaces_exactly_missing (f x : R) (k i : Int) (b ts ft : List Int) :
    substitute S (.num f) (.num x) = some (.num (if S.isNaN x then f else x)) ∧
    substitute S (.int k) (.cat (-1)) = some (.cat k) ∧
    (i ≠ -1 → substitute S (.int k) (.cat i) = some (.cat i)) ∧
    substitute S (.int k) (.bag [-1]) = some (.bag [k]) ∧
    (-1 ∉ b → substitute S (.int k) (.bag b) = some (.bag b)) ∧
    (-1 ∈ ts → substitute S (.time ft) (.time ts) = some (.time ft)) ∧
    (-1 ∉ ts → substitute S (.time ft) (.time ts) = some (.time ts)) := by
  refine ⟨rfl, rfl, ?_, rfl, ?_, ?_, ?_⟩
  · intro hi; simp [substitute, hi]
  · intro hb
    have : (b.map fun t => if t == -1 then k else t) = b := by
      conv => rhs; rw [← List.map_id b]
      apply List.map_congr_left
      intro t ht
      have : t ≠ -1 := fun h => hb (h ▸ ht)
      simp [this]
    simp only [substitute]
    rw [this]
  · intro hts
    have : ts.any (· == -1) = true := List.any_eq_true.mpr ⟨-1, hts, by simp⟩
    simp [substitute, this]
  · intro hts
    have : ts.any (· == -1) = false := by
      rw [List.any_eq_false]
      intro t ht
      have : t ≠ -1 := fun h => hts (h ▸ ht)
      simp [this]
    simp [substitute, this]

example : substitute toy.lift (.num (some 4)) (.num none) = some (.num (some 4)) ∧
    substitute toy.lift (.num (some 4)) (.num (some 9)) = some (.num (some 9)) ∧
    substitute toy (.int 0) (.bag [2, 0]) = some (.bag [2, 0]) ∧
    substitute toy (.time [1999, 0]) (.time [-1, -1]) = some (.time [1999, 0]) := ⟨rfl, rfl, rfl, rfl⟩

/-! ### strategy / stype combinations -/

/-- the admissibility table evaluated from the live code over its whole domain (10 classes × 9 stypes × 7
    strategies, construction accepted or raised) equals the model's -/
theorem gen_eq_model_naOk : Gen.Encoder.directAccepted = directAccepted.map tripleCode ∧
    Gen.Encoder.classNames = EncClass.all.map EncClass.name ∧ Gen.Encoder.stypeNames = Stype.all.map Stype.name ∧
    Gen.Encoder.naNames = NA.all.map NA.name := by decide

/-- `bad_combinations_rejected` (complete finite table): of all 9 × 9 × 7 (class, stype, strategy) triples of the
    nine parameterised encoder classes exactly these 24 are accepted — numerical: none / mean / zeros;
    categorical: none / most-frequent; multicategorical: none / zeros; timestamp: none / oldest / newest / median;
    embedding: none.  Everything else (mean on categories, most-frequent on numbers, a time strategy on anything
    but timestamps, any strategy on embeddings, any unsupported stype) is rejected at construction. -/
theorem bad_combinations_rejected :
    directAccepted.filter (fun t => t.1 != .linearModel) =
      [(.embedding, .categorical, none), (.embedding, .categorical, some .mostFrequent),
       (.multiCategorical, .multicategorical, none), (.multiCategorical, .multicategorical, some .zeros),
       (.linear, .numerical, none), (.linear, .numerical, some .mean), (.linear, .numerical, some .zeros),
       (.stack, .numerical, none), (.stack, .numerical, some .mean), (.stack, .numerical, some .zeros),
       (.linearBucket, .numerical, none), (.linearBucket, .numerical, some .mean), (.linearBucket, .numerical, some .zeros),
       (.linearPeriodic, .numerical, none), (.linearPeriodic, .numerical, some .mean),
       (.linearPeriodic, .numerical, some .zeros),
       (.excelFormer, .numerical, none), (.excelFormer, .numerical, some .mean), (.excelFormer, .numerical, some .zeros),
       (.linearEmbedding, .embedding, none),
       (.timestamp, .timestamp, none), (.timestamp, .timestamp, some .oldest), (.timestamp, .timestamp, some .newest),
       (.timestamp, .timestamp, some .median)] ∧
    (∀ c ∈ EncClass.all, c ≠ .linearModel → ∀ s ∈ supported c, ∀ na ∈ NA.all, naOk s (some na) = naValid s na) := by
  decide

example : (EncClass.linear, Stype.numerical, some NA.mean) ∈ directAccepted ∧
    (EncClass.linear, Stype.numerical, some NA.mostFrequent) ∉ directAccepted ∧
    (EncClass.embedding, Stype.categorical, some NA.mean) ∉ directAccepted ∧
    (EncClass.timestamp, Stype.timestamp, some NA.zeros) ∉ directAccepted ∧
    (EncClass.linearEmbedding, Stype.embedding, some NA.zeros) ∉ directAccepted := by decide

/-- the table is what construction does: a strategy the table rejects for the encoder's stype makes
    `init_modules` raise, whatever the statistics, the channel count and the parameters -/
theorem rejected_at_construction (c : EncClass) (st : Stype) (na : NA) (stats : List (ColStat R)) (ch : Nat)
    (w : Weights R) (post : Post R) (hc : c ≠ .linearModel) (hs : st ∈ supported c)
    (hbad : naOk st (some na) = false) : initModules S st (some na) stats ch w post = none := by
  have hmem : c ∈ EncClass.all := by cases c <;> decide
  have hna : na ∈ NA.all := by cases na <;> decide
  have := bad_combinations_rejected.2 c hmem hc st hs na hna
  exact initModules_rejects S st na stats ch w post (this ▸ hbad)

example : initModules toy .numerical (some .mostFrequent) exStats 2 (.linear [[1, 2], [3, 4]] [[0, 0], [1, 1]]) .relu = none ∧
    (initModules toy .numerical (some .zeros) exStats 2 (.linear [[1, 2], [3, 4]] [[0, 0], [1, 1]]) .relu).isSome := by
  decide

end TFVerif.C13

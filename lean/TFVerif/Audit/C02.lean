import TFVerif.Props.C02
open TFVerif.C02
#print axioms gen_eq_model_stypes
#print axioms gen_eq_model_parent
#print axioms gen_eq_model_useNested
#print axioms gen_eq_model_useEmbedding
#print axioms gen_eq_model_useDict
#print axioms gen_eq_model_childOrder
#print axioms gen_eq_model_taskType
#print axioms relabel_invariant
#print axioms relabel_invariant_converter
#print axioms label_consulting_multicat_breaks
#print axioms label_consulting_embdim_breaks
#print axioms colperm_invariant
#print axioms colperm_invariant_converter
#print axioms schema_names
#print axioms schema
#print axioms task_type_table
#print axioms num_classes_matches_target

import TFVerif.Props.C14
open TFVerif.C14
#print axioms rowIndep_MLP
#print axioms rowIndep_ResNet
#print axioms rowIndep_FTTransformer
#print axioms rowIndep_TabTransformer
#print axioms rowIndep_Trompt
#print axioms rowIndep_TabNet
#print axioms rowIndep_ExcelFormer
#print axioms shape_MLP
#print axioms shape_ResNet
#print axioms shape_FTTransformer
#print axioms shape_TabTransformer
#print axioms shape_Trompt
#print axioms shape_TabNet
#print axioms shape_ExcelFormer
#print axioms ghost_chunking_invisible
#print axioms bn_train_not_rowwise
#print axioms no_div_by_zero
#print axioms encoder_drops_no_column

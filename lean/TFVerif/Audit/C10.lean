import TFVerif.Props.C10
open TFVerif.C10
#print axioms epoch_flatten
#print axioms epoch_in_order
#print axioms batch_sizes
#print axioms batches_rejects
#print axioms epoch_partition
#print axioms batch_is_selection
#print axioms batch_is_selection_ragged
#print axioms batch_ragged_cells

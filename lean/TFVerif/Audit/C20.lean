import TFVerif.Props.C20
open TFVerif.C20
#print axioms gen_eq_model_taskTypes
#print axioms gen_eq_model_metrics
#print axioms gen_eq_model_supported
#print axioms gen_eq_model_metricOk
#print axioms gen_eq_model_defaultMetric
#print axioms gen_eq_model_ctor
#print axioms default_metric_follows_task
#print axioms ctor_selects_metric
#print axioms layout_positions
#print axioms neg_to_nan_only_xgboost
#print axioms neg_to_nan_pointwise
#print axioms embedding_flattened_in_column_order
#print axioms flags
#print axioms target_passthrough
#print axioms rejects_empty_frame
#print axioms rmse_def
#print axioms mae_def
#print axioms accuracy_def
#print axioms compute_metric_dispatch
#print axioms guards

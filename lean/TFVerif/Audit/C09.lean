import TFVerif.Props.C09
open TFVerif.C09
#print axioms gen_eq_model_splitNum
#print axioms aligned_invariant
#print axioms aligned_from_create
#print axioms derived_is_selection
#print axioms parents_unchanged
#print axioms parents_df_unchanged
#print axioms getSplit_positional
#print axioms getSplit_positional_after_history
#print axioms split_is_three_lookups
#print axioms getSplitByLabel_violates_positional
#print axioms illegal_orders
#print axioms colSelect_keeps_target
#print axioms shuffle_is_perm
#print axioms round_is_nearest_ties_even
#print axioms fractional_slice
#print axioms floorMul_is_floor
#print axioms split_counts
#print axioms split_rejects
#print axioms split_seed_only

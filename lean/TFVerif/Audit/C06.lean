import TFVerif.Props.C06
open TFVerif.C06
#print axioms cat_empty_rejected

import TFVerif.Props.C06
open TFVerif.C06
#print axioms fromCells_iff
#print axioms cells_fromCells
#print axioms ofGrid_grid
#print axioms met_cells_roundtrip
#print axioms catRows_cells
#print axioms catCols_cells
#print axioms cat_rejects
#print axioms split_cat_rows
#print axioms split_by_slices_then_cat
#print axioms toDense_cell
#print axioms fillna_exact
#print axioms met_fillna_exact
#print axioms met_catRows_cells
#print axioms met_catCols_cells
#print axioms met_cat_single

import TFVerif.Props.C12
open TFVerif.C12
#print axioms gen_eq_model_names
#print axioms gen_eq_model_supported
#print axioms gen_eq_model_naOk
#print axioms gen_eq_model_wiseOk
#print axioms gen_eq_model_cyclicConst

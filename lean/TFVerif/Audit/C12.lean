import TFVerif.Props.C12
open TFVerif.C12
#print axioms gen_eq_model_names
#print axioms gen_eq_model_supported
#print axioms gen_eq_model_naOk
#print axioms gen_eq_model_wiseOk
#print axioms gen_eq_model_cyclicConst
#print axioms unsupported_pairings_rejected
#print axioms init_modules_wellformed
#print axioms forward_shape
#print axioms shape_and_names
#print axioms accepts_every_batch
#print axioms embedding_index_in_range
#print axioms embedding_index_injective
#print axioms bag_index_in_range
#print axioms calendar_in_encoder_domain
#print axioms fitted_year_ge_min
#print axioms embdim_matches_offsets
#print axioms bucket_index_in_range
#print axioms encoding_never_fails
#print axioms stypewise_accepts_materialized
#print axioms no_nan_out
#print axioms denominators_nonzero
#print axioms nonmissing_finite_before_nan_to_num
#print axioms lazy_equals_eager
#print axioms init_fires_exactly_once
#print axioms incomplete_refuses

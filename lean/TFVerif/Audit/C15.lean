import TFVerif.Props.C15
open TFVerif.C15
#print axioms ft_rowwise
#print axioms tabt_rowwise
#print axioms excel_rowwise
#print axioms trompt_rowwise
#print axioms decoder_rowwise
#print axioms ft_equivariant
#print axioms ft_cls_invariant
#print axioms tabt_equivariant
#print axioms excel_causal_partial
#print axioms trompt_shape
#print axioms decoder_shape
#print axioms trompt_rejects_wrong_shape

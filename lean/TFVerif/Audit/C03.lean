import TFVerif.Props.C03
open TFVerif.C03
#print axioms gen_eq_model_statTypes
#print axioms gen_eq_model_stypes
#print axioms gen_eq_model_statsFor
#print axioms gen_eq_model_embGroup
#print axioms gen_eq_model_defaults
#print axioms stats_over_usable_values
#print axioms mean_def
#print axioms var_def
#print axioms var_const
#print axioms quantiles_def
#print axioms counts_exact
#print axioms counts_sorted
#print axioms counts_accepted_iff
#print axioms index_space
#print axioms multi_counts_exact
#print axioms oldest_le_all
#print axioms newest_ge_all
#print axioms median_time_is_upper_median
#print axioms year_range_def
#print axioms emb_dim_def
#print axioms emb_dim_after_materialize
#print axioms defaults_when_empty
#print axioms binary_target_sorted

import TFVerif.Props.C01
open TFVerif.C01
#print axioms gen_eq_model_timeIndex
#print axioms gen_eq_model_cyclicConst
#print axioms materialize_cell
#print axioms encode_missing
#print axioms categorical_index_space
#print axioms multicat_pipeline_positional
#print axioms multicat_cell_is_index_set
#print axioms label_consulting_variant_breaks
#print axioms calendar_ranges
#print axioms calendar_below_cyclic_const
#print axioms calendar_roundtrip

import TFVerif.Props.C11
open TFVerif.C11
#print axioms gen_eq_model_storage
#print axioms deserialize_serialize
#print axioms load_save
#print axioms serialize_injective
#print axioms views_roundtrip
#print axioms cache_miss_writes
#print axioms late_path_writes
#print axioms cache_second_equals_first
#print axioms cache_equals_fresh
#print axioms damaged_cache_raises
#print axioms restored_converter_equal

import TFVerif.Props.C08
open TFVerif.C08
#print axioms cat_rows_of_selections
#print axioms row_partition_law
#print axioms slices_partition
#print axioms col_partition_law
#print axioms cat_rejects_empty_and_bad_dim
#print axioms catRow_rejects_schema
#print axioms catRow_rejects_target
#print axioms catCol_rejects_two_targets
#print axioms catCol_rejects_duplicates
#print axioms eq_iff
#print axioms single_cell_detected
#print axioms single_target_or_name_detected
#print axioms lookup_correct
#print axioms lookup_unknown
#print axioms validate_iff
#print axioms validate_rejects
#print axioms validate_rejects_flat
#print axioms row_partition_law_ragged
#print axioms col_partition_law_ragged
#print axioms eq_iff_ragged
#print axioms eq_ragged_cells
#print axioms lookup_correct_ragged
#print axioms validate_iff_ragged

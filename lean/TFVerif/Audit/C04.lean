import TFVerif.Props.C04
open TFVerif.C04
#print axioms convert_rows_any
#print axioms convert_rows
#print axioms convert_idempotent
#print axioms unseen_category
#print axioms unseen_token
#print axioms no_target_no_y
#print axioms own_frame
#print axioms supplied_stats

import TFVerif.Props.C18
open TFVerif.C18
#print axioms min_count_rule
#print axioms decision_all_missing
#print axioms decision_float
#print axioms decision_int_bool
#print axioms decision_timestamp
#print axioms decision_strings
#print axioms decision_lists
#print axioms perm_invariant
#print axioms labels_irrelevant
#print axioms missing_irrelevant
#print axioms frame_is_columnwise

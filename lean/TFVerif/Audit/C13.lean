import TFVerif.Props.C13
open TFVerif.C13
#print axioms per_cell_linear

import TFVerif.Props.C13
open TFVerif.C13
#print axioms per_cell_linear
#print axioms per_cell_stack
#print axioms per_cell_linear_bucket
#print axioms per_cell_linear_periodic
#print axioms per_cell_excelformer
#print axioms per_cell_embedding
#print axioms per_cell_multicategorical
#print axioms per_cell_timestamp
#print axioms per_cell_linear_embedding
#print axioms per_cell_forward
#print axioms perturb_one_cell_local
#print axioms row_perm_equivariant
#print axioms post_module_applied_last
#print axioms missing_is_zero
#print axioms strategy_is_imputation
#print axioms imputation_replaces_exactly_missing
#print axioms gen_eq_model_naOk
#print axioms bad_combinations_rejected
#print axioms rejected_at_construction

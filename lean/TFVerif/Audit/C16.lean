import TFVerif.Props.C16
open TFVerif.C16
#print axioms chunks_flatten
#print axioms chunks_bounds
#print axioms chunks_init_full
#print axioms chunks_count
#print axioms unbatched_one_call
#print axioms all_strings
#print axioms old_code_passes_float
#print axioms embed_calls
#print axioms tokenize_calls
#print axioms assembled_rowwise
#print axioms assembled_row
#print axioms tokens_rowwise_sentences
#print axioms tokens_rowwise_mapping
#print axioms formats_agree
#print axioms sentence_key_order_irrelevant
#print axioms sentence_key_order_irrelevant_batched

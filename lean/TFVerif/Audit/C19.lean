import TFVerif.Props.C19
open TFVerif.C19
#print axioms entry_from_self_or_partner
#print axioms feature_swaps_whole_columns
#print axioms hidden_swaps_whole_channels
#print axioms target_convex_scalar
#print axioms target_convex_classes
#print axioms lambda_is_mi_share
#print axioms lambda_in_unit
#print axioms class_target_simplex
#print axioms off_is_identity
#print axioms forward_wiring

import TFVerif.Props.C07
open TFVerif.C07
#print axioms getitem_rows
#print axioms getitem_raises_iff
#print axioms getitem_length
#print axioms getitem_col
#print axioms getitem_chain
#print axioms getitem_columns_unchanged
#print axioms overshooting_slice
#print axioms getitem_rows_ragged
#print axioms getitem_rows_ragged_cells
#print axioms getitem_raises_iff_ragged
#print axioms getitem_chain_ragged

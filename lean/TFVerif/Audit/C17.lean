import TFVerif.Props.C17
open TFVerif.C17
#print axioms transform_ignores_labels
#print axioms transform_keeps_labels
#print axioms old_branch_depends_on_labels
#print axioms transform_rowwise
#print axioms transform_subset
#print axioms transform_subset_ok
#print axioms value_formula
#print axioms fit_state
#print axioms prior_mean
#print axioms prior_binary
#print axioms prior_multiclass
#print axioms names_match_stats
#print axioms unfitted_raises
#print axioms fit_without_target_raises
#print axioms unseen_raises
#print axioms state_dict_roundtrip
#print axioms name_clash_breaks_bijection

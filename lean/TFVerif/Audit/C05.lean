import TFVerif.Props.C05
open TFVerif.C05
#print axioms normIndex_python
#print axioms normIndex_raises

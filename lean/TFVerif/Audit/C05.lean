import TFVerif.Props.C05
open TFVerif.C05
#print axioms normIndex_python
#print axioms normIndex_raises
#print axioms slice_step1_is_drop_take
#print axioms positions_in_range
#print axioms raises_iff
#print axioms batched_arange_code_eq_doc
#print axioms mnt_select_refines
#print axioms mnt_result_wellformed
#print axioms mnt_chain_refines
#print axioms mnt_getitem_tuple
#print axioms mnt_getitem_cell
#print axioms mnt_wellformed_iff_canonical
#print axioms mnt_select_refines_wf
#print axioms mnt_chain_refines_wf
#print axioms met_select_refines
#print axioms met_result_wellformed
#print axioms met_chain_refines
#print axioms met_select_grid
#print axioms met_getitem_cell
#print axioms met_wellformed_canonical
#print axioms met_select_refines_wf

/-
Helper lemmas for the converter: the per-stype assembly (`MultiNestedTensor.cat`, `MultiEmbeddingTensor.cat`,
`torch.stack`) of canonical one-column outputs is the canonical container of the column grid, reading it
back gives the cells; the canonical `col_names_dict`; `_merge_feat`; and the refinement
`Conv.call = the specification frame`.
-/
import Mathlib.Algebra.BigOperators.Group.List.Basic
import Mathlib.Data.String.Basic
import TFVerif.Model.Convert
import TFVerif.Proofs.Mapper

namespace TFVerif

/-! ### list plumbing -/

theorem getElem?_flatten_uniform (rows : List (List β)) (C i j : Nat)
    (hC : ∀ row ∈ rows, row.length = C) (hj : j < C) :
    rows.flatten[i * C + j]? = (rows[i]?).bind (·[j]?) := by
  induction rows generalizing i with
  | nil => simp
  | cons row rest ih =>
    have hr : row.length = C := hC row (by simp)
    have hrest : ∀ r ∈ rest, r.length = C := fun r h => hC r (by simp [h])
    cases i with
    | zero =>
      simp only [Nat.zero_mul, Nat.zero_add, List.flatten_cons, List.getElem?_cons_zero, Option.bind_some]
      rw [List.getElem?_append_left (by omega)]
    | succ i =>
      simp only [List.flatten_cons, List.getElem?_cons_succ, Nat.succ_mul]
      rw [List.getElem?_append_right (by rw [hr]; omega)]
      have : i * C + C + j - row.length = i * C + j := by rw [hr]; omega
      rw [this]
      exact ih i hrest

theorem getD_map_range (f : Nat → β) (n r : Nat) (d : β) (h : r < n) :
    ((List.range n).map f).getD r d = f r := by
  simp [List.getD_eq_getElem?_getD, List.getElem?_map, List.getElem?_range h]

theorem flatMap_flatten_inner (l : List γ) (g : γ → List (List β)) :
    (l.flatMap fun r => (g r).flatten) = (l.flatMap g).flatten := by
  induction l with
  | nil => rfl
  | cons x xs ih => simp [List.flatMap_cons, ih]

theorem zipWith_sub_cumsumFrom (acc : Nat) (ls : List Nat) :
    List.zipWith (· - ·) (cumsumFrom acc ls) (acc :: cumsumFrom acc ls).dropLast = ls := by
  induction ls generalizing acc with
  | nil => rfl
  | cons x xs ih =>
    have h := ih (acc + x)
    simp only [cumsumFrom]
    rw [List.dropLast_cons_of_ne_nil (by simp)]
    simp only [List.zipWith_cons_cons]
    rw [h]
    congr 1
    omega

theorem cumsum_append (a b : List Nat) : cumsum (a ++ b) = cumsum a ++ (cumsum b).map (· + a.sum) := by
  have h : ∀ acc, cumsumFrom acc (a ++ b) = cumsumFrom acc a ++ (cumsumFrom 0 b).map (· + (acc + a.sum)) := by
    induction a with
    | nil =>
      intro acc
      simp only [List.nil_append, cumsumFrom, List.sum_nil, Nat.add_zero]
      induction b generalizing acc with
      | nil => rfl
      | cons x xs ih =>
        simp only [cumsumFrom, List.map_cons, Nat.zero_add]
        rw [ih (acc + x), ih x]
        simp only [List.map_map]
        congr 1
        · omega
        · apply List.map_congr_left; intro y _; simp only [Function.comp]; omega
    | cons x xs ih =>
      intro acc
      simp only [List.cons_append, cumsumFrom, List.sum_cons]
      rw [ih (acc + x)]
      congr 2
      apply List.map_congr_left; intro y _; omega
  simpa [cumsum] using h 0

theorem getLastD_zero_cumsum (ls : List Nat) : (0 :: cumsum ls).getLastD 0 = ls.sum := by
  have h : ∀ acc, (acc :: cumsumFrom acc ls).getLastD 0 = acc + ls.sum := by
    induction ls with
    | nil => intro acc; simp [cumsumFrom]
    | cons x xs ih =>
      intro acc
      have := ih (acc + x)
      simp only [cumsumFrom, List.sum_cons] at this ⊢
      rw [List.getLastD_cons] at this ⊢
      simp only [List.getLastD_cons] at this ⊢
      omega
  simpa [cumsum] using h 0

namespace Mat

/-! ### canonical containers of a column grid

`cols` is a list of columns, each a list of `n` cells.  Row `r` of the grid is `cols.map (·.getD r [])`. -/

/-- canonical `MultiNestedTensor` of a column grid, written the way `MultiNestedTensor.cat(dim=1)` builds it -/
def mntOfGrid (n : Nat) (cols : List (List (List α))) : MNT α :=
  { numRows := n, numCols := cols.length
    values := (List.range n).flatMap fun r => cols.flatMap fun c => c.getD r []
    offset := 0 :: cumsum ((List.range n).flatMap fun r => cols.map fun c => (c.getD r []).length) }

def colWidth (c : List (List α)) : Nat := (c.headD []).length

/-- canonical `MultiEmbeddingTensor` of a column grid (column `c` has width `colWidth c`) -/
def metOfCols (n : Nat) (cols : List (List (List α))) : MET α :=
  { numRows := n, numCols := cols.length, width := (cols.map colWidth).sum
    values := (List.range n).map fun r => cols.flatMap fun c => c.getD r []
    offset := 0 :: cumsum (cols.map colWidth) }

/-- the dense `[n, C, *]` tensor of a column grid -/
def denseOfCols (n : Nat) (cols : List (List (List α))) : List (List (List α)) :=
  (List.range n).map fun r => cols.map fun c => c.getD r []

theorem counts_mntOfCol (cs : List (List α)) : (mntOfCol cs).counts = cs.map List.length := by
  simp only [MNT.counts, mntOfCol, List.tail_cons, cumsum]
  exact zipWith_sub_cumsumFrom 0 _

theorem pySlice_one (xs : List β) (r : Nat) (h : r < xs.length) : pySlice xs r (r + 1) = [xs[r]] := by
  unfold pySlice
  rw [List.drop_eq_getElem_cons h, Nat.add_sub_cancel_left]
  rfl

theorem getD_eq_getElem (xs : List β) (r : Nat) (d : β) (h : r < xs.length) : xs.getD r d = xs[r] := by
  simp [List.getD_eq_getElem?_getD, List.getElem?_eq_getElem h]

theorem map_eq_flatMap_singleton (l : List γ) (f : γ → β) : l.map f = l.flatMap fun x => [f x] := by
  induction l with
  | nil => rfl
  | cons x xs ih => simp [List.flatMap_cons, ih]

theorem sum_map_one (l : List γ) (f : γ → Nat) (h : ∀ x ∈ l, f x = 1) : (l.map f).sum = l.length := by
  induction l with
  | nil => rfl
  | cons x xs ih =>
    simp only [List.map_cons, List.sum_cons, List.length_cons]
    rw [h x (by simp), ih (fun y hy => h y (by simp [hy]))]
    omega

/-- `MultiNestedTensor.cat(dim=1)` of canonical one-column tensors is the canonical tensor of the grid -/
theorem catCols_mntOfCol (n : Nat) (cols : List (List (List α))) (hne : cols ≠ [])
    (hlen : ∀ c ∈ cols, c.length = n) :
    MNT.catCols (cols.map mntOfCol) = some (mntOfGrid n cols) := by
  have hv : ∀ r ∈ List.range n,
      ((cols.map mntOfCol).flatMap fun x =>
        pySlice x.values (x.offset.getD (r * x.numCols) 0) (x.offset.getD (r * x.numCols + x.numCols) 0)) =
      cols.flatMap fun c => c.getD r [] := by
    intro r hr
    rw [List.flatMap_map]
    apply List.flatMap_congr
    intro c hc
    have hrn : r < c.length := by rw [hlen c hc]; exact List.mem_range.mp hr
    have := pySlice_flatten_cumsum c r hrn
    simp only [mntOfCol, Nat.mul_one]
    rw [this, getD_eq_getElem _ _ _ hrn]
  have hl : ∀ r ∈ List.range n,
      ((cols.map mntOfCol).flatMap fun x => pySlice x.counts (r * x.numCols) (r * x.numCols + x.numCols)) =
      cols.map fun c => (c.getD r []).length := by
    intro r hr
    rw [List.flatMap_map]
    rw [map_eq_flatMap_singleton]
    apply List.flatMap_congr
    intro c hc
    have hrn : r < c.length := by rw [hlen c hc]; exact List.mem_range.mp hr
    rw [counts_mntOfCol]
    simp only [mntOfCol, Nat.mul_one]
    rw [pySlice_one _ _ (by simpa using hrn), getD_eq_getElem _ _ _ hrn]
    simp
  have hcols : ((cols.map mntOfCol).map (·.numCols)).sum = cols.length := by
    rw [List.map_map, sum_map_one]
    intro c _
    rfl
  obtain ⟨c0, rest, rfl⟩ := List.exists_cons_of_ne_nil hne
  have h0 : c0.length = n := hlen c0 (by simp)
  have hall : ((c0 :: rest).map mntOfCol).all (fun x => x.numRows == (mntOfCol c0).numRows) = true := by
    simp only [List.all_eq_true, List.mem_map]
    rintro x ⟨c, hc, rfl⟩
    simp [mntOfCol, hlen c hc, h0]
  have hR : (mntOfCol c0).numRows = n := by simp [mntOfCol, h0]
  rw [show (c0 :: rest).map mntOfCol = mntOfCol c0 :: rest.map mntOfCol from rfl] at hall hv hl hcols ⊢
  simp only [MNT.catCols]
  rw [if_pos hall, hR, hcols]
  simp only [mntOfGrid, Option.some.injEq, MNT.mk.injEq, true_and]
  refine ⟨?_, ?_⟩
  · apply List.flatMap_congr
    intro r hr
    exact hv r hr
  · congr 2
    rw [← List.flatMap_def]
    apply List.flatMap_congr
    intro r hr
    exact hl r hr

theorem normIndex_nat (n i : Nat) (h : i < n) : normIndex n (i : Int) = some i := by
  unfold normIndex
  have h1 : ¬ ((i : Int) < 0) := by omega
  simp only [h1, if_false]
  have h2 : ¬ (False ∨ (i : Int) ≥ n) := by
    intro h'
    rcases h' with h' | h'
    · exact h'
    · omega
  rw [if_neg h2]
  simp

/-- the cell list of a grid in row-major order -/
def gridCells (n : Nat) (cols : List (List (List α))) : List (List α) :=
  (denseOfCols n cols).flatten

theorem getElem?_gridCells (n : Nat) (cols : List (List (List α))) (i j : Nat) (hi : i < n) (hj : j < cols.length) :
    (gridCells n cols)[i * cols.length + j]? = some ((cols.getD j []).getD i []) := by
  unfold gridCells
  rw [getElem?_flatten_uniform _ cols.length i j _ hj]
  · simp only [denseOfCols, List.getElem?_map, List.getElem?_range hi, Option.map_some, Option.bind_some]
    rw [List.getElem?_eq_getElem (by simpa using hj)]
    simp [List.getD_eq_getElem?_getD, List.getElem?_eq_getElem hj]
  · intro row hrow
    simp only [denseOfCols, List.mem_map] at hrow
    obtain ⟨r, _, rfl⟩ := hrow
    simp

theorem mntOfGrid_values (n : Nat) (cols : List (List (List α))) :
    (mntOfGrid n cols).values = (gridCells n cols).flatten := by
  simp only [mntOfGrid, gridCells, denseOfCols, ← List.flatMap_def]
  rw [← flatMap_flatten_inner]
  simp only [List.flatMap_def]

theorem mntOfGrid_offset (n : Nat) (cols : List (List (List α))) :
    (mntOfGrid n cols).offset = 0 :: cumsum ((gridCells n cols).map List.length) := by
  simp only [mntOfGrid, gridCells, denseOfCols, ← List.flatMap_def, List.map_flatMap, List.map_map]
  rfl

theorem length_gridCells (n : Nat) (cols : List (List (List α))) : (gridCells n cols).length = n * cols.length := by
  simp only [gridCells, denseOfCols, List.length_flatten, List.map_map]
  rw [show (List.length ∘ fun r => cols.map fun c => c.getD r []) = fun _ => cols.length from by
    funext r; simp]
  simp

/-- reading cell `(i, j)` of the canonical nested tensor of a grid gives row `i` of column `j` -/
theorem getValue_mntOfGrid (n : Nat) (cols : List (List (List α))) (i j : Nat) (hi : i < n) (hj : j < cols.length) :
    (mntOfGrid n cols).getValue (i : Int) (j : Int) = some ((cols.getD j []).getD i []) := by
  have hk : i * cols.length + j < (gridCells n cols).length := by
    rw [length_gridCells]
    calc i * cols.length + j < i * cols.length + cols.length := by omega
      _ = (i + 1) * cols.length := by rw [Nat.succ_mul]
      _ ≤ n * cols.length := Nat.mul_le_mul_right _ hi
  have hcell := pySlice_flatten_cumsum (gridCells n cols) _ hk
  have hget := getElem?_gridCells n cols i j hi hj
  rw [List.getElem?_eq_getElem hk] at hget
  simp only [MNT.getValue, mntOfGrid_values, mntOfGrid_offset]
  have e1 : (mntOfGrid n cols).numRows = n := rfl
  have e2 : (mntOfGrid n cols).numCols = cols.length := rfl
  rw [e1, e2, normIndex_nat n i hi, normIndex_nat _ j hj]
  simp only [Option.bind_eq_bind, Option.bind_some, Option.pure_def]
  rw [hcell]
  exact hget

/-! ### MultiEmbeddingTensor -/

theorem metOfRows_eq (vecs : List (List (Val F))) : metOfRows vecs = metOfCols vecs.length [vecs] := by
  simp only [metOfRows, metOfCols, colWidth, List.length_cons, List.length_nil, List.map_cons, List.map_nil,
    List.sum_cons, List.sum_nil, Nat.add_zero, cumsum, cumsumFrom, Nat.zero_add, List.flatMap_cons,
    List.flatMap_nil, List.append_nil]
  congr 1
  apply List.ext_getElem
  · simp
  · intro i h1 h2
    simp [List.getD_eq_getElem?_getD, List.getElem?_eq_getElem h1]

theorem foldl_offsets (blocks : List (List (List (List α)))) (n : Nat) (W : List Nat) :
    (blocks.map (metOfCols n)).foldl (fun acc x => acc ++ x.offset.tail.map (· + acc.getLastD 0)) (0 :: cumsum W) =
      0 :: cumsum (W ++ blocks.flatten.map colWidth) := by
  induction blocks generalizing W with
  | nil => simp
  | cons b rest ih =>
    simp only [List.map_cons, List.foldl_cons, List.flatten_cons, List.map_append]
    have : (0 :: cumsum W) ++ (metOfCols n b).offset.tail.map (· + (0 :: cumsum W).getLastD 0) =
        0 :: cumsum (W ++ b.map colWidth) := by
      rw [getLastD_zero_cumsum, cumsum_append]
      simp [metOfCols]
    rw [this, ih (W ++ b.map colWidth)]
    simp [List.append_assoc]

theorem values_getD_metOfCols (n : Nat) (b : List (List (List α))) (r : Nat) (hr : r < n) :
    (metOfCols n b).values.getD r [] = b.flatMap fun c => c.getD r [] := by
  simp only [metOfCols]
  exact getD_map_range _ n r [] hr

theorem flatMap_values_blocks (n r : Nat) (hr : r < n) (bs : List (List (List (List α)))) :
    ((bs.map (metOfCols n)).flatMap fun x => x.values.getD r []) = bs.flatten.flatMap fun c => c.getD r [] := by
  induction bs with
  | nil => rfl
  | cons b rest ih =>
    simp only [List.map_cons, List.flatMap_cons, List.flatten_cons, List.flatMap_append]
    rw [ih, values_getD_metOfCols n b r hr]

/-- `MultiEmbeddingTensor.cat(dim=1)` of canonical tensors is the canonical tensor of the concatenated grid -/
theorem catCols_metOfCols (n : Nat) (blocks : List (List (List (List α)))) (hne : blocks ≠ []) :
    MET.catCols (blocks.map (metOfCols n)) = some (metOfCols n blocks.flatten) := by
  match blocks, hne with
  | [b], _ => simp [MET.catCols]
  | b0 :: b1 :: rest, _ =>
    have hall : ((b0 :: b1 :: rest).map (metOfCols n)).all (fun x => x.numRows == (metOfCols n b0).numRows) = true := by
      simp only [List.all_eq_true, List.mem_map]
      rintro x ⟨c, _, rfl⟩
      simp [metOfCols]
    have hoff := foldl_offsets (b0 :: b1 :: rest) n []
    simp only [List.map_cons, cumsum, cumsumFrom, List.nil_append] at hall hoff
    simp only [MET.catCols, List.map_cons]
    rw [if_pos hall, hoff]
    simp only [Option.some.injEq]
    have hR : (metOfCols n b0).numRows = n := rfl
    rw [hR]
    simp only [metOfCols, MET.mk.injEq, true_and]
    refine ⟨?_, ?_, ?_, ?_⟩
    · simp only [List.length_flatten, List.map_map, List.map_cons, List.sum_cons]
      rfl
    · simp only [List.map_flatten, List.sum_flatten, List.map_map, List.map_cons, List.sum_cons]
      rfl
    · apply List.map_congr_left
      intro r hr
      have hrn := List.mem_range.mp hr
      exact flatMap_values_blocks n r hrn (b0 :: b1 :: rest)
    · rfl

/-- reading cell `(i, j)` of the canonical embedding tensor of a grid gives row `i` of column `j` -/
theorem getValue_metOfCols (n : Nat) (cols : List (List (List α))) (i j : Nat) (hi : i < n) (hj : j < cols.length)
    (hw : ∀ c ∈ cols, (c.getD i []).length = colWidth c) :
    (metOfCols n cols).getValue (i : Int) (j : Int) = some ((cols.getD j []).getD i []) := by
  have hwm : cols.map colWidth = (cols.map fun c => c.getD i []).map List.length := by
    rw [List.map_map]
    apply List.map_congr_left
    intro c hc
    exact (hw c hc).symm
  have hj' : j < (cols.map fun c => c.getD i []).length := by simpa using hj
  have hcell := pySlice_flatten_cumsum (cols.map fun c => c.getD i []) j hj'
  have e1 : (metOfCols n cols).numRows = n := rfl
  have e2 : (metOfCols n cols).numCols = cols.length := rfl
  simp only [MET.getValue]
  rw [e1, e2, normIndex_nat n i hi, normIndex_nat _ j hj]
  simp only [Option.bind_eq_bind, Option.bind_some, Option.pure_def]
  rw [values_getD_metOfCols n cols i hi]
  simp only [metOfCols]
  rw [hwm, List.flatMap_def, hcell]
  simp [List.getD_eq_getElem?_getD, List.getElem?_eq_getElem hj]

/-! ### dense stack -/

theorem stackCols_eq (n : Nat) (cols : List (List (List (Val F)))) (hne : cols ≠ [])
    (hlen : ∀ c ∈ cols, c.length = n) : stackCols cols = some (denseOfCols n cols) := by
  obtain ⟨c0, rest, rfl⟩ := List.exists_cons_of_ne_nil hne
  have h0 : c0.length = n := hlen c0 (by simp)
  have hall : ((c0 :: rest).all fun x => x.length == c0.length) = true := by
    simp only [List.all_eq_true]
    intro x hx
    simp [hlen x hx, h0]
  simp only [stackCols]
  rw [if_pos hall, h0]
  rfl

theorem dense_cell (n : Nat) (cols : List (List (List (Val F)))) (i j : Nat) (hi : i < n) (hj : j < cols.length) :
    (Feat.dense (denseOfCols n cols)).cell i j = some ((cols.getD j []).getD i []) := by
  simp only [Feat.cell, denseOfCols, List.getElem?_map, List.getElem?_range hi, Option.map_some, Option.bind_some]
  rw [List.getElem?_eq_getElem (by simpa using hj)]
  simp [List.getD_eq_getElem?_getD, List.getElem?_eq_getElem hj]

/-! ### the per-stype feature of a column grid -/

/-- what `assemble` must produce for a group of stype `s` whose columns hold the given cells -/
def specFeat (s : Stype) (n : Nat) (cols : List (List (List (Val F)))) : Feat F :=
  if s.useNested then .mnt (mntOfGrid n cols)
  else if s.useEmbedding then .met (metOfCols n cols)
  else .dense (denseOfCols n cols)

/-- a mapper output is the canonical one-column container of its own cells, of the kind stype `s` stores -/
def Canon (s : Stype) (n : Nat) (x : ColOut F) : Prop :=
  x.cells.length = n ∧
  (s.useNested = true → x = .mnt (mntOfCol x.cells)) ∧
  (s.useNested = false → s.useEmbedding = true → x = .met (metOfRows x.cells)) ∧
  (s.useNested = false → s.useEmbedding = false → x = .dense x.cells)

theorem flatten_map_singleton (l : List β) : (l.map fun x => [x]).flatten = l := by
  induction l with
  | nil => rfl
  | cons x xs ih => simp [ih]

theorem assemble_spec (s : Stype) (n : Nat) (xs : List (ColOut F)) (hne : xs ≠ []) (hd : s.useDict = false)
    (hc : ∀ x ∈ xs, Canon s n x) :
    assemble s xs = some (specFeat s n (xs.map ColOut.cells)) := by
  have hne' : xs.map ColOut.cells ≠ [] := by simpa using hne
  have hlen : ∀ c ∈ xs.map ColOut.cells, c.length = n := by
    intro c hcm
    obtain ⟨x, hx, rfl⟩ := List.mem_map.mp hcm
    exact (hc x hx).1
  unfold assemble specFeat
  by_cases hN : s.useNested = true
  · simp only [hN, if_true]
    have : xs.map ColOut.asMnt = (xs.map ColOut.cells).map mntOfCol := by
      rw [List.map_map]
      apply List.map_congr_left
      intro x hx
      have := (hc x hx).2.1 hN
      rw [this]; simp [ColOut.asMnt, cells_mntOfCol]
    rw [this, catCols_mntOfCol n _ hne' hlen]
    rfl
  · have hN' : s.useNested = false := by simpa using hN
    simp only [hN', hd, Bool.false_eq_true, if_false]
    by_cases hE : s.useEmbedding = true
    · simp only [hE, if_true]
      have : xs.map ColOut.asMet = ((xs.map ColOut.cells).map fun c => [c]).map (metOfCols n) := by
        rw [List.map_map, List.map_map]
        apply List.map_congr_left
        intro x hx
        have h1 := (hc x hx).2.2.1 hN' hE
        have h2 := (hc x hx).1
        show ColOut.asMet x = metOfCols n [x.cells]
        generalize x.cells = v at h1 h2
        subst h1
        simp only [ColOut.asMet]
        rw [metOfRows_eq, h2]
      rw [this, catCols_metOfCols n _ (by simpa using hne), flatten_map_singleton]
      rfl
    · have hE' : s.useEmbedding = false := by simpa using hE
      simp only [hE', Bool.false_eq_true, if_false]
      have : xs.map ColOut.asDense = xs.map ColOut.cells := by
        apply List.map_congr_left
        intro x hx
        have := (hc x hx).2.2.2 hN' hE'
        rw [this]; rfl
      rw [this, stackCols_eq n _ hne' hlen]
      rfl

theorem specFeat_cell (s : Stype) (n : Nat) (cols : List (List (List (Val F)))) (i j : Nat)
    (hi : i < n) (hj : j < cols.length)
    (hw : s.useEmbedding = true → ∀ c ∈ cols, (c.getD i []).length = colWidth c) :
    (specFeat s n cols).cell i j = some ((cols.getD j []).getD i []) := by
  unfold specFeat
  by_cases hN : s.useNested = true
  · simp only [hN, if_true, Feat.cell]
    exact getValue_mntOfGrid n cols i j hi hj
  · have hN' : s.useNested = false := by simpa using hN
    simp only [hN', Bool.false_eq_true, if_false]
    by_cases hE : s.useEmbedding = true
    · simp only [hE, if_true, Feat.cell]
      exact getValue_metOfCols n cols i j hi hj (hw hE)
    · have hE' : s.useEmbedding = false := by simpa using hE
      simp only [hE', Bool.false_eq_true, if_false]
      exact dense_cell n cols i j hi hj

theorem specFeat_numRows (s : Stype) (n : Nat) (cols : List (List (List (Val F)))) :
    (specFeat s n cols).numRows = n := by
  unfold specFeat
  by_cases hN : s.useNested = true
  · simp [hN, Feat.numRows, mntOfGrid]
  · by_cases hE : s.useEmbedding = true
    · simp [hN, hE, Feat.numRows, metOfCols]
    · simp [hN, hE, Feat.numRows, denseOfCols]

theorem specFeat_numCols (s : Stype) (n : Nat) (cols : List (List (List (Val F)))) (hn : 0 < n) :
    (specFeat s n cols).numCols = cols.length := by
  unfold specFeat
  by_cases hN : s.useNested = true
  · simp [hN, Feat.numCols, mntOfGrid]
  · by_cases hE : s.useEmbedding = true
    · simp [hN, hE, Feat.numCols, metOfCols]
    · obtain ⟨m, rfl⟩ : ∃ m, n = m + 1 := ⟨n - 1, by omega⟩
      simp [hN, hE, Feat.numCols, denseOfCols, List.range_succ_eq_map]

/-- `torch_frame.cat([parent, child], dim=1)` of two embedding-kind features -/
theorem catCols2_spec (p c : Stype) (n : Nat) (A B : List (List (List (Val F))))
    (hp : p.useNested = false ∧ p.useEmbedding = true) (hc : c.useNested = false ∧ c.useEmbedding = true) :
    (specFeat p n A).catCols2 (specFeat c n B) = some (specFeat p n (A ++ B)) := by
  have := catCols_metOfCols n [A, B] (by simp)
  simp only [List.map_cons, List.map_nil, List.flatten_cons, List.flatten_nil, List.append_nil] at this
  simp only [specFeat, hp.1, hp.2, hc.1, hc.2, Bool.false_eq_true, if_false, if_true, Feat.catCols2, this]
  rfl

/-! ### mapper outputs are canonical -/

theorem forward_canon (cfg : ColCfg F) (st s : Stype) (labels : List L) (cells : List (Cell F)) (n : Nat)
    (hl : labels.length = n) (hc : cells.length = n) (hwf : ColWF cfg st cells)
    (hk : st.useNested = s.useNested ∧ st.useEmbedding = s.useEmbedding) :
    Canon s n (forward cfg st labels cells) := by
  have hcells := forward_cells cfg st labels cells (by omega) hwf
  obtain ⟨hk1, hk2⟩ := hk
  refine ⟨by rw [hcells]; simpa using hc, ?_, ?_, ?_⟩
  · intro hN
    rw [hN] at hk1
    cases st <;> simp [Stype.useNested] at hk1
    · have := multicatForward_eq (F := F) cfg.cats labels cells (by omega)
      simp only [forward, this, cells_mntOfCol]
    · simp only [forward, sequenceForward_eq, cells_mntOfCol]
  · intro hN hE
    rw [hN] at hk1
    rw [hE] at hk2
    cases st <;> simp [Stype.useNested, Stype.useEmbedding] at hk1 hk2 <;>
      simp [forward, ColOut.cells, embeddingForward, embedderForward, metOfRows]
  · intro hN hE
    rw [hN] at hk1
    rw [hE] at hk2
    cases st <;> simp [Stype.useNested, Stype.useEmbedding] at hk1 hk2 <;>
      first
        | rfl
        | exact absurd rfl hwf.1

theorem forward_numRows (cfg : ColCfg F) (st : Stype) (labels : List L) (cells : List (Cell F)) (n : Nat)
    (hl : labels.length = n) (hc : cells.length = n) (hwf : ColWF cfg st cells) :
    (forward cfg st labels cells).numRows = n := by
  have hcells := forward_cells cfg st labels cells (by omega) hwf
  have hlen : (forward cfg st labels cells).cells.length = n := by rw [hcells]; simpa using hc
  cases st with
  | multicategorical =>
    have := multicatForward_eq (F := F) cfg.cats labels cells (by omega)
    simp [forward, this, ColOut.numRows, mntOfCol, hc]
  | sequence_numerical => simp [forward, sequenceForward_eq, ColOut.numRows, mntOfCol, hc]
  | text_tokenized => exact absurd rfl hwf.1
  | _ => simpa [forward, ColOut.numRows, ColOut.cells, embeddingForward, embedderForward, metOfRows] using hlen

/-! ### dictionaries with a feature attached to every group -/

def mapG (g : Stype → List String → Feat F) (names : List (Stype × List String)) : List (Stype × Feat F) :=
  names.map fun p => (p.1, g p.1 p.2)

theorem dictGet_mapG (g : Stype → List String → Feat F) (names : List (Stype × List String)) (s : Stype) :
    dictGet (mapG g names) s = (dictGet names s).map (g s) := by
  induction names with
  | nil => rfl
  | cons p rest ih =>
    obtain ⟨k, v⟩ := p
    simp only [mapG, List.map_cons, dictGet] at ih ⊢
    by_cases h : k = s
    · subst h; simp
    · simp [h, ih]

theorem dictSet_mapG (g : Stype → List String → Feat F) (names : List (Stype × List String)) (k : Stype)
    (v : List String) : dictSet (mapG g names) k (g k v) = mapG g (dictSet names k v) := by
  induction names with
  | nil => rfl
  | cons p rest ih =>
    obtain ⟨k', v'⟩ := p
    simp only [mapG, List.map_cons, dictSet] at ih ⊢
    by_cases h : k' = k
    · subst h; simp
    · simp [h, ih]

theorem dictErase_mapG (g : Stype → List String → Feat F) (names : List (Stype × List String)) (k : Stype) :
    dictErase (mapG g names) k = mapG g (dictErase names k) := by
  simp only [dictErase, mapG, List.filter_map]
  rfl

theorem mapM_some (l : List γ) (f : γ → Option δ) (g : γ → δ) (h : ∀ x ∈ l, f x = some (g x)) :
    l.mapM f = some (l.map g) := by
  induction l with
  | nil => rfl
  | cons x xs ih =>
    rw [List.mapM_cons, h x (by simp), ih (fun y hy => h y (by simp [hy]))]
    rfl

theorem zip_map_self (l : List γ) (f : γ → δ) : (l.map f).zip l = l.map fun x => (f x, x) := by
  induction l with
  | nil => rfl
  | cons x xs ih => simp [ih]

/-! ### one converter call -/

/-- the mapper output of column `c` of the frame -/
def outOf (cv : Conv F) (df : DF L F) (c : String) : ColOut F :=
  match df.col? c with
  | some col => forward (cv.cfg c) (cv.stypeOf c) df.labels col.cells
  | none => .dense []

/-- the feature the call must build for a group -/
def specG (cv : Conv F) (df : DF L F) (n : Nat) (s : Stype) (cols : List String) : Feat F :=
  specFeat s n (cols.map (specCol cv df))

theorem buildGroup_spec (cv : Conv F) (df : DF L F) (n : Nat) (hok : CallOK cv df n)
    (g : Stype × List String) (hg : g ∈ cv.names) :
    (do let xs ← g.2.mapM fun c => cv.mapCol df c
        let f ← assemble g.1 xs
        pure (g.1, f)) = some (g.1, specG cv df n g.1 g.2) := by
  have hcols := hok.cols g hg
  have hmap : g.2.mapM (fun c => cv.mapCol df c) = some (g.2.map (outOf cv df)) := by
    apply mapM_some
    intro c hc
    obtain ⟨col, hcol, _⟩ := hcols c hc
    simp [Conv.mapCol, outOf, hcol]
  have hcanon : ∀ x ∈ g.2.map (outOf cv df), Canon g.1 n x := by
    intro x hx
    obtain ⟨c, hc, rfl⟩ := List.mem_map.mp hx
    obtain ⟨col, hcol, hlen, hk1, hk2, hwf, _⟩ := hcols c hc
    simp only [outOf, hcol]
    exact forward_canon _ _ _ _ _ n hok.labels hlen hwf ⟨hk1, hk2⟩
  have hcells : (g.2.map (outOf cv df)).map ColOut.cells = g.2.map (specCol cv df) := by
    rw [List.map_map]
    apply List.map_congr_left
    intro c hc
    obtain ⟨col, hcol, hlen, _, _, hwf, _⟩ := hcols c hc
    simp only [Function.comp, outOf, specCol, hcol]
    exact forward_cells _ _ _ _ (by rw [hok.labels, hlen]) hwf
  have hasm := assemble_spec g.1 n (g.2.map (outOf cv df)) (by simpa using (hok.groups g hg).1)
    (hok.groups g hg).2 hcanon
  rw [hmap]
  simp only [Option.bind_eq_bind, Option.bind_some]
  rw [hasm, hcells]
  rfl

theorem buildFeats_spec (cv : Conv F) (df : DF L F) (n : Nat) (hok : CallOK cv df n) :
    (cv.names.mapM fun (g : Stype × List String) => do
        let xs ← g.2.mapM fun c => cv.mapCol df c
        let f ← assemble g.1 xs
        pure (g.1, f)) = some (mapG (specG cv df n) cv.names) := by
  apply mapM_some
  intro g hg
  exact buildGroup_spec cv df n hok g hg

theorem validate_mapG (g : Stype → List String → Feat F) (names : List (Stype × List String)) (n : Nat)
    (hne : names ≠ []) (hgr : ∀ p ∈ names, p.2 ≠ [])
    (hrows : ∀ s cols, (g s cols).numRows = n) (hcols : ∀ s cols, (g s cols).numCols = cols.length)
    (y : Option (ColOut F)) (hy : ∀ yy, y = some yy → yy.numRows = n) :
    ({ feats := mapG g names, names := names, y := y } : TF F).validate = true := by
  have hnr : ({ feats := mapG g names, names := names, y := y } : TF F).numRows = n := by
    obtain ⟨p, rest, rfl⟩ := List.exists_cons_of_ne_nil hne
    simp [TF.numRows, mapG, hrows]
  simp only [TF.validate, hnr, Bool.and_eq_true]
  refine ⟨⟨?_, ?_⟩, ?_⟩
  · simp [mapG, List.map_map, Function.comp]
  · unfold mapG
    rw [zip_map_self, List.all_map, List.all_eq_true]
    intro p hp
    have h1 := hgr p hp
    have h2 : p.2.length ≠ 0 := by
      intro h0; exact h1 (List.length_eq_zero_iff.mp h0)
    simp [Function.comp, hrows, hcols, h2]
  · cases y with
    | none => rfl
    | some yy => simp [hy yy rfl]

/-! ### `_merge_feat` -/

theorem specG_embedding_kind (cv : Conv F) (df : DF L F) (n : Nat) (c : Stype)
    (hc : c.useNested = false ∧ c.useEmbedding = true) (cols : List String) :
    specG cv df n c cols = specG cv df n .embedding cols := by
  have he : Stype.embedding.useNested = false ∧ Stype.embedding.useEmbedding = true := ⟨rfl, rfl⟩
  simp only [specG, specFeat, hc.1, hc.2, he.1, he.2]

theorem mergeStep_spec (cv : Conv F) (df : DF L F) (n : Nat) (names : List (Stype × List String)) (s : Stype) :
    Conv.mergeStep (some (mapG (specG cv df n) names, names)) s =
      some (mapG (specG cv df n) (mergeNamesStep names s), mergeNamesStep names s) := by
  by_cases hs : s.parent = s
  · simp [Conv.mergeStep, mergeNamesStep, hs]
  · have hpar : s.parent = .embedding ∧ s.useNested = false ∧ s.useEmbedding = true := by
      cases s <;> simp [Stype.parent, Stype.useNested, Stype.useEmbedding] at hs ⊢
    obtain ⟨hp, hf1, hf2⟩ := hpar
    simp only [Conv.mergeStep, mergeNamesStep, hs, if_false, Option.bind_eq_bind, Option.bind_some,
      dictGet_mapG]
    cases hcs : dictGet names s with
    | none => simp
    | some cs =>
      simp only [Option.map_some, hp, Option.getD_some]
      cases hps : dictGet names Stype.embedding with
      | none =>
        simp only [Option.map_none, Option.getD_none, List.nil_append, Option.bind_some, Option.pure_def]
        rw [specG_embedding_kind cv df n s ⟨hf1, hf2⟩, dictSet_mapG, dictErase_mapG]
      | some ps =>
        have hcat : (specG cv df n .embedding ps).catCols2 (specG cv df n s cs) =
            some (specG cv df n .embedding (ps ++ cs)) := by
          simp only [specG, List.map_append]
          exact catCols2_spec _ _ n _ _ ⟨rfl, rfl⟩ ⟨hf1, hf2⟩
        simp only [Option.map_some, Option.getD_some, hcat, Option.bind_some, Option.pure_def]
        rw [dictSet_mapG, dictErase_mapG]

theorem foldl_mergeStep (cv : Conv F) (df : DF L F) (n : Nat) (l : List Stype) (names : List (Stype × List String)) :
    l.foldl Conv.mergeStep (some (mapG (specG cv df n) names, names)) =
      some (mapG (specG cv df n) (l.foldl mergeNamesStep names), l.foldl mergeNamesStep names) := by
  induction l generalizing names with
  | nil => rfl
  | cons s rest ih =>
    simp only [List.foldl_cons]
    rw [mergeStep_spec, ih]

theorem mergeFeat_spec (cv : Conv F) (df : DF L F) (n : Nat) (names : List (Stype × List String)) :
    Conv.mergeFeat (mapG (specG cv df n) names) names =
      some (mapG (specG cv df n) (mergeNames names), mergeNames names) :=
  foldl_mergeStep cv df n childOrder names

/-! ### membership in rewritten dictionaries -/

theorem mem_dictSet [DecidableEq κ] (d : List (κ × ν)) (k : κ) (v : ν) (p : κ × ν) (h : p ∈ dictSet d k v) :
    p = (k, v) ∨ p ∈ d := by
  induction d with
  | nil => simpa [dictSet] using h
  | cons q rest ih =>
    obtain ⟨k', v'⟩ := q
    simp only [dictSet] at h
    by_cases hk : k' = k
    · simp only [hk, if_true, List.mem_cons] at h
      rcases h with h | h
      · exact Or.inl h
      · exact Or.inr (by simp [h])
    · simp only [hk, if_false, List.mem_cons] at h
      rcases h with h | h
      · exact Or.inr (by simp [h])
      · rcases ih h with h' | h'
        · exact Or.inl h'
        · exact Or.inr (by simp [h'])

theorem self_mem_dictSet [DecidableEq κ] (d : List (κ × ν)) (k : κ) (v : ν) : (k, v) ∈ dictSet d k v := by
  induction d with
  | nil => simp [dictSet]
  | cons q rest ih =>
    obtain ⟨k', v'⟩ := q
    simp only [dictSet]
    by_cases hk : k' = k
    · simp [hk]
    · simp [hk, ih]

theorem mem_dictErase [DecidableEq κ] (d : List (κ × ν)) (k : κ) (p : κ × ν) :
    p ∈ dictErase d k ↔ p ∈ d ∧ p.1 ≠ k := by
  simp [dictErase]

theorem mem_of_dictGet [DecidableEq κ] (d : List (κ × ν)) (k : κ) (v : ν) (h : dictGet d k = some v) : (k, v) ∈ d := by
  induction d with
  | nil => simp [dictGet] at h
  | cons q rest ih =>
    obtain ⟨k', v'⟩ := q
    simp only [dictGet] at h
    by_cases hk : k' = k
    · simp only [hk, if_true, Option.some.injEq] at h
      simp [hk, h]
    · simp only [hk, if_false] at h
      simp [ih h]

theorem mergeNamesStep_groups (names : List (Stype × List String)) (s : Stype)
    (h : ∀ p ∈ names, p.2 ≠ []) : ∀ p ∈ mergeNamesStep names s, p.2 ≠ [] := by
  unfold mergeNamesStep
  by_cases hs : s.parent = s
  · simpa [hs] using h
  · simp only [hs, if_false]
    cases hcs : dictGet names s with
    | none => simpa using h
    | some cs =>
      intro p hp
      simp only at hp
      rw [mem_dictErase] at hp
      rcases mem_dictSet _ _ _ _ hp.1 with hp' | hp'
      · rw [hp']
        have : cs ≠ [] := h (s, cs) (mem_of_dictGet _ _ _ hcs)
        simp [this]
      · exact h p hp'

theorem mergeNamesStep_nonempty (names : List (Stype × List String)) (s : Stype) (h : names ≠ []) :
    mergeNamesStep names s ≠ [] := by
  unfold mergeNamesStep
  by_cases hs : s.parent = s
  · simpa [hs] using h
  · simp only [hs, if_false]
    cases hcs : dictGet names s with
    | none => simpa using h
    | some cs =>
      simp only
      intro hnil
      have hm := self_mem_dictSet names s.parent ((dictGet names s.parent).getD [] ++ cs)
      have : (s.parent, (dictGet names s.parent).getD [] ++ cs) ∈
          dictErase (dictSet names s.parent ((dictGet names s.parent).getD [] ++ cs)) s := by
        rw [mem_dictErase]
        exact ⟨hm, hs⟩
      rw [hnil] at this
      simp at this

theorem mergeNames_groups (names : List (Stype × List String)) (h : ∀ p ∈ names, p.2 ≠ []) :
    ∀ p ∈ mergeNames names, p.2 ≠ [] := by
  unfold mergeNames
  generalize childOrder = l
  induction l generalizing names with
  | nil => simpa using h
  | cons s rest ih => exact ih _ (mergeNamesStep_groups names s h)

theorem mergeNames_nonempty (names : List (Stype × List String)) (h : names ≠ []) : mergeNames names ≠ [] := by
  unfold mergeNames
  generalize childOrder = l
  induction l generalizing names with
  | nil => simpa using h
  | cons s rest ih => exact ih _ (mergeNamesStep_nonempty names s h)

/-- REFINEMENT: inside the typed domain one converter call returns the specification frame — for every
    group of the merged name table the canonical container of the encoded columns — and leaves the merged
    name table as the converter's state. -/
theorem call_spec (cv : Conv F) (df : DF L F) (n : Nat) (hok : CallOK cv df n) :
    cv.call df = some
      ({ feats := mapG (specG cv df n) (mergeNames cv.names), names := mergeNames cv.names, y := cv.yOf df },
       { cv with names := mergeNames cv.names }) := by
  have hy : ∀ yy, cv.yOf df = some yy → yy.numRows = n := by
    intro yy hyy
    unfold Conv.yOf at hyy
    cases ht : cv.target with
    | none => simp [ht] at hyy
    | some t =>
      simp only [ht, Conv.mapCol] at hyy
      cases hcol : df.col? t with
      | none => simp [hcol] at hyy
      | some col =>
        simp only [hcol, Option.map_some, Option.some.injEq] at hyy
        obtain ⟨hlen, hwf⟩ := hok.target t col ht hcol
        rw [← hyy]
        exact forward_numRows _ _ _ _ n hok.labels hlen hwf
  have hrows : ∀ s cols, (specG cv df n s cols).numRows = n := fun s cols => specFeat_numRows s n _
  have hcols : ∀ s cols, (specG cv df n s cols).numCols = cols.length := by
    intro s cols
    simp [specG, specFeat_numCols s n _ hok.npos]
  have hv0 := validate_mapG (specG cv df n) cv.names n hok.nonempty (fun p hp => (hok.groups p hp).1)
    hrows hcols (cv.yOf df) hy
  have hv1 := validate_mapG (specG cv df n) (mergeNames cv.names) n (mergeNames_nonempty _ hok.nonempty)
    (mergeNames_groups _ (fun p hp => (hok.groups p hp).1)) hrows hcols (cv.yOf df) hy
  unfold Conv.call
  rw [buildFeats_spec cv df n hok]
  simp only [Option.bind_eq_bind, Option.bind_some, hv0, Bool.not_true, Bool.false_eq_true, if_false]
  rw [mergeFeat_spec]
  simp only [Option.bind_some, hv1, Bool.not_true, Bool.false_eq_true, if_false]
  rfl

/-! ### looking a column up in the produced frame -/

theorem dictGet_of_mem_nodup [DecidableEq κ] (d : List (κ × ν)) (k : κ) (v : ν) (hm : (k, v) ∈ d)
    (hnd : (d.map (·.1)).Nodup) : dictGet d k = some v := by
  induction d with
  | nil => simp at hm
  | cons q rest ih =>
    obtain ⟨k', v'⟩ := q
    simp only [List.map_cons, List.nodup_cons] at hnd
    simp only [dictGet]
    rcases List.mem_cons.mp hm with h | h
    · simp only [Prod.mk.injEq] at h
      simp [h.1, h.2]
    · have hne : k' ≠ k := by
        intro e
        apply hnd.1
        rw [e]
        exact List.mem_map.mpr ⟨(k, v), h, rfl⟩
      simp [hne, ih h hnd.2]

theorem keys_dictSet [DecidableEq κ] (d : List (κ × ν)) (k : κ) (v : ν) :
    (dictSet d k v).map (·.1) = if k ∈ d.map (·.1) then d.map (·.1) else d.map (·.1) ++ [k] := by
  induction d with
  | nil => simp [dictSet]
  | cons q rest ih =>
    obtain ⟨k', v'⟩ := q
    simp only [dictSet]
    by_cases hk : k' = k
    · simp [hk]
    · have hk' : ¬ k = k' := fun e => hk e.symm
      simp only [hk, if_false, List.map_cons, ih, List.mem_cons, hk', false_or]
      split <;> simp

theorem keys_dictErase [DecidableEq κ] (d : List (κ × ν)) (k : κ) :
    (dictErase d k).map (·.1) = (d.map (·.1)).filter (· ≠ k) := by
  simp only [dictErase, List.filter_map]
  rfl

theorem mergeNamesStep_keys (names : List (Stype × List String)) (s : Stype)
    (h : (names.map (·.1)).Nodup) : ((mergeNamesStep names s).map (·.1)).Nodup := by
  unfold mergeNamesStep
  by_cases hs : s.parent = s
  · simpa [hs] using h
  · simp only [hs, if_false]
    cases hcs : dictGet names s with
    | none => simpa using h
    | some cs =>
      simp only
      rw [keys_dictErase, keys_dictSet]
      refine List.Nodup.sublist List.filter_sublist ?_
      split
      · exact h
      · rename_i hnot
        rw [List.nodup_append]
        refine ⟨h, by simp, ?_⟩
        intro a ha b hb
        simp only [List.mem_singleton] at hb
        subst hb
        intro e
        exact hnot (e ▸ ha)

theorem mergeNames_keys (names : List (Stype × List String)) (h : (names.map (·.1)).Nodup) :
    ((mergeNames names).map (·.1)).Nodup := by
  unfold mergeNames
  generalize childOrder = l
  induction l generalizing names with
  | nil => simpa using h
  | cons s rest ih => exact ih _ (mergeNamesStep_keys names s h)

/-- every name of a merged group comes from a group of the same storage kind -/
theorem mergeNamesStep_origin (names : List (Stype × List String)) (s : Stype) :
    ∀ p ∈ mergeNamesStep names s, ∀ c ∈ p.2, ∃ g ∈ names, c ∈ g.2 ∧
      g.1.useEmbedding = p.1.useEmbedding ∧ g.1.useNested = p.1.useNested ∧ g.1.useDict = p.1.useDict := by
  unfold mergeNamesStep
  by_cases hs : s.parent = s
  · simp only [hs, if_true]
    intro p hp c hc
    exact ⟨p, hp, hc, rfl, rfl, rfl⟩
  · simp only [hs, if_false]
    have hflags : s.useEmbedding = s.parent.useEmbedding ∧ s.useNested = s.parent.useNested ∧
        s.useDict = s.parent.useDict := by
      cases s <;> simp [Stype.parent, Stype.useEmbedding, Stype.useNested, Stype.useDict] at hs ⊢
    cases hcs : dictGet names s with
    | none =>
      intro p hp c hc
      exact ⟨p, hp, hc, rfl, rfl, rfl⟩
    | some cs =>
      intro p hp c hc
      simp only at hp
      rw [mem_dictErase] at hp
      rcases mem_dictSet _ _ _ _ hp.1 with hp' | hp'
      · subst hp'
        simp only [List.mem_append] at hc
        rcases hc with hc | hc
        · cases hps : dictGet names s.parent with
          | none => simp [hps] at hc
          | some ps =>
            simp only [hps, Option.getD_some] at hc
            exact ⟨(s.parent, ps), mem_of_dictGet _ _ _ hps, hc, rfl, rfl, rfl⟩
        · exact ⟨(s, cs), mem_of_dictGet _ _ _ hcs, hc, hflags.1, hflags.2.1, hflags.2.2⟩
      · exact ⟨p, hp', hc, rfl, rfl, rfl⟩

theorem mergeNames_origin (names : List (Stype × List String)) :
    ∀ p ∈ mergeNames names, ∀ c ∈ p.2, ∃ g ∈ names, c ∈ g.2 ∧
      g.1.useEmbedding = p.1.useEmbedding ∧ g.1.useNested = p.1.useNested ∧ g.1.useDict = p.1.useDict := by
  unfold mergeNames
  generalize childOrder = l
  induction l generalizing names with
  | nil =>
    intro p hp c hc
    exact ⟨p, hp, hc, rfl, rfl, rfl⟩
  | cons s rest ih =>
    intro p hp c hc
    obtain ⟨g, hg, hcg, h1, h2, h3⟩ := ih (mergeNamesStep names s) p hp c hc
    obtain ⟨g', hg', hcg', h1', h2', h3'⟩ := mergeNamesStep_origin names s g hg c hcg
    exact ⟨g', hg', hcg', h1'.trans h1, h2'.trans h2, h3'.trans h3⟩

/-- the lookup table finds a group that holds the name, at the name's position -/
theorem locate_spec (tf : TF F) (name : String) (h : ∃ p ∈ tf.names, name ∈ p.2) :
    ∃ p ∈ tf.names, ∃ j, tf.locate name = some (p.1, j) ∧ p.2[j]? = some name := by
  unfold TF.locate
  have hstep : ∀ (l : List (Stype × List String)), (∀ p ∈ l, p ∈ tf.names) → ∀ acc : Option (Stype × Nat),
      (∀ sj, acc = some sj → ∃ p ∈ tf.names, p.1 = sj.1 ∧ p.2[sj.2]? = some name) →
      (acc.isSome ∨ ∃ p ∈ l, name ∈ p.2) →
      ∃ sj, l.foldl (fun acc (x : Stype × List String) =>
          match x.2.idxOf? name with
          | some j => some (x.1, j)
          | none => acc) acc = some sj ∧ ∃ p ∈ tf.names, p.1 = sj.1 ∧ p.2[sj.2]? = some name := by
    intro l
    induction l with
    | nil =>
      intro _ acc hinv hsome
      rcases hsome with hs | ⟨p, hp, _⟩
      · obtain ⟨sj, hsj⟩ := Option.isSome_iff_exists.mp hs
        exact ⟨sj, by simpa using hsj, hinv sj hsj⟩
      · simp at hp
    | cons q rest ih =>
      intro hsub acc hinv hsome
      simp only [List.foldl_cons]
      apply ih (fun p hp => hsub p (by simp [hp]))
      · intro sj hsj
        cases hidx : q.2.idxOf? name with
        | none => simp only [hidx] at hsj; exact hinv sj hsj
        | some j =>
          simp only [hidx, Option.some.injEq] at hsj
          subst hsj
          obtain ⟨hlt, hget, _⟩ := List.idxOf?_eq_some_iff.mp hidx
          exact ⟨q, hsub q (by simp), rfl, by simp [List.getElem?_eq_getElem hlt, hget]⟩
      · cases hidx : q.2.idxOf? name with
        | some j => simp
        | none =>
          have hnot : name ∉ q.2 := List.idxOf?_eq_none_iff.mp hidx
          rcases hsome with hs | ⟨p, hp, hpn⟩
          · exact Or.inl (by simpa using hs)
          · rcases List.mem_cons.mp hp with e | hp'
            · subst e; exact absurd hpn hnot
            · exact Or.inr ⟨p, hp', hpn⟩
  obtain ⟨sj, hfold, p, hp, h1, h2⟩ := hstep tf.names (fun p hp => hp) none (by simp) (Or.inr h)
  refine ⟨p, hp, sj.2, ?_, h2⟩
  rw [h1]
  exact hfold

theorem mem_dictSet_of_ne [DecidableEq κ] (d : List (κ × ν)) (k : κ) (v : ν) (p : κ × ν) (hp : p ∈ d)
    (hne : p.1 ≠ k) : p ∈ dictSet d k v := by
  induction d with
  | nil => simp at hp
  | cons q rest ih =>
    obtain ⟨k', v'⟩ := q
    simp only [dictSet]
    by_cases hk : k' = k
    · simp only [hk, if_true, List.mem_cons]
      rcases List.mem_cons.mp hp with e | h
      · exact absurd (by rw [e]; exact hk) hne
      · exact Or.inr h
    · simp only [hk, if_false, List.mem_cons]
      rcases List.mem_cons.mp hp with e | h
      · exact Or.inl e
      · exact Or.inr (ih h)

/-- no name is lost by the merge -/
theorem mergeNamesStep_keeps (names : List (Stype × List String)) (s : Stype) (hk : (names.map (·.1)).Nodup) :
    ∀ g ∈ names, ∀ c ∈ g.2, ∃ p ∈ mergeNamesStep names s, c ∈ p.2 := by
  unfold mergeNamesStep
  intro g hg c hc
  by_cases hs : s.parent = s
  · exact ⟨g, by simpa [hs] using hg, hc⟩
  · simp only [hs, if_false]
    cases hcs : dictGet names s with
    | none => exact ⟨g, hg, hc⟩
    | some cs =>
      simp only
      have hparent_mem := self_mem_dictSet names s.parent ((dictGet names s.parent).getD [] ++ cs)
      have hparent : (s.parent, (dictGet names s.parent).getD [] ++ cs) ∈
          dictErase (dictSet names s.parent ((dictGet names s.parent).getD [] ++ cs)) s := by
        rw [mem_dictErase]; exact ⟨hparent_mem, hs⟩
      by_cases h1 : g.1 = s
      · have : dictGet names g.1 = some g.2 := dictGet_of_mem_nodup names g.1 g.2 hg hk
        rw [h1, hcs] at this
        have hcs' : cs = g.2 := by simpa using this
        exact ⟨_, hparent, by simp [hcs', hc]⟩
      · by_cases h2 : g.1 = s.parent
        · have : dictGet names g.1 = some g.2 := dictGet_of_mem_nodup names g.1 g.2 hg hk
          rw [h2] at this
          exact ⟨_, hparent, by simp [this, hc]⟩
        · refine ⟨g, ?_, hc⟩
          rw [mem_dictErase]
          exact ⟨mem_dictSet_of_ne _ _ _ g hg h2, h1⟩

theorem mergeNames_keeps (names : List (Stype × List String)) (hk : (names.map (·.1)).Nodup) :
    ∀ g ∈ names, ∀ c ∈ g.2, ∃ p ∈ mergeNames names, c ∈ p.2 := by
  unfold mergeNames
  generalize childOrder = l
  induction l generalizing names with
  | nil => intro g hg c hc; exact ⟨g, hg, hc⟩
  | cons s rest ih =>
    intro g hg c hc
    obtain ⟨p, hp, hcp⟩ := mergeNamesStep_keeps names s hk g hg c hc
    exact ih (mergeNamesStep names s) (mergeNamesStep_keys names s hk) p hp c hcp

/-- column facts of the typed domain, for a name anywhere in the name table -/
theorem col_facts (cv : Conv F) (df : DF L F) (n : Nat) (hok : CallOK cv df n) (g : Stype × List String)
    (hg : g ∈ cv.names) (c : String) (hc : c ∈ g.2) :
    ∃ col, df.col? c = some col ∧ col.cells.length = n ∧
      (specCol cv df c).length = n ∧
      (g.1.useEmbedding = true → ∀ i, i < n → ((specCol cv df c).getD i []).length = colWidth (specCol cv df c)) := by
  obtain ⟨col, hcol, hlen, _, _, _, hw⟩ := hok.cols g hg c hc
  refine ⟨col, hcol, hlen, by simp [specCol, hcol, hlen], ?_⟩
  intro hE i hi
  obtain ⟨w, hw⟩ := hw hE
  have hn := hok.npos
  have hget : ∀ k, k < n → ((specCol cv df c).getD k []).length = w := by
    intro k hk
    simp only [specCol, hcol]
    rw [getD_eq_getElem _ _ _ (by simpa [hlen] using hk)]
    simp only [List.getElem_map]
    exact hw _ (List.getElem_mem _)
  rw [hget i hi]
  have h0 := hget 0 hn
  simp only [colWidth]
  rw [← h0]
  cases hsc : specCol cv df c with
  | nil => simp
  | cons x xs => simp

/-- Inside the typed domain, every entry of the frame a converter call returns, read through the frame's own
    lookup table, is the specification encoding of the raw cell of that row and column. -/
theorem call_cell (cv : Conv F) (df : DF L F) (n : Nat) (hok : CallOK cv df n)
    (name : String) (hname : ∃ g ∈ cv.names, name ∈ g.2) (i : Nat) (hi : i < n) :
    ∃ tf cv', cv.call df = some (tf, cv') ∧ tf.names = mergeNames cv.names ∧ cv'.names = mergeNames cv.names ∧
      tf.cell name i = some ((specCol cv df name).getD i []) := by
  refine ⟨_, _, call_spec cv df n hok, rfl, rfl, ?_⟩
  obtain ⟨g, hg, hcg⟩ := hname
  obtain ⟨p0, hp0, hc0⟩ := mergeNames_keeps cv.names hok.keys g hg name hcg
  obtain ⟨p, hp, j, hloc, hj⟩ := locate_spec
    ({ feats := mapG (specG cv df n) (mergeNames cv.names), names := mergeNames cv.names, y := cv.yOf df } : TF F)
    name ⟨p0, hp0, hc0⟩
  have hkeys := mergeNames_keys cv.names hok.keys
  have hget : dictGet (mergeNames cv.names) p.1 = some p.2 := dictGet_of_mem_nodup _ _ _ hp hkeys
  have hjlt : j < p.2.length := by
    by_contra hge
    rw [List.getElem?_eq_none (by omega)] at hj
    simp at hj
  simp only [TF.cell, hloc, Option.bind_eq_bind, Option.bind_some, dictGet_mapG, hget, Option.map_some, specG]
  rw [specFeat_cell p.1 n _ i j hi (by simpa using hjlt)]
  · congr 1
    simp [List.getD_eq_getElem?_getD, List.getElem?_map, hj]
  · intro hE c hc
    obtain ⟨nm, hnm, rfl⟩ := List.mem_map.mp hc
    obtain ⟨g', hg', hcg', hf1, _, _⟩ := mergeNames_origin cv.names p hp nm hnm
    obtain ⟨_, _, _, _, hw⟩ := col_facts cv df n hok g' hg' nm hcg'
    exact hw (hf1.trans hE) i hi

/-! ### sorting column names -/

theorem insertSorted_perm (x : String) (l : List String) : (insertSorted x l).Perm (x :: l) := by
  induction l with
  | nil => exact List.Perm.refl _
  | cons y ys ih =>
    simp only [insertSorted]
    split
    · exact List.Perm.refl _
    · exact (List.Perm.cons y ih).trans (List.Perm.swap x y ys)

theorem sortNames_perm (l : List String) : (sortNames l).Perm l := by
  induction l with
  | nil => exact List.Perm.refl _
  | cons x xs ih =>
    simp only [sortNames, List.foldr_cons] at ih ⊢
    exact (insertSorted_perm x _).trans (List.Perm.cons x ih)

theorem insertSorted_sorted (x : String) (l : List String) (h : l.Pairwise (· ≤ ·)) :
    (insertSorted x l).Pairwise (· ≤ ·) := by
  induction l with
  | nil => simp [insertSorted]
  | cons y ys ih =>
    simp only [insertSorted]
    have hy := List.pairwise_cons.mp h
    split
    · rename_i hxy
      refine List.pairwise_cons.mpr ⟨?_, h⟩
      intro z hz
      rcases List.mem_cons.mp hz with e | hz'
      · rw [e]; exact hxy
      · exact le_trans hxy (hy.1 z hz')
    · rename_i hxy
      have hyx : y ≤ x := by
        rcases le_total x y with h' | h'
        · exact absurd h' hxy
        · exact h'
      refine List.pairwise_cons.mpr ⟨?_, ih hy.2⟩
      intro z hz
      have := (insertSorted_perm x ys).mem_iff.mp hz
      rcases List.mem_cons.mp this with e | hz'
      · rw [e]; exact hyx
      · exact hy.1 z hz'

theorem sortNames_sorted (l : List String) : (sortNames l).Pairwise (· ≤ ·) := by
  induction l with
  | nil => simp [sortNames]
  | cons x xs ih =>
    simp only [sortNames, List.foldr_cons] at ih ⊢
    exact insertSorted_sorted x _ ih

/-- sorting forgets the order the names arrived in -/
theorem sortNames_perm_eq (l₁ l₂ : List String) (h : l₁.Perm l₂) : sortNames l₁ = sortNames l₂ := by
  apply List.Perm.eq_of_pairwise (le := (· ≤ ·))
  · intro a b _ _ hab hba
    exact le_antisymm hab hba
  · exact sortNames_sorted l₁
  · exact sortNames_sorted l₂
  · exact (sortNames_perm l₁).trans (h.trans (sortNames_perm l₂).symm)

theorem mem_sortNames (l : List String) (x : String) : x ∈ sortNames l ↔ x ∈ l :=
  (sortNames_perm l).mem_iff

theorem sortNames_ne_nil (l : List String) (h : l ≠ []) : sortNames l ≠ [] := by
  intro e
  have := (sortNames_perm l).length_eq
  rw [e] at this
  exact h (List.length_eq_zero_iff.mp this.symm)

/-! ### the canonical `col_names_dict` -/

theorem dictGet_none_iff [DecidableEq κ] (d : List (κ × ν)) (k : κ) : dictGet d k = none ↔ k ∉ d.map (·.1) := by
  induction d with
  | nil => simp [dictGet]
  | cons q rest ih =>
    obtain ⟨k', v'⟩ := q
    simp only [dictGet, List.map_cons, List.mem_cons, not_or]
    by_cases hk : k' = k
    · simp [hk]
    · have hk' : ¬ k = k' := fun e => hk e.symm
      simp [hk, hk', ih]

theorem dictGet_append_single [DecidableEq κ] (d : List (κ × ν)) (k k' : κ) (v : ν) :
    dictGet (d ++ [(k, v)]) k' = match dictGet d k' with
      | some x => some x
      | none => if k = k' then some v else none := by
  induction d with
  | nil => simp [dictGet]
  | cons q rest ih =>
    obtain ⟨k₀, v₀⟩ := q
    simp only [List.cons_append, dictGet]
    by_cases hk : k₀ = k'
    · simp [hk]
    · simp [hk, ih]

theorem dictGet_dictSet [DecidableEq κ] (d : List (κ × ν)) (k k' : κ) (v : ν) :
    dictGet (dictSet d k v) k' = if k = k' then some v else dictGet d k' := by
  induction d with
  | nil => simp [dictSet, dictGet]
  | cons q rest ih =>
    obtain ⟨k₀, v₀⟩ := q
    simp only [dictSet]
    by_cases hk : k₀ = k
    · subst hk
      by_cases hk' : k₀ = k'
      · simp [dictGet, hk']
      · simp [dictGet, hk']
    · simp only [hk, if_false, dictGet]
      by_cases hk' : k₀ = k'
      · have : ¬ k = k' := fun e => hk (hk'.trans e.symm)
        simp [hk', this]
      · simp [hk', ih]

def optL (l : List String) : Option (List String) := if l = [] then none else some l

/-- one step of the grouping loop of `__init__` -/
def groupStep (target : Option String) (d : List (Stype × List String)) (p : String × Stype) :
    List (Stype × List String) :=
  if some p.1 = target then d
  else match dictGet d p.2 with
    | none => d ++ [(p.2, [p.1])]
    | some cols => dictSet d p.2 (cols ++ [p.1])

theorem groupOf_append_single (pre : List (String × Stype)) (p : String × Stype) (t : Option String) (s : Stype) :
    groupOf (pre ++ [p]) t s = groupOf pre t s ++ (if some p.1 ≠ t ∧ p.2 = s then [p.1] else []) := by
  simp only [groupOf, List.filter_append, List.map_append, List.filter_cons, List.filter_nil]
  by_cases h1 : some p.1 ≠ t <;> by_cases h2 : p.2 = s <;> simp [h1, h2]

theorem grouped_inv (t : Option String) (rest pre : List (String × Stype)) (d : List (Stype × List String))
    (hk : (d.map (·.1)).Nodup) (hd : ∀ s, dictGet d s = optL (groupOf pre t s)) :
    ((rest.foldl (groupStep t) d).map (·.1)).Nodup ∧
      ∀ s, dictGet (rest.foldl (groupStep t) d) s = optL (groupOf (pre ++ rest) t s) := by
  induction rest generalizing pre d with
  | nil => simpa using ⟨hk, hd⟩
  | cons p rest ih =>
    simp only [List.foldl_cons]
    have happ : pre ++ p :: rest = (pre ++ [p]) ++ rest := by simp
    rw [happ]
    apply ih
    · unfold groupStep
      by_cases ht : some p.1 = t
      · simpa [ht] using hk
      · simp only [ht, if_false]
        cases hg : dictGet d p.2 with
        | none =>
          simp only [List.map_append, List.map_cons, List.map_nil]
          rw [List.nodup_append]
          refine ⟨hk, by simp, ?_⟩
          intro a ha b hb
          simp only [List.mem_singleton] at hb
          subst hb
          intro e
          exact (dictGet_none_iff d p.2).mp hg (e ▸ ha)
        | some cols =>
          simp only
          rw [keys_dictSet]
          have : p.2 ∈ d.map (·.1) := by
            by_contra hn
            rw [(dictGet_none_iff d p.2).mpr hn] at hg
            simp at hg
          simpa [this] using hk
    · intro s
      rw [groupOf_append_single]
      unfold groupStep
      by_cases ht : some p.1 = t
      · simp [ht, hd s]
      · simp only [ht, if_false, ne_eq, not_false_eq_true, true_and]
        cases hg : dictGet d p.2 with
        | none =>
          simp only
          rw [dictGet_append_single, hd s]
          by_cases hs : p.2 = s
          · subst hs
            have : groupOf pre t p.2 = [] := by
              have := hd p.2
              rw [hg] at this
              simp only [optL] at this
              by_contra hne
              simp [hne] at this
            simp [this, optL]
          · simp only [hs, if_false, List.append_nil]
            cases optL (groupOf pre t s) <;> rfl
        | some cols =>
          simp only
          rw [dictGet_dictSet]
          by_cases hs : p.2 = s
          · subst hs
            have : cols = groupOf pre t p.2 := by
              have := hd p.2
              rw [hg] at this
              simp only [optL] at this
              split at this <;> simp_all
            simp [this, optL]
          · simp [hs, hd s]

theorem colNamesDict_eq (c2s : List (String × Stype)) (t : Option String) :
    colNamesDict c2s t = (c2s.foldl (groupStep t) []).map fun g => (g.1, sortNames g.2) := rfl

theorem dictGet_mapVals [DecidableEq κ] (d : List (κ × ν)) (f : ν → ν') (k : κ) :
    dictGet (d.map fun p => (p.1, f p.2)) k = (dictGet d k).map f := by
  induction d with
  | nil => rfl
  | cons q rest ih =>
    obtain ⟨k', v'⟩ := q
    simp only [List.map_cons, dictGet]
    by_cases hk : k' = k
    · simp [hk]
    · simp [hk, ih]

/-- the group of stype `s` in the canonical table: the non-target names of that stype, sorted -/
theorem dictGet_colNamesDict (c2s : List (String × Stype)) (t : Option String) (s : Stype) :
    dictGet (colNamesDict c2s t) s = (optL (groupOf c2s t s)).map sortNames := by
  rw [colNamesDict_eq, dictGet_mapVals]
  have := (grouped_inv t c2s [] [] (by simp) (by intro s; simp [dictGet, groupOf, optL])).2 s
  simp only [List.nil_append] at this
  rw [this]

theorem keys_colNamesDict (c2s : List (String × Stype)) (t : Option String) :
    ((colNamesDict c2s t).map (·.1)).Nodup := by
  rw [colNamesDict_eq, List.map_map]
  exact (grouped_inv t c2s [] [] (by simp) (by intro s; simp [dictGet, groupOf, optL])).1

theorem mem_colNamesDict (c2s : List (String × Stype)) (t : Option String) (g : Stype × List String)
    (hg : g ∈ colNamesDict c2s t) : groupOf c2s t g.1 ≠ [] ∧ g.2 = sortNames (groupOf c2s t g.1) := by
  have h := dictGet_of_mem_nodup _ g.1 g.2 hg (keys_colNamesDict c2s t)
  rw [dictGet_colNamesDict] at h
  simp only [optL] at h
  split at h
  · simp at h
  · rename_i hne
    simp only [Option.map_some, Option.some.injEq] at h
    exact ⟨hne, h.symm⟩

/-! ### the typed domain of a call, for a fresh and for an already used converter -/

theorem mem_groupOf (c2s : List (String × Stype)) (t : Option String) (s : Stype) (c : String) :
    c ∈ groupOf c2s t s ↔ (c, s) ∈ c2s ∧ some c ≠ t := by
  simp only [groupOf, List.mem_map, List.mem_filter, Bool.and_eq_true, decide_eq_true_eq]
  constructor
  · rintro ⟨p, ⟨hp, h1, h2⟩, rfl⟩
    exact ⟨by rw [← h2]; exact hp, h1⟩
  · rintro ⟨hp, h1⟩
    exact ⟨(c, s), ⟨hp, h1, rfl⟩, rfl⟩

theorem callOK_fresh (cv : Conv F) (df : DF L F) (hn : cv.names = colNamesDict cv.colToStype cv.target)
    (hok : ConvFrameOK cv df) : CallOK cv df df.numRows := by
  have hmem : ∀ g ∈ cv.names, ∀ c ∈ g.2, (c, g.1) ∈ cv.colToStype ∧ some c ≠ cv.target := by
    intro g hg c hc
    rw [hn] at hg
    obtain ⟨_, h2⟩ := mem_colNamesDict _ _ g hg
    rw [h2, mem_sortNames, mem_groupOf] at hc
    exact hc
  refine ⟨hok.npos, rfl, ?_, ?_, ?_, ?_, hok.target⟩
  · obtain ⟨p, hp, hpt⟩ := hok.feature
    have hg : p.1 ∈ groupOf cv.colToStype cv.target p.2 := (mem_groupOf _ _ _ _).mpr ⟨hp, hpt⟩
    have hne : groupOf cv.colToStype cv.target p.2 ≠ [] := List.ne_nil_of_mem hg
    have := dictGet_colNamesDict cv.colToStype cv.target p.2
    simp only [optL, hne, if_false, Option.map_some] at this
    rw [hn]
    exact List.ne_nil_of_mem (mem_of_dictGet _ _ _ this)
  · rw [hn]; exact keys_colNamesDict _ _
  · intro g hg
    have hg' := hg
    rw [hn] at hg'
    obtain ⟨h1, h2⟩ := mem_colNamesDict _ _ g hg'
    refine ⟨by rw [h2]; exact sortNames_ne_nil _ h1, ?_⟩
    obtain ⟨c, hc⟩ := List.exists_mem_of_ne_nil _ h1
    have := ((mem_groupOf _ _ _ _).mp hc).1
    have hnt := hok.no_tok _ this
    simp only at hnt
    cases hs : g.1 <;> simp [Stype.useDict, hs] at hnt ⊢
  · intro g hg c hc
    obtain ⟨hp, hpt⟩ := hmem g hg c hc
    obtain ⟨col, hcol, hlen, hwf, hw⟩ := hok.cols (c, g.1) hp hpt
    have hst : cv.stypeOf c = g.1 := by
      simp [Conv.stypeOf, dictGet_of_mem_nodup _ _ _ hp hok.c2s_nodup]
    exact ⟨col, hcol, hlen, by rw [hst], by rw [hst], by rw [hst]; exact hwf, by rw [hst]; exact hw⟩

theorem callOK_merged (cv : Conv F) (df : DF L F) (n : Nat) (hok : CallOK cv df n) :
    CallOK { cv with names := mergeNames cv.names } df n := by
  refine ⟨hok.npos, hok.labels, mergeNames_nonempty _ hok.nonempty, mergeNames_keys _ hok.keys, ?_, ?_, hok.target⟩
  · intro p hp
    have hne := mergeNames_groups cv.names (fun g hg => (hok.groups g hg).1) p hp
    refine ⟨hne, ?_⟩
    obtain ⟨c, hc⟩ := List.exists_mem_of_ne_nil _ hne
    obtain ⟨g, hg, _, _, _, h3⟩ := mergeNames_origin cv.names p hp c hc
    rw [← h3]
    exact (hok.groups g hg).2
  · intro p hp c hc
    obtain ⟨g, hg, hcg, h1, h2, _⟩ := mergeNames_origin cv.names p hp c hc
    obtain ⟨col, hcol, hlen, hk1, hk2, hwf, hw⟩ := hok.cols g hg c hcg
    exact ⟨col, hcol, hlen, hk1.trans h2, hk2.trans h1, hwf, fun hE => hw (h1.trans hE)⟩

/-! ### merging is idempotent -/

theorem mergeNamesStep_noop_parent (names : List (Stype × List String)) (s : Stype) (hs : s.parent = s) :
    mergeNamesStep names s = names := by
  simp [mergeNamesStep, hs]

theorem mergeNamesStep_noop_absent (names : List (Stype × List String)) (s : Stype)
    (hs : s ∉ names.map (·.1)) : mergeNamesStep names s = names := by
  unfold mergeNamesStep
  split
  · rfl
  · rw [(dictGet_none_iff names s).mpr hs]

theorem mergeNames_eq (names : List (Stype × List String)) :
    mergeNames names = mergeNamesStep (mergeNamesStep names .text_embedded) .image_embedded := by
  simp only [mergeNames, childOrder, Stype.all, List.foldl_cons, List.foldl_nil]
  rw [mergeNamesStep_noop_parent names .numerical rfl, mergeNamesStep_noop_parent names .categorical rfl,
    mergeNamesStep_noop_parent _ .text_tokenized rfl, mergeNamesStep_noop_parent _ .multicategorical rfl,
    mergeNamesStep_noop_parent _ .sequence_numerical rfl, mergeNamesStep_noop_parent _ .timestamp rfl,
    mergeNamesStep_noop_parent _ .embedding rfl]

theorem mergeNamesStep_drops_key (names : List (Stype × List String)) (s : Stype) (hs : s.parent ≠ s) :
    s ∉ (mergeNamesStep names s).map (·.1) := by
  unfold mergeNamesStep
  simp only [hs, if_false]
  cases hcs : dictGet names s with
  | none => exact (dictGet_none_iff names s).mp hcs
  | some cs =>
    simp only
    rw [keys_dictErase]
    simp

theorem mergeNamesStep_keys_subset (names : List (Stype × List String)) (s k : Stype)
    (hk : k ∈ (mergeNamesStep names s).map (·.1)) : k ∈ names.map (·.1) ∨ k = s.parent := by
  unfold mergeNamesStep at hk
  split at hk
  · exact Or.inl hk
  · cases hcs : dictGet names s with
    | none => rw [hcs] at hk; exact Or.inl hk
    | some cs =>
      rw [hcs] at hk
      simp only at hk
      rw [keys_dictErase, List.mem_filter, keys_dictSet] at hk
      split at hk
      · exact Or.inl hk.1
      · rcases List.mem_append.mp hk.1 with h | h
        · exact Or.inl h
        · exact Or.inr (by simpa using h)

theorem mergeNames_idem (names : List (Stype × List String)) : mergeNames (mergeNames names) = mergeNames names := by
  have h1 : Stype.text_embedded ∉ (mergeNames names).map (·.1) := by
    rw [mergeNames_eq]
    intro hk
    rcases mergeNamesStep_keys_subset _ _ _ hk with h | h
    · exact mergeNamesStep_drops_key names .text_embedded (by decide) h
    · exact absurd h (by decide)
  have h2 : Stype.image_embedded ∉ (mergeNames names).map (·.1) := by
    rw [mergeNames_eq]
    exact mergeNamesStep_drops_key _ .image_embedded (by decide)
  rw [mergeNames_eq (mergeNames names), mergeNamesStep_noop_absent _ _ h1, mergeNamesStep_noop_absent _ _ h2]

/-! ### frame-level facts for `materialize` -/

theorem materialize_eq (vc : String → List Key → List Key) (t : Option String)
    (emb : String → String → List (Val F)) (df : DF L F) :
    materialize vc t emb df = ((fitConv vc t emb df).call df).map fun r =>
      { tf := r.1, stats := updateEmbDim r.1 (fitStats vc t df), conv := r.2 } := by
  simp only [materialize, materializeWith, fitConv]
  cases (Conv.init df.colToStype t (fitStats vc t df) emb).call df <;> rfl

theorem find_col (df : DF L F) (c : Col F) (hc : c ∈ df.cols) (hnd : (df.cols.map (·.name)).Nodup) :
    df.col? c.name = some c := by
  unfold DF.col?
  generalize df.cols = cols at hc hnd
  induction cols with
  | nil => simp at hc
  | cons x xs ih =>
    simp only [List.map_cons, List.nodup_cons] at hnd
    rcases List.mem_cons.mp hc with e | h
    · subst e; simp [List.find?_cons]
    · have hne : x.name ≠ c.name := by
        intro e
        exact hnd.1 (e ▸ List.mem_map.mpr ⟨c, h, rfl⟩)
      have hb : (x.name == c.name) = false := by simpa using hne
      simp only [List.find?_cons, hb]
      exact ih h hnd.2

theorem colToStype_names (df : DF L F) : df.colToStype.map (·.1) = df.cols.map (·.name) := by
  simp [DF.colToStype, List.map_map, Function.comp]

theorem stypeOf_col (cv : Conv F) (df : DF L F) (h : cv.colToStype = df.colToStype) (c : Col F) (hc : c ∈ df.cols)
    (hnd : (df.cols.map (·.name)).Nodup) : cv.stypeOf c.name = c.stype := by
  have hm : (c.name, c.stype) ∈ df.colToStype := List.mem_map.mpr ⟨c, hc, rfl⟩
  have := dictGet_of_mem_nodup df.colToStype c.name c.stype hm (by rw [colToStype_names]; exact hnd)
  simp [Conv.stypeOf, h, this]

theorem specCol_col (cv : Conv F) (df : DF L F) (h : cv.colToStype = df.colToStype) (c : Col F) (hc : c ∈ df.cols)
    (hnd : (df.cols.map (·.name)).Nodup) :
    specCol cv df c.name = c.cells.map (encodeCell (cv.cfg c.name) c.stype) := by
  simp only [specCol, find_col df c hc hnd, stypeOf_col cv df h c hc hnd]

/-- every non-target column is listed in the canonical name table -/
theorem listed (cv : Conv F) (df : DF L F) (h : cv.colToStype = df.colToStype)
    (hn : cv.names = colNamesDict cv.colToStype cv.target) (c : Col F) (hc : c ∈ df.cols)
    (ht : some c.name ≠ cv.target) : ∃ g ∈ cv.names, c.name ∈ g.2 := by
  have hm : (c.name, c.stype) ∈ cv.colToStype := by rw [h]; exact List.mem_map.mpr ⟨c, hc, rfl⟩
  have hg : c.name ∈ groupOf cv.colToStype cv.target c.stype := (mem_groupOf _ _ _ _).mpr ⟨hm, ht⟩
  have hne : groupOf cv.colToStype cv.target c.stype ≠ [] := List.ne_nil_of_mem hg
  have := dictGet_colNamesDict cv.colToStype cv.target c.stype
  simp only [optL, hne, if_false, Option.map_some] at this
  rw [hn]
  exact ⟨_, mem_of_dictGet _ _ _ this, (mem_sortNames _ _).mpr hg⟩

end Mat

end TFVerif

/-
Lemmas tying the extension `Model/EncoderLM.lean` back to the model the C12 / C13 theorems are about.
-/
import TFVerif.Model.EncoderLM

namespace TFVerif.Enc

/-- for a stype that has columns, the key-by-key validation is the acceptance predicate of the property theorems -/
theorem wiseKeyOk_present (c : EncClass) (st : Stype) (na : Option NA) :
    wiseKeyOk c st na true = wiseOk c st na := by
  simp [wiseKeyOk, wiseOk]

/-- for a stype without columns the NA strategy is never looked at, the pairing always is -/
theorem wiseKeyOk_absent (c : EncClass) (st : Stype) (na : Option NA) :
    wiseKeyOk c st na false = (st.parent == st && (supported c).contains st) := by
  simp [wiseKeyOk]

/-- an unsupported pairing is rejected whether or not the data has columns of that stype -/
theorem wiseKeyOk_unsupported (c : EncClass) (st : Stype) (na : Option NA) (h : Bool)
    (hs : (supported c).contains st = false) : wiseKeyOk c st na h = false := by
  unfold wiseKeyOk
  rw [hs]
  simp

/-- a child stype is never a valid key -/
theorem wiseKeyOk_child (c : EncClass) (st : Stype) (na : Option NA) (h : Bool)
    (hp : (st.parent == st) = false) : wiseKeyOk c st na h = false := by
  unfold wiseKeyOk
  rw [hp]
  simp

/-- the loop body of the generalised forward on a built-in encoder is `wisePart` -/
theorem wisePartG_builtin {R : Type} (S : SOps R) (names : List (Stype × List String))
    (encs : List (Stype × Encoder R)) (tf : List (Group R)) (s : Stype) :
    wisePartG S { colNames := names, encoders := encs.map fun p => (p.1, AnyEncoder.builtin p.2) } tf s
      = wisePart S { colNames := names, encoders := encs } tf s := by
  have hl : ∀ (l : List (Stype × Encoder R)),
      (l.map fun p => (p.1, AnyEncoder.builtin p.2)).lookup s = (l.lookup s).map AnyEncoder.builtin := by
    intro l
    induction l with
    | nil => rfl
    | cons p l ih =>
      obtain ⟨a, b⟩ := p
      simp only [List.map_cons, List.lookup_cons]
      cases h : (s == a) <;> simp [ih]
  simp only [wisePartG, wisePart, hl]
  cases tf.find? (·.st == s) <;> simp only [bind, Option.bind]
  rename_i g
  cases names.lookup s <;> simp only []
  cases encs.lookup s <;> simp [AnyEncoder.forward]

/-- on built-in encoders the generalised `StypeWiseFeatureEncoder.forward` is the one of the property theorems -/
theorem wiseForwardG_builtin {R : Type} (S : SOps R) (names : List (Stype × List String))
    (encs : List (Stype × Encoder R)) (tf : List (Group R)) :
    wiseForwardG S { colNames := names, encoders := encs.map fun p => (p.1, AnyEncoder.builtin p.2) } tf
      = wiseForward S { colNames := names, encoders := encs } tf := by
  have h : wisePartG S { colNames := names, encoders := encs.map fun p => (p.1, AnyEncoder.builtin p.2) } tf
      = wisePart S { colNames := names, encoders := encs } tf := funext (wisePartG_builtin S names encs tf)
  simp only [wiseForwardG, wiseForward, h]

/-! ### the dictionaries of `LinearModelEncoder` are looked up by name -/

/-- looking a name up in an association list with pairwise distinct names does not depend on the order of the list -/
theorem find?_name_perm {R : Type} {l l' : List (LMCol R)} (h : l.Perm l')
    (hn : (l.map (·.name)).Nodup) (name : String) :
    l.find? (·.name == name) = l'.find? (·.name == name) := by
  induction h with
  | nil => rfl
  | cons a _ ih =>
    simp only [List.map_cons, List.nodup_cons] at hn
    simp only [List.find?_cons]
    cases (a.name == name) <;> simp [ih hn.2]
  | swap a b l =>
    simp only [List.map_cons, List.nodup_cons, List.mem_cons, not_or] at hn
    simp only [List.find?_cons]
    by_cases ha : a.name = name <;> by_cases hb : b.name = name
    · exact absurd (hb.trans ha.symm) hn.1.1
    · have hb' : (b.name == name) = false := by simpa using hb
      have ha' : (a.name == name) = true := by simpa using ha
      simp [ha', hb']
    · have hb' : (b.name == name) = true := by simpa using hb
      have ha' : (a.name == name) = false := by simpa using ha
      simp [ha', hb']
    · have hb' : (b.name == name) = false := by simpa using hb
      have ha' : (a.name == name) = false := by simpa using ha
      simp [ha', hb']
  | trans h1 _ ih1 ih2 =>
    have hn2 := (h1.map (·.name)).nodup_iff.mp hn
    exact (ih1 hn).trans (ih2 hn2)

/-- the insertion order of the user's `col_to_model_cfg` dict is irrelevant: only the names matter -/
theorem lmForward_dict_order {R : Type} (S : SOps R) (e : LMEncoder R) (cols' : List (LMCol R))
    (h : e.cols.Perm cols') (hn : (e.cols.map (·.name)).Nodup)
    (rows cols : Nat) (colNames : List String) (feat : Feat R) :
    lmForward S { e with cols := cols' } rows cols colNames feat = lmForward S e rows cols colNames feat := by
  have hcol : ∀ f i nm, lmColumnEncode S { e with cols := cols' } f i nm = lmColumnEncode S e f i nm := by
    intro f i nm
    simp only [lmColumnEncode, find?_name_perm h hn nm]
  have henc : ∀ f, lmEncodeForward S { e with cols := cols' } rows colNames f = lmEncodeForward S e rows colNames f := by
    intro f
    simp only [lmEncodeForward, hcol]
  simp only [lmForward, henc]

end TFVerif.Enc

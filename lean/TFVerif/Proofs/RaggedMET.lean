/-
Refinement lemmas for MultiEmbeddingTensor: the primitives on the canonical storage of a
width-annotated grid are the nested-list selections (C05, C06).  Core Lean only.
-/
import TFVerif.Proofs.RaggedGrid

namespace TFVerif

open Grid

theorem WGrid.WF.grid {α : Type} {w : WGrid α} (h : w.WF) : w.grid.WF := by
  intro row hrow
  have := congrArg List.length (h.2 row hrow)
  simp at this
  rw [this, h.1]

theorem pick_map {β γ : Type} (xs : List β) (f : β → γ) (ps : List Nat) :
    pick (xs.map f) ps = (pick xs ps).map f := by
  induction ps with
  | nil => rfl
  | cons p ps ih =>
    rw [pick_cons, pick_cons, ih, List.map_append]
    congr 1
    simp only [List.getElem?_map]
    cases xs[p]? <;> rfl

/-- value segment of a stored row between the offsets of columns `k` and `k+n`. -/
theorem row_segment {α : Type} (row : List (List α)) (w : List Nat) (hw : row.map List.length = w)
    (k n : Nat) (h : k + n ≤ row.length) :
    pySlice row.flatten ((ps 0 w).getD k 0) ((ps 0 w).getD (k + n) 0) = ((row.drop k).take n).flatten := by
  have := ofCells_segment 0 0 row k n h
  simp only [MNT.ofCells, hw] at this
  unfold pySlice
  exact this

theorem width_at {α : Type} (row : List (List α)) (w : List Nat) (hw : row.map List.length = w)
    (k : Nat) (h : k < row.length) :
    (ps 0 w).getD (k + 1) 0 - (ps 0 w).getD k 0 = w.getD k 0 := by
  have := ofCells_count_at 0 0 row k h
  simp only [MNT.ofCells, hw] at this
  rw [this, ← hw]
  simp [List.getD_eq_getElem?_getD, h]

theorem width_at' (w : List Nat) (k : Nat) (h : k < w.length) :
    (ps 0 w).getD (k + 1) 0 - (ps 0 w).getD k 0 = w.getD k 0 := by
  rw [ps_getD 0 w (k + 1) (by omega), ps_getD 0 w k (by omega), List.take_add_one, List.sum_append]
  simp [List.getD_eq_getElem?_getD, h]

theorem seg_sum (w : List Nat) (k n : Nat) (h : k + n ≤ w.length) :
    (ps 0 w).getD (k + n) 0 - (ps 0 w).getD k 0 = ((w.drop k).take n).sum := by
  rw [ps_getD 0 w (k + n) h, ps_getD 0 w k (by omega), List.take_add, List.sum_append]
  omega

/-! ### primitives -/

theorem met_rowNarrow_ofW {α : Type} (w : WGrid α) (s l : Nat) (h : s + l ≤ w.grid.rows.length) :
    (MET.ofW w).rowNarrow s l
      = MET.ofW { w with grid := { w.grid with rows := (w.grid.rows.drop s).take l } } := by
  unfold MET.rowNarrow MET.ofW MET.ofGrid pySlice
  simp only [List.length_take, List.length_drop, List.map_take, List.map_drop]
  congr 1
  · omega
  · congr 1; omega

theorem met_rowIndexSelect_ofW {α : Type} (w : WGrid α) (idx : List Nat)
    (hidx : ∀ i ∈ idx, i < w.grid.rows.length) :
    (MET.ofW w).rowIndexSelect idx
      = MET.ofW { w with grid := { w.grid with rows := pick w.grid.rows idx } } := by
  unfold MET.rowIndexSelect MET.ofW MET.ofGrid
  simp only [pick_length _ idx hidx]
  congr 1
  exact pick_map w.grid.rows List.flatten idx

theorem met_empty_ofW {α : Type} (w : WGrid α) (dim : Nat) (hd : dim = 0 ∨ dim = 1) :
    (MET.ofW w).empty dim
      = MET.ofW { grid := w.grid.pickDim [] dim, widths := if dim = 0 then w.widths else [] } := by
  rcases hd with rfl | rfl
  · simp [MET.empty, MET.ofW, MET.ofGrid, Grid.pickDim, pick]
  · simp [MET.empty, MET.ofW, MET.ofGrid, Grid.pickDim, pick, cumsum, cumsumFrom]

theorem met_colNarrow_ofW {α : Type} (w : WGrid α) (hw : w.WF) (s l : Nat) (h : s + l ≤ w.grid.numCols) :
    (MET.ofW w).colNarrow s l
      = MET.ofW { grid := { numCols := l, rows := w.grid.rows.map fun row => (row.drop s).take l },
                  widths := (w.widths.drop s).take l } := by
  have hC : w.grid.numCols = w.widths.length := hw.1
  unfold MET.colNarrow MET.ofW MET.ofGrid
  simp only [psums_eq, List.length_map, List.map_map]
  have hoff : (pySlice (ps 0 w.widths) s (s + l + 1)).map (· - (ps 0 w.widths).getD s 0)
      = ps 0 ((w.widths.drop s).take l) := by
    unfold pySlice
    have e : s + l + 1 - s = l + 1 := by omega
    rw [e, drop_ps 0 _ s (by omega), take_ps _ _ l (by simp; omega)]
    rw [ps_getD 0 _ s (by omega)]
    simp only [Nat.zero_add]
    exact ps_map_sub _ _
  rw [hoff, seg_sum w.widths s l (by omega)]
  congr 1
  apply List.map_congr_left
  intro row hrow
  simp only [Function.comp]
  have hrl : row.length = w.grid.numCols := hw.grid row hrow
  exact row_segment row w.widths (hw.2 row hrow) s l (by omega)

theorem met_colIndexSelect_ofW {α : Type} (w : WGrid α) (hw : w.WF) (idx : List Nat)
    (hne : idx ≠ []) (hidx : ∀ c ∈ idx, c < w.grid.numCols) :
    (MET.ofW w).colIndexSelect idx
      = MET.ofW { grid := { numCols := idx.length, rows := w.grid.rows.map fun row => pick row idx },
                  widths := pick w.widths idx } := by
  have hC : w.grid.numCols = w.widths.length := hw.1
  have hpw : pick w.widths idx = idx.map (w.widths.getD · 0) :=
    pick_eq_map_getD w.widths idx 0 (by intro p hp; rw [← hC]; exact hidx p hp)
  unfold MET.colIndexSelect
  have : idx.isEmpty = false := by cases idx <;> simp_all
  simp only [this, Bool.false_eq_true, if_false]
  unfold MET.ofW MET.ofGrid
  simp only [psums_eq, counts_ps, hpw, List.length_map, List.map_map]
  congr 1
  apply List.map_congr_left
  intro row hrow
  simp only [Function.comp]
  have hrl : row.length = w.grid.numCols := hw.grid row hrow
  rw [gatherBA_map]
  unfold pick
  rw [flatten_flatMap']
  apply flatMap_congr'
  intro c hc
  have hc' : c < row.length := by rw [hrl]; exact hidx c hc
  have h1 := row_segment row w.widths (hw.2 row hrow) c 1 (by omega)
  unfold pySlice at h1
  rw [width_at row w.widths (hw.2 row hrow) c hc'] at h1
  rw [h1, drop_take_one_toList]

theorem met_singleIndexSelect1_ofW {α : Type} (w : WGrid α) (hw : w.WF) (i : Nat) (hi : i < w.grid.numCols) :
    (MET.ofW w).singleIndexSelect i 1
      = MET.ofW { grid := { numCols := 1, rows := w.grid.rows.map fun row => pick row [i] },
                  widths := pick w.widths [i] } := by
  have hC : w.grid.numCols = w.widths.length := hw.1
  have hpw : pick w.widths [i] = [w.widths.getD i 0] :=
    pick_eq_map_getD w.widths [i] 0 (by intro p hp; simp at hp; subst hp; omega)
  unfold MET.singleIndexSelect MET.ofW MET.ofGrid
  simp only [Nat.one_ne_zero, if_false, psums_eq, hpw, List.length_map, List.map_map]
  rw [width_at' w.widths i (by omega)]
  have hvals : ∀ row ∈ w.grid.rows,
      pySlice row.flatten ((ps 0 w.widths).getD i 0) ((ps 0 w.widths).getD (i + 1) 0)
        = (pick row [i]).flatten := by
    intro row hrow
    have hrl : row.length = w.grid.numCols := hw.grid row hrow
    have h1 := row_segment row w.widths (hw.2 row hrow) i 1 (by omega)
    rw [h1, drop_take_one_toList]
    simp [pick_cons, pick_nil]
  have hv : (w.grid.rows.map fun row =>
        pySlice row.flatten ((ps 0 w.widths).getD i 0) ((ps 0 w.widths).getD (i + 1) 0))
      = w.grid.rows.map fun row => (pick row [i]).flatten := List.map_congr_left hvals
  simp only [Function.comp_def]
  rw [hv]
  simp [ps]

end TFVerif

namespace TFVerif

open Grid

/-! ### assembling `MET.select` -/

theorem ofW_size {α : Type} (w : WGrid α) (dim : Nat) : (MET.ofW w).size dim = w.grid.size dim := by
  simp [MET.size, Grid.size, MET.ofW, MET.ofGrid]

/-- widths after selecting positions `ps` along `dim`. -/
def WGrid.pickW {α : Type} (w : WGrid α) (ps : List Nat) (dim : Nat) : WGrid α :=
  { grid := w.grid.pickDim ps dim, widths := if dim = 0 then w.widths else pick w.widths ps }

theorem WGrid.select_eq {α : Type} (w : WGrid α) (ix : Index) (dim : Nat) :
    w.select ix dim = (ix.positions (w.grid.size dim)).map fun ps => w.pickW ps dim := rfl

theorem met_indexSelect_ofW {α : Type} (w : WGrid α) (hw : w.WF) (js : List Nat) (dim : Nat)
    (hd : dim = 0 ∨ dim = 1) (hjs : ∀ p ∈ js, p < w.grid.size dim) :
    (MET.ofW w).indexSelect js dim = MET.ofW (w.pickW js dim) := by
  rcases hd with rfl | rfl
  · simp only [MET.indexSelect, if_true, WGrid.pickW, Grid.pickDim]
    exact met_rowIndexSelect_ofW w js (by simpa [Grid.size] using hjs)
  · simp only [MET.indexSelect, Nat.one_ne_zero, if_false, WGrid.pickW, Grid.pickDim]
    by_cases hne : js = []
    · subst hne
      have := met_empty_ofW w 1 (Or.inr rfl)
      simpa [MET.colIndexSelect, Grid.pickDim, pick] using this
    · exact met_colIndexSelect_ofW w hw js hne (by simpa [Grid.size] using hjs)

theorem met_singleIndexSelect_ofW {α : Type} (w : WGrid α) (hw : w.WF) (j : Nat) (dim : Nat)
    (hd : dim = 0 ∨ dim = 1) (hj : j < w.grid.size dim) :
    (MET.ofW w).singleIndexSelect j dim = MET.ofW (w.pickW [j] dim) := by
  rcases hd with rfl | rfl
  · have h0 : (MET.ofW w).singleIndexSelect j 0 = (MET.ofW w).rowIndexSelect [j] := by
      simp [MET.singleIndexSelect, MET.rowIndexSelect]
    rw [h0]
    simp only [WGrid.pickW, if_true, Grid.pickDim]
    exact met_rowIndexSelect_ofW w [j] (by intro i hi; simp at hi; subst hi; simpa [Grid.size] using hj)
  · simp only [WGrid.pickW, Nat.one_ne_zero, if_false, Grid.pickDim]
    exact met_singleIndexSelect1_ofW w hw j (by simpa [Grid.size] using hj)

theorem pickW_all {α : Type} (w : WGrid α) (hw : w.WF) (dim : Nat) (hd : dim = 0 ∨ dim = 1) :
    w.pickW (List.range' 0 (w.grid.size dim)) dim = w := by
  unfold WGrid.pickW
  rw [pickDim_all w.grid hw.grid dim hd]
  rcases hd with rfl | rfl
  · simp
  · simp only [Nat.one_ne_zero, if_false, Grid.size]
    rw [hw.1, pick_all]

theorem met_narrow_ofW {α : Type} (w : WGrid α) (hw : w.WF) (dim : Nat) (hd : dim = 0 ∨ dim = 1)
    (s e : Nat) (he : e ≤ w.grid.size dim) :
    (MET.ofW w).narrow dim s ((e : Int) - s) = MET.ofW (w.pickW (rangeStep s e 1) dim) := by
  rw [rangeStep_one]
  unfold MET.narrow
  simp only [ofW_size]
  by_cases h1 : s = 0 ∧ (s : Int) + ((e : Int) - s) ≥ (w.grid.size dim : Nat)
  · simp only [h1, and_self, if_true]
    obtain ⟨hs, hge⟩ := h1
    subst hs
    have : e = w.grid.size dim := by omega
    subst this
    simp [pickW_all w hw dim hd]
  · simp only [h1, if_false]
    by_cases h2 : (e : Int) - s ≤ 0
    · simp only [h2, if_true]
      have : e - s = 0 := by omega
      rw [this, met_empty_ofW w dim hd]
      rcases hd with rfl | rfl <;> simp [WGrid.pickW, pick]
    · simp only [h2, if_false]
      have hl : ((e : Int) - s).toNat = e - s := by omega
      rw [hl]
      rcases hd with rfl | rfl
      · simp only [if_true, WGrid.pickW, Grid.pickDim]
        have he' : e ≤ w.grid.rows.length := by simpa [Grid.size] using he
        rw [met_rowNarrow_ofW w s (e - s) (by omega), pick_range' w.grid.rows s (e - s) (by omega)]
      · simp only [Nat.one_ne_zero, if_false, WGrid.pickW, Grid.pickDim, List.length_range']
        have he' : e ≤ w.grid.numCols := by simpa [Grid.size] using he
        rw [met_colNarrow_ofW w hw s (e - s) (by omega)]
        rw [pick_range' w.widths s (e - s) (by rw [← hw.1]; omega)]
        congr 3
        apply List.map_congr_left
        intro row hrow
        rw [pick_range' row s (e - s) (by rw [hw.grid row hrow]; omega)]

/-- **Refinement of one selection (MultiEmbeddingTensor).** -/
theorem met_select_ofW {α : Type} (w : WGrid α) (hw : w.WF) (ix : Index) (dim : Nat)
    (hd : dim = 0 ∨ dim = 1) :
    (MET.ofW w).select ix dim = (w.select ix dim).map MET.ofW := by
  rw [WGrid.select_eq]
  unfold MET.select
  simp only [ofW_size]
  cases ix with
  | int i =>
    simp only [Index.positions, Option.map_map]
    cases h : normIndex (w.grid.size dim) i with
    | none => rfl
    | some j =>
      simp only [Option.map_some, Function.comp]
      rw [met_singleIndexSelect_ofW w hw j dim hd (normIndex_lt _ _ _ h)]
  | list is =>
    simp only [Index.positions]
    cases h : normIndices (w.grid.size dim) is with
    | none => rfl
    | some js =>
      simp only [Option.map_some]
      rw [met_indexSelect_ofW w hw js dim hd (normIndices_lt _ _ _ h)]
  | mask bs =>
    simp only [Index.positions]
    by_cases hb : bs.length = w.grid.size dim
    · simp only [hb, if_true, Option.map_some]
      rw [met_indexSelect_ofW w hw _ dim hd]
      intro p hp
      have := maskPositions_go_lt bs 0 p hp
      omega
    · simp [hb]
  | slice a b st =>
    have hnarrow : (MET.ofW w).narrow dim (sliceBounds (w.grid.size dim) a b).1
          (((sliceBounds (w.grid.size dim) a b).2 : Int) - ((sliceBounds (w.grid.size dim) a b).1 : Nat))
        = MET.ofW (w.pickW (slicePositions (w.grid.size dim) a b 1) dim) := by
      unfold slicePositions
      exact met_narrow_ofW w hw dim hd _ _ (clampBound_le _ _ _ (Nat.le_refl _))
    unfold MET.slice
    simp only [ofW_size]
    cases st with
    | none =>
      simp only [Index.positions, Option.map_some]
      rw [← hnarrow]
    | some k =>
      simp only [Index.positions]
      by_cases hk : k ≤ 0
      · simp [hk]
      · simp only [hk, if_false, Option.map_some]
        by_cases hk1 : k > 1
        · simp only [hk1, if_true]
          rw [met_indexSelect_ofW w hw _ dim hd (slicePositions_lt _ _ _ _)]
        · simp only [hk1, if_false]
          have : k.toNat = 1 := by omega
          rw [this, ← hnarrow]

theorem pickW_WF {α : Type} (w : WGrid α) (hw : w.WF) (ps : List Nat) (dim : Nat)
    (hd : dim = 0 ∨ dim = 1) (hps : ∀ p ∈ ps, p < w.grid.size dim) : (w.pickW ps dim).WF := by
  rcases hd with rfl | rfl
  · refine ⟨by simpa [WGrid.pickW, Grid.pickDim] using hw.1, ?_⟩
    intro row hrow
    simp only [WGrid.pickW, Grid.pickDim, if_true, pick, List.mem_flatMap, Option.mem_toList] at hrow ⊢
    obtain ⟨p, _, hp⟩ := hrow
    exact hw.2 row (List.mem_of_getElem? hp)
  · have hps' : ∀ p ∈ ps, p < w.widths.length := by
      intro p hp; rw [← hw.1]; simpa [Grid.size] using hps p hp
    refine ⟨?_, ?_⟩
    · simp [WGrid.pickW, Grid.pickDim, pick_length w.widths ps hps']
    · intro row hrow
      simp only [WGrid.pickW, Grid.pickDim, Nat.one_ne_zero, if_false, List.mem_map] at hrow ⊢
      obtain ⟨r, hr, rfl⟩ := hrow
      rw [← pick_map, hw.2 r hr]

theorem met_select_WF {α : Type} (w w' : WGrid α) (hw : w.WF) (ix : Index) (dim : Nat)
    (hd : dim = 0 ∨ dim = 1) (h : w.select ix dim = some w') : w'.WF := by
  rw [WGrid.select_eq] at h
  simp only [Option.map_eq_some_iff] at h
  obtain ⟨ps, hps, rfl⟩ := h
  exact pickW_WF w hw ps dim hd (positions_lt _ _ _ hps)

def MET.run {α : Type} (m : MET α) : List (Index × Nat) → Option (MET α)
  | [] => some m
  | (ix, d) :: rest => (m.select ix d).bind fun m' => MET.run m' rest

def WGrid.run {α : Type} (w : WGrid α) : List (Index × Nat) → Option (WGrid α)
  | [] => some w
  | (ix, d) :: rest => (w.select ix d).bind fun w' => WGrid.run w' rest

theorem met_run_ofW {α : Type} (w : WGrid α) (hw : w.WF) (prog : List (Index × Nat))
    (hd : ∀ p ∈ prog, p.2 = 0 ∨ p.2 = 1) :
    (MET.ofW w).run prog = (w.run prog).map MET.ofW := by
  induction prog generalizing w with
  | nil => rfl
  | cons p rest ih =>
    obtain ⟨ix, d⟩ := p
    have hdd := hd (ix, d) (by simp)
    simp only [MET.run, WGrid.run]
    rw [met_select_ofW w hw ix d hdd]
    cases h : w.select ix d with
    | none => rfl
    | some w' =>
      simp only [Option.map_some, Option.bind_some]
      exact ih w' (met_select_WF w w' hw ix d hdd h) (fun p hp => hd p (by simp [hp]))

theorem met_run_WF {α : Type} (w w' : WGrid α) (hw : w.WF) (prog : List (Index × Nat))
    (hd : ∀ p ∈ prog, p.2 = 0 ∨ p.2 = 1) (h : w.run prog = some w') : w'.WF := by
  induction prog generalizing w with
  | nil => simp [WGrid.run] at h; subst h; exact hw
  | cons p rest ih =>
    obtain ⟨ix, d⟩ := p
    have hdd := hd (ix, d) (by simp)
    simp only [WGrid.run] at h
    cases h1 : w.select ix d with
    | none => simp [h1] at h
    | some w1 =>
      simp only [h1, Option.bind_some] at h
      exact ih w1 (met_select_WF w w1 hw ix d hdd h1) (fun p hp => hd p (by simp [hp])) h

end TFVerif

namespace TFVerif

open Grid

theorem met_grid_ofW {α : Type} (w : WGrid α) (hw : w.WF) : (MET.ofW w).grid = w.grid := by
  unfold MET.grid
  have hR : (MET.ofW w).numRows = w.grid.rows.length := rfl
  have hC : (MET.ofW w).numCols = w.grid.numCols := rfl
  have hV : (MET.ofW w).values = w.grid.rows.map List.flatten := rfl
  have hO : (MET.ofW w).offset = ps 0 w.widths := by simp [MET.ofW, MET.ofGrid, psums_eq]
  simp only [hR, hC, hV, hO]
  have hrows : ((List.range w.grid.rows.length).map fun r => (List.range w.grid.numCols).map fun c =>
      pySlice ((w.grid.rows.map List.flatten).getD r []) ((ps 0 w.widths).getD c 0)
        ((ps 0 w.widths).getD (c + 1) 0)) = w.grid.rows := by
    have : ∀ r ∈ List.range w.grid.rows.length,
        ((List.range w.grid.numCols).map fun c =>
          pySlice ((w.grid.rows.map List.flatten).getD r []) ((ps 0 w.widths).getD c 0)
            ((ps 0 w.widths).getD (c + 1) 0)) = w.grid.rows.getD r [] := by
      intro r hr
      have hr' : r < w.grid.rows.length := by simpa using hr
      have hmem := getD_mem_or w.grid.rows r [] hr'
      have hrl : (w.grid.rows.getD r []).length = w.grid.numCols := hw.grid _ hmem
      have hfl : (w.grid.rows.map List.flatten).getD r [] = (w.grid.rows.getD r []).flatten := by
        simp [List.getD_eq_getElem?_getD, hr']
      rw [hfl]
      have : ∀ c ∈ List.range w.grid.numCols,
          pySlice (w.grid.rows.getD r []).flatten ((ps 0 w.widths).getD c 0) ((ps 0 w.widths).getD (c + 1) 0)
            = (w.grid.rows.getD r []).getD c [] := by
        intro c hc
        have hc' : c < w.grid.numCols := by simpa using hc
        rw [row_segment _ w.widths (hw.2 _ hmem) c 1 (by omega),
          drop_take_one _ c [] (by omega)]
        simp
      rw [List.map_congr_left this]
      have := range_map_getD (w.grid.rows.getD r []) [] (fun x => x)
      rw [hrl] at this
      simpa using this
    rw [List.map_congr_left this]
    simpa using range_map_getD w.grid.rows [] (fun x => x)
  rw [hrows]

theorem met_getValue_ofW {α : Type} (w : WGrid α) (hw : w.WF) (i j : Int) :
    (MET.ofW w).getValue i j =
      (normIndex w.grid.rows.length i).bind fun i' => (normIndex w.grid.numCols j).map fun j' =>
        (w.grid.rows.getD i' []).getD j' [] := by
  unfold MET.getValue
  have hR : (MET.ofW w).numRows = w.grid.rows.length := rfl
  have hC : (MET.ofW w).numCols = w.grid.numCols := rfl
  have hV : (MET.ofW w).values = w.grid.rows.map List.flatten := rfl
  have hO : (MET.ofW w).offset = ps 0 w.widths := by simp [MET.ofW, MET.ofGrid, psums_eq]
  simp only [hR, hC, hV, hO, Option.bind_eq_bind, Option.pure_def]
  cases h1 : normIndex w.grid.rows.length i with
  | none => rfl
  | some i' =>
    cases h2 : normIndex w.grid.numCols j with
    | none => rfl
    | some j' =>
      simp only [Option.bind_some, Option.map_some]
      have hi := normIndex_lt _ _ _ h1
      have hj := normIndex_lt _ _ _ h2
      have hmem := getD_mem_or w.grid.rows i' [] hi
      have hrl : (w.grid.rows.getD i' []).length = w.grid.numCols := hw.grid _ hmem
      have hfl : (w.grid.rows.map List.flatten).getD i' [] = (w.grid.rows.getD i' []).flatten := by
        simp [List.getD_eq_getElem?_getD, hi]
      rw [hfl, row_segment _ w.widths (hw.2 _ hmem) j' 1 (by omega), drop_take_one _ j' [] (by omega)]
      simp

/-- the representation invariant of a `MultiEmbeddingTensor`. -/
def MET.WFRep {α : Type} (m : MET α) : Prop :=
  m.offset.length = m.numCols + 1 ∧ m.offset.head? = some 0 ∧ m.offset.getLast? = some m.width ∧
  m.values.length = m.numRows ∧ ∀ row ∈ m.values, row.length = m.width

theorem met_wfrep_ofW {α : Type} (w : WGrid α) (hw : w.WF) : (MET.ofW w).WFRep := by
  have hO : (MET.ofW w).offset = ps 0 w.widths := by simp [MET.ofW, MET.ofGrid, psums_eq]
  refine ⟨?_, ?_, ?_, ?_, ?_⟩
  · rw [hO]; simp [MET.ofW, MET.ofGrid, hw.1]
  · rw [hO]; exact ps_head? 0 _
  · rw [hO, ps_getLast?]; simp [MET.ofW, MET.ofGrid]
  · simp [MET.ofW, MET.ofGrid]
  · intro row hrow
    simp only [MET.ofW, MET.ofGrid, List.mem_map] at hrow
    obtain ⟨r, hr, rfl⟩ := hrow
    simp only [MET.ofW, MET.ofGrid, List.length_flatten, hw.2 r hr]

end TFVerif

/-
Refinement lemmas for MultiEmbeddingTensor: the primitives on the canonical storage of a
width-annotated grid are the nested-list selections (C05, C06).  Core Lean only.
-/
import TFVerif.Proofs.RaggedGrid

namespace TFVerif

open Grid

theorem WGrid.WF.grid {α : Type} {w : WGrid α} (h : w.WF) : w.grid.WF := by
  intro row hrow
  have := congrArg List.length (h.2 row hrow)
  simp at this
  rw [this, h.1]

theorem pick_map {β γ : Type} (xs : List β) (f : β → γ) (ps : List Nat) :
    pick (xs.map f) ps = (pick xs ps).map f := by
  induction ps with
  | nil => rfl
  | cons p ps ih =>
    rw [pick_cons, pick_cons, ih, List.map_append]
    congr 1
    simp only [List.getElem?_map]
    cases xs[p]? <;> rfl

/-- value segment of a stored row between the offsets of columns `k` and `k+n`. -/
theorem row_segment {α : Type} (row : List (List α)) (w : List Nat) (hw : row.map List.length = w)
    (k n : Nat) (h : k + n ≤ row.length) :
    pySlice row.flatten ((ps 0 w).getD k 0) ((ps 0 w).getD (k + n) 0) = ((row.drop k).take n).flatten := by
  have := ofCells_segment 0 0 row k n h
  simp only [MNT.ofCells, hw] at this
  unfold pySlice
  exact this

theorem width_at {α : Type} (row : List (List α)) (w : List Nat) (hw : row.map List.length = w)
    (k : Nat) (h : k < row.length) :
    (ps 0 w).getD (k + 1) 0 - (ps 0 w).getD k 0 = w.getD k 0 := by
  have := ofCells_count_at 0 0 row k h
  simp only [MNT.ofCells, hw] at this
  rw [this, ← hw]
  simp [List.getD_eq_getElem?_getD, h]

theorem width_at' (w : List Nat) (k : Nat) (h : k < w.length) :
    (ps 0 w).getD (k + 1) 0 - (ps 0 w).getD k 0 = w.getD k 0 := by
  rw [ps_getD 0 w (k + 1) (by omega), ps_getD 0 w k (by omega), List.take_add_one, List.sum_append]
  simp [List.getD_eq_getElem?_getD, h]

theorem seg_sum (w : List Nat) (k n : Nat) (h : k + n ≤ w.length) :
    (ps 0 w).getD (k + n) 0 - (ps 0 w).getD k 0 = ((w.drop k).take n).sum := by
  rw [ps_getD 0 w (k + n) h, ps_getD 0 w k (by omega), List.take_add, List.sum_append]
  omega

/-! ### primitives -/

theorem met_rowNarrow_ofW {α : Type} (w : WGrid α) (s l : Nat) (h : s + l ≤ w.grid.rows.length) :
    (MET.ofW w).rowNarrow s l
      = MET.ofW { w with grid := { w.grid with rows := (w.grid.rows.drop s).take l } } := by
  unfold MET.rowNarrow MET.ofW MET.ofGrid pySlice
  simp only [List.length_take, List.length_drop, List.map_take, List.map_drop]
  congr 1
  · omega
  · congr 1; omega

theorem met_rowIndexSelect_ofW {α : Type} (w : WGrid α) (idx : List Nat)
    (hidx : ∀ i ∈ idx, i < w.grid.rows.length) :
    (MET.ofW w).rowIndexSelect idx
      = MET.ofW { w with grid := { w.grid with rows := pick w.grid.rows idx } } := by
  unfold MET.rowIndexSelect MET.ofW MET.ofGrid
  simp only [pick_length _ idx hidx]
  congr 1
  exact pick_map w.grid.rows List.flatten idx

theorem met_empty_ofW {α : Type} (w : WGrid α) (dim : Nat) (hd : dim = 0 ∨ dim = 1) :
    (MET.ofW w).empty dim
      = MET.ofW { grid := w.grid.pickDim [] dim, widths := if dim = 0 then w.widths else [] } := by
  rcases hd with rfl | rfl
  · simp [MET.empty, MET.ofW, MET.ofGrid, Grid.pickDim, pick]
  · simp [MET.empty, MET.ofW, MET.ofGrid, Grid.pickDim, pick, cumsum, cumsumFrom]

theorem met_colNarrow_ofW {α : Type} (w : WGrid α) (hw : w.WF) (s l : Nat) (h : s + l ≤ w.grid.numCols) :
    (MET.ofW w).colNarrow s l
      = MET.ofW { grid := { numCols := l, rows := w.grid.rows.map fun row => (row.drop s).take l },
                  widths := (w.widths.drop s).take l } := by
  have hC : w.grid.numCols = w.widths.length := hw.1
  unfold MET.colNarrow MET.ofW MET.ofGrid
  simp only [psums_eq, List.length_map, List.map_map]
  have hoff : (pySlice (ps 0 w.widths) s (s + l + 1)).map (· - (ps 0 w.widths).getD s 0)
      = ps 0 ((w.widths.drop s).take l) := by
    unfold pySlice
    have e : s + l + 1 - s = l + 1 := by omega
    rw [e, drop_ps 0 _ s (by omega), take_ps _ _ l (by simp; omega)]
    rw [ps_getD 0 _ s (by omega)]
    simp only [Nat.zero_add]
    exact ps_map_sub _ _
  rw [hoff, seg_sum w.widths s l (by omega)]
  congr 1
  apply List.map_congr_left
  intro row hrow
  simp only [Function.comp]
  have hrl : row.length = w.grid.numCols := hw.grid row hrow
  exact row_segment row w.widths (hw.2 row hrow) s l (by omega)

theorem met_colIndexSelect_ofW {α : Type} (w : WGrid α) (hw : w.WF) (idx : List Nat)
    (hne : idx ≠ []) (hidx : ∀ c ∈ idx, c < w.grid.numCols) :
    (MET.ofW w).colIndexSelect idx
      = MET.ofW { grid := { numCols := idx.length, rows := w.grid.rows.map fun row => pick row idx },
                  widths := pick w.widths idx } := by
  have hC : w.grid.numCols = w.widths.length := hw.1
  have hpw : pick w.widths idx = idx.map (w.widths.getD · 0) :=
    pick_eq_map_getD w.widths idx 0 (by intro p hp; rw [← hC]; exact hidx p hp)
  unfold MET.colIndexSelect
  have : idx.isEmpty = false := by cases idx <;> simp_all
  simp only [this, Bool.false_eq_true, if_false]
  unfold MET.ofW MET.ofGrid
  simp only [psums_eq, counts_ps, hpw, List.length_map, List.map_map]
  congr 1
  apply List.map_congr_left
  intro row hrow
  simp only [Function.comp]
  have hrl : row.length = w.grid.numCols := hw.grid row hrow
  rw [gatherBA_map]
  unfold pick
  rw [flatten_flatMap']
  apply flatMap_congr'
  intro c hc
  have hc' : c < row.length := by rw [hrl]; exact hidx c hc
  have h1 := row_segment row w.widths (hw.2 row hrow) c 1 (by omega)
  unfold pySlice at h1
  rw [width_at row w.widths (hw.2 row hrow) c hc'] at h1
  rw [h1, drop_take_one_toList]

theorem met_singleIndexSelect1_ofW {α : Type} (w : WGrid α) (hw : w.WF) (i : Nat) (hi : i < w.grid.numCols) :
    (MET.ofW w).singleIndexSelect i 1
      = MET.ofW { grid := { numCols := 1, rows := w.grid.rows.map fun row => pick row [i] },
                  widths := pick w.widths [i] } := by
  have hC : w.grid.numCols = w.widths.length := hw.1
  have hpw : pick w.widths [i] = [w.widths.getD i 0] :=
    pick_eq_map_getD w.widths [i] 0 (by intro p hp; simp at hp; subst hp; omega)
  unfold MET.singleIndexSelect MET.ofW MET.ofGrid
  simp only [Nat.one_ne_zero, if_false, psums_eq, hpw, List.length_map, List.map_map]
  rw [width_at' w.widths i (by omega)]
  congr 1
  · simp
  · apply List.map_congr_left
    intro row hrow
    simp only [Function.comp]
    have hrl : row.length = w.grid.numCols := hw.grid row hrow
    have h1 := row_segment row w.widths (hw.2 row hrow) i 1 (by omega)
    rw [h1, drop_take_one_toList]
    simp [pick_cons, pick_nil]
  · simp [ps]

end TFVerif

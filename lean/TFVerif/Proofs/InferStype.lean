/-
Helper lemmas for property C18 (stype inference): what the minimum-count test means, Python's `max` over
possibly-NaN minimum counts, the list branch as three conjunctions, order-free forms of both object branches,
permutation invariance, the frame loop.
-/
import TFVerif.Model.InferStype
import TFVerif.Proofs.Stats

set_option linter.unusedSectionVars false
set_option linter.unusedSimpArgs false

namespace TFVerif.Infer
open List TFVerif.Stats

section MinCount
variable {β : Type} [DecidableEq β]

theorem lt_foldl_min_iff (cs : List Nat) (c t : Nat) : t < cs.foldl min c ↔ t < c ∧ ∀ x ∈ cs, t < x := by
  induction cs generalizing c with
  | nil => simp
  | cons y ys ih =>
    simp only [foldl_cons, ih, mem_cons, forall_eq_or_imp]
    constructor
    · rintro ⟨h1, h2⟩; exact ⟨by omega, by omega, h2⟩
    · rintro ⟨h1, h2, h3⟩; exact ⟨by omega, h3⟩

theorem distinct_eq_nil_iff (xs : List β) : distinct xs = [] ↔ xs = [] := by
  constructor
  · intro h
    cases xs with
    | nil => rfl
    | cons x xs =>
      have : x ∈ distinct (x :: xs) := (mem_distinct _ _).mpr (by simp)
      rw [h] at this; simp at this
  · rintro rfl; rfl

/-- `_min_count(ser) > t` says: there is a value, and every value occurs more than `t` times -/
theorem minCountGt_iff (xs : List β) (t : Nat) :
    minCountGt xs t = true ↔ xs ≠ [] ∧ ∀ x ∈ xs, t < xs.count x := by
  unfold minCountGt minCount gtOpt
  cases hL : (distinct xs).map (fun v => xs.count v) with
  | nil =>
    have : xs = [] := by
      rw [List.map_eq_nil_iff] at hL
      exact (distinct_eq_nil_iff xs).mp hL
    simp [this]
  | cons c cs =>
    have hne : xs ≠ [] := by
      intro e; subst e; simp [distinct] at hL
    simp only [decide_eq_true_eq, lt_foldl_min_iff]
    have hmem : ∀ n, n ∈ c :: cs ↔ ∃ v ∈ xs, xs.count v = n := by
      intro n
      rw [← hL, List.mem_map]
      constructor
      · rintro ⟨v, hv, rfl⟩; exact ⟨v, (mem_distinct _ _).mp hv, rfl⟩
      · rintro ⟨v, hv, rfl⟩; exact ⟨v, (mem_distinct _ _).mpr hv, rfl⟩
    constructor
    · rintro ⟨h1, h2⟩
      refine ⟨hne, fun x hx => ?_⟩
      have : xs.count x ∈ c :: cs := (hmem _).mpr ⟨x, hx, rfl⟩
      rcases mem_cons.mp this with h | h
      · rw [h]; exact h1
      · exact h2 _ h
    · rintro ⟨_, h⟩
      constructor
      · obtain ⟨v, hv, e⟩ := (hmem c).mp (by simp)
        rw [← e]; exact h v hv
      · intro x hx
        obtain ⟨v, hv, e⟩ := (hmem x).mp (by simp [hx])
        rw [← e]; exact h v hv

theorem minCount_isSome (xs : List β) : (minCount xs).isSome = !xs.isEmpty := by
  unfold minCount
  cases hL : (distinct xs).map (fun v => xs.count v) with
  | nil =>
    rw [List.map_eq_nil_iff] at hL
    have := (distinct_eq_nil_iff xs).mp hL
    simp [this]
  | cons c cs =>
    have hne : xs ≠ [] := by
      intro e; subst e; simp [distinct] at hL
    cases xs with
    | nil => exact absurd rfl hne
    | cons _ _ => simp

theorem minCountGt_perm {xs ys : List β} (h : xs.Perm ys) (t : Nat) : minCountGt xs t = minCountGt ys t := by
  rw [Bool.eq_iff_iff, minCountGt_iff, minCountGt_iff]
  constructor
  · rintro ⟨h1, h2⟩
    refine ⟨fun e => h1 (by rw [e] at h; exact h.eq_nil), fun x hx => ?_⟩
    rw [← h.count_eq]; exact h2 x (h.mem_iff.mpr hx)
  · rintro ⟨h1, h2⟩
    refine ⟨fun e => h1 (by rw [e] at h; exact h.symm.eq_nil), fun x hx => ?_⟩
    rw [h.count_eq]; exact h2 x (h.mem_iff.mp hx)

end MinCount

section PyMax

def step (acc b : Option Nat) : Option Nat :=
  match acc, b with
  | some x, some y => if x < y then some y else some x
  | _, _ => acc

theorem pyMax_cons (a : Option Nat) (rest : List (Option Nat)) : pyMax (a :: rest) = rest.foldl step a := rfl

theorem foldl_step_none (rest : List (Option Nat)) : rest.foldl step none = none := by
  induction rest with
  | nil => rfl
  | cons b bs ih => simpa [step] using ih

theorem gtOpt_none (t : Nat) : gtOpt none t = false := rfl
theorem gtOpt_some (m t : Nat) : gtOpt (some m) t = decide (t < m) := rfl

theorem gtOpt_foldl_step (rest : List (Option Nat)) (x t : Nat) :
    gtOpt (rest.foldl step (some x)) t = (decide (t < x) || rest.any (fun o => gtOpt o t)) := by
  induction rest generalizing x with
  | nil => simp [gtOpt_some]
  | cons b bs ih =>
    cases b with
    | none =>
      have : step (some x) none = some x := rfl
      rw [foldl_cons, this, ih, any_cons, gtOpt_none, Bool.false_or]
    | some y =>
      rw [foldl_cons, any_cons, gtOpt_some]
      by_cases hxy : x < y
      · have : step (some x) (some y) = some y := by simp [step, hxy]
        rw [this, ih, Bool.eq_iff_iff]
        simp only [Bool.or_eq_true, decide_eq_true_eq]
        constructor
        · rintro (h | h)
          · exact Or.inr (Or.inl h)
          · exact Or.inr (Or.inr h)
        · rintro (h | h | h)
          · exact Or.inl (by omega)
          · exact Or.inl h
          · exact Or.inr h
      · have : step (some x) (some y) = some x := by simp [step, hxy]
        rw [this, ih, Bool.eq_iff_iff]
        simp only [Bool.or_eq_true, decide_eq_true_eq]
        constructor
        · rintro (h | h)
          · exact Or.inl h
          · exact Or.inr (Or.inr h)
        · rintro (h | h | h)
          · exact Or.inl h
          · exact Or.inl (by omega)
          · exact Or.inr h

/-- Python's `max` over possibly-NaN minimum counts, compared with the threshold: true iff the first
    entry is not NaN and some entry exceeds the threshold -/
theorem gtOpt_pyMax (a : Option Nat) (rest : List (Option Nat)) (t : Nat) :
    gtOpt (pyMax (a :: rest)) t = (a.isSome && (a :: rest).any (fun o => gtOpt o t)) := by
  rw [pyMax_cons]
  cases a with
  | none => rw [foldl_step_none, gtOpt_none]; rfl
  | some x => rw [gtOpt_foldl_step, any_cons, gtOpt_some]; rfl

end PyMax

section Lists

theorem all_perm {γ : Type} {l l' : List γ} (h : l.Perm l') (p : γ → Bool) : l.all p = l'.all p := by
  rw [Bool.eq_iff_iff, List.all_eq_true, List.all_eq_true]
  exact ⟨fun hh x hx => hh x (h.mem_iff.mpr hx), fun hh x hx => hh x (h.mem_iff.mp hx)⟩

theorem any_perm {γ : Type} {l l' : List γ} (h : l.Perm l') (p : γ → Bool) : l.any p = l'.any p := by
  rw [Bool.eq_iff_iff, List.any_eq_true, List.any_eq_true]
  exact ⟨fun ⟨x, hx, hp⟩ => ⟨x, h.mem_iff.mp hx, hp⟩, fun ⟨x, hx, hp⟩ => ⟨x, h.mem_iff.mpr hx, hp⟩⟩

/-- the loop over a column of lists computes three conjunctions -/
theorem listLoop_lists (len : Nat) (ls : List (List Elem)) (f : Flags) :
    listLoop len (ls.map Obj.list) f = some
      { allNum := f.allNum && ls.all allNumeric,
        allStr := f.allStr && ls.all allStrElems,
        isEmb := f.isEmb && ls.all (fun l => !allNumeric l || (len == l.length && allFloat l && freeOfNanInf l)) } := by
  induction ls generalizing f with
  | nil => simp [listLoop]
  | cons l rest ih =>
    simp only [map_cons, listLoop, all_cons]
    rw [ih]
    cases h1 : allNumeric l <;> cases h2 : allStrElems l <;>
      cases h3 : (len == l.length && allFloat l && freeOfNanInf l) <;>
      simp [Bool.and_assoc]

/-- a non-list cell anywhere makes the list branch return `None` -/
theorem listLoop_nonlist (len : Nat) (ser : List Obj) (f : Flags) (h : ∃ o ∈ ser, o.isList = false) :
    listLoop len ser f = none := by
  induction ser generalizing f with
  | nil => obtain ⟨o, ho, _⟩ := h; simp at ho
  | cons o rest ih =>
    cases o with
    | list l =>
      simp only [listLoop]
      apply ih
      obtain ⟨o', ho', hn⟩ := h
      rcases mem_cons.mp ho' with rfl | ho'
      · simp [Obj.isList] at hn
      · exact ⟨o', ho', hn⟩
    | str s => simp [listLoop]
    | other t => simp [listLoop]

/-- on a column of lists the code-shaped branch (flags, first element's length) equals the order-free
    specification -/
theorem inferLists_eq_spec (ls : List (List Elem)) (first : List Elem) (hf : first ∈ ls) :
    inferLists (ls.map Obj.list) first = inferListsSpec ls := by
  unfold inferLists inferListsSpec
  rw [listLoop_lists]
  simp only [Bool.true_and]
  cases hnum : ls.all allNumeric with
  | false => simp
  | true =>
    simp only [if_true]
    have hn := List.all_eq_true.mp hnum
    have key : ls.all (fun l => !allNumeric l || (first.length == l.length && allFloat l && freeOfNanInf l))
        = (ls.all (fun l => allFloat l && freeOfNanInf l) && ls.all (fun a => ls.all fun b => a.length == b.length)) := by
      rw [Bool.eq_iff_iff]
      simp only [List.all_eq_true, Bool.and_eq_true, Bool.or_eq_true, Bool.not_eq_true', beq_iff_eq]
      constructor
      · intro h
        have h' : ∀ l ∈ ls, first.length = l.length ∧ allFloat l = true ∧ freeOfNanInf l = true := by
          intro l hl
          rcases h l hl with hh | hh
          · rw [hn l hl] at hh; cases hh
          · exact ⟨hh.1.1, hh.1.2, hh.2⟩
        refine ⟨fun l hl => ⟨(h' l hl).2.1, (h' l hl).2.2⟩, fun a ha b hb => ?_⟩
        rw [← (h' a ha).1, ← (h' b hb).1]
      · rintro ⟨h1, h2⟩ l hl
        exact Or.inr ⟨⟨h2 first hf l hl, (h1 l hl).1⟩, (h1 l hl).2⟩
    rw [key]

theorem inferListsSpec_perm {ls ls' : List (List Elem)} (h : ls.Perm ls') : inferListsSpec ls = inferListsSpec ls' := by
  unfold inferListsSpec
  have e : ls.all (fun a => ls.all fun b => a.length == b.length) = ls'.all (fun a => ls'.all fun b => a.length == b.length) := by
    rw [all_perm h]
    congr 1
    funext a
    exact all_perm h _
  rw [all_perm h allNumeric, all_perm h allStrElems, all_perm h (fun l => allFloat l && freeOfNanInf l), e]

end Lists

section Objects

def listsOf (ser : List Obj) : List (List Elem) := ser.filterMap fun | .list l => some l | _ => none

theorem map_listsOf {ser : List Obj} (h : ∀ o ∈ ser, o.isList = true) : (listsOf ser).map Obj.list = ser := by
  induction ser with
  | nil => rfl
  | cons o rest ih =>
    have h1 := h o (by simp)
    cases o with
    | list l =>
      simp only [listsOf, filterMap_cons, map_cons]
      congr 1
      exact ih (fun o' ho' => h o' (by simp [ho']))
    | str s => simp [Obj.isList] at h1
    | other t => simp [Obj.isList] at h1

theorem listsOf_perm {a b : List Obj} (h : a.Perm b) : (listsOf a).Perm (listsOf b) := h.filterMap _

theorem strsOf_perm {a b : List Obj} (h : a.Perm b) : (strsOf a).Perm (strsOf b) := h.filterMap _

theorem tokens_perm (split : String → String → List String) {a b : List String} (h : a.Perm b) (sep : String) :
    (tokens split a sep).Perm (tokens split b sep) := by
  unfold tokens
  exact h.flatMap_right _

theorem inferTokens_eq (l₀ : List String) (ls : List (List String)) :
    inferTokens (l₀ :: ls) = if (!l₀.isEmpty && (l₀ :: ls).any (fun l => minCountGt l threshold)) then .multicategorical else .text_embedded := by
  unfold inferTokens
  rw [map_cons, gtOpt_pyMax, minCount_isSome, ← map_cons, List.any_map]
  rfl


/-- the non-list branch, written without reference to which cell comes first -/
def inferNonList {ν : Type} (env : Env ν) (ser : List Obj) : Option Stype :=
  if ser.isEmpty then none
  else if env.parses ser then some .timestamp
  else if minCountGt ser threshold then some .categorical
  else if !(ser.all Obj.isStr) then some .embedding
  else some (inferTokens (possibleSeps.map fun sep => tokens env.split (strsOf ser) sep))

theorem inferObject_nonlists {ν : Type} [DecidableEq ν] (env : Env ν) (cells : List (Option Obj))
    (h : ∀ o ∈ cells.filterMap id, o.isList = false) :
    inferSeries env (.object cells) = inferNonList env (cells.filterMap id) := by
  unfold inferSeries inferNonList
  simp only []
  cases hs : cells.filterMap id with
  | nil => simp
  | cons o rest =>
    have ho := h o (by rw [hs]; simp)
    cases o with
    | list l => simp [Obj.isList] at ho
    | str s =>
      simp only [isEmpty_cons, Bool.false_eq_true, if_false]
      by_cases hp : env.parses (Obj.str s :: rest) = true
      · simp [hp]
      · by_cases hm : minCountGt (Obj.str s :: rest) threshold = true
        · simp [hp, hm]
        · simp [hp, hm]
    | other t =>
      simp only [isEmpty_cons, Bool.false_eq_true, if_false]
      by_cases hp : env.parses (Obj.other t :: rest) = true
      · simp [hp]
      · by_cases hm : minCountGt (Obj.other t :: rest) threshold = true
        · simp [hp, hm]
        · simp [hp, hm]

theorem inferObject_lists {ν : Type} [DecidableEq ν] (env : Env ν) (cells : List (Option Obj))
    (hne : cells.filterMap id ≠ []) (h : ∀ o ∈ cells.filterMap id, o.isList = true) :
    inferSeries env (.object cells) = inferListsSpec (listsOf (cells.filterMap id)) := by
  unfold inferSeries
  simp only []
  cases hs : cells.filterMap id with
  | nil => exact absurd hs hne
  | cons o rest =>
    have ho := h o (by rw [hs]; simp)
    cases o with
    | str s => simp [Obj.isList] at ho
    | other t => simp [Obj.isList] at ho
    | list first =>
      simp only []
      have hall : ∀ o ∈ Obj.list first :: rest, o.isList = true := by rw [← hs]; exact h
      have := map_listsOf hall
      rw [← this]
      rw [inferLists_eq_spec]
      · rw [this]
      · simp [listsOf]

theorem isEmpty_perm {γ : Type} {a b : List γ} (h : a.Perm b) : a.isEmpty = b.isEmpty := by
  cases a with
  | nil => rw [h.symm.eq_nil]
  | cons x xs =>
    cases b with
    | nil => exact absurd h.eq_nil (by simp)
    | cons y ys => rfl

theorem inferNonList_perm {ν : Type} (env : Env ν) (hparse : ∀ a b : List Obj, a.Perm b → env.parses a = env.parses b)
    {a b : List Obj} (h : a.Perm b) : inferNonList env a = inferNonList env b := by
  unfold inferNonList
  have e5 : inferTokens (possibleSeps.map fun sep => tokens env.split (strsOf a) sep)
      = inferTokens (possibleSeps.map fun sep => tokens env.split (strsOf b) sep) := by
    simp only [possibleSeps, map_cons, map_nil]
    rw [inferTokens_eq, inferTokens_eq]
    have p1 := tokens_perm env.split (strsOf_perm h) "|"
    have p2 := tokens_perm env.split (strsOf_perm h) ","
    simp only [any_cons, any_nil, Bool.or_false]
    rw [isEmpty_perm p1, minCountGt_perm p1, minCountGt_perm p2]
  rw [isEmpty_perm h, hparse a b h, minCountGt_perm h, all_perm h Obj.isStr, e5]

/-- **row order is irrelevant** for homogeneous columns -/
theorem inferSeries_perm {ν : Type} [DecidableEq ν] (env : Env ν)
    (hparse : ∀ a b : List Obj, a.Perm b → env.parses a = env.parses b)
    {c c' : Col ν} (h : ColPerm c c') (hom : Homogeneous c) : inferSeries env c = inferSeries env c' := by
  cases h with
  | numeric dt hp =>
    rename_i a b
    have hs := hp.filterMap id
    have e1 := any_perm hp Option.isNone
    have e2 := isEmpty_perm hs
    have e3 := all_perm hs env.isIntegral
    have e4 := minCountGt_perm hs threshold
    simp only [inferSeries, e1, e2, e3, e4]
  | datetime hp =>
    have e2 := isEmpty_perm (hp.filterMap id)
    simp only [inferSeries, e2]
  | object hp =>
    rename_i a b
    have hs : (a.filterMap id).Perm (b.filterMap id) := hp.filterMap id
    have hmem : ∀ o, o ∈ a.filterMap id ↔ some o ∈ a := by intro o; simp [List.mem_filterMap]
    rcases hom with hl | hn
    · by_cases hne : a.filterMap id = []
      · have hne' : b.filterMap id = [] := by rw [hne] at hs; exact hs.symm.eq_nil
        rw [inferObject_nonlists env a (by rw [hne]; intro o ho; simp at ho),
          inferObject_nonlists env b (by rw [hne']; intro o ho; simp at ho), hne, hne']
      · have hne' : b.filterMap id ≠ [] := fun e => hne (by rw [e] at hs; exact hs.eq_nil)
        have ha : ∀ o ∈ a.filterMap id, o.isList = true := fun o ho => hl o ((hmem o).mp ho)
        have hb : ∀ o ∈ b.filterMap id, o.isList = true := fun o ho => ha o (hs.mem_iff.mpr ho)
        rw [inferObject_lists env a hne ha, inferObject_lists env b hne' hb]
        exact inferListsSpec_perm (listsOf_perm hs)
    · have ha : ∀ o ∈ a.filterMap id, o.isList = false := fun o ho => hn o ((hmem o).mp ho)
      have hb : ∀ o ∈ b.filterMap id, o.isList = false := fun o ho => ha o (hs.mem_iff.mpr ho)
      rw [inferObject_nonlists env a ha, inferObject_nonlists env b hb]
      exact inferNonList_perm env hparse hs

/-- adding / removing missing cells in an object (string- or list-valued) or datetime column changes nothing -/
theorem inferSeries_missing_object {ν : Type} [DecidableEq ν] (env : Env ν) (a b : List (Option Obj))
    (h : SameUpToMissing a b) : inferSeries env (.object a) = inferSeries env (.object b) := by
  unfold SameUpToMissing at h
  simp only [inferSeries, h]

theorem inferSeries_missing_datetime {ν : Type} [DecidableEq ν] (env : Env ν) (a b : List (Option Int))
    (h : SameUpToMissing a b) : inferSeries env (.datetime a) = inferSeries env (.datetime b) := by
  unfold SameUpToMissing at h
  simp only [inferSeries, h]

end Objects

section Numeric

/-- the numeric-dtype branch as a function of `has_nan` and the non-missing values -/
def inferNumeric {ν : Type} [DecidableEq ν] (env : Env ν) (dt : NumDtype) (hasNan : Bool) (ser : List ν) : Option Stype :=
  if ser.isEmpty then none
  else match dt with
    | .bool => some .categorical
    | .float =>
      if !(hasNan && ser.all env.isIntegral) then some .numerical
      else if minCountGt ser threshold then some .categorical else some .numerical
    | .int => if minCountGt ser threshold then some .categorical else some .numerical

theorem inferSeries_numeric {ν : Type} [DecidableEq ν] (env : Env ν) (dt : NumDtype) (cells : List (Option ν)) :
    inferSeries env (.numeric dt cells) = inferNumeric env dt (cells.any Option.isNone) (cells.filterMap id) := rfl

theorem inferSeries_datetime {ν : Type} [DecidableEq ν] (env : Env ν) (cells : List (Option Int)) :
    inferSeries env (.datetime cells) = if (cells.filterMap id).isEmpty then none else some .timestamp := rfl

theorem any_isNone_iff {γ : Type} (cells : List (Option γ)) : cells.any Option.isNone = true ↔ none ∈ cells := by
  rw [List.any_eq_true]
  constructor
  · rintro ⟨c, hc, hn⟩
    cases c with
    | none => exact hc
    | some _ => simp at hn
  · intro h; exact ⟨none, h, rfl⟩

theorem isEmpty_false_of_ne {γ : Type} {l : List γ} (h : l ≠ []) : l.isEmpty = false := by
  cases l with
  | nil => exact absurd rfl h
  | cons _ _ => rfl

end Numeric

section Frame

theorem dictSet_fresh (d : List (String × Stype)) (k : String) (v : Stype) (h : k ∉ d.map Prod.fst) :
    dictSet d k v = d ++ [(k, v)] := by
  unfold dictSet
  have : d.any (fun p => p.1 == k) = false := by
    rw [Bool.eq_false_iff]
    intro hh
    obtain ⟨p, hp, he⟩ := List.any_eq_true.mp hh
    exact h (List.mem_map.mpr ⟨p, hp, by simpa using he⟩)
  simp [this]

theorem inferFrame_go {ν : Type} [DecidableEq ν] (env : Env ν) (cols : List (String × Col ν)) (d : List (String × Stype))
    (hnd : (cols.map Prod.fst).Nodup) (hdis : ∀ nc ∈ cols, nc.1 ∉ d.map Prod.fst) :
    cols.foldl (frameStep env) d
      = d ++ cols.filterMap (fun nc => (inferSeries env nc.2).map fun s => (nc.1, s)) := by
  induction cols generalizing d with
  | nil => simp
  | cons nc rest ih =>
    have hnd' : (rest.map Prod.fst).Nodup := (List.nodup_cons.mp (by simpa using hnd)).2
    have hfresh : nc.1 ∉ rest.map Prod.fst := (List.nodup_cons.mp (by simpa using hnd)).1
    simp only [foldl_cons, filterMap_cons, frameStep]
    cases hi : inferSeries env nc.2 with
    | none =>
      simp only [Option.map_none]
      exact ih d hnd' (fun x hx => hdis x (by simp [hx]))
    | some s =>
      simp only [Option.map_some]
      rw [dictSet_fresh d nc.1 s (hdis nc (by simp))]
      rw [ih (d ++ [(nc.1, s)]) hnd']
      · simp
      · intro x hx
        simp only [map_append, map_cons, map_nil, mem_append, mem_singleton, not_or]
        refine ⟨hdis x (by simp [hx]), ?_⟩
        intro e
        exact hfresh (e ▸ List.mem_map.mpr ⟨x, hx, rfl⟩)

/-- frame-level inference is the per-column inference over the columns that yield a type, in column order -/
theorem inferFrame_eq {ν : Type} [DecidableEq ν] (env : Env ν) (cols : List (String × Col ν))
    (hnd : (cols.map Prod.fst).Nodup) :
    inferFrame env cols = cols.filterMap (fun nc => (inferSeries env nc.2).map fun s => (nc.1, s)) := by
  unfold inferFrame
  rw [inferFrame_go env cols [] hnd (by simp)]
  simp

end Frame
end TFVerif.Infer

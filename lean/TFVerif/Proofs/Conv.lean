/-
Helper lemmas about the table convolutions and decoders (`Model/Conv.lean`, `Model/Decoder.lean`):
every batched layer is the `map` of its one-sample specification; column equivariance of the two
transformer layers; the prefix (causality) property of ExcelFormerConv; shapes.
-/
import TFVerif.Proofs.Tensor
import TFVerif.Model.Conv
import TFVerif.Model.Decoder

namespace TFVerif
open List

namespace TOps
variable {R : Type} (o : TOps R)

/-! ### batched layer = map of the one-sample specification -/

theorem ftConvs_eq (c n : Nat) (θ : FTConvs R) (X : T3 R) :
    o.ftConvs c n θ X = (X.map fun M => (o.ftSample c n θ M).1, X.map fun M => (o.ftSample c n θ M).2) := by
  have h : (θ.layers.foldl (fun x L => o.teLayerBatch c (n + 1) L x)
        (List.zipWith (fun a b => a ++ b) (List.replicate X.length [θ.cls]) X)) =
      X.map fun M => θ.layers.foldl (fun x L => o.teLayerSample c (n + 1) L x) (θ.cls :: M) := by
    rw [zipWith_replicate_left, foldl_map_comm _ _ (fun L Y => o.teLayerBatch_eq c (n + 1) L Y), List.map_map]
    rfl
  simp only [ftConvs, h, layerNormLast3, List.map_map, Function.comp_def]
  rfl

theorem selfAttnBatch_eq (c n : Nat) (a : SelfAttn R) (X : T3 R) :
    o.selfAttnBatch c n a X = X.map (o.selfAttnSample c n a) := by
  simp only [selfAttnBatch, linearLast3, attnBatch_map, List.map_map, Function.comp_def]
  rfl

theorem tabTConv_eq (c n : Nat) (θ : TabTConv R) (X : T3 R) :
    o.tabTConv c n θ X = X.map (o.tabTSample c n θ) := by
  simp only [tabTConv, layerNormLast3, selfAttnBatch_eq, List.map_map, Function.comp_def, add3_map_map]
  rfl

theorem diamBatch_eq (c n : Nat) (a : DiaM R) (X : T3 R) :
    o.diamBatch c n a X = X.map (o.diamSample c n a) := by
  unfold diamBatch diamSample
  cases a.out with
  | none => simp only [linearLast3, attnBatch_map]
  | some L => simp only [linearLast3, attnBatch_map, List.map_map, Function.comp_def]

theorem excelConv_eq (c n : Nat) (θ : ExcelConv R) (X : T3 R) :
    o.excelConv c n θ X = X.map (o.excelSample c n θ) := by
  simp only [excelConv, layerNormLast3, diamBatch_eq, List.map_map, Function.comp_def, add3_map_map]
  rfl

theorem tromptConvCore_eq (θ : TromptConv R) (X XP : T3 R) (h : X.length = XP.length) :
    o.tromptConvCore θ X XP = List.zipWith (o.tromptSample θ) X XP := by
  induction X generalizing XP with
  | nil => simp [tromptConvCore]
  | cons x xs ih =>
    cases XP with
    | nil => simp at h
    | cons xp xps =>
      have h' : xs.length = xps.length := by simpa using h
      have := ih xps h'
      unfold tromptConvCore at this ⊢
      simp only [List.length_cons, List.replicate_succ, List.zipWith_cons_cons, add3, linearLast3,
        List.map_cons] at this ⊢
      rw [this]
      rfl

/-! ### column equivariance of the transformer layers -/

theorem colEquiv_selfAttn (h : AddCommAssoc o) (c n : Nat) (a : SelfAttn R) :
    ColEquiv n (o.selfAttnSample c n a) := by
  have h1 := o.colEquiv_attn h n (o.invSqrt (c / a.heads)) (c / a.heads) a.heads
    (o.linearV a.q) (o.linearV a.k) (o.linearV a.v)
  have h2 := colEquiv_map n (o.linearV a.out)
  have hh := colEquiv_comp h1 h2
  exact hh

theorem colEquiv_tabT (h : AddCommAssoc o) (c n : Nat) (θ : TabTConv R) :
    ColEquiv n (o.tabTSample c n θ) := by
  have h1 := colEquiv_map n (o.layerNormV θ.norm1)
  have h2 := colEquiv_zipWith o.vadd (colEquiv_id n) (o.colEquiv_selfAttn h c n θ.attn)
  have h3 := colEquiv_map n (o.ffnV θ.ffn)
  have h23 := colEquiv_comp h2 h3
  have hh := colEquiv_comp h1 h23
  exact hh

theorem colEquiv_mha (h : AddCommAssoc o) (c n : Nat) (m : MHA R) : ColEquiv n (o.mhaSample c n m) := by
  have h1 := o.colEquiv_attn h n (o.invSqrt (c / m.heads)) (c / m.heads) m.heads
    (o.linearV (MHA.q c m)) (o.linearV (MHA.k c m)) (o.linearV (MHA.v c m))
  have h2 := colEquiv_map n (o.linearV m.out)
  have hh := colEquiv_comp h1 h2
  exact hh

theorem colEquiv_teLayer (h : AddCommAssoc o) (c n : Nat) (L : TELayer R) :
    ColEquiv n (o.teLayerSample c n L) := by
  have h1 := colEquiv_zipWith o.vadd (colEquiv_id n) (o.colEquiv_mha h c n L.attn)
  have h2 := colEquiv_map n (o.layerNormV L.norm1)
  have h12 := colEquiv_comp h1 h2
  have f1 := colEquiv_map n (o.linearV L.lin1)
  have f2 := colEquiv_map n fun v : Vec R => v.map o.relu
  have f3 := colEquiv_map n (o.linearV L.lin2)
  have ff := colEquiv_comp (colEquiv_comp f1 f2) f3
  have h3 := colEquiv_zipWith o.vadd (colEquiv_id n) ff
  have h4 := colEquiv_map n (o.layerNormV L.norm2)
  have h34 := colEquiv_comp h3 h4
  have hh := colEquiv_comp h12 h34
  exact hh

theorem colEquiv_ftEncode (h : AddCommAssoc o) (c m : Nat) (θ : FTConvs R) :
    ColEquiv m (o.ftEncodeSample c m θ) := by
  have h1 := colEquiv_foldl (fun L => o.teLayerSample c m L) θ.layers (fun L _ => o.colEquiv_teLayer h c m L)
  have h2 := colEquiv_map m (o.layerNormV θ.norm)
  have hh := colEquiv_comp h1 h2
  exact hh

end TOps

theorem selectRows_map_succ_cons {α : Type} (σ : List Nat) (a : α) (M : List α) :
    selectRows (σ.map Nat.succ) (a :: M) = selectRows σ M := by
  simp [selectRows, List.filterMap_map]

theorem selectRows_zero_cons {α : Type} (τ : List Nat) (a : α) (M : List α) :
    selectRows (0 :: τ) (a :: M) = a :: selectRows τ (a :: M) := by
  simp [selectRows]

theorem perm_zero_cons_succ {σ : List Nat} {n : Nat} (h : σ ~ List.range n) :
    (0 :: σ.map Nat.succ) ~ List.range (n + 1) := by
  rw [List.range_succ_eq_map]
  exact List.Perm.cons 0 (h.map Nat.succ)

namespace TOps
variable {R : Type} (o : TOps R)

/-- FT-Transformer on one sample: re-ordering the columns re-orders the column outputs and leaves the
    CLS read-out unchanged -/
theorem ftSample_equivariant (h : AddCommAssoc o) (c n : Nat) (θ : FTConvs R) (M : Mat R) (hM : M.length = n)
    (σ : List Nat) (hσ : σ ~ List.range n) :
    o.ftSample c n θ (selectRows σ M) = (selectRows σ (o.ftSample c n θ M).1, (o.ftSample c n θ M).2) := by
  obtain ⟨hlen, hsel⟩ := o.colEquiv_ftEncode h c (n + 1) θ (θ.cls :: M) (by simp [hM])
  have hs := hsel (0 :: σ.map Nat.succ) (perm_zero_cons_succ hσ)
  rw [selectRows_zero_cons, selectRows_map_succ_cons] at hs
  unfold ftSample
  simp only []
  rw [hs]
  cases hY : o.ftEncodeSample c (n + 1) θ (θ.cls :: M) with
  | nil => rw [hY] at hlen; simp at hlen
  | cons y0 Yt =>
    rw [selectRows_zero_cons, selectRows_map_succ_cons]
    simp

/-! ### ExcelFormerConv: the prefix (causality) property -/

end TOps

theorem getElem?_of_take_eq {α : Type} {x x' : List α} {k i : Nat} (h : x.take k = x'.take k) (hi : i < k) :
    x[i]? = x'[i]? := by
  have := congrArg (fun l => l[i]?) h
  simpa [List.getElem?_take, hi] using this

namespace TOps
variable {R : Type} (o : TOps R)

/-- the two algebraic facts the causality argument uses about an exactly-zero attention weight -/
structure ZeroAnnihilates {R : Type} (o : TOps R) : Prop where
  zero_div : ∀ s, o.div o.zero s = o.zero
  zero_mul : ∀ v, o.mul o.zero v = o.zero

theorem diamRow_prefix (hz : ZeroAnnihilates o) (seq : List Nat) (sq : R) (d n i : Nat)
    (Q K V Q' K' V' : Mat R)
    (hK : K.length = n) (hK' : K'.length = n) (hV : V.length = n) (hV' : V'.length = n)
    (hQ : Q[i]? = Q'[i]?) (hKp : ∀ j, j ≤ i → K[j]? = K'[j]?) (hVp : ∀ j, j ≤ i → V[j]? = V'[j]?)
    (hu : ∀ j, i < j → j < n → o.diamExp seq sq Q K i j = o.zero)
    (hu' : ∀ j, i < j → j < n → o.diamExp seq sq Q' K' i j = o.zero) :
    o.diamRow seq sq d Q K V i = o.diamRow seq sq d Q' K' V' i := by
  have he : (List.range K.length).map (fun j => o.diamExp seq sq Q K i j) =
      (List.range K'.length).map (fun j => o.diamExp seq sq Q' K' i j) := by
    rw [hK, hK']
    apply List.map_congr_left
    intro j hj
    have hjn : j < n := List.mem_range.mp hj
    by_cases hji : j ≤ i
    · simp only [diamExp, List.getD_eq_getElem?_getD, hQ, hKp j hji]
    · rw [hu j (by omega) hjn, hu' j (by omega) hjn]
  unfold diamRow
  simp only []
  rw [he]
  apply List.map_congr_left
  intro l _
  unfold dot
  congr 1
  apply List.ext_getElem
  · simp [colOf, hV, hV', hK']
  · intro j h1 h2
    have hjn : j < n := by simpa [colOf, hV, hK'] using h1
    simp only [List.getElem_zipWith, List.getElem_map, List.getElem_range, colOf]
    by_cases hji : j ≤ i
    · have hv := hVp j hji
      rw [List.getElem?_eq_getElem (hV ▸ hjn), List.getElem?_eq_getElem (hV' ▸ hjn)] at hv
      rw [Option.some.inj hv]
    · rw [hu' j (by omega) hjn, hz.zero_div, hz.zero_mul, hz.zero_mul]

/-- hypothesis of `excel_causal`: for the (LayerNorm-ed) input `x` of DiaM, in every head, every masked
    un-normalised attention weight `exp((q_i . k_j - 1e5) / sqrt d)`, `j > i`, is exactly zero -/
def DiamUnderflow (c : Nat) (a : DiaM R) (x : Mat R) : Prop :=
  ∀ h, h < a.heads → ∀ j, j < x.length → ∀ i, i < j →
    o.diamExp a.seqIds (o.sqrt (o.ofNat (c / a.heads)))
      (x.map fun v => headSlice (c / a.heads) h (o.linearV a.q v))
      (x.map fun v => headSlice (c / a.heads) h (o.linearV a.k v)) i j = o.zero

theorem attnSample_diam_map (seq : List Nat) (sq : R) (d H n : Nat) (fq fk fv : Vec R → Vec R) (M : Mat R) :
    attnSample (o.diamHead seq sq d) H d n (M.map fq) (M.map fk) (M.map fv) =
      mergeHeads n ((List.range H).map fun h =>
        o.diamHead seq sq d (M.map fun m => headSlice d h (fq m)) (M.map fun m => headSlice d h (fk m))
          (M.map fun m => headSlice d h (fv m))) := by
  unfold attnSample headsOf
  simp only [List.map_map, zipWith_map_map_self, Function.comp_def]
  rfl

theorem take_mergeHeads (n k : Nat) (Hs : List (Mat R)) :
    (mergeHeads n Hs).take k = (List.range (Min.min k n)).map fun i => Hs.flatMap fun Mh => Mh.getD i [] := by
  unfold mergeHeads
  rw [← List.map_take, List.take_range]

theorem diamSample_prefix (hz : ZeroAnnihilates o) (c n : Nat) (a : DiaM R) (x x' : Mat R)
    (hx : x.length = n) (hx' : x'.length = n) (k : Nat) (hk : x.take k = x'.take k)
    (hu : o.DiamUnderflow c a x) (hu' : o.DiamUnderflow c a x') :
    (o.diamSample c n a x).take k = (o.diamSample c n a x').take k := by
  have core : (attnSample (o.diamHead a.seqIds (o.sqrt (o.ofNat (c / a.heads))) (c / a.heads)) a.heads
        (c / a.heads) n (o.linearLast a.q x) (o.linearLast a.k x) (o.linearLast a.v x)).take k =
      (attnSample (o.diamHead a.seqIds (o.sqrt (o.ofNat (c / a.heads))) (c / a.heads)) a.heads
        (c / a.heads) n (o.linearLast a.q x') (o.linearLast a.k x') (o.linearLast a.v x')).take k := by
    unfold linearLast
    rw [attnSample_diam_map, attnSample_diam_map, take_mergeHeads, take_mergeHeads]
    apply List.map_congr_left
    intro i hi
    have hik : i < k := by have := List.mem_range.mp hi; omega
    have hin : i < n := by have := List.mem_range.mp hi; omega
    rw [List.flatMap_map, List.flatMap_map]
    apply List.flatMap_congr
    intro h hh
    have hh' : h < a.heads := List.mem_range.mp hh
    simp only [diamHead, List.length_map, hx, hx', List.getD_eq_getElem?_getD, List.getElem?_map,
      List.getElem?_range hin, Option.map_some, Option.getD_some]
    apply o.diamRow_prefix hz _ _ _ n i <;> try (simp [hx, hx'])
    · rw [getElem?_of_take_eq hk hik]
    · intro j hj; rw [getElem?_of_take_eq hk (by omega)]
    · intro j hj; rw [getElem?_of_take_eq hk (by omega)]
    · intro j hij hjn; exact hu h hh' j (hx ▸ hjn) i hij
    · intro j hij hjn; exact hu' h hh' j (hx' ▸ hjn) i hij
  unfold diamSample
  cases a.out with
  | none => exact core
  | some L =>
    simp only [linearLast] at core ⊢
    rw [← List.map_take, ← List.map_take, core]

/-- ExcelFormerConv on one sample: the first `k` output columns are a function of the first `k` input
    columns (for any two inputs on which the masked weights underflow) -/
theorem excelSample_prefix (hz : ZeroAnnihilates o) (c n : Nat) (θ : ExcelConv R) (M M' : Mat R)
    (hM : M.length = n) (hM' : M'.length = n) (k : Nat) (hk : M.take k = M'.take k)
    (hu : o.DiamUnderflow c θ.diam (o.layerNormLast θ.norm1 M))
    (hu' : o.DiamUnderflow c θ.diam (o.layerNormLast θ.norm1 M')) :
    (o.excelSample c n θ M).take k = (o.excelSample c n θ M').take k := by
  have h1 : (o.layerNormLast θ.norm1 M).take k = (o.layerNormLast θ.norm1 M').take k := by
    unfold layerNormLast; rw [← List.map_take, ← List.map_take, hk]
  have h2 := o.diamSample_prefix hz c n θ.diam _ _ (by simp [layerNormLast, hM]) (by simp [layerNormLast, hM'])
    k h1 hu hu'
  unfold excelSample
  simp only [addM, layerNormLast, List.take_zipWith, ← List.map_take] at h1 h2 ⊢
  rw [h1, h2]

/-! ### row-wise: every layer commutes with every row selection -/

theorem ftConvs_rowwise (c n : Nat) (θ : FTConvs R) (idx : List Nat) (X : T3 R) :
    o.ftConvs c n θ (selectRows idx X) =
      (selectRows idx (o.ftConvs c n θ X).1, selectRows idx (o.ftConvs c n θ X).2) := by
  rw [ftConvs_eq, ftConvs_eq, selectRows_map, selectRows_map]

theorem tabTConv_rowwise (c n : Nat) (θ : TabTConv R) (idx : List Nat) (X : T3 R) :
    o.tabTConv c n θ (selectRows idx X) = selectRows idx (o.tabTConv c n θ X) :=
  rowwise_of_map (o.tabTConv_eq c n θ) idx X

theorem excelConv_rowwise (c n : Nat) (θ : ExcelConv R) (idx : List Nat) (X : T3 R) :
    o.excelConv c n θ (selectRows idx X) = selectRows idx (o.excelConv c n θ X) :=
  rowwise_of_map (o.excelConv_eq c n θ) idx X

theorem tromptConvCore_rowwise (θ : TromptConv R) (idx : List Nat) (X XP : T3 R) (h : X.length = XP.length) :
    o.tromptConvCore θ (selectRows idx X) (selectRows idx XP) = selectRows idx (o.tromptConvCore θ X XP) := by
  rw [tromptConvCore_eq _ _ _ _ (selectRows_length_eq idx X XP h), tromptConvCore_eq _ _ _ _ h,
    selectRows_zipWith _ _ _ _ h]

theorem excelDec_rowwise (θ : ExcelDec R) (idx : List Nat) (X : T3 R) :
    o.excelDec θ (selectRows idx X) = selectRows idx (o.excelDec θ X) :=
  rowwise_of_map (fun _ => rfl) idx X

theorem tromptDecCore_rowwise (θ : TromptDec R) (idx : List Nat) (X : T3 R) :
    o.tromptDecCore θ (selectRows idx X) = selectRows idx (o.tromptDecCore θ X) :=
  rowwise_of_map (fun _ => rfl) idx X

end TOps

/-! ### shapes -/

theorem mem_selectRows {α : Type} {idx : List Nat} {X : List α} {a : α} (h : a ∈ selectRows idx X) : a ∈ X := by
  unfold selectRows at h
  obtain ⟨i, _, hi⟩ := List.mem_filterMap.mp h
  exact List.mem_of_getElem? hi

/-- the list reading of `x.shape == (B, n, c)` -/
def Shape3 {R : Type} (B n c : Nat) (X : T3 R) : Prop :=
  X.length = B ∧ ∀ M ∈ X, M.length = n ∧ ∀ v ∈ M, v.length = c

theorem hasShape3_iff {R : Type} (B n c : Nat) (X : T3 R) : hasShape3 B n c X = true ↔ Shape3 B n c X := by
  simp [hasShape3, Shape3, List.all_eq_true]

/-- the output width of `nn.Linear` -/
def Linear.outLen {R : Type} (L : Linear R) : Nat :=
  match L.b with
  | none => L.w.length
  | some b => Nat.min L.w.length b.length

namespace TOps
variable {R : Type} (o : TOps R)

theorem length_linearV (L : Linear R) (x : Vec R) : (o.linearV L x).length = L.outLen := by
  unfold linearV Linear.outLen
  cases L.b with
  | none => simp
  | some b => simp [vadd]

theorem length_sumAxis0 (d : Nat) (M : Mat R) : (o.sumAxis0 d M).length = d := by simp [sumAxis0]

theorem tromptSample_shape (θ : TromptConv R) (x xp : Mat R) (hw : θ.weight.length = θ.numPrompts)
    (he : θ.embPrompt.length = θ.numPrompts) (hxp : xp.length = θ.numPrompts) :
    (o.tromptSample θ x xp).length = θ.numPrompts ∧ ∀ v ∈ o.tromptSample θ x xp, v.length = θ.channels := by
  constructor
  · simp [tromptSample, tromptMix, groupNormSample, softmaxLast, addM, linearLast, layerNormLast, hw, he, hxp]
  · intro v hv
    unfold tromptSample tromptMix at hv
    simp only [] at hv
    obtain ⟨i, _, rfl⟩ := List.mem_iff_getElem.mp hv
    simp [length_sumAxis0]

/-- the output of ExcelFormerDecoder on one sample always has `out_channels` entries -/
theorem length_excelDecSample (θ : ExcelDec R) (M : Mat R) : (o.excelDecSample θ M).length = θ.outChannels := by
  simp [excelDecSample, transposeW, linearLast]

theorem length_tromptDecSample (θ : TromptDec R) (M : Mat R) :
    (o.tromptDecSample θ M).length = θ.lin2.outLen := by
  unfold tromptDecSample
  exact o.length_linearV _ _

end TOps

/-! ### small integer fixtures for the non-vacuity examples -/

namespace Toy

def lin (w : Mat Int) (b : Vec Int) : Linear Int := ⟨w, some b⟩
def ln2 : LNorm Int := ⟨[2, 1], [0, 1], 1⟩

def mha : MHA Int := ⟨[[1, 0], [0, 1], [1, 1], [0, 2], [2, 0], [1, -1]], [0, 1, 0, 0, 1, 0], lin [[1, 2], [0, 1]] [0, 0], 1⟩
def teLayer : TELayer Int := ⟨mha, lin [[1, 1], [0, 1]] [1, 0], lin [[1, 0], [1, 1]] [0, 0], ln2, ln2⟩
def ft : FTConvs Int := ⟨[teLayer], ln2, [3, -1]⟩

def selfAttn : SelfAttn Int := ⟨lin [[1, 0], [0, 1]] [0, 0], lin [[1, 1], [0, 2]] [0, 0], lin [[2, 0], [1, -1]] [1, 0],
  lin [[1, 2], [0, 1]] [0, 0], 1⟩
def tabT : TabTConv Int := ⟨ln2, selfAttn, ⟨lin [[1, 0], [0, 1], [1, 1], [1, -1]] [0, 0, 0, 0], lin [[1, 1], [0, 1]] [0, 1]⟩⟩

def excel : ExcelConv Int :=
  ⟨ln2, ⟨lin [[1, 0], [0, 1]] [0, 0], lin [[1, 1], [0, 2]] [0, 0], lin [[2, 0], [1, -1]] [1, 0], none, 1, [0, 1, 2]⟩,
   ln2, ⟨lin [[1, 0], [0, 1]] [0, 0], lin [[0, 1], [1, 0]] [1, 1]⟩⟩

def trompt : TromptConv Int :=
  { embCol := [[1, 2], [3, 4], [0, 1]], embPrompt := [[1, 0], [0, 1]], lin := lin [[1, 0, 0, 1], [0, 1, 1, 0]] [0, 0],
    weight := [1, 2], groups := 2, gnW := [1, 1], gnB := [0, 0], gnEps := 1, lnCol := ln2, lnPrompt := ln2,
    channels := 2, numCols := 3, numPrompts := 2 }

def excelDec : ExcelDec Int := ⟨lin [[1, 0, 2], [0, 1, 1]] [0, 1], 1, lin [[1, 2]] [0], 2, 2⟩
def tromptDec : TromptDec Int := ⟨lin [[1, 1]] [0], lin [[1, 0], [0, 1]] [0, 0], ln2, lin [[1, 1], [1, -1], [0, 1]] [0, 0, 0], 2, 2⟩

/-- a batch of two samples with three columns and two channels -/
def x : T3 Int := [[[1, 2], [3, 5], [-2, 7]], [[0, 4], [9, 1], [2, 2]]]
/-- the same batch with the last column of every sample changed -/
def x' : T3 Int := [[[1, 2], [3, 5], [40, -7]], [[0, 4], [9, 1], [-5, 13]]]
def xp : T3 Int := [[[1, 0], [2, 1]], [[0, 3], [1, 1]]]

end Toy

end TFVerif

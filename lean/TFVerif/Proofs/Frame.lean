/-
Helper lemmas for the TensorFrame theorems (C07, C08) and the loader theorems (C10):
Python-list selection (`Grid.pick`), `Index.positions`, association lists, the frame invariant
`Frame.WF`, and the proof that dense tensors satisfy the feature specification `FeatSpec`.
-/
import TFVerif.Model.Frame

namespace TFVerif.TF
open TFVerif

/-! ### `Grid.pick` (Python `[xs[p] for p in ps]`) -/

theorem pick_nil (xs : List α) : Grid.pick xs [] = [] := rfl

theorem pick_cons (xs : List α) (p : Nat) (ps : List Nat) :
    Grid.pick xs (p :: ps) = (xs[p]?).toList ++ Grid.pick xs ps := by
  simp [Grid.pick]

theorem pick_append (xs : List α) (ps qs : List Nat) :
    Grid.pick xs (ps ++ qs) = Grid.pick xs ps ++ Grid.pick xs qs := by
  simp [Grid.pick]

theorem pick_flatten (xs : List α) (pss : List (List Nat)) :
    Grid.pick xs pss.flatten = pss.flatMap (Grid.pick xs) := by
  induction pss with
  | nil => rfl
  | cons ps pss ih => simp [pick_append, ih]

theorem pick_map (f : α → β) (xs : List α) (ps : List Nat) :
    Grid.pick (xs.map f) ps = (Grid.pick xs ps).map f := by
  induction ps with
  | nil => rfl
  | cons p ps ih =>
    rw [pick_cons, pick_cons, ih, List.map_append]
    congr 1
    rw [List.getElem?_map]
    cases xs[p]? <;> rfl

/-- every position is a valid index of an axis of length `n`. -/
def InRange (n : Nat) (ps : List Nat) : Prop := ∀ p ∈ ps, p < n

theorem InRange.tail {n p ps} (h : InRange n (p :: ps)) : InRange n ps :=
  fun q hq => h q (List.mem_cons_of_mem _ hq)

theorem pick_length (xs : List α) (ps : List Nat) (h : InRange xs.length ps) :
    (Grid.pick xs ps).length = ps.length := by
  induction ps with
  | nil => rfl
  | cons p ps ih =>
    have hp : p < xs.length := h p (List.mem_cons_self ..)
    rw [pick_cons, List.length_append, ih h.tail, List.getElem?_eq_getElem hp]
    simp [Option.toList]; omega

theorem getElem?_pick (xs : List α) (ps : List Nat) (h : InRange xs.length ps) (k : Nat) :
    (Grid.pick xs ps)[k]? = (ps[k]?).bind (xs[·]?) := by
  induction ps generalizing k with
  | nil => simp [pick_nil]
  | cons p ps ih =>
    have hp : p < xs.length := h p (List.mem_cons_self ..)
    rw [pick_cons, List.getElem?_eq_getElem hp]
    cases k with
    | zero => simp [Option.toList, List.getElem?_eq_getElem hp]
    | succ k => simpa [Option.toList] using ih h.tail k

theorem pick_opt_toList (xs : List α) (o : Option Nat) :
    Grid.pick xs o.toList = (o.bind (xs[·]?)).toList := by
  cases o <;> simp [Option.toList, pick_cons, pick_nil]

/-- selecting from a selection = selecting the composed positions (chains). -/
theorem pick_pick (xs : List α) (ps qs : List Nat) (h : InRange xs.length ps) :
    Grid.pick (Grid.pick xs ps) qs = Grid.pick xs (Grid.pick ps qs) := by
  induction qs with
  | nil => rfl
  | cons q qs ih =>
    rw [pick_cons, pick_cons, pick_append, ih, getElem?_pick xs ps h q, pick_opt_toList]

theorem pick_inRange (ps qs : List Nat) (n : Nat) (h : InRange n ps) : InRange n (Grid.pick ps qs) := by
  induction qs with
  | nil => intro p hp; simp [pick_nil] at hp
  | cons q qs ih =>
    intro p hp
    rw [pick_cons, List.mem_append] at hp
    rcases hp with hp | hp
    · cases hq : ps[q]? with
      | none => simp [hq, Option.toList] at hp
      | some v =>
        simp [hq, Option.toList] at hp
        subst hp
        exact h p (List.mem_of_getElem? hq)
    · exact ih p hp

theorem pick_range (xs : List α) : Grid.pick xs (List.range xs.length) = xs := by
  apply List.ext_getElem?
  intro k
  rw [getElem?_pick xs _ (fun p hp => List.mem_range.mp hp)]
  by_cases hk : k < xs.length
  · simp [List.getElem?_range hk]
  · have : (List.range xs.length)[k]? = none := by simp; omega
    rw [this]; simp; omega

theorem pick_range_of_length (xs : List α) (n : Nat) (h : xs.length = n) :
    Grid.pick xs (List.range n) = xs := by subst h; exact pick_range xs

theorem pick_length_le (xs : List α) (ps : List Nat) : (Grid.pick xs ps).length ≤ ps.length := by
  induction ps with
  | nil => simp [pick_nil]
  | cons p ps ih =>
    rw [pick_cons, List.length_append]
    cases xs[p]? <;> simp [Option.toList] <;> omega

/-! ### `Index.positions` -/

theorem normIndex_lt {n : Nat} {i : Int} {j : Nat} (h : normIndex n i = some j) : j < n := by
  unfold normIndex at h
  by_cases hi : i < 0 <;> simp [hi] at h <;> omega

theorem normIndices_spec {n : Nat} {is : List Int} {ps : List Nat} (h : normIndices n is = some ps) :
    InRange n ps ∧ ps.length = is.length := by
  induction is generalizing ps with
  | nil => simp [normIndices] at h; subst h; exact ⟨fun p hp => by simp at hp, rfl⟩
  | cons i is ih =>
    simp only [normIndices] at h
    cases hj : normIndex n i with
    | none => simp [hj] at h
    | some j =>
      cases hjs : normIndices n is with
      | none => simp [hj, hjs] at h
      | some js =>
        simp [hj, hjs] at h
        subst h
        obtain ⟨h1, h2⟩ := ih hjs
        refine ⟨?_, by simp [h2]⟩
        intro p hp
        rcases List.mem_cons.mp hp with hp | hp
        · subst hp; exact normIndex_lt hj
        · exact h1 p hp

theorem normIndices_singleton (n : Nat) (i : Int) :
    normIndices n [i] = (normIndex n i).map fun j => [j] := by
  simp only [normIndices]
  cases normIndex n i <;> rfl

theorem rangeStep_go_lt (b k fuel x : Nat) : ∀ p ∈ rangeStep.go b k fuel x, p < b := by
  induction fuel generalizing x with
  | zero => intro p hp; simp [rangeStep.go] at hp
  | succ fuel ih =>
    intro p hp
    simp only [rangeStep.go] at hp
    by_cases hx : x < b
    · simp [hx] at hp
      rcases hp with hp | hp
      · omega
      · exact ih _ p hp
    · simp [hx] at hp

theorem clampBound_le (n : Nat) (b : Option Int) (d : Nat) (hd : d ≤ n) : clampBound n b d ≤ n := by
  unfold clampBound
  cases b with
  | none => exact hd
  | some x =>
    simp only
    split
    · split <;> omega
    · split <;> omega

theorem slicePositions_lt (n : Nat) (a b : Option Int) (k : Nat) : InRange n (slicePositions n a b k) := by
  intro p hp
  unfold slicePositions sliceBounds rangeStep at hp
  simp only at hp
  have := rangeStep_go_lt _ _ _ _ p hp
  have h2 := clampBound_le n b n (Nat.le_refl n)
  omega

theorem rangeStep_go_one (b fuel x : Nat) (h : fuel = b - x) :
    rangeStep.go b 1 fuel x = List.range' x (b - x) := by
  induction fuel generalizing x with
  | zero => rw [← h]; simp [rangeStep.go]
  | succ fuel ih =>
    have hx : x < b := by omega
    simp only [rangeStep.go, hx, if_true]
    rw [← h, List.range'_succ]
    congr 1
    have := ih (x + (1 - 1) + 1) (by omega)
    rw [this]
    congr 1
    omega

theorem clampBound_nat (n a d : Nat) : clampBound n (some (a : Int)) d = min a n := by
  unfold clampBound
  have h1 : ¬ ((a : Int) < 0) := by omega
  simp only [h1, if_false]
  by_cases h2 : (a : Int) > n
  · simp only [h2, if_true]; omega
  · simp only [h2, if_false]; omega

/-- a slice with natural-number bounds `a ≤ b` selects the consecutive rows `a … min b n - 1`. -/
theorem slicePositions_nat (n a b : Nat) (ha : a ≤ n) (_hab : a ≤ b) :
    slicePositions n (some (a : Int)) (some (b : Int)) 1 = List.range' a (min b n - a) := by
  unfold slicePositions sliceBounds rangeStep
  simp only [clampBound_nat]
  rw [Nat.min_eq_left ha]
  exact rangeStep_go_one _ _ _ rfl

theorem maskPositions_go_lt (k : Nat) (bs : List Bool) : ∀ p ∈ maskPositions.go k bs, p < k + bs.length := by
  induction bs generalizing k with
  | nil => intro p hp; simp [maskPositions.go] at hp
  | cons b bs ih =>
    intro p hp
    simp only [maskPositions.go] at hp
    cases b
    · simp at hp
      have := ih (k + 1) p hp
      simp; omega
    · simp at hp
      rcases hp with hp | hp
      · simp; omega
      · have := ih (k + 1) p hp
        simp; omega

/-- every index expression selects valid positions only (or raises). -/
theorem positions_inRange {n : Nat} {ix : Index} {ps : List Nat} (h : ix.positions n = some ps) :
    InRange n ps := by
  cases ix with
  | int i =>
    simp only [Index.positions] at h
    cases hj : normIndex n i with
    | none => simp [hj] at h
    | some j =>
      simp [hj] at h; subst h
      intro p hp; simp at hp; subst hp; exact normIndex_lt hj
  | slice a b s =>
    cases s with
    | none => simp only [Index.positions] at h; cases h; exact slicePositions_lt _ _ _ _
    | some s =>
      simp only [Index.positions] at h
      by_cases hs : s ≤ 0
      · simp [hs] at h
      · simp [hs] at h; subst h; exact slicePositions_lt _ _ _ _
  | list is => exact (normIndices_spec (by simpa [Index.positions] using h)).1
  | mask bs =>
    simp only [Index.positions] at h
    by_cases hl : bs.length = n
    · simp [hl] at h; subst h
      intro p hp
      have := maskPositions_go_lt 0 bs p hp
      omega
    · simp [hl] at h

/-- `tf[i]` is `tf[[i]]`: both select the same positions. -/
theorem positions_intToList (n : Nat) (ix : Index) : (intToList ix).positions n = ix.positions n := by
  cases ix <;> simp [intToList, Index.positions, normIndices_singleton]

theorem positions_zero {ix : Index} {ps : List Nat} (h : ix.positions 0 = some ps) : ps = [] := by
  have := positions_inRange h
  cases ps with
  | nil => rfl
  | cons p ps => exact absurd (this p (List.mem_cons_self ..)) (by omega)

theorem dummyLen_of_positions {n : Nat} {ix : Index} {ps : List Nat} (h : ix.positions n = some ps) :
    dummyLen n ix = some ps.length := by
  cases ix with
  | list is =>
    have hs := normIndices_spec (by simpa [Index.positions] using h : normIndices n is = some ps)
    simp only [dummyLen]
    by_cases h0 : n = 0 ∧ is ≠ []
    · exfalso
      obtain ⟨h0, hne⟩ := h0
      subst h0
      have := positions_zero h
      subst this
      cases is with
      | nil => exact hne rfl
      | cons i is => simp at hs
    · simp [h0, hs.2]
  | int i => simp [dummyLen, h]
  | slice a b s => simp [dummyLen, h]
  | mask bs => simp [dummyLen, h]

theorem normIndices_ofNat (n : Nat) (b : List Nat) (h : InRange n b) :
    normIndices n (b.map Int.ofNat) = some b := by
  induction b with
  | nil => rfl
  | cons i b ih =>
    have hi : i < n := h i (List.mem_cons_self ..)
    have h1 : normIndex n (i : Int) = some i := by
      unfold normIndex
      have : ¬ ((i : Int) < 0) := by omega
      simp [this]; omega
    have h2 := ih h.tail
    simp only [List.map_cons, normIndices, Int.ofNat_eq_natCast] at h2 ⊢
    rw [h1, h2]; rfl

/-! ### association lists -/

theorem assoc_mem {k : String} {d : List (String × β)} {v : β} (h : assoc k d = some v) : (k, v) ∈ d := by
  induction d with
  | nil => simp [assoc] at h
  | cons kv d ih =>
    obtain ⟨k', v'⟩ := kv
    simp only [assoc] at h
    by_cases hk : k' = k
    · simp [hk] at h; subst h; subst hk; exact List.mem_cons_self ..
    · simp [hk] at h; exact List.mem_cons_of_mem _ (ih h)

theorem assoc_of_mem {k : String} {d : List (String × β)} {v : β} (hnd : (keys d).Nodup) (h : (k, v) ∈ d) :
    assoc k d = some v := by
  induction d with
  | nil => simp at h
  | cons kv d ih =>
    obtain ⟨k', v'⟩ := kv
    simp only [keys, List.map_cons, List.nodup_cons] at hnd
    simp only [assoc]
    rcases List.mem_cons.mp h with h | h
    · cases h; simp
    · have : k' ≠ k := by
        intro hk; subst hk
        exact hnd.1 (List.mem_map.mpr ⟨(k', v), h, rfl⟩)
      simp [this]; exact ih hnd.2 h

theorem assoc_none_iff {k : String} {d : List (String × β)} : assoc k d = none ↔ k ∉ keys d := by
  induction d with
  | nil => simp [assoc, keys]
  | cons kv d ih =>
    obtain ⟨k', v'⟩ := kv
    simp only [assoc, keys, List.map_cons, List.mem_cons, not_or]
    by_cases hk : k' = k
    · simp [hk]
    · simp only [hk, if_false]
      rw [ih]
      constructor
      · intro h; exact ⟨fun e => hk e.symm, h⟩
      · intro h; exact h.2

theorem assoc_isSome_iff {k : String} {d : List (String × β)} : (∃ v, assoc k d = some v) ↔ k ∈ keys d := by
  constructor
  · rintro ⟨v, h⟩
    exact List.mem_map.mpr ⟨(k, v), assoc_mem h, rfl⟩
  · intro h
    cases hv : assoc k d with
    | none => exact absurd h (assoc_none_iff.mp hv)
    | some v => exact ⟨v, rfl⟩

/-! ### pointwise relations -/

theorem all2_iff (r : α → β → Bool) (xs : List α) (ys : List β) :
    all2 r xs ys = true ↔ All2 (fun a b => r a b = true) xs ys := by
  induction xs generalizing ys with
  | nil => cases ys <;> simp [all2, All2]
  | cons x xs ih => cases ys <;> simp [all2, All2, ih]

theorem All2.length_eq {R : α → β → Prop} {xs : List α} {ys : List β} (h : All2 R xs ys) :
    xs.length = ys.length := by
  induction xs generalizing ys with
  | nil => cases ys <;> simp_all [All2]
  | cons x xs ih =>
    cases ys with
    | nil => simp [All2] at h
    | cons y ys => simp [All2] at h; simp [ih h.2]

theorem All2.get {R : α → β → Prop} {xs : List α} {ys : List β} (h : All2 R xs ys) {i : Nat} {x : α} {y : β}
    (hx : xs[i]? = some x) (hy : ys[i]? = some y) : R x y := by
  induction xs generalizing ys i with
  | nil => simp at hx
  | cons x' xs ih =>
    cases ys with
    | nil => simp [All2] at h
    | cons y' ys =>
      simp only [All2] at h
      cases i with
      | zero => simp at hx hy; subst hx; subst hy; exact h.1
      | succ i => simp at hx hy; exact ih h.2 hx hy

theorem All2.refl {R : α → α → Prop} (hR : ∀ a, R a a) (xs : List α) : All2 R xs xs := by
  induction xs with
  | nil => trivial
  | cons x xs ih => exact ⟨hR x, ih⟩

theorem All2.mono {R S : α → β → Prop} (hRS : ∀ a b, R a b → S a b) {xs : List α} {ys : List β}
    (h : All2 R xs ys) : All2 S xs ys := by
  induction xs generalizing ys with
  | nil => cases ys <;> simp_all [All2]
  | cons x xs ih =>
    cases ys with
    | nil => simp [All2] at h
    | cons y ys => exact ⟨hRS _ _ h.1, ih h.2⟩

/-! ### `mapOpt` -/

theorem mapOpt_eq_some_iff (f : α → Option β) (xs : List α) (ys : List β) :
    mapOpt f xs = some ys ↔ All2 (fun x y => f x = some y) xs ys := by
  induction xs generalizing ys with
  | nil => cases ys <;> simp [mapOpt, All2]
  | cons x xs ih =>
    simp only [mapOpt]
    cases hx : f x with
    | none => cases ys <;> simp [All2, hx]
    | some y =>
      cases hxs : mapOpt f xs with
      | none =>
        cases ys with
        | nil => simp [All2]
        | cons y' ys' =>
          simp only [All2, hx]
          constructor
          · intro h; cases h
          · rintro ⟨_, h2⟩; rw [← ih] at h2; rw [hxs] at h2; cases h2
      | some ys0 =>
        cases ys with
        | nil => simp [All2]
        | cons y' ys' =>
          simp only [All2, hx, Option.some.injEq, List.cons.injEq]
          rw [← ih, hxs]
          simp

theorem mapOpt_some_of_forall (f : α → Option β) (xs : List α) (h : ∀ x ∈ xs, ∃ y, f x = some y) :
    ∃ ys, mapOpt f xs = some ys := by
  induction xs with
  | nil => exact ⟨[], rfl⟩
  | cons x xs ih =>
    obtain ⟨y, hy⟩ := h x (List.mem_cons_self ..)
    obtain ⟨ys, hys⟩ := ih fun x hx => h x (List.mem_cons_of_mem _ hx)
    exact ⟨y :: ys, by simp [mapOpt, hy, hys]⟩

/-! ### row selection of a frame -/

section getitem
variable {Φ β κ τ ω : Type} {ops : FeatOps Φ} (spec : FeatSpec ops κ τ ω)

/-- the relation between `feat_dict` before and after `fn` was applied to every entry. -/
def FeatsSel (ops : FeatOps Φ) (ix : Index) (feats feats' : List (String × Φ)) : Prop :=
  All2 (fun a b => a.1 = b.1 ∧ ops.select a.2 ix = some b.2) feats feats'

theorem selectFeats_eq_some {ix : Index} {feats feats' : List (String × Φ)}
    (h : Frame.selectFeats ops ix feats = some feats') : FeatsSel ops ix feats feats' := by
  induction feats generalizing feats' with
  | nil => simp [Frame.selectFeats] at h; subst h; trivial
  | cons sφ rest ih =>
    obtain ⟨s, φ⟩ := sφ
    simp only [Frame.selectFeats] at h
    cases hφ : ops.select φ ix with
    | none => simp [hφ] at h
    | some φ' =>
      cases hr : Frame.selectFeats ops ix rest with
      | none => simp [hφ, hr] at h
      | some rest' =>
        simp [hφ, hr] at h
        subst h
        exact ⟨⟨rfl, hφ⟩, ih hr⟩

theorem selectFeats_some_of {ix : Index} {feats : List (String × Φ)}
    (h : ∀ s φ, (s, φ) ∈ feats → ∃ φ', ops.select φ ix = some φ') :
    ∃ feats', Frame.selectFeats ops ix feats = some feats' := by
  induction feats with
  | nil => exact ⟨[], rfl⟩
  | cons sφ rest ih =>
    obtain ⟨s, φ⟩ := sφ
    obtain ⟨φ', hφ⟩ := h s φ (List.mem_cons_self ..)
    obtain ⟨rest', hr⟩ := ih fun s φ hm => h s φ (List.mem_cons_of_mem _ hm)
    exact ⟨(s, φ') :: rest', by simp [Frame.selectFeats, hφ, hr]⟩

theorem selectFeats_none_of_head {ix : Index} {s : String} {φ : Φ} {rest : List (String × Φ)}
    (h : ops.select φ ix = none) : Frame.selectFeats ops ix ((s, φ) :: rest) = none := by
  simp [Frame.selectFeats, h]

theorem FeatsSel.keys_eq {ix : Index} {feats feats' : List (String × Φ)} (h : FeatsSel ops ix feats feats') :
    keys feats' = keys feats := by
  induction feats generalizing feats' with
  | nil => cases feats' <;> simp_all [FeatsSel, All2, keys]
  | cons a rest ih =>
    cases feats' with
    | nil => simp [FeatsSel, All2] at h
    | cons b rest' =>
      simp only [FeatsSel, All2] at h
      have := ih h.2
      simp only [keys, List.map_cons] at this ⊢
      rw [this, h.1.1]

theorem FeatsSel.assoc {ix : Index} {feats feats' : List (String × Φ)} (h : FeatsSel ops ix feats feats')
    {s : String} {φ : Φ} (hs : assoc s feats = some φ) :
    ∃ φ', TF.assoc s feats' = some φ' ∧ ops.select φ ix = some φ' := by
  induction feats generalizing feats' with
  | nil => simp [TF.assoc] at hs
  | cons a rest ih =>
    cases feats' with
    | nil => simp [FeatsSel, All2] at h
    | cons b rest' =>
      obtain ⟨k, v⟩ := a
      obtain ⟨k', v'⟩ := b
      simp only [FeatsSel, All2] at h
      obtain ⟨⟨hk, hv⟩, hrest⟩ := h
      subst hk
      simp only [TF.assoc] at hs ⊢
      by_cases hks : k = s
      · simp [hks] at hs ⊢; subst hs; exact hv
      · simp [hks] at hs ⊢; exact ih hrest hs

theorem FeatsSel.mem {ix : Index} {feats feats' : List (String × Φ)} (h : FeatsSel ops ix feats feats')
    {s : String} {φ' : Φ} (hs : (s, φ') ∈ feats') : ∃ φ, (s, φ) ∈ feats ∧ ops.select φ ix = some φ' := by
  induction feats generalizing feats' with
  | nil => cases feats' <;> simp_all [FeatsSel, All2]
  | cons a rest ih =>
    cases feats' with
    | nil => simp at hs
    | cons b rest' =>
      obtain ⟨k, v⟩ := a
      obtain ⟨k', v'⟩ := b
      simp only [FeatsSel, All2] at h
      obtain ⟨⟨hk, hv⟩, hrest⟩ := h
      rcases List.mem_cons.mp hs with hs | hs
      · cases hs; exact ⟨v, by rw [hk]; exact List.mem_cons_self .., hv⟩
      · obtain ⟨φ, hm, hsel⟩ := ih hrest hs
        exact ⟨φ, List.mem_cons_of_mem _ hm, hsel⟩

theorem FeatsSel.head {ix : Index} {feats feats' : List (String × Φ)} (h : FeatsSel ops ix feats feats') :
    feats = [] ↔ feats' = [] := by
  cases feats <;> cases feats' <;> simp_all [FeatsSel, All2]

/-- the frame produced by `__getitem__`, field by field. -/
theorem getitem_eq_some {f f' : Frame Φ β} {ix : Index} (h : f.getitem ops ix = some f') :
    FeatsSel ops (intToList ix) f.feats f'.feats ∧ f'.names = f.names ∧
    (match f.y with
     | none => f'.y = none
     | some y => ∃ y', selectList y (intToList ix) = some y' ∧ f'.y = some y') ∧
    (match f.numRowsOpt with
     | none => f'.numRowsOpt = none
     | some _ => ∃ k, dummyLen (f.numRows ops) (intToList ix) = some k ∧ f'.numRowsOpt = some k) := by
  unfold Frame.getitem at h
  simp only at h
  cases hfe : Frame.selectFeats ops (intToList ix) f.feats with
  | none => simp [hfe] at h
  | some feats =>
    simp only [hfe] at h
    have hsel := selectFeats_eq_some hfe
    cases hy : f.y with
    | none =>
      simp only [hy] at h
      cases hn : f.numRowsOpt with
      | none => simp only [hn] at h; cases h; exact ⟨hsel, rfl, rfl, rfl⟩
      | some n0 =>
        simp only [hn] at h
        cases hd : dummyLen (f.numRows ops) (intToList ix) with
        | none => simp [hd] at h
        | some k => simp [hd] at h; cases h; exact ⟨hsel, rfl, rfl, k, rfl, rfl⟩
    | some y =>
      simp only [hy] at h
      cases hsy : selectList y (intToList ix) with
      | none => simp [hsy] at h
      | some y' =>
        simp only [hsy, Option.map_some] at h
        cases hn : f.numRowsOpt with
        | none => simp only [hn] at h; cases h; exact ⟨hsel, rfl, ⟨y', hsy, rfl⟩, rfl⟩
        | some n0 =>
          simp only [hn] at h
          cases hd : dummyLen (f.numRows ops) (intToList ix) with
          | none => simp [hd] at h
          | some k => simp [hd] at h; cases h; exact ⟨hsel, rfl, ⟨y', hsy, rfl⟩, k, rfl, rfl⟩

/-- columns are untouched by a row selection (no hypothesis on the frame). -/
theorem getitem_names {f f' : Frame Φ β} {ix : Index} (h : f.getitem ops ix = some f') :
    f'.names = f.names ∧ keys f'.feats = keys f.feats := by
  obtain ⟨h1, h2, _, _⟩ := getitem_eq_some h
  exact ⟨h2, h1.keys_eq⟩

/-- Master lemma of C07: on a well-formed frame a selection that Python's list indexing accepts
    succeeds and every feature, the target and the reported length are the list selection. -/
theorem getitem_spec {f : Frame Φ β} {n : Nat} {ix : Index} {ps : List Nat}
    (hwf : f.WF spec n) (hps : ix.positions n = some ps) :
    ∃ f', f.getitem ops ix = some f' ∧ f'.WF spec ps.length ∧ f'.names = f.names ∧
      keys f'.feats = keys f.feats ∧
      (∀ s φ, assoc s f.feats = some φ → ∃ φ', assoc s f'.feats = some φ' ∧
        ops.select φ (intToList ix) = some φ' ∧
        spec.grid φ' = Grid.pick (spec.grid φ) ps ∧ spec.tag φ' = spec.tag φ ∧
        spec.colMeta φ' = spec.colMeta φ) ∧
      f'.y = f.y.map (Grid.pick · ps) := by
  have hps' : (intToList ix).positions n = some ps := by rw [positions_intToList]; exact hps
  have hin : InRange n ps := positions_inRange hps
  -- every feature accepts the index
  have hsel : ∀ s φ, (s, φ) ∈ f.feats → ∃ φ', ops.select φ (intToList ix) = some φ' := by
    intro s φ hm
    obtain ⟨hw, hl, _⟩ := hwf.feat_ok s φ hm
    cases hq : ops.select φ (intToList ix) with
    | none =>
      have := (spec.select_none φ (intToList ix) hw).mp hq
      rw [hl, hps'] at this; cases this
    | some φ' => exact ⟨φ', rfl⟩
  obtain ⟨feats', hfe⟩ := selectFeats_some_of hsel
  have hFS : FeatsSel ops (intToList ix) f.feats feats' := selectFeats_eq_some hfe
  -- what a selected feature looks like
  have hfeat : ∀ φ φ', spec.wf φ → ops.len φ = n → ops.select φ (intToList ix) = some φ' →
      spec.wf φ' ∧ spec.tag φ' = spec.tag φ ∧ spec.colMeta φ' = spec.colMeta φ ∧
      spec.grid φ' = Grid.pick (spec.grid φ) ps ∧ ops.len φ' = ps.length := by
    intro φ φ' hw hl hq
    obtain ⟨hw', ht, hc, qs, hqs, hg⟩ := spec.select_some φ (intToList ix) φ' hw hq
    rw [hl, hps'] at hqs
    cases hqs
    refine ⟨hw', ht, hc, hg, ?_⟩
    rw [← spec.grid_len φ' hw', hg, pick_length]
    rw [spec.grid_len φ hw, hl]; exact hin
  -- the target
  have hy : ∀ y, f.y = some y → selectList y (intToList ix) = some (Grid.pick y ps) := by
    intro y hy
    simp [selectList, hwf.y_ok y hy, hps']
  have hnr : f.numRows ops = n := hwf.nr_ok
  have hdl : dummyLen n (intToList ix) = some ps.length := dummyLen_of_positions hps'
  -- assemble the result
  let y' : Option (List β) := f.y.map (Grid.pick · ps)
  let nr' : Option Nat := f.numRowsOpt.map fun _ => ps.length
  refine ⟨{ feats := feats', names := f.names, y := y', numRowsOpt := nr' }, ?_, ?_, rfl, hFS.keys_eq, ?_, rfl⟩
  · unfold Frame.getitem
    simp only [hfe]
    cases hyv : f.y with
    | none =>
      cases hn : f.numRowsOpt with
      | none => simp [y', nr', hyv, hn]
      | some n0 => simp [y', nr', hyv, hn, hnr, hdl]
    | some y =>
      cases hn : f.numRowsOpt with
      | none => simp [y', nr', hyv, hn, hy y hyv]
      | some n0 => simp [y', nr', hyv, hn, hnr, hdl, hy y hyv]
  · constructor
    · show (keys feats').Nodup
      rw [hFS.keys_eq]; exact hwf.featKeys
    · exact hwf.nameKeys
    · intro s
      show s ∈ keys feats' ↔ s ∈ keys f.names
      rw [hFS.keys_eq]; exact hwf.sameKeys s
    · intro s φ' hm
      obtain ⟨φ, hmφ, hq⟩ := hFS.mem hm
      obtain ⟨hw, hl, ns, hns, hlen, hne⟩ := hwf.feat_ok s φ hmφ
      obtain ⟨hw', _, hc, _, hl'⟩ := hfeat φ φ' hw hl hq
      exact ⟨hw', hl', ns, hns, by rw [hc]; exact hlen, hne⟩
    · intro y hyv
      change f.y.map (Grid.pick · ps) = some y at hyv
      cases hy0 : f.y with
      | none => simp [hy0] at hyv
      | some y0 =>
        simp [hy0] at hyv; subst hyv
        rw [pick_length]; rw [hwf.y_ok y0 hy0]; exact hin
    · show Frame.numRows ops { feats := feats', names := f.names, y := y', numRowsOpt := nr' } = ps.length
      unfold Frame.numRows
      cases hn : f.numRowsOpt with
      | some n0 => simp [nr', hn]
      | none =>
        simp only [nr', hn, Option.map_none]
        cases hf : f.feats with
        | nil =>
          have : feats' = [] := (hFS.head).mp hf
          have h0 : n = 0 := by rw [← hnr]; simp [Frame.numRows, hn, hf]
          subst h0
          rw [positions_zero hps]; simp [this]
        | cons a rest =>
          obtain ⟨s, φ⟩ := a
          cases hf' : feats' with
          | nil => rw [hf, hf'] at hFS; simp [FeatsSel, All2] at hFS
          | cons b rest' =>
            obtain ⟨s', φ'⟩ := b
            rw [hf, hf'] at hFS
            simp only [FeatsSel, All2] at hFS
            have hm : (s, φ) ∈ f.feats := by rw [hf]; exact List.mem_cons_self ..
            obtain ⟨hw, hl, _⟩ := hwf.feat_ok s φ hm
            exact (hfeat φ φ' hw hl hFS.1.2).2.2.2.2
  · intro s φ hs
    obtain ⟨φ', h1, h2⟩ := hFS.assoc hs
    obtain ⟨hw, hl, _⟩ := hwf.feat_ok s φ (assoc_mem hs)
    obtain ⟨_, ht, hc, hg, _⟩ := hfeat φ φ' hw hl h2
    exact ⟨φ', h1, h2, hg, ht, hc⟩

/-- a selection raises exactly when Python's list indexing raises (frames that hold at least one
    tensor; a frame without features and target has nothing to index). -/
theorem getitem_none_iff {f : Frame Φ β} {n : Nat} {ix : Index}
    (hwf : f.WF spec n) (hne : f.feats ≠ [] ∨ f.y ≠ none) :
    f.getitem ops ix = none ↔ ix.positions n = none := by
  constructor
  · intro h
    cases hps : ix.positions n with
    | none => rfl
    | some ps =>
      obtain ⟨f', hf', _⟩ := getitem_spec spec hwf hps
      rw [h] at hf'; cases hf'
  · intro hps
    have hps' : (intToList ix).positions n = none := by rw [positions_intToList]; exact hps
    cases hf : f.feats with
    | cons a rest =>
      obtain ⟨s, φ⟩ := a
      have hm : (s, φ) ∈ f.feats := by rw [hf]; exact List.mem_cons_self ..
      obtain ⟨hw, hl, _⟩ := hwf.feat_ok s φ hm
      have : ops.select φ (intToList ix) = none := (spec.select_none φ _ hw).mpr (by rw [hl]; exact hps')
      unfold Frame.getitem
      simp [hf, selectFeats_none_of_head this]
    | nil =>
      rcases hne with hne | hne
      · exact absurd hf hne
      · cases hy : f.y with
        | none => exact absurd hy hne
        | some y =>
          unfold Frame.getitem
          simp [hf, Frame.selectFeats, hy, selectList, hwf.y_ok y hy, hps']

theorem chainPositions_inRange {n : Nat} {ixs : List Index} {qs : List Nat}
    (h : chainPositions n ixs = some qs) : InRange n qs := by
  induction ixs generalizing n qs with
  | nil => simp [chainPositions] at h; subst h; exact fun p hp => List.mem_range.mp hp
  | cons ix rest ih =>
    simp only [chainPositions] at h
    cases hps : ix.positions n with
    | none => simp [hps] at h
    | some ps =>
      cases hq : chainPositions ps.length rest with
      | none => simp [hps, hq] at h
      | some qs' =>
        simp [hps, hq] at h; subst h
        exact pick_inRange ps qs' n (positions_inRange hps)

/-- a chain of selections = the list selections composed, for every chain length. -/
theorem getitemChain_spec {f : Frame Φ β} {n : Nat} {ixs : List Index} {qs : List Nat}
    (hwf : f.WF spec n) (h : chainPositions n ixs = some qs) :
    ∃ f', f.getitemChain ops ixs = some f' ∧ f'.WF spec qs.length ∧ f'.names = f.names ∧
      keys f'.feats = keys f.feats ∧
      (∀ s φ, assoc s f.feats = some φ → ∃ φ', assoc s f'.feats = some φ' ∧
        spec.grid φ' = Grid.pick (spec.grid φ) qs ∧ spec.tag φ' = spec.tag φ ∧
        spec.colMeta φ' = spec.colMeta φ) ∧
      f'.y = f.y.map (Grid.pick · qs) := by
  induction ixs generalizing f n qs with
  | nil =>
    simp [chainPositions] at h; subst h
    refine ⟨f, rfl, by simpa using hwf, rfl, rfl, ?_, ?_⟩
    · intro s φ hs
      obtain ⟨hw, hl, _⟩ := hwf.feat_ok s φ (assoc_mem hs)
      exact ⟨φ, hs, (pick_range_of_length _ n (by rw [spec.grid_len φ hw, hl])).symm, rfl, rfl⟩
    · cases hy : f.y with
      | none => rfl
      | some y => simp [pick_range_of_length y n (hwf.y_ok y hy)]
  | cons ix rest ih =>
    simp only [chainPositions] at h
    cases hps : ix.positions n with
    | none => simp [hps] at h
    | some ps =>
      cases hq : chainPositions ps.length rest with
      | none => simp [hps, hq] at h
      | some qs' =>
        simp [hps, hq] at h; subst h
        obtain ⟨f1, hf1, hwf1, hn1, hk1, hg1, hy1⟩ := getitem_spec spec hwf hps
        obtain ⟨f', hf', hwf', hn', hk', hg', hy'⟩ := ih hwf1 hq
        have hin : InRange n ps := positions_inRange hps
        have hin' : InRange ps.length qs' := chainPositions_inRange hq
        have hlen : (Grid.pick ps qs').length = qs'.length := pick_length ps qs' hin'
        refine ⟨f', by simp [Frame.getitemChain, hf1, hf'], by rw [hlen]; exact hwf', by rw [hn', hn1],
          by rw [hk', hk1], ?_, ?_⟩
        · intro s φ hs
          obtain ⟨φ1, hs1, _, hgφ1, ht1, hc1⟩ := hg1 s φ hs
          obtain ⟨φ', hs', hgφ', ht', hc'⟩ := hg' s φ1 hs1
          obtain ⟨hw, hl, _⟩ := hwf.feat_ok s φ (assoc_mem hs)
          refine ⟨φ', hs', ?_, by rw [ht', ht1], by rw [hc', hc1]⟩
          rw [hgφ', hgφ1, pick_pick]
          rw [spec.grid_len φ hw, hl]; exact hin
        · rw [hy', hy1]
          cases hy : f.y with
          | none => rfl
          | some y =>
            simp only [Option.map_some]
            rw [pick_pick]; rw [hwf.y_ok y hy]; exact hin

end getitem

/-! ### column lookup (`_col_to_stype_idx`, `get_col_feat`) -/

theorem mem_colTable {names : List (String × List String)} {name s : String} {idx : Nat} :
    (name, (s, idx)) ∈ Frame.colTable names ↔ ∃ ns, (s, ns) ∈ names ∧ ns[idx]? = some name := by
  unfold Frame.colTable
  rw [List.mem_flatMap]
  constructor
  · rintro ⟨sn, hsn, hm⟩
    rw [List.mem_map] at hm
    obtain ⟨ci, hci, he⟩ := hm
    rw [List.mem_zipIdx_iff_getElem?] at hci
    cases he
    exact ⟨sn.2, hsn, hci⟩
  · rintro ⟨ns, hm, hi⟩
    refine ⟨(s, ns), hm, ?_⟩
    rw [List.mem_map]
    exact ⟨(name, idx), List.mem_zipIdx_iff_getElem?.mpr hi, rfl⟩

theorem keys_colTable (names : List (String × List String)) : keys (Frame.colTable names) = allNames names := by
  induction names with
  | nil => rfl
  | cons sn rest ih =>
    simp only [Frame.colTable, allNames, keys, List.flatMap_cons, List.map_append] at ih ⊢
    rw [ih]
    congr 1
    rw [List.map_map]
    have : (Prod.fst ∘ fun ci : String × Nat => (ci.1, (sn.1, ci.2))) = Prod.fst := by
      funext ci; rfl
    rw [this, List.zipIdx_map_fst]

theorem keys_reverse (d : List (String × γ)) : keys d.reverse = (keys d).reverse := by
  simp [keys]

theorem nodup_reverse_iff (l : List α) : l.reverse.Nodup ↔ l.Nodup :=
  (List.reverse_perm l).nodup_iff

/-- whatever `_col_to_stype_idx` answers is a position of that name in the name table. -/
theorem lookupLast_sound {names : List (String × List String)} {name s : String} {idx : Nat}
    (h : Frame.lookupLast name (Frame.colTable names) = some (s, idx)) :
    ∃ ns, (s, ns) ∈ names ∧ ns[idx]? = some name := by
  have := assoc_mem h
  rw [List.mem_reverse] at this
  exact mem_colTable.mp this

/-- for globally distinct column names the table answers exactly the position of the name. -/
theorem lookupLast_complete {names : List (String × List String)} {name s : String} {idx : Nat} {ns : List String}
    (hd : (allNames names).Nodup) (hm : (s, ns) ∈ names) (hi : ns[idx]? = some name) :
    Frame.lookupLast name (Frame.colTable names) = some (s, idx) := by
  unfold Frame.lookupLast
  apply assoc_of_mem
  · rw [keys_reverse, nodup_reverse_iff, keys_colTable]; exact hd
  · rw [List.mem_reverse]; exact mem_colTable.mpr ⟨ns, hm, hi⟩

section lookup
variable {Φ β κ τ ω : Type} {ops : FeatOps Φ} (spec : FeatSpec ops κ τ ω)

/-- `get_col_feat` of a well-formed frame: whenever it answers `(c, s)` for `name`, then `name` is
    the `idx`-th name of group `s` and `c` is column `idx` of that group's feature. -/
theorem getColFeat_sound {f : Frame Φ β} {n : Nat} {name s : String} {c : Φ}
    (hwf : f.WF spec n) (h : f.getColFeat ops name = some (c, s)) :
    ∃ ns idx φ, Frame.lookupLast name (Frame.colTable f.names) = some (s, idx) ∧
      assoc s f.names = some ns ∧ ns[idx]? = some name ∧ assoc s f.feats = some φ ∧
      ops.col φ idx = some c ∧ spec.wf c ∧ spec.tag c = spec.tag φ ∧
      spec.colMeta c = Grid.pick (spec.colMeta φ) [idx] ∧
      spec.grid c = (spec.grid φ).map fun r => Grid.pick r [idx] := by
  unfold Frame.getColFeat at h
  cases hl : Frame.lookupLast name (Frame.colTable f.names) with
  | none => simp [hl] at h
  | some si =>
    obtain ⟨s', idx⟩ := si
    simp only [hl] at h
    cases hφ : assoc s' f.feats with
    | none => simp [hφ] at h
    | some φ =>
      simp only [hφ] at h
      cases hc : ops.col φ idx with
      | none => simp [hc] at h
      | some c0 =>
        simp [hc] at h
        obtain ⟨h1, h2⟩ := h
        subst h1; subst h2
        obtain ⟨ns, hm, hi⟩ := lookupLast_sound hl
        have hns : assoc s' f.names = some ns := assoc_of_mem hwf.nameKeys hm
        obtain ⟨hw, _, ns', hns', hlen, _⟩ := hwf.feat_ok s' φ (assoc_mem hφ)
        rw [hns] at hns'; cases hns'
        have hidx : idx < (spec.colMeta φ).length := by
          rw [← hlen]
          obtain ⟨hlt, _⟩ := List.getElem?_eq_some_iff.mp hi
          exact hlt
        obtain ⟨c1, hc1, hw1, ht1, hm1, hg1⟩ := spec.col_spec φ idx hw hidx
        rw [hc] at hc1; cases hc1
        exact ⟨ns, idx, φ, rfl, hns, hi, hφ, hc, hw1, ht1, hm1, hg1⟩

/-- ... and for globally distinct names it answers for every column of every group. -/
theorem getColFeat_complete {f : Frame Φ β} {n : Nat} {name s : String} {idx : Nat} {ns : List String} {φ : Φ}
    (hwf : f.WF spec n) (hd : (allNames f.names).Nodup)
    (hns : assoc s f.names = some ns) (hi : ns[idx]? = some name) (hφ : assoc s f.feats = some φ) :
    ∃ c, f.getColFeat ops name = some (c, s) ∧ ops.col φ idx = some c := by
  have hl := lookupLast_complete hd (assoc_mem hns) hi
  obtain ⟨hw, _, ns', hns', hlen, _⟩ := hwf.feat_ok s φ (assoc_mem hφ)
  rw [hns] at hns'; cases hns'
  have hidx : idx < (spec.colMeta φ).length := by
    rw [← hlen]
    obtain ⟨hlt, _⟩ := List.getElem?_eq_some_iff.mp hi
    exact hlt
  obtain ⟨c, hc, _⟩ := spec.col_spec φ idx hw hidx
  exact ⟨c, by simp [Frame.getColFeat, hl, hφ, hc], hc⟩

end lookup

/-! ### Python dict equality -/

theorem subset_of_nodup_of_length_eq {l₁ l₂ : List String} (h₁ : l₁.Nodup) (h₂ : l₂.Nodup)
    (hsub : l₁ ⊆ l₂) (hlen : l₁.length = l₂.length) : l₂ ⊆ l₁ := by
  induction l₁ generalizing l₂ with
  | nil =>
    cases l₂ with
    | nil => exact fun _ h => h
    | cons b t => simp at hlen
  | cons a t ih =>
    rw [List.nodup_cons] at h₁
    have ha : a ∈ l₂ := hsub (List.mem_cons_self ..)
    have htsub : t ⊆ l₂.erase a := by
      intro x hx
      have hxa : x ≠ a := fun h => h₁.1 (h ▸ hx)
      exact (List.mem_erase_of_ne hxa).2 (hsub (List.mem_cons_of_mem _ hx))
    have hlen' : t.length = (l₂.erase a).length := by
      rw [List.length_erase_of_mem ha]; simp at hlen; omega
    have := ih h₁.2 (h₂.erase a) htsub hlen'
    intro x hx
    by_cases hxa : x = a
    · subst hxa; exact List.mem_cons_self ..
    · exact List.mem_cons_of_mem _ (this ((List.mem_erase_of_ne hxa).2 hx))

theorem keys_length (d : List (String × β)) : (keys d).length = d.length := by simp [keys]

/-- `d1 == d2` on dicts is extensional equality of the key -> value maps. -/
theorem dictEq_iff [BEq β] [LawfulBEq β] {a b : List (String × β)} (ha : (keys a).Nodup) (hb : (keys b).Nodup) :
    dictEq a b = true ↔ ∀ k, assoc k a = assoc k b := by
  unfold dictEq
  rw [Bool.and_eq_true, List.all_eq_true]
  constructor
  · rintro ⟨hlen, hall⟩ k
    have hlen : a.length = b.length := by simpa using hlen
    have hsub : keys a ⊆ keys b := by
      intro k hk
      obtain ⟨kv, hkv, rfl⟩ := List.mem_map.mp hk
      have := hall kv hkv
      simp at this
      exact assoc_isSome_iff.mp ⟨_, this⟩
    have hsub' := subset_of_nodup_of_length_eq ha hb hsub (by rw [keys_length, keys_length, hlen])
    cases hka : assoc k a with
    | some v =>
      have := hall (k, v) (assoc_mem hka)
      simp at this
      exact this.symm
    | none =>
      have hk : k ∉ keys a := assoc_none_iff.mp hka
      exact (assoc_none_iff.mpr fun h => hk (hsub' h)).symm
  · intro h
    have hsub : keys a ⊆ keys b := by
      intro k hk
      obtain ⟨v, hv⟩ := assoc_isSome_iff.mpr hk
      exact assoc_isSome_iff.mp ⟨v, by rw [← h k]; exact hv⟩
    have hsub' : keys b ⊆ keys a := by
      intro k hk
      obtain ⟨v, hv⟩ := assoc_isSome_iff.mpr hk
      exact assoc_isSome_iff.mp ⟨v, by rw [h k]; exact hv⟩
    constructor
    · have h1 := ha.length_le_of_subset hsub
      have h2 := hb.length_le_of_subset hsub'
      rw [keys_length, keys_length] at h1 h2
      simp; omega
    · intro kv hkv
      have := assoc_of_mem ha (show (kv.1, kv.2) ∈ a from hkv)
      rw [h kv.1] at this
      simp [this]

theorem dictEq_refl [BEq β] [LawfulBEq β] {a : List (String × β)} (ha : (keys a).Nodup) : dictEq a a = true :=
  (dictEq_iff ha ha).mpr fun _ => rfl

/-! ### `__eq__` -/

section eq
variable {Φ β κ τ ω : Type} {ops : FeatOps Φ} (spec : FeatSpec ops κ τ ω)

/-- the per-feature part of `__eq__`, stated on the specification. -/
def FeatClose (φ ψ : Φ) : Prop :=
  spec.tag φ = spec.tag ψ ∧ spec.colMeta φ = spec.colMeta ψ ∧
    All2 (All2 spec.cellClose) (spec.grid φ) (spec.grid ψ)

/-- the target part of `__eq__` (`torch.allclose(other.y, self.y)`). -/
def TargetClose (closeY : β → β → Bool) (ya yb : Option (List β)) : Prop :=
  match ya, yb with
  | some ya, some yb => All2 (fun u v => closeY u v = true) yb ya
  | none, none => True
  | _, _ => False

theorem eq_iff_spec (closeY : β → β → Bool) {a b : Frame Φ β} {na nb : Nat}
    (ha : a.WF spec na) (hb : b.WF spec nb) :
    a.eq ops closeY b = true ↔
      na = nb ∧ TargetClose closeY a.y b.y ∧ (∀ s, assoc s a.names = assoc s b.names) ∧
      ∀ s φ, assoc s a.feats = some φ → ∃ ψ, assoc s b.feats = some ψ ∧ FeatClose spec φ ψ := by
  unfold Frame.eq
  simp only [Bool.and_eq_true, ha.nr_ok, hb.nr_ok, beq_iff_eq]
  rw [dictEq_iff ha.nameKeys hb.nameKeys, List.all_eq_true]
  have hy : Frame.yClose closeY a.y b.y = true ↔ TargetClose closeY a.y b.y := by
    unfold TargetClose Frame.yClose
    cases a.y <;> cases b.y <;> simp [all2_iff]
  rw [hy]
  have hf : (∀ x ∈ a.feats, Frame.featCloseIn ops b.feats x = true) ↔
      ∀ s φ, assoc s a.feats = some φ → ∃ ψ, assoc s b.feats = some ψ ∧ FeatClose spec φ ψ := by
    constructor
    · intro h s φ hs
      have hm := assoc_mem hs
      have := h (s, φ) hm
      unfold Frame.featCloseIn at this
      simp only at this
      cases hψ : assoc s b.feats with
      | none => simp [hψ] at this
      | some ψ =>
        simp only [hψ] at this
        refine ⟨ψ, rfl, ?_⟩
        exact (spec.close_iff φ ψ (ha.feat_ok s φ hm).1 (hb.feat_ok s ψ (assoc_mem hψ)).1).mp this
    · intro h x hx
      obtain ⟨s, φ⟩ := x
      obtain ⟨ψ, hψ, hc⟩ := h s φ (assoc_of_mem ha.featKeys hx)
      unfold Frame.featCloseIn
      simp only [hψ]
      exact (spec.close_iff φ ψ (ha.feat_ok s φ hx).1 (hb.feat_ok s ψ (assoc_mem hψ)).1).mpr hc
  rw [hf]
  constructor
  · rintro ⟨⟨⟨h1, h2⟩, h3⟩, h4⟩; exact ⟨h1, h2, h3, h4⟩
  · rintro ⟨h1, h2, h3, h4⟩; exact ⟨⟨⟨h1, h2⟩, h3⟩, h4⟩

end eq

/-! ### `validate` -/

theorem keysSame_iff (a b : List String) : keysSame a b = true ↔ ∀ s, s ∈ a ↔ s ∈ b := by
  unfold keysSame
  simp only [Bool.and_eq_true, List.all_eq_true, List.contains_iff_mem]
  constructor
  · rintro ⟨h1, h2⟩ s; exact ⟨h1 s, h2 s⟩
  · intro h; exact ⟨fun s hs => (h s).mp hs, fun s hs => (h s).mpr hs⟩

section validate
variable {Φ β κ τ ω : Type} {ops : FeatOps Φ} (spec : FeatSpec ops κ τ ω)

/-- the constructor accepts exactly the frames satisfying the invariant `WF` (given well-formed
    tensors and Python dicts, whose keys are distinct). -/
theorem validate_iff_spec {f : Frame Φ β} (hfw : ∀ s φ, (s, φ) ∈ f.feats → spec.wf φ)
    (hk1 : (keys f.feats).Nodup) (hk2 : (keys f.names).Nodup) :
    f.validate ops = true ↔ f.WF spec (f.numRows ops) := by
  constructor
  · intro h
    simp only [Frame.validate, Bool.and_eq_true, List.all_eq_true] at h
    obtain ⟨⟨hks, hfe⟩, hy⟩ := h
    refine ⟨hk1, hk2, (keysSame_iff _ _).mp hks, ?_, ?_, rfl⟩
    · intro s φ hm
      have := hfe (s, φ) hm
      simp only at this
      cases hns : assoc s f.names with
      | none => simp [hns] at this
      | some ns =>
        simp only [hns, Bool.and_eq_true, bne_iff_ne, ne_eq] at this
        obtain ⟨hne, hc⟩ := this
        obtain ⟨h1, h2⟩ := (spec.check_iff φ _ _ (hfw s φ hm)).mp hc
        refine ⟨hfw s φ hm, h2, ns, rfl, h1.symm, ?_⟩
        intro he; subst he; simp at hne
    · intro y hyv
      simp only [hyv] at hy
      simpa using hy
  · intro h
    simp only [Frame.validate, Bool.and_eq_true, List.all_eq_true]
    refine ⟨⟨(keysSame_iff _ _).mpr h.sameKeys, ?_⟩, ?_⟩
    · intro sφ hm
      obtain ⟨s, φ⟩ := sφ
      obtain ⟨hw, hl, ns, hns, hlen, hne⟩ := h.feat_ok s φ hm
      simp only [hns, Bool.and_eq_true, bne_iff_ne, ne_eq]
      refine ⟨?_, (spec.check_iff φ _ _ hw).mpr ⟨hlen.symm, hl⟩⟩
      intro h0
      exact hne (List.length_eq_zero_iff.mp h0)
    · cases hyv : f.y with
      | none => rfl
      | some y => simp [h.y_ok y hyv]

theorem make_eq_some_iff {feats : List (String × Φ)} {names : List (String × List String)}
    {y : Option (List β)} {nr : Option Nat} {f : Frame Φ β} :
    Frame.make ops feats names y nr = some f ↔
      f = { feats := feats, names := names, y := y, numRowsOpt := nr } ∧ f.validate ops = true := by
  unfold Frame.make
  simp only
  by_cases hv : Frame.validate ops { feats := feats, names := names, y := y, numRowsOpt := nr } = true
  · simp only [hv, if_true, Option.some.injEq]
    constructor
    · intro h; subst h; exact ⟨rfl, hv⟩
    · rintro ⟨h, _⟩; exact h.symm
  · simp only [hv]
    constructor
    · intro h; cases h
    · rintro ⟨h, h2⟩; subst h; exact absurd h2 hv

end validate

/-! ### `defaultdict` key order (`_cat_helper`, `_cat_col`) -/

theorem mem_addKeys {acc ks : List String} {k : String} : k ∈ Frame.addKeys acc ks ↔ k ∈ acc ∨ k ∈ ks := by
  induction ks generalizing acc with
  | nil => simp [Frame.addKeys]
  | cons x ks ih =>
    simp only [Frame.addKeys]
    cases hx : acc.contains x with
    | true =>
      simp only [if_true, ih, List.mem_cons]
      have : x ∈ acc := List.contains_iff_mem.mp hx
      constructor
      · rintro (h | h)
        · exact Or.inl h
        · exact Or.inr (Or.inr h)
      · rintro (h | h | h)
        · exact Or.inl h
        · subst h; exact Or.inl this
        · exact Or.inr h
    | false =>
      simp only [Bool.false_eq_true, if_false, ih, List.mem_append, List.mem_cons,
        List.not_mem_nil, or_false]
      constructor
      · rintro ((h | h) | h)
        · exact Or.inl h
        · exact Or.inr (Or.inl h)
        · exact Or.inr (Or.inr h)
      · rintro (h | h | h)
        · exact Or.inl (Or.inl h)
        · exact Or.inl (Or.inr h)
        · exact Or.inr h

theorem nodup_addKeys {acc ks : List String} (h : acc.Nodup) : (Frame.addKeys acc ks).Nodup := by
  induction ks generalizing acc with
  | nil => simpa [Frame.addKeys]
  | cons x ks ih =>
    simp only [Frame.addKeys]
    by_cases hx : acc.contains x = true
    · simp only [hx, if_true]; exact ih h
    · simp only [hx]
      apply ih
      rw [List.nodup_append]
      refine ⟨h, by simp, ?_⟩
      intro a ha b hb
      simp at hb; subst hb
      intro hab; subst hab
      exact hx (List.contains_iff_mem.mpr ha)

theorem addKeys_of_subset {acc ks : List String} (h : ∀ k ∈ ks, k ∈ acc) : Frame.addKeys acc ks = acc := by
  induction ks with
  | nil => rfl
  | cons x ks ih =>
    have hx : acc.contains x = true := List.contains_iff_mem.mpr (h x (List.mem_cons_self ..))
    simp only [Frame.addKeys, hx, if_true]
    exact ih fun k hk => h k (List.mem_cons_of_mem _ hk)

theorem addKeys_of_nodup {acc ks : List String} (h : (acc ++ ks).Nodup) : Frame.addKeys acc ks = acc ++ ks := by
  induction ks generalizing acc with
  | nil => simp [Frame.addKeys]
  | cons x ks ih =>
    have hx : ¬ acc.contains x = true := by
      intro hc
      have hm := List.contains_iff_mem.mp hc
      rw [List.nodup_append] at h
      exact h.2.2 x hm x (List.mem_cons_self ..) rfl
    simp only [Frame.addKeys, hx]
    have : (acc ++ [x] ++ ks).Nodup := by simpa using h
    rw [ih this]; simp

theorem foldl_addKeys_mem {ds : List (List String)} {acc : List String} {k : String} :
    k ∈ ds.foldl Frame.addKeys acc ↔ k ∈ acc ∨ ∃ d ∈ ds, k ∈ d := by
  induction ds generalizing acc with
  | nil => simp
  | cons d ds ih =>
    simp only [List.foldl_cons, ih, mem_addKeys, List.mem_cons]
    constructor
    · rintro ((h | h) | ⟨d', hd', h⟩)
      · exact Or.inl h
      · exact Or.inr ⟨d, Or.inl rfl, h⟩
      · exact Or.inr ⟨d', Or.inr hd', h⟩
    · rintro (h | ⟨d', hd' | hd', h⟩)
      · exact Or.inl (Or.inl h)
      · subst hd'; exact Or.inl (Or.inr h)
      · exact Or.inr ⟨d', hd', h⟩

theorem mem_keyUnion {ds : List (List String)} {k : String} : k ∈ Frame.keyUnion ds ↔ ∃ d ∈ ds, k ∈ d := by
  unfold Frame.keyUnion
  rw [foldl_addKeys_mem]; simp

theorem foldl_addKeys_nodup {ds : List (List String)} {acc : List String} (h : acc.Nodup) :
    (ds.foldl Frame.addKeys acc).Nodup := by
  induction ds generalizing acc with
  | nil => simpa
  | cons d ds ih => exact ih (nodup_addKeys h)

theorem nodup_keyUnion (ds : List (List String)) : (Frame.keyUnion ds).Nodup :=
  foldl_addKeys_nodup List.nodup_nil

theorem foldl_addKeys_same {ds : List (List String)} {acc : List String} (h : ∀ d ∈ ds, ∀ k ∈ d, k ∈ acc) :
    ds.foldl Frame.addKeys acc = acc := by
  induction ds with
  | nil => rfl
  | cons d ds ih =>
    simp only [List.foldl_cons]
    rw [addKeys_of_subset (h d (List.mem_cons_self ..))]
    exact ih fun d' hd' => h d' (List.mem_cons_of_mem _ hd')

/-- when every later part has the keys of the first one, the `defaultdict` has exactly the first
    part's keys in its order. -/
theorem keyUnion_same {d : List String} {ds : List (List String)} (hd : d.Nodup)
    (h : ∀ d' ∈ ds, ∀ k ∈ d', k ∈ d) : Frame.keyUnion (d :: ds) = d := by
  unfold Frame.keyUnion
  simp only [List.foldl_cons]
  rw [addKeys_of_nodup (by simpa using hd), List.nil_append]
  exact foldl_addKeys_same h

/-! ### `_cat_helper` -/

theorem catHelper_eq_some {Φ β : Type} {cat : List Φ → Option Φ} {fs : List (Frame Φ β)} {feats : List (String × Φ)}
    (h : Frame.catHelper cat fs = some feats) :
    keys feats = Frame.keyUnion (fs.map fun f => keys f.feats) ∧
      ∀ s φ, (s, φ) ∈ feats → cat (fs.filterMap fun f => assoc s f.feats) = some φ := by
  unfold Frame.catHelper at h
  rw [mapOpt_eq_some_iff] at h
  generalize Frame.keyUnion (fs.map fun f => keys f.feats) = K at h
  induction K generalizing feats with
  | nil => cases feats <;> simp_all [All2, keys]
  | cons k K ih =>
    cases feats with
    | nil => simp [All2] at h
    | cons a feats =>
      simp only [All2] at h
      obtain ⟨h1, h2⟩ := h
      obtain ⟨ih1, ih2⟩ := ih h2
      cases hc : cat (fs.filterMap fun f => assoc k f.feats) with
      | none => simp [hc] at h1
      | some φ =>
        simp [hc] at h1
        subst h1
        refine ⟨by simp [keys] at ih1 ⊢; exact ih1, ?_⟩
        intro s φ' hm
        rcases List.mem_cons.mp hm with hm | hm
        · cases hm; exact hc
        · exact ih2 s φ' hm

theorem catHelper_some_of {Φ β : Type} {cat : List Φ → Option Φ} {fs : List (Frame Φ β)}
    (h : ∀ s ∈ Frame.keyUnion (fs.map fun f => keys f.feats),
      ∃ φ, cat (fs.filterMap fun f => assoc s f.feats) = some φ) :
    ∃ feats, Frame.catHelper cat fs = some feats := by
  unfold Frame.catHelper
  apply mapOpt_some_of_forall
  intro s hs
  obtain ⟨φ, hφ⟩ := h s hs
  exact ⟨(s, φ), by simp [hφ]⟩

/-! ### `_cat_row` -/

section catRow
variable {Φ β κ τ ω : Type} {ops : FeatOps Φ} (spec : FeatSpec ops κ τ ω)

theorem filterMap_flatMap_length {fs : List (Frame Φ β)} {s : String} {g : Φ → List γ}
    (h : ∀ f ∈ fs, ∃ φ, assoc s f.feats = some φ ∧ (g φ).length = f.numRows ops) :
    ((fs.filterMap fun f => assoc s f.feats).flatMap g).length = (fs.map (·.numRows ops)).sum := by
  induction fs with
  | nil => rfl
  | cons f fs ih =>
    obtain ⟨φ, hφ, hl⟩ := h f (List.mem_cons_self ..)
    rw [List.filterMap_cons, hφ]
    simp only [List.flatMap_cons, List.length_append, List.map_cons, List.sum_cons, hl]
    rw [ih fun f' hf' => h f' (List.mem_cons_of_mem _ hf')]

theorem flatMap_getD_length {fs : List (Frame Φ β)} (h : ∀ f ∈ fs, ∀ y, f.y = some y → y.length = f.numRows ops)
    (hs : ∀ f ∈ fs, f.y.isSome = true) :
    (fs.flatMap fun f => f.y.getD []).length = (fs.map (·.numRows ops)).sum := by
  induction fs with
  | nil => rfl
  | cons f fs ih =>
    have hsome := hs f (List.mem_cons_self ..)
    cases hy : f.y with
    | none => simp [hy] at hsome
    | some y =>
      simp only [List.flatMap_cons, List.length_append, List.map_cons, List.sum_cons, hy, Option.getD_some,
        h f (List.mem_cons_self ..) y hy]
      rw [ih (fun f' hf' => h f' (List.mem_cons_of_mem _ hf')) (fun f' hf' => hs f' (List.mem_cons_of_mem _ hf'))]

/-- Row concatenation of parts that share the schema of the first part (same name table, same
    feature keys, same target presence, compatible shapes): it succeeds and every feature of the
    result holds the rows of the parts in order; so does the target. -/
theorem catRow_spec {f0 : Frame Φ β} {rest : List (Frame Φ β)}
    (hwf : ∀ f ∈ f0 :: rest, f.WF spec (f.numRows ops))
    (hne : f0.feats ≠ [])
    (hnames : ∀ f ∈ rest, f.names = f0.names)
    (hkeys : ∀ f ∈ rest, keys f.feats = keys f0.feats)
    (hy : ∀ f ∈ rest, f.y.isSome = f0.y.isSome)
    (hcompat : ∀ f ∈ rest, ∀ s φ φ0, assoc s f.feats = some φ → assoc s f0.feats = some φ0 →
      spec.tag φ = spec.tag φ0 ∧ spec.colMeta φ = spec.colMeta φ0) :
    ∃ g, Frame.catRow ops (f0 :: rest) = some g ∧
      g.WF spec ((f0 :: rest).map (·.numRows ops)).sum ∧ g.names = f0.names ∧
      keys g.feats = keys f0.feats ∧
      (∀ s φ0, assoc s f0.feats = some φ0 → ∃ φ', assoc s g.feats = some φ' ∧
        spec.grid φ' = ((f0 :: rest).filterMap fun f => assoc s f.feats).flatMap spec.grid ∧
        spec.tag φ' = spec.tag φ0 ∧ spec.colMeta φ' = spec.colMeta φ0) ∧
      g.y = if f0.y.isSome then some ((f0 :: rest).flatMap fun f => f.y.getD []) else none := by
  have hwf0 := hwf f0 (List.mem_cons_self ..)
  have hK : Frame.keyUnion ((f0 :: rest).map fun f => keys f.feats) = keys f0.feats := by
    simp only [List.map_cons]
    apply keyUnion_same hwf0.featKeys
    intro d hd k hk
    obtain ⟨f, hf, rfl⟩ := List.mem_map.mp hd
    rw [hkeys f hf] at hk; exact hk
  -- every part has every feature group of the first part
  have hhas : ∀ s φ0, assoc s f0.feats = some φ0 → ∀ f ∈ f0 :: rest, ∃ φ, assoc s f.feats = some φ ∧
      spec.wf φ ∧ spec.tag φ = spec.tag φ0 ∧ spec.colMeta φ = spec.colMeta φ0 ∧
      (spec.grid φ).length = f.numRows ops := by
    intro s φ0 hs f hf
    rcases List.mem_cons.mp hf with hf | hf
    · subst hf
      obtain ⟨hw, hl, _⟩ := hwf0.feat_ok s φ0 (assoc_mem hs)
      exact ⟨φ0, hs, hw, rfl, rfl, by rw [spec.grid_len φ0 hw, hl]⟩
    · have hk : s ∈ keys f.feats := by rw [hkeys f hf]; exact assoc_isSome_iff.mp ⟨φ0, hs⟩
      obtain ⟨φ, hφ⟩ := assoc_isSome_iff.mpr hk
      obtain ⟨hw, hl, _⟩ := (hwf f (List.mem_cons_of_mem _ hf)).feat_ok s φ (assoc_mem hφ)
      obtain ⟨ht, hc⟩ := hcompat f hf s φ φ0 hφ hs
      exact ⟨φ, hφ, hw, ht, hc, by rw [spec.grid_len φ hw, hl]⟩
  -- the concatenated feature of every group
  have hcat : ∀ s φ0, assoc s f0.feats = some φ0 →
      ∃ φ', ops.catRows ((f0 :: rest).filterMap fun f => assoc s f.feats) = some φ' ∧ spec.wf φ' ∧
        spec.tag φ' = spec.tag φ0 ∧ spec.colMeta φ' = spec.colMeta φ0 ∧
        spec.grid φ' = ((f0 :: rest).filterMap fun f => assoc s f.feats).flatMap spec.grid := by
    intro s φ0 hs
    have hfm : ((f0 :: rest).filterMap fun f => assoc s f.feats) =
        φ0 :: (rest.filterMap fun f => assoc s f.feats) := by
      rw [List.filterMap_cons, hs]
    have hall : ∀ φ ∈ φ0 :: (rest.filterMap fun f => assoc s f.feats),
        spec.wf φ ∧ spec.tag φ = spec.tag φ0 ∧ spec.colMeta φ = spec.colMeta φ0 := by
      intro φ hφ
      rw [← hfm, List.mem_filterMap] at hφ
      obtain ⟨f, hf, hfφ⟩ := hφ
      obtain ⟨φ1, h1, hw, ht, hc, _⟩ := hhas s φ0 hs f hf
      rw [hfφ] at h1; cases h1
      exact ⟨hw, ht, hc⟩
    obtain ⟨φ', h1, h2, h3, h4, h5⟩ := spec.catRows_spec φ0 _ hall
    rw [hfm]
    exact ⟨φ', h1, h2, h3, h4, h5⟩
  obtain ⟨feats, hfeats⟩ : ∃ feats, Frame.catHelper ops.catRows (f0 :: rest) = some feats := by
    apply catHelper_some_of
    intro s hs
    rw [hK] at hs
    obtain ⟨φ0, hφ0⟩ := assoc_isSome_iff.mpr hs
    obtain ⟨φ', h1, _⟩ := hcat s φ0 hφ0
    exact ⟨φ', h1⟩
  obtain ⟨hfk, hfm⟩ := catHelper_eq_some hfeats
  rw [hK] at hfk
  let N := ((f0 :: rest).map (·.numRows ops)).sum
  let y' : Option (List β) := if f0.y.isSome then some ((f0 :: rest).flatMap fun f => f.y.getD []) else none
  let g : Frame Φ β := { feats := feats, names := f0.names, y := y', numRowsOpt := none }
  have hfn : (keys feats).Nodup := by rw [hfk]; exact hwf0.featKeys
  -- facts about each feature of the result
  have hres : ∀ s φ', (s, φ') ∈ feats → ∃ φ0, assoc s f0.feats = some φ0 ∧ spec.wf φ' ∧
      spec.tag φ' = spec.tag φ0 ∧ spec.colMeta φ' = spec.colMeta φ0 ∧
      spec.grid φ' = ((f0 :: rest).filterMap fun f => assoc s f.feats).flatMap spec.grid ∧ ops.len φ' = N := by
    intro s φ' hm
    have hk : s ∈ keys f0.feats := by rw [← hfk]; exact List.mem_map.mpr ⟨(s, φ'), hm, rfl⟩
    obtain ⟨φ0, hφ0⟩ := assoc_isSome_iff.mpr hk
    obtain ⟨φ'', h1, h2, h3, h4, h5⟩ := hcat s φ0 hφ0
    rw [hfm s φ' hm] at h1; cases h1
    refine ⟨φ0, hφ0, h2, h3, h4, h5, ?_⟩
    rw [← spec.grid_len φ' h2, h5]
    exact filterMap_flatMap_length (fun f hf => by
      obtain ⟨φ, hφ, _, _, _, hl⟩ := hhas s φ0 hφ0 f hf
      exact ⟨φ, hφ, hl⟩)
  have hgN : g.numRows ops = N := by
    show Frame.numRows ops g = N
    unfold Frame.numRows
    simp only [g]
    cases hf : feats with
    | nil =>
      exfalso
      have : keys f0.feats = [] := by rw [← hfk, hf]; rfl
      cases hf0 : f0.feats with
      | nil => exact hne hf0
      | cons a t => rw [hf0] at this; simp [keys] at this
    | cons a t =>
      obtain ⟨s, φ'⟩ := a
      simp only
      obtain ⟨_, _, _, _, _, _, hl⟩ := hres s φ' (by rw [hf]; exact List.mem_cons_self ..)
      exact hl
  have hgwf : g.WF spec N := by
    refine ⟨hfn, hwf0.nameKeys, ?_, ?_, ?_, hgN⟩
    · intro s
      show s ∈ keys feats ↔ s ∈ keys f0.names
      rw [hfk]; exact hwf0.sameKeys s
    · intro s φ' hm
      obtain ⟨φ0, hφ0, hw, _, hc, _, hl⟩ := hres s φ' hm
      obtain ⟨_, _, ns, hns, hlen, hnn⟩ := hwf0.feat_ok s φ0 (assoc_mem hφ0)
      exact ⟨hw, hl, ns, hns, by rw [hc]; exact hlen, hnn⟩
    · intro y hyv
      change y' = some y at hyv
      simp only [y'] at hyv
      cases h0 : f0.y.isSome with
      | false => simp [h0] at hyv
      | true =>
        simp only [h0, if_true, Option.some.injEq] at hyv
        subst hyv
        show _ = ((f0 :: rest).map (·.numRows ops)).sum
        apply flatMap_getD_length
        · intro f hf y hy; exact (hwf f hf).y_ok y hy
        · intro f hf
          rcases List.mem_cons.mp hf with hf | hf
          · subst hf; exact h0
          · rw [hy f hf]; exact h0
  refine ⟨g, ?_, hgwf, rfl, hfk, ?_, rfl⟩
  · unfold Frame.catRow
    have h1 : rest.any (fun f => !dictEq f.names f0.names) = false := by
      rw [List.any_eq_false]
      intro f hf
      rw [hnames f hf, dictEq_refl hwf0.nameKeys]; simp
    have h2 : (f0 :: rest).any (fun f => f.y.isSome != f0.y.isSome) = false := by
      rw [List.any_eq_false]
      intro f hf
      rcases List.mem_cons.mp hf with hf | hf
      · subst hf; simp
      · rw [hy f hf]; simp
    simp only [h1, h2, Bool.false_eq_true, if_false, hfeats]
    rw [make_eq_some_iff]
    refine ⟨rfl, ?_⟩
    have := (validate_iff_spec spec (f := g) (fun s φ hm => (hgwf.feat_ok s φ hm).1) hfn hwf0.nameKeys).mpr
      (by rw [hgN]; exact hgwf)
    exact this
  · intro s φ0 hφ0
    have hk : s ∈ keys feats := by rw [hfk]; exact assoc_isSome_iff.mp ⟨φ0, hφ0⟩
    obtain ⟨φ', hφ'⟩ := assoc_isSome_iff.mpr hk
    obtain ⟨φ1, h1, _, ht, hc, hg, _⟩ := hres s φ' (assoc_mem hφ')
    rw [hφ0] at h1; cases h1
    exact ⟨φ', hφ', hg, ht, hc⟩

/-- `p` holds exactly the rows `ps` of `f` (same columns, same shapes). -/
def IsSel (f : Frame Φ β) (ps : List Nat) (p : Frame Φ β) : Prop :=
  p.WF spec ps.length ∧ p.names = f.names ∧ keys p.feats = keys f.feats ∧
  (∀ s φ, assoc s f.feats = some φ → ∃ φ', assoc s p.feats = some φ' ∧
    spec.grid φ' = Grid.pick (spec.grid φ) ps ∧ spec.tag φ' = spec.tag φ ∧
    spec.colMeta φ' = spec.colMeta φ) ∧
  p.y = f.y.map (Grid.pick · ps)

/-- any list of admissible selections of one frame yields parts that are those selections. -/
theorem parts_of_selections {f : Frame Φ β} {n : Nat} (hwf : f.WF spec n) {ixs : List Index}
    {pss : List (List Nat)} (h : All2 (fun ix ps => ix.positions n = some ps) ixs pss) :
    ∃ parts, mapOpt (f.getitem ops) ixs = some parts ∧ All2 (IsSel spec f) pss parts := by
  induction ixs generalizing pss with
  | nil => cases pss with
    | nil => exact ⟨[], rfl, trivial⟩
    | cons ps pss => simp [All2] at h
  | cons ix ixs ih =>
    cases pss with
    | nil => simp [All2] at h
    | cons ps pss =>
      simp only [All2] at h
      obtain ⟨p, hp, h1, h2, h3, h4, h5⟩ := getitem_spec spec hwf h.1
      obtain ⟨parts, hparts, hall⟩ := ih h.2
      refine ⟨p :: parts, by simp [mapOpt, hp, hparts], ⟨h1, h2, h3, ?_, h5⟩, hall⟩
      intro s φ hs
      obtain ⟨φ', a, _, b, c, d⟩ := h4 s φ hs
      exact ⟨φ', a, b, c, d⟩

theorem sel_grids {f : Frame Φ β} {pss : List (List Nat)} {parts : List (Frame Φ β)}
    (h : All2 (IsSel spec f) pss parts) {s : String} {φ : Φ} (hs : assoc s f.feats = some φ) :
    (parts.filterMap fun p => assoc s p.feats).flatMap spec.grid = pss.flatMap (Grid.pick (spec.grid φ)) := by
  induction pss generalizing parts with
  | nil => cases parts <;> simp_all [All2]
  | cons ps pss ih =>
    cases parts with
    | nil => simp [All2] at h
    | cons p parts =>
      simp only [All2] at h
      obtain ⟨φ', h1, h2, _⟩ := h.1.2.2.2.1 s φ hs
      rw [List.filterMap_cons, h1]
      simp only [List.flatMap_cons, h2, ih h.2]

theorem sel_targets {f : Frame Φ β} {pss : List (List Nat)} {parts : List (Frame Φ β)}
    (h : All2 (IsSel spec f) pss parts) {y : List β} (hy : f.y = some y) :
    (parts.flatMap fun p => p.y.getD []) = pss.flatMap (Grid.pick y) := by
  induction pss generalizing parts with
  | nil => cases parts <;> simp_all [All2]
  | cons ps pss ih =>
    cases parts with
    | nil => simp [All2] at h
    | cons p parts =>
      simp only [All2] at h
      have := h.1.2.2.2.2
      rw [hy] at this
      simp only [List.flatMap_cons, this, Option.map_some, Option.getD_some, ih h.2]

theorem sel_rows_sum {f : Frame Φ β} {pss : List (List Nat)} {parts : List (Frame Φ β)}
    (h : All2 (IsSel spec f) pss parts) : (parts.map (·.numRows ops)).sum = pss.flatten.length := by
  induction pss generalizing parts with
  | nil => cases parts <;> simp_all [All2]
  | cons ps pss ih =>
    cases parts with
    | nil => simp [All2] at h
    | cons p parts =>
      simp only [All2] at h
      simp only [List.map_cons, List.sum_cons, List.flatten_cons, List.length_append, ih h.2, h.1.1.nr_ok]

theorem All2.of_mem_right {R : α → γ → Prop} {xs : List α} {ys : List γ} (h : All2 R xs ys) {y : γ} (hy : y ∈ ys) :
    ∃ x ∈ xs, R x y := by
  induction xs generalizing ys with
  | nil => cases ys <;> simp_all [All2]
  | cons x xs ih =>
    cases ys with
    | nil => simp at hy
    | cons y' ys =>
      simp only [All2] at h
      rcases List.mem_cons.mp hy with hy | hy
      · subst hy; exact ⟨x, List.mem_cons_self .., h.1⟩
      · obtain ⟨x', hx', hr⟩ := ih h.2 hy
        exact ⟨x', List.mem_cons_of_mem _ hx', hr⟩

/-- Row concatenation of selections of one frame is the selection of the concatenated positions:
    `cat([f[ix1], ..., f[ixk]], dim=0)` holds the rows `ps1 ++ ... ++ psk` of `f`. -/
theorem catRow_of_sel {f : Frame Φ β} (hne : f.feats ≠ []) {ps0 : List Nat} {pss : List (List Nat)}
    {p0 : Frame Φ β} {parts : List (Frame Φ β)} (h : All2 (IsSel spec f) (ps0 :: pss) (p0 :: parts)) :
    ∃ g, Frame.catRow ops (p0 :: parts) = some g ∧ IsSel spec f (ps0 :: pss).flatten g := by
  have h0 : IsSel spec f ps0 p0 := h.1
  have hall : ∀ p ∈ p0 :: parts, ∃ ps, IsSel spec f ps p := by
    intro p hp
    obtain ⟨ps, _, hps⟩ := All2.of_mem_right h hp
    exact ⟨ps, hps⟩
  have hcs := catRow_spec spec (f0 := p0) (rest := parts)
    (by
      intro p hp
      obtain ⟨ps, hps⟩ := hall p hp
      have := hps.1
      rw [← this.nr_ok] at this; exact this)
    (by
      intro he
      have := h0.2.2.1
      rw [he] at this
      cases hf : f.feats with
      | nil => exact hne hf
      | cons a t => rw [hf] at this; simp [keys] at this)
    (by
      intro p hp
      obtain ⟨ps, hps⟩ := hall p (List.mem_cons_of_mem _ hp)
      rw [hps.2.1, h0.2.1])
    (by
      intro p hp
      obtain ⟨ps, hps⟩ := hall p (List.mem_cons_of_mem _ hp)
      rw [hps.2.2.1, h0.2.2.1])
    (by
      intro p hp
      obtain ⟨ps, hps⟩ := hall p (List.mem_cons_of_mem _ hp)
      rw [hps.2.2.2.2, h0.2.2.2.2]
      cases f.y <;> rfl)
    (by
      intro p hp s φ φ0 hφ hφ0
      obtain ⟨ps, hps⟩ := hall p (List.mem_cons_of_mem _ hp)
      have hk : s ∈ keys f.feats := by rw [← h0.2.2.1]; exact assoc_isSome_iff.mp ⟨φ0, hφ0⟩
      obtain ⟨ψ, hψ⟩ := assoc_isSome_iff.mpr hk
      obtain ⟨a, ha, _, hta, hca⟩ := hps.2.2.2.1 s ψ hψ
      obtain ⟨b, hb, _, htb, hcb⟩ := h0.2.2.2.1 s ψ hψ
      rw [hφ] at ha; cases ha
      rw [hφ0] at hb; cases hb
      exact ⟨by rw [hta, htb], by rw [hca, hcb]⟩)
  obtain ⟨g, hg, hgwf, hgn, hgk, hgg, hgy⟩ := hcs
  refine ⟨g, hg, ?_, by rw [hgn, h0.2.1], by rw [hgk, h0.2.2.1], ?_, ?_⟩
  · rw [sel_rows_sum spec h] at hgwf; exact hgwf
  · intro s φ hs
    obtain ⟨φ0, hφ0, _, ht0, hc0⟩ := h0.2.2.2.1 s φ hs
    obtain ⟨φ', hφ', hgr, ht, hc⟩ := hgg s φ0 hφ0
    refine ⟨φ', hφ', ?_, by rw [ht, ht0], by rw [hc, hc0]⟩
    rw [hgr, sel_grids spec h hs, pick_flatten]
  · rw [hgy, h0.2.2.2.2]
    cases hy : f.y with
    | none => rfl
    | some y =>
      simp only [Option.map_some, Option.isSome_some, if_true]
      rw [sel_targets spec h hy, pick_flatten]

/-- same columns, same shapes, same cells, same target. -/
def SameContent (g f : Frame Φ β) : Prop :=
  g.names = f.names ∧ keys g.feats = keys f.feats ∧ g.y = f.y ∧
  ∀ s φ, assoc s f.feats = some φ → ∃ φ', assoc s g.feats = some φ' ∧
    spec.grid φ' = spec.grid φ ∧ spec.tag φ' = spec.tag φ ∧ spec.colMeta φ' = spec.colMeta φ

theorem IsSel.sameContent {f g : Frame Φ β} {n : Nat} (hwf : f.WF spec n) (h : IsSel spec f (List.range n) g) :
    g.WF spec n ∧ SameContent spec g f := by
  obtain ⟨h1, h2, h3, h4, h5⟩ := h
  refine ⟨by simpa using h1, h2, h3, ?_, ?_⟩
  · rw [h5]
    cases hy : f.y with
    | none => rfl
    | some y => simp [pick_range_of_length y n (hwf.y_ok y hy)]
  · intro s φ hs
    obtain ⟨φ', a, b, c, d⟩ := h4 s φ hs
    obtain ⟨hw, hl, _⟩ := hwf.feat_ok s φ (assoc_mem hs)
    exact ⟨φ', a, by rw [b, pick_range_of_length _ n (by rw [spec.grid_len φ hw, hl])], c, d⟩

/-- frames with the same content compare equal, in both directions, under any reflexive `close`. -/
theorem eq_of_sameContent (closeY : β → β → Bool) (hcy : ∀ v, closeY v v = true)
    (hcc : ∀ c, spec.cellClose c c) {g f : Frame Φ β} {n : Nat} (hg : g.WF spec n) (hf : f.WF spec n)
    (h : SameContent spec g f) : g.eq ops closeY f = true ∧ f.eq ops closeY g = true := by
  obtain ⟨hn, hk, hy, hc⟩ := h
  have hT : ∀ y : Option (List β), TargetClose closeY y y := by
    intro y
    cases y with
    | none => trivial
    | some y => exact All2.refl hcy y
  constructor
  · rw [eq_iff_spec spec closeY hg hf]
    refine ⟨rfl, by rw [hy]; exact hT _, by intro s; rw [hn], ?_⟩
    intro s φ' hs
    have hks : s ∈ keys f.feats := by rw [← hk]; exact assoc_isSome_iff.mp ⟨φ', hs⟩
    obtain ⟨φ, hφ⟩ := assoc_isSome_iff.mpr hks
    obtain ⟨φ'', a, b, c, d⟩ := hc s φ hφ
    rw [hs] at a; cases a
    exact ⟨φ, hφ, c, d, by rw [b]; exact All2.refl (fun r => All2.refl hcc r) _⟩
  · rw [eq_iff_spec spec closeY hf hg]
    refine ⟨rfl, by rw [hy]; exact hT _, by intro s; rw [hn], ?_⟩
    intro s φ hs
    obtain ⟨φ', a, b, c, d⟩ := hc s φ hs
    exact ⟨φ', a, c.symm, d.symm, by rw [b]; exact All2.refl (fun r => All2.refl hcc r) _⟩

end catRow

/-! ### `_cat_col` -/

theorem hasDup_eq_false_iff (xs : List String) : Frame.hasDup xs = false ↔ xs.Nodup := by
  induction xs with
  | nil => simp [Frame.hasDup]
  | cons x xs ih =>
    simp only [Frame.hasDup, Bool.or_eq_false_iff, ih, List.nodup_cons]
    constructor
    · rintro ⟨h1, h2⟩
      exact ⟨fun hm => by (rw [List.contains_iff_mem.mpr hm] at h1; exact Bool.noConfusion h1), h2⟩
    · rintro ⟨h1, h2⟩
      refine ⟨?_, h2⟩
      cases hc : xs.contains x with
      | false => rfl
      | true => exact absurd (List.contains_iff_mem.mp hc) h1

theorem keys_map_self (K : List String) (g : String → γ) : keys (K.map fun k => (k, g k)) = K := by
  simp [keys, Function.comp_def]

theorem assoc_map_self (K : List String) (g : String → γ) (s : String) :
    assoc s (K.map fun k => (k, g k)) = if s ∈ K then some (g s) else none := by
  induction K with
  | nil => simp [assoc]
  | cons k K ih =>
    simp only [List.map_cons, assoc, List.mem_cons]
    by_cases hk : k = s
    · subst hk; simp
    · have : ¬ s = k := fun h => hk h.symm
      simp only [hk, if_false, ih, this, false_or]

theorem range_map_getD (xs : List (List γ)) (n : Nat) (h : xs.length = n) :
    ((List.range n).map fun r => xs.getD r []) = xs := by
  apply List.ext_getElem?
  intro k
  rw [List.getElem?_map]
  by_cases hk : k < n
  · rw [List.getElem?_range hk]
    have hk' : k < xs.length := by omega
    simp [List.getD_eq_getElem?_getD, List.getElem?_eq_getElem hk']
  · have h1 : (List.range n)[k]? = none := by simp; omega
    have h2 : xs[k]? = none := by simp; omega
    rw [h1, h2]; rfl

section catCol
variable {Φ β κ τ ω : Type} {ops : FeatOps Φ} (spec : FeatSpec ops κ τ ω)

/-- Column concatenation of a per-stype column partition.  `parts` are well-formed frames with the
    rows of `f`; per stype, their name lists, column metadata and rows concatenate (in order) to
    those of `f`; at most one of them carries the target of `f`.  Then `cat(parts, dim=1)` succeeds
    and has the name table, target, shapes and cells of `f`. -/
theorem catCol_spec {f : Frame Φ β} {n : Nat} (hwf : f.WF spec n) (hne : f.feats ≠ [])
    {p0 : Frame Φ β} {rest : List (Frame Φ β)}
    (hparts : ∀ p ∈ p0 :: rest, p.WF spec n)
    (hnames : ∀ s, ((p0 :: rest).flatMap fun p => (assoc s p.names).getD []) = (assoc s f.names).getD [])
    (hnodup : ∀ s ns, assoc s f.names = some ns → ns.Nodup)
    (hy : (p0 :: rest).filterMap (·.y) = f.y.toList)
    (hfeat : ∀ s φ, assoc s f.feats = some φ →
      (∀ φi ∈ (p0 :: rest).filterMap (fun p => assoc s p.feats), spec.tag φi = spec.tag φ) ∧
      ((p0 :: rest).filterMap fun p => assoc s p.feats).flatMap spec.colMeta = spec.colMeta φ ∧
      ∀ r, r < n → ((p0 :: rest).filterMap fun p => assoc s p.feats).flatMap (fun φi => (spec.grid φi).getD r [])
        = (spec.grid φ).getD r []) :
    ∃ g, Frame.catCol ops (p0 :: rest) = some g ∧ g.WF spec n ∧
      (∀ s, assoc s g.names = assoc s f.names) ∧ g.y = f.y ∧
      ∀ s φ, assoc s f.feats = some φ → ∃ φ', assoc s g.feats = some φ' ∧
        spec.grid φ' = spec.grid φ ∧ spec.tag φ' = spec.tag φ ∧ spec.colMeta φ' = spec.colMeta φ := by
  let fs := p0 :: rest
  -- a stype occurs in some part exactly when it occurs in f
  have hnk : ∀ s, (∃ p ∈ fs, s ∈ keys p.names) ↔ s ∈ keys f.names := by
    intro s
    constructor
    · rintro ⟨p, hp, hs⟩
      obtain ⟨ns, hns⟩ := assoc_isSome_iff.mpr hs
      have hsf : s ∈ keys p.feats := ((hparts p hp).sameKeys s).mpr hs
      obtain ⟨φ, hφ⟩ := assoc_isSome_iff.mpr hsf
      obtain ⟨_, _, ns', hns', _, hnn⟩ := (hparts p hp).feat_ok s φ (assoc_mem hφ)
      rw [hns] at hns'; cases hns'
      cases hfn : assoc s f.names with
      | some v => exact assoc_isSome_iff.mp ⟨v, hfn⟩
      | none =>
        exfalso
        have hflat := hnames s
        rw [hfn] at hflat
        simp only [Option.getD_none] at hflat
        have : ∀ x ∈ fs, (assoc s x.names).getD [] = [] := by
          intro x hx
          exact List.flatMap_eq_nil_iff.mp hflat x hx
        have := this p hp
        rw [hns] at this
        exact hnn this
    · intro hs
      obtain ⟨ns, hns⟩ := assoc_isSome_iff.mpr hs
      have hsf : s ∈ keys f.feats := (hwf.sameKeys s).mpr hs
      obtain ⟨φ, hφ⟩ := assoc_isSome_iff.mpr hsf
      obtain ⟨_, _, ns', hns', _, hnn⟩ := hwf.feat_ok s φ (assoc_mem hφ)
      rw [hns] at hns'; cases hns'
      have hflat := hnames s
      rw [hns] at hflat
      simp only [Option.getD_some] at hflat
      by_cases hcon : ∃ p ∈ fs, s ∈ keys p.names
      · exact hcon
      · exfalso
        apply hnn
        rw [← hflat]
        apply List.flatMap_eq_nil_iff.mpr
        intro p hp
        cases hpn : assoc s p.names with
        | none => rfl
        | some v => exact absurd ⟨p, hp, assoc_isSome_iff.mp ⟨v, hpn⟩⟩ hcon
  have hfk : ∀ s, (∃ p ∈ fs, s ∈ keys p.feats) ↔ s ∈ keys f.feats := by
    intro s
    rw [hwf.sameKeys s, ← hnk s]
    constructor
    · rintro ⟨p, hp, hs⟩; exact ⟨p, hp, ((hparts p hp).sameKeys s).mp hs⟩
    · rintro ⟨p, hp, hs⟩; exact ⟨p, hp, ((hparts p hp).sameKeys s).mpr hs⟩
  have hKf : ∀ s, s ∈ Frame.keyUnion (fs.map fun p => keys p.feats) ↔ s ∈ keys f.feats := by
    intro s
    rw [mem_keyUnion, ← hfk s]
    constructor
    · rintro ⟨d, hd, hs⟩
      obtain ⟨p, hp, rfl⟩ := List.mem_map.mp hd
      exact ⟨p, hp, hs⟩
    · rintro ⟨p, hp, hs⟩; exact ⟨_, List.mem_map.mpr ⟨p, hp, rfl⟩, hs⟩
  have hKn : ∀ s, s ∈ Frame.keyUnion (fs.map fun p => keys p.names) ↔ s ∈ keys f.names := by
    intro s
    rw [mem_keyUnion, ← hnk s]
    constructor
    · rintro ⟨d, hd, hs⟩
      obtain ⟨p, hp, rfl⟩ := List.mem_map.mp hd
      exact ⟨p, hp, hs⟩
    · rintro ⟨p, hp, hs⟩; exact ⟨_, List.mem_map.mpr ⟨p, hp, rfl⟩, hs⟩
  -- the concatenated feature of every group of f
  have hcat : ∀ s φ, assoc s f.feats = some φ →
      ∃ φ', ops.catCols (fs.filterMap fun p => assoc s p.feats) = some φ' ∧ spec.wf φ' ∧
        spec.tag φ' = spec.tag φ ∧ spec.colMeta φ' = spec.colMeta φ ∧ spec.grid φ' = spec.grid φ ∧
        ops.len φ' = n := by
    intro s φ hs
    obtain ⟨htag, hmeta, hrows⟩ := hfeat s φ hs
    have hmem : ∀ φi ∈ fs.filterMap (fun p => assoc s p.feats), spec.wf φi ∧ ops.len φi = n := by
      intro φi hφi
      obtain ⟨p, hp, hpφ⟩ := List.mem_filterMap.mp hφi
      obtain ⟨hw, hl, _⟩ := (hparts p hp).feat_ok s φi (assoc_mem hpφ)
      exact ⟨hw, hl⟩
    cases hφs : fs.filterMap (fun p => assoc s p.feats) with
    | nil =>
      exfalso
      obtain ⟨p, hp, hps⟩ := (hfk s).mpr (assoc_isSome_iff.mp ⟨φ, hs⟩)
      obtain ⟨v, hv⟩ := assoc_isSome_iff.mpr hps
      have : v ∈ fs.filterMap (fun p => assoc s p.feats) := List.mem_filterMap.mpr ⟨p, hp, hv⟩
      rw [hφs] at this; simp at this
    | cons φ0 φs =>
      rw [hφs] at htag hmeta hrows hmem
      have h0 := hmem φ0 (List.mem_cons_self ..)
      obtain ⟨φ', h1, h2, h3, h4, h5, h6⟩ := spec.catCols_spec φ0 φs (by
        intro φi hφi
        exact ⟨(hmem φi hφi).1, by rw [htag φi hφi, htag φ0 (List.mem_cons_self ..)],
          by rw [(hmem φi hφi).2, h0.2]⟩)
      obtain ⟨hw, hl, _⟩ := hwf.feat_ok s φ (assoc_mem hs)
      refine ⟨φ', h1, h2, by rw [h3, htag φ0 (List.mem_cons_self ..)], by rw [h5, hmeta], ?_, by rw [h4, h0.2]⟩
      rw [h6, h0.2]
      have : ((List.range n).map fun r => (φ0 :: φs).flatMap fun φi => (spec.grid φi).getD r []) =
          (List.range n).map fun r => (spec.grid φ).getD r [] := by
        apply List.map_congr_left
        intro r hr
        exact hrows r (List.mem_range.mp hr)
      rw [this]
      exact range_map_getD _ n (by rw [spec.grid_len φ hw, hl])
  obtain ⟨feats, hfeats⟩ : ∃ feats, Frame.catHelper ops.catCols fs = some feats := by
    apply catHelper_some_of
    intro s hs
    obtain ⟨φ, hφ⟩ := assoc_isSome_iff.mpr ((hKf s).mp hs)
    obtain ⟨φ', h1, _⟩ := hcat s φ hφ
    exact ⟨φ', h1⟩
  obtain ⟨hfkeys, hfm⟩ := catHelper_eq_some hfeats
  let names' := Frame.mergeNames fs
  have hnames' : ∀ s, assoc s names' = assoc s f.names := by
    intro s
    show assoc s (Frame.mergeNames fs) = _
    unfold Frame.mergeNames
    rw [assoc_map_self]
    by_cases hs : s ∈ Frame.keyUnion (fs.map fun p => keys p.names)
    · simp only [hs, if_true]
      obtain ⟨ns, hns⟩ := assoc_isSome_iff.mpr ((hKn s).mp hs)
      rw [hnames s, hns]; rfl
    · simp only [hs, if_false]
      exact (assoc_none_iff.mpr fun h => hs ((hKn s).mpr h)).symm
  have hnk' : (keys names').Nodup := by
    show (keys (Frame.mergeNames fs)).Nodup
    unfold Frame.mergeNames
    rw [keys_map_self]; exact nodup_keyUnion _
  have hfn : (keys feats).Nodup := by rw [hfkeys]; exact nodup_keyUnion _
  let g : Frame Φ β := { feats := feats, names := names', y := f.y, numRowsOpt := none }
  have hres : ∀ s φ', (s, φ') ∈ feats → ∃ φ, assoc s f.feats = some φ ∧ spec.wf φ' ∧
      spec.tag φ' = spec.tag φ ∧ spec.colMeta φ' = spec.colMeta φ ∧ spec.grid φ' = spec.grid φ ∧
      ops.len φ' = n := by
    intro s φ' hm
    have hk : s ∈ keys f.feats := by
      rw [← hKf s, ← hfkeys]; exact List.mem_map.mpr ⟨(s, φ'), hm, rfl⟩
    obtain ⟨φ, hφ⟩ := assoc_isSome_iff.mpr hk
    obtain ⟨φ'', h1, h2, h3, h4, h5, h6⟩ := hcat s φ hφ
    rw [hfm s φ' hm] at h1; cases h1
    exact ⟨φ, hφ, h2, h3, h4, h5, h6⟩
  have hgN : g.numRows ops = n := by
    show Frame.numRows ops g = n
    unfold Frame.numRows
    simp only [g]
    cases hf : feats with
    | nil =>
      exfalso
      cases hf0 : f.feats with
      | nil => exact hne hf0
      | cons a t =>
        have : a.1 ∈ keys feats := by
          rw [hfkeys, hKf]; rw [hf0]; simp [keys]
        rw [hf] at this; simp [keys] at this
    | cons a t =>
      obtain ⟨s, φ'⟩ := a
      simp only
      obtain ⟨_, _, _, _, _, _, hl⟩ := hres s φ' (by rw [hf]; exact List.mem_cons_self ..)
      exact hl
  have hgwf : g.WF spec n := by
    refine ⟨hfn, hnk', ?_, ?_, hwf.y_ok, hgN⟩
    · intro s
      show s ∈ keys feats ↔ s ∈ keys names'
      rw [hfkeys, hKf s, hwf.sameKeys s]
      constructor
      · intro h
        obtain ⟨v, hv⟩ := assoc_isSome_iff.mpr h
        exact assoc_isSome_iff.mp ⟨v, by rw [hnames' s]; exact hv⟩
      · intro h
        obtain ⟨v, hv⟩ := assoc_isSome_iff.mpr h
        exact assoc_isSome_iff.mp ⟨v, by rw [← hnames' s]; exact hv⟩
    · intro s φ' hm
      obtain ⟨φ, hφ, hw, _, hc, _, hl⟩ := hres s φ' hm
      obtain ⟨_, _, ns, hns, hlen, hnn⟩ := hwf.feat_ok s φ (assoc_mem hφ)
      exact ⟨hw, hl, ns, by show assoc s names' = some ns; rw [hnames' s]; exact hns, by rw [hc]; exact hlen, hnn⟩
  refine ⟨g, ?_, hgwf, hnames', rfl, ?_⟩
  · unfold Frame.catCol
    simp only
    have h1 : ¬ ((fs.filterMap (·.y)).length > 1) := by
      show ¬ (((p0 :: rest).filterMap (·.y)).length > 1)
      rw [hy]; cases f.y <;> simp [Option.toList]
    have h2 : (Frame.mergeNames fs).any (fun sn => Frame.hasDup sn.2) = false := by
      rw [List.any_eq_false]
      intro sn hsn
      have hk : (keys (Frame.mergeNames fs)).Nodup := hnk'
      have ha := assoc_of_mem hk (show (sn.1, sn.2) ∈ Frame.mergeNames fs from hsn)
      have hb := hnames' sn.1
      change assoc sn.1 (Frame.mergeNames fs) = _ at hb
      rw [ha] at hb
      have := hnodup sn.1 sn.2 hb.symm
      rw [(hasDup_eq_false_iff sn.2).mpr this]; simp
    have h3 : (fs.filterMap (·.y)).head? = f.y := by
      show ((p0 :: rest).filterMap (·.y)).head? = f.y
      rw [hy]; cases f.y <;> rfl
    simp only [fs] at h1 h2 h3 hfeats
    simp only [h1, if_false, h2, Bool.false_eq_true, hfeats, h3]
    rw [make_eq_some_iff]
    refine ⟨rfl, ?_⟩
    exact (validate_iff_spec spec (f := g) (fun s φ hm => (hgwf.feat_ok s φ hm).1) hfn hnk').mpr
      (by rw [hgN]; exact hgwf)
  · intro s φ hφ
    have hk : s ∈ keys feats := by rw [hfkeys, hKf s]; exact assoc_isSome_iff.mp ⟨φ, hφ⟩
    obtain ⟨φ', hφ'⟩ := assoc_isSome_iff.mpr hk
    obtain ⟨φ1, h1, _, ht, hc, hg, _⟩ := hres s φ' (assoc_mem hφ')
    rw [hφ] at h1; cases h1
    exact ⟨φ', hφ', hg, ht, hc⟩

end catCol

/-! ### partitions by cut points -/

/-- the consecutive slices `a : a+l1`, `a+l1 : a+l1+l2`, ... for a list of part lengths. -/
def cutSlices (a : Nat) : List Nat → List Index
  | [] => []
  | l :: ls => Index.slice (some (a : Int)) (some ((a + l : Nat) : Int)) none :: cutSlices (a + l) ls

/-- the positions those slices select. -/
def cutRanges (a : Nat) : List Nat → List (List Nat)
  | [] => []
  | l :: ls => List.range' a l :: cutRanges (a + l) ls

theorem cut_positions (n a : Nat) (ls : List Nat) (h : a + ls.sum ≤ n) :
    All2 (fun ix ps => ix.positions n = some ps) (cutSlices a ls) (cutRanges a ls) := by
  induction ls generalizing a with
  | nil => trivial
  | cons l ls ih =>
    simp only [List.sum_cons] at h
    refine ⟨?_, ih (a + l) (by omega)⟩
    simp only [Index.positions]
    rw [slicePositions_nat n a (a + l) (by omega) (by omega)]
    congr 2
    omega

theorem cut_flatten (a : Nat) (ls : List Nat) : (cutRanges a ls).flatten = List.range' a ls.sum := by
  induction ls generalizing a with
  | nil => rfl
  | cons l ls ih =>
    simp only [cutRanges, List.flatten_cons, List.sum_cons, ih]
    exact List.range'_append_1

/-! ### dense tensors satisfy the feature specification -/

theorem all2_iff_of {r : α → γ → Bool} {R : α → γ → Prop} (h : ∀ a b, r a b = true ↔ R a b)
    (xs : List α) (ys : List γ) : all2 r xs ys = true ↔ All2 R xs ys := by
  induction xs generalizing ys with
  | nil => cases ys <;> simp [all2, All2]
  | cons x xs ih => cases ys <;> simp [all2, All2, ih, h]

theorem mem_pick {xs : List α} {ps : List Nat} {x : α} (h : x ∈ Grid.pick xs ps) : x ∈ xs := by
  induction ps with
  | nil => simp [pick_nil] at h
  | cons p ps ih =>
    rw [pick_cons, List.mem_append] at h
    rcases h with h | h
    · cases hp : xs[p]? with
      | none => simp [hp, Option.toList] at h
      | some v =>
        simp [hp, Option.toList] at h
        subst h
        exact List.mem_of_getElem? hp
    · exact ih h

theorem pick_singleton_length {xs : List α} {j : Nat} (h : j < xs.length) : (Grid.pick xs [j]).length = 1 := by
  rw [pick_length xs [j] (fun p hp => by simp at hp; subst hp; exact h)]; rfl

theorem replicate_unit_flatMap (ds : List γ) (f : γ → Nat) :
    ds.flatMap (fun d => List.replicate (f d) ()) = List.replicate (ds.map f).sum () := by
  induction ds with
  | nil => rfl
  | cons d ds ih => simp [ih, List.replicate_append_replicate]

namespace Dense
variable {α : Type}

/-- representation invariant of a dense tensor: rectangular with the stated trailing size. -/
def WF (d : Dense α) : Prop :=
  (∀ r ∈ d.rows, r.length = d.numCols) ∧ ∀ r ∈ d.rows, ∀ c ∈ r, c.length = d.depth.getD 1

theorem catRows_cons_cons (cl : α → α → Bool) (d0 d1 : Dense α) (ds : List (Dense α)) :
    (denseOps cl).catRows (d0 :: d1 :: ds) = Dense.catRows (d0 :: d1 :: ds) := rfl

theorem catCols_cons_cons (cl : α → α → Bool) (d0 d1 : Dense α) (ds : List (Dense α)) :
    (denseOps cl).catCols (d0 :: d1 :: ds) = Dense.catCols (d0 :: d1 :: ds) := rfl

end Dense

/-- Dense tensors refine the nested-list specification: every operation `TensorFrame` performs on a
    dense feature is the Python-list operation on its rows x columns table of cells. -/
def denseSpec (cl : α → α → Bool) : FeatSpec (denseOps cl) (List α) (Option Nat) Unit where
  wf := Dense.WF
  tag := fun d => d.depth
  colMeta := fun d => List.replicate d.numCols ()
  grid := fun d => d.rows
  cellClose := fun c1 c2 => All2 (fun a b => cl a b = true) c1 c2
  grid_len := fun _ _ => rfl
  grid_row := fun d h r hr => by simpa using h.1 r hr
  check_iff := fun d nc nr _ => by simp [denseOps]
  select_none := fun d ix _ => by simp [denseOps, Dense.select]
  select_some := fun d ix d' h hs => by
    simp only [denseOps, Dense.select] at hs
    cases hps : ix.positions d.rows.length with
    | none => simp [hps] at hs
    | some ps =>
      simp [hps] at hs
      subst hs
      refine ⟨⟨?_, ?_⟩, rfl, rfl, ps, hps, rfl⟩
      · intro r hr; exact h.1 r (mem_pick hr)
      · intro r hr c hc; exact h.2 r (mem_pick hr) c hc
  col_spec := fun d j h hj => by
    have hj' : j < d.numCols := by simpa using hj
    refine ⟨{ numCols := 1, depth := d.depth, rows := d.rows.map fun r => Grid.pick r [j] }, ?_, ⟨?_, ?_⟩, rfl, ?_, rfl⟩
    · simp [denseOps, Dense.col, hj']
    · intro r hr
      obtain ⟨r0, hr0, rfl⟩ := List.mem_map.mp hr
      exact pick_singleton_length (by rw [h.1 r0 hr0]; exact hj')
    · intro r hr c hc
      obtain ⟨r0, hr0, rfl⟩ := List.mem_map.mp hr
      exact h.2 r0 hr0 c (mem_pick hc)
    · show List.replicate 1 () = Grid.pick (List.replicate d.numCols ()) [j]
      rw [pick_cons, pick_nil]
      simp [hj', Option.toList]
  catRows_spec := fun d0 ds h => by
    cases ds with
    | nil =>
      refine ⟨d0, rfl, (h d0 (List.mem_cons_self ..)).1, rfl, rfl, by simp⟩
    | cons d1 ds =>
      rw [Dense.catRows_cons_cons]
      have hall : (d0 :: d1 :: ds).all (fun d => d.numCols == d0.numCols && d.depth == d0.depth) = true := by
        rw [List.all_eq_true]
        intro d hd
        obtain ⟨_, ht, hc⟩ := h d hd
        have hc' : d.numCols = d0.numCols := by simpa using congrArg List.length hc
        have ht' : d.depth = d0.depth := ht
        simp [hc', ht']
      simp only [Dense.catRows, hall, if_true]
      refine ⟨_, rfl, ⟨?_, ?_⟩, rfl, rfl, rfl⟩
      · intro r hr
        obtain ⟨d, hd, hrd⟩ := List.mem_flatMap.mp hr
        obtain ⟨hw, _, hc⟩ := h d hd
        have hc' : d.numCols = d0.numCols := by simpa using congrArg List.length hc
        rw [← hc']; exact hw.1 r hrd
      · intro r hr c hc
        obtain ⟨d, hd, hrd⟩ := List.mem_flatMap.mp hr
        obtain ⟨hw, ht, _⟩ := h d hd
        have ht' : d.depth = d0.depth := ht
        show c.length = d0.depth.getD 1
        rw [← ht']; exact hw.2 r hrd c hc
  catCols_spec := fun d0 ds h => by
    have hrows : ∀ d ∈ d0 :: ds, ∀ r, r < d0.rows.length →
        (d.rows.getD r []).length = d.numCols ∧ ∀ c ∈ d.rows.getD r [], c.length = d0.depth.getD 1 := by
      intro d hd r hr
      obtain ⟨hw, ht, hl⟩ := h d hd
      have hl' : d.rows.length = d0.rows.length := hl
      have ht' : d.depth = d0.depth := ht
      have hr' : r < d.rows.length := by omega
      have hget : d.rows.getD r [] = d.rows[r] := by
        simp [List.getD_eq_getElem?_getD, List.getElem?_eq_getElem hr']
      rw [hget]
      have hm : d.rows[r] ∈ d.rows := List.getElem_mem hr'
      exact ⟨hw.1 _ hm, fun c hc => by rw [← ht']; exact hw.2 _ hm c hc⟩
    have hwfres : Dense.WF (⟨((d0 :: ds).map (·.numCols)).sum, d0.depth,
        (List.range d0.rows.length).map fun r => (d0 :: ds).flatMap fun d => d.rows.getD r []⟩ : Dense α) := by
      constructor
      · intro row hrow
        obtain ⟨r, hr, rfl⟩ := List.mem_map.mp hrow
        have hr' := List.mem_range.mp hr
        rw [List.length_flatMap]
        show _ = ((d0 :: ds).map (·.numCols)).sum
        congr 1
        apply List.map_congr_left
        intro d hd
        exact (hrows d hd r hr').1
      · intro row hrow c hc
        obtain ⟨r, hr, rfl⟩ := List.mem_map.mp hrow
        have hr' := List.mem_range.mp hr
        obtain ⟨d, hd, hcd⟩ := List.mem_flatMap.mp hc
        exact (hrows d hd r hr').2 c hcd
    cases ds with
    | nil =>
      have hw := (h d0 (List.mem_cons_self ..)).1
      refine ⟨d0, rfl, hw, rfl, rfl, by simp, ?_⟩
      show d0.rows = _
      simp only [List.flatMap_cons, List.flatMap_nil, List.append_nil]
      exact (range_map_getD d0.rows _ rfl).symm
    | cons d1 ds =>
      rw [Dense.catCols_cons_cons]
      have hall : (d0 :: d1 :: ds).all (fun d => d.rows.length == d0.rows.length && d.depth == d0.depth) = true := by
        rw [List.all_eq_true]
        intro d hd
        obtain ⟨_, ht, hl⟩ := h d hd
        have hl' : d.rows.length = d0.rows.length := hl
        have ht' : d.depth = d0.depth := ht
        simp [hl', ht']
      simp only [Dense.catCols, hall, if_true]
      refine ⟨_, rfl, hwfres, rfl, by simp [denseOps], ?_, rfl⟩
      exact (replicate_unit_flatMap (d0 :: d1 :: ds) (·.numCols)).symm
  close_iff := fun a b ha hb => by
    simp only [denseOps, Dense.close, Bool.and_eq_true, beq_iff_eq]
    rw [all2_iff_of (R := All2 (All2 fun x y => cl x y = true))
      (fun r1 r2 => all2_iff_of (R := All2 fun x y => cl x y = true) (fun c1 c2 => all2_iff cl c1 c2) r1 r2)]
    constructor
    · rintro ⟨⟨⟨_, h2⟩, h3⟩, h4⟩
      exact ⟨h3, by rw [h2], h4⟩
    · rintro ⟨h1, h2, h3⟩
      exact ⟨⟨⟨h3.length_eq, by simpa using congrArg List.length h2⟩, h1⟩, h3⟩

end TFVerif.TF

/-
Helper lemmas for the TensorFrame theorems (C07, C08) and the loader theorems (C10):
Python-list selection (`Grid.pick`), `Index.positions`, association lists, the frame invariant
`Frame.WF`, and the proof that dense tensors satisfy the feature specification `FeatSpec`.
-/
import TFVerif.Model.Frame

namespace TFVerif.TF
open TFVerif

/-! ### `Grid.pick` (Python `[xs[p] for p in ps]`) -/

theorem pick_nil (xs : List α) : Grid.pick xs [] = [] := rfl

theorem pick_cons (xs : List α) (p : Nat) (ps : List Nat) :
    Grid.pick xs (p :: ps) = (xs[p]?).toList ++ Grid.pick xs ps := by
  simp [Grid.pick]

theorem pick_append (xs : List α) (ps qs : List Nat) :
    Grid.pick xs (ps ++ qs) = Grid.pick xs ps ++ Grid.pick xs qs := by
  simp [Grid.pick]

theorem pick_flatten (xs : List α) (pss : List (List Nat)) :
    Grid.pick xs pss.flatten = pss.flatMap (Grid.pick xs) := by
  induction pss with
  | nil => rfl
  | cons ps pss ih => simp [pick_append, ih]

theorem pick_map (f : α → β) (xs : List α) (ps : List Nat) :
    Grid.pick (xs.map f) ps = (Grid.pick xs ps).map f := by
  induction ps with
  | nil => rfl
  | cons p ps ih =>
    rw [pick_cons, pick_cons, ih, List.map_append]
    congr 1
    rw [List.getElem?_map]
    cases xs[p]? <;> rfl

/-- every position is a valid index of an axis of length `n`. -/
def InRange (n : Nat) (ps : List Nat) : Prop := ∀ p ∈ ps, p < n

theorem InRange.tail {n p ps} (h : InRange n (p :: ps)) : InRange n ps :=
  fun q hq => h q (List.mem_cons_of_mem _ hq)

theorem pick_length (xs : List α) (ps : List Nat) (h : InRange xs.length ps) :
    (Grid.pick xs ps).length = ps.length := by
  induction ps with
  | nil => rfl
  | cons p ps ih =>
    have hp : p < xs.length := h p (List.mem_cons_self ..)
    rw [pick_cons, List.length_append, ih h.tail, List.getElem?_eq_getElem hp]
    simp [Option.toList]; omega

theorem getElem?_pick (xs : List α) (ps : List Nat) (h : InRange xs.length ps) (k : Nat) :
    (Grid.pick xs ps)[k]? = (ps[k]?).bind (xs[·]?) := by
  induction ps generalizing k with
  | nil => simp [pick_nil]
  | cons p ps ih =>
    have hp : p < xs.length := h p (List.mem_cons_self ..)
    rw [pick_cons, List.getElem?_eq_getElem hp]
    cases k with
    | zero => simp [Option.toList, List.getElem?_eq_getElem hp]
    | succ k => simpa [Option.toList] using ih h.tail k

theorem pick_opt_toList (xs : List α) (o : Option Nat) :
    Grid.pick xs o.toList = (o.bind (xs[·]?)).toList := by
  cases o <;> simp [Option.toList, pick_cons, pick_nil]

/-- selecting from a selection = selecting the composed positions (chains). -/
theorem pick_pick (xs : List α) (ps qs : List Nat) (h : InRange xs.length ps) :
    Grid.pick (Grid.pick xs ps) qs = Grid.pick xs (Grid.pick ps qs) := by
  induction qs with
  | nil => rfl
  | cons q qs ih =>
    rw [pick_cons, pick_cons, pick_append, ih, getElem?_pick xs ps h q, pick_opt_toList]

theorem pick_inRange (ps qs : List Nat) (n : Nat) (h : InRange n ps) : InRange n (Grid.pick ps qs) := by
  induction qs with
  | nil => intro p hp; simp [pick_nil] at hp
  | cons q qs ih =>
    intro p hp
    rw [pick_cons, List.mem_append] at hp
    rcases hp with hp | hp
    · cases hq : ps[q]? with
      | none => simp [hq, Option.toList] at hp
      | some v =>
        simp [hq, Option.toList] at hp
        subst hp
        exact h p (List.mem_of_getElem? hq)
    · exact ih p hp

theorem pick_range (xs : List α) : Grid.pick xs (List.range xs.length) = xs := by
  apply List.ext_getElem?
  intro k
  rw [getElem?_pick xs _ (fun p hp => List.mem_range.mp hp)]
  by_cases hk : k < xs.length
  · simp [List.getElem?_range hk]
  · have : (List.range xs.length)[k]? = none := by simp; omega
    rw [this]; simp; omega

theorem pick_range_of_length (xs : List α) (n : Nat) (h : xs.length = n) :
    Grid.pick xs (List.range n) = xs := by subst h; exact pick_range xs

theorem pick_length_le (xs : List α) (ps : List Nat) : (Grid.pick xs ps).length ≤ ps.length := by
  induction ps with
  | nil => simp [pick_nil]
  | cons p ps ih =>
    rw [pick_cons, List.length_append]
    cases xs[p]? <;> simp [Option.toList] <;> omega

/-! ### `Index.positions` -/

theorem normIndex_lt {n : Nat} {i : Int} {j : Nat} (h : normIndex n i = some j) : j < n := by
  unfold normIndex at h
  by_cases hi : i < 0 <;> simp [hi] at h <;> omega

theorem normIndices_spec {n : Nat} {is : List Int} {ps : List Nat} (h : normIndices n is = some ps) :
    InRange n ps ∧ ps.length = is.length := by
  induction is generalizing ps with
  | nil => simp [normIndices] at h; subst h; exact ⟨fun p hp => by simp at hp, rfl⟩
  | cons i is ih =>
    simp only [normIndices] at h
    cases hj : normIndex n i with
    | none => simp [hj] at h
    | some j =>
      cases hjs : normIndices n is with
      | none => simp [hj, hjs] at h
      | some js =>
        simp [hj, hjs] at h
        subst h
        obtain ⟨h1, h2⟩ := ih hjs
        refine ⟨?_, by simp [h2]⟩
        intro p hp
        rcases List.mem_cons.mp hp with hp | hp
        · subst hp; exact normIndex_lt hj
        · exact h1 p hp

theorem normIndices_singleton (n : Nat) (i : Int) :
    normIndices n [i] = (normIndex n i).map fun j => [j] := by
  simp only [normIndices]
  cases normIndex n i <;> rfl

theorem rangeStep_go_lt (b k fuel x : Nat) : ∀ p ∈ rangeStep.go b k fuel x, p < b := by
  induction fuel generalizing x with
  | zero => intro p hp; simp [rangeStep.go] at hp
  | succ fuel ih =>
    intro p hp
    simp only [rangeStep.go] at hp
    by_cases hx : x < b
    · simp [hx] at hp
      rcases hp with hp | hp
      · omega
      · exact ih _ p hp
    · simp [hx] at hp

theorem clampBound_le (n : Nat) (b : Option Int) (d : Nat) (hd : d ≤ n) : clampBound n b d ≤ n := by
  unfold clampBound
  cases b with
  | none => exact hd
  | some x =>
    simp only
    split
    · split <;> omega
    · split <;> omega

theorem slicePositions_lt (n : Nat) (a b : Option Int) (k : Nat) : InRange n (slicePositions n a b k) := by
  intro p hp
  unfold slicePositions sliceBounds rangeStep at hp
  simp only at hp
  have := rangeStep_go_lt _ _ _ _ p hp
  have h2 := clampBound_le n b n (Nat.le_refl n)
  omega

theorem maskPositions_go_lt (k : Nat) (bs : List Bool) : ∀ p ∈ maskPositions.go k bs, p < k + bs.length := by
  induction bs generalizing k with
  | nil => intro p hp; simp [maskPositions.go] at hp
  | cons b bs ih =>
    intro p hp
    simp only [maskPositions.go] at hp
    cases b
    · simp at hp
      have := ih (k + 1) p hp
      simp; omega
    · simp at hp
      rcases hp with hp | hp
      · simp; omega
      · have := ih (k + 1) p hp
        simp; omega

/-- every index expression selects valid positions only (or raises). -/
theorem positions_inRange {n : Nat} {ix : Index} {ps : List Nat} (h : ix.positions n = some ps) :
    InRange n ps := by
  cases ix with
  | int i =>
    simp only [Index.positions] at h
    cases hj : normIndex n i with
    | none => simp [hj] at h
    | some j =>
      simp [hj] at h; subst h
      intro p hp; simp at hp; subst hp; exact normIndex_lt hj
  | slice a b s =>
    cases s with
    | none => simp only [Index.positions] at h; cases h; exact slicePositions_lt _ _ _ _
    | some s =>
      simp only [Index.positions] at h
      by_cases hs : s ≤ 0
      · simp [hs] at h
      · simp [hs] at h; subst h; exact slicePositions_lt _ _ _ _
  | list is => exact (normIndices_spec (by simpa [Index.positions] using h)).1
  | mask bs =>
    simp only [Index.positions] at h
    by_cases hl : bs.length = n
    · simp [hl] at h; subst h
      intro p hp
      have := maskPositions_go_lt 0 bs p hp
      omega
    · simp [hl] at h

/-- `tf[i]` is `tf[[i]]`: both select the same positions. -/
theorem positions_intToList (n : Nat) (ix : Index) : (intToList ix).positions n = ix.positions n := by
  cases ix <;> simp [intToList, Index.positions, normIndices_singleton]

theorem positions_zero {ix : Index} {ps : List Nat} (h : ix.positions 0 = some ps) : ps = [] := by
  have := positions_inRange h
  cases ps with
  | nil => rfl
  | cons p ps => exact absurd (this p (List.mem_cons_self ..)) (by omega)

theorem dummyLen_of_positions {n : Nat} {ix : Index} {ps : List Nat} (h : ix.positions n = some ps) :
    dummyLen n ix = some ps.length := by
  cases ix with
  | list is =>
    have hs := normIndices_spec (by simpa [Index.positions] using h : normIndices n is = some ps)
    simp only [dummyLen]
    by_cases h0 : n = 0 ∧ is ≠ []
    · exfalso
      obtain ⟨h0, hne⟩ := h0
      subst h0
      have := positions_zero h
      subst this
      cases is with
      | nil => exact hne rfl
      | cons i is => simp at hs
    · simp [h0, hs.2]
  | int i => simp [dummyLen, h]
  | slice a b s => simp [dummyLen, h]
  | mask bs => simp [dummyLen, h]

theorem normIndices_ofNat (n : Nat) (b : List Nat) (h : InRange n b) :
    normIndices n (b.map Int.ofNat) = some b := by
  induction b with
  | nil => rfl
  | cons i b ih =>
    have hi : i < n := h i (List.mem_cons_self ..)
    have h1 : normIndex n (i : Int) = some i := by
      unfold normIndex
      have : ¬ ((i : Int) < 0) := by omega
      simp [this]; omega
    have h2 := ih h.tail
    simp only [List.map_cons, normIndices, Int.ofNat_eq_natCast] at h2 ⊢
    rw [h1, h2]; rfl

/-! ### association lists -/

theorem assoc_mem {k : String} {d : List (String × β)} {v : β} (h : assoc k d = some v) : (k, v) ∈ d := by
  induction d with
  | nil => simp [assoc] at h
  | cons kv d ih =>
    obtain ⟨k', v'⟩ := kv
    simp only [assoc] at h
    by_cases hk : k' = k
    · simp [hk] at h; subst h; subst hk; exact List.mem_cons_self ..
    · simp [hk] at h; exact List.mem_cons_of_mem _ (ih h)

theorem assoc_of_mem {k : String} {d : List (String × β)} {v : β} (hnd : (keys d).Nodup) (h : (k, v) ∈ d) :
    assoc k d = some v := by
  induction d with
  | nil => simp at h
  | cons kv d ih =>
    obtain ⟨k', v'⟩ := kv
    simp only [keys, List.map_cons, List.nodup_cons] at hnd
    simp only [assoc]
    rcases List.mem_cons.mp h with h | h
    · cases h; simp
    · have : k' ≠ k := by
        intro hk; subst hk
        exact hnd.1 (List.mem_map.mpr ⟨(k', v), h, rfl⟩)
      simp [this]; exact ih hnd.2 h

theorem assoc_none_iff {k : String} {d : List (String × β)} : assoc k d = none ↔ k ∉ keys d := by
  induction d with
  | nil => simp [assoc, keys]
  | cons kv d ih =>
    obtain ⟨k', v'⟩ := kv
    simp only [assoc, keys, List.map_cons, List.mem_cons, not_or]
    by_cases hk : k' = k
    · simp [hk]
    · simp only [hk, if_false]
      rw [ih]
      constructor
      · intro h; exact ⟨fun e => hk e.symm, h⟩
      · intro h; exact h.2

theorem assoc_isSome_iff {k : String} {d : List (String × β)} : (∃ v, assoc k d = some v) ↔ k ∈ keys d := by
  constructor
  · rintro ⟨v, h⟩
    exact List.mem_map.mpr ⟨(k, v), assoc_mem h, rfl⟩
  · intro h
    cases hv : assoc k d with
    | none => exact absurd h (assoc_none_iff.mp hv)
    | some v => exact ⟨v, rfl⟩

/-! ### pointwise relations -/

theorem all2_iff (r : α → β → Bool) (xs : List α) (ys : List β) :
    all2 r xs ys = true ↔ All2 (fun a b => r a b = true) xs ys := by
  induction xs generalizing ys with
  | nil => cases ys <;> simp [all2, All2]
  | cons x xs ih => cases ys <;> simp [all2, All2, ih]

theorem All2.length_eq {R : α → β → Prop} {xs : List α} {ys : List β} (h : All2 R xs ys) :
    xs.length = ys.length := by
  induction xs generalizing ys with
  | nil => cases ys <;> simp_all [All2]
  | cons x xs ih =>
    cases ys with
    | nil => simp [All2] at h
    | cons y ys => simp [All2] at h; simp [ih h.2]

theorem All2.get {R : α → β → Prop} {xs : List α} {ys : List β} (h : All2 R xs ys) {i : Nat} {x : α} {y : β}
    (hx : xs[i]? = some x) (hy : ys[i]? = some y) : R x y := by
  induction xs generalizing ys i with
  | nil => simp at hx
  | cons x' xs ih =>
    cases ys with
    | nil => simp [All2] at h
    | cons y' ys =>
      simp only [All2] at h
      cases i with
      | zero => simp at hx hy; subst hx; subst hy; exact h.1
      | succ i => simp at hx hy; exact ih h.2 hx hy

theorem All2.refl {R : α → α → Prop} (hR : ∀ a, R a a) (xs : List α) : All2 R xs xs := by
  induction xs with
  | nil => trivial
  | cons x xs ih => exact ⟨hR x, ih⟩

theorem All2.mono {R S : α → β → Prop} (hRS : ∀ a b, R a b → S a b) {xs : List α} {ys : List β}
    (h : All2 R xs ys) : All2 S xs ys := by
  induction xs generalizing ys with
  | nil => cases ys <;> simp_all [All2]
  | cons x xs ih =>
    cases ys with
    | nil => simp [All2] at h
    | cons y ys => exact ⟨hRS _ _ h.1, ih h.2⟩

/-! ### `mapOpt` -/

theorem mapOpt_eq_some_iff (f : α → Option β) (xs : List α) (ys : List β) :
    mapOpt f xs = some ys ↔ All2 (fun x y => f x = some y) xs ys := by
  induction xs generalizing ys with
  | nil => cases ys <;> simp [mapOpt, All2]
  | cons x xs ih =>
    simp only [mapOpt]
    cases hx : f x with
    | none => cases ys <;> simp [All2, hx]
    | some y =>
      cases hxs : mapOpt f xs with
      | none =>
        cases ys with
        | nil => simp [All2]
        | cons y' ys' =>
          simp only [All2, hx]
          constructor
          · intro h; cases h
          · rintro ⟨_, h2⟩; rw [← ih] at h2; rw [hxs] at h2; cases h2
      | some ys0 =>
        cases ys with
        | nil => simp [All2]
        | cons y' ys' =>
          simp only [All2, hx, Option.some.injEq, List.cons.injEq]
          rw [← ih, hxs]
          simp

theorem mapOpt_some_of_forall (f : α → Option β) (xs : List α) (h : ∀ x ∈ xs, ∃ y, f x = some y) :
    ∃ ys, mapOpt f xs = some ys := by
  induction xs with
  | nil => exact ⟨[], rfl⟩
  | cons x xs ih =>
    obtain ⟨y, hy⟩ := h x (List.mem_cons_self ..)
    obtain ⟨ys, hys⟩ := ih fun x hx => h x (List.mem_cons_of_mem _ hx)
    exact ⟨y :: ys, by simp [mapOpt, hy, hys]⟩

/-! ### row selection of a frame -/

section getitem
variable {Φ β κ τ ω : Type} {ops : FeatOps Φ} (spec : FeatSpec ops κ τ ω)

/-- the relation between `feat_dict` before and after `fn` was applied to every entry. -/
def FeatsSel (ops : FeatOps Φ) (ix : Index) (feats feats' : List (String × Φ)) : Prop :=
  All2 (fun a b => a.1 = b.1 ∧ ops.select a.2 ix = some b.2) feats feats'

theorem selectFeats_eq_some {ix : Index} {feats feats' : List (String × Φ)}
    (h : Frame.selectFeats ops ix feats = some feats') : FeatsSel ops ix feats feats' := by
  induction feats generalizing feats' with
  | nil => simp [Frame.selectFeats] at h; subst h; trivial
  | cons sφ rest ih =>
    obtain ⟨s, φ⟩ := sφ
    simp only [Frame.selectFeats] at h
    cases hφ : ops.select φ ix with
    | none => simp [hφ] at h
    | some φ' =>
      cases hr : Frame.selectFeats ops ix rest with
      | none => simp [hφ, hr] at h
      | some rest' =>
        simp [hφ, hr] at h
        subst h
        exact ⟨⟨rfl, hφ⟩, ih hr⟩

theorem selectFeats_some_of {ix : Index} {feats : List (String × Φ)}
    (h : ∀ s φ, (s, φ) ∈ feats → ∃ φ', ops.select φ ix = some φ') :
    ∃ feats', Frame.selectFeats ops ix feats = some feats' := by
  induction feats with
  | nil => exact ⟨[], rfl⟩
  | cons sφ rest ih =>
    obtain ⟨s, φ⟩ := sφ
    obtain ⟨φ', hφ⟩ := h s φ (List.mem_cons_self ..)
    obtain ⟨rest', hr⟩ := ih fun s φ hm => h s φ (List.mem_cons_of_mem _ hm)
    exact ⟨(s, φ') :: rest', by simp [Frame.selectFeats, hφ, hr]⟩

theorem selectFeats_none_of_head {ix : Index} {s : String} {φ : Φ} {rest : List (String × Φ)}
    (h : ops.select φ ix = none) : Frame.selectFeats ops ix ((s, φ) :: rest) = none := by
  simp [Frame.selectFeats, h]

theorem FeatsSel.keys_eq {ix : Index} {feats feats' : List (String × Φ)} (h : FeatsSel ops ix feats feats') :
    keys feats' = keys feats := by
  induction feats generalizing feats' with
  | nil => cases feats' <;> simp_all [FeatsSel, All2, keys]
  | cons a rest ih =>
    cases feats' with
    | nil => simp [FeatsSel, All2] at h
    | cons b rest' =>
      simp only [FeatsSel, All2] at h
      have := ih h.2
      simp only [keys, List.map_cons] at this ⊢
      rw [this, h.1.1]

theorem FeatsSel.assoc {ix : Index} {feats feats' : List (String × Φ)} (h : FeatsSel ops ix feats feats')
    {s : String} {φ : Φ} (hs : assoc s feats = some φ) :
    ∃ φ', TF.assoc s feats' = some φ' ∧ ops.select φ ix = some φ' := by
  induction feats generalizing feats' with
  | nil => simp [TF.assoc] at hs
  | cons a rest ih =>
    cases feats' with
    | nil => simp [FeatsSel, All2] at h
    | cons b rest' =>
      obtain ⟨k, v⟩ := a
      obtain ⟨k', v'⟩ := b
      simp only [FeatsSel, All2] at h
      obtain ⟨⟨hk, hv⟩, hrest⟩ := h
      subst hk
      simp only [TF.assoc] at hs ⊢
      by_cases hks : k = s
      · simp [hks] at hs ⊢; subst hs; exact hv
      · simp [hks] at hs ⊢; exact ih hrest hs

theorem FeatsSel.mem {ix : Index} {feats feats' : List (String × Φ)} (h : FeatsSel ops ix feats feats')
    {s : String} {φ' : Φ} (hs : (s, φ') ∈ feats') : ∃ φ, (s, φ) ∈ feats ∧ ops.select φ ix = some φ' := by
  induction feats generalizing feats' with
  | nil => cases feats' <;> simp_all [FeatsSel, All2]
  | cons a rest ih =>
    cases feats' with
    | nil => simp at hs
    | cons b rest' =>
      obtain ⟨k, v⟩ := a
      obtain ⟨k', v'⟩ := b
      simp only [FeatsSel, All2] at h
      obtain ⟨⟨hk, hv⟩, hrest⟩ := h
      rcases List.mem_cons.mp hs with hs | hs
      · cases hs; exact ⟨v, by rw [hk]; exact List.mem_cons_self .., hv⟩
      · obtain ⟨φ, hm, hsel⟩ := ih hrest hs
        exact ⟨φ, List.mem_cons_of_mem _ hm, hsel⟩

theorem FeatsSel.head {ix : Index} {feats feats' : List (String × Φ)} (h : FeatsSel ops ix feats feats') :
    feats = [] ↔ feats' = [] := by
  cases feats <;> cases feats' <;> simp_all [FeatsSel, All2]

/-- the frame produced by `__getitem__`, field by field. -/
theorem getitem_eq_some {f f' : Frame Φ β} {ix : Index} (h : f.getitem ops ix = some f') :
    FeatsSel ops (intToList ix) f.feats f'.feats ∧ f'.names = f.names ∧
    (match f.y with
     | none => f'.y = none
     | some y => ∃ y', selectList y (intToList ix) = some y' ∧ f'.y = some y') ∧
    (match f.numRowsOpt with
     | none => f'.numRowsOpt = none
     | some _ => ∃ k, dummyLen (f.numRows ops) (intToList ix) = some k ∧ f'.numRowsOpt = some k) := by
  unfold Frame.getitem at h
  simp only at h
  cases hfe : Frame.selectFeats ops (intToList ix) f.feats with
  | none => simp [hfe] at h
  | some feats =>
    simp only [hfe] at h
    have hsel := selectFeats_eq_some hfe
    cases hy : f.y with
    | none =>
      simp only [hy] at h
      cases hn : f.numRowsOpt with
      | none => simp only [hn] at h; cases h; exact ⟨hsel, rfl, rfl, rfl⟩
      | some n0 =>
        simp only [hn] at h
        cases hd : dummyLen (f.numRows ops) (intToList ix) with
        | none => simp [hd] at h
        | some k => simp [hd] at h; cases h; exact ⟨hsel, rfl, rfl, k, rfl, rfl⟩
    | some y =>
      simp only [hy] at h
      cases hsy : selectList y (intToList ix) with
      | none => simp [hsy] at h
      | some y' =>
        simp only [hsy, Option.map_some] at h
        cases hn : f.numRowsOpt with
        | none => simp only [hn] at h; cases h; exact ⟨hsel, rfl, ⟨y', hsy, rfl⟩, rfl⟩
        | some n0 =>
          simp only [hn] at h
          cases hd : dummyLen (f.numRows ops) (intToList ix) with
          | none => simp [hd] at h
          | some k => simp [hd] at h; cases h; exact ⟨hsel, rfl, ⟨y', hsy, rfl⟩, k, rfl, rfl⟩

/-- columns are untouched by a row selection (no hypothesis on the frame). -/
theorem getitem_names {f f' : Frame Φ β} {ix : Index} (h : f.getitem ops ix = some f') :
    f'.names = f.names ∧ keys f'.feats = keys f.feats := by
  obtain ⟨h1, h2, _, _⟩ := getitem_eq_some h
  exact ⟨h2, h1.keys_eq⟩

/-- Master lemma of C07: on a well-formed frame a selection that Python's list indexing accepts
    succeeds and every feature, the target and the reported length are the list selection. -/
theorem getitem_spec {f : Frame Φ β} {n : Nat} {ix : Index} {ps : List Nat}
    (hwf : f.WF spec n) (hps : ix.positions n = some ps) :
    ∃ f', f.getitem ops ix = some f' ∧ f'.WF spec ps.length ∧ f'.names = f.names ∧
      keys f'.feats = keys f.feats ∧
      (∀ s φ, assoc s f.feats = some φ → ∃ φ', assoc s f'.feats = some φ' ∧
        ops.select φ (intToList ix) = some φ' ∧
        spec.grid φ' = Grid.pick (spec.grid φ) ps ∧ spec.tag φ' = spec.tag φ ∧
        spec.colMeta φ' = spec.colMeta φ) ∧
      f'.y = f.y.map (Grid.pick · ps) := by
  have hps' : (intToList ix).positions n = some ps := by rw [positions_intToList]; exact hps
  have hin : InRange n ps := positions_inRange hps
  -- every feature accepts the index
  have hsel : ∀ s φ, (s, φ) ∈ f.feats → ∃ φ', ops.select φ (intToList ix) = some φ' := by
    intro s φ hm
    obtain ⟨hw, hl, _⟩ := hwf.feat_ok s φ hm
    cases hq : ops.select φ (intToList ix) with
    | none =>
      have := (spec.select_none φ (intToList ix) hw).mp hq
      rw [hl, hps'] at this; cases this
    | some φ' => exact ⟨φ', rfl⟩
  obtain ⟨feats', hfe⟩ := selectFeats_some_of hsel
  have hFS : FeatsSel ops (intToList ix) f.feats feats' := selectFeats_eq_some hfe
  -- what a selected feature looks like
  have hfeat : ∀ φ φ', spec.wf φ → ops.len φ = n → ops.select φ (intToList ix) = some φ' →
      spec.wf φ' ∧ spec.tag φ' = spec.tag φ ∧ spec.colMeta φ' = spec.colMeta φ ∧
      spec.grid φ' = Grid.pick (spec.grid φ) ps ∧ ops.len φ' = ps.length := by
    intro φ φ' hw hl hq
    obtain ⟨hw', ht, hc, qs, hqs, hg⟩ := spec.select_some φ (intToList ix) φ' hw hq
    rw [hl, hps'] at hqs
    cases hqs
    refine ⟨hw', ht, hc, hg, ?_⟩
    rw [← spec.grid_len φ' hw', hg, pick_length]
    rw [spec.grid_len φ hw, hl]; exact hin
  -- the target
  have hy : ∀ y, f.y = some y → selectList y (intToList ix) = some (Grid.pick y ps) := by
    intro y hy
    simp [selectList, hwf.y_ok y hy, hps']
  have hnr : f.numRows ops = n := hwf.nr_ok
  have hdl : dummyLen n (intToList ix) = some ps.length := dummyLen_of_positions hps'
  -- assemble the result
  let y' : Option (List β) := f.y.map (Grid.pick · ps)
  let nr' : Option Nat := f.numRowsOpt.map fun _ => ps.length
  refine ⟨{ feats := feats', names := f.names, y := y', numRowsOpt := nr' }, ?_, ?_, rfl, hFS.keys_eq, ?_, rfl⟩
  · unfold Frame.getitem
    simp only [hfe]
    cases hyv : f.y with
    | none =>
      cases hn : f.numRowsOpt with
      | none => simp [y', nr', hyv, hn]
      | some n0 => simp [y', nr', hyv, hn, hnr, hdl]
    | some y =>
      cases hn : f.numRowsOpt with
      | none => simp [y', nr', hyv, hn, hy y hyv]
      | some n0 => simp [y', nr', hyv, hn, hnr, hdl, hy y hyv]
  · constructor
    · show (keys feats').Nodup
      rw [hFS.keys_eq]; exact hwf.featKeys
    · exact hwf.nameKeys
    · intro s
      show s ∈ keys feats' ↔ s ∈ keys f.names
      rw [hFS.keys_eq]; exact hwf.sameKeys s
    · intro s φ' hm
      obtain ⟨φ, hmφ, hq⟩ := hFS.mem hm
      obtain ⟨hw, hl, ns, hns, hlen, hne⟩ := hwf.feat_ok s φ hmφ
      obtain ⟨hw', _, hc, _, hl'⟩ := hfeat φ φ' hw hl hq
      exact ⟨hw', hl', ns, hns, by rw [hc]; exact hlen, hne⟩
    · intro y hyv
      change f.y.map (Grid.pick · ps) = some y at hyv
      cases hy0 : f.y with
      | none => simp [hy0] at hyv
      | some y0 =>
        simp [hy0] at hyv; subst hyv
        rw [pick_length]; rw [hwf.y_ok y0 hy0]; exact hin
    · show Frame.numRows ops { feats := feats', names := f.names, y := y', numRowsOpt := nr' } = ps.length
      unfold Frame.numRows
      cases hn : f.numRowsOpt with
      | some n0 => simp [nr', hn]
      | none =>
        simp only [nr', hn, Option.map_none]
        cases hf : f.feats with
        | nil =>
          have : feats' = [] := (hFS.head).mp hf
          have h0 : n = 0 := by rw [← hnr]; simp [Frame.numRows, hn, hf]
          subst h0
          rw [positions_zero hps]; simp [this]
        | cons a rest =>
          obtain ⟨s, φ⟩ := a
          cases hf' : feats' with
          | nil => rw [hf, hf'] at hFS; simp [FeatsSel, All2] at hFS
          | cons b rest' =>
            obtain ⟨s', φ'⟩ := b
            rw [hf, hf'] at hFS
            simp only [FeatsSel, All2] at hFS
            have hm : (s, φ) ∈ f.feats := by rw [hf]; exact List.mem_cons_self ..
            obtain ⟨hw, hl, _⟩ := hwf.feat_ok s φ hm
            exact (hfeat φ φ' hw hl hFS.1.2).2.2.2.2
  · intro s φ hs
    obtain ⟨φ', h1, h2⟩ := hFS.assoc hs
    obtain ⟨hw, hl, _⟩ := hwf.feat_ok s φ (assoc_mem hs)
    obtain ⟨_, ht, hc, hg, _⟩ := hfeat φ φ' hw hl h2
    exact ⟨φ', h1, h2, hg, ht, hc⟩

end getitem

end TFVerif.TF

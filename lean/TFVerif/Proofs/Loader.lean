/-
Helper lemmas for the loader theorems (C10): PyTorch's batch sampler loop cuts the sampler order
into consecutive chunks, and collation is the row selection of C07.
-/
import TFVerif.Model.Loader
import TFVerif.Proofs.Frame

namespace TFVerif.Loader
open TFVerif TFVerif.TF

/-- without `drop_last` the batches, concatenated, are the pending batch followed by the order. -/
theorem batchLoop_flatten_keep (bs : Nat) (order batch : List Nat) :
    (batchLoop bs false order batch).flatten = batch ++ order := by
  induction order generalizing batch with
  | nil =>
    simp only [batchLoop]
    cases batch with
    | nil => simp
    | cons b bt => simp
  | cons i rest ih =>
    simp only [batchLoop]
    by_cases h : (batch ++ [i]).length = bs
    · simp only [h, if_true, List.flatten_cons, ih]; simp
    · simp only [h, if_false, ih]; simp

/-- with `drop_last` they are its longest prefix whose length is a multiple of `bs`. -/
theorem batchLoop_flatten_drop (bs : Nat) (order batch : List Nat) (hb : batch.length < bs) :
    (batchLoop bs true order batch).flatten =
      (batch ++ order).take (((batch.length + order.length) / bs) * bs) := by
  induction order generalizing batch with
  | nil =>
    simp only [batchLoop]
    have : batch.length / bs = 0 := Nat.div_eq_of_lt hb
    simp [this]
  | cons i rest ih =>
    simp only [batchLoop]
    by_cases h : (batch ++ [i]).length = bs
    · simp only [h, if_true, List.flatten_cons]
      have hpos : 0 < bs := by omega
      rw [ih [] (by simpa using hpos)]
      have hl : batch.length + 1 = bs := by simpa using h
      have e1 : (batch.length + (i :: rest).length) / bs = rest.length / bs + 1 := by
        have : batch.length + (i :: rest).length = rest.length + bs := by simp; omega
        rw [this, Nat.add_div_right _ hpos]
      rw [e1]
      have e2 : (rest.length / bs + 1) * bs = (batch ++ [i]).length + rest.length / bs * bs := by
        rw [h, Nat.add_mul]; omega
      rw [e2]
      have e3 : batch ++ i :: rest = (batch ++ [i]) ++ rest := by simp
      rw [e3, List.take_length_add_append]
      simp
    · simp only [h, if_false]
      have hlt : (batch ++ [i]).length < bs := by
        have : (batch ++ [i]).length = batch.length + 1 := by simp
        omega
      rw [ih (batch ++ [i]) hlt]
      have e1 : (batch ++ [i]).length + rest.length = batch.length + (i :: rest).length := by simp; omega
      rw [e1]
      simp

/-- every batch is full except possibly one shorter, non-empty last batch, which `drop_last`
    removes. -/
theorem batchLoop_sizes (bs : Nat) (dl : Bool) (order batch : List Nat) (hb : batch.length < bs) :
    ∃ full last, batchLoop bs dl order batch = full ++ last ∧ (∀ b ∈ full, b.length = bs) ∧
      (last = [] ∨ (dl = false ∧ ∃ b, last = [b] ∧ 1 ≤ b.length ∧ b.length < bs)) := by
  induction order generalizing batch with
  | nil =>
    simp only [batchLoop]
    by_cases h : batch.length > 0 ∧ dl = false
    · rw [if_pos h]
      exact ⟨[], [batch], rfl, by simp, Or.inr ⟨h.2, batch, rfl, h.1, hb⟩⟩
    · rw [if_neg h]
      exact ⟨[], [], rfl, by simp, Or.inl rfl⟩
  | cons i rest ih =>
    simp only [batchLoop]
    by_cases h : (batch ++ [i]).length = bs
    · simp only [h, if_true]
      obtain ⟨full, last, he, hf, hl⟩ := ih [] (by simp; omega)
      refine ⟨(batch ++ [i]) :: full, last, by rw [he]; rfl, ?_, hl⟩
      intro b hb'
      rcases List.mem_cons.mp hb' with hb' | hb'
      · subst hb'; exact h
      · exact hf b hb'
    · simp only [h, if_false]
      exact ih (batch ++ [i]) (by
        have : (batch ++ [i]).length = batch.length + 1 := by simp
        omega)

/-- the index batches of an epoch concatenate to the sampler order, or with `drop_last` to its
    longest prefix of a length divisible by the batch size. -/
theorem batches_flatten {order : List Nat} {bs : Option Nat} {dl : Bool} {bss : List (List Nat)}
    (h : batches order bs dl = some bss) :
    bss.flatten = match bs with
      | none => order
      | some b => if dl then order.take ((order.length / b) * b) else order := by
  cases bs with
  | none =>
    simp only [batches] at h
    cases dl with
    | true => simp at h
    | false =>
      simp at h; subst h
      simp only
      induction order with
      | nil => rfl
      | cons i rest ih => simp [ih]
  | some b =>
    cases b with
    | zero => simp [batches] at h
    | succ b =>
      simp only [batches, Option.some.injEq] at h
      subst h
      cases dl with
      | true =>
        simp only [if_true]
        simpa using batchLoop_flatten_drop (b + 1) order [] (by simp)
      | false =>
        simpa using batchLoop_flatten_keep (b + 1) order []

theorem take_subset_mem {xs : List Nat} {k i : Nat} (h : i ∈ xs.take k) : i ∈ xs :=
  List.mem_of_mem_take h

/-- every index of every batch comes from the sampler order. -/
theorem batches_mem {order : List Nat} {bs : Option Nat} {dl : Bool} {bss : List (List Nat)}
    (h : batches order bs dl = some bss) {b : List Nat} (hb : b ∈ bss) {i : Nat} (hi : i ∈ b) : i ∈ order := by
  have hfl : i ∈ bss.flatten := List.mem_flatten.mpr ⟨b, hb, hi⟩
  rw [batches_flatten h] at hfl
  cases bs with
  | none => exact hfl
  | some k =>
    simp only at hfl
    cases dl with
    | true => simp only [if_true] at hfl; exact take_subset_mem hfl
    | false => simpa using hfl

section collate
variable {Φ β κ τ ω : Type} {ops : FeatOps Φ} (spec : FeatSpec ops κ τ ω)

/-- collation of an index batch whose entries are valid rows is the row selection of C07. -/
theorem collate_spec {f : Frame Φ β} {n : Nat} (hwf : f.WF spec n) (bs : Option Nat) {b : List Nat}
    (hb : InRange n b) : ∃ fr, collate ops f bs b = some fr ∧ IsSel spec f b fr := by
  have key : ∀ ix : Index, ix.positions n = some b →
      ∃ fr, f.getitem ops ix = some fr ∧ IsSel spec f b fr := by
    intro ix hix
    obtain ⟨p, hp, h1, h2, h3, h4, h5⟩ := getitem_spec spec hwf hix
    refine ⟨p, hp, h1, h2, h3, ?_, h5⟩
    intro s φ hs
    obtain ⟨φ', a, _, c, d, e⟩ := h4 s φ hs
    exact ⟨φ', a, c, d, e⟩
  have hlist : (Index.list (b.map Int.ofNat)).positions n = some b := by
    simp only [Index.positions]; exact normIndices_ofNat n b hb
  unfold collate
  split
  · rename_i i
    apply key
    have hi : i < n := hb i (List.mem_cons_self ..)
    have h1 : normIndex n (i : Int) = some i := by
      unfold normIndex
      have : ¬ ((i : Int) < 0) := by omega
      simp [this]; omega
    simp [Index.positions, h1]
  · exact key _ hlist

/-- `list(loader)`: every batch frame is the selection of its index batch from the source frame. -/
theorem epoch_spec {f : Frame Φ β} {n : Nat} (hwf : f.WF spec n) {order : List Nat} (horder : InRange n order)
    {bs : Option Nat} {dl : Bool} {bss : List (List Nat)} (hb : batches order bs dl = some bss) :
    ∃ frames, epoch ops f order bs dl = some frames ∧ All2 (IsSel spec f) bss frames := by
  unfold epoch
  rw [hb]
  simp only [Option.bind_some, collateAll]
  have hin : ∀ b ∈ bss, InRange n b := fun b hbm i hi => horder i (batches_mem hb hbm hi)
  clear hb
  induction bss with
  | nil => exact ⟨[], rfl, trivial⟩
  | cons b bss ih =>
    obtain ⟨fr, hfr, hsel⟩ := collate_spec spec hwf bs (hin b (List.mem_cons_self ..))
    obtain ⟨frs, hfrs, hall⟩ := ih fun b' hb' => hin b' (List.mem_cons_of_mem _ hb')
    exact ⟨fr :: frs, by simp [mapOpt, hfr, hfrs], hsel, hall⟩

end collate

end TFVerif.Loader

/-
Helper lemmas for C16: a tokenizer's per-sentence mappings are KEYED — the order in which a mapping lists its keys
is irrelevant to the assembled token tensors.
-/
import TFVerif.Proofs.Chunk

namespace TFVerif.Chunk

theorem lookup_perm {β : Type} {l l' : List (Key × β)} (h : l.Perm l') (hn : (l.map Prod.fst).Nodup) (k : Key) :
    l.lookup k = l'.lookup k := by
  induction h with
  | nil => rfl
  | cons a _ ih =>
    obtain ⟨ak, av⟩ := a
    simp only [List.map_cons, List.nodup_cons] at hn
    simp only [List.lookup_cons]
    cases (k == ak) <;> simp [ih hn.2]
  | swap a b l =>
    obtain ⟨ak, av⟩ := a
    obtain ⟨bk, bv⟩ := b
    simp only [List.map_cons, List.nodup_cons, List.mem_cons, not_or] at hn
    have hab : bk ≠ ak := hn.1.1
    simp only [List.lookup_cons]
    cases hka : (k == ak) <;> cases hkb : (k == bk) <;> simp_all
  | trans h1 _ ih1 ih2 =>
    rw [ih1 hn]
    exact ih2 ((h1.map Prod.fst).nodup_iff.mp hn)

theorem traverse_congr_mem {α β : Type} (f g : α → Option β) (l : List α) (h : ∀ x ∈ l, f x = g x) :
    traverse f l = traverse g l := by
  induction l with
  | nil => rfl
  | cons x xs ih =>
    simp only [traverse, h x (List.mem_cons_self ..), ih fun y hy => h y (List.mem_cons_of_mem _ hy)]

theorem traverse_map_comp {α β γ : Type} (f : β → Option γ) (σ : α → β) (l : List α) :
    traverse f (l.map σ) = traverse (fun x => f (σ x)) l := by
  induction l with
  | nil => rfl
  | cons x xs ih => simp only [List.map_cons, traverse, ih]

/-- the per-key gather over sentences only depends on each sentence's mapping as a keyed map: re-ordering the
    entries of every sentence's mapping (`σ`) changes nothing -/
theorem gather_reorder {V : Type} (ds : List (List (Key × List V))) (σ : List (Key × List V) → List (Key × List V))
    (h : ∀ d ∈ ds, (σ d).Perm d ∧ (d.map Prod.fst).Nodup) (k : Key) :
    traverse (fun (d : List (Key × List V)) => d.lookup k) (ds.map σ) = traverse (fun d => d.lookup k) ds := by
  rw [traverse_map_comp]
  apply traverse_congr_mem
  intro d hd
  exact (lookup_perm (h d hd).1.symm (h d hd).2 k).symm

end TFVerif.Chunk

namespace TFVerif.Chunk

/-- re-order the entries of every per-sentence mapping of a tokenizer output -/
def reorderOut {V : Type} (σ : List (Key × List V) → List (Key × List V)) : TokOut V → TokOut V
  | .mapping m => .mapping m
  | .sentences l => .sentences (l.map σ)

/-- what `σ` must satisfy on an output: every sentence's mapping has distinct keys and is only permuted -/
def ReordersOnly {V : Type} (σ : List (Key × List V) → List (Key × List V)) : TokOut V → Prop
  | .mapping _ => True
  | .sentences l => ∀ d ∈ l, (σ d).Perm d ∧ (d.map Prod.fst).Nodup

theorem gather_cons_reorder {V : Type} (d0 : List (Key × List V)) (ds : List (List (Key × List V)))
    (σ : List (Key × List V) → List (Key × List V))
    (h : ∀ d ∈ ds, (σ d).Perm d ∧ (d.map Prod.fst).Nodup) (k : Key) :
    traverse (fun (d : List (Key × List V)) => d.lookup k) (d0 :: ds.map σ)
      = traverse (fun d => d.lookup k) (d0 :: ds) := by
  simp only [traverse, gather_reorder ds σ h k]

theorem assembleUnbatched_reorder {V : Type} (d0 : List (Key × List V)) (ds : List (List (Key × List V)))
    (σ : List (Key × List V) → List (Key × List V))
    (h : ∀ d ∈ ds, (σ d).Perm d ∧ (d.map Prod.fst).Nodup) :
    assembleUnbatched (.sentences (d0 :: ds.map σ)) = assembleUnbatched (.sentences (d0 :: ds)) := by
  simp only [assembleUnbatched]
  apply traverse_congr_mem
  intro k _
  rw [gather_cons_reorder d0 ds σ h k]

/-- the contribution of one chunk's output to key `k` in the "list of per-sentence mappings" format -/
def sentPart {V : Type} (k : Key) (o : TokOut V) : Option (List (List V)) :=
  match o with
  | .sentences l => traverse (fun (d : List (Key × List V)) => d.lookup k) l
  | .mapping _ => none

theorem assembleBatched_sentPart {V : Type} (d0 : List (Key × List V)) (l0 : List (List (Key × List V)))
    (outs : List (TokOut V)) :
    assembleBatched (.sentences (d0 :: l0) :: outs)
      = traverse (fun k => (traverse (sentPart k) (.sentences (d0 :: l0) :: outs)).map fun parts => (k, parts.flatten))
          (d0.map Prod.fst) := rfl

theorem sentPart_reorder {V : Type} (σ : List (Key × List V) → List (Key × List V)) (o : TokOut V)
    (h : ReordersOnly σ o) (k : Key) : sentPart k (reorderOut σ o) = sentPart k o := by
  cases o with
  | mapping m => rfl
  | sentences l => exact gather_reorder l σ h k

theorem assembleBatched_reorder {V : Type} (d0 : List (Key × List V)) (l0 : List (List (Key × List V)))
    (outs : List (TokOut V)) (σ : List (Key × List V) → List (Key × List V))
    (h0 : ∀ d ∈ l0, (σ d).Perm d ∧ (d.map Prod.fst).Nodup) (h : ∀ o ∈ outs, ReordersOnly σ o) :
    assembleBatched (.sentences (d0 :: l0.map σ) :: outs.map (reorderOut σ))
      = assembleBatched (.sentences (d0 :: l0) :: outs) := by
  rw [assembleBatched_sentPart, assembleBatched_sentPart]
  apply traverse_congr_mem
  intro k _
  congr 1
  have hd : sentPart k (.sentences (d0 :: l0.map σ)) = sentPart k (.sentences (d0 :: l0)) :=
    gather_cons_reorder d0 l0 σ h0 k
  have tl : traverse (sentPart k) (outs.map (reorderOut σ)) = traverse (sentPart k) outs := by
    rw [traverse_map_comp]
    exact traverse_congr_mem _ _ outs (fun o ho => sentPart_reorder σ o (h o ho) k)
  simp only [traverse, hd, tl]

end TFVerif.Chunk

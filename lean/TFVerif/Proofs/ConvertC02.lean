/-
Helper lemmas for C02 (positional materialization, canonical schema):
  * no mapper and no statistic reads the index labels (only how many there are);
  * Python-dict equality of association lists (`DictEq`), `_merge_feat` and the canonical name table respect it;
  * one converter call is invariant under dict-equal inputs (column order of the frame / of `col_to_stype`);
  * closed form of the merged canonical name table.
-/
import TFVerif.Proofs.Convert

namespace TFVerif

namespace Mat

/-! ### labels are never consulted -/

theorem zip_map_snd_take (ls : List L) (cs : List α) : (ls.zip cs).map (·.2) = cs.take ls.length := by
  induction ls generalizing cs with
  | nil => simp
  | cons l ls ih =>
    cases cs with
    | nil => simp
    | cons c cs => simp [ih]

theorem categoricalForward_labels (cats : List Key) (ls : List L) (ls' : List L') (cells : List (Cell F))
    (h : ls.length = ls'.length) : categoricalForward cats ls cells = categoricalForward cats ls' cells := by
  have key : ∀ (L₀ : Type) (l₀ : List L₀), categoricalForward cats l₀ cells =
      ((cells.map cellKey).take l₀.length).map fun k =>
        match k.bind (Pd.lookup cats.zipIdx) with
        | some i => [(Val.int i : Val F)]
        | none => [Val.int (-1)] := by
    intro L₀ l₀
    rw [← zip_map_snd_take l₀ (cells.map cellKey)]
    simp only [categoricalForward, Pd.mergeLeft, List.map_map]
    apply List.map_congr_left
    intro p _
    rfl
  rw [key L ls, key L' ls', h]

theorem resetIndex_labels_irrelevant (ls : List L) (ls' : List L') (cells : List α) (h : ls.length = ls'.length) :
    Pd.resetIndex (ls.zip cells) = Pd.resetIndex (ls'.zip cells) := by
  have e1 := zip_map_snd_take ls cells
  have e2 := zip_map_snd_take ls' cells
  simp only [Pd.resetIndex, List.length_zip]
  rw [show (ls.zip cells).map (fun x => x.2) = cells.take ls.length from e1,
      show (ls'.zip cells).map (fun x => x.2) = cells.take ls'.length from e2, h]

theorem multicatForward_labels (cats : List Key) (ls : List L) (ls' : List L') (cells : List (Cell F))
    (h : ls.length = ls'.length) : multicatForward cats ls cells = multicatForward cats ls' cells := by
  simp only [multicatForward, resetIndex_labels_irrelevant ls ls' cells h]

/-- `Dataset`-level EMB_DIM reads the first non-missing vector BY POSITION -/
theorem embDim_eq_take (ls : List L) (cells : List (Cell F)) :
    embDim ls cells = match ((cells.take ls.length).filter fun c => !c.isMissing).head? with
      | some c => ((cellVec c).length : Int)
      | none => -1 := by
  rw [← zip_map_snd_take ls cells]
  simp only [embDim, Pd.iloc0, List.filter_map, List.head?_map]
  cases h : ((ls.zip cells).filter ((fun c => !c.isMissing) ∘ fun x => x.2)).head? with
  | none =>
    have : ((ls.zip cells).filter fun p => !p.2.isMissing).head? = none := h
    simp [this]
  | some p =>
    have : ((ls.zip cells).filter fun p => !p.2.isMissing).head? = some p := h
    simp [this]

theorem embDim_labels (ls : List L) (ls' : List L') (cells : List (Cell F)) (h : ls.length = ls'.length) :
    embDim ls cells = embDim ls' cells := by
  rw [embDim_eq_take, embDim_eq_take, h]

/-- no mapper reads the index labels of the Series it is given -/
theorem forward_labels (cfg : ColCfg F) (s : Stype) (ls : List L) (ls' : List L') (cells : List (Cell F))
    (h : ls.length = ls'.length) : forward cfg s ls cells = forward cfg s ls' cells := by
  cases s <;> simp only [forward, categoricalForward_labels _ ls ls' cells h, multicatForward_labels _ ls ls' cells h]

theorem mapCol_withLabels (cv : Conv F) (df : DF L F) (ls : List L') (h : ls.length = df.labels.length) (c : String) :
    cv.mapCol (df.withLabels ls) c = cv.mapCol df c := by
  simp only [Conv.mapCol, DF.col?, DF.withLabels]
  cases df.cols.find? (·.name == c) with
  | none => rfl
  | some col => simp only [Option.map_some, forward_labels _ _ ls df.labels col.cells h]

theorem yOf_withLabels (cv : Conv F) (df : DF L F) (ls : List L') (h : ls.length = df.labels.length) :
    cv.yOf (df.withLabels ls) = cv.yOf df := by
  unfold Conv.yOf
  cases cv.target with
  | none => rfl
  | some t => exact mapCol_withLabels cv df ls h t

theorem call_withLabels (cv : Conv F) (df : DF L F) (ls : List L') (h : ls.length = df.labels.length) :
    cv.call (df.withLabels ls) = cv.call df := by
  simp only [Conv.call, mapCol_withLabels cv df ls h, yOf_withLabels cv df ls h]

theorem fitStats_withLabels (vc : String → List Key → List Key) (t : Option String) (df : DF L F) (ls : List L')
    (h : ls.length = df.labels.length) : fitStats vc t (df.withLabels ls) = fitStats vc t df := by
  simp only [fitStats, DF.withLabels]
  apply List.map_congr_left
  intro c _
  rw [embDim_labels ls df.labels c.cells h]

theorem materialize_withLabels (vc : String → List Key → List Key) (t : Option String)
    (emb : String → String → List (Val F)) (df : DF L F) (ls : List L') (h : ls.length = df.labels.length) :
    materialize vc t emb (df.withLabels ls) = materialize vc t emb df := by
  simp only [materialize, materializeWith, fitStats_withLabels vc t df ls h, call_withLabels _ df ls h]
  rfl

/-! ### Python-dict equality of association lists -/

/-- two association lists denote the same Python dict (same value under every key) -/
def DictEq [DecidableEq κ] (d d' : List (κ × ν)) : Prop := ∀ k, dictGet d k = dictGet d' k

theorem DictEq.symm [DecidableEq κ] {d d' : List (κ × ν)} (h : DictEq d d') : DictEq d' d := fun k => (h k).symm

theorem dictGet_dictErase [DecidableEq κ] (d : List (κ × ν)) (k k' : κ) :
    dictGet (dictErase d k) k' = if k = k' then none else dictGet d k' := by
  induction d with
  | nil => simp [dictErase, dictGet]
  | cons q rest ih =>
    obtain ⟨k₀, v₀⟩ := q
    have hc : dictErase ((k₀, v₀) :: rest) k = if k₀ = k then dictErase rest k else (k₀, v₀) :: dictErase rest k := by
      by_cases hk : k₀ = k <;> simp [dictErase, hk]
    rw [hc]
    by_cases hk : k₀ = k
    · rw [if_pos hk, ih]
      by_cases hk' : k = k'
      · simp [hk']
      · have : ¬ k₀ = k' := fun e => hk' (hk ▸ e)
        simp [hk', dictGet, this]
    · rw [if_neg hk]
      simp only [dictGet, ih]
      by_cases hk' : k₀ = k'
      · have : ¬ k = k' := fun e => hk (hk'.trans e.symm)
        simp [hk', this]
      · simp [hk']

theorem dictGet_perm_nodup [DecidableEq κ] (d d' : List (κ × ν)) (hp : d.Perm d') (hnd : (d.map (·.1)).Nodup)
    (k : κ) : dictGet d k = dictGet d' k := by
  have hnd' : (d'.map (·.1)).Nodup := (hp.map _).nodup_iff.mp hnd
  cases h : dictGet d k with
  | some v => exact (dictGet_of_mem_nodup d' k v (hp.mem_iff.mp (mem_of_dictGet d k v h)) hnd').symm
  | none =>
    have hk : k ∉ d.map (·.1) := (dictGet_none_iff d k).mp h
    have hk' : k ∉ d'.map (·.1) := fun hm => hk ((hp.map _).mem_iff.mpr hm)
    exact ((dictGet_none_iff d' k).mpr hk').symm

/-- the group stored under a key, `[]` when the key is absent -/
def groupD (names : List (Stype × List String)) (s : Stype) : List String := (dictGet names s).getD []

/-- what one step of `_merge_feat` does to the name table, key by key -/
theorem dictGet_mergeNamesStep (names : List (Stype × List String)) (s k : Stype) (hs : s.parent ≠ s) :
    dictGet (mergeNamesStep names s) k =
      match dictGet names s with
      | none => dictGet names k
      | some cs => if k = s then none else if k = s.parent then some (groupD names s.parent ++ cs) else dictGet names k := by
  unfold mergeNamesStep
  simp only [hs, if_false]
  cases hcs : dictGet names s with
  | none => rfl
  | some cs =>
    simp only
    rw [dictGet_dictErase, dictGet_dictSet]
    by_cases h1 : k = s
    · subst h1; simp
    · have h1' : ¬ s = k := fun e => h1 e.symm
      by_cases h2 : k = s.parent
      · subst h2; simp [h1, h1', groupD]
      · have h2' : ¬ s.parent = k := fun e => h2 e.symm
        simp [h1, h1', h2, h2']

theorem mergeNamesStep_dictEq (a b : List (Stype × List String)) (h : DictEq a b) (s : Stype) :
    DictEq (mergeNamesStep a s) (mergeNamesStep b s) := by
  intro k
  by_cases hs : s.parent = s
  · rw [mergeNamesStep_noop_parent a s hs, mergeNamesStep_noop_parent b s hs]; exact h k
  · rw [dictGet_mergeNamesStep a s k hs, dictGet_mergeNamesStep b s k hs]
    simp only [groupD, h s, h k, h s.parent]

theorem mergeNames_dictEq (a b : List (Stype × List String)) (h : DictEq a b) :
    DictEq (mergeNames a) (mergeNames b) := by
  unfold mergeNames
  generalize childOrder = l
  induction l generalizing a b with
  | nil => exact h
  | cons s rest ih => exact ih _ _ (mergeNamesStep_dictEq a b h s)

theorem groupOf_perm (c2s c2s' : List (String × Stype)) (hp : c2s'.Perm c2s) (t : Option String) (s : Stype) :
    (groupOf c2s' t s).Perm (groupOf c2s t s) := by
  unfold groupOf
  exact (hp.filter _).map _

theorem optL_perm (a b : List String) (hp : a.Perm b) : (optL a).map sortNames = (optL b).map sortNames := by
  unfold optL
  by_cases ha : a = []
  · have hb : b = [] := by subst ha; exact List.Perm.eq_nil hp.symm
    simp [ha, hb]
  · have hb : b ≠ [] := by
      intro e; subst e; exact ha (List.Perm.eq_nil hp)
    simp [ha, hb, sortNames_perm_eq a b hp]

/-- the canonical name table does not depend on the order in which `col_to_stype` lists the columns -/
theorem colNamesDict_perm (c2s c2s' : List (String × Stype)) (hp : c2s'.Perm c2s) (t : Option String) :
    DictEq (colNamesDict c2s' t) (colNamesDict c2s t) := by
  intro s
  rw [dictGet_colNamesDict, dictGet_colNamesDict]
  exact optL_perm _ _ (groupOf_perm c2s c2s' hp t s)

/-! ### one converter call only depends on its inputs as dicts -/

theorem listed_of_dictEq (a b : List (Stype × List String)) (h : DictEq b a) (hk : (a.map (·.1)).Nodup)
    (name : String) (hl : ∃ g ∈ a, name ∈ g.2) : ∃ g ∈ b, name ∈ g.2 := by
  obtain ⟨g, hg, hn⟩ := hl
  have h1 : dictGet a g.1 = some g.2 := dictGet_of_mem_nodup a g.1 g.2 hg hk
  rw [← h g.1] at h1
  exact ⟨(g.1, g.2), mem_of_dictGet b g.1 g.2 h1, hn⟩

/-- Two converters whose name tables are equal AS DICTS, applied to frames that give the same encoded
    columns and the same target, return frames with dict-equal `col_names_dict` and `feat_dict` (every
    per-stype feature tensor is equal), the same `y`, dict-equal states, and equal cells under every name. -/
theorem call_dictEq (cv cv' : Conv F) (df : DF L F) (df' : DF L' F) (n : Nat)
    (hok : CallOK cv df n) (hok' : CallOK cv' df' n)
    (hnames : DictEq cv'.names cv.names) (hspec : ∀ name, specCol cv' df' name = specCol cv df name)
    (hy : cv'.yOf df' = cv.yOf df) :
    ∃ tf cv1 tf' cv1', cv.call df = some (tf, cv1) ∧ cv'.call df' = some (tf', cv1') ∧
      DictEq tf'.names tf.names ∧ DictEq tf'.feats tf.feats ∧ tf'.y = tf.y ∧ DictEq cv1'.names cv1.names ∧
      (∀ name i, (∃ g ∈ cv.names, name ∈ g.2) → i < n → tf'.cell name i = tf.cell name i) := by
  have hm := mergeNames_dictEq _ _ hnames
  have hsc : specCol cv' df' = specCol cv df := funext hspec
  refine ⟨_, _, _, _, call_spec cv df n hok, call_spec cv' df' n hok', hm, ?_, hy, hm, ?_⟩
  · intro s
    have hg : specG cv' df' n s = specG cv df n s := by
      funext cols
      simp only [specG, hsc]
    simp only [dictGet_mapG, hm s, hg]
  · intro name i hl hi
    obtain ⟨tf, cv1, hc, _, _, hcell⟩ := call_cell cv df n hok name hl i hi
    obtain ⟨tf', cv1', hc', _, _, hcell'⟩ := call_cell cv' df' n hok' name
      (listed_of_dictEq cv.names cv'.names hnames hok.keys name hl) i hi
    rw [call_spec cv df n hok] at hc
    rw [call_spec cv' df' n hok'] at hc'
    simp only [Option.some.injEq, Prod.mk.injEq] at hc hc'
    rw [hc.1, hc'.1, hcell, hcell', hspec name]

/-! ### permuting the columns of the DataFrame / the entries of `col_to_stype` -/

theorem col?_perm (df : DF L F) (df' : DF L' F) (hp : df'.cols.Perm df.cols) (hnd : (df.cols.map (·.name)).Nodup)
    (name : String) : df'.col? name = df.col? name := by
  have hnd' : (df'.cols.map (·.name)).Nodup := (hp.map _).nodup_iff.mpr hnd
  cases h : df.col? name with
  | some c =>
    have hm : c ∈ df.cols := List.mem_of_find?_eq_some h
    have hn : c.name = name := by simpa using List.find?_some h
    rw [← hn]
    exact find_col df' c (hp.mem_iff.mpr hm) hnd'
  | none =>
    unfold DF.col? at h ⊢
    rw [List.find?_eq_none] at h ⊢
    intro c hc
    exact h c (hp.mem_iff.mp hc)

theorem stypeOf_perm (cv cv' : Conv F) (hp : cv'.colToStype.Perm cv.colToStype)
    (hnd : (cv.colToStype.map (·.1)).Nodup) (name : String) : cv'.stypeOf name = cv.stypeOf name := by
  simp only [Conv.stypeOf, dictGet_perm_nodup _ _ hp.symm hnd name]

theorem cfg_congr (cv cv' : Conv F) (hs : DictEq cv'.stats cv.stats) (he : cv'.embedders = cv.embedders)
    (name : String) : cv'.cfg name = cv.cfg name := by
  simp only [Conv.cfg, hs name, he]

theorem specCol_congr (cv cv' : Conv F) (df : DF L F) (df' : DF L' F)
    (hcfg : ∀ name, cv'.cfg name = cv.cfg name) (hst : ∀ name, cv'.stypeOf name = cv.stypeOf name)
    (hcol : ∀ name, df'.col? name = df.col? name) (name : String) : specCol cv' df' name = specCol cv df name := by
  simp only [specCol, hcfg name, hst name, hcol name]

theorem convFrameOK_congr (cv cv' : Conv F) (df : DF L F) (df' : DF L' F) (hok : ConvFrameOK cv df)
    (hp : cv'.colToStype.Perm cv.colToStype) (ht : cv'.target = cv.target)
    (hcfg : ∀ name, cv'.cfg name = cv.cfg name) (hcol : ∀ name, df'.col? name = df.col? name)
    (hn : df'.numRows = df.numRows) : ConvFrameOK cv' df' := by
  have hst := stypeOf_perm cv cv' hp hok.c2s_nodup
  refine ⟨by rw [hn]; exact hok.npos, (hp.map _).nodup_iff.mpr hok.c2s_nodup, ?_, ?_, ?_, ?_⟩
  · intro p hp'
    exact hok.no_tok p (hp.mem_iff.mp hp')
  · obtain ⟨p, hp', hpt⟩ := hok.feature
    exact ⟨p, hp.mem_iff.mpr hp', by rw [ht]; exact hpt⟩
  · intro p hp' hpt
    rw [ht] at hpt
    obtain ⟨col, h1, h2, h3, h4⟩ := hok.cols p (hp.mem_iff.mp hp') hpt
    exact ⟨col, by rw [hcol]; exact h1, by rw [hn]; exact h2, by rw [hcfg]; exact h3, by rw [hcfg]; exact h4⟩
  · intro t col htt hcol'
    rw [ht] at htt
    rw [hcol] at hcol'
    obtain ⟨h1, h2⟩ := hok.target t col htt hcol'
    exact ⟨by rw [hn]; exact h1, by rw [hcfg, hst]; exact h2⟩

theorem yOf_congr (cv cv' : Conv F) (df df' : DF L F) (ht : cv'.target = cv.target)
    (hcfg : ∀ name, cv'.cfg name = cv.cfg name) (hst : ∀ name, cv'.stypeOf name = cv.stypeOf name)
    (hcol : ∀ name, df'.col? name = df.col? name) (hl : df'.labels = df.labels) : cv'.yOf df' = cv.yOf df := by
  unfold Conv.yOf
  rw [ht]
  cases cv.target with
  | none => rfl
  | some t => simp only [Conv.mapCol, hcol t, hcfg t, hst t, hl]

/-- CONVERTER LEVEL, independent permutations: a fresh converter over a permuted `col_to_stype` (and a
    dict-equal `col_stats`), applied to a frame whose columns are permuted (independently), returns the same
    frame: dict-equal `col_names_dict` / `feat_dict`, same `y`, equal cells. -/
theorem call_colperm (cv cv' : Conv F) (df df' : DF L F)
    (hfresh : cv.names = colNamesDict cv.colToStype cv.target)
    (hfresh' : cv'.names = colNamesDict cv'.colToStype cv'.target)
    (hc2s : cv'.colToStype.Perm cv.colToStype) (ht : cv'.target = cv.target)
    (hs : DictEq cv'.stats cv.stats) (he : cv'.embedders = cv.embedders)
    (hl : df'.labels = df.labels) (hp : df'.cols.Perm df.cols) (hnd : (df.cols.map (·.name)).Nodup)
    (hok : ConvFrameOK cv df) :
    ∃ tf cv1 tf' cv1', cv.call df = some (tf, cv1) ∧ cv'.call df' = some (tf', cv1') ∧
      DictEq tf'.names tf.names ∧ DictEq tf'.feats tf.feats ∧ tf'.y = tf.y ∧ DictEq cv1'.names cv1.names ∧
      (∀ name i, (∃ g ∈ cv.names, name ∈ g.2) → i < df.numRows → tf'.cell name i = tf.cell name i) := by
  have hcfg := cfg_congr cv cv' hs he
  have hst := stypeOf_perm cv cv' hc2s hok.c2s_nodup
  have hcol := col?_perm df df' hp hnd
  have hn : df'.numRows = df.numRows := by simp [DF.numRows, hl]
  have hok' := convFrameOK_congr cv cv' df df' hok hc2s ht hcfg hcol hn
  have h1 := callOK_fresh cv df hfresh hok
  have h2 := callOK_fresh cv' df' hfresh' hok'
  rw [hn] at h2
  refine call_dictEq cv cv' df df' df.numRows h1 h2 ?_ (specCol_congr cv cv' df df' hcfg hst hcol)
    (yOf_congr cv cv' df df' ht hcfg hst hcol hl)
  rw [hfresh, hfresh', ht]
  exact colNamesDict_perm _ _ hc2s _

/-! ### statistics under a column permutation -/

/-- what `_update_col_stats` does to the statistics of one column -/
def embUpd (tf : TF F) (name : String) (st : ColStats) : ColStats :=
  match dictGet tf.feats .embedding, dictGet tf.names .embedding with
  | some (.met m), some cols =>
    match cols.idxOf? name with
    | some i => { st with embDim := (m.offset.getD (i + 1) 0 : Int) - m.offset.getD i 0 }
    | none => st
  | _, _ => st

theorem updateEmbDim_eq (tf : TF F) (stats : List (String × ColStats)) :
    updateEmbDim tf stats = stats.map fun p => (p.1, embUpd tf p.1 p.2) := by
  unfold updateEmbDim embUpd
  cases dictGet tf.feats .embedding with
  | none => simp
  | some f =>
    cases f with
    | met m =>
      cases dictGet tf.names .embedding with
      | none => simp
      | some cols =>
        simp only
        apply List.map_congr_left
        intro p _
        obtain ⟨name, st⟩ := p
        simp only
        cases cols.idxOf? name <;> rfl
    | dense r => simp
    | mnt m => simp

theorem embUpd_cats (tf : TF F) (name : String) (st : ColStats) : (embUpd tf name st).cats = st.cats := by
  unfold embUpd
  split
  · split <;> rfl
  · rfl

theorem embUpd_congr (tf tf' : TF F) (hf : DictEq tf'.feats tf.feats) (hn : DictEq tf'.names tf.names) :
    embUpd tf' = embUpd tf := by
  funext name st
  simp only [embUpd, hf .embedding, hn .embedding]

theorem dictGet_mapKV [DecidableEq κ] (d : List (κ × ν)) (g : κ → ν → ν') (k : κ) :
    dictGet (d.map fun p => (p.1, g p.1 p.2)) k = (dictGet d k).map (g k) := by
  induction d with
  | nil => rfl
  | cons q rest ih =>
    obtain ⟨k', v'⟩ := q
    simp only [List.map_cons, dictGet]
    by_cases hk : k' = k
    · subst hk; simp
    · simp [hk, ih]

theorem updateEmbDim_dictEq (tf tf' : TF F) (stats stats' : List (String × ColStats))
    (hf : DictEq tf'.feats tf.feats) (hn : DictEq tf'.names tf.names) (hs : DictEq stats' stats) :
    DictEq (updateEmbDim tf' stats') (updateEmbDim tf stats) := by
  intro k
  rw [updateEmbDim_eq, updateEmbDim_eq, dictGet_mapKV, dictGet_mapKV, hs k, embUpd_congr tf tf' hf hn]

theorem fitStats_keys (vc : String → List Key → List Key) (t : Option String) (df : DF L F) :
    (fitStats vc t df).map (·.1) = df.cols.map (·.name) := by
  simp [fitStats, List.map_map, Function.comp]

theorem fitStats_perm (vc : String → List Key → List Key) (t : Option String) (df df' : DF L F)
    (hl : df'.labels = df.labels) (hp : df'.cols.Perm df.cols) (hnd : (df.cols.map (·.name)).Nodup) :
    DictEq (fitStats vc t df') (fitStats vc t df) := by
  intro k
  apply dictGet_perm_nodup
  · simp only [fitStats, hl]
    exact hp.map _
  · rw [fitStats_keys]
    exact (hp.map _).nodup_iff.mpr hnd

/-! ### closed form of the merged canonical name table -/

theorem groupD_mergeNamesStep (names : List (Stype × List String)) (s k : Stype) (hs : s.parent ≠ s) :
    groupD (mergeNamesStep names s) k =
      if k = s then [] else if k = s.parent then groupD names s.parent ++ groupD names s else groupD names k := by
  unfold groupD
  rw [dictGet_mergeNamesStep names s k hs]
  cases hcs : dictGet names s with
  | none =>
    by_cases h1 : k = s
    · subst h1; simp [hcs]
    · by_cases h2 : k = s.parent
      · subst h2; simp [h1]
      · simp [h1, h2]
  | some cs =>
    by_cases h1 : k = s
    · simp [h1]
    · by_cases h2 : k = s.parent
      · simp [h2, hs, groupD]
      · simp [h1, h2]

/-- every group of the name table after `_merge_feat`, in terms of the groups before -/
theorem groupD_mergeNames (names : List (Stype × List String)) (k : Stype) :
    groupD (mergeNames names) k =
      match k with
      | .text_embedded => []
      | .image_embedded => []
      | .embedding => groupD names .embedding ++ groupD names .text_embedded ++ groupD names .image_embedded
      | k => groupD names k := by
  rw [mergeNames_eq, groupD_mergeNamesStep _ _ _ (by decide)]
  cases k <;> simp [Stype.parent, groupD_mergeNamesStep _ .text_embedded _ (by decide)]

theorem groupD_colNamesDict (c2s : List (String × Stype)) (t : Option String) (s : Stype) :
    groupD (colNamesDict c2s t) s = sortNames (groupOf c2s t s) := by
  unfold groupD
  rw [dictGet_colNamesDict]
  unfold optL
  split
  · rename_i h; simp [h, sortNames]
  · simp

/-- SPECIFICATION of the schema: the group stored under stype `s` in `col_names_dict` -/
def schemaGroup (c2s : List (String × Stype)) (t : Option String) : Stype → List String
  | .text_embedded => []
  | .image_embedded => []
  | .embedding => sortNames (groupOf c2s t .embedding) ++ sortNames (groupOf c2s t .text_embedded) ++
      sortNames (groupOf c2s t .image_embedded)
  | s => sortNames (groupOf c2s t s)

theorem groupD_final (c2s : List (String × Stype)) (t : Option String) (s : Stype) :
    groupD (mergeNames (colNamesDict c2s t)) s = schemaGroup c2s t s := by
  rw [groupD_mergeNames]
  cases s <;> simp only [schemaGroup, groupD_colNamesDict]

theorem dictGet_eq_optL (d : List (Stype × List String)) (h : ∀ p ∈ d, p.2 ≠ []) (s : Stype) :
    dictGet d s = optL (groupD d s) := by
  unfold groupD optL
  cases hg : dictGet d s with
  | none => simp
  | some v =>
    have := h (s, v) (mem_of_dictGet d s v hg)
    simp at this
    simp [this]

theorem colNamesDict_groups (c2s : List (String × Stype)) (t : Option String) :
    ∀ p ∈ colNamesDict c2s t, p.2 ≠ [] := by
  intro p hp
  obtain ⟨h1, h2⟩ := mem_colNamesDict c2s t p hp
  rw [h2]
  exact sortNames_ne_nil _ h1

/-- `col_names_dict` after materialization, key by key: present exactly when the schema group is non-empty -/
theorem dictGet_final (c2s : List (String × Stype)) (t : Option String) (s : Stype) :
    dictGet (mergeNames (colNamesDict c2s t)) s = optL (schemaGroup c2s t s) := by
  rw [dictGet_eq_optL _ (mergeNames_groups _ (colNamesDict_groups c2s t)), groupD_final]

/-! ### every non-target column is listed exactly once -/

theorem groupOf_nodup (c2s : List (String × Stype)) (t : Option String) (s : Stype)
    (hnd : (c2s.map (·.1)).Nodup) : (groupOf c2s t s).Nodup := by
  unfold groupOf
  exact List.Nodup.sublist (List.Sublist.map _ List.filter_sublist) hnd

theorem stype_unique (c2s : List (String × Stype)) (hnd : (c2s.map (·.1)).Nodup) (c : String) (s s' : Stype)
    (h : (c, s) ∈ c2s) (h' : (c, s') ∈ c2s) : s' = s := by
  have h1 := dictGet_of_mem_nodup c2s c s h hnd
  have h2 := dictGet_of_mem_nodup c2s c s' h' hnd
  rw [h1] at h2
  exact (Option.some.inj h2).symm

theorem count_sorted_group (c2s : List (String × Stype)) (t : Option String) (hnd : (c2s.map (·.1)).Nodup)
    (c : String) (s : Stype) (h : (c, s) ∈ c2s) (ht : some c ≠ t) (s' : Stype) :
    (sortNames (groupOf c2s t s')).count c = if s' = s then 1 else 0 := by
  rw [(sortNames_perm _).count_eq, (groupOf_nodup c2s t s' hnd).count]
  by_cases hs : s' = s
  · subst hs; simp [(mem_groupOf c2s t s' c).mpr ⟨h, ht⟩]
  · have : c ∉ groupOf c2s t s' := by
      intro hm
      exact hs (stype_unique c2s hnd c s s' h ((mem_groupOf _ _ _ _).mp hm).1)
    simp [this, hs]

theorem count_schemaGroup (c2s : List (String × Stype)) (t : Option String) (hnd : (c2s.map (·.1)).Nodup)
    (c : String) (s : Stype) (h : (c, s) ∈ c2s) (ht : some c ≠ t) (s' : Stype) :
    (schemaGroup c2s t s').count c = if s' = s.parent then 1 else 0 := by
  have L := count_sorted_group c2s t hnd c s h ht
  cases s' <;> simp only [schemaGroup, List.count_append, L, List.count_nil] <;> cases s <;> simp [Stype.parent]

theorem count_flatMap_zero (d : List (Stype × List String)) (c : String) (h : ∀ g ∈ d, c ∉ g.2) :
    (d.flatMap (·.2)).count c = 0 := by
  rw [List.count_eq_zero]
  intro hm
  obtain ⟨g, hg, hc⟩ := List.mem_flatMap.mp hm
  exact h g hg hc

theorem count_flatMap_dict (d : List (Stype × List String)) (hk : (d.map (·.1)).Nodup) (k : Stype) (v : List String)
    (c : String) (hm : (k, v) ∈ d) (hother : ∀ g ∈ d, g.1 ≠ k → c ∉ g.2) :
    (d.flatMap (·.2)).count c = v.count c := by
  induction d with
  | nil => simp at hm
  | cons q rest ih =>
    simp only [List.map_cons, List.nodup_cons] at hk
    simp only [List.flatMap_cons, List.count_append]
    rcases List.mem_cons.mp hm with e | hm'
    · subst e
      have : (rest.flatMap (·.2)).count c = 0 := by
        apply count_flatMap_zero
        intro g hg
        apply hother g (by simp [hg])
        intro e
        exact hk.1 (e ▸ List.mem_map.mpr ⟨g, hg, rfl⟩)
      simp [this]
    · have hq : q.1 ≠ k := by
        intro e
        exact hk.1 (e ▸ List.mem_map.mpr ⟨(k, v), hm', rfl⟩)
      have : q.2.count c = 0 := List.count_eq_zero.mpr (hother q (by simp) hq)
      rw [this, ih hk.2 hm' (fun g hg => hother g (by simp [hg]))]
      simp

/-- in the flattened `col_names_dict` every non-target column occurs exactly once, the target never -/
theorem count_final (c2s : List (String × Stype)) (t : Option String) (hnd : (c2s.map (·.1)).Nodup)
    (c : String) (s : Stype) (h : (c, s) ∈ c2s) (ht : some c ≠ t) :
    ((mergeNames (colNamesDict c2s t)).flatMap (·.2)).count c = 1 := by
  have hkeys := mergeNames_keys _ (keys_colNamesDict c2s t)
  have hcnt := count_schemaGroup c2s t hnd c s h ht
  have hne : schemaGroup c2s t s.parent ≠ [] := by
    intro e
    have := hcnt s.parent
    rw [e] at this
    simp at this
  have hget : dictGet (mergeNames (colNamesDict c2s t)) s.parent = some (schemaGroup c2s t s.parent) := by
    rw [dictGet_final]; simp [optL, hne]
  rw [count_flatMap_dict _ hkeys s.parent _ c (mem_of_dictGet _ _ _ hget), hcnt s.parent]
  · simp
  · intro g hg hgk hc
    have h1 := dictGet_of_mem_nodup _ g.1 g.2 hg hkeys
    rw [dictGet_final] at h1
    have h2 : g.2 = schemaGroup c2s t g.1 := by
      unfold optL at h1
      split at h1
      · simp at h1
      · exact (Option.some.inj h1).symm
    have := hcnt g.1
    rw [← h2, if_neg hgk] at this
    exact (List.count_eq_zero.mp this) hc

theorem not_mem_final_of_target (c2s : List (String × Stype)) (t : String) :
    t ∉ (mergeNames (colNamesDict c2s (some t))).flatMap (·.2) := by
  intro hm
  obtain ⟨p, hp, hc⟩ := List.mem_flatMap.mp hm
  obtain ⟨g, hg, hcg, _⟩ := mergeNames_origin _ p hp t hc
  obtain ⟨_, h2⟩ := mem_colNamesDict c2s (some t) g hg
  rw [h2, mem_sortNames, mem_groupOf] at hcg
  exact hcg.2 rfl

/-! ### class count of a categorical target -/

theorem nodup_eraseDups_aux [BEq α] [LawfulBEq α] : ∀ (n : Nat) (l : List α), l.length ≤ n → l.eraseDups.Nodup
  | 0, l, h => by
    have : l = [] := List.length_eq_zero_iff.mp (by omega)
    subst this; simp
  | _ + 1, [], _ => by simp
  | n + 1, a :: as, h => by
    rw [List.eraseDups_cons, List.nodup_cons]
    refine ⟨?_, nodup_eraseDups_aux n _ ?_⟩
    · intro hm
      have := List.mem_eraseDups.mp hm
      simp at this
    · have := List.length_filter_le (fun b => !b == a) as
      simp only [List.length_cons] at h
      omega

theorem nodup_eraseDups [BEq α] [LawfulBEq α] (l : List α) : l.eraseDups.Nodup :=
  nodup_eraseDups_aux l.length l (Nat.le_refl _)

/-- an admissible `value_counts` index lists every distinct observed value exactly once -/
theorem validCats_spec (cats obs : List Key) (h : validCats cats obs = true) :
    cats.Nodup ∧ (∀ k, k ∈ cats ↔ k ∈ obs) ∧ cats.length = obs.eraseDups.length := by
  simp only [validCats, Bool.and_eq_true, beq_iff_eq, List.all_eq_true, List.contains_iff_mem] at h
  obtain ⟨⟨⟨h1, h2⟩, h3⟩, _⟩ := h
  have hnd : cats.Nodup := by rw [← h1]; exact nodup_eraseDups cats
  have hmem : ∀ k, k ∈ cats ↔ k ∈ obs := fun k => ⟨h2 k, h3 k⟩
  refine ⟨hnd, hmem, ?_⟩
  apply List.Perm.length_eq
  rw [List.perm_ext_iff_of_nodup hnd (nodup_eraseDups obs)]
  intro k
  rw [List.mem_eraseDups]
  exact hmem k

theorem binarySort_length (cats : List Key) : (binarySort cats).length = cats.length := by
  unfold binarySort
  split
  · split <;> rfl
  · rfl

theorem mem_binarySort (cats : List Key) (k : Key) : k ∈ binarySort cats ↔ k ∈ cats := by
  unfold binarySort
  split
  · split
    · simp [or_comm]
    · rfl
  · rfl

theorem dictGet_fitStats (vc : String → List Key → List Key) (t : Option String) (df : DF L F) (c : Col F)
    (hc : c ∈ df.cols) (hnd : (df.cols.map (·.name)).Nodup) :
    ∃ st, dictGet (fitStats vc t df) c.name = some st ∧
      st.cats = (if some c.name = t ∧ c.stype = .categorical then binarySort (vc c.name (observedKeys c.stype c.cells))
                 else vc c.name (observedKeys c.stype c.cells)) ∧
      st.embDim = (if c.stype = .embedding then embDim df.labels c.cells else -1) := by
  refine ⟨_, dictGet_of_mem_nodup (fitStats vc t df) c.name _ (List.mem_map.mpr ⟨c, hc, rfl⟩)
    (by rw [fitStats_keys]; exact hnd), rfl, rfl⟩

theorem materialize_some (vc : String → List Key → List Key) (t : Option String)
    (emb : String → String → List (Val F)) (df : DF L F) (m : Materialized F)
    (hm : materialize vc t emb df = some m) :
    ∃ cv', (fitConv vc t emb df).call df = some (m.tf, cv') ∧ m.conv = cv' ∧
      m.stats = updateEmbDim m.tf (fitStats vc t df) := by
  rw [materialize_eq] at hm
  cases hc : (fitConv vc t emb df).call df with
  | none => simp [hc] at hm
  | some r =>
    simp only [hc, Option.map_some, Option.some.injEq] at hm
    subst hm
    exact ⟨r.2, rfl, rfl, rfl⟩

/-- `len(col_stats[target][COUNT][0])` of a materialized dataset is the length of the fitted list of the target -/
theorem numClasses_materialized (vc : String → List Key → List Key) (t : String)
    (emb : String → String → List (Val F)) (df : DF L F) (m : Materialized F)
    (hm : materialize vc (some t) emb df = some m) (c : Col F) (hc : c ∈ df.cols) (hn : c.name = t)
    (hs : c.stype = .categorical) (hnd : (df.cols.map (·.name)).Nodup) :
    numClasses m.stats t = (vc t (observedKeys .categorical c.cells)).length := by
  obtain ⟨cv', _, _, hst⟩ := materialize_some vc (some t) emb df m hm
  obtain ⟨st, hget, hcats, _⟩ := dictGet_fitStats vc (some t) df c hc hnd
  rw [hn] at hget
  simp only [numClasses, hst, updateEmbDim_eq, dictGet_mapKV, hget, Option.map_some, Option.getD_some, embUpd_cats, hcats]
  simp [hn, hs, binarySort_length]


/-- whatever a converter call returns passed `TensorFrame.validate`, carries the target through its own mapper
    and shares its name table with the converter; nothing but the name table of the converter changes -/
theorem call_facts (cv cv' : Conv F) (df : DF L F) (tf : TF F) (h : cv.call df = some (tf, cv')) :
    tf.validate = true ∧ tf.y = cv.yOf df ∧ cv'.names = tf.names ∧ cv'.stats = cv.stats ∧
      cv'.colToStype = cv.colToStype ∧ cv'.target = cv.target := by
  unfold Conv.call at h
  simp only [Option.bind_eq_bind, Option.bind_eq_some_iff] at h
  obtain ⟨feats, _, h⟩ := h
  split at h
  · simp at h
  · simp only [Option.bind_eq_some_iff] at h
    obtain ⟨⟨feats', names'⟩, _, h⟩ := h
    simp only at h
    split at h
    · simp at h
    · rename_i hv
      simp only [Option.pure_def, Option.some.injEq, Prod.mk.injEq] at h
      obtain ⟨h1, h2⟩ := h
      subst h1 h2
      simp at hv
      exact ⟨hv, rfl, rfl, rfl, rfl, rfl⟩

theorem call_numRows (cv cv' : Conv F) (df : DF L F) (n : Nat) (hok : CallOK cv df n) (tf : TF F)
    (h : cv.call df = some (tf, cv')) : tf.numRows = n := by
  rw [call_spec cv df n hok] at h
  simp only [Option.some.injEq, Prod.mk.injEq] at h
  rw [← h.1]
  obtain ⟨p, rest, hp⟩ := List.exists_cons_of_ne_nil (mergeNames_nonempty _ hok.nonempty)
  simp only [TF.numRows, mapG, hp, List.map_cons]
  exact specFeat_numRows _ _ _

/-! ### a Boolean checker for the typed domain (used by the non-vacuity examples) -/

def cellTokOK : Cell F → Bool
  | .toks ts => !ts.contains missingTok
  | _ => true

def colWFb (cfg : ColCfg F) (s : Stype) (cells : List (Cell F)) : Bool :=
  s != .text_tokenized &&
  (s != .multicategorical || (!cfg.cats.contains missingTok && cells.all cellTokOK)) &&
  (s != .embedding || (decide (0 ≤ cfg.embDim) &&
    cells.all fun c => c.isMissing || decide (((cellVec c).length : Int) = cfg.embDim)))

def widthOKb (cfg : ColCfg F) (s : Stype) (cells : List (Cell F)) : Bool :=
  !s.useEmbedding ||
    cells.all fun c => (encodeCell cfg s c).length == (encodeCell cfg s (cells.headD .missing)).length

def convFrameOKb (cv : Conv F) (df : DF L F) : Bool :=
  decide (0 < df.numRows) && decide ((cv.colToStype.map (·.1)).Nodup) &&
  cv.colToStype.all (fun p => p.2 != .text_tokenized) &&
  cv.colToStype.any (fun p => some p.1 != cv.target) &&
  cv.colToStype.all (fun p => some p.1 == cv.target ||
    match df.col? p.1 with
    | none => false
    | some col => col.cells.length == df.numRows && colWFb (cv.cfg p.1) p.2 col.cells &&
        widthOKb (cv.cfg p.1) p.2 col.cells) &&
  (match cv.target with
   | none => true
   | some t => match df.col? t with
     | none => true
     | some col => col.cells.length == df.numRows && colWFb (cv.cfg t) (cv.stypeOf t) col.cells)

theorem colWF_of_check (cfg : ColCfg F) (s : Stype) (cells : List (Cell F)) (h : colWFb cfg s cells = true) :
    ColWF cfg s cells := by
  simp only [colWFb, Bool.and_eq_true, Bool.or_eq_true, bne_iff_ne, ne_eq, Bool.not_eq_true', List.all_eq_true,
    decide_eq_true_eq] at h
  obtain ⟨⟨h1, h2⟩, h3⟩ := h
  refine ⟨h1, ?_, ?_⟩
  · intro hs
    rcases h2 with h2 | ⟨h2, h2'⟩
    · exact absurd hs h2
    · refine ⟨by simpa using h2, ?_⟩
      intro ts hts
      have := h2' _ hts
      simpa [cellTokOK] using this
  · intro hs
    rcases h3 with h3 | ⟨h3, h3'⟩
    · exact absurd hs h3
    · refine ⟨h3, ?_⟩
      intro c hc hm
      rcases h3' c hc with h | h
      · rw [hm] at h; exact absurd h (by simp)
      · exact h

theorem convFrameOK_of_check (cv : Conv F) (df : DF L F) (h : convFrameOKb cv df = true) : ConvFrameOK cv df := by
  simp only [convFrameOKb, Bool.and_eq_true, decide_eq_true_eq, List.all_eq_true, List.any_eq_true, bne_iff_ne, ne_eq,
    Bool.or_eq_true, beq_iff_eq] at h
  obtain ⟨⟨⟨⟨⟨h1, h2⟩, h3⟩, h4⟩, h5⟩, h6⟩ := h
  refine ⟨h1, h2, h3, ?_, ?_, ?_⟩
  · obtain ⟨p, hp, hpt⟩ := h4
    exact ⟨p, hp, hpt⟩
  · intro p hp hpt
    rcases h5 p hp with h | h
    · exact absurd h hpt
    · cases hc : df.col? p.1 with
      | none => simp [hc] at h
      | some col =>
        simp only [hc, Bool.and_eq_true, beq_iff_eq] at h
        obtain ⟨⟨ha, hb⟩, hw⟩ := h
        refine ⟨col, rfl, ha, colWF_of_check _ _ _ hb, ?_⟩
        intro hE
        refine ⟨(encodeCell (cv.cfg p.1) p.2 (col.cells.headD .missing)).length, ?_⟩
        intro cell hcell
        simp only [widthOKb, hE, Bool.not_true, Bool.false_or, List.all_eq_true, beq_iff_eq] at hw
        exact hw cell hcell
  · intro t col ht hcol
    simp only [ht, hcol, Bool.and_eq_true, beq_iff_eq] at h6
    exact ⟨h6.1, colWF_of_check _ _ _ h6.2⟩

end Mat
end TFVerif

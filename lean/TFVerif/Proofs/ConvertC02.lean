/-
Helper lemmas for C02 (positional materialization, canonical schema):
  * no mapper and no statistic reads the index labels (only how many there are);
  * Python-dict equality of association lists (`DictEq`), `_merge_feat` and the canonical name table respect it;
  * one converter call is invariant under dict-equal inputs (column order of the frame / of `col_to_stype`);
  * closed form of the merged canonical name table.
-/
import TFVerif.Proofs.Convert

namespace TFVerif

namespace Mat

/-! ### labels are never consulted -/

theorem zip_map_snd_take (ls : List L) (cs : List α) : (ls.zip cs).map (·.2) = cs.take ls.length := by
  induction ls generalizing cs with
  | nil => simp
  | cons l ls ih =>
    cases cs with
    | nil => simp
    | cons c cs => simp [ih]

theorem categoricalForward_labels (cats : List Key) (ls : List L) (ls' : List L') (cells : List (Cell F))
    (h : ls.length = ls'.length) : categoricalForward cats ls cells = categoricalForward cats ls' cells := by
  have key : ∀ (L₀ : Type) (l₀ : List L₀), categoricalForward cats l₀ cells =
      ((cells.map cellKey).take l₀.length).map fun k =>
        match k.bind (Pd.lookup cats.zipIdx) with
        | some i => [(Val.int i : Val F)]
        | none => [Val.int (-1)] := by
    intro L₀ l₀
    rw [← zip_map_snd_take l₀ (cells.map cellKey)]
    simp only [categoricalForward, Pd.mergeLeft, List.map_map]
    apply List.map_congr_left
    intro p _
    rfl
  rw [key L ls, key L' ls', h]

theorem resetIndex_labels_irrelevant (ls : List L) (ls' : List L') (cells : List α) (h : ls.length = ls'.length) :
    Pd.resetIndex (ls.zip cells) = Pd.resetIndex (ls'.zip cells) := by
  have e1 := zip_map_snd_take ls cells
  have e2 := zip_map_snd_take ls' cells
  simp only [Pd.resetIndex, List.length_zip]
  rw [show (ls.zip cells).map (fun x => x.2) = cells.take ls.length from e1,
      show (ls'.zip cells).map (fun x => x.2) = cells.take ls'.length from e2, h]

theorem multicatForward_labels (cats : List Key) (ls : List L) (ls' : List L') (cells : List (Cell F))
    (h : ls.length = ls'.length) : multicatForward cats ls cells = multicatForward cats ls' cells := by
  simp only [multicatForward, resetIndex_labels_irrelevant ls ls' cells h]

/-- `Dataset`-level EMB_DIM reads the first non-missing vector BY POSITION -/
theorem embDim_eq_take (ls : List L) (cells : List (Cell F)) :
    embDim ls cells = match ((cells.take ls.length).filter fun c => !c.isMissing).head? with
      | some c => ((cellVec c).length : Int)
      | none => -1 := by
  rw [← zip_map_snd_take ls cells]
  simp only [embDim, Pd.iloc0, List.filter_map, List.head?_map]
  cases h : ((ls.zip cells).filter ((fun c => !c.isMissing) ∘ fun x => x.2)).head? with
  | none =>
    have : ((ls.zip cells).filter fun p => !p.2.isMissing).head? = none := h
    simp [this]
  | some p =>
    have : ((ls.zip cells).filter fun p => !p.2.isMissing).head? = some p := h
    simp [this]

theorem embDim_labels (ls : List L) (ls' : List L') (cells : List (Cell F)) (h : ls.length = ls'.length) :
    embDim ls cells = embDim ls' cells := by
  rw [embDim_eq_take, embDim_eq_take, h]

/-- no mapper reads the index labels of the Series it is given -/
theorem forward_labels (cfg : ColCfg F) (s : Stype) (ls : List L) (ls' : List L') (cells : List (Cell F))
    (h : ls.length = ls'.length) : forward cfg s ls cells = forward cfg s ls' cells := by
  cases s <;> simp only [forward, categoricalForward_labels _ ls ls' cells h, multicatForward_labels _ ls ls' cells h]

theorem mapCol_withLabels (cv : Conv F) (df : DF L F) (ls : List L') (h : ls.length = df.labels.length) (c : String) :
    cv.mapCol (df.withLabels ls) c = cv.mapCol df c := by
  simp only [Conv.mapCol, DF.col?, DF.withLabels]
  cases df.cols.find? (·.name == c) with
  | none => rfl
  | some col => simp only [Option.map_some, forward_labels _ _ ls df.labels col.cells h]

theorem yOf_withLabels (cv : Conv F) (df : DF L F) (ls : List L') (h : ls.length = df.labels.length) :
    cv.yOf (df.withLabels ls) = cv.yOf df := by
  unfold Conv.yOf
  cases cv.target with
  | none => rfl
  | some t => exact mapCol_withLabels cv df ls h t

theorem call_withLabels (cv : Conv F) (df : DF L F) (ls : List L') (h : ls.length = df.labels.length) :
    cv.call (df.withLabels ls) = cv.call df := by
  simp only [Conv.call, mapCol_withLabels cv df ls h, yOf_withLabels cv df ls h]

theorem fitStats_withLabels (vc : String → List Key → List Key) (t : Option String) (df : DF L F) (ls : List L')
    (h : ls.length = df.labels.length) : fitStats vc t (df.withLabels ls) = fitStats vc t df := by
  simp only [fitStats, DF.withLabels]
  apply List.map_congr_left
  intro c _
  rw [embDim_labels ls df.labels c.cells h]

theorem materialize_withLabels (vc : String → List Key → List Key) (t : Option String)
    (emb : String → String → List (Val F)) (df : DF L F) (ls : List L') (h : ls.length = df.labels.length) :
    materialize vc t emb (df.withLabels ls) = materialize vc t emb df := by
  simp only [materialize, materializeWith, fitStats_withLabels vc t df ls h, call_withLabels _ df ls h]
  rfl

/-! ### Python-dict equality of association lists -/

/-- two association lists denote the same Python dict (same value under every key) -/
def DictEq [DecidableEq κ] (d d' : List (κ × ν)) : Prop := ∀ k, dictGet d k = dictGet d' k

theorem DictEq.symm [DecidableEq κ] {d d' : List (κ × ν)} (h : DictEq d d') : DictEq d' d := fun k => (h k).symm

theorem dictGet_dictErase [DecidableEq κ] (d : List (κ × ν)) (k k' : κ) :
    dictGet (dictErase d k) k' = if k = k' then none else dictGet d k' := by
  induction d with
  | nil => simp [dictErase, dictGet]
  | cons q rest ih =>
    obtain ⟨k₀, v₀⟩ := q
    have hc : dictErase ((k₀, v₀) :: rest) k = if k₀ = k then dictErase rest k else (k₀, v₀) :: dictErase rest k := by
      by_cases hk : k₀ = k <;> simp [dictErase, hk]
    rw [hc]
    by_cases hk : k₀ = k
    · rw [if_pos hk, ih]
      by_cases hk' : k = k'
      · simp [hk']
      · have : ¬ k₀ = k' := fun e => hk' (hk ▸ e)
        simp [hk', dictGet, this]
    · rw [if_neg hk]
      simp only [dictGet, ih]
      by_cases hk' : k₀ = k'
      · have : ¬ k = k' := fun e => hk (hk'.trans e.symm)
        simp [hk', this]
      · simp [hk']

theorem dictGet_perm_nodup [DecidableEq κ] (d d' : List (κ × ν)) (hp : d.Perm d') (hnd : (d.map (·.1)).Nodup)
    (k : κ) : dictGet d k = dictGet d' k := by
  have hnd' : (d'.map (·.1)).Nodup := (hp.map _).nodup_iff.mp hnd
  cases h : dictGet d k with
  | some v => exact (dictGet_of_mem_nodup d' k v (hp.mem_iff.mp (mem_of_dictGet d k v h)) hnd').symm
  | none =>
    have hk : k ∉ d.map (·.1) := (dictGet_none_iff d k).mp h
    have hk' : k ∉ d'.map (·.1) := fun hm => hk ((hp.map _).mem_iff.mpr hm)
    exact ((dictGet_none_iff d' k).mpr hk').symm

/-- the group stored under a key, `[]` when the key is absent -/
def groupD (names : List (Stype × List String)) (s : Stype) : List String := (dictGet names s).getD []

/-- what one step of `_merge_feat` does to the name table, key by key -/
theorem dictGet_mergeNamesStep (names : List (Stype × List String)) (s k : Stype) (hs : s.parent ≠ s) :
    dictGet (mergeNamesStep names s) k =
      match dictGet names s with
      | none => dictGet names k
      | some cs => if k = s then none else if k = s.parent then some (groupD names s.parent ++ cs) else dictGet names k := by
  unfold mergeNamesStep
  simp only [hs, if_false]
  cases hcs : dictGet names s with
  | none => rfl
  | some cs =>
    simp only
    rw [dictGet_dictErase, dictGet_dictSet]
    by_cases h1 : k = s
    · subst h1; simp
    · have h1' : ¬ s = k := fun e => h1 e.symm
      by_cases h2 : k = s.parent
      · subst h2; simp [h1, h1', groupD]
      · have h2' : ¬ s.parent = k := fun e => h2 e.symm
        simp [h1, h1', h2, h2']

theorem mergeNamesStep_dictEq (a b : List (Stype × List String)) (h : DictEq a b) (s : Stype) :
    DictEq (mergeNamesStep a s) (mergeNamesStep b s) := by
  intro k
  by_cases hs : s.parent = s
  · rw [mergeNamesStep_noop_parent a s hs, mergeNamesStep_noop_parent b s hs]; exact h k
  · rw [dictGet_mergeNamesStep a s k hs, dictGet_mergeNamesStep b s k hs]
    simp only [groupD, h s, h k, h s.parent]

theorem mergeNames_dictEq (a b : List (Stype × List String)) (h : DictEq a b) :
    DictEq (mergeNames a) (mergeNames b) := by
  unfold mergeNames
  generalize childOrder = l
  induction l generalizing a b with
  | nil => exact h
  | cons s rest ih => exact ih _ _ (mergeNamesStep_dictEq a b h s)

theorem groupOf_perm (c2s c2s' : List (String × Stype)) (hp : c2s'.Perm c2s) (t : Option String) (s : Stype) :
    (groupOf c2s' t s).Perm (groupOf c2s t s) := by
  unfold groupOf
  exact (hp.filter _).map _

theorem optL_perm (a b : List String) (hp : a.Perm b) : (optL a).map sortNames = (optL b).map sortNames := by
  unfold optL
  by_cases ha : a = []
  · have hb : b = [] := by subst ha; exact List.Perm.eq_nil hp.symm
    simp [ha, hb]
  · have hb : b ≠ [] := by
      intro e; subst e; exact ha (List.Perm.eq_nil hp)
    simp [ha, hb, sortNames_perm_eq a b hp]

/-- the canonical name table does not depend on the order in which `col_to_stype` lists the columns -/
theorem colNamesDict_perm (c2s c2s' : List (String × Stype)) (hp : c2s'.Perm c2s) (t : Option String) :
    DictEq (colNamesDict c2s' t) (colNamesDict c2s t) := by
  intro s
  rw [dictGet_colNamesDict, dictGet_colNamesDict]
  exact optL_perm _ _ (groupOf_perm c2s c2s' hp t s)

/-! ### one converter call only depends on its inputs as dicts -/

theorem listed_of_dictEq (a b : List (Stype × List String)) (h : DictEq b a) (hk : (a.map (·.1)).Nodup)
    (name : String) (hl : ∃ g ∈ a, name ∈ g.2) : ∃ g ∈ b, name ∈ g.2 := by
  obtain ⟨g, hg, hn⟩ := hl
  have h1 : dictGet a g.1 = some g.2 := dictGet_of_mem_nodup a g.1 g.2 hg hk
  rw [← h g.1] at h1
  exact ⟨(g.1, g.2), mem_of_dictGet b g.1 g.2 h1, hn⟩

/-- Two converters whose name tables are equal AS DICTS, applied to frames that give the same encoded
    columns and the same target, return frames with dict-equal `col_names_dict` and `feat_dict` (every
    per-stype feature tensor is equal), the same `y`, dict-equal states, and equal cells under every name. -/
theorem call_dictEq (cv cv' : Conv F) (df : DF L F) (df' : DF L' F) (n : Nat)
    (hok : CallOK cv df n) (hok' : CallOK cv' df' n)
    (hnames : DictEq cv'.names cv.names) (hspec : ∀ name, specCol cv' df' name = specCol cv df name)
    (hy : cv'.yOf df' = cv.yOf df) :
    ∃ tf cv1 tf' cv1', cv.call df = some (tf, cv1) ∧ cv'.call df' = some (tf', cv1') ∧
      DictEq tf'.names tf.names ∧ DictEq tf'.feats tf.feats ∧ tf'.y = tf.y ∧ DictEq cv1'.names cv1.names ∧
      (∀ name i, (∃ g ∈ cv.names, name ∈ g.2) → i < n → tf'.cell name i = tf.cell name i) := by
  have hm := mergeNames_dictEq _ _ hnames
  have hsc : specCol cv' df' = specCol cv df := funext hspec
  refine ⟨_, _, _, _, call_spec cv df n hok, call_spec cv' df' n hok', hm, ?_, hy, hm, ?_⟩
  · intro s
    have hg : specG cv' df' n s = specG cv df n s := by
      funext cols
      simp only [specG, hsc]
    simp only [dictGet_mapG, hm s, hg]
  · intro name i hl hi
    obtain ⟨tf, cv1, hc, _, _, hcell⟩ := call_cell cv df n hok name hl i hi
    obtain ⟨tf', cv1', hc', _, _, hcell'⟩ := call_cell cv' df' n hok' name
      (listed_of_dictEq cv.names cv'.names hnames hok.keys name hl) i hi
    rw [call_spec cv df n hok] at hc
    rw [call_spec cv' df' n hok'] at hc'
    simp only [Option.some.injEq, Prod.mk.injEq] at hc hc'
    rw [hc.1, hc'.1, hcell, hcell', hspec name]

/-! ### permuting the columns of the DataFrame / the entries of `col_to_stype` -/

theorem col?_perm (df : DF L F) (df' : DF L' F) (hp : df'.cols.Perm df.cols) (hnd : (df.cols.map (·.name)).Nodup)
    (name : String) : df'.col? name = df.col? name := by
  have hnd' : (df'.cols.map (·.name)).Nodup := (hp.map _).nodup_iff.mpr hnd
  cases h : df.col? name with
  | some c =>
    have hm : c ∈ df.cols := List.mem_of_find?_eq_some h
    have hn : c.name = name := by simpa using List.find?_some h
    rw [← hn]
    exact find_col df' c (hp.mem_iff.mpr hm) hnd'
  | none =>
    unfold DF.col? at h ⊢
    rw [List.find?_eq_none] at h ⊢
    intro c hc
    exact h c (hp.mem_iff.mp hc)

theorem stypeOf_perm (cv cv' : Conv F) (hp : cv'.colToStype.Perm cv.colToStype)
    (hnd : (cv.colToStype.map (·.1)).Nodup) (name : String) : cv'.stypeOf name = cv.stypeOf name := by
  simp only [Conv.stypeOf, dictGet_perm_nodup _ _ hp.symm hnd name]

theorem cfg_congr (cv cv' : Conv F) (hs : DictEq cv'.stats cv.stats) (he : cv'.embedders = cv.embedders)
    (name : String) : cv'.cfg name = cv.cfg name := by
  simp only [Conv.cfg, hs name, he]

theorem specCol_congr (cv cv' : Conv F) (df : DF L F) (df' : DF L' F)
    (hcfg : ∀ name, cv'.cfg name = cv.cfg name) (hst : ∀ name, cv'.stypeOf name = cv.stypeOf name)
    (hcol : ∀ name, df'.col? name = df.col? name) (name : String) : specCol cv' df' name = specCol cv df name := by
  simp only [specCol, hcfg name, hst name, hcol name]

theorem convFrameOK_congr (cv cv' : Conv F) (df : DF L F) (df' : DF L' F) (hok : ConvFrameOK cv df)
    (hp : cv'.colToStype.Perm cv.colToStype) (ht : cv'.target = cv.target)
    (hcfg : ∀ name, cv'.cfg name = cv.cfg name) (hcol : ∀ name, df'.col? name = df.col? name)
    (hn : df'.numRows = df.numRows) : ConvFrameOK cv' df' := by
  have hst := stypeOf_perm cv cv' hp hok.c2s_nodup
  refine ⟨by rw [hn]; exact hok.npos, (hp.map _).nodup_iff.mpr hok.c2s_nodup, ?_, ?_, ?_, ?_⟩
  · intro p hp'
    exact hok.no_tok p (hp.mem_iff.mp hp')
  · obtain ⟨p, hp', hpt⟩ := hok.feature
    exact ⟨p, hp.mem_iff.mpr hp', by rw [ht]; exact hpt⟩
  · intro p hp' hpt
    rw [ht] at hpt
    obtain ⟨col, h1, h2, h3, h4⟩ := hok.cols p (hp.mem_iff.mp hp') hpt
    exact ⟨col, by rw [hcol]; exact h1, by rw [hn]; exact h2, by rw [hcfg]; exact h3, by rw [hcfg]; exact h4⟩
  · intro t col htt hcol'
    rw [ht] at htt
    rw [hcol] at hcol'
    obtain ⟨h1, h2⟩ := hok.target t col htt hcol'
    exact ⟨by rw [hn]; exact h1, by rw [hcfg, hst]; exact h2⟩

theorem yOf_congr (cv cv' : Conv F) (df df' : DF L F) (ht : cv'.target = cv.target)
    (hcfg : ∀ name, cv'.cfg name = cv.cfg name) (hst : ∀ name, cv'.stypeOf name = cv.stypeOf name)
    (hcol : ∀ name, df'.col? name = df.col? name) (hl : df'.labels = df.labels) : cv'.yOf df' = cv.yOf df := by
  unfold Conv.yOf
  rw [ht]
  cases cv.target with
  | none => rfl
  | some t => simp only [Conv.mapCol, hcol t, hcfg t, hst t, hl]

/-- CONVERTER LEVEL, independent permutations: a fresh converter over a permuted `col_to_stype` (and a
    dict-equal `col_stats`), applied to a frame whose columns are permuted (independently), returns the same
    frame: dict-equal `col_names_dict` / `feat_dict`, same `y`, equal cells. -/
theorem call_colperm (cv cv' : Conv F) (df df' : DF L F)
    (hfresh : cv.names = colNamesDict cv.colToStype cv.target)
    (hfresh' : cv'.names = colNamesDict cv'.colToStype cv'.target)
    (hc2s : cv'.colToStype.Perm cv.colToStype) (ht : cv'.target = cv.target)
    (hs : DictEq cv'.stats cv.stats) (he : cv'.embedders = cv.embedders)
    (hl : df'.labels = df.labels) (hp : df'.cols.Perm df.cols) (hnd : (df.cols.map (·.name)).Nodup)
    (hok : ConvFrameOK cv df) :
    ∃ tf cv1 tf' cv1', cv.call df = some (tf, cv1) ∧ cv'.call df' = some (tf', cv1') ∧
      DictEq tf'.names tf.names ∧ DictEq tf'.feats tf.feats ∧ tf'.y = tf.y ∧ DictEq cv1'.names cv1.names ∧
      (∀ name i, (∃ g ∈ cv.names, name ∈ g.2) → i < df.numRows → tf'.cell name i = tf.cell name i) := by
  have hcfg := cfg_congr cv cv' hs he
  have hst := stypeOf_perm cv cv' hc2s hok.c2s_nodup
  have hcol := col?_perm df df' hp hnd
  have hn : df'.numRows = df.numRows := by simp [DF.numRows, hl]
  have hok' := convFrameOK_congr cv cv' df df' hok hc2s ht hcfg hcol hn
  have h1 := callOK_fresh cv df hfresh hok
  have h2 := callOK_fresh cv' df' hfresh' hok'
  rw [hn] at h2
  refine call_dictEq cv cv' df df' df.numRows h1 h2 ?_ (specCol_congr cv cv' df df' hcfg hst hcol)
    (yOf_congr cv cv' df df' ht hcfg hst hcol hl)
  rw [hfresh, hfresh', ht]
  exact colNamesDict_perm _ _ hc2s _

end Mat
end TFVerif

/-
Well-formed storage is canonical: a nested container satisfying the representation invariant
(offset length, starts at 0, monotone, ends at the number of values) is exactly `MNT.ofGrid` of the
grid of its cells.  Hence every theorem stated for `MNT.ofGrid g` applies to every well-formed
container.  Core Lean only.
-/
import TFVerif.Proofs.RaggedCat

namespace TFVerif

open Grid

/-- the representation invariant of a `MultiNestedTensor`. -/
structure MNT.WFRep {α : Type} (m : MNT α) : Prop where
  len : m.offset.length = m.numRows * m.numCols + 1
  head : m.offset.head? = some 0
  last : m.offset.getLast? = some m.values.length
  mono : m.offset.Pairwise (· ≤ ·)

/-- successive differences -/
def diffs (o : List Nat) : List Nat := List.zipWith (· - ·) o.tail o.dropLast

theorem sorted_eq_ps (o : List Nat) (a : Nat) (rest : List Nat) (ho : o = a :: rest)
    (hs : o.Pairwise (· ≤ ·)) : o = ps a (diffs o) := by
  induction rest generalizing o a with
  | nil => subst ho; simp [diffs, ps]
  | cons b rest ih =>
    subst ho
    have hab : a ≤ b := by
      have := List.rel_of_pairwise_cons hs (a' := b) (by simp)
      exact this
    have hs' : (b :: rest).Pairwise (· ≤ ·) := (List.pairwise_cons.1 hs).2
    have := ih (b :: rest) b rfl hs'
    have hd : diffs (a :: b :: rest) = (b - a) :: diffs (b :: rest) := by
      simp [diffs]
    rw [hd]
    simp only [ps]
    have e : a + (b - a) = b := by omega
    rw [e, ← this]

theorem diffs_length (o : List Nat) : (diffs o).length = o.length - 1 := by
  simp [diffs]

/-- cut a list into consecutive pieces of the given lengths -/
def splitBy {β : Type} : List Nat → List β → List (List β)
  | [], _ => []
  | l :: ls, v => v.take l :: splitBy ls (v.drop l)

theorem splitBy_flatten {β : Type} (ls : List Nat) (v : List β) :
    (splitBy ls v).flatten = v.take ls.sum := by
  induction ls generalizing v with
  | nil => simp [splitBy]
  | cons l ls ih =>
    simp only [splitBy, List.flatten_cons, ih, List.sum_cons]
    rw [List.take_add]

theorem splitBy_lengths {β : Type} (ls : List Nat) (v : List β) (h : ls.sum ≤ v.length) :
    (splitBy ls v).map List.length = ls := by
  induction ls generalizing v with
  | nil => simp [splitBy]
  | cons l ls ih =>
    simp only [List.sum_cons] at h
    simp only [splitBy, List.map_cons, List.length_take]
    rw [ih (v.drop l) (by simp; omega)]
    congr 1
    omega

theorem splitBy_eq_map {β : Type} (ls : List Nat) (v : List β) (acc : Nat) (pre : List Nat) (hacc : acc = pre.sum) :
    splitBy ls (v.drop acc)
      = (List.range' pre.length ls.length).map fun k =>
          (v.drop ((pre ++ ls).take k).sum).take ((pre ++ ls).getD k 0) := by
  induction ls generalizing acc pre with
  | nil => simp [splitBy]
  | cons l ls ih =>
    simp only [splitBy, List.length_cons, List.range'_succ, List.map_cons]
    congr 1
    · have h1 : ((pre ++ l :: ls).take pre.length).sum = acc := by
        rw [List.take_left' rfl]; exact hacc.symm
      have h2 : (pre ++ l :: ls).getD pre.length 0 = l := by
        simp [List.getD_eq_getElem?_getD]
      rw [h1, h2]
    · have := ih (acc + l) (pre ++ [l]) (by simp [hacc])
      simp only [List.length_append, List.length_cons, List.length_nil, List.append_assoc,
        List.cons_append, List.nil_append] at this
      rw [List.drop_drop]
      exact this

theorem range_mul_flatMap {γ : Type} (R C : Nat) (f : Nat → γ) :
    (List.range R).flatMap (fun r => (List.range C).map fun c => f (r * C + c))
      = (List.range (R * C)).map f := by
  induction R with
  | zero => simp
  | succ R ih =>
    rw [List.range_succ, List.flatMap_append, ih, List.flatMap_singleton]
    have : (R + 1) * C = R * C + C := by rw [Nat.add_mul]; omega
    rw [this, List.range_add, List.map_append, List.map_map]
    rfl

/-- **canonicity**: a container satisfying the representation invariant is the canonical storage of
    the grid of its cells, and that grid is well-formed. -/
theorem wfrep_canonical {α : Type} (m : MNT α) (h : m.WFRep) :
    m = MNT.ofGrid m.grid ∧ m.grid.WF := by
  obtain ⟨hlen, hhead, hlast, hmono⟩ := h
  -- offset = ps 0 counts
  obtain ⟨a, rest, ho⟩ : ∃ a rest, m.offset = a :: rest := by
    cases h : m.offset with
    | nil => simp [h] at hlen
    | cons a r => exact ⟨a, r, rfl⟩
  have ha : a = 0 := by rw [ho] at hhead; simpa using hhead
  subst ha
  have hps : m.offset = ps 0 m.counts := by
    have := sorted_eq_ps m.offset 0 rest ho hmono
    exact this
  have hcl : m.counts.length = m.numRows * m.numCols := by
    have := diffs_length m.offset
    unfold MNT.counts; unfold diffs at this; omega
  have hsum : m.counts.sum = m.values.length := by
    have := ps_getLast? 0 m.counts
    rw [← hps, hlast] at this
    simpa using this.symm
  -- the cells
  have hcellAt : ∀ k, m.cellAt k
      = (m.values.drop (m.counts.take k).sum).take (m.counts.getD k 0) ∨ m.counts.length ≤ k := by
    intro k
    by_cases hk : k < m.counts.length
    · left
      unfold MNT.cellAt pySlice
      rw [hps, ps_getD 0 _ k (by omega), ps_getD 0 _ (k + 1) (by omega), List.take_add_one, List.sum_append]
      simp [List.getD_eq_getElem?_getD, hk]
    · right; omega
  have hcells : (List.range (m.numRows * m.numCols)).map m.cellAt = splitBy m.counts m.values := by
    have := splitBy_eq_map m.counts m.values 0 [] rfl
    simp only [List.drop_zero, List.length_nil, List.nil_append] at this
    rw [this, hcl, List.range_eq_range']
    apply List.map_congr_left
    intro k hk
    have hk' : k < m.counts.length := by
      rw [hcl]; simpa using (List.mem_range'_1.1 hk).2
    rcases hcellAt k with h | h
    · exact h
    · omega
  have hrows : m.grid.rows.flatten = splitBy m.counts m.values := by
    unfold MNT.grid
    simp only
    rw [← List.flatMap_def, range_mul_flatMap m.numRows m.numCols m.cellAt, hcells]
  refine ⟨?_, ?_⟩
  · unfold MNT.ofGrid
    simp only [hrows]
    rw [splitBy_flatten, splitBy_lengths _ _ (by omega), psums_eq, ← hps, hsum]
    cases m
    simp [MNT.grid]
  · intro row hrow
    simp only [MNT.grid, List.mem_map, List.mem_range] at hrow
    obtain ⟨r, _, rfl⟩ := hrow
    simp [MNT.grid]

/-- conversely the canonical storage of a well-formed grid satisfies the invariant. -/
theorem ps_pairwise (acc : Nat) (ls : List Nat) : (ps acc ls).Pairwise (· ≤ ·) := by
  induction ls generalizing acc with
  | nil => simp [ps]
  | cons x xs ih =>
    simp only [ps, List.pairwise_cons]
    refine ⟨?_, ih (acc + x)⟩
    intro y hy
    have : ∀ (a : Nat) (l : List Nat), ∀ z ∈ ps a l, a ≤ z := by
      intro a l
      induction l generalizing a with
      | nil => intro z hz; simp [ps] at hz; omega
      | cons u us ihu =>
        intro z hz
        simp only [ps, List.mem_cons] at hz
        rcases hz with rfl | hz
        · exact Nat.le_refl _
        · have := ihu (a + u) z hz; omega
    have := this (acc + x) xs y hy
    omega

theorem wfrep_ofGrid {α : Type} (g : Grid α) (hg : g.WF) : (MNT.ofGrid g).WFRep := by
  rw [MNT.ofGrid_eq]
  refine ⟨?_, ?_, ?_, ?_⟩
  · simp only [MNT.ofCells, ps_length, List.length_map, Grid.cells_length g hg]
  · exact ps_head? 0 _
  · simp [MNT.ofCells, ps_getLast?, List.length_flatten]
  · exact ps_pairwise 0 _

end TFVerif

namespace TFVerif

open Grid

/-- **canonicity (embedding container)**: a container satisfying the representation invariant with a
    monotone offset is the canonical storage of its cells with its column widths. -/
theorem met_wfrep_canonical {α : Type} (m : MET α) (h : m.WFRep) (hmono : m.offset.Pairwise (· ≤ ·)) :
    m = MET.ofW { grid := m.grid, widths := m.colWidths } ∧
    (WGrid.WF { grid := m.grid, widths := m.colWidths }) := by
  obtain ⟨hlen, hhead, hlast, hrowsN, hrowlen⟩ := h
  obtain ⟨a, rest, ho⟩ : ∃ a rest, m.offset = a :: rest := by
    cases h : m.offset with
    | nil => simp [h] at hlen
    | cons a r => exact ⟨a, r, rfl⟩
  have ha : a = 0 := by rw [ho] at hhead; simpa using hhead
  subst ha
  have hps : m.offset = ps 0 m.colWidths := sorted_eq_ps m.offset 0 rest ho hmono
  have hcl : m.colWidths.length = m.numCols := by
    have := diffs_length m.offset
    unfold MET.colWidths; unfold diffs at this; omega
  have hsum : m.colWidths.sum = m.width := by
    have := ps_getLast? 0 m.colWidths
    rw [← hps, hlast] at this
    simpa using this.symm
  -- cells of one stored row
  have hrow : ∀ row ∈ m.values,
      ((List.range m.numCols).map fun c =>
        pySlice row (m.offset.getD c 0) (m.offset.getD (c + 1) 0)) = splitBy m.colWidths row := by
    intro row _
    have := splitBy_eq_map m.colWidths row 0 [] rfl
    simp only [List.drop_zero, List.length_nil, List.nil_append] at this
    rw [this, hcl, List.range_eq_range']
    apply List.map_congr_left
    intro k hk
    have hk' : k < m.colWidths.length := by rw [hcl]; simpa using (List.mem_range'_1.1 hk).2
    unfold pySlice
    rw [hps, ps_getD 0 _ k (by omega), ps_getD 0 _ (k + 1) (by omega), List.take_add_one, List.sum_append]
    simp [List.getD_eq_getElem?_getD, hk']
  have hgrid : m.grid.rows = m.values.map (splitBy m.colWidths) := by
    unfold MET.grid
    simp only
    rw [← hrowsN]
    have := range_map_getD m.values [] (fun row => (List.range m.numCols).map fun c =>
      pySlice row (m.offset.getD c 0) (m.offset.getD (c + 1) 0))
    rw [this]
    exact List.map_congr_left hrow
  refine ⟨?_, ?_, ?_⟩
  · unfold MET.ofW MET.ofGrid
    simp only [hgrid, List.length_map, List.map_map, psums_eq, ← hps, hsum]
    have : m.values.map (List.flatten ∘ splitBy m.colWidths) = m.values := by
      conv => rhs; rw [← List.map_id m.values]
      apply List.map_congr_left
      intro row hr
      simp only [Function.comp, splitBy_flatten, id]
      rw [hsum, ← hrowlen row hr]; simp
    rw [this, hrowsN]
    cases m
    simp [MET.grid]
  · simp [MET.grid, hcl]
  · intro row hrow'
    rw [hgrid] at hrow'
    simp only [List.mem_map] at hrow'
    obtain ⟨r, hr, rfl⟩ := hrow'
    exact splitBy_lengths _ _ (by rw [hsum, hrowlen r hr]; exact Nat.le_refl _)

theorem met_ofW_mono {α : Type} (w : WGrid α) : (MET.ofW w).offset.Pairwise (· ≤ ·) := by
  have hO : (MET.ofW w).offset = ps 0 w.widths := by simp [MET.ofW, MET.ofGrid, psums_eq]
  rw [hO]; exact ps_pairwise 0 _

end TFVerif

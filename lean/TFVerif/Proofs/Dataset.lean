/-
Helper lemmas for C09 (dataset row subsets, splits, split generator).
-/
import TFVerif.Model.Dataset
import Mathlib.Tactic.Linarith
import Mathlib.Tactic.Ring

namespace TFVerif.Dataset

open TFVerif.Split

/-! ### gather -/

theorem pick_map (f : α → β) (xs : List α) (ps : List Nat) :
    pick (xs.map f) ps = (pick xs ps).map f := by
  unfold pick
  rw [List.map_filterMap]
  congr 1
  funext i
  simp

theorem pick_nil (xs : List α) : pick xs [] = [] := rfl

theorem pick_cons (xs : List α) (p : Nat) (ps : List Nat) :
    pick xs (p :: ps) = (xs[p]?).toList ++ pick xs ps := by
  unfold pick
  cases h : xs[p]? <;> simp [h]

theorem pick_append (xs : List α) (ps qs : List Nat) :
    pick xs (ps ++ qs) = pick xs ps ++ pick xs qs := by
  unfold pick; simp

theorem pick_length_of_lt (xs : List α) (ps : List Nat) (h : ∀ p ∈ ps, p < xs.length) :
    (pick xs ps).length = ps.length := by
  induction ps with
  | nil => rfl
  | cons p ps ih =>
    have hp : p < xs.length := h p (by simp)
    rw [pick_cons, List.getElem?_eq_getElem hp]
    simp [ih (fun q hq => h q (by simp [hq]))]

theorem pick_getElem? (xs : List α) (ps : List Nat) (h : ∀ p ∈ ps, p < xs.length) :
    ∀ j : Nat, (pick xs ps)[j]? = (ps[j]?).bind (fun i => xs[i]?) := by
  induction ps with
  | nil => intro j; simp [pick]
  | cons p ps ih =>
    intro j
    have hp : p < xs.length := h p (by simp)
    rw [pick_cons, List.getElem?_eq_getElem hp]
    cases j with
    | zero => simp [List.getElem?_eq_getElem hp]
    | succ j =>
      have := ih (fun q hq => h q (by simp [hq])) j
      simpa using this

theorem pick_range_take (xs : List α) : ∀ n, n ≤ xs.length → pick xs (List.range n) = xs.take n := by
  intro n
  induction n with
  | zero => intro _; simp [pick]
  | succ n ih =>
    intro h
    have hn : n < xs.length := by omega
    rw [List.range_succ, pick_append, ih (by omega), pick_cons, pick_nil, List.getElem?_eq_getElem hn,
      List.take_succ_eq_append_getElem hn]
    rfl

theorem pick_range (xs : List α) : pick xs (List.range xs.length) = xs := by
  rw [pick_range_take xs xs.length (Nat.le_refl _), List.take_length]

theorem pick_perm (xs : List α) (perm : List Nat) (h : perm.Perm (List.range xs.length)) :
    (pick xs perm).Perm xs := by
  have := List.Perm.filterMap (fun i => xs[i]?) h
  have e : (List.range xs.length).filterMap (fun i => xs[i]?) = xs := pick_range xs
  rw [e] at this
  exact this


/-! ### index lists made of natural numbers in range -/

theorem normIndex_ofNat (n i : Nat) (h : i < n) : normIndex n (Int.ofNat i) = some i := by
  unfold normIndex
  have h1 : ¬ ((i : Int) < 0) := by omega
  simp [h1]
  omega

theorem normIndex_ofNat_none (n i : Nat) (h : ¬ i < n) : normIndex n (Int.ofNat i) = none := by
  unfold normIndex
  have h1 : ¬ ((i : Int) < 0) := by omega
  simp [h1]
  omega

theorem normIndices_ofNat (n : Nat) (is : List Nat) (h : ∀ i ∈ is, i < n) :
    normIndices n (is.map Int.ofNat) = some is := by
  induction is with
  | nil => rfl
  | cons i is ih =>
    simp only [List.map_cons, normIndices]
    rw [normIndex_ofNat n i (h i (by simp)), ih (fun j hj => h j (by simp [hj]))]
    rfl

theorem normIndices_ofNat_none (n : Nat) (is : List Nat) (h : ∃ i ∈ is, n ≤ i) :
    normIndices n (is.map Int.ofNat) = none := by
  induction is with
  | nil => simp at h
  | cons i is ih =>
    simp only [List.map_cons, normIndices]
    by_cases hi : i < n
    · rw [normIndex_ofNat n i hi]
      have : ∃ j ∈ is, n ≤ j := by
        obtain ⟨j, hj, hn⟩ := h
        simp only [List.mem_cons] at hj
        rcases hj with rfl | hj
        · omega
        · exact ⟨j, hj, hn⟩
      rw [ih this]; rfl
    · have : normIndex n (Int.ofNat i) = none := normIndex_ofNat_none n i hi
      rw [this]; rfl

/-! ### boolean masks -/

theorem maskGo_lt (bs : List Bool) : ∀ k, ∀ i ∈ maskPositions.go k bs, i < k + bs.length := by
  induction bs with
  | nil => intro k i hi; simp [maskPositions.go] at hi
  | cons b bs ih =>
    intro k i hi
    simp only [maskPositions.go] at hi
    simp only [List.length_cons]
    cases b
    · simp only [Bool.false_eq_true, if_false] at hi
      have := ih (k + 1) i hi; omega
    · simp only [if_true, List.mem_cons] at hi
      rcases hi with rfl | hi
      · omega
      · have := ih (k + 1) i hi; omega

theorem maskPositions_lt (bs : List Bool) : ∀ i ∈ maskPositions bs, i < bs.length := by
  intro i hi
  have := maskGo_lt bs 0 i hi
  omega

theorem pick_maskGo (p : α → Bool) (xs : List α) : ∀ (pre : List α),
    pick (pre ++ xs) (maskPositions.go pre.length (xs.map p)) = xs.filter p := by
  induction xs with
  | nil => intro pre; simp [maskPositions.go, pick]
  | cons x xs ih =>
    intro pre
    have hstep := ih (pre ++ [x])
    simp only [List.length_append, List.length_cons, List.length_nil, List.append_assoc,
      List.cons_append, List.nil_append] at hstep
    simp only [List.map_cons, maskPositions.go, List.filter_cons]
    cases hp : p x
    · simp only [Bool.false_eq_true, if_false]
      exact hstep
    · simp only [if_true]
      rw [pick_cons, hstep]
      simp

/-- gathering at the non-zero positions of the mask `xs.map p` is `filter p` -/
theorem pick_mask (p : α → Bool) (xs : List α) :
    pick xs (maskPositions (xs.map p)) = xs.filter p := by
  have := pick_maskGo p xs []
  simpa [maskPositions] using this

/-! ### slices with step one -/

theorem pick_rangeGo (xs : List α) (b : Nat) (hb : b ≤ xs.length) : ∀ fuel a, a + fuel = b →
    pick xs (rangeStep.go b 1 fuel a) = (xs.drop a).take fuel := by
  intro fuel
  induction fuel with
  | zero => intro a _; simp [rangeStep.go, pick]
  | succ f ih =>
    intro a h
    have ha : a < b := by omega
    have hal : a < xs.length := by omega
    simp only [rangeStep.go, ha, if_true]
    rw [pick_cons, ih (a + (1 - 1) + 1) (by omega), List.getElem?_eq_getElem hal]
    have : a + (1 - 1) + 1 = a + 1 := by omega
    rw [this, List.drop_eq_getElem_cons hal, List.take_succ_cons]
    rfl

/-- `xs[a:b]` through the position list of the slice equals drop/take, for clamped bounds -/
theorem pick_rangeStep_one (xs : List α) (a b : Nat) (hb : b ≤ xs.length) :
    pick xs (rangeStep a b 1) = pySlice xs a b := by
  unfold rangeStep pySlice
  by_cases h : a ≤ b
  · exact pick_rangeGo xs b hb (b - a) a (by omega)
  · have : b - a = 0 := by omega
    rw [this]; simp [rangeStep.go, pick]

theorem clampBound_le (n : Nat) (b : Option Int) (d : Nat) (hd : d ≤ n) : clampBound n b d ≤ n := by
  unfold clampBound
  cases b with
  | none => simpa using hd
  | some x =>
    simp only
    split
    · split
      · omega
      · omega
    · split
      · omega
      · omega

/-! ### Python `round` -/

theorem roundHalfEven_spec (p : Int) (q : Nat) (hq : 0 < q) :
    -(q : Int) ≤ 2 * (roundHalfEven p q * q - p) ∧ 2 * (roundHalfEven p q * q - p) ≤ q ∧
    ((2 * (roundHalfEven p q * q - p) = q ∨ 2 * (roundHalfEven p q * q - p) = -(q : Int)) →
      roundHalfEven p q % 2 = 0) := by
  have hq' : (0 : Int) < q := by exact_mod_cast hq
  have h1 := Int.emod_add_mul_ediv p q
  have h2 := Int.emod_nonneg p (Int.ne_of_gt hq')
  have h3 := Int.emod_lt_of_pos p hq'
  unfold roundHalfEven
  simp only
  generalize p / (q : Int) = f at *
  generalize p % (q : Int) = r at *
  have e1 : f * (q : Int) = p - r := by linarith [mul_comm f (q : Int)]
  have e2 : (f + 1) * (q : Int) = p - r + q := by rw [add_mul]; linarith
  split
  · rw [e1]; refine ⟨by omega, by omega, ?_⟩; intro h; omega
  · split
    · rw [e2]; refine ⟨by omega, by omega, ?_⟩; intro h; omega
    · split
      · rw [e1]; refine ⟨by omega, by omega, ?_⟩; intro _; assumption
      · rw [e2]; refine ⟨by omega, by omega, ?_⟩; intro _; omega


/-! ### dataset operations -/

theorem indexSelect_eq (d : DS) (ix : DIndex) (hal : d.Aligned) (hm : d.materialized = true) :
    d.indexSelect ix = ((ix.resolve d.df.length).positions d.df.length).map fun ps =>
      { d with df := pick d.df ps, tf := (pick d.df ps).map enc } := by
  have htf : d.tf = d.df.map enc := hal hm
  have hlen : d.tf.length = d.df.length := by rw [htf, List.length_map]
  unfold DS.indexSelect
  simp only [hm, Bool.not_true, Bool.false_eq_true, if_false, hlen]
  cases h : (ix.resolve d.df.length).positions d.df.length with
  | none => rfl
  | some ps => simp only [Option.map_some, htf, pick_map]

theorem indexSelect_unmaterialized (d : DS) (ix : DIndex) (hm : d.materialized = false) :
    d.indexSelect ix = none := by
  unfold DS.indexSelect; simp [hm]

theorem indexSelect_props (d d' : DS) (ix : DIndex) (hal : d.Aligned) (h : d.indexSelect ix = some d') :
    d'.Aligned ∧ d'.materialized = true ∧ d.materialized = true ∧
    ∃ ps, (ix.resolve d.df.length).positions d.df.length = some ps ∧
      d'.df = pick d.df ps ∧ d'.tf = (pick d.df ps).map enc := by
  cases hm : d.materialized with
  | false => rw [indexSelect_unmaterialized d ix hm] at h; cases h
  | true =>
    rw [indexSelect_eq d ix hal hm] at h
    cases hp : (ix.resolve d.df.length).positions d.df.length with
    | none => rw [hp] at h; cases h
    | some ps =>
      rw [hp] at h
      simp only [Option.map_some, Option.some.injEq] at h
      subst h
      exact ⟨fun _ => rfl, hm, rfl, ps, rfl, rfl, rfl⟩

theorem resolve_list (n : Nat) (is : List Int) : (DIndex.idx (.list is)).resolve n = .list is := rfl

theorem getSplit_eq (d : DS) (name : String) (k : Nat) (hal : d.Aligned) (hm : d.materialized = true)
    (hs : d.splitCol = true) (hdf : d.splitInDf = true) (hk : splitNum.lookup name = some k) :
    d.getSplit name = some { d with df := d.df.filter (fun r => r.split == k),
                                    tf := (d.df.filter (fun r => r.split == k)).map enc } := by
  unfold DS.getSplit
  simp only [hs, hdf, hk, Bool.not_true, Bool.false_eq_true, if_false]
  rw [indexSelect_eq d _ hal hm, resolve_list]
  have hlt : ∀ i ∈ maskPositions (d.df.map fun r => r.split == k), i < d.df.length := by
    intro i hi
    have := maskPositions_lt _ i hi
    simpa using this
  simp only [Index.positions]
  rw [normIndices_ofNat _ _ hlt]
  simp only [Option.map_some]
  rw [pick_mask (fun r : Row => r.split == k) d.df, hs, hdf]

theorem shuffle_eq (d : DS) (perm : List Nat) (hal : d.Aligned) (hm : d.materialized = true)
    (hp : perm.Perm (List.range d.df.length)) :
    d.shuffle perm = some { d with df := pick d.df perm, tf := (pick d.df perm).map enc } := by
  unfold DS.shuffle
  rw [indexSelect_eq d _ hal hm, resolve_list]
  have hlt : ∀ i ∈ perm, i < d.df.length := by
    intro i hi
    have := (hp.mem_iff).1 hi
    simpa using this
  simp only [Index.positions]
  rw [normIndices_ofNat _ _ hlt]
  rfl

theorem materialize_props (d d' : DS) (h : d.materialize = some d') (hal : d.Aligned) :
    d'.Aligned ∧ d'.materialized = true ∧ d'.df = d.df := by
  unfold DS.materialize at h
  split at h
  · cases h; rename_i hm; exact ⟨hal, hm, rfl⟩
  · split at h
    · cases h
    · cases h; exact ⟨fun _ => rfl, rfl, rfl⟩

theorem withTarget_target (cs : List String) (t : String) : t ∈ DS.withTarget (some t) cs := by
  unfold DS.withTarget
  by_cases hc : cs.contains t = true
  · simp only [hc, if_true]; simpa using hc
  · simp only [hc]; simp

theorem withTarget_sub (target : Option String) (cs : List String) : ∀ c ∈ cs, c ∈ DS.withTarget target cs := by
  intro c hc
  unfold DS.withTarget
  cases target with
  | none => exact hc
  | some t =>
    simp only
    split
    · exact hc
    · simp [hc]

theorem colSelect_props (d d' : DS) (cs : List String) (h : d.colSelect cs = some d') :
    d.materialized = false ∧ d'.materialized = false ∧ d'.df = d.df ∧
    d'.cols = DS.withTarget d.target cs ∧ (∀ c ∈ d'.cols, c ∈ d.cols) := by
  unfold DS.colSelect at h
  cases hm : d.materialized with
  | true => simp [hm] at h
  | false =>
    simp only [hm, Bool.false_eq_true, if_false] at h
    by_cases hall : ((DS.withTarget d.target cs).all (d.cols.contains ·)) = true
    · rw [if_pos hall] at h
      simp only [Option.some.injEq] at h
      subst h
      refine ⟨rfl, rfl, rfl, rfl, ?_⟩
      intro c hc
      have := List.all_eq_true.1 hall c hc
      simpa using this
    · rw [if_neg hall] at h; cases h

/-! ### pool steps -/

theorem derive_wf (pool : List DS) (r : Option (List DS)) (hw : PoolWF pool)
    (hr : ∀ ds, r = some ds → ∀ d ∈ ds, d.Aligned) : PoolWF (derive pool r).1 := by
  unfold derive
  cases r with
  | none => exact hw
  | some ds =>
    intro d hd
    simp only [List.mem_append] at hd
    rcases hd with hd | hd
    · exact hw d hd
    · exact hr ds rfl d hd

theorem mem_of_getElem? {pool : List DS} {i : Nat} {d : DS} (h : pool[i]? = some d) : d ∈ pool :=
  List.mem_of_getElem? h

theorem split_props (d a b c : DS) (h : d.split = some (a, b, c)) :
    d.getSplit "train" = some a ∧ d.getSplit "val" = some b ∧ d.getSplit "test" = some c := by
  unfold DS.split at h
  cases h1 : d.getSplit "train" with
  | none => simp [h1] at h
  | some a' =>
    cases h2 : d.getSplit "val" with
    | none => simp [h1, h2] at h
    | some b' =>
      cases h3 : d.getSplit "test" with
      | none => simp [h1, h2, h3] at h
      | some c' =>
        simp only [h1, h2, h3, Option.bind_eq_bind, Option.bind_some, Option.pure_def,
          Option.some.injEq, Prod.mk.injEq] at h
        obtain ⟨rfl, rfl, rfl⟩ := h
        exact ⟨rfl, rfl, rfl⟩

theorem getSplit_aligned (d d' : DS) (name : String) (hal : d.Aligned) (h : d.getSplit name = some d') :
    d'.Aligned := by
  unfold DS.getSplit at h
  split at h
  · cases h
  · split at h
    · cases h
    · split at h
      · cases h
      · exact (indexSelect_props d d' _ hal h).1

theorem step_wf (pool : List DS) (op : Op) (hw : PoolWF pool) : PoolWF (step pool op).1 := by
  cases op with
  | materialize src =>
    simp only [step]
    cases hs : pool[src]? with
    | none => exact hw
    | some d =>
      simp only
      cases hm : d.materialize with
      | none => exact hw
      | some d' =>
        intro x hx
        rcases List.mem_or_eq_of_mem_set hx with hx | hx
        · exact hw x hx
        · subst hx
          exact (materialize_props d x hm (hw d (mem_of_getElem? hs))).1
  | select src ix =>
    simp only [step]
    apply derive_wf pool _ hw
    intro ds hds x hx
    cases hs : pool[src]? with
    | none => simp [hs] at hds
    | some d =>
      simp only [hs, Option.bind_some, Option.map_eq_some_iff] at hds
      obtain ⟨d', hd', rfl⟩ := hds
      simp only [List.mem_singleton] at hx
      subst hx
      exact (indexSelect_props d x ix (hw d (mem_of_getElem? hs)) hd').1
  | shuffle src perm =>
    simp only [step]
    apply derive_wf pool _ hw
    intro ds hds x hx
    cases hs : pool[src]? with
    | none => simp [hs] at hds
    | some d =>
      simp only [hs, Option.bind_some, Option.map_eq_some_iff] at hds
      obtain ⟨d', hd', rfl⟩ := hds
      simp only [List.mem_singleton] at hx
      subst hx
      exact (indexSelect_props d x _ (hw d (mem_of_getElem? hs)) hd').1
  | getSplit src name =>
    simp only [step]
    apply derive_wf pool _ hw
    intro ds hds x hx
    cases hs : pool[src]? with
    | none => simp [hs] at hds
    | some d =>
      simp only [hs, Option.bind_some, Option.map_eq_some_iff] at hds
      obtain ⟨d', hd', rfl⟩ := hds
      simp only [List.mem_singleton] at hx
      subst hx
      exact getSplit_aligned d x name (hw d (mem_of_getElem? hs)) hd'
  | split src =>
    simp only [step]
    apply derive_wf pool _ hw
    intro ds hds x hx
    cases hs : pool[src]? with
    | none => simp [hs] at hds
    | some d =>
      simp only [hs, Option.bind_some, Option.map_eq_some_iff] at hds
      obtain ⟨⟨a, b, c⟩, habc, rfl⟩ := hds
      have hal := hw d (mem_of_getElem? hs)
      obtain ⟨h1, h2, h3⟩ := split_props d a b c habc
      simp only [List.mem_cons, List.not_mem_nil, or_false] at hx
      rcases hx with rfl | rfl | rfl
      · exact getSplit_aligned d _ _ hal h1
      · exact getSplit_aligned d _ _ hal h2
      · exact getSplit_aligned d _ _ hal h3
  | colSelect src cs =>
    simp only [step]
    apply derive_wf pool _ hw
    intro ds hds x hx
    cases hs : pool[src]? with
    | none => simp [hs] at hds
    | some d =>
      simp only [hs, Option.bind_some, Option.map_eq_some_iff] at hds
      obtain ⟨d', hd', rfl⟩ := hds
      simp only [List.mem_singleton] at hx
      subst hx
      have := (colSelect_props d x cs hd').2.1
      intro hm; rw [this] at hm; cases hm
  | tensorFrame src =>
    simp only [step]
    cases (pool[src]?).bind DS.tensorFrame <;> exact hw

theorem run_wf : ∀ (ops : List Op) (pool : List DS), PoolWF pool → PoolWF (run ops pool).1
  | [], pool, hw => hw
  | op :: ops, pool, hw => by
    simp only [run]
    exact run_wf ops (step pool op).1 (step_wf pool op hw)

/-- a step never changes a dataset that already exists, except `materialize` its own source -/
theorem step_keeps (pool : List DS) (op : Op) (i : Nat) (hi : i < pool.length)
    (hne : op.mutates ≠ some i) : (step pool op).1[i]? = pool[i]? := by
  have happ : ∀ r, (derive pool r).1[i]? = pool[i]? := by
    intro r
    unfold derive
    cases r with
    | none => rfl
    | some ds => exact List.getElem?_append_left hi
  cases op with
  | materialize src =>
    simp only [step]
    cases hs : pool[src]? with
    | none => rfl
    | some d =>
      simp only
      cases hm : d.materialize with
      | none => rfl
      | some d' =>
        have : src ≠ i := by
          intro h; apply hne; simp [Op.mutates, h]
        simp only
        rw [List.getElem?_set_ne this]
  | select src ix => exact happ _
  | shuffle src perm => exact happ _
  | getSplit src name => exact happ _
  | split src => exact happ _
  | colSelect src cs => exact happ _
  | tensorFrame src =>
    simp only [step]
    cases (pool[src]?).bind DS.tensorFrame <;> rfl

theorem step_length_le (pool : List DS) (op : Op) : pool.length ≤ (step pool op).1.length := by
  have happ : ∀ r, pool.length ≤ (derive pool r).1.length := by
    intro r; unfold derive
    cases r with
    | none => exact Nat.le_refl _
    | some ds => simp
  cases op with
  | materialize src =>
    simp only [step]
    cases pool[src]? with
    | none => exact Nat.le_refl _
    | some d =>
      simp only
      cases d.materialize with
      | none => exact Nat.le_refl _
      | some d' => simp
  | select src ix => exact happ _
  | shuffle src perm => exact happ _
  | getSplit src name => exact happ _
  | split src => exact happ _
  | colSelect src cs => exact happ _
  | tensorFrame src =>
    simp only [step]
    cases (pool[src]?).bind DS.tensorFrame <;> exact Nat.le_refl _

/-- a materialized dataset is never changed by any step (re-materializing is the identity) -/
theorem step_keeps_materialized (pool : List DS) (op : Op) (i : Nat) (d : DS)
    (hd : pool[i]? = some d) (hm : d.materialized = true) : (step pool op).1[i]? = some d := by
  have hi : i < pool.length := by
    rcases Nat.lt_or_ge i pool.length with h | h
    · exact h
    · rw [List.getElem?_eq_none h] at hd; cases hd
  by_cases hne : op.mutates = some i
  · cases op with
    | materialize src =>
      simp only [Op.mutates, Option.some.injEq] at hne
      subst hne
      have hmat : d.materialize = some d := by unfold DS.materialize; simp [hm]
      simp only [step, hd, hmat]
      rw [List.getElem?_set_self hi]
    | select src ix => simp [Op.mutates] at hne
    | shuffle src perm => simp [Op.mutates] at hne
    | getSplit src name => simp [Op.mutates] at hne
    | split src => simp [Op.mutates] at hne
    | colSelect src cs => simp [Op.mutates] at hne
    | tensorFrame src => simp [Op.mutates] at hne
  · rw [step_keeps pool op i hi hne, hd]

theorem run_keeps_materialized : ∀ (ops : List Op) (pool : List DS) (i : Nat) (d : DS),
    pool[i]? = some d → d.materialized = true → (run ops pool).1[i]? = some d
  | [], _, _, _, hd, _ => hd
  | op :: ops, pool, i, d, hd, hm => by
    simp only [run]
    exact run_keeps_materialized ops _ i d (step_keeps_materialized pool op i d hd hm) hm

/-- the DataFrame of an existing dataset is never changed by a step -/
theorem step_keeps_df (pool : List DS) (op : Op) (i : Nat) (d : DS) (hd : pool[i]? = some d) :
    ∃ d', (step pool op).1[i]? = some d' ∧ d'.df = d.df ∧ d'.cols = d.cols := by
  have hi : i < pool.length := by
    rcases Nat.lt_or_ge i pool.length with h | h
    · exact h
    · rw [List.getElem?_eq_none h] at hd; cases hd
  by_cases hne : op.mutates = some i
  · cases op with
    | materialize src =>
      simp only [Op.mutates, Option.some.injEq] at hne
      subst hne
      simp only [step, hd]
      cases hmat : d.materialize with
      | none => exact ⟨d, hd, rfl, rfl⟩
      | some d' =>
        refine ⟨d', ?_, ?_, ?_⟩
        · simp only; rw [List.getElem?_set_self hi]
        · unfold DS.materialize at hmat
          split at hmat
          · cases hmat; rfl
          · split at hmat
            · cases hmat
            · cases hmat; rfl
        · unfold DS.materialize at hmat
          split at hmat
          · cases hmat; rfl
          · split at hmat
            · cases hmat
            · cases hmat; rfl
    | select src ix => simp [Op.mutates] at hne
    | shuffle src perm => simp [Op.mutates] at hne
    | getSplit src name => simp [Op.mutates] at hne
    | split src => simp [Op.mutates] at hne
    | colSelect src cs => simp [Op.mutates] at hne
    | tensorFrame src => simp [Op.mutates] at hne
  · exact ⟨d, by rw [step_keeps pool op i hi hne, hd], rfl, rfl⟩

theorem run_keeps_df : ∀ (ops : List Op) (pool : List DS) (i : Nat) (d : DS),
    pool[i]? = some d → ∃ d', (run ops pool).1[i]? = some d' ∧ d'.df = d.df ∧ d'.cols = d.cols
  | [], _, _, d, hd => ⟨d, hd, rfl, rfl⟩
  | op :: ops, pool, i, d, hd => by
    simp only [run]
    obtain ⟨d1, h1, e1, c1⟩ := step_keeps_df pool op i d hd
    obtain ⟨d2, h2, e2, c2⟩ := run_keeps_df ops _ i d1 h1
    exact ⟨d2, h2, e2.trans e1, c2.trans c1⟩

end TFVerif.Dataset

/-! ### split generator -/

namespace TFVerif.Split

open TFVerif.Dataset (pick pick_perm)

theorem arrange_eq_pick (arr perm : List Nat) : arrange arr perm = pick arr perm := rfl

theorem floorMul_spec (n : Nat) (r : Ratio) (hq : 0 < r.q) (hp : 0 ≤ r.p) :
    (floorMul n r : Int) * r.q ≤ n * r.p ∧ (n : Int) * r.p < ((floorMul n r : Int) + 1) * r.q := by
  have hq' : (0 : Int) < r.q := by exact_mod_cast hq
  have hnp : (0 : Int) ≤ n * r.p := Int.mul_nonneg (Int.natCast_nonneg n) hp
  have hdiv : (0 : Int) ≤ (n : Int) * r.p / r.q := Int.ediv_nonneg hnp (Int.le_of_lt hq')
  unfold floorMul
  rw [Int.toNat_of_nonneg hdiv]
  exact ⟨Int.ediv_mul_le _ (Int.ne_of_gt hq'), Int.lt_ediv_add_one_mul_self _ hq'⟩

theorem floor_sum_le (n : Nat) (a b : Ratio) (hqa : 0 < a.q) (hqb : 0 < b.q) (hpa : 0 ≤ a.p) (hpb : 0 ≤ b.p)
    (hlt : a.p * b.q + b.p * a.q ≤ (a.q : Int) * b.q) : floorMul n a + floorMul n b ≤ n := by
  obtain ⟨ha, _⟩ := floorMul_spec n a hqa hpa
  obtain ⟨hb, _⟩ := floorMul_spec n b hqb hpb
  have hqa' : (0 : Int) < a.q := by exact_mod_cast hqa
  have hqb' : (0 : Int) < b.q := by exact_mod_cast hqb
  have hn : (0 : Int) ≤ n := Int.natCast_nonneg n
  by_contra hcon
  have hcon' : (n : Int) + 1 ≤ (floorMul n a : Int) + (floorMul n b : Int) := by omega
  have h1 : (floorMul n a : Int) * a.q * b.q ≤ n * a.p * b.q := mul_le_mul_of_nonneg_right ha hqb'.le
  have h2 : (floorMul n b : Int) * b.q * a.q ≤ n * b.p * a.q := mul_le_mul_of_nonneg_right hb hqa'.le
  have h3 : (n : Int) * (a.p * b.q + b.p * a.q) ≤ n * ((a.q : Int) * b.q) := mul_le_mul_of_nonneg_left hlt hn
  have h4 : ((n : Int) + 1) * ((a.q : Int) * b.q) ≤ ((floorMul n a : Int) + floorMul n b) * ((a.q : Int) * b.q) :=
    mul_le_mul_of_nonneg_right hcon' (mul_pos hqa' hqb').le
  have h5 : (0 : Int) < (a.q : Int) * b.q := mul_pos hqa' hqb'
  nlinarith

theorem count_blocks (t v te : Nat) :
    (blocks (t, v, te)).count 0 = t ∧ (blocks (t, v, te)).count 1 = v ∧ (blocks (t, v, te)).count 2 = te ∧
    (blocks (t, v, te)).length = t + v + te := by
  have e0 : num "train" = 0 := by decide
  have e1 : num "val" = 1 := by decide
  have e2 : num "test" = 2 := by decide
  unfold blocks
  simp only [e0, e1, e2, List.count_append, List.count_replicate, List.length_append, List.length_replicate]
  simp

end TFVerif.Split


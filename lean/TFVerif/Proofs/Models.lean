/-
Helper lemmas about the seven model-zoo backbones (`Model/Models.lean`, property C14): every backbone
commutes with every row selection; output shapes.
-/
import TFVerif.Proofs.Conv
import TFVerif.Model.Models

namespace TFVerif
open List

theorem selectRows_replicate {α β : Type} (idx : List Nat) (X : List β) (a : α) :
    selectRows idx (List.replicate X.length a) = List.replicate (selectRows idx X).length a := by
  rw [← List.map_const' (l := X) (b := a), selectRows_map, List.map_const']

namespace TOps
variable {R : Type} (o : TOps R)

/-! ### MLP, ResNet, FT-Transformer, ExcelFormer: the batch function is the map of the row function -/

theorem normApply_eq (N : Norm R) (X : Mat R) : o.normApply N X = X.map (o.normV N) := by
  cases N with
  | none =>
    show X = X.map (o.normV .none)
    induction X with
    | nil => rfl
    | cons x xs ih => rw [List.map_cons, ← ih]; rfl
  | layer N => rfl
  | batch N => rfl

theorem mlp_eq (θ : MLP R) (X : T3 R) : o.mlp θ X = X.map (o.mlpRow θ) := by
  unfold mlp mlpRow
  have h : ∀ (L : MLPLayer R) (Y : Mat R),
      o.reluM (o.normApply L.norm (o.linearLast L.lin Y)) =
        Y.map fun v => (o.normV L.norm (o.linearV L.lin v)).map o.relu := by
    intro L Y
    simp [reluM, normApply_eq, linearLast, List.map_map, Function.comp_def]
  dsimp only
  rw [foldl_map_comm (fun (L : MLPLayer R) Y => o.reluM (o.normApply L.norm (o.linearLast L.lin Y)))
    (fun L v => (o.normV L.norm (o.linearV L.lin v)).map o.relu) h]
  simp only [linearLast, List.map_map, Function.comp_def]

theorem resBlock_eq (b : ResBlock R) (X : Mat R) : o.resBlock b X = X.map (o.resBlockV b) := by
  unfold resBlock resBlockV
  cases b.shortcut with
  | none =>
    simp only [reluM, normApply_eq, linearLast, List.map_map, Function.comp_def, addM]
    exact zipWith_self_map_left _ _ _
  | some L =>
    simp only [reluM, normApply_eq, linearLast, List.map_map, Function.comp_def, addM]
    exact zipWith_map_map_self _ _ _ _

theorem resnet_eq (θ : ResNet R) (X : T3 R) : o.resnet θ X = X.map (o.resnetRow θ) := by
  unfold resnet resnetRow
  dsimp only
  rw [foldl_map_comm (fun (b : ResBlock R) Y => o.resBlock b Y) (fun b v => o.resBlockV b v)
    (fun b Y => o.resBlock_eq b Y)]
  simp only [linearLast, layerNormLast, reluM, List.map_map, Function.comp_def]

theorem ftTransformer_eq (θ : FTTransformer R) (X : T3 R) :
    o.ftTransformer θ X = X.map (o.ftTransformerRow θ) := by
  unfold ftTransformer ftTransformerRow
  dsimp only
  rw [ftConvs_eq]
  simp only [linearLast, layerNormLast, reluM, List.map_map, Function.comp_def]

theorem excelFormer_eq (θ : ExcelFormer R) (X : T3 R) : o.excelFormer θ X = X.map (o.excelFormerRow θ) := by
  unfold excelFormer excelFormerRow excelDec
  rw [foldl_map_comm (fun (cv : ExcelConv R) Y => o.excelConv θ.channels θ.numCols cv Y)
    (fun cv M => o.excelSample θ.channels θ.numCols cv M) (fun cv Y => o.excelConv_eq _ _ cv Y), List.map_map]
  rfl

/-! ### TabTransformer -/

theorem tabTCat_eq (θ : TabTransformer R) (Xc : T3 R) :
    o.tabTCat θ Xc.length Xc = Xc.map (o.tabTCatRow θ) := by
  unfold tabTCat tabTCatRow
  dsimp only
  rw [zipWith_replicate_right,
    foldl_map_comm (fun (cv : TabTConv R) Y => o.tabTConv θ.channels θ.numCat cv Y)
      (fun cv M => o.tabTSample θ.channels θ.numCat cv M) (fun cv Y => o.tabTConv_eq _ _ cv Y)]
  simp only [List.map_map, Function.comp_def]

theorem tabTDecoder_eq (θ : TabTransformer R) (X : Mat R) : o.tabTDecoder θ X = X.map (o.tabTDecoderV θ) := by
  simp only [tabTDecoder, seluM, bnEval, linearLast, List.map_map, Function.comp_def]
  rfl

theorem tabTNum_eq (θ : TabTransformer R) (Xn : T3 R) :
    o.tabTNum θ Xn = Xn.map fun M => o.layerNormV θ.numNorm M.flatten := by
  simp only [tabTNum, layerNormLast, List.map_map, Function.comp_def]

theorem tabTransformer_rowwise (θ : TabTransformer R) (idx : List Nat) (Xc Xn : T3 R)
    (h : θ.hasCat = true → θ.hasNum = true → Xc.length = Xn.length) :
    o.tabTransformer θ (selectRows idx Xc) (selectRows idx Xn) = selectRows idx (o.tabTransformer θ Xc Xn) := by
  unfold tabTransformer
  dsimp only
  rw [tabTDecoder_eq, tabTDecoder_eq, selectRows_map]
  congr 1
  cases hc : θ.hasCat <;> cases hn : θ.hasNum <;> simp only [↓reduceIte]
  · simp [selectRows]
  · rw [tabTNum_eq, tabTNum_eq, selectRows_map]
  · rw [tabTCat_eq, tabTCat_eq, selectRows_map]
  · rw [tabTCat_eq, tabTCat_eq, tabTNum_eq, tabTNum_eq, selectRows_zipWith _ _ _ _ (by simpa using h hc hn),
      selectRows_map, selectRows_map]

/-! ### Trompt -/

theorem length_tromptConvCore (θ : TromptConv R) (X XP : T3 R) (h : X.length = XP.length) :
    (o.tromptConvCore θ X XP).length = XP.length := by
  rw [tromptConvCore_eq _ _ _ _ h]; simp [h]

theorem tromptLoop_rowwise (dec : TromptDec R) (idx : List Nat) :
    ∀ (ps : List (TromptConv R × T3 R)) (XP : T3 R), (∀ p ∈ ps, p.2.length = XP.length) →
      o.tromptLoop dec (ps.map fun p => (p.1, selectRows idx p.2)) (selectRows idx XP) =
        (o.tromptLoop dec ps XP).map (selectRows idx)
  | [], _, _ => rfl
  | (θ, X) :: rest, XP, h => by
    have hX : X.length = XP.length := h (θ, X) (by simp)
    simp only [List.map_cons, tromptLoop]
    rw [o.tromptConvCore_rowwise θ idx X XP hX, tromptDecCore_rowwise,
      tromptLoop_rowwise dec idx rest (o.tromptConvCore θ X XP)
        (fun p hp => by rw [o.length_tromptConvCore θ X XP hX]; exact h p (by simp [hp]))]

theorem length_tromptLoop (dec : TromptDec R) :
    ∀ (ps : List (TromptConv R × T3 R)) (XP : T3 R), (∀ p ∈ ps, p.2.length = XP.length) →
      ∀ out ∈ o.tromptLoop dec ps XP, out.length = XP.length
  | [], _, _ => by simp [tromptLoop]
  | (θ, X) :: rest, XP, h => by
    have hX : X.length = XP.length := h (θ, X) (by simp)
    intro out hout
    simp only [tromptLoop, List.mem_cons] at hout
    rcases hout with rfl | hout
    · simp [tromptDecCore, o.length_tromptConvCore θ X XP hX]
    · have := length_tromptLoop dec rest (o.tromptConvCore θ X XP)
        (fun p hp => by rw [o.length_tromptConvCore θ X XP hX]; exact h p (by simp [hp])) out hout
      rw [this, o.length_tromptConvCore θ X XP hX]

end TOps

theorem stackFold_rowwise {R : Type} (idx : List Nat) :
    ∀ (outs : List (Mat R)) (acc : T3 R), (∀ out ∈ outs, out.length = acc.length) →
      (outs.map (selectRows idx)).foldl (fun acc out => List.zipWith (fun a v => a ++ [v]) acc out)
          (selectRows idx acc) =
        selectRows idx (outs.foldl (fun acc out => List.zipWith (fun a v => a ++ [v]) acc out) acc)
  | [], _, _ => rfl
  | out :: outs, acc, h => by
    have ho : out.length = acc.length := h out (by simp)
    simp only [List.map_cons, List.foldl_cons]
    rw [← selectRows_zipWith _ _ _ _ ho.symm]
    exact stackFold_rowwise idx outs _ (fun o' ho' => by simp [ho, h o' (by simp [ho'])])

namespace TOps
variable {R : Type} (o : TOps R)

theorem trompt_rowwise_model (θ : Trompt R) (idx : List Nat) (Xs : List (T3 R)) (B : Nat)
    (h : ∀ X ∈ Xs, X.length = B) :
    o.trompt θ (Xs.map (selectRows idx)) = selectRows idx (o.trompt θ Xs) := by
  cases Xs with
  | nil => simp [trompt, stackLayers, tromptLoop, selectRows]
  | cons X0 rest =>
    have h0 : X0.length = B := h X0 (by simp)
    have hps : ∀ p ∈ θ.convs.zip (X0 :: rest), p.2.length = (List.replicate X0.length θ.xPrompt).length := by
      intro p hp
      have := (List.of_mem_zip hp).2
      simp [h p.2 this, h0]
    have hz : θ.convs.zip ((X0 :: rest).map (selectRows idx)) =
        (θ.convs.zip (X0 :: rest)).map fun p => (p.1, selectRows idx p.2) := by
      rw [List.zip_map_right]; rfl
    have hloop := o.tromptLoop_rowwise θ.dec idx (θ.convs.zip (X0 :: rest))
      (List.replicate X0.length θ.xPrompt) hps
    show stackLayers (selectRows idx X0).length
        (o.tromptLoop θ.dec (θ.convs.zip ((X0 :: rest).map (selectRows idx)))
          (List.replicate (selectRows idx X0).length θ.xPrompt)) =
      selectRows idx (stackLayers X0.length
        (o.tromptLoop θ.dec (θ.convs.zip (X0 :: rest)) (List.replicate X0.length θ.xPrompt)))
    rw [hz, ← selectRows_replicate idx X0 θ.xPrompt, hloop]
    unfold stackLayers
    rw [← selectRows_replicate idx X0 ([] : Mat R)]
    exact stackFold_rowwise idx _ _ (fun out hout => by
      rw [o.length_tromptLoop θ.dec _ _ hps out hout]; simp)

end TOps

/-! ### TabNet -/

theorem foldl_zipWith_rowwise {α β : Type} (op : α → β → α) (idx : List Nat) :
    ∀ (fs : List (List β)) (acc : List α), (∀ f ∈ fs, f.length = acc.length) →
      (fs.map (selectRows idx)).foldl (fun acc f => List.zipWith op acc f) (selectRows idx acc) =
        selectRows idx (fs.foldl (fun acc f => List.zipWith op acc f) acc)
  | [], _, _ => rfl
  | f :: fs, acc, h => by
    have hf : f.length = acc.length := h f (by simp)
    simp only [List.map_cons, List.foldl_cons]
    rw [← selectRows_zipWith _ _ _ _ hf.symm]
    exact foldl_zipWith_rowwise op idx fs _ (fun f' hf' => by simp [hf, h f' (by simp [hf'])])

namespace TOps
variable {R : Type} (o : TOps R)

theorem attnTrans_eq (a : AttnTrans R) (hv : 0 < a.vbs) (X prior : Mat R) :
    o.attnTrans a X prior = List.zipWith (fun p r => o.attnTransV a r p) prior X := by
  unfold attnTrans attnTransV
  have hb : o.bnEval a.bn = fun Y => Y.map (o.bnEvalV a.bn) := rfl
  rw [hb, ghostBN_map a.vbs hv, linearLast, List.map_map, List.map_zipWith, List.zipWith_map_right]
  rfl

theorem length_attnTrans (a : AttnTrans R) (hv : 0 < a.vbs) (X prior : Mat R) (h : X.length = prior.length) :
    (o.attnTrans a X prior).length = prior.length := by
  rw [o.attnTrans_eq a hv]; simp [h]

theorem attnTrans_rowwise (a : AttnTrans R) (hv : 0 < a.vbs) (idx : List Nat) (X prior : Mat R)
    (h : X.length = prior.length) :
    o.attnTrans a (selectRows idx X) (selectRows idx prior) = selectRows idx (o.attnTrans a X prior) := by
  rw [o.attnTrans_eq a hv, o.attnTrans_eq a hv, selectRows_zipWith _ _ _ _ h.symm]

theorem featTrans_rowwise (sh dep : Option (GLUBlock R)) (idx : List Nat) (X : Mat R) :
    o.featTrans sh dep (selectRows idx X) = selectRows idx (o.featTrans sh dep X) := by
  unfold featTrans; rw [selectRows_map, selectRows_map]

theorem length_featTrans (sh dep : Option (GLUBlock R)) (X : Mat R) : (o.featTrans sh dep X).length = X.length := by
  simp [featTrans]

theorem tabnetLoop_rowwise (sh : Option (GLUBlock R)) (sf : Nat) (γ : R) (idx : List Nat) (x : Mat R) :
    ∀ (steps : List (AttnTrans R × Option (GLUBlock R))) (prior att : Mat R),
      (∀ s ∈ steps, 0 < s.1.vbs) → x.length = prior.length → att.length = prior.length →
      o.tabnetLoop sh sf γ (selectRows idx x) steps (selectRows idx prior) (selectRows idx att) =
        (o.tabnetLoop sh sf γ x steps prior att).map (selectRows idx)
  | [], _, _, _, _, _ => rfl
  | (a, dep) :: rest, prior, att, hv, hx, ha => by
    have hva : 0 < a.vbs := hv (a, dep) (by simp)
    have hm : (o.attnTrans a att prior).length = prior.length := o.length_attnTrans a hva att prior ha
    simp only [tabnetLoop, List.map_cons]
    rw [o.attnTrans_rowwise a hva idx att prior ha,
      ← selectRows_zipWith o.vmul idx _ x (hm.trans hx.symm), featTrans_rowwise,
      ← selectRows_map, ← selectRows_map,
      ← selectRows_zipWith _ idx (o.attnTrans a att prior) prior hm]
    rw [tabnetLoop_rowwise sh sf γ idx x rest _ _ (fun s hs => hv s (by simp [hs]))
      (by simp [hm, hx]) (by simp [length_featTrans, hm, hx])]

theorem length_tabnetLoop (sh : Option (GLUBlock R)) (sf : Nat) (γ : R) (x : Mat R) :
    ∀ (steps : List (AttnTrans R × Option (GLUBlock R))) (prior att : Mat R),
      (∀ s ∈ steps, 0 < s.1.vbs) → x.length = prior.length → att.length = prior.length →
      ∀ out ∈ o.tabnetLoop sh sf γ x steps prior att, out.length = x.length
  | [], _, _, _, _, _ => by simp [tabnetLoop]
  | (a, dep) :: rest, prior, att, hv, hx, ha => by
    have hva : 0 < a.vbs := hv (a, dep) (by simp)
    have hm : (o.attnTrans a att prior).length = prior.length := o.length_attnTrans a hva att prior ha
    intro out hout
    simp only [tabnetLoop, List.mem_cons] at hout
    rcases hout with rfl | hout
    · simp [length_featTrans, hm, hx]
    · exact length_tabnetLoop sh sf γ x rest _ _ (fun s hs => hv s (by simp [hs]))
        (by simp [hm, hx]) (by simp [length_featTrans, hm, hx]) out hout

theorem sumOuts_rowwise (idx : List Nat) (outs : List (Mat R)) (n : Nat) (h : ∀ f ∈ outs, f.length = n) :
    o.sumOuts (outs.map (selectRows idx)) = selectRows idx (o.sumOuts outs) := by
  cases outs with
  | nil => simp [sumOuts, selectRows]
  | cons f fs =>
    simp only [sumOuts, List.map_cons]
    rw [← selectRows_map]
    exact foldl_zipWith_rowwise o.vadd idx fs _ (fun f' hf' => by
      simp [h f' (by simp [hf']), h f (by simp)])

/-- TabNet commutes with every row selection (every `virtual_batch_size > 0`) -/
theorem tabnet_rowwise (θ : TabNet R) (hv : ∀ s ∈ θ.steps, 0 < s.1.vbs) (idx : List Nat) (X : T3 R) :
    o.tabnet θ (selectRows idx X) = selectRows idx (o.tabnet θ X) := by
  unfold tabnet
  dsimp only
  have hx : o.bnEval θ.bn ((selectRows idx X).map fun M => M.flatten) =
      selectRows idx (o.bnEval θ.bn (X.map fun M => M.flatten)) := by
    simp only [bnEval, selectRows_map]
  rw [hx]
  generalize o.bnEval θ.bn (X.map fun M => M.flatten) = x
  rw [← selectRows_map, featTrans_rowwise, ← selectRows_map,
    o.tabnetLoop_rowwise θ.shared θ.splitFeat θ.gamma idx x θ.steps _ _ hv (by simp)
      (by simp [length_featTrans]),
    o.sumOuts_rowwise idx _ x.length
      (o.length_tabnetLoop θ.shared θ.splitFeat θ.gamma x θ.steps _ _ hv (by simp) (by simp [length_featTrans])),
    linearLast, linearLast, selectRows_map]

end TOps

/-! ### the stype-wise concatenation drops no column -/

theorem catCols_getElem? {R : Type} (B : Nat) (b : Nat) (hb : b < B) :
    ∀ (xs : List (T3 R)) (acc : T3 R), acc.length = B → (∀ x ∈ xs, x.length = B) →
      (xs.foldl (fun acc x => List.zipWith (fun a c => a ++ c) acc x) acc)[b]? =
        some (acc.getD b [] ++ (xs.map fun x => x.getD b []).flatten)
  | [], acc, ha, _ => by
    simp [List.getD_eq_getElem?_getD, List.getElem?_eq_getElem (ha ▸ hb)]
  | x :: xs, acc, ha, hx => by
    have hxl : x.length = B := hx x (by simp)
    simp only [List.foldl_cons, List.map_cons, List.flatten_cons]
    rw [catCols_getElem? B b hb xs _ (by simp [ha, hxl]) (fun y hy => hx y (by simp [hy]))]
    simp [List.getD_eq_getElem?_getD, List.getElem?_zipWith, List.getElem?_eq_getElem (ha ▸ hb),
      List.getElem?_eq_getElem (hxl ▸ hb), List.append_assoc]

namespace TOps
variable {R : Type} (o : TOps R)

theorem length_tromptLoop_count (dec : TromptDec R) :
    ∀ (ps : List (TromptConv R × T3 R)) (XP : T3 R), (o.tromptLoop dec ps XP).length = ps.length
  | [], _ => rfl
  | (θ, X) :: rest, XP => by simp [tromptLoop, length_tromptLoop_count dec rest]

theorem tromptLoop_rows (dec : TromptDec R) :
    ∀ (ps : List (TromptConv R × T3 R)) (XP : T3 R),
      ∀ out ∈ o.tromptLoop dec ps XP, ∀ v ∈ out, v.length = dec.lin2.outLen
  | [], _ => by simp [tromptLoop]
  | (θ, X) :: rest, XP => by
    intro out hout v hv
    simp only [tromptLoop, List.mem_cons] at hout
    rcases hout with rfl | hout
    · obtain ⟨M, _, rfl⟩ := List.mem_map.mp hv
      exact o.length_tromptDecSample dec M
    · exact tromptLoop_rows dec rest _ out hout v hv

end TOps

/-! ### shapes -/

theorem mem_zipWith_elim {α β γ : Type} {f : α → β → γ} :
    ∀ {l₁ : List α} {l₂ : List β} {c : γ}, c ∈ List.zipWith f l₁ l₂ → ∃ a ∈ l₁, ∃ b ∈ l₂, c = f a b
  | [], _, _, h => by simp at h
  | _ :: _, [], _, h => by simp at h
  | a :: l₁, b :: l₂, c, h => by
    simp only [List.zipWith_cons_cons, List.mem_cons] at h
    rcases h with rfl | h
    · exact ⟨a, by simp, b, by simp, rfl⟩
    · obtain ⟨a', ha', b', hb', rfl⟩ := mem_zipWith_elim h
      exact ⟨a', by simp [ha'], b', by simp [hb'], rfl⟩

theorem length_foldl_zipWith {α β : Type} (op : α → β → α) :
    ∀ (fs : List (List β)) (acc : List α), (∀ f ∈ fs, f.length = acc.length) →
      (fs.foldl (fun acc f => List.zipWith op acc f) acc).length = acc.length
  | [], _, _ => rfl
  | f :: fs, acc, h => by
    have hf : f.length = acc.length := h f (by simp)
    simp only [List.foldl_cons]
    rw [length_foldl_zipWith op fs _ (fun f' hf' => by simp [hf, h f' (by simp [hf'])])]
    simp [hf]

theorem stackFold_all {R : Type} (P : Vec R → Prop) :
    ∀ (outs : List (Mat R)) (acc : T3 R), (∀ S ∈ acc, ∀ v ∈ S, P v) → (∀ out ∈ outs, ∀ v ∈ out, P v) →
      ∀ S ∈ outs.foldl (fun acc out => List.zipWith (fun a v => a ++ [v]) acc out) acc, ∀ v ∈ S, P v
  | [], _, ha, _ => ha
  | out :: outs, acc, ha, ho => by
    simp only [List.foldl_cons]
    apply stackFold_all P outs _ _ (fun o' ho' => ho o' (by simp [ho']))
    intro S hS v hv
    obtain ⟨a, haa, w, hw, rfl⟩ := mem_zipWith_elim hS
    simp only [List.mem_append, List.mem_singleton] at hv
    rcases hv with hv | rfl
    · exact ha a haa v hv
    · exact ho out (by simp) v hw

theorem stackFold_count {R : Type} :
    ∀ (outs : List (Mat R)) (acc : T3 R) (k : Nat), (∀ S ∈ acc, S.length = k) →
      ∀ S ∈ outs.foldl (fun acc out => List.zipWith (fun a v => a ++ [v]) acc out) acc, S.length = k + outs.length
  | [], _, _, ha => by simpa using ha
  | out :: outs, acc, k, ha => by
    simp only [List.foldl_cons, List.length_cons]
    intro S hS
    have := stackFold_count outs (List.zipWith (fun a v => a ++ [v]) acc out) (k + 1) (by
      intro S' hS'
      obtain ⟨a, haa, w, _, rfl⟩ := mem_zipWith_elim hS'
      simp [ha a haa]) S hS
    omega

namespace TOps
variable {R : Type} (o : TOps R)

theorem shape_map {α : Type} (f : α → Vec R) (k : Nat) (h : ∀ a, (f a).length = k) (X : List α) :
    (X.map f).length = X.length ∧ ∀ v ∈ X.map f, v.length = k := by
  refine ⟨by simp, fun v hv => ?_⟩
  obtain ⟨a, _, rfl⟩ := List.mem_map.mp hv
  exact h a

theorem shape_tabTransformer (θ : TabTransformer R) (Xc Xn : T3 R) (hb : θ.hasCat = true ∨ θ.hasNum = true)
    (h : θ.hasCat = true → θ.hasNum = true → Xc.length = Xn.length) :
    (o.tabTransformer θ Xc Xn).length = (if θ.hasCat then Xc.length else Xn.length) ∧
      ∀ v ∈ o.tabTransformer θ Xc Xn, v.length = θ.lin3.outLen := by
  unfold tabTransformer
  dsimp only
  rw [tabTDecoder_eq]
  refine ⟨?_, (shape_map _ _ (fun x => o.length_linearV θ.lin3 _) _).2⟩
  rw [List.length_map]
  cases hc : θ.hasCat <;> cases hn : θ.hasNum
  · simp [hc, hn] at hb
  · simp [tabTNum_eq]
  · simp only [↓reduceIte]; rw [tabTCat_eq]; simp
  · simp only [↓reduceIte]; rw [tabTCat_eq, tabTNum_eq]; simp [h hc hn]

theorem shape_tabnet (θ : TabNet R) (hv : ∀ s ∈ θ.steps, 0 < s.1.vbs) (hs : θ.steps ≠ []) (X : T3 R) :
    (o.tabnet θ X).length = X.length ∧ ∀ v ∈ o.tabnet θ X, v.length = θ.lin.outLen := by
  unfold tabnet
  dsimp only
  refine ⟨?_, (shape_map _ _ (fun x => o.length_linearV θ.lin _) _).2⟩
  rw [linearLast, List.length_map]
  generalize hx : o.bnEval θ.bn (X.map fun M => M.flatten) = x
  have hxl : x.length = X.length := by rw [← hx]; simp [bnEval]
  have hl := o.length_tabnetLoop θ.shared θ.splitFeat θ.gamma x θ.steps (x.map fun v => v.map fun _ => o.one)
    ((o.featTrans θ.shared θ.dep0 x).map fun v => v.drop θ.splitFeat) hv (by simp) (by simp [length_featTrans])
  cases hloop : o.tabnetLoop θ.shared θ.splitFeat θ.gamma x θ.steps (x.map fun v => v.map fun _ => o.one)
      ((o.featTrans θ.shared θ.dep0 x).map fun v => v.drop θ.splitFeat) with
  | nil =>
    cases hst : θ.steps with
    | nil => exact absurd hst hs
    | cons s rest => obtain ⟨a, dep⟩ := s; rw [hst] at hloop; simp [tabnetLoop] at hloop
  | cons f fs =>
    rw [hloop] at hl
    simp only [sumOuts]
    have h1 : (fs.foldl o.addM (f.map fun v => v.map fun t => o.add o.zero t)).length =
        (f.map fun v => v.map fun t => o.add o.zero t).length :=
      length_foldl_zipWith o.vadd fs _ (fun f' hf' => by simp [hl f' (by simp [hf']), hl f (by simp)])
    rw [h1]
    simp [hl f (by simp), hxl]

theorem shape_trompt (θ : Trompt R) (Xs : List (T3 R)) (B : Nat) (h : ∀ X ∈ Xs, X.length = B) (hne : Xs ≠ []) :
    (o.trompt θ Xs).length = B ∧
      ∀ S ∈ o.trompt θ Xs, S.length = (θ.convs.zip Xs).length ∧ ∀ v ∈ S, v.length = θ.dec.lin2.outLen := by
  cases Xs with
  | nil => exact absurd rfl hne
  | cons X0 rest =>
    have h0 : X0.length = B := h X0 (by simp)
    have hps : ∀ p ∈ θ.convs.zip (X0 :: rest), p.2.length = (List.replicate X0.length θ.xPrompt).length := by
      intro p hp
      have := (List.of_mem_zip hp).2
      simp [h p.2 this, h0]
    have hlen := o.length_tromptLoop θ.dec _ _ hps
    unfold trompt stackLayers
    simp only [List.headD_cons]
    refine ⟨?_, fun S hS => ⟨?_, ?_⟩⟩
    · rw [length_foldl_zipWith _ _ _ (fun f hf => by rw [hlen f hf]; simp)]
      simp [h0]
    · have := stackFold_count _ _ 0 (by simp) S hS
      rw [this, Nat.zero_add]
      exact o.length_tromptLoop_count θ.dec _ _
    · apply stackFold_all (fun v => v.length = θ.dec.lin2.outLen) _ _ (by simp) _ S hS
      exact o.tromptLoop_rows θ.dec _ _

end TOps

/-! ### small integer fixtures for the non-vacuity examples -/

namespace Toy

def bn2 : BNorm Int := ⟨[1, 2], [0, 1], [1, 0], [3, 0], 1⟩
def mlp : MLP Int := ⟨[⟨lin [[1, 0], [1, 1]] [0, 1], .batch bn2⟩, ⟨lin [[2, 0], [0, 1]] [0, 0], .none⟩], lin [[1, 1], [1, -1]] [0, 1], 2⟩
def resnet : ResNet Int :=
  ⟨[⟨lin [[1, 0, 0, 1, 0, 0], [0, 1, 0, 0, 1, 1]] [0, 0], lin [[1, 1], [0, 1]] [1, 0], .batch bn2, .none,
      some (lin [[1, 0, 0, 0, 0, 1], [0, 0, 1, 0, 0, 0]] [0, 0])⟩], ln2, lin [[1, 2]] [0]⟩
def ftT : FTTransformer Int := ⟨ft, ln2, lin [[1, 1], [0, 1]] [0, 0], 2, 3⟩
def tabTr : TabTransformer Int :=
  { hasCat := true, hasNum := true, pad := [[1], [2], [3]], convs := [tabT], numNorm := ln2,
    lin1 := lin [[1, 0, 1, 0, 1, 0, 1, 0], [0, 1, 0, 1, 0, 1, 0, 1]] [0, 0], bn1 := bn2,
    lin2 := lin [[1, 1], [1, -1]] [0, 0], bn2 := bn2, lin3 := lin [[1, 2]] [1], channels := 2, numCat := 3 }
def trompt1 : Trompt Int := ⟨[[1, 0], [0, 1]], [trompt], tromptDec⟩
def tabnet : TabNet Int :=
  { bn := ⟨[1, 1, 1, 1, 1, 1], [0, 0, 0, 0, 0, 0], [0, 1, 0, 1, 0, 1], [0, 0, 0, 0, 0, 0], 1⟩,
    shared := some ⟨[⟨[[1, 0, 0, 0, 0, 1], [0, 1, 0, 0, 1, 0], [0, 0, 1, 0, 0, 0], [0, 0, 0, 1, 0, 0]], none⟩], true⟩,
    dep0 := none,
    steps := [(⟨⟨[[1], [0], [1], [0], [1], [1]], none⟩,
               ⟨[1, 1, 1, 1, 1, 1], [0, 0, 0, 0, 0, 0], [0, 0, 0, 0, 0, 0], [0, 0, 0, 0, 0, 0], 1⟩, 2⟩, none)],
    lin := lin [[3]] [1], splitFeat := 1, gamma := 1 }
def excelF : ExcelFormer Int := ⟨[excel], excelDec, 2, 3⟩

/-- the categorical / numerical encoder outputs of a three-row batch for `tabTr` -/
def xc : T3 Int := [[[1], [3], [-2]], [[0], [9], [2]], [[4], [4], [1]]]
def xn : T3 Int := [[[1], [5]], [[2], [0]], [[7], [-3]]]
def x3 : T3 Int := x ++ [[[5, 5], [1, 0], [2, -4]]]

end Toy

end TFVerif

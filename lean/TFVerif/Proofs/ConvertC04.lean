/-
Helper lemmas for C04 (train / inference consistency of the converter):
  * row selection `df.iloc[idx]` commutes with the per-cell encoding and stays inside the typed domain;
  * a converter whose name table was already merged behaves like a fresh one (state machine);
  * unseen tokens drop out of a multicategorical cell;
  * `_update_col_stats` leaves the widths the mappers depend on unchanged (supplied `col_stats`).
-/
import TFVerif.Proofs.ConvertC02

namespace TFVerif

namespace Mat

/-! ### `df.iloc[idx]` -/

theorem pickRows_eq_map (xs : List α) (idx : List Nat) (d : α) (h : ∀ i ∈ idx, i < xs.length) :
    pickRows xs idx = idx.map fun i => xs.getD i d := by
  induction idx with
  | nil => rfl
  | cons i rest ih =>
    have hi : i < xs.length := h i (by simp)
    simp only [pickRows, List.filterMap_cons, List.getElem?_eq_getElem hi, List.map_cons]
    rw [show List.filterMap (fun x => xs[x]?) rest = pickRows xs rest from rfl, ih (fun j hj => h j (by simp [hj]))]
    simp [List.getD_eq_getElem?_getD, List.getElem?_eq_getElem hi]

theorem pickRows_length (xs : List α) (idx : List Nat) (h : ∀ i ∈ idx, i < xs.length) :
    (pickRows xs idx).length = idx.length := by
  cases xs with
  | nil =>
    cases idx with
    | nil => rfl
    | cons i _ => exact absurd (h i (by simp)) (by simp)
  | cons x xs => rw [pickRows_eq_map _ idx x h]; simp

theorem pickRows_map (xs : List α) (f : α → β) (idx : List Nat) :
    pickRows (xs.map f) idx = (pickRows xs idx).map f := by
  induction idx with
  | nil => rfl
  | cons i rest ih =>
    simp only [pickRows, List.filterMap_cons, List.getElem?_map] at ih ⊢
    cases xs[i]? with
    | none => simpa using ih
    | some x => simp [ih]

theorem mem_pickRows (xs : List α) (idx : List Nat) (x : α) (h : x ∈ pickRows xs idx) : x ∈ xs := by
  simp only [pickRows, List.mem_filterMap] at h
  obtain ⟨i, _, hi⟩ := h
  exact List.mem_of_getElem? hi

theorem pickRows_getElem? (xs : List α) (idx : List Nat) (h : ∀ i ∈ idx, i < xs.length) (k : Nat) (hk : k < idx.length) :
    (pickRows xs idx)[k]? = xs[idx[k]]? := by
  have hi : idx[k] < xs.length := h _ (List.getElem_mem hk)
  cases xs with
  | nil => simp at hi
  | cons x xs =>
    rw [pickRows_eq_map _ idx x h]
    simp [List.getElem?_map, List.getElem?_eq_getElem hk, List.getD_eq_getElem?_getD, List.getElem?_eq_getElem hi]

theorem col?_rows (df : DF L F) (idx : List Nat) (name : String) :
    (df.rows idx).col? name = (df.col? name).map fun c => { c with cells := pickRows c.cells idx } := by
  simp only [DF.col?, DF.rows, List.find?_map]
  rfl

theorem specCol_rows (cv : Conv F) (df : DF L F) (idx : List Nat) (name : String) :
    specCol cv (df.rows idx) name = pickRows (specCol cv df name) idx := by
  simp only [specCol, col?_rows]
  cases df.col? name with
  | none => simp [pickRows]
  | some c => simp [pickRows_map]

theorem colWF_rows (cfg : ColCfg F) (s : Stype) (cells : List (Cell F)) (idx : List Nat) (h : ColWF cfg s cells) :
    ColWF cfg s (pickRows cells idx) := by
  obtain ⟨h1, h2, h3⟩ := h
  refine ⟨h1, ?_, ?_⟩
  · intro hs
    obtain ⟨a, b⟩ := h2 hs
    exact ⟨a, fun ts hts => b ts (mem_pickRows _ _ _ hts)⟩
  · intro hs
    obtain ⟨a, b⟩ := h3 hs
    exact ⟨a, fun c hc => b c (mem_pickRows _ _ _ hc)⟩

/-- any non-empty selection of rows of a frame of the typed domain is in the typed domain -/
theorem callOK_rows (cv : Conv F) (df : DF L F) (n : Nat) (hok : CallOK cv df n) (idx : List Nat) (hne : idx ≠ [])
    (hidx : ∀ i ∈ idx, i < n) : CallOK cv (df.rows idx) idx.length := by
  refine ⟨List.length_pos_iff.mpr hne, ?_, hok.nonempty, hok.keys, hok.groups, ?_, ?_⟩
  · exact pickRows_length _ _ (by rw [hok.labels]; exact hidx)
  · intro g hg c hc
    obtain ⟨col, hcol, hlen, hk1, hk2, hwf, hw⟩ := hok.cols g hg c hc
    refine ⟨{ col with cells := pickRows col.cells idx }, by rw [col?_rows, hcol]; rfl,
      pickRows_length _ _ (by rw [hlen]; exact hidx), hk1, hk2, colWF_rows _ _ _ _ hwf, ?_⟩
    intro hE
    obtain ⟨w, hw⟩ := hw hE
    exact ⟨w, fun cell hcell => hw cell (mem_pickRows _ _ _ hcell)⟩
  · intro t col ht hcol
    rw [col?_rows] at hcol
    cases hc0 : df.col? t with
    | none => simp [hc0] at hcol
    | some col0 =>
      simp only [hc0, Option.map_some, Option.some.injEq] at hcol
      obtain ⟨hlen, hwf⟩ := hok.target t col0 ht hc0
      rw [← hcol]
      exact ⟨pickRows_length _ _ (by rw [hlen]; exact hidx), colWF_rows _ _ _ _ hwf⟩

/-- `y` of a call, cell by cell: the target column through `encodeCell` -/
theorem yCell_spec (cv : Conv F) (df : DF L F) (n : Nat) (hok : CallOK cv df n) (i : Nat) :
    (cv.yOf df).bind (fun y => y.cells[i]?) =
      match cv.target with
      | none => none
      | some t => match df.col? t with
        | none => none
        | some _ => (specCol cv df t)[i]? := by
  unfold Conv.yOf
  cases ht : cv.target with
  | none => rfl
  | some t =>
    simp only [Conv.mapCol]
    cases hc : df.col? t with
    | none => rfl
    | some col =>
      obtain ⟨hlen, hwf⟩ := hok.target t col ht hc
      simp only [Option.map_some, Option.bind_some, specCol, hc]
      rw [forward_cells _ _ _ _ (by rw [hok.labels, hlen]) hwf]

/-- ROW LOCALITY of one converter call: calling the converter on `df.iloc[idx]` (any non-empty index list:
    repeats, any order, singletons) returns, cell by cell, the rows `idx` of what it returns for `df`, under the
    same name table and leaves the converter in the same state. -/
theorem call_rows (cv : Conv F) (df : DF L F) (n : Nat) (hok : CallOK cv df n) (idx : List Nat) (hne : idx ≠ [])
    (hidx : ∀ i ∈ idx, i < n) :
    ∃ tf tf' cv1, cv.call df = some (tf, cv1) ∧ cv.call (df.rows idx) = some (tf', cv1) ∧
      tf'.names = tf.names ∧ tf'.numRows = idx.length ∧
      (∀ name, (∃ g ∈ cv.names, name ∈ g.2) → ∀ k (hk : k < idx.length), tf'.cell name k = tf.cell name idx[k]) ∧
      (∀ k (hk : k < idx.length), tf'.yCell k = tf.yCell idx[k]) := by
  have hok' := callOK_rows cv df n hok idx hne hidx
  have h1 := call_spec cv df n hok
  have h2 := call_spec cv (df.rows idx) idx.length hok'
  refine ⟨_, _, _, h1, h2, rfl, call_numRows _ _ _ _ hok' _ h2, ?_, ?_⟩
  · intro name hl k hk
    have hik : idx[k] < n := hidx _ (List.getElem_mem hk)
    obtain ⟨tf, cv1, hc, _, _, hcell⟩ := call_cell cv df n hok name hl idx[k] hik
    obtain ⟨tf', cv1', hc', _, _, hcell'⟩ := call_cell cv (df.rows idx) idx.length hok' name hl k hk
    rw [h1] at hc
    rw [h2] at hc'
    simp only [Option.some.injEq, Prod.mk.injEq] at hc hc'
    rw [hc.1, hc'.1, hcell, hcell', specCol_rows]
    obtain ⟨g, hg, hcg⟩ := hl
    obtain ⟨col, hcol, hlen, hslen, _⟩ := col_facts cv df n hok g hg name hcg
    have hin : ∀ i ∈ idx, i < (specCol cv df name).length := by rw [hslen]; exact hidx
    simp only [List.getD_eq_getElem?_getD, pickRows_getElem? _ idx hin k hk]
  · intro k hk
    have hy := yCell_spec cv df n hok idx[k]
    have hy' := yCell_spec cv (df.rows idx) idx.length hok' k
    simp only [TF.yCell]
    rw [hy, hy']
    cases ht : cv.target with
    | none => rfl
    | some t =>
      simp only [col?_rows]
      cases hc : df.col? t with
      | none => rfl
      | some col =>
        obtain ⟨hlen, _⟩ := hok.target t col ht hc
        have hin : ∀ i ∈ idx, i < (specCol cv df t).length := by
          simp only [specCol, hc, List.length_map, hlen]; exact hidx
        simp only [Option.map_some, specCol_rows, pickRows_getElem? _ idx hin k hk]

/-! ### the converter as a state machine -/

/-- the converter after (at least) one call -/
def Conv.merged (cv : Conv F) : Conv F := { cv with names := mergeNames cv.names }

/-- the frame a first call returns (inside the typed domain) -/
def firstOut (cv : Conv F) (df : DF L F) : TF F :=
  { feats := mapG (specG cv df df.numRows) (mergeNames cv.names), names := mergeNames cv.names, y := cv.yOf df }

theorem call_first (cv : Conv F) (df : DF L F) (hok : CallOK cv df df.numRows) :
    cv.call df = some (firstOut cv df, cv.merged) := call_spec cv df df.numRows hok

/-- a converter whose name table was already rewritten by `_merge_feat` returns what the fresh one returns and
    stays in the same state: `merge ∘ merge = merge` -/
theorem call_merged (cv : Conv F) (df : DF L F) (n : Nat) (hok : CallOK cv df n) :
    cv.merged.call df = cv.call df := by
  rw [call_spec cv df n hok, Conv.merged, call_spec _ df n (callOK_merged cv df n hok)]
  simp only [mergeNames_idem]
  rfl

/-- one step of `Conv.run` -/
def runStep (acc : List (TF F) × Conv F) (df : DF L F) : Option (List (TF F) × Conv F) := do
  let (tf, cv') ← acc.2.call df
  pure (acc.1 ++ [tf], cv')

theorem run_eq_foldlM (cv : Conv F) (dfs : List (DF L F)) : cv.run dfs = dfs.foldlM runStep ([], cv) := rfl

theorem run_from (cv : Conv F) (dfs : List (DF L F)) (hok : ∀ d ∈ dfs, CallOK cv d d.numRows)
    (c : Conv F) (hc : c = cv ∨ c = cv.merged) (acc : List (TF F)) :
    dfs.foldlM runStep (acc, c) = some (acc ++ dfs.map (firstOut cv), if dfs = [] then c else cv.merged) := by
  induction dfs generalizing c acc with
  | nil => simp
  | cons d rest ih =>
    have hd := hok d (by simp)
    have hcall : c.call d = some (firstOut cv d, cv.merged) := by
      rcases hc with rfl | rfl
      · exact call_first _ d hd
      · rw [call_merged _ d _ hd]; exact call_first cv d hd
    have hstep : runStep (acc, c) d = some (acc ++ [firstOut cv d], cv.merged) := by
      simp [runStep, hcall]
    rw [List.foldlM_cons, hstep]
    simp only [Option.bind_eq_bind, Option.bind_some]
    rw [ih (fun x hx => hok x (by simp [hx])) cv.merged (Or.inr rfl)]
    simp

/-- any number of calls in a row: the k-th returned frame is what a FIRST call on the k-th input returns, and
    after the first call the converter stays in the merged state -/
theorem run_spec (cv : Conv F) (dfs : List (DF L F)) (hok : ∀ d ∈ dfs, CallOK cv d d.numRows) :
    cv.run dfs = some (dfs.map (firstOut cv), if dfs = [] then cv else cv.merged) := by
  rw [run_eq_foldlM, run_from cv dfs hok cv (Or.inl rfl) []]
  simp

/-! ### unseen tokens -/

theorem eraseDups_filter_aux [BEq α] [LawfulBEq α] (p : α → Bool) :
    ∀ (n : Nat) (l : List α), l.length ≤ n → (l.filter p).eraseDups = l.eraseDups.filter p
  | 0, l, h => by
    have : l = [] := List.length_eq_zero_iff.mp (by omega)
    subst this; simp
  | _ + 1, [], _ => by simp
  | n + 1, a :: as, h => by
    have hlen : (as.filter fun b => !b == a).length ≤ n := by
      have := List.length_filter_le (fun b => !b == a) as
      simp only [List.length_cons] at h
      omega
    have ih := eraseDups_filter_aux p n _ hlen
    rw [List.eraseDups_cons]
    by_cases hp : p a = true
    · have e1 : (a :: as).filter p = a :: as.filter p := by simp [hp]
      have e2 : (a :: (as.filter fun b => !b == a).eraseDups).filter p =
          a :: ((as.filter fun b => !b == a).eraseDups).filter p := by simp [hp]
      rw [e1, List.eraseDups_cons, e2, ← ih, List.filter_filter, List.filter_filter]
      congr 2
      apply List.filter_congr
      intro x _
      exact Bool.and_comm _ _
    · have e1 : (a :: as).filter p = as.filter p := by simp [hp]
      have e2 : (a :: (as.filter fun b => !b == a).eraseDups).filter p =
          ((as.filter fun b => !b == a).eraseDups).filter p := by simp [hp]
      rw [e1, e2, ← ih, List.filter_filter]
      congr 1
      apply List.filter_congr
      intro x _
      by_cases hx : p x = true
      · have : x ≠ a := fun e => hp (e ▸ hx)
        simp [hx, this]
      · simp [hx]

theorem eraseDups_filter [BEq α] [LawfulBEq α] (p : α → Bool) (l : List α) :
    (l.filter p).eraseDups = l.eraseDups.filter p :=
  eraseDups_filter_aux p l.length l (Nat.le_refl _)

theorem catPos_some_mem (cats : List Key) (t : Key) (i : Nat) (h : catPos cats t = some i) :
    i < cats.length ∧ cats[i]? = some t := by
  unfold catPos at h
  obtain ⟨hi, hp, _⟩ := List.findIdx?_eq_some_iff_getElem.mp h
  exact ⟨hi, by simp [List.getElem?_eq_getElem hi, eq_of_beq hp]⟩

/-- an unseen token (one the fitted list does not contain) is left out of the encoded cell: the encoding equals
    the encoding of the cell with every unseen token removed -/
theorem encode_multicat_drop_unseen (cfg : ColCfg F) (ts : List Key) :
    encodeCell cfg .multicategorical (.toks ts) =
      encodeCell cfg .multicategorical (.toks (ts.filter fun t => cfg.cats.contains t)) := by
  simp only [encodeCell, eraseDups_filter, List.filterMap_filter]
  apply List.filterMap_congr
  intro t _
  by_cases h : t ∈ cfg.cats
  · simp [h]
  · simp [h, catPos_none_of_not_mem _ _ h]

/-! ### a frame without the target column -/

theorem col?_dropCol_self (df : DF L F) (t : String) : (df.dropCol t).col? t = none := by
  simp only [DF.col?, DF.dropCol, List.find?_eq_none, List.mem_filter]
  intro c hc
  simpa using hc.2

theorem col?_dropCol_ne (df : DF L F) (t name : String) (h : name ≠ t) : (df.dropCol t).col? name = df.col? name := by
  simp only [DF.col?, DF.dropCol]
  induction df.cols with
  | nil => rfl
  | cons c rest ih =>
    by_cases hc : c.name = t
    · have hb : (c.name == name) = false := by
        have : ¬ c.name = name := fun e => h (e ▸ hc)
        simpa using this
      rw [List.filter_cons, if_neg (by simp [hc]), List.find?_cons, hb]
      exact ih
    · rw [List.filter_cons, if_pos (by simp [hc]), List.find?_cons, List.find?_cons, ih]

theorem mapG_congr (g g' : Stype → List String → Feat F) (names : List (Stype × List String))
    (h : ∀ p ∈ names, g p.1 p.2 = g' p.1 p.2) : mapG g names = mapG g' names := by
  unfold mapG
  apply List.map_congr_left
  intro p hp
  rw [h p hp]

/-- dropping the target column changes nothing but `y` -/
theorem call_dropTarget (cv : Conv F) (df : DF L F) (n : Nat) (hok : CallOK cv df n) (t : String)
    (ht : cv.target = some t) (hnl : ∀ g ∈ cv.names, t ∉ g.2) :
    ∃ tf cv1 tf', cv.call df = some (tf, cv1) ∧ cv.call (df.dropCol t) = some (tf', cv1) ∧
      tf'.y = none ∧ tf'.feats = tf.feats ∧ tf'.names = tf.names := by
  have hcol : ∀ g ∈ cv.names, ∀ c ∈ g.2, (df.dropCol t).col? c = df.col? c := by
    intro g hg c hc
    exact col?_dropCol_ne df t c (fun e => hnl g hg (e ▸ hc))
  have hok' : CallOK cv (df.dropCol t) n := by
    refine ⟨hok.npos, hok.labels, hok.nonempty, hok.keys, hok.groups, ?_, ?_⟩
    · intro g hg c hc
      rw [hcol g hg c hc]
      exact hok.cols g hg c hc
    · intro t' col ht' hc'
      rw [ht] at ht'
      cases ht'
      rw [col?_dropCol_self] at hc'
      cases hc'
  have hy : cv.yOf (df.dropCol t) = none := by
    simp [Conv.yOf, ht, Conv.mapCol, col?_dropCol_self]
  refine ⟨_, _, _, call_spec cv df n hok, call_spec cv (df.dropCol t) n hok', hy, ?_, rfl⟩
  apply mapG_congr
  intro p hp
  simp only [specG]
  congr 1
  apply List.map_congr_left
  intro c hc
  obtain ⟨g, hg, hcg, _⟩ := mergeNames_origin cv.names p hp c hc
  simp only [specCol, hcol g hg c hcg]

/-! ### supplied `col_stats`: `_update_col_stats` does not change what the mappers read -/

theorem encodeCell_agree (cfg cfg' : ColCfg F) (s : Stype) (c : Cell F) (h1 : cfg'.cats = cfg.cats)
    (h2 : cfg'.embed = cfg.embed) (h3 : s = .embedding → cfg'.embDim = cfg.embDim) :
    encodeCell cfg' s c = encodeCell cfg s c := by
  cases s <;> cases c <;> simp only [encodeCell, h1, h2]
  rw [h3 rfl]

theorem forward_agree (cfg cfg' : ColCfg F) (s : Stype) (labels : List L) (cells : List (Cell F))
    (h1 : cfg'.cats = cfg.cats) (h2 : cfg'.embed = cfg.embed) (h3 : s = .embedding → cfg'.embDim = cfg.embDim) :
    forward cfg' s labels cells = forward cfg s labels cells := by
  cases s <;> simp only [forward, h1, h2]
  rw [h3 rfl]

theorem colWF_agree (cfg cfg' : ColCfg F) (s : Stype) (cells : List (Cell F)) (h1 : cfg'.cats = cfg.cats)
    (h3 : s = .embedding → cfg'.embDim = cfg.embDim) (h : ColWF cfg s cells) : ColWF cfg' s cells := by
  obtain ⟨a, b, c⟩ := h
  refine ⟨a, ?_, ?_⟩
  · intro hs; rw [h1]; exact b hs
  · intro hs; rw [h3 hs]; exact c hs

/-- two converters agree on everything the mappers read -/
def CfgAgree (cv cv' : Conv F) : Prop :=
  ∀ name, (cv'.cfg name).cats = (cv.cfg name).cats ∧ (cv'.cfg name).embed = (cv.cfg name).embed ∧
    (cv.stypeOf name = .embedding → (cv'.cfg name).embDim = (cv.cfg name).embDim)

theorem specCol_agree (cv cv' : Conv F) (df : DF L F) (hc : cv'.colToStype = cv.colToStype) (ha : CfgAgree cv cv')
    (name : String) : specCol cv' df name = specCol cv df name := by
  have hst : cv'.stypeOf name = cv.stypeOf name := by simp [Conv.stypeOf, hc]
  obtain ⟨h1, h2, h3⟩ := ha name
  simp only [specCol, hst]
  cases df.col? name with
  | none => rfl
  | some c =>
    simp only
    apply List.map_congr_left
    intro cell _
    exact encodeCell_agree _ _ _ _ h1 h2 h3

theorem yOf_agree (cv cv' : Conv F) (df : DF L F) (hc : cv'.colToStype = cv.colToStype) (ht : cv'.target = cv.target)
    (ha : CfgAgree cv cv') : cv'.yOf df = cv.yOf df := by
  unfold Conv.yOf
  rw [ht]
  cases cv.target with
  | none => rfl
  | some t =>
    have hst : cv'.stypeOf t = cv.stypeOf t := by simp [Conv.stypeOf, hc]
    obtain ⟨h1, h2, h3⟩ := ha t
    simp only [Conv.mapCol, hst]
    cases df.col? t with
    | none => rfl
    | some c => simp only [Option.map_some, forward_agree _ _ _ _ _ h1 h2 h3]

theorem convFrameOK_agree (cv cv' : Conv F) (df : DF L F) (hc : cv'.colToStype = cv.colToStype)
    (ht : cv'.target = cv.target) (ha : CfgAgree cv cv') (hok : ConvFrameOK cv df) : ConvFrameOK cv' df := by
  refine ⟨hok.npos, by rw [hc]; exact hok.c2s_nodup, by rw [hc]; exact hok.no_tok, by rw [hc, ht]; exact hok.feature,
    ?_, ?_⟩
  · intro p hp hpt
    rw [hc] at hp
    rw [ht] at hpt
    obtain ⟨col, h1, h2, h3, h4⟩ := hok.cols p hp hpt
    have hst : cv.stypeOf p.1 = p.2 := by
      simp [Conv.stypeOf, dictGet_of_mem_nodup _ p.1 p.2 hp hok.c2s_nodup]
    obtain ⟨a1, a2, a3⟩ := ha p.1
    rw [hst] at a3
    refine ⟨col, h1, h2, colWF_agree _ _ _ _ a1 a3 h3, ?_⟩
    intro hE
    obtain ⟨w, hw⟩ := h4 hE
    exact ⟨w, fun cell hcell => by rw [encodeCell_agree _ _ _ _ a1 a2 a3]; exact hw cell hcell⟩
  · intro t col htt hcol
    rw [ht] at htt
    obtain ⟨h1, h2⟩ := hok.target t col htt hcol
    have hst : cv'.stypeOf t = cv.stypeOf t := by simp [Conv.stypeOf, hc]
    obtain ⟨a1, _, a3⟩ := ha t
    rw [hst]
    exact ⟨h1, colWF_agree _ _ _ _ a1 a3 h2⟩

theorem offset_diff (ws : List Nat) (i : Nat) (hi : i < ws.length) :
    (((0 :: cumsum ws).getD (i + 1) 0 : Nat) : Int) - ((0 :: cumsum ws).getD i 0 : Nat) = ws[i] := by
  have h : (ws.take (i + 1)).sum = (ws.take i).sum + ws[i] := List.sum_take_succ ws i hi
  rw [getD_zero_cumsum ws (i + 1) (by omega), getD_zero_cumsum ws i (by omega), h]
  simp only [Int.natCast_add]
  omega

theorem embedding_cell_width (cfg : ColCfg F) (cells : List (Cell F)) (hwf : ColWF cfg .embedding cells)
    (c : Cell F) (hc : c ∈ cells) : ((encodeCell cfg .embedding c).length : Int) = cfg.embDim := by
  obtain ⟨h0, hv⟩ := hwf.2.2 rfl
  cases c with
  | missing => simp [encodeCell, Int.toNat_of_nonneg h0]
  | vec v => simpa [encodeCell, cellVec] using hv _ hc rfl
  | _ => simpa [encodeCell, cellVec] using hv _ hc rfl

/-- `_update_col_stats` re-derives EMB_DIM from the frame's offsets; for a plain embedding column that is the
    width the column was fitted with -/
theorem embUpd_embDim (cv : Conv F) (hfresh : cv.names = colNamesDict cv.colToStype cv.target) (df : DF L F)
    (hok : ConvFrameOK cv df) (name : String) (hst : cv.stypeOf name = .embedding) (st : ColStats)
    (hget : dictGet cv.stats name = some st) : (embUpd (firstOut cv df) name st).embDim = st.embDim := by
  unfold embUpd
  simp only [firstOut, dictGet_mapG]
  cases hM : dictGet (mergeNames cv.names) .embedding with
  | none => rfl
  | some cols =>
    have hfeat : specG cv df df.numRows .embedding cols = .met (metOfCols df.numRows (cols.map (specCol cv df))) := by
      simp [specG, specFeat, Stype.useNested, Stype.useEmbedding]
    simp only [Option.map_some, hfeat]
    cases hidx : cols.idxOf? name with
    | none => rfl
    | some i =>
      obtain ⟨hlt, hnm, _⟩ := List.idxOf?_eq_some_iff.mp hidx
      have hmem : name ∈ cols := hnm ▸ List.getElem_mem hlt
      obtain ⟨g, hg, hcg, _⟩ := mergeNames_origin cv.names (.embedding, cols) (mem_of_dictGet _ _ _ hM) name hmem
      rw [hfresh] at hg
      obtain ⟨_, hg2⟩ := mem_colNamesDict _ _ g hg
      rw [hg2, mem_sortNames, mem_groupOf] at hcg
      obtain ⟨col, hcol, hlen, hwf, _⟩ := hok.cols (name, g.1) hcg.1 hcg.2
      have hs' : cv.stypeOf name = g.1 := by
        simp [Conv.stypeOf, dictGet_of_mem_nodup _ name g.1 hcg.1 hok.c2s_nodup]
      rw [hst] at hs'
      rw [← hs'] at hwf
      simp only at hwf
      have hw : ((cols.map (specCol cv df)).map colWidth)[i]'(by simpa using hlt) = colWidth (specCol cv df name) := by
        simp [hnm]
      have hpos : 0 < col.cells.length := by rw [hlen]; exact hok.npos
      obtain ⟨c0, rest, hcells⟩ := List.exists_cons_of_length_pos hpos
      have hcw : (colWidth (specCol cv df name) : Int) = (cv.cfg name).embDim := by
        simp only [colWidth, specCol, hcol, hcells, List.map_cons, List.headD_cons, hst]
        exact embedding_cell_width _ _ hwf c0 (by simp [hcells])
      simp only [metOfCols]
      rw [offset_diff _ i (by simpa using hlt), hw, hcw]
      simp [Conv.cfg, hget]

theorem embUpd_idem (tf : TF F) (name : String) (st : ColStats) :
    embUpd tf name (embUpd tf name st) = embUpd tf name st := by
  unfold embUpd
  cases dictGet tf.feats .embedding with
  | none => rfl
  | some f =>
    cases f with
    | met m =>
      cases dictGet tf.names .embedding with
      | none => rfl
      | some cols =>
        simp only
        cases cols.idxOf? name <;> rfl
    | dense r => rfl
    | mnt m => rfl

theorem updateEmbDim_idem (tf : TF F) (stats : List (String × ColStats)) :
    updateEmbDim tf (updateEmbDim tf stats) = updateEmbDim tf stats := by
  rw [updateEmbDim_eq, updateEmbDim_eq, List.map_map]
  apply List.map_congr_left
  intro p _
  simp only [Function.comp, embUpd_idem]

/-- materializing with the statistics a first materialization produced gives the same frame and statistics -/
theorem materializeWith_supplied (vc : String → List Key → List Key) (t : Option String)
    (emb : String → String → List (Val F)) (df : DF L F) (hok : ConvFrameOK (fitConv vc t emb df) df) :
    materialize vc t emb df =
      some { tf := firstOut (fitConv vc t emb df) df
             stats := updateEmbDim (firstOut (fitConv vc t emb df) df) (fitStats vc t df)
             conv := (fitConv vc t emb df).merged } ∧
    materializeWith (updateEmbDim (firstOut (fitConv vc t emb df) df) (fitStats vc t df)) t emb df =
      some { tf := firstOut (fitConv vc t emb df) df
             stats := updateEmbDim (firstOut (fitConv vc t emb df) df) (fitStats vc t df)
             conv := { (fitConv vc t emb df).merged with
                       stats := updateEmbDim (firstOut (fitConv vc t emb df) df) (fitStats vc t df) } } := by
  set cv := fitConv vc t emb df with hcv
  have hcall := callOK_fresh cv df rfl hok
  have h1 := call_first cv df hcall
  refine ⟨by rw [materialize_eq, ← hcv, h1]; rfl, ?_⟩
  set stats₁ := updateEmbDim (firstOut cv df) (fitStats vc t df) with hs1
  set cv₂ : Conv F := Conv.init df.colToStype t stats₁ emb with hcv2
  have ha : CfgAgree cv cv₂ := by
    intro name
    have hd : dictGet stats₁ name = (dictGet (fitStats vc t df) name).map (embUpd (firstOut cv df) name) := by
      rw [hs1, updateEmbDim_eq, dictGet_mapKV]
    have hcfg : cv.cfg name = { cats := ((dictGet (fitStats vc t df) name).getD {}).cats, embed := emb name,
                                embDim := ((dictGet (fitStats vc t df) name).getD {}).embDim } := rfl
    have hcfg2 : cv₂.cfg name = { cats := ((dictGet stats₁ name).getD {}).cats, embed := emb name,
                                  embDim := ((dictGet stats₁ name).getD {}).embDim } := rfl
    rw [hcfg, hcfg2, hd]
    cases hg : dictGet (fitStats vc t df) name with
    | none => exact ⟨rfl, rfl, fun _ => rfl⟩
    | some st =>
      refine ⟨embUpd_cats _ _ _, rfl, ?_⟩
      intro hst
      exact embUpd_embDim cv rfl df hok name hst st hg
  have hok₂ : ConvFrameOK cv₂ df := convFrameOK_agree cv cv₂ df rfl rfl ha hok
  have h2 := call_first cv₂ df (callOK_fresh cv₂ df rfl hok₂)
  have hout : firstOut cv₂ df = firstOut cv df := by
    have hsc : specCol cv₂ df = specCol cv df := funext (specCol_agree cv cv₂ df rfl ha)
    have hg : specG cv₂ df df.numRows = specG cv df df.numRows := by
      funext s cols
      simp only [specG, hsc]
    have hn : cv₂.names = cv.names := rfl
    simp only [firstOut, hg, hn, yOf_agree cv cv₂ df rfl rfl ha]
  simp only [materializeWith, ← hcv2, h2, Option.bind_eq_bind, Option.bind_some, Option.pure_def, hout]
  rw [hs1, updateEmbDim_idem]
  rfl

end Mat
end TFVerif

/-
Helper lemmas for C11 (save / load round trip, cache protocol).  Core Lean only.
-/
import TFVerif.Model.IO

namespace TFVerif.IO

variable {α σ A D Ω : Type}

/-! ### facts about the finite stype table (complete case analysis) -/

theorem embedding_not_nested (s : Stype) (h : s.useEmbedding = true) : s.useNested = false := by
  cases s <;> simp_all [Stype.useEmbedding, Stype.useNested]

theorem dict_not_multi (s : Stype) (h : s.useDict = true) : s.useMultiTensor = false := by
  cases s <;> simp_all [Stype.useDict, Stype.useMultiTensor, Stype.useNested, Stype.useEmbedding]

theorem nested_multi (s : Stype) (h : s.useNested = true) : s.useMultiTensor = true := by
  simp [Stype.useMultiTensor, h]

theorem embedding_multi (s : Stype) (h : s.useEmbedding = true) : s.useMultiTensor = true := by
  simp [Stype.useMultiTensor, h]

theorem not_multi (s : Stype) (h : s.useMultiTensor = false) :
    s.useNested = false ∧ s.useEmbedding = false := by
  simpa [Stype.useMultiTensor] using h

/-! ### constructors after `to_dict` -/

theorem nested_ofDict_toDict (n : Nested α) (h : n.m.validate = true) :
    Nested.ofDict n.toDict = .ok n := by
  cases n with
  | mk dt m =>
    cases m
    simp_all [Nested.ofDict, Nested.toDict]

theorem embedded_ofDict_toDict (e : Embedded α) (h : metValidate e.m = true) :
    Embedded.ofDict e.toDict = .ok e := by
  cases e with
  | mk dt m =>
    cases m
    simp_all [Embedded.ofDict, Embedded.toDict]

/-- a nested container that comes back from the constructor passed `validate`, and is exactly the
    four fields of the dict. -/
theorem nested_ofDict_ok (d : MTDict α) (n : Nested α) (h : Nested.ofDict d = .ok n) :
    n.toDict = d ∧ n.m.validate = true := by
  cases d with
  | mk R C dt vals off =>
    cases vals with
    | d1 xs =>
      simp only [Nested.ofDict] at h
      split at h
      · rename_i hv
        cases h
        exact ⟨rfl, hv⟩
      · cases h
    | d2 w rows => simp [Nested.ofDict] at h

theorem embedded_ofDict_ok (d : MTDict α) (e : Embedded α) (h : Embedded.ofDict d = .ok e) :
    e.toDict = d ∧ metValidate e.m = true := by
  cases d with
  | mk R C dt vals off =>
    cases vals with
    | d1 xs => simp [Embedded.ofDict] at h
    | d2 w rows =>
      simp only [Embedded.ofDict] at h
      split at h
      · rename_i hv
        cases h
        exact ⟨rfl, hv⟩
      · cases h

theorem deserializeDict_map_toDict (d : List (String × Nested α))
    (h : (d.all fun kv => kv.2.m.validate) = true) :
    deserializeDict (d.map fun kv => (kv.1, kv.2.toDict)) = .ok d := by
  induction d with
  | nil => rfl
  | cons kv rest ih =>
    obtain ⟨k, n⟩ := kv
    simp only [List.all_cons, Bool.and_eq_true] at h
    simp only [List.map_cons, deserializeDict, nested_ofDict_toDict n h.1, ih h.2]
    rfl

/-! ### one feature -/

theorem deserialize_serialize_feat (s : Stype) (f : Feat α) (h : f.okFor s = true) :
    ∃ x, serializeFeat s f = .ok x ∧ deserializeFeat s x = .ok f := by
  cases f with
  | dense t =>
    simp only [Feat.okFor, Bool.and_eq_true, Bool.not_eq_true'] at h
    obtain ⟨hn, he⟩ := not_multi s h.1
    exact ⟨.tensor t, by simp [serializeFeat, h.1, h.2], by simp [deserializeFeat, hn, he, h.2]⟩
  | nested n =>
    simp only [Feat.okFor, Bool.and_eq_true] at h
    refine ⟨.mt n.toDict, by simp [serializeFeat, nested_multi s h.1], ?_⟩
    simp [deserializeFeat, h.1, nested_ofDict_toDict n h.2, Except.map]
  | emb e =>
    simp only [Feat.okFor, Bool.and_eq_true] at h
    refine ⟨.mt e.toDict, by simp [serializeFeat, embedding_multi s h.1], ?_⟩
    simp [deserializeFeat, h.1, embedding_not_nested s h.1, embedded_ofDict_toDict e h.2, Except.map]
  | dict d =>
    simp only [Feat.okFor, Bool.and_eq_true] at h
    have hm := dict_not_multi s h.1
    obtain ⟨hn, he⟩ := not_multi s hm
    refine ⟨.dictMT (d.map fun kv => (kv.1, kv.2.toDict)), by simp [serializeFeat, hm, h.1], ?_⟩
    simp [deserializeFeat, hn, he, h.1, deserializeDict_map_toDict d h.2, Except.map]

/-! ### the whole feature dictionary -/

theorem deserialize_serialize_featDict (feats : List (Stype × Feat α))
    (h : ∀ sf ∈ feats, sf.2.okFor sf.1 = true) :
    ∃ ser, serializeFeatDict feats = .ok ser ∧ deserializeFeatDict ser = .ok feats := by
  induction feats with
  | nil => exact ⟨[], rfl, rfl⟩
  | cons sf rest ih =>
    obtain ⟨s, f⟩ := sf
    obtain ⟨x, hx1, hx2⟩ := deserialize_serialize_feat s f (h (s, f) (by simp))
    obtain ⟨xs, hxs1, hxs2⟩ := ih (fun sf hsf => h sf (by simp [hsf]))
    refine ⟨(s, x) :: xs, ?_, ?_⟩
    · simp only [serializeFeatDict, hx1, hxs1]; rfl
    · simp only [deserializeFeatDict, hx2, hxs2]; rfl

/-! ### `save` then `load` -/

theorem loadVal_saveVal (tf : Frame α) (stats : σ) (h : tf.WF) :
    ∃ v, saveVal tf stats = .ok v ∧ loadVal v = .ok (tf, stats) := by
  obtain ⟨hv, hk⟩ := h
  obtain ⟨ser, h1, h2⟩ := deserialize_serialize_featDict tf.feats hk
  refine ⟨{ tfDict := { y := tf.y, colNames := tf.colNames, featSer := ser }, colStats := stats }, ?_, ?_⟩
  · simp only [saveVal, h1]; rfl
  · cases tf
    simp_all only [loadVal]
    simp [hv, bind, Except.bind, pure, Except.pure]

/-! ### the file store -/

@[simp] theorem write_same {V : Type} (st : Store V) (p : String) (f : File V) :
    (st.write p f) p = some f := by simp [Store.write]

theorem write_other {V : Type} (st : Store V) (p q : String) (f : File V) (h : q ≠ p) :
    (st.write p f) q = st q := by simp [Store.write, h]

/-! ### `materialize`, case by case -/

/-- cache hit: a fresh dataset, the file exists and loads. -/
theorem materialize_hit (compute : Ω → A → D → Except String (Frame α × σ)) (ω : Ω)
    (ds : DS A D α σ) (p : String) (st : Store (FileVal α σ)) (v : FileVal α σ) (r : Frame α × σ)
    (hs : ds.state = none) (hf : st p = some (.intact v)) (hl : loadVal v = .ok r) :
    ds.materialize compute ω (some p) st = .ok ({ ds with state := some r }, st) := by
  simp [DS.materialize, hs, hf, load, torchLoad, hl, bind, Except.bind, pure, Except.pure]

/-- the file exists but does not load: the call raises. -/
theorem materialize_bad_file (compute : Ω → A → D → Except String (Frame α × σ)) (ω : Ω)
    (ds : DS A D α σ) (p : String) (st : Store (FileVal α σ)) (f : File (FileVal α σ))
    (hs : ds.state = none) (hf : st p = some f)
    (hbad : ∀ v, f = .intact v → ∃ e, loadVal v = .error e) :
    ∃ e, ds.materialize compute ω (some p) st = .error e := by
  cases f with
  | damaged =>
    exact ⟨_, by simp [DS.materialize, hs, hf, load, torchLoad, bind, Except.bind]; rfl⟩
  | intact v =>
    obtain ⟨e, he⟩ := hbad v rfl
    exact ⟨e, by simp [DS.materialize, hs, hf, load, torchLoad, he, bind, Except.bind]⟩

/-- cache miss: compute, then save. -/
theorem materialize_miss (compute : Ω → A → D → Except String (Frame α × σ)) (ω : Ω)
    (ds : DS A D α σ) (p : String) (st : Store (FileVal α σ)) (r : Frame α × σ) (v : FileVal α σ)
    (hs : ds.state = none) (hf : st p = none) (hc : compute ω ds.args ds.df = .ok r)
    (hv : saveVal r.1 r.2 = .ok v) :
    ds.materialize compute ω (some p) st = .ok ({ ds with state := some r }, st.write p (.intact v)) := by
  simp [DS.materialize, hs, hf, hc, save, hv, bind, Except.bind, pure, Except.pure]

/-- a successful call never changes a dataset that was already materialised. -/
theorem materialize_keeps_state (compute : Ω → A → D → Except String (Frame α × σ)) (ω : Ω)
    (ds ds' : DS A D α σ) (path : Option String) (st st' : Store (FileVal α σ)) (r : Frame α × σ)
    (hs : ds.state = some r) (h : ds.materialize compute ω path st = .ok (ds', st')) : ds' = ds := by
  obtain ⟨tf, stats⟩ := r
  cases path with
  | none =>
    simp [DS.materialize, hs, pure, Except.pure] at h
    exact h.1.symm
  | some p =>
    simp only [DS.materialize, hs] at h
    split at h
    · cases hsv : save tf stats p st with
      | error e => simp [hsv, bind, Except.bind] at h
      | ok st2 =>
        simp [hsv, bind, Except.bind, pure, Except.pure] at h
        exact h.1.symm
    · simp [pure, Except.pure] at h
      exact h.1.symm

/-- a successful call never changes or removes an existing file, and never changes `args`/`df`. -/
theorem materialize_monotone (compute : Ω → A → D → Except String (Frame α × σ)) (ω : Ω)
    (ds ds' : DS A D α σ) (path : Option String) (st st' : Store (FileVal α σ))
    (h : ds.materialize compute ω path st = .ok (ds', st')) :
    (∀ q f, st q = some f → st' q = some f) ∧ ds'.args = ds.args ∧ ds'.df = ds.df := by
  cases hst : ds.state with
  | some r0 =>
    obtain ⟨tf, stats⟩ := r0
    cases path with
    | none =>
      simp [DS.materialize, hst, pure, Except.pure] at h
      obtain ⟨h1, h2⟩ := h
      subst h1 h2
      exact ⟨fun _ _ hq => hq, rfl, rfl⟩
    | some p =>
      simp only [DS.materialize, hst] at h
      split at h
      · rename_i hnone
        cases hsave : saveVal tf stats with
        | error e => simp [save, hsave, bind, Except.bind] at h
        | ok v =>
          simp [save, hsave, bind, Except.bind, pure, Except.pure] at h
          obtain ⟨h1, h2⟩ := h
          subst h1 h2
          refine ⟨?_, rfl, rfl⟩
          intro q f hq
          have hne : q ≠ p := by
            intro hqp
            subst hqp
            simp [hq] at hnone
          simp [Store.write, hne, hq]
      · simp [pure, Except.pure] at h
        obtain ⟨h1, h2⟩ := h
        subst h1 h2
        exact ⟨fun _ _ hq => hq, rfl, rfl⟩
  | none =>
    cases path with
    | none =>
      simp only [DS.materialize, hst] at h
      cases hc : compute ω ds.args ds.df with
      | error e => simp [hc, bind, Except.bind] at h
      | ok r =>
        simp [hc, bind, Except.bind, pure, Except.pure] at h
        obtain ⟨h1, h2⟩ := h
        subst h1 h2
        exact ⟨fun _ _ hq => hq, rfl, rfl⟩
    | some p =>
      simp only [DS.materialize, hst] at h
      split at h
      · cases hl : load p st with
        | error e => simp [hl, bind, Except.bind] at h
        | ok r =>
          simp [hl, bind, Except.bind, pure, Except.pure] at h
          obtain ⟨h1, h2⟩ := h
          subst h1 h2
          exact ⟨fun _ _ hq => hq, rfl, rfl⟩
      · rename_i hnot
        cases hc : compute ω ds.args ds.df with
        | error e => simp [hc, bind, Except.bind] at h
        | ok r =>
          cases hsave : saveVal r.1 r.2 with
          | error e => simp [hc, save, hsave, bind, Except.bind] at h
          | ok v =>
            simp [hc, save, hsave, bind, Except.bind, pure, Except.pure] at h
            obtain ⟨h1, h2⟩ := h
            subst h1 h2
            refine ⟨?_, rfl, rfl⟩
            intro q f hq
            have hne : q ≠ p := by
              intro hqp
              subst hqp
              simp [hq] at hnot
            simp [Store.write, hne, hq]

/-! ### histories -/

/-- one step of a history never changes or removes a file and never changes a materialised
    dataset, nor anybody's constructor arguments. -/
theorem step_monotone (compute : Ω → A → D → Except String (Frame α × σ)) (w : World A D α σ)
    (s : Step Ω) :
    (∀ q f, w.store q = some f → (w.step compute s).store q = some f) ∧
    (∀ i r, (w.pool i).state = some r → ((w.step compute s).pool i).state = some r) ∧
    (∀ i, ((w.step compute s).pool i).args = (w.pool i).args ∧
          ((w.step compute s).pool i).df = (w.pool i).df) := by
  unfold World.step
  cases h : (w.pool s.ds).materialize compute s.ω s.path w.store with
  | error e => exact ⟨fun _ _ hq => hq, fun _ _ hi => hi, fun _ => ⟨rfl, rfl⟩⟩
  | ok res =>
    obtain ⟨d, st⟩ := res
    obtain ⟨hm1, hm2, hm3⟩ := materialize_monotone compute s.ω _ _ _ _ _ h
    refine ⟨hm1, ?_, ?_⟩
    · intro i r hi
      by_cases hid : i = s.ds
      · subst hid
        have := materialize_keeps_state compute s.ω _ _ _ _ _ r hi h
        simp [updatePool, this, hi]
      · simp [updatePool, hid, hi]
    · intro i
      by_cases hid : i = s.ds
      · subst hid
        simp [updatePool, hm2, hm3]
      · simp [updatePool, hid]

theorem run_monotone (compute : Ω → A → D → Except String (Frame α × σ)) (steps : List (Step Ω)) :
    ∀ w : World A D α σ,
    (∀ q f, w.store q = some f → (w.run compute steps).store q = some f) ∧
    (∀ i r, (w.pool i).state = some r → ((w.run compute steps).pool i).state = some r) ∧
    (∀ i, ((w.run compute steps).pool i).args = (w.pool i).args ∧
          ((w.run compute steps).pool i).df = (w.pool i).df) := by
  induction steps with
  | nil => intro w; exact ⟨fun _ _ h => h, fun _ _ h => h, fun _ => ⟨rfl, rfl⟩⟩
  | cons s rest ih =>
    intro w
    obtain ⟨a1, a2, a3⟩ := step_monotone compute w s
    obtain ⟨b1, b2, b3⟩ := ih (w.step compute s)
    refine ⟨fun q f h => b1 q f (a1 q f h), fun i r h => b2 i r (a2 i r h), fun i => ?_⟩
    exact ⟨(b3 i).1.trans (a3 i).1, (b3 i).2.trans (a3 i).2⟩

/-- the state a step leaves in the dataset it touched, when the call is a cache hit. -/
theorem step_hit (compute : Ω → A → D → Except String (Frame α × σ)) (w : World A D α σ)
    (i : Nat) (ω : Ω) (p : String) (v : FileVal α σ) (r : Frame α × σ)
    (hs : (w.pool i).state = none) (hf : w.store p = some (.intact v)) (hl : loadVal v = .ok r) :
    ((w.step compute ⟨i, ω, some p⟩).pool i).state = some r ∧
    (w.step compute ⟨i, ω, some p⟩).store = w.store := by
  simp [World.step, materialize_hit compute ω (w.pool i) p w.store v r hs hf hl, updatePool]

theorem step_miss (compute : Ω → A → D → Except String (Frame α × σ)) (w : World A D α σ)
    (i : Nat) (ω : Ω) (p : String) (r : Frame α × σ) (v : FileVal α σ)
    (hs : (w.pool i).state = none) (hf : w.store p = none)
    (hc : compute ω (w.pool i).args (w.pool i).df = .ok r) (hv : saveVal r.1 r.2 = .ok v) :
    ((w.step compute ⟨i, ω, some p⟩).pool i).state = some r ∧
    (w.step compute ⟨i, ω, some p⟩).store = w.store.write p (.intact v) := by
  simp [World.step, materialize_miss compute ω (w.pool i) p w.store r v hs hf hc hv, updatePool]

end TFVerif.IO

/-
Helper lemmas for the ragged-container refinement proofs (C05, C06).  Core Lean only.
-/
import TFVerif.Model.Ragged

namespace TFVerif

/-! ### prefix sums -/

/-- `acc :: cumsumFrom acc ls`, structurally. -/
def ps (acc : Nat) : List Nat → List Nat
  | [] => [acc]
  | x :: xs => acc :: ps (acc + x) xs

theorem ps_eq_cumsumFrom (acc : Nat) (ls : List Nat) : acc :: cumsumFrom acc ls = ps acc ls := by
  induction ls generalizing acc with
  | nil => rfl
  | cons x xs ih => simp [cumsumFrom, ps, ih]

theorem psums_eq (ls : List Nat) : 0 :: cumsum ls = ps 0 ls := ps_eq_cumsumFrom 0 ls

@[simp] theorem ps_length (acc : Nat) (ls : List Nat) : (ps acc ls).length = ls.length + 1 := by
  induction ls generalizing acc with
  | nil => rfl
  | cons x xs ih => simp [ps, ih]

theorem ps_ne_nil (acc : Nat) (ls : List Nat) : ps acc ls ≠ [] := by
  cases ls <;> simp [ps]

theorem drop_ps (acc : Nat) (ls : List Nat) (a : Nat) (h : a ≤ ls.length) :
    (ps acc ls).drop a = ps (acc + (ls.take a).sum) (ls.drop a) := by
  induction ls generalizing acc a with
  | nil => simp at h; subst h; simp
  | cons x xs ih =>
    cases a with
    | zero => simp
    | succ a' =>
      simp at h
      simp [ps, ih (acc + x) a' h, Nat.add_assoc]

theorem take_ps (acc : Nat) (ls : List Nat) (n : Nat) (h : n ≤ ls.length) :
    (ps acc ls).take (n + 1) = ps acc (ls.take n) := by
  induction ls generalizing acc n with
  | nil => simp at h; subst h; simp [ps]
  | cons x xs ih =>
    cases n with
    | zero => simp [ps]
    | succ n' =>
      simp at h
      simp [ps, ih (acc + x) n' h]

theorem ps_shift (acc : Nat) (ls : List Nat) : ps acc ls = (ps 0 ls).map (· + acc) := by
  induction ls generalizing acc with
  | nil => simp [ps]
  | cons x xs ih =>
    simp only [ps, List.map_cons, Nat.zero_add]
    rw [ih (acc + x), ih x]
    simp [List.map_map, Function.comp_def, Nat.add_comm, Nat.add_left_comm]

theorem ps_map_sub (acc : Nat) (ls : List Nat) : (ps acc ls).map (· - acc) = ps 0 ls := by
  rw [ps_shift acc ls]; simp [List.map_map, Function.comp_def]

@[simp] theorem ps_headD (acc : Nat) (ls : List Nat) : (ps acc ls).headD 0 = acc := by
  cases ls <;> simp [ps]

theorem ps_getLastD (acc : Nat) (ls : List Nat) : (ps acc ls).getLastD 0 = acc + ls.sum := by
  induction ls generalizing acc with
  | nil => simp [ps]
  | cons x xs ih =>
    have := ih (acc + x)
    cases hxs : ps (acc + x) xs with
    | nil => exact absurd hxs (ps_ne_nil _ _)
    | cons y ys => simp [ps, hxs, List.getLastD] at *; omega

theorem ps_getD (acc : Nat) (ls : List Nat) (k : Nat) (h : k ≤ ls.length) :
    (ps acc ls).getD k 0 = acc + (ls.take k).sum := by
  induction ls generalizing acc k with
  | nil => simp at h; subst h; simp [ps]
  | cons x xs ih =>
    cases k with
    | zero => simp [ps]
    | succ k' =>
      simp at h
      have := ih (acc + x) k' h
      simp only [ps, List.getD_cons_succ, List.take_succ_cons, List.sum_cons, this]
      omega

/-- cell lengths recovered from the prefix sums. -/
theorem counts_ps (acc : Nat) (ls : List Nat) :
    List.zipWith (· - ·) (ps acc ls).tail (ps acc ls).dropLast = ls := by
  induction ls generalizing acc with
  | nil => simp [ps]
  | cons x xs ih =>
    have h := ih (acc + x)
    cases xs with
    | nil => simp [ps]
    | cons y ys =>
      simp only [ps, List.tail_cons] at h ⊢
      rw [List.dropLast_cons_of_ne_nil (by simp)]
      rw [List.dropLast_cons_of_ne_nil (ps_ne_nil _ _)] at h ⊢
      simp only [List.zipWith_cons_cons] at h ⊢
      rw [h]
      simp

/-! ### flatten / segments -/

theorem flatten_drop_lengths {β : Type} (cells : List (List β)) (a : Nat) :
    cells.flatten.drop (((cells.take a).map List.length).sum) = (cells.drop a).flatten := by
  induction cells generalizing a with
  | nil => simp
  | cons c cs ih =>
    cases a with
    | zero => simp
    | succ a' =>
      simp only [List.take_succ_cons, List.map_cons, List.sum_cons, List.flatten_cons, List.drop_succ_cons]
      rw [List.drop_length_add_append]
      exact ih a'

theorem flatten_take_lengths {β : Type} (cells : List (List β)) (n : Nat) :
    cells.flatten.take (((cells.take n).map List.length).sum) = (cells.take n).flatten := by
  induction cells generalizing n with
  | nil => simp
  | cons c cs ih =>
    cases n with
    | zero => simp
    | succ n' =>
      simp only [List.take_succ_cons, List.map_cons, List.sum_cons, List.flatten_cons]
      rw [List.take_length_add_append]
      rw [ih n']

/-- the value segment between two prefix sums is the flattening of the cells in between. -/
theorem segment_flatten {β : Type} (cells : List (List β)) (a n : Nat) :
    (cells.flatten.drop (((cells.take a).map List.length).sum)).take
        ((((cells.drop a).take n).map List.length).sum)
      = ((cells.drop a).take n).flatten := by
  rw [flatten_drop_lengths, flatten_take_lengths]

/-- gathering `c` consecutive positions starting at `s` is `drop s |>.take c`, unconditionally. -/
theorem gather_range {β : Type} (xs : List β) (s c : Nat) :
    (List.range c).flatMap (fun a => (xs[s + a]?).toList) = (xs.drop s).take c := by
  induction c with
  | zero => simp
  | succ c ih =>
    rw [List.range_succ, List.flatMap_append, ih, List.take_add_one]
    simp [List.getElem?_drop]

/-! ### rows of equal length -/

theorem uniform_flatten_drop {β : Type} (rows : List (List β)) (C : Nat)
    (h : ∀ r ∈ rows, r.length = C) (i : Nat) :
    rows.flatten.drop (i * C) = (rows.drop i).flatten := by
  induction rows generalizing i with
  | nil => simp
  | cons r rs ih =>
    cases i with
    | zero => simp
    | succ i' =>
      have hr : r.length = C := h r (by simp)
      have : (i' + 1) * C = r.length + i' * C := by rw [hr, Nat.add_mul]; omega
      rw [this, List.flatten_cons, List.drop_length_add_append, List.drop_succ_cons]
      exact ih (fun r hr => h r (by simp [hr])) i'

theorem uniform_flatten_take {β : Type} (rows : List (List β)) (C : Nat)
    (h : ∀ r ∈ rows, r.length = C) (n : Nat) :
    rows.flatten.take (n * C) = (rows.take n).flatten := by
  induction rows generalizing n with
  | nil => simp
  | cons r rs ih =>
    cases n with
    | zero => simp
    | succ n' =>
      have hr : r.length = C := h r (by simp)
      have : (n' + 1) * C = r.length + n' * C := by rw [hr, Nat.add_mul]; omega
      rw [this, List.flatten_cons, List.take_length_add_append, List.take_succ_cons, List.flatten_cons]
      rw [ih (fun r hr => h r (by simp [hr])) n']

theorem uniform_flatten_length {β : Type} (rows : List (List β)) (C : Nat)
    (h : ∀ r ∈ rows, r.length = C) : rows.flatten.length = rows.length * C := by
  induction rows with
  | nil => simp
  | cons r rs ih =>
    have hr : r.length = C := h r (by simp)
    simp [List.length_flatten] at ih ⊢
    rw [ih (fun r hr => h r (by simp [hr])), hr, Nat.add_mul]; omega

end TFVerif

namespace TFVerif

theorem flatMap_congr' {ι δ : Type} (l : List ι) (f g : ι → List δ) (h : ∀ x ∈ l, f x = g x) :
    l.flatMap f = l.flatMap g := by
  induction l with
  | nil => rfl
  | cons x xs ih =>
    simp only [List.flatMap_cons]
    rw [h x (by simp), ih (fun y hy => h y (by simp [hy]))]

theorem flatten_flatMap' {ι δ : Type} (l : List ι) (f : ι → List (List δ)) :
    (l.flatMap f).flatten = l.flatMap fun x => (f x).flatten := by
  induction l with
  | nil => rfl
  | cons x xs ih => simp [List.flatMap_cons, ih]

theorem flatMap_singleton_map {ι δ : Type} (l : List ι) (f : ι → δ) :
    l.flatMap (fun x => [f x]) = l.map f := by
  induction l with
  | nil => rfl
  | cons x xs ih => simp [List.flatMap_cons, ih]

/-! ### gathers -/

theorem gatherBA_eq {β : Type} (values : List β) (starts counts : List Nat) :
    gatherBA values starts counts =
      counts.zipIdx.flatMap fun (c, i) => (values.drop (starts.getD i 0)).take c := by
  unfold gatherBA batchedArange
  rw [List.flatMap_assoc]
  congr 1
  funext ⟨c, i⟩
  simp only [List.flatMap_map]
  exact gather_range values (starts.getD i 0) c

/-- indexing a mapped list through `zipIdx`/`getD` is just mapping. -/
theorem zipIdx_flatMap_getD_map {ι γ δ : Type} (js pre : List ι) (f : ι → Nat) (g : ι → Nat)
    (F : Nat → Nat → List δ) :
    ((js.map g).zipIdx pre.length).flatMap (fun (c, i) => F c (((pre ++ js).map f).getD i 0))
      = js.flatMap fun j => F (g j) (f j) := by
  induction js generalizing pre with
  | nil => simp
  | cons j js ih =>
    simp only [List.map_cons, List.zipIdx_cons, List.flatMap_cons]
    have h1 : ((pre ++ j :: js).map f).getD pre.length 0 = f j := by
      simp [List.getD_eq_getElem?_getD, List.getElem?_append_right]
    rw [h1]
    congr 1
    have := ih (pre ++ [j])
    simp only [List.length_append, List.length_cons, List.length_nil, List.append_assoc,
      List.cons_append, List.nil_append] at this
    exact this

theorem gatherBA_map {ι β : Type} (values : List β) (js : List ι) (f g : ι → Nat) :
    gatherBA values (js.map f) (js.map g) = js.flatMap fun j => (values.drop (f j)).take (g j) := by
  rw [gatherBA_eq]
  have := zipIdx_flatMap_getD_map (γ := Nat) js [] f g (fun c s => (values.drop s).take c)
  simpa using this

/-! ### canonical storage of a list of cells -/

def MNT.ofCells {α : Type} (R C : Nat) (cells : List (List α)) : MNT α :=
  { numRows := R, numCols := C, values := cells.flatten, offset := ps 0 (cells.map List.length) }

theorem MNT.ofGrid_eq {α : Type} (g : Grid α) :
    MNT.ofGrid g = MNT.ofCells g.rows.length g.numCols g.rows.flatten := by
  simp [MNT.ofGrid, MNT.ofCells, psums_eq]

theorem ofCells_counts {α : Type} (R C : Nat) (cells : List (List α)) :
    (MNT.ofCells R C cells).counts = cells.map List.length := by
  simp [MNT.counts, MNT.ofCells, counts_ps]

theorem ofCells_off {α : Type} (R C : Nat) (cells : List (List α)) (k : Nat) (h : k ≤ cells.length) :
    (MNT.ofCells R C cells).offset.getD k 0 = ((cells.take k).map List.length).sum := by
  simp only [MNT.ofCells]
  rw [ps_getD 0 _ k (by simpa using h)]
  simp [List.map_take]

/-- the value segment between the offsets of cell `k` and cell `k+n`. -/
theorem ofCells_segment {α : Type} (R C : Nat) (cells : List (List α)) (k n : Nat)
    (h : k + n ≤ cells.length) :
    let m := MNT.ofCells R C cells
    (m.values.drop (m.offset.getD k 0)).take (m.offset.getD (k + n) 0 - m.offset.getD k 0)
      = ((cells.drop k).take n).flatten := by
  intro m
  have hk : k ≤ cells.length := by omega
  rw [ofCells_off R C cells k hk, ofCells_off R C cells (k + n) h]
  have : ((cells.take (k + n)).map List.length).sum - ((cells.take k).map List.length).sum
      = (((cells.drop k).take n).map List.length).sum := by
    rw [List.take_add, List.map_append, List.sum_append]; omega
  rw [this]
  exact segment_flatten cells k n

theorem ofCells_count_at {α : Type} (R C : Nat) (cells : List (List α)) (k : Nat) (h : k < cells.length) :
    let m := MNT.ofCells R C cells
    m.offset.getD (k + 1) 0 - m.offset.getD k 0 = (cells.getD k []).length := by
  intro m
  rw [ofCells_off R C cells k (by omega), ofCells_off R C cells (k + 1) (by omega)]
  rw [List.take_add_one, List.map_append, List.sum_append]
  simp [List.getD_eq_getElem?_getD, h]

end TFVerif

namespace TFVerif

/-! ### the primitives on canonical storage (cell level) -/

theorem rowNarrow_ofCells {α : Type} (R C : Nat) (cells : List (List α)) (s l : Nat)
    (hlen : cells.length = R * C) (h : s + l ≤ R) :
    (MNT.ofCells R C cells).rowNarrow s l = MNT.ofCells l C ((cells.drop (s * C)).take (l * C)) := by
  have h1 : s * C ≤ (cells.map List.length).length := by
    simp [hlen]; exact Nat.mul_le_mul_right C (by omega)
  have h2 : l * C ≤ ((cells.map List.length).drop (s * C)).length := by
    simp [hlen]
    have : (s + l) * C ≤ R * C := Nat.mul_le_mul_right C h
    rw [Nat.add_mul] at this; omega
  have hoff : pySlice (ps 0 (cells.map List.length)) (s * C) ((s + l) * C + 1)
      = ps ((cells.map List.length).take (s * C)).sum
           (((cells.map List.length).drop (s * C)).take (l * C)) := by
    unfold pySlice
    have : (s + l) * C + 1 - s * C = l * C + 1 := by rw [Nat.add_mul]; omega
    rw [this, drop_ps 0 _ _ h1, take_ps _ _ _ h2]; simp
  unfold MNT.rowNarrow MNT.ofCells
  simp only [hoff, ps_headD, ps_getLastD, ps_map_sub]
  have hv : pySlice cells.flatten ((cells.map List.length).take (s * C)).sum
      (((cells.map List.length).take (s * C)).sum
        + (((cells.map List.length).drop (s * C)).take (l * C)).sum)
      = ((cells.drop (s * C)).take (l * C)).flatten := by
    unfold pySlice
    rw [Nat.add_sub_cancel_left]
    have := segment_flatten cells (s * C) (l * C)
    simpa [List.map_take, List.map_drop] using this
  rw [hv]
  simp [List.map_take, List.map_drop]

theorem singleIndexSelect0_eq_rowNarrow {α : Type} (m : MNT α) (i : Nat) :
    m.singleIndexSelect i 0 = m.rowNarrow i 1 := by
  simp [MNT.singleIndexSelect, MNT.rowNarrow]

/-- every gather-shaped primitive: segments `(k j, n j)` of consecutive cells. -/
theorem gather_ofCells {α ι : Type} (R C : Nat) (cells : List (List α)) (js : List ι)
    (k n : ι → Nat) (h : ∀ j ∈ js, k j + n j ≤ cells.length) :
    let m := MNT.ofCells R C cells
    gatherBA m.values (js.map fun j => m.offset.getD (k j) 0)
        (js.map fun j => m.offset.getD (k j + n j) 0 - m.offset.getD (k j) 0)
      = (js.flatMap fun j => (cells.drop (k j)).take (n j)).flatten := by
  intro m
  rw [gatherBA_map, flatten_flatMap']
  apply flatMap_congr'
  intro j hj
  exact ofCells_segment R C cells (k j) (n j) (h j hj)

theorem counts_slices_ofCells {α ι : Type} (R C : Nat) (cells : List (List α)) (js : List ι)
    (k n : ι → Nat) :
    (js.flatMap fun j => pySlice (MNT.ofCells R C cells).counts (k j) (k j + n j))
      = (js.flatMap fun j => (cells.drop (k j)).take (n j)).map List.length := by
  rw [ofCells_counts, List.map_flatMap]
  apply flatMap_congr'
  intro j _
  simp [pySlice, List.map_take, List.map_drop]

end TFVerif

namespace TFVerif

theorem drop_take_one {β : Type} (l : List β) (k : Nat) (d : β) (h : k < l.length) :
    (l.drop k).take 1 = [l.getD k d] := by
  induction l generalizing k with
  | nil => simp at h
  | cons x xs ih =>
    cases k with
    | zero => simp
    | succ k' => simp at h; simpa using ih k' h

theorem rowIndexSelect_ofCells {α : Type} (R C : Nat) (cells : List (List α)) (idx : List Nat)
    (hlen : cells.length = R * C) (hne : idx ≠ []) (hidx : ∀ i ∈ idx, i < R) :
    (MNT.ofCells R C cells).rowIndexSelect idx
      = MNT.ofCells idx.length C (idx.flatMap fun i => (cells.drop (i * C)).take C) := by
  have hb : ∀ i ∈ idx, i * C + C ≤ cells.length := by
    intro i hi
    have : (i + 1) * C ≤ R * C := Nat.mul_le_mul_right C (hidx i hi)
    rw [Nat.add_mul] at this; omega
  unfold MNT.rowIndexSelect
  have : idx.isEmpty = false := by cases idx <;> simp_all
  simp only [this, Bool.false_eq_true, if_false]
  have hv := gather_ofCells R C cells idx (fun i => i * C) (fun _ => C) hb
  have ho := counts_slices_ofCells R C cells idx (fun i => i * C) (fun _ => C)
  have e1 : ∀ i : Nat, (i + 1) * C = i * C + C := by intro i; rw [Nat.add_mul]; omega
  have hC : (MNT.ofCells R C cells).numCols = C := rfl
  simp only [hC, e1]
  rw [hv, ho, psums_eq]
  rfl

theorem colNarrow_ofCells {α : Type} (R C : Nat) (cells : List (List α)) (s l : Nat)
    (hlen : cells.length = R * C) (h : s + l ≤ C) :
    (MNT.ofCells R C cells).colNarrow s l
      = MNT.ofCells R l ((List.range R).flatMap fun r => (cells.drop (r * C + s)).take l) := by
  unfold MNT.colNarrow
  have hR : (MNT.ofCells R C cells).numRows = R := rfl
  have hC : (MNT.ofCells R C cells).numCols = C := rfl
  simp only [hR, hC]
  by_cases h0 : R = 0
  · subst h0
    have : cells = [] := by simpa using hlen
    subst this
    simp [MNT.ofCells, ps]
  · simp only [h0, if_false]
    have hb : ∀ r ∈ List.range R, r * C + s + l ≤ cells.length := by
      intro r hr
      have hr' : r < R := by simpa using hr
      have : (r + 1) * C ≤ R * C := Nat.mul_le_mul_right C hr'
      rw [Nat.add_mul] at this; omega
    have hv := gather_ofCells R C cells (List.range R) (fun r => r * C + s) (fun _ => l) hb
    have ho := counts_slices_ofCells R C cells (List.range R) (fun r => r * C + s) (fun _ => l)
    rw [hv, ho, psums_eq]
    rfl

theorem colIndexSelect_ofCells {α : Type} (R C : Nat) (cells : List (List α)) (idx : List Nat)
    (hlen : cells.length = R * C) (hne : idx ≠ []) (hidx : ∀ c ∈ idx, c < C) :
    (MNT.ofCells R C cells).colIndexSelect idx
      = MNT.ofCells R idx.length
          ((List.range R).flatMap fun r => idx.map fun c => cells.getD (c + r * C) []) := by
  unfold MNT.colIndexSelect
  have : idx.isEmpty = false := by cases idx <;> simp_all
  simp only [this, Bool.false_eq_true, if_false]
  have hR : (MNT.ofCells R C cells).numRows = R := rfl
  have hC : (MNT.ofCells R C cells).numCols = C := rfl
  simp only [hR, hC]
  have hb : ∀ k ∈ (List.range R).flatMap (fun r => idx.map (· + r * C)), k < cells.length := by
    intro k hk
    simp only [List.mem_flatMap, List.mem_range, List.mem_map] at hk
    obtain ⟨r, hr, c, hc, rfl⟩ := hk
    have : (r + 1) * C ≤ R * C := Nat.mul_le_mul_right C hr
    rw [Nat.add_mul] at this
    have := hidx c hc
    omega
  have hv := gather_ofCells R C cells ((List.range R).flatMap fun r => idx.map (· + r * C))
    (fun k => k) (fun _ => 1) (fun k hk => by have := hb k hk; omega)
  have hsel : (((List.range R).flatMap fun r => idx.map (· + r * C)).flatMap
        fun k => (cells.drop k).take 1)
      = (List.range R).flatMap fun r => idx.map fun c => cells.getD (c + r * C) [] := by
    rw [List.flatMap_assoc]
    apply flatMap_congr'
    intro r hr
    rw [List.flatMap_map]
    have : ∀ c ∈ idx, (cells.drop (c + r * C)).take 1 = [cells.getD (c + r * C) []] := by
      intro c hc
      apply drop_take_one
      apply hb
      simp only [List.mem_flatMap, List.mem_range, List.mem_map]
      exact ⟨r, by simpa using hr, c, hc, rfl⟩
    rw [flatMap_congr' idx _ _ this]
    exact flatMap_singleton_map idx _
  rw [hv, hsel]
  have hcnt : (((List.range R).flatMap fun r => idx.map (· + r * C)).map fun k =>
        (MNT.ofCells R C cells).offset.getD (k + 1) 0 - (MNT.ofCells R C cells).offset.getD k 0)
      = ((List.range R).flatMap fun r => idx.map fun c => cells.getD (c + r * C) []).map List.length := by
    rw [List.map_flatMap, List.map_flatMap]
    apply flatMap_congr'
    intro r hr
    simp only [List.map_map]
    apply List.map_congr_left
    intro c hc
    simp only [Function.comp]
    apply ofCells_count_at
    apply hb
    simp only [List.mem_flatMap, List.mem_range, List.mem_map]
    exact ⟨r, by simpa using hr, c, hc, rfl⟩
  rw [hcnt, psums_eq]
  rfl

end TFVerif

namespace TFVerif

theorem singleIndexSelect1_ofCells {α : Type} (R C : Nat) (cells : List (List α)) (i : Nat)
    (hlen : cells.length = R * C) (hi : i < C) :
    (MNT.ofCells R C cells).singleIndexSelect i 1
      = MNT.ofCells R 1 ((List.range R).map fun r => cells.getD (r * C + i) []) := by
  unfold MNT.singleIndexSelect
  have hR : (MNT.ofCells R C cells).numRows = R := rfl
  have hC : (MNT.ofCells R C cells).numCols = C := rfl
  simp only [hR, hC, Nat.one_ne_zero, if_false]
  have hb : ∀ k ∈ (List.range R).map (fun r => r * C + i), k < cells.length := by
    intro k hk
    simp only [List.mem_map, List.mem_range] at hk
    obtain ⟨r, hr, rfl⟩ := hk
    have : (r + 1) * C ≤ R * C := Nat.mul_le_mul_right C hr
    rw [Nat.add_mul] at this; omega
  have hv := gather_ofCells R C cells ((List.range R).map fun r => r * C + i)
    (fun k => k) (fun _ => 1) (fun k hk => by have := hb k hk; omega)
  have hsel : (((List.range R).map fun r => r * C + i).flatMap fun k => (cells.drop k).take 1)
      = (List.range R).map fun r => cells.getD (r * C + i) [] := by
    rw [List.flatMap_map]
    have : ∀ r ∈ List.range R, (cells.drop (r * C + i)).take 1 = [cells.getD (r * C + i) []] := by
      intro r hr
      apply drop_take_one
      apply hb
      simp only [List.mem_map, List.mem_range]
      exact ⟨r, by simpa using hr, rfl⟩
    rw [flatMap_congr' _ _ _ this]
    exact flatMap_singleton_map _ _
  simp only [List.map_map, Function.comp_def] at hv ⊢
  rw [hv, hsel]
  have hcnt : ((List.range R).map fun r =>
        (MNT.ofCells R C cells).offset.getD (r * C + i + 1) 0 - (MNT.ofCells R C cells).offset.getD (r * C + i) 0)
      = ((List.range R).map fun r => cells.getD (r * C + i) []).map List.length := by
    simp only [List.map_map]
    apply List.map_congr_left
    intro r hr
    simp only [Function.comp]
    apply ofCells_count_at
    apply hb
    simp only [List.mem_map, List.mem_range]
    exact ⟨r, by simpa using hr, rfl⟩
  rw [hcnt, psums_eq]
  rfl

end TFVerif

/-
Helper lemmas for the ragged-container refinement proofs (C05, C06).  Core Lean only.
-/
import TFVerif.Model.Ragged

namespace TFVerif

/-! ### prefix sums -/

/-- `acc :: cumsumFrom acc ls`, structurally. -/
def ps (acc : Nat) : List Nat → List Nat
  | [] => [acc]
  | x :: xs => acc :: ps (acc + x) xs

theorem ps_eq_cumsumFrom (acc : Nat) (ls : List Nat) : acc :: cumsumFrom acc ls = ps acc ls := by
  induction ls generalizing acc with
  | nil => rfl
  | cons x xs ih => simp [cumsumFrom, ps, ih]

theorem psums_eq (ls : List Nat) : 0 :: cumsum ls = ps 0 ls := ps_eq_cumsumFrom 0 ls

@[simp] theorem ps_length (acc : Nat) (ls : List Nat) : (ps acc ls).length = ls.length + 1 := by
  induction ls generalizing acc with
  | nil => rfl
  | cons x xs ih => simp [ps, ih]

theorem ps_ne_nil (acc : Nat) (ls : List Nat) : ps acc ls ≠ [] := by
  cases ls <;> simp [ps]

theorem drop_ps (acc : Nat) (ls : List Nat) (a : Nat) (h : a ≤ ls.length) :
    (ps acc ls).drop a = ps (acc + (ls.take a).sum) (ls.drop a) := by
  induction ls generalizing acc a with
  | nil => simp at h; subst h; simp
  | cons x xs ih =>
    cases a with
    | zero => simp
    | succ a' =>
      simp at h
      simp [ps, ih (acc + x) a' h, Nat.add_assoc]

theorem take_ps (acc : Nat) (ls : List Nat) (n : Nat) (h : n ≤ ls.length) :
    (ps acc ls).take (n + 1) = ps acc (ls.take n) := by
  induction ls generalizing acc n with
  | nil => simp at h; subst h; simp [ps]
  | cons x xs ih =>
    cases n with
    | zero => simp [ps]
    | succ n' =>
      simp at h
      simp [ps, ih (acc + x) n' h]

theorem ps_shift (acc : Nat) (ls : List Nat) : ps acc ls = (ps 0 ls).map (· + acc) := by
  induction ls generalizing acc with
  | nil => simp [ps]
  | cons x xs ih =>
    simp only [ps, List.map_cons, Nat.zero_add]
    rw [ih (acc + x), ih x]
    simp [List.map_map, Function.comp_def, Nat.add_comm, Nat.add_left_comm]

theorem ps_map_sub (acc : Nat) (ls : List Nat) : (ps acc ls).map (· - acc) = ps 0 ls := by
  rw [ps_shift acc ls]; simp [List.map_map, Function.comp_def]

@[simp] theorem ps_headD (acc : Nat) (ls : List Nat) : (ps acc ls).headD 0 = acc := by
  cases ls <;> simp [ps]

theorem ps_getLastD (acc : Nat) (ls : List Nat) : (ps acc ls).getLastD 0 = acc + ls.sum := by
  induction ls generalizing acc with
  | nil => simp [ps]
  | cons x xs ih =>
    have := ih (acc + x)
    cases hxs : ps (acc + x) xs with
    | nil => exact absurd hxs (ps_ne_nil _ _)
    | cons y ys => simp [ps, hxs, List.getLastD] at *; omega

theorem ps_getD (acc : Nat) (ls : List Nat) (k : Nat) (h : k ≤ ls.length) :
    (ps acc ls).getD k 0 = acc + (ls.take k).sum := by
  have := drop_ps acc ls k h
  have h2 : (ps acc ls).getD k 0 = ((ps acc ls).drop k).headD 0 := by
    simp [List.getD_eq_getElem?_getD, List.headD, List.head?_drop]
  rw [h2, this, ps_headD]

/-- cell lengths recovered from the prefix sums. -/
theorem counts_ps (acc : Nat) (ls : List Nat) :
    List.zipWith (· - ·) (ps acc ls).tail (ps acc ls).dropLast = ls := by
  induction ls generalizing acc with
  | nil => simp [ps]
  | cons x xs ih =>
    have h := ih (acc + x)
    cases hxs : ps (acc + x) xs with
    | nil => exact absurd hxs (ps_ne_nil _ _)
    | cons y ys =>
      have hy : y = acc + x := by
        have := ps_headD (acc + x) xs; rw [hxs] at this; simpa using this
      rw [hxs] at h
      simp [ps, hxs, List.dropLast] at h ⊢
      cases ys with
      | nil =>
        cases xs with
        | nil => simp; omega
        | cons _ _ => simp [ps] at hxs
      | cons z zs =>
        simp [List.dropLast] at h ⊢
        refine ⟨by omega, h⟩

/-! ### flatten / segments -/

theorem flatten_drop_lengths {β : Type} (cells : List (List β)) (a : Nat) :
    cells.flatten.drop (((cells.take a).map List.length).sum) = (cells.drop a).flatten := by
  induction cells generalizing a with
  | nil => simp
  | cons c cs ih =>
    cases a with
    | zero => simp
    | succ a' =>
      simp only [List.take_succ_cons, List.map_cons, List.sum_cons, List.flatten_cons, List.drop_succ_cons]
      rw [List.drop_length_add_append]
      exact ih a'

theorem flatten_take_lengths {β : Type} (cells : List (List β)) (n : Nat) :
    cells.flatten.take (((cells.take n).map List.length).sum) = (cells.take n).flatten := by
  induction cells generalizing n with
  | nil => simp
  | cons c cs ih =>
    cases n with
    | zero => simp
    | succ n' =>
      simp only [List.take_succ_cons, List.map_cons, List.sum_cons, List.flatten_cons]
      rw [List.take_length_add_append]
      rw [ih n']

/-- the value segment between two prefix sums is the flattening of the cells in between. -/
theorem segment_flatten {β : Type} (cells : List (List β)) (a n : Nat) :
    (cells.flatten.drop (((cells.take a).map List.length).sum)).take
        ((((cells.drop a).take n).map List.length).sum)
      = ((cells.drop a).take n).flatten := by
  rw [flatten_drop_lengths, flatten_take_lengths]

/-- gathering `c` consecutive positions starting at `s` is `drop s |>.take c`, unconditionally. -/
theorem gather_range {β : Type} (xs : List β) (s c : Nat) :
    (List.range c).flatMap (fun a => (xs[s + a]?).toList) = (xs.drop s).take c := by
  induction c with
  | zero => simp
  | succ c ih =>
    rw [List.range_succ, List.flatMap_append, ih, List.take_succ]
    simp [List.getElem?_drop]

/-! ### rows of equal length -/

theorem uniform_flatten_drop {β : Type} (rows : List (List β)) (C : Nat)
    (h : ∀ r ∈ rows, r.length = C) (i : Nat) :
    rows.flatten.drop (i * C) = (rows.drop i).flatten := by
  induction rows generalizing i with
  | nil => simp
  | cons r rs ih =>
    cases i with
    | zero => simp
    | succ i' =>
      have hr : r.length = C := h r (by simp)
      have : (i' + 1) * C = r.length + i' * C := by rw [hr, Nat.add_mul]; omega
      rw [this, List.flatten_cons, List.drop_length_add_append, List.drop_succ_cons]
      exact ih (fun r hr => h r (by simp [hr])) i'

theorem uniform_flatten_take {β : Type} (rows : List (List β)) (C : Nat)
    (h : ∀ r ∈ rows, r.length = C) (n : Nat) :
    rows.flatten.take (n * C) = (rows.take n).flatten := by
  induction rows generalizing n with
  | nil => simp
  | cons r rs ih =>
    cases n with
    | zero => simp
    | succ n' =>
      have hr : r.length = C := h r (by simp)
      have : (n' + 1) * C = r.length + n' * C := by rw [hr, Nat.add_mul]; omega
      rw [this, List.flatten_cons, List.take_length_add_append, List.take_succ_cons, List.flatten_cons]
      rw [ih (fun r hr => h r (by simp [hr])) n']

theorem uniform_flatten_length {β : Type} (rows : List (List β)) (C : Nat)
    (h : ∀ r ∈ rows, r.length = C) : rows.flatten.length = rows.length * C := by
  induction rows with
  | nil => simp
  | cons r rs ih =>
    have hr : r.length = C := h r (by simp)
    simp [List.length_flatten] at ih ⊢
    rw [ih (fun r hr => h r (by simp [hr])), hr, Nat.add_mul]; omega

end TFVerif

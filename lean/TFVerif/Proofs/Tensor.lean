/-
Helper lemmas about the tensor combinators of `Model/Tensor.lean` (properties C14, C15):
row selection commutes with every batched combinator, chunk/cat is invisible, the head reshape is a
per-sample operation, sums are symmetric functions, denominators are positive.
-/
import TFVerif.Model.Tensor
import Mathlib.Algebra.Order.Field.Basic
import Mathlib.Tactic.Linarith
import Mathlib.Tactic.Positivity

namespace TFVerif
open List

/-! ### generic list facts -/

theorem selectRows_map {α β : Type} (f : α → β) (idx : List Nat) (X : List α) :
    selectRows idx (X.map f) = (selectRows idx X).map f := by
  simp [selectRows, List.map_filterMap, List.getElem?_map]

theorem selectRows_nil {α : Type} (X : List α) : selectRows [] X = [] := rfl

theorem selectRows_length_le {α : Type} (idx : List Nat) (X : List α) :
    (selectRows idx X).length ≤ idx.length := by
  simp [selectRows]; exact List.length_filterMap_le _ _

theorem selectRows_zipWith {α β γ : Type} (f : α → β → γ) (idx : List Nat) (A : List α) (B : List β)
    (h : A.length = B.length) :
    selectRows idx (List.zipWith f A B) = List.zipWith f (selectRows idx A) (selectRows idx B) := by
  induction idx with
  | nil => rfl
  | cons i is ih =>
    simp only [selectRows, List.filterMap_cons] at ih ⊢
    rw [List.getElem?_zipWith]
    by_cases hi : i < A.length
    · have hb : i < B.length := h ▸ hi
      simp [List.getElem?_eq_getElem hi, List.getElem?_eq_getElem hb, ih]
    · have hb : ¬ i < B.length := h ▸ hi
      simp [List.getElem?_eq_none (Nat.le_of_not_lt hi), List.getElem?_eq_none (Nat.le_of_not_lt hb), ih]

theorem selectRows_length_eq {α β : Type} (idx : List Nat) (A : List α) (B : List β)
    (h : A.length = B.length) : (selectRows idx A).length = (selectRows idx B).length := by
  induction idx with
  | nil => rfl
  | cons i is ih =>
    simp only [selectRows, List.filterMap_cons] at ih ⊢
    by_cases hi : i < A.length
    · have hb : i < B.length := h ▸ hi
      simp [List.getElem?_eq_getElem hi, List.getElem?_eq_getElem hb, ih]
    · have hb : ¬ i < B.length := h ▸ hi
      simp [List.getElem?_eq_none (Nat.le_of_not_lt hi), List.getElem?_eq_none (Nat.le_of_not_lt hb), ih]

/-- a batch function that is a `map` of a per-row function commutes with every row selection -/
theorem rowwise_of_map {α β : Type} {F : List α → List β} {g : α → β} (h : ∀ X, F X = X.map g)
    (idx : List Nat) (X : List α) : F (selectRows idx X) = selectRows idx (F X) := by
  rw [h, h, selectRows_map]

theorem zipWith_map_map_self {α β γ δ : Type} (f : β → γ → δ) (g : α → β) (h : α → γ) (X : List α) :
    List.zipWith f (X.map g) (X.map h) = X.map fun x => f (g x) (h x) := by
  rw [List.zipWith_map, List.zipWith_self]

theorem zipWith_self_map_right {α γ δ : Type} (f : α → γ → δ) (h : α → γ) (X : List α) :
    List.zipWith f X (X.map h) = X.map fun x => f x (h x) := by
  simpa using zipWith_map_map_self f id h X

theorem zipWith_self_map_left {α β δ : Type} (f : β → α → δ) (g : α → β) (X : List α) :
    List.zipWith f (X.map g) X = X.map fun x => f (g x) x := by
  simpa using zipWith_map_map_self f g id X

theorem zipWith_replicate_left {α β γ : Type} (f : α → β → γ) (a : α) (X : List β) :
    List.zipWith f (List.replicate X.length a) X = X.map (f a) := by
  induction X with
  | nil => rfl
  | cons x xs ih => simp [List.replicate_succ, ih]

theorem zipWith_replicate_right {α β γ : Type} (f : β → α → γ) (a : α) (X : List β) :
    List.zipWith f X (List.replicate X.length a) = X.map fun x => f x a := by
  induction X with
  | nil => rfl
  | cons x xs ih => simp [List.replicate_succ, ih]

theorem zipWith_flatMap {α β γ δ : Type} (f : β → γ → δ) (g : α → List β) (h : α → List γ) (X : List α)
    (hl : ∀ x ∈ X, (g x).length = (h x).length) :
    List.zipWith f (X.flatMap g) (X.flatMap h) = X.flatMap fun x => List.zipWith f (g x) (h x) := by
  induction X with
  | nil => rfl
  | cons x xs ih =>
    simp only [List.flatMap_cons]
    rw [List.zipWith_append (hl x (by simp)), ih (fun y hy => hl y (by simp [hy]))]

theorem splitN_flatMap {α β : Type} (H : Nat) (g : α → List β) (X : List α)
    (hl : ∀ x ∈ X, (g x).length = H) : splitN H X.length (X.flatMap g) = X.map g := by
  induction X with
  | nil => rfl
  | cons x xs ih =>
    simp only [List.flatMap_cons, List.length_cons, splitN, List.map_cons]
    rw [List.take_left' (hl x (by simp)), List.drop_left' (hl x (by simp)),
      ih (fun y hy => hl y (by simp [hy]))]

/-- a fold of batch functions that are maps is the map of the fold of the per-row functions -/
theorem foldl_map_comm {α L : Type} (F : L → List α → List α) (G : L → α → α)
    (h : ∀ l X, F l X = X.map (G l)) (ls : List L) (X : List α) :
    ls.foldl (fun x l => F l x) X = X.map fun M => ls.foldl (fun x l => G l x) M := by
  induction ls generalizing X with
  | nil => simp
  | cons l ls ih =>
    rw [List.foldl_cons, h, ih, List.map_map]
    rfl

/-! ### chunk / cat -/

theorem flatten_chunksOf {α : Type} (k : Nat) (hk : 0 < k) :
    ∀ (fuel : Nat) (xs : List α), xs.length ≤ fuel → (chunksOf k fuel xs).flatten = xs
  | 0, xs, h => by
    have : xs = [] := List.length_eq_zero_iff.mp (Nat.le_zero.mp h)
    simp [chunksOf, this]
  | fuel + 1, xs, h => by
    unfold chunksOf
    by_cases he : xs.isEmpty
    · simp [List.isEmpty_iff.mp he]
    · simp only [he, Bool.false_eq_true, ↓reduceIte, List.flatten_cons]
      have hne : xs ≠ [] := by simpa [List.isEmpty_iff] using he
      have hpos : 0 < xs.length := List.length_pos_iff.mpr hne
      rw [flatten_chunksOf k hk fuel (xs.drop k) (by simp [List.length_drop]; omega)]
      exact List.take_append_drop k xs

theorem map_chunksOf {α β : Type} (g : α → β) (k : Nat) :
    ∀ (fuel : Nat) (xs : List α), chunksOf k fuel (xs.map g) = (chunksOf k fuel xs).map (List.map g)
  | 0, _ => rfl
  | fuel + 1, xs => by
    unfold chunksOf
    by_cases he : xs.isEmpty
    · simp [List.isEmpty_iff.mp he]
    · have he' : (xs.map g).isEmpty = false := by simpa [List.isEmpty_iff] using he
      simp only [he, he', Bool.false_eq_true, ↓reduceIte, List.map_cons]
      rw [← List.map_drop, map_chunksOf g k fuel, List.map_take]

/-- chunking, applying a row-wise function to every chunk and concatenating is invisible -/
theorem chunk_cat_invisible {α β : Type} (g : α → β) (k : Nat) (hk : 0 < k) (X : List α) :
    ((chunksOf k X.length X).map (List.map g)).flatten = X.map g := by
  rw [← map_chunksOf, ← List.length_map (f := g), flatten_chunksOf k hk _ _ (Nat.le_refl _)]

/-- `GhostBatchNorm1d` around a row-wise `f` is `f`, for every virtual batch size and every batch -/
theorem ghostBN_map {R : Type} (vbs : Nat) (hv : 0 < vbs) (g : Vec R → Vec R) (X : Mat R) :
    ghostBN vbs (fun Y => Y.map g) X = X.map g := by
  unfold ghostBN
  by_cases h : X.length > 0
  · simp only [h, ↓reduceIte]
    apply chunk_cat_invisible
    have hnc : 0 < (X.length + vbs - 1) / vbs := Nat.div_pos (by omega) hv
    exact Nat.div_pos (by omega) hnc
  · simp [h]

/-! ### the head reshape is a per-sample operation -/

theorem length_headsOf {R : Type} (H d : Nat) (M : Mat R) : (headsOf H d M).length = H := by
  simp [headsOf]

theorem reshapeBH_map {R α : Type} (H d : Nat) (f : α → Mat R) (X : List α) :
    reshapeBH H d (X.map f) = X.flatMap fun M => headsOf H d (f M) := by
  simp [reshapeBH, List.flatMap_map]

/-- folding the heads into the batch axis, attending, and unfolding again is `attnSample` on every
    sample: the `(B,n,H,d) -> (B*H,n,d)` reshape never mixes samples. -/
theorem attnBatch_map {R α : Type} (head : Mat R → Mat R → Mat R → Mat R) (H d n : Nat)
    (fq fk fv : α → Mat R) (X : List α) :
    attnBatch head H d n (X.map fq) (X.map fk) (X.map fv) =
      X.map fun M => attnSample head H d n (fq M) (fk M) (fv M) := by
  unfold attnBatch attnSample unreshapeBH
  rw [reshapeBH_map, reshapeBH_map, reshapeBH_map, List.length_map]
  rw [zipWith_flatMap _ _ _ _ (fun x _ => by simp [length_headsOf])]
  rw [zipWith_flatMap _ _ _ _ (fun x _ => by simp [length_headsOf])]
  rw [splitN_flatMap H _ X (fun x _ => by simp [length_headsOf]), List.map_map]
  rfl

namespace TOps
variable {R : Type} (o : TOps R)

theorem add3_self_map_right (g : Mat R → Mat R) (X : T3 R) :
    o.add3 X (X.map g) = X.map fun M => o.addM M (g M) := by
  unfold add3 addM; exact zipWith_self_map_right _ _ _

theorem add3_self_map_left (g : Mat R → Mat R) (X : T3 R) :
    o.add3 (X.map g) X = X.map fun M => o.addM (g M) M := by
  unfold add3 addM; exact zipWith_self_map_left _ _ _

theorem add3_map_map {α : Type} (f g : α → Mat R) (X : List α) :
    o.add3 (X.map f) (X.map g) = X.map fun M => o.addM (f M) (g M) := by
  unfold add3 addM; exact zipWith_map_map_self _ _ _ _

theorem mhaBatch_eq (c n : Nat) (m : MHA R) (X : T3 R) :
    o.mhaBatch c n m X = X.map (o.mhaSample c n m) := by
  simp only [mhaBatch, linearLast3, attnBatch_map, List.map_map, Function.comp_def]
  rfl

theorem teLayerBatch_eq (c n : Nat) (L : TELayer R) (X : T3 R) :
    o.teLayerBatch c n L X = X.map (o.teLayerSample c n L) := by
  simp only [teLayerBatch, layerNormLast3, linearLast3, mhaBatch_eq, add3_self_map_right,
    List.map_map, Function.comp_def, add3_map_map]
  rfl

end TOps

/-! ### column selections and permutations -/

theorem selectRows_range {α : Type} (X : List α) : selectRows (List.range X.length) X = X := by
  induction X with
  | nil => rfl
  | cons x xs ih =>
    unfold selectRows at ih ⊢
    rw [List.length_cons, List.range_succ_eq_map, List.filterMap_cons]
    simp only [List.getElem?_cons_zero, List.filterMap_map]
    congr 1

theorem selectRows_perm {α : Type} {σ : List Nat} (X : List α) (h : σ ~ List.range X.length) :
    selectRows σ X ~ X := by
  have := List.Perm.filterMap (fun i => X[i]?) h
  rw [show List.filterMap (fun i => X[i]?) (List.range X.length) = X from selectRows_range X] at this
  exact this

theorem selectRows_perm_length {α : Type} {σ : List Nat} (X : List α) (h : σ ~ List.range X.length) :
    (selectRows σ X).length = X.length := (selectRows_perm X h).length_eq

/-- `f` acts on the `n` columns of a sample equivariantly: it keeps their number and commutes with
    every re-ordering `σ` of the columns (`σ` = any permutation of `0 … n-1`). -/
def ColEquiv {R : Type} (n : Nat) (f : Mat R → Mat R) : Prop :=
  ∀ M : Mat R, M.length = n →
    (f M).length = n ∧ ∀ σ, σ ~ List.range n → f (selectRows σ M) = selectRows σ (f M)

theorem colEquiv_map {R : Type} (n : Nat) (t : Vec R → Vec R) : ColEquiv n fun M => M.map t := by
  intro M hM
  exact ⟨by simp [hM], fun σ _ => (selectRows_map t σ M).symm⟩

theorem colEquiv_comp {R : Type} {n : Nat} {f g : Mat R → Mat R} (hf : ColEquiv n f) (hg : ColEquiv n g) :
    ColEquiv n fun M => g (f M) := by
  intro M hM
  obtain ⟨hfl, hfs⟩ := hf M hM
  obtain ⟨hgl, hgs⟩ := hg (f M) hfl
  exact ⟨hgl, fun σ hσ => by beta_reduce; rw [hfs σ hσ, hgs σ hσ]⟩

theorem colEquiv_zipWith {R : Type} {n : Nat} (op : Vec R → Vec R → Vec R) {f g : Mat R → Mat R}
    (hf : ColEquiv n f) (hg : ColEquiv n g) : ColEquiv n fun M => List.zipWith op (f M) (g M) := by
  intro M hM
  obtain ⟨hfl, hfs⟩ := hf M hM
  obtain ⟨hgl, hgs⟩ := hg M hM
  refine ⟨by simp [hfl, hgl], fun σ hσ => ?_⟩
  beta_reduce
  rw [hfs σ hσ, hgs σ hσ, selectRows_zipWith _ _ _ _ (hfl.trans hgl.symm)]

theorem colEquiv_id {R : Type} (n : Nat) : ColEquiv (R := R) n fun M => M :=
  fun _ hM => ⟨hM, fun _ _ => rfl⟩

/-- a layer whose output row for column `m` is `t M m`, with `t M` a *symmetric* function of the
    columns `M`, is column-equivariant -/
theorem colEquiv_of_token {R : Type} {n : Nat} {f : Mat R → Mat R} (t : Mat R → Vec R → Vec R)
    (hf : ∀ M, M.length = n → f M = M.map (t M)) (ht : ∀ M M', M ~ M' → t M = t M') : ColEquiv n f := by
  intro M hM
  refine ⟨by rw [hf M hM]; simp [hM], fun σ hσ => ?_⟩
  have hp : selectRows σ M ~ M := selectRows_perm M (hM ▸ hσ)
  rw [hf M hM, hf _ (hp.length_eq.trans hM), ht _ _ hp, selectRows_map]

theorem colEquiv_foldl {R L : Type} {n : Nat} (G : L → Mat R → Mat R) (ls : List L)
    (h : ∀ l ∈ ls, ColEquiv n (G l)) : ColEquiv n fun M => ls.foldl (fun x l => G l x) M := by
  induction ls with
  | nil => exact colEquiv_id n
  | cons l ls ih =>
    have h1 := h l (by simp)
    have h2 := ih fun l' hl' => h l' (by simp [hl'])
    exact colEquiv_comp h1 h2

/-! ### symmetric sums -/

/-- the algebraic hypothesis of the equivariance theorems: addition is commutative and associative -/
structure AddCommAssoc {R : Type} (o : TOps R) : Prop where
  comm : ∀ a b, o.add a b = o.add b a
  assoc : ∀ a b c, o.add (o.add a b) c = o.add a (o.add b c)

namespace TOps
variable {R : Type} (o : TOps R)

theorem sum_perm (h : AddCommAssoc o) {l₁ l₂ : List R} (p : l₁ ~ l₂) : o.sum l₁ = o.sum l₂ := by
  unfold sum
  apply List.Perm.foldl_eq' p
  intro x _ y _ z
  rw [h.assoc, h.comm x y, ← h.assoc]

theorem dot_map_map {α : Type} (a b : α → R) (N : List α) :
    o.dot (N.map a) (N.map b) = o.sum (N.map fun m => o.mul (a m) (b m)) := by
  unfold dot; rw [zipWith_map_map_self]

/-- one attention row is a symmetric function of the (key, value) columns -/
theorem sdpaRow_perm {α : Type} (h : AddCommAssoc o) (s : R) (d : Nat) (kf vf : α → Vec R)
    {M M' : List α} (p : M ~ M') (q : Vec R) :
    o.sdpaRow s d (M.map kf) (M.map vf) q = o.sdpaRow s d (M'.map kf) (M'.map vf) q := by
  have key : ∀ N : List α, o.sdpaRow s d (N.map kf) (N.map vf) q =
      (List.range d).map fun l => o.sum (N.map fun m =>
        o.mul (o.div (o.exp (o.mul (o.dot q (kf m)) s))
                (o.sum (N.map fun m => o.exp (o.mul (o.dot q (kf m)) s))))
              ((vf m).getD l o.zero)) := by
    intro N
    simp only [sdpaRow, softmaxV, colOf, List.map_map, Function.comp_def, dot_map_map]
  rw [key, key, o.sum_perm h (p.map fun m => o.exp (o.mul (o.dot q (kf m)) s))]
  apply List.map_congr_left
  intro l _
  exact o.sum_perm h (p.map _)

end TOps

theorem mergeHeads_map {R α : Type} (H : Nat) (r : Nat → α → Vec R) (M : List α) :
    mergeHeads M.length ((List.range H).map fun h => M.map (r h)) =
      M.map fun m => (List.range H).flatMap fun h => r h m := by
  apply List.ext_getElem
  · simp [mergeHeads]
  · intro i h1 h2
    have hi : i < M.length := by simpa [mergeHeads] using h1
    simp [mergeHeads, List.flatMap_map, List.getD_eq_getElem?_getD, hi]

/-- the slice of head `h` out of a `H*d` vector -/
def headSlice {R : Type} (d h : Nat) (v : Vec R) : Vec R := (v.drop (h * d)).take d

namespace TOps
variable {R : Type} (o : TOps R)

/-- multi-head scaled-dot-product attention of one sample, column by column -/
theorem attnSample_sdpa_map {α : Type} (s : R) (d H : Nat) (fq fk fv : α → Vec R) (M : List α) :
    attnSample (o.sdpaHead s d) H d M.length (M.map fq) (M.map fk) (M.map fv) =
      M.map fun m => (List.range H).flatMap fun h =>
        o.sdpaRow s d (M.map fun m => headSlice d h (fk m)) (M.map fun m => headSlice d h (fv m))
          (headSlice d h (fq m)) := by
  unfold attnSample headsOf
  simp only [List.map_map, zipWith_map_map_self, sdpaHead, Function.comp_def]
  exact mergeHeads_map H _ M

/-- … hence column-equivariant, for any number of heads -/
theorem colEquiv_attn (h : AddCommAssoc o) (n : Nat) (s : R) (d H : Nat) (fq fk fv : Vec R → Vec R) :
    ColEquiv n fun M => attnSample (o.sdpaHead s d) H d n (M.map fq) (M.map fk) (M.map fv) := by
  apply colEquiv_of_token
    (fun M m => (List.range H).flatMap fun hh =>
        o.sdpaRow s d (M.map fun m => headSlice d hh (fk m)) (M.map fun m => headSlice d hh (fv m))
          (headSlice d hh (fq m)))
  · intro M hM
    rw [← hM]; exact o.attnSample_sdpa_map s d H fq fk fv M
  · intro M M' p
    funext m
    apply List.flatMap_congr
    intro hh _
    exact o.sdpaRow_perm h s d _ _ p _

end TOps

/-! ### denominators are positive (ordered field, positive `exp`) -/

section Field
variable {R : Type} [Field R] [LinearOrder R] [IsStrictOrderedRing R]

/-- the scalar operations of an ordered field; the transcendental functions and the irrational
    literals are arbitrary -/
def fieldOps (exp tanh sqrt erf : R → R) (sqrtHalf seluAlpha seluScale : R) : TOps R where
  zero := 0
  one := 1
  add := (· + ·)
  sub := (· - ·)
  mul := (· * ·)
  div := (· / ·)
  neg := fun x => -x
  exp := exp
  tanh := tanh
  sqrt := sqrt
  erf := erf
  max := max
  min := min
  ofNat := fun n => (n : R)
  negBig := -100000
  half := 1 / 2
  sqrtHalf := sqrtHalf
  seluAlpha := seluAlpha
  seluScale := seluScale

theorem foldl_add_pos : ∀ (xs : List R) (a : R), 0 ≤ a → (∀ x ∈ xs, 0 < x) → (0 < a ∨ xs ≠ []) →
    0 < xs.foldl (· + ·) a
  | [], a, _, _, h => by
    rcases h with h | h
    · simpa using h
    · exact absurd rfl h
  | x :: xs, a, ha, hx, _ => by
    have hx0 : 0 < x := hx x (by simp)
    simp only [List.foldl_cons]
    exact foldl_add_pos xs (a + x) (by linarith) (fun y hy => hx y (by simp [hy])) (Or.inl (by linarith))

theorem foldl_add_nonneg : ∀ (xs : List R) (a : R), 0 ≤ a → (∀ x ∈ xs, 0 ≤ x) → 0 ≤ xs.foldl (· + ·) a
  | [], a, ha, _ => by simpa using ha
  | x :: xs, a, ha, hx => by
    have hx0 : 0 ≤ x := hx x (by simp)
    simp only [List.foldl_cons]
    exact foldl_add_nonneg xs (a + x) (by linarith) (fun y hy => hx y (by simp [hy]))

variable (exp tanh sqrt erf : R → R) (c1 c2 c3 : R)

/-- every softmax denominator is positive -/
theorem softmax_denominator_pos (hexp : ∀ x, 0 < exp x) (xs : List R) (hne : xs ≠ []) :
    0 < (fieldOps exp tanh sqrt erf c1 c2 c3).sum (xs.map (fieldOps exp tanh sqrt erf c1 c2 c3).exp) := by
  unfold TOps.sum
  apply foldl_add_pos _ _ (le_refl _)
  · intro x hx
    obtain ⟨y, _, rfl⟩ := List.mem_map.mp hx
    exact hexp y
  · right; simpa using hne

/-- every variance is non-negative, so `var + eps` is positive -/
theorem variance_add_eps_pos (xs : List R) (eps : R) (heps : 0 < eps) :
    0 < (fieldOps exp tanh sqrt erf c1 c2 c3).add ((fieldOps exp tanh sqrt erf c1 c2 c3).variance xs) eps := by
  have hv : 0 ≤ (fieldOps exp tanh sqrt erf c1 c2 c3).variance xs := by
    unfold TOps.variance TOps.mean TOps.sum
    apply div_nonneg
    · apply foldl_add_nonneg _ _ (le_refl _)
      intro x hx
      obtain ⟨y, _, rfl⟩ := List.mem_map.mp hx
      exact mul_self_nonneg _
    · exact Nat.cast_nonneg _
  show 0 < (fieldOps exp tanh sqrt erf c1 c2 c3).variance xs + eps
  linarith

/-- the sigmoid of `nn.GLU` never divides by zero -/
theorem sigmoid_denominator_pos (hexp : ∀ x, 0 < exp x) (x : R) :
    0 < (fieldOps exp tanh sqrt erf c1 c2 c3).add (fieldOps exp tanh sqrt erf c1 c2 c3).one
          ((fieldOps exp tanh sqrt erf c1 c2 c3).exp ((fieldOps exp tanh sqrt erf c1 c2 c3).neg x)) := by
  show 0 < 1 + exp (-x)
  have := hexp (-x)
  linarith

end Field

/-! ### a toy instance for the non-vacuity examples (`decide` needs computable scalars) -/

/-- integers with truncating division; `exp` underflows to `0` below `-1000` -/
def intOps : TOps Int where
  zero := 0
  one := 1
  add := (· + ·)
  sub := (· - ·)
  mul := (· * ·)
  div := (· / ·)
  neg := fun x => -x
  exp := fun x => if x < -1000 then 0 else if x < 0 then 1 else x + 2
  tanh := fun x => x
  sqrt := fun x => x
  erf := fun x => x
  max := max
  min := min
  ofNat := fun n => (n : Int)
  negBig := -100000
  half := 1
  sqrtHalf := 1
  seluAlpha := 1
  seluScale := 1

theorem intOps_addCommAssoc : AddCommAssoc intOps :=
  ⟨fun a b => Int.add_comm a b, fun a b c => Int.add_assoc a b c⟩

end TFVerif
